#!/bin/bash
# MANIFEST.setup_cmd: build the Lean model, the proofs and the native driver from files on disk (offline).
# The driver must build (every check needs it). The proofs are built here to warm the cache; a proof module that does not
# build is reported by the check of the property it belongs to (a broken obligation is a finding of that check, not a setup
# failure), so its failure here only prints a warning.
set -e -o pipefail
cd "$(dirname "$0")"
export PYTHONDONTWRITEBYTECODE=1
/venv/bin/python -m harness.translate /repo
cd lean
lake build driver 2>&1 | grep -v "conda" | tail -3
test -x .lake/build/bin/driver
if ! lake build 2>&1 | grep -v "conda" | tail -8; then
  echo "WARNING: some proof modules do not build; the checks of the properties they belong to will report it"
fi
exit 0
