#!/bin/bash
# MANIFEST.setup_cmd: build the Lean model, the proofs and the native driver from files on disk (offline).
set -e -o pipefail
cd "$(dirname "$0")"
export PYTHONDONTWRITEBYTECODE=1
/venv/bin/python -m harness.translate /repo
cd lean
lake build 2>&1 | grep -v "conda" | tail -5
test -x .lake/build/bin/driver
