/-
  The scanner and the declaration handlers of `TokenParser` (dissect/cstruct/parser.py), up to — not including — type
  resolution and the mutation of the `cstruct` object:

    parseDecls text = handlers (scan (stripComments text))   :  List Decl  (+ the error that stopped the parse)

  * `scan` mirrors `re.Scanner(self.TOK.tokens).scan`: at every position the patterns of `_tokencollection` are tried in
    table order and the FIRST one that matches wins (not the longest); `\s+` and the catch-all `.` produce no token.  Each
    regex is a hand-written recogniser that returns the matched text split into the regex's groups; every recogniser is
    deterministic because for these thirteen regexes backtracking never finds a second way to match (argued next to each
    one), except where noted (`#define` at the end of the text, the base type of an enum).
  * the handlers mirror `parse / _config_flag / _constant / _enum / _typedef / _struct / _parse_field / _parse_field_type /
    _names / _identifier / _lookup` on the token list, including the Python-level accidents (`TokenConsumer.eol` raises
    AttributeError — it calls a method it does not have — or IndexError; `_typedef` without a type raises TypeError;
    an error message about the token after the last one raises AttributeError).

  Out of the model: what the handlers do with a declaration (resolve, add_type, Expression evaluation, anonymous numbering,
  compilation, config flags).  Character classes: `\s` is Python's Unicode white space (29 code points); `\d` and `\w` are
  modelled for ASCII only (`[0-9]`, `[a-zA-Z0-9_]`) — texts with non-ASCII digits in a bit width or after a `$lookup` are
  outside the model.  Tokens carry no position: the match object is only used for line numbers in error messages.
-/
import CstructModel.Parser

namespace Cstruct.DefParser

-- ------------------------------------------------------------------------------------------------ character classes

/-- `\s` of a `str` pattern, `str.isspace`, `str.strip` -/
def isWs (c : Char) : Bool :=
  let n := c.toNat
  (9 ≤ n && n ≤ 13) || (28 ≤ n && n ≤ 32) || n == 0x85 || n == 0xa0 || n == 0x1680 || (0x2000 ≤ n && n ≤ 0x200a) ||
  n == 0x2028 || n == 0x2029 || n == 0x202f || n == 0x205f || n == 0x3000

/-- `[a-zA-Z0-9_]` -/
def isWord (c : Char) : Bool := c.isAlphanum || c == '_'

/-- `[a-zA-Z_]` -/
def isIdStart (c : Char) : Bool := c.isAlpha || c == '_'

/-- `[^\r\n]` -/
def notEol (c : Char) : Bool := c != '\r' && c != '\n'

/-- the line boundaries of `str.splitlines` -/
def isLineBreak (c : Char) : Bool :=
  let n := c.toNat
  (10 ≤ n && n ≤ 13) || (28 ≤ n && n ≤ 30) || n == 0x85 || n == 0x2028 || n == 0x2029

/-- a literal prefix: the text after it -/
def lit : List Char → List Char → Option (List Char)
  | [], l => some l
  | p :: ps, c :: cs => if p = c then lit ps cs else none
  | _ :: _, [] => none

/-- `[ \t\n\r\f\v]`: what `\s` means inside `re.Scanner`, which compiles the table WITHOUT the Unicode flag that `re.compile` gives
    a `str` pattern (the handlers re-match token values with the compiled patterns of `TOK.patterns`, where `\s` is `isWs`) -/
def isWsA (c : Char) : Bool := c == ' ' || c == '\t' || c == '\n' || c == '\r' || c == '\x0c' || c == '\x0b'

def rstripBy (ws : Char → Bool) (l : List Char) : List Char := (l.reverse.dropWhile ws).reverse

/-- `str.strip()` -/
def rstrip (l : List Char) : List Char := rstripBy isWs l
def lstrip (l : List Char) : List Char := l.dropWhile isWs
def strip (l : List Char) : List Char := rstrip (lstrip l)

/-- the trailing white space that `rstrip` removes -/
def trailWs (l : List Char) : List Char := (l.reverse.takeWhile isWs).reverse

-- ------------------------------------------------------------------------------------------------ tokens

inductive TK
  | config | define | typedef | struct | enum | defs | name | ident | block | lookup | eol
  deriving DecidableEq, Repr, Inhabited

def TK.pyName : TK → String
  | .config => "CONFIG_FLAG" | .define => "DEFINE" | .typedef => "TYPEDEF" | .struct => "STRUCT" | .enum => "ENUM"
  | .defs => "DEFS" | .name => "NAME" | .ident => "IDENTIFIER" | .block => "BLOCK" | .lookup => "LOOKUP" | .eol => "EOL"

structure Tok where
  kind : TK
  value : List Char
  deriving DecidableEq, Repr, Inhabited

-- ------------------------------------------------------------------------------------------------ recognisers
-- every recogniser: the groups, the matched text (the token value), the text after the match

/-- `#\[(?P<values>[^\]]+)\](?=\s*)` (the look-ahead is always true) -/
structure ConfigM where
  values : List Char
  deriving DecidableEq, Repr

def matchConfig (l : List Char) : Option (ConfigM × List Char × List Char) :=
  match l with
  | '#' :: '[' :: r =>
    let body := r.takeWhile (· != ']')
    match r.dropWhile (· != ']') with
    | ']' :: rest => if body.isEmpty then none else some (⟨body⟩, '#' :: '[' :: body ++ [']'], rest)
    | _ => none
  | _ => none

/-- (before, c, after) for the LAST element `c` of the list with `notEol c` -/
def splitLastNotEol : List Char → Option (List Char × Char × List Char)
  | [] => none
  | c :: r =>
    match splitLastNotEol r with
    | some (a, d, b) => some (c :: a, d, b)
    | none => if notEol c then some ([], c, r) else none

/-- `#define\s+(?P<name>[^\s]+)\s+(?P<value>[^\r\n]+)\s*`.  `[^\s]+` and `\s+` cannot trade characters, so the only
    backtracking is at the end of the text: when the white space after the name runs to the end, `\s+` gives characters
    back until the value can start at a white-space character that is not CR / LF (`#define A` + two blanks defines
    `A` as one blank). -/
structure DefineM where
  name : List Char
  value : List Char
  deriving DecidableEq, Repr

def matchDefine (sp : Char → Bool) (l : List Char) : Option (DefineM × List Char × List Char) :=
  match lit ['#', 'd', 'e', 'f', 'i', 'n', 'e'] l with
  | none => none
  | some r1 =>
    let ws1 := r1.takeWhile sp
    let r2 := r1.dropWhile sp
    let name := r2.takeWhile (fun c => !sp c)
    let r3 := r2.dropWhile (fun c => !sp c)
    let ws2 := r3.takeWhile sp
    let r4 := r3.dropWhile sp
    if ws1.isEmpty || name.isEmpty then none else
    match ws2 with
    | [] => none
    | w :: ws2t =>
      match r4 with
      | _ :: _ =>
        let val := r4.takeWhile notEol
        let r5 := r4.dropWhile notEol
        let ws3 := r5.takeWhile sp
        some (⟨name, val⟩, '#' :: 'd' :: 'e' :: 'f' :: 'i' :: 'n' :: 'e' :: ws1 ++ name ++ ws2 ++ val ++ ws3, r5.dropWhile sp)
      | [] =>
        match splitLastNotEol ws2t with
        | some (_, c, _) => some (⟨name, [c]⟩, '#' :: 'd' :: 'e' :: 'f' :: 'i' :: 'n' :: 'e' :: ws1 ++ name ++ w :: ws2t, [])
        | none => none

/-- `typedef(?=\s)` -/
def matchTypedef (sp : Char → Bool) (l : List Char) : Option (List Char × List Char) :=
  match lit ['t', 'y', 'p', 'e', 'd', 'e', 'f'] l with
  | some (c :: r) => if sp c then some (['t', 'y', 'p', 'e', 'd', 'e', 'f'], c :: r) else none
  | _ => none

/-- `(?:struct|union)(?=\s|{)` -/
def matchStruct (sp : Char → Bool) (l : List Char) : Option (List Char × List Char) :=
  let after (kw : List Char) : Option (List Char × List Char) :=
    match lit kw l with
    | some (c :: r) => if sp c || c == '{' then some (kw, c :: r) else none
    | _ => none
  match after ['s', 't', 'r', 'u', 'c', 't'] with
  | some x => some x
  | none => after ['u', 'n', 'i', 'o', 'n']

/-- `(?P<enumtype>enum|flag)\s+(?P<name>[^\s:{]+)?\s*(:\s*(?P<type>[^{]+?)\s*)?\{(?P<values>[^}]+)\}\s*(?=;)`.
    The name is the maximal run (a shorter one is followed by a name character, which is neither `:` nor `{`).  After `:`
    the brace is the first `{` of the text (the lazy `[^{]+?` cannot cross it): the type is the text up to it without the
    white space on either side — and when there is nothing between `:` + white space and `{`, `\s*` gives its last
    character back and the type is that one white-space character.  `[^}]+` then `}`, white space, and the `;` that must
    follow leave no choice either. -/
structure EnumM where
  isFlag : Bool
  name : Option (List Char)
  type : Option (List Char)
  values : List Char
  deriving DecidableEq, Repr

def enumBody (sp : Char → Bool) (l : List Char) : Option (List Char × List Char × List Char) :=
  -- at `{`: (values, matched text, rest); rest starts with `;`
  match l with
  | '{' :: r =>
    let vals := r.takeWhile (· != '}')
    match r.dropWhile (· != '}') with
    | '}' :: r' =>
      let ws := r'.takeWhile sp
      match r'.dropWhile sp with
      | ';' :: rest => if vals.isEmpty then none else some (vals, '{' :: vals ++ '}' :: ws, ';' :: rest)
      | _ => none
    | _ => none
  | _ => none

/-- `(?P<enumtype>enum|flag)`: (is flag, keyword, rest) -/
def enumKw (l : List Char) : Option (Bool × List Char × List Char) :=
  match lit ['e', 'n', 'u', 'm'] l with
  | some r => some (false, ['e', 'n', 'u', 'm'], r)
  | none =>
    match lit ['f', 'l', 'a', 'g'] l with
    | some r => some (true, ['f', 'l', 'a', 'g'], r)
    | none => none

/-- `(:\s*(?P<type>[^{]+?)\s*)?` in front of `{`: (type, matched text, rest — it starts with `{` when there was a `:`) -/
def enumType (sp : Char → Bool) (r4 : List Char) : Option (Option (List Char) × List Char × List Char) :=
  match r4 with
  | ':' :: r5 =>
    let w := r5.takeWhile sp
    let r6 := r5.dropWhile sp
    let R := r6.takeWhile (· != '{')
    let r7 := r6.dropWhile (· != '{')
    match R with
    | _ :: _ => some (some (rstripBy sp R), ':' :: w ++ R, r7)
    | [] =>
      match w.getLast? with
      | some c => some (some [c], ':' :: w, r7)
      | none => none
  | _ => some (none, [], r4)

def matchEnum (sp : Char → Bool) (l : List Char) : Option (EnumM × List Char × List Char) :=
  match enumKw l with
  | none => none
  | some (fl, kwt, r1) =>
    let ws1 := r1.takeWhile sp
    let r2 := r1.dropWhile sp
    let nm := r2.takeWhile (fun c => !sp c && c != ':' && c != '{')
    let r3 := r2.dropWhile (fun c => !sp c && c != ':' && c != '{')
    let ws2 := r3.takeWhile sp
    let r4 := r3.dropWhile sp
    if ws1.isEmpty then none else
    match enumType sp r4 with
    | none => none
    | some (ty, tt, r7) =>
      match enumBody sp r7 with
      | some (vals, bt, rest) =>
        some (⟨fl, if nm.isEmpty then none else some nm, ty, vals⟩, kwt ++ ws1 ++ nm ++ ws2 ++ tt ++ bt, rest)
      | none => none

/-- the repetition of `\s*,\s*[a-zA-Z0-9_]+` after a first name, as long as possible.  A comma that is not followed by
    a name makes the whole pattern fail (giving the comma back leaves a `,` where `;` is required).
    (text of the repetitions, number of repetitions, rest) -/
def defsLoop (sp : Char → Bool) : Nat → List Char → Option (List Char × Nat × List Char)
  | 0, _ => none
  | fuel + 1, l =>
    let wsa := l.takeWhile sp
    match l.dropWhile sp with
    | ',' :: r =>
      let wsb := r.takeWhile sp
      let r' := r.dropWhile sp
      let w := r'.takeWhile isWord
      if w.isEmpty then none else
      match defsLoop sp fuel (r'.dropWhile isWord) with
      | some (t, n, rest) => some (wsa ++ ',' :: wsb ++ w ++ t, n + 1, rest)
      | none => none
    | _ => some ([], 0, l)

/-- `(?<=})\s*(?P<defs>(?:[a-zA-Z0-9_]+\s*,\s*)+[a-zA-Z0-9_]+)\s*(?=;)`; `afterClose`: the character before the position
    is `}` -/
def matchDefs (sp : Char → Bool) (afterClose : Bool) (l : List Char) : Option (List Char × List Char) :=
  if !afterClose then none else
  let ws0 := l.takeWhile sp
  let r1 := l.dropWhile sp
  let w1 := r1.takeWhile isWord
  if w1.isEmpty then none else
  match defsLoop sp (l.length + 1) (r1.dropWhile isWord) with
  | some (t, n, r2) =>
    if n = 0 then none else
    let ws3 := r2.takeWhile sp
    match r2.dropWhile sp with
    | ';' :: rest => some (ws0 ++ w1 ++ t ++ ws3, ';' :: rest)
    | _ => none
  | none => none

/-- (before, after) the LAST `]` of the list -/
def splitLastClose : List Char → Option (List Char × List Char)
  | [] => none
  | c :: r =>
    match splitLastClose r with
    | some (a, b) => some (c :: a, b)
    | none => if c = ']' then some ([], r) else none

/-- `(?P<name>(?:\*\s*)*[a-zA-Z0-9_]+)(?:\s*:\s*(?P<bits>\d+))?(?:\[(?P<count>[^;\n]*)\])?\s*(?=;)`.
    Stars and the white space after each of them: the maximal run of `*` / white space behind a first `*`.  The word is
    maximal.  The bit width is taken whenever `\s*:\s*\d+` is there.  `[^;\n]*` is greedy, so the count ends at the LAST
    `]` before the next `;` or newline (that is how `a[2][3]` gets the count text `2][3`); an earlier `]` cannot work
    because the later one would have to be white space.  Then white space and the `;` that must follow. -/
structure NameM where
  name : List Char
  bits : Option (List Char)
  count : Option (List Char)
  deriving DecidableEq, Repr

/-- `(?:\*\s*)*` -/
def namePre (sp : Char → Bool) : List Char → List Char
  | '*' :: r => '*' :: r.takeWhile (fun c => c == '*' || sp c)
  | _ => []

/-- `(?:\s*:\s*(\d+))?` at `r`: (digits, matched text, rest) -/
def nameBits (sp : Char → Bool) (r : List Char) : Option (List Char × List Char × List Char) :=
  match r.dropWhile sp with
  | ':' :: r1 =>
    let ds := (r1.dropWhile sp).takeWhile Char.isDigit
    if ds.isEmpty then none
    else some (ds, r.takeWhile sp ++ ':' :: r1.takeWhile sp ++ ds, (r1.dropWhile sp).dropWhile Char.isDigit)
  | _ => none

/-- `\s*(?=;)` at `r`: (white space, rest) -/
def nameTail (sp : Char → Bool) (r : List Char) : Option (List Char × List Char) :=
  match r.dropWhile sp with
  | ';' :: rest => some (r.takeWhile sp, ';' :: rest)
  | _ => none

/-- `(?:\[([^;\n]*)\])?\s*(?=;)` at `r`: (count, matched text, rest) -/
def nameCount (sp : Char → Bool) (r : List Char) : Option (Option (List Char) × List Char × List Char) :=
  match r with
  | '[' :: r3 =>
    match splitLastClose (r3.takeWhile (fun c => c != ';' && c != '\n')) with
    | some (cnt, _) =>
      match nameTail sp (r3.drop (cnt.length + 1)) with
      | some (ws, rest) => some (some cnt, '[' :: cnt ++ ']' :: ws, rest)
      | none => none
    | none => none
  | _ =>
    match nameTail sp r with
    | some (ws, rest) => some (none, ws, rest)
    | none => none

def matchName (sp : Char → Bool) (l : List Char) : Option (NameM × List Char × List Char) :=
  let pre := namePre sp l
  let r0 := l.drop pre.length
  let w := r0.takeWhile isWord
  let r1 := r0.dropWhile isWord
  if w.isEmpty then none else
  let bitsM := nameBits sp r1
  let bits := bitsM.map (·.1)
  let bt := match bitsM with | some (_, t, _) => t | none => []
  let r2 := match bitsM with | some (_, _, r) => r | none => r1
  match nameCount sp r2 with
  | some (cnt, ct, rest) => some (⟨pre ++ w, bits, cnt⟩, pre ++ w ++ bt ++ ct, rest)
  | none => none

/-- `[a-zA-Z_][a-zA-Z0-9_]*` -/
def matchIdent (l : List Char) : Option (List Char × List Char) :=
  match l with
  | c :: r => if isIdStart c then some (c :: r.takeWhile isWord, r.dropWhile isWord) else none
  | [] => none

/-- `[{}]` -/
def matchBlock (l : List Char) : Option (List Char × List Char) :=
  match l with
  | c :: r => if c = '{' ∨ c = '}' then some ([c], r) else none
  | [] => none

/-- `\$(?P<name>[^\s]+) = (?P<value>{[^}]+})\w*[\r\n]+` (`\w` for ASCII) -/
structure LookupM where
  name : List Char
  value : List Char
  deriving DecidableEq, Repr

def matchLookup (sp : Char → Bool) (l : List Char) : Option (LookupM × List Char × List Char) :=
  match l with
  | '$' :: r =>
    let nm := r.takeWhile (fun c => !sp c)
    if nm.isEmpty then none else
    match lit [' ', '=', ' ', '{'] (r.dropWhile (fun c => !sp c)) with
    | some r1 =>
      let body := r1.takeWhile (· != '}')
      match r1.dropWhile (· != '}') with
      | '}' :: r2 =>
        let w := r2.takeWhile isWord
        let r3 := r2.dropWhile isWord
        let nl := r3.takeWhile (fun c => !notEol c)
        if body.isEmpty || nl.isEmpty then none else
        some (⟨nm, '{' :: body ++ ['}']⟩, '$' :: nm ++ ' ' :: '=' :: ' ' :: '{' :: body ++ '}' :: w ++ nl, r3.dropWhile (fun c => !notEol c))
      | _ => none
    | none => none
  | _ => none

/-- `;` -/
def matchEol (l : List Char) : Option (List Char × List Char) :=
  match l with
  | ';' :: r => some ([';'], r)
  | _ => none

-- ------------------------------------------------------------------------------------------------ re.Scanner

/-- the alternation of the table, in table order: the first pattern that matches at this position -/
def matchTok (afterClose : Bool) (l : List Char) : Option (Tok × List Char) :=
  match matchConfig l with
  | some (_, v, r) => some (⟨.config, v⟩, r)
  | none =>
  match matchDefine isWsA l with
  | some (_, v, r) => some (⟨.define, v⟩, r)
  | none =>
  match matchTypedef isWsA l with
  | some (v, r) => some (⟨.typedef, v⟩, r)
  | none =>
  match matchStruct isWsA l with
  | some (v, r) => some (⟨.struct, v⟩, r)
  | none =>
  match matchEnum isWsA l with
  | some (_, v, r) => some (⟨.enum, v⟩, r)
  | none =>
  match matchDefs isWsA afterClose l with
  | some (v, r) => some (⟨.defs, v⟩, r)
  | none =>
  match matchName isWsA l with
  | some (_, v, r) => some (⟨.name, v⟩, r)
  | none =>
  match matchIdent l with
  | some (v, r) => some (⟨.ident, v⟩, r)
  | none =>
  match matchBlock l with
  | some (v, r) => some (⟨.block, v⟩, r)
  | none =>
  match matchLookup isWsA l with
  | some (_, v, r) => some (⟨.lookup, v⟩, r)
  | none =>
  match matchEol l with
  | some (v, r) => some (⟨.eol, v⟩, r)
  | none => none

/-- `re.Scanner.scan`, one character of the text per step.  `skip`: characters of the current match still to pass;
    `ac`: the previous character is `}` (the look-behind of DEFS).  At a position where no token pattern matches, `\s+`
    passes the whole white-space run and `.` one character (a newline is white space, so the scan never stops early:
    `remaining` is always empty and "invalid syntax in definition" cannot be raised). -/
def scanAux : Nat → Bool → List Char → List Tok
  | _, _, [] => []
  | skip + 1, _, c :: r => scanAux skip (c == '}') r
  | 0, ac, c :: r =>
    match matchTok ac (c :: r) with
    | some (t, _) => t :: scanAux (t.value.length - 1) (c == '}') r
    | none =>
      if isWsA c then scanAux (r.takeWhile isWsA).length false r
      else scanAux 0 (c == '}') r

def scan (l : List Char) : List Tok := scanAux 0 false l

-- ------------------------------------------------------------------------------------------------ declarations

/-- what `_parse_field_type` makes of a declarator text: pointer depth, name, array dimensions (count texts without the white
    space around them, outermost first; the empty text is `[]`), bit width -/
structure Declarator where
  ptr : Nat
  name : List Char
  dims : List (List Char)
  bits : Option Nat
  deriving DecidableEq, Repr, Inhabited

mutual
/-- the type a field / typedef starts from, before resolution -/
inductive TypeRef
  | none                                   -- no type in front of the declarator (`type_ = None`)
  | name (n : List Char)                   -- `resolve(" ".join(identifiers))`
  | structRef (tag : List Char)            -- `struct tag` followed by a declarator: `resolve(tag)`
  | inline (a : Aggr)                      -- `struct [tag] { ... }`
/-- a struct / union with a body: `_struct` up to the factory call.  `declNames`: the names after `}` (top level only) -/
inductive Aggr
  | mk (isUnion : Bool) (tag : Option (List Char)) (fields : List FieldDecl) (declNames : List (List Char))
/-- `_parse_field`: `Field(None, type_, None)` for an inline struct without a declarator, else type + declarator -/
inductive FieldDecl
  | anon (t : TypeRef)
  | named (t : TypeRef) (d : Declarator)
end

instance : Inhabited TypeRef := ⟨.none⟩

inductive Decl
  | config (values : List (List Char))                                   -- `#[a,b]`
  | const (name value : List Char)                                       -- `#define name value`
  | enum (isFlag : Bool) (name : List Char) (base : List Char) (members : List (List Char × Option (List Char)))
  | typedef (target : TypeRef) (names : List Declarator)
  | aggr (a : Aggr)
  | lookup (name value : List Char)

/-- ParserError messages and the Python exceptions the handlers run into by accident -/
inductive PErr
  | unexpectedToken          -- ParserError "unexpected token" (top level)
  | expectedBlock            -- ParserError "expected start of block"
  | unexpectedAnonStruct     -- ParserError "unexpected anonymous struct"
  | structNoName             -- ParserError "struct has no name"
  | expectedName             -- ParserError "expected name"
  | typedefBitfield          -- ParserError "typedefs cannot have bitfields"
  | depthRequired            -- ParserError "Depth required for multi-dimensional array"
  | eolAttribute             -- AttributeError: `TokenConsumer.eol` on a token that is not EOL calls `self._lineno`
  | eolIndex                 -- IndexError: `TokenConsumer.eol` / `consume` with no token left
  | noneAttribute            -- AttributeError: an error message about `tokens.next` when there is no token left
  | typedefNoType            -- TypeError: `issubclass(None, Structure)` in `_typedef` without a type
  | rematchAttribute         -- AttributeError: the Unicode-aware pattern of `TOK.patterns` does not match the token value that the
                             -- scanner (ASCII `\s`) produced: `None.groupdict()`
  | internal                 -- the step budget of the model ran out (cannot happen: budgets exceed the token count)
  deriving DecidableEq, Repr, Inhabited

def PErr.pyClass : PErr → String
  | .eolAttribute | .noneAttribute | .rematchAttribute => "AttributeError"
  | .eolIndex => "IndexError"
  | .typedefNoType => "TypeError"
  | .internal => "Internal"
  | _ => "ParserError"

def PErr.tag : PErr → String
  | .unexpectedToken => "unexpected-token" | .expectedBlock => "expected-block" | .unexpectedAnonStruct => "anonymous-struct"
  | .structNoName => "no-name" | .expectedName => "expected-name" | .typedefBitfield => "typedef-bitfield"
  | .depthRequired => "depth-required" | .eolAttribute => "eol-attribute" | .eolIndex => "eol-index"
  | .noneAttribute => "none-attribute" | .rematchAttribute => "rematch-attribute" | .typedefNoType => "typedef-no-type" | .internal => "internal"

-- ------------------------------------------------------------------------------------------------ handlers

/-- `str.split(sep)` for a one-character separator -/
def splitOn1 (sep : Char) : List Char → List (List Char)
  | [] => [[]]
  | c :: r =>
    match splitOn1 sep r with
    | [] => [[]]                    -- unreachable
    | h :: t => if c = sep then [] :: h :: t else (c :: h) :: t

/-- `str.split("][")` -/
def splitDims : List Char → List (List Char)
  | [] => [[]]
  | [c] => [[c]]
  | c :: d :: r =>
    if c = ']' ∧ d = '[' then [] :: splitDims r
    else match splitDims (d :: r) with
      | [] => [[c]]                 -- unreachable
      | h :: t => (c :: h) :: t

/-- `str.splitlines()` (a trailing line break does not open a further line; CR LF is one break).
    `cur`: the current line, reversed; `skipLf`: the previous character was a CR -/
def splitLinesGo : List Char → Bool → List Char → List (List Char)
  | cur, _, [] => if cur.isEmpty then [] else [cur.reverse]
  | cur, skipLf, c :: r =>
    if skipLf && c == '\n' then splitLinesGo cur false r
    else if isLineBreak c then cur.reverse :: splitLinesGo [] (c == '\r') r
    else splitLinesGo (c :: cur) false r

def splitLines (l : List Char) : List (List Char) := splitLinesGo [] false l

/-- `key, _, val = v.partition("=")` -/
def partitionEq : List Char → List Char × List Char
  | [] => ([], [])
  | c :: r => if c = '=' then ([], r) else let (a, b) := partitionEq r; (c :: a, b)

/-- the member loop of `_enum`: lines, then commas, then `key = value`; members without a key are skipped -/
def enumMembers (values : List Char) : List (List Char × Option (List Char)) :=
  (splitLines values).flatMap fun line =>
    (splitOn1 ',' line).filterMap fun v =>
      let (k, e) := partitionEq v
      let key := strip k
      let val := strip e
      if key.isEmpty then none else some (key, if val.isEmpty then none else some val)

/-- `while name.startswith("*"): name = name[1:].lstrip()` -/
def ptrLoop : Nat → List Char → Nat → Nat × List Char
  | 0, l, d => (d, l)
  | fuel + 1, l, d =>
    match l with
    | '*' :: r => ptrLoop fuel (lstrip r) (d + 1)
    | _ => (d, l)

def digitsToNat (ds : List Char) : Nat := ds.foldl (fun n c => 10 * n + (c.toNat - '0'.toNat)) 0

/-- `_parse_field_type` without the type: the NAME pattern is matched against `name + ";"`.  A dimension is recorded by its
    count text without the white space around it (`count.strip() == ""` is the null-terminated dimension `[]`; otherwise the
    text goes to `Expression`, whose tokenizer skips blanks).  The dimensions are applied innermost (last) first, and an empty
    dimension on top of an array is refused — for the declarator's own dimensions that is: an empty dimension anywhere but
    in the last position.  (An empty last dimension over a base type that is itself an array is also refused, by the same
    test; that depends on resolution and is not in this model.) -/
def parseDeclarator (text : List Char) : Except PErr Declarator :=
  match matchName isWs (text ++ [';']) with
  | none => .error .rematchAttribute
  | some (m, _, _) =>
    let (depth, nm) := ptrLoop (m.name.length + 1) m.name 0
    let dims := match m.count with
      | some c => (splitDims c).map strip
      | none => []
    if dims.dropLast.any (·.isEmpty) then .error .depthRequired else
    .ok ⟨depth, strip nm, dims, m.bits.map digitsToNat⟩

/-- `str.split()`: the maximal runs of characters that are no white space.  `cur`: the current word, reversed -/
def splitWordsGo : List Char → List Char → List (List Char)
  | cur, [] => if cur.isEmpty then [] else [cur.reverse]
  | cur, c :: r =>
    if isWs c then (if cur.isEmpty then splitWordsGo [] r else cur.reverse :: splitWordsGo [] r)
    else splitWordsGo (c :: cur) r

def splitWords (l : List Char) : List (List Char) := splitWordsGo [] l

/-- `" ".join(words)` -/
def joinBlank : List (List Char) → List Char
  | [] => []
  | [w] => w
  | w :: r => w ++ ' ' :: joinBlank r

/-- `" ".join(text.split())`: how `_enum` spells the base type before it resolves it -/
def normType (t : List Char) : List Char := joinBlank (splitWords t)

/-- What the handlers read off a token.  The handlers never look at a token's text except through the token's own pattern
    (`pattern.match(token.value [+ ";"]).groupdict()`), `str.strip`, `str.startswith("union")`, `value == "}"` and the
    identifier text; `Tok.obs` performs exactly these reads, and the handlers below work on the observed tokens.  (A failed
    re-match — `none` — is the AttributeError of `None.groupdict()`.) -/
inductive OTok
  | config (m : Option ConfigM)
  | define (m : Option DefineM)
  | typedef
  | struct (isUnion : Bool)
  | enum (m : Option EnumM)                                          -- the groups; the type as `" ".join(type.split())`
  | defs (names : List (List Char))                                   -- `[n.strip() for n in value.strip().split(",")]`
  | name (stripped : List Char) (d : Except PErr Declarator)         -- `value.strip()`, `_parse_field_type(·, value)`
  | ident (v : List Char)
  | block (isClose : Bool)
  | lookup (m : Option LookupM)
  | eol
  deriving Repr, Inhabited

def startsWith (p l : List Char) : Bool := (lit p l).isSome

def Tok.obs (t : Tok) : OTok :=
  match t.kind with
  | .config => .config ((matchConfig t.value).map (·.1))
  | .define => .define ((matchDefine isWs t.value).map (·.1))
  | .typedef => .typedef
  | .struct => .struct (startsWith ['u', 'n', 'i', 'o', 'n'] t.value)
  | .enum => .enum ((matchEnum isWs (t.value ++ [';'])).map fun r => { r.1 with type := r.1.type.map normType })
  | .defs => .defs ((splitOn1 ',' (strip t.value)).map strip)
  | .name => .name (strip t.value) (parseDeclarator t.value)
  | .ident => .ident t.value
  | .block => .block (t.value = ['}'])
  | .lookup => .lookup ((matchLookup isWs (t.value ++ [';'])).map (·.1))
  | .eol => .eol

/-- `TokenConsumer.eol` -/
def eol : List OTok → Except PErr (List OTok)
  | [] => .error .eolIndex
  | .eol :: r => .ok r
  | _ :: _ => .error .eolAttribute

/-- `_identifier`: (the identifiers joined by one blank, the remaining tokens) -/
def identifier : List OTok → List Char × List OTok
  | .ident v :: .ident w :: r => (v ++ ' ' :: (identifier (.ident w :: r)).1, (identifier (.ident w :: r)).2)
  | .ident v :: r => (v, r)
  | toks => ([], toks)

/-- `_names` -/
def names : List OTok → List (List Char) × List OTok
  | .eol :: r => ([], r)
  | .name s _ :: r => (s :: (names r).1, (names r).2)
  | .defs l :: r => (l ++ (names r).1, (names r).2)
  | toks => ([], toks)

/-- the end of `_struct` behind the member list: the declared names (top level only), an optional `;`, the name check -/
def structEnd (register isUnion : Bool) (tag : Option (List Char)) (fields : List FieldDecl) (toks : List OTok) :
    Except PErr (TypeRef × List OTok) :=
  let p : List (List Char) × List OTok := if register then names toks else ([], toks)
  let rest := match p.2 with
    | .eol :: r => r
    | t => t
  if register && p.1.isEmpty && tag.isNone then .error .structNoName
  else .ok (.inline (.mk isUnion tag fields p.1), rest)

/-- the end of `_parse_field` behind the type: the declarator and its `;`, or nothing behind an inline struct -/
def fieldTail (ty : TypeRef) (wasStruct : Bool) (toks : List OTok) : Except PErr (FieldDecl × List OTok) :=
  match toks with
  | .name _ d :: r =>
    match d with
    | .error e => .error e
    | .ok d =>
      match eol r with
      | .error e => .error e
      | .ok r' => .ok (.named ty d, r')
  | [] => if wasStruct then .ok (.anon ty, []) else .error .noneAttribute
  | _ :: _ => if wasStruct then .ok (.anon ty, toks) else .error .expectedName

mutual
/-- `_struct(tokens, register)`; the first token is the STRUCT token, an identifier behind it is the tag -/
def structH : Nat → Bool → List OTok → Except PErr (TypeRef × List OTok)
  | fuel + 1, register, .struct isUnion :: .ident v :: toks => structTail fuel register isUnion (some v) toks
  | fuel + 1, register, .struct isUnion :: toks => structTail fuel register isUnion none toks
  | _, _, _ => .error .internal

/-- `_struct` behind the keyword and the tag -/
def structTail : Nat → Bool → Bool → Option (List Char) → List OTok → Except PErr (TypeRef × List OTok)
  | 0, _, _, _, _ => .error .internal
  | _, _, _, _, [] => .error .noneAttribute
  | _, register, _, tag, .name s d :: r =>
    match tag, register with
    | some n, false => .ok (.structRef n, .name s d :: r)
    | _, _ => .error .unexpectedAnonStruct
  | fuel + 1, register, isUnion, tag, .block _ :: r =>
    match fieldsH fuel r with
    | .error e => .error e
    | .ok (fields, toks) => structEnd register isUnion tag fields toks
  | _, _, _, _, _ :: _ => .error .expectedBlock

/-- the member loop of `_struct`: until `}` or the end of the tokens -/
def fieldsH : Nat → List OTok → Except PErr (List FieldDecl × List OTok)
  | 0, _ => .error .internal
  | _, [] => .ok ([], [])
  | _, .block true :: r => .ok ([], r)
  | fuel + 1, toks =>
    match fieldH fuel toks with
    | .error e => .error e
    | .ok (f, toks) =>
      match fieldsH fuel toks with
      | .error e => .error e
      | .ok (fs, toks) => .ok (f :: fs, toks)

/-- `_parse_field` -/
def fieldH : Nat → List OTok → Except PErr (FieldDecl × List OTok)
  | 0, _ => .error .internal
  | _, .ident v :: r => fieldTail (.name (identifier (.ident v :: r)).1) false (identifier (.ident v :: r)).2
  | fuel + 1, .struct u :: r =>
    match structH fuel false (.struct u :: r) with
    | .error e => .error e
    | .ok (ty, r') => fieldTail ty true r'
  | _, toks => fieldTail .none false toks
end

/-- one name of a typedef: `_parse_field_type`, then "typedefs cannot have bitfields" -/
def typedefName (n : List Char) : Except PErr Declarator :=
  match parseDeclarator n with
  | .error e => .error e
  | .ok d => if d.bits.isSome then .error .typedefBitfield else .ok d

/-- the loop of `_typedef` over the names, each through `_parse_field_type` -/
def typedefOf (ty : TypeRef) (ns : List (List Char)) (rest : List OTok) : Except PErr (Decl × List OTok) :=
  match ty, ns with
  | .none, _ :: _ => .error .typedefNoType
  | _, ns =>
    match ns.mapM typedefName with
    | .error e => .error e
    | .ok ds => .ok (.typedef ty ds, rest)

/-- the end of `_typedef` behind the type: the names -/
def typedefTail (ty : TypeRef) (toks : List OTok) : Except PErr (Decl × List OTok) :=
  typedefOf ty (names toks).1 (names toks).2

/-- `_typedef`; after the TYPEDEF token -/
def typedefH (toks : List OTok) : Except PErr (Decl × List OTok) :=
  match toks with
  | .ident _ :: _ => typedefTail (.name (identifier toks).1) (identifier toks).2
  | .struct _ :: _ =>
    match structH (4 * toks.length + 8) false toks with
    | .error e => .error e
    | .ok (ty, r) => typedefTail ty r
  | _ => typedefTail .none toks

/-- `_enum`; `m`: the groups of the ENUM token, `toks`: the tokens after it -/
def enumH (m : Option EnumM) (toks : List OTok) : Except PErr (Decl × List OTok) :=
  match m with
  | none => .error .rematchAttribute
  | some m =>
    match eol toks with
    | .error e => .error e
    | .ok r => .ok (.enum m.isFlag (m.name.getD []) (match m.type with | some ty => ty | none => ['u', 'i', 'n', 't', '3', '2'])
                      (enumMembers m.values), r)

/-- one iteration of the loop of `parse` -/
def declH : List OTok → Except PErr (Decl × List OTok)
  | [] => .error .internal
  | .config m :: toks => match m with
    | some m => .ok (.config (splitOn1 ',' m.values), toks)
    | none => .error .rematchAttribute
  | .define m :: toks => match m with
    | some m => .ok (.const m.name m.value, toks)
    | none => .error .rematchAttribute
  | .typedef :: toks => typedefH toks
  | .struct u :: toks =>
    match structH (4 * toks.length + 12) true (.struct u :: toks) with
    | .ok (.inline a, r) => .ok (.aggr a, r)
    | .ok _ => .error .internal
    | .error e => .error e
  | .enum m :: toks => enumH m toks
  | .lookup m :: toks => match m with
    | some m => .ok (.lookup m.name m.value, toks)
    | none => .error .rematchAttribute
  | _ :: _ => .error .unexpectedToken

/-- the loop of `parse`: the declarations completed, and the error that ended the parse (if any) -/
def declsH : Nat → List OTok → List Decl × Option PErr
  | 0, _ => ([], some .internal)
  | _, [] => ([], none)
  | fuel + 1, t :: toks =>
    match declH (t :: toks) with
    | .error e => ([], some e)
    | .ok (d, r) => (d :: (declsH fuel r).1, (declsH fuel r).2)

def parseToks (toks : List Tok) : List Decl × Option PErr := declsH (toks.length + 1) (toks.map Tok.obs)

/-- `TokenParser.parse` up to type resolution -/
def parseDecls (text : List Char) : List Decl × Option PErr :=
  parseToks (scan (Parser.stripAux (text.length + 1) none text))

end Cstruct.DefParser
