/-
  Fixed-width integer codecs: what `int.from_bytes / int.to_bytes` (types/int.py, utils.pack/unpack) and
  `struct.pack/unpack` with the integer format characters (types/packed.py) compute.
-/
import CstructModel.Basic

namespace Cstruct

/-- little-endian value of a byte string -/
def fromLE : Bytes → Nat
  | [] => 0
  | b :: r => b.toNat + 256 * fromLE r

/-- the `n` low-order bytes of `v`, least significant first -/
def toLE : Nat → Nat → Bytes
  | 0, _ => []
  | n + 1, v => UInt8.ofNat (v % 256) :: toLE n (v / 256)

/-- `int.from_bytes(bs, order, signed=False)` -/
def decodeNat (e : Endian) (bs : Bytes) : Nat :=
  match e with
  | .little => fromLE bs
  | .big => fromLE bs.reverse

/-- `int.from_bytes(bs, order, signed=signed)` -/
def decodeInt (e : Endian) (signed : Bool) (bs : Bytes) : Int :=
  let u := decodeNat e bs
  if signed ∧ 2 ^ (8 * bs.length) ≤ 2 * u then (u : Int) - (2 ^ (8 * bs.length) : Nat) else (u : Int)

/-- does `v` fit `n` bytes -/
def fits (n : Nat) (signed : Bool) (v : Int) : Bool :=
  if signed then decide (-((2 ^ (8 * n) : Nat) : Int) ≤ 2 * v ∧ 2 * v < ((2 ^ (8 * n) : Nat) : Int))
  else decide (0 ≤ v ∧ v < ((2 ^ (8 * n) : Nat) : Int))

/-- `v.to_bytes(n, order, signed=signed)`; `none` is OverflowError (struct.error for Packed) -/
def encodeInt (e : Endian) (n : Nat) (signed : Bool) (v : Int) : Option Bytes :=
  if fits n signed v then
    let u : Nat := (v % ((2 ^ (8 * n) : Nat) : Int)).toNat
    some (match e with | .little => toLE n u | .big => (toLE n u).reverse)
  else none

end Cstruct
