/-
  The type algebra: scalar table entries, enums, pointers, arrays, structures and unions, with the
  size / alignment attributes and the layout computation of
  `StructureMetaType._calculate_size_and_offsets` and `UnionMetaType._calculate_size_and_offsets`.
-/
import CstructModel.Basic
import CstructModel.Expr

namespace Cstruct

/-- array length forms -/
inductive Len
  | fixed (n : Nat)                 -- x[3]: the count expression evaluated to an int at definition time
  | expr (toks : List String)       -- x[expr]: an Expression object, evaluated per read over the fields so far
  | nullTerm                        -- x[]
  | eof                             -- x[EOF]: an Expression whose evaluation fails and whose text is "EOF"
  deriving DecidableEq, Repr

mutual
inductive Ty
  | sc (s : Scalar) (align : Nat)                 -- a table type with its `alignment` attribute
  | enum (base : Scalar) (align : Nat) (flag : Bool)
  | ptr (target : Ty)
  | arr (elem : Ty) (len : Len)
  | struct (align : Bool) (fs : Fields)
  | union (align : Bool) (fs : Fields)
/-- a field: name (`_name`), anonymous?, type, bit width -/
inductive Fields
  | nil
  | cons (name : String) (anon : Bool) (ty : Ty) (bits : Option Nat) (rest : Fields)
end

/-- configuration of a cstruct instance as far as reading and writing are concerned -/
structure Cfg where
  endian : Endian
  ptr : Scalar          -- `cs.pointer`
  ptrAlign : Nat        -- its `alignment` attribute
  consts : List (String × Int)

mutual
/-- structural size, used as termination measure of the readers and writers -/
def Ty.msize : Ty → Nat
  | .sc _ _ => 1
  | .enum _ _ _ => 1
  | .ptr _ => 1
  | .arr e _ => e.msize + 1
  | .struct _ fs => fs.msize + 1
  | .union _ fs => fs.msize + 1
def Fields.msize : Fields → Nat
  | .nil => 1
  | .cons _ _ t _ r => t.msize + r.msize + 1
end

def Fields.length : Fields → Nat
  | .nil => 0
  | .cons _ _ _ _ r => r.length + 1

/-- layout accumulator of `_calculate_size_and_offsets` -/
structure LState where
  offset : Option Nat            -- `None` once a dynamic field was seen
  alignment : Nat
  bitsType : Option Scalar
  bitsFieldOffset : Option Nat
  bitsRemaining : Int

/-- the base storage scalar of a bit-field type (`field_type.type` for enums) -/
def Ty.bitBase : Ty → Option Scalar
  | .sc s _ => some s
  | .enum b _ _ => some b
  | _ => none

mutual
/-- `len(T)` / `T.size`: `none` = dynamic -/
def Ty.size (cfg : Cfg) : Ty → Option Nat
  | .sc s _ => s.size
  | .enum b _ _ => b.size
  | .ptr _ => cfg.ptr.size
  | .arr e (.fixed n) => match e.size cfg with | some k => some (n * k) | none => none
  | .arr _ _ => none
  | .struct al fs =>
    match Fields.layout cfg al fs { offset := some 0, alignment := 0, bitsType := none, bitsFieldOffset := some 0, bitsRemaining := 0 } with
    | .ok (sz, _, _) => sz
    | .error _ => none
  | .union al fs =>
    match Fields.unionSize cfg fs (some 0) with
    | some sz => if al then some (sz + padNat sz (Fields.maxAlign cfg fs 0)) else some sz
    | none => none

/-- `T.alignment or 1` as `Field.__init__` computes it -/
def Ty.alignment (cfg : Cfg) : Ty → Nat
  | .sc _ a => if a = 0 then 1 else a
  | .enum _ a _ => if a = 0 then 1 else a
  | .ptr _ => if cfg.ptrAlign = 0 then 1 else cfg.ptrAlign
  | .arr e _ => e.alignment cfg
  | .struct _ fs => let a := Fields.maxAlign cfg fs 0; if a = 0 then 1 else a
  | .union _ fs => let a := Fields.maxAlign cfg fs 0; if a = 0 then 1 else a

/-- `alignment = max(alignment, field.alignment)` over all fields -/
def Fields.maxAlign (cfg : Cfg) : Fields → Nat → Nat
  | .nil, a => a
  | .cons _ _ ty _ r, a => Fields.maxAlign cfg r (max a (ty.alignment cfg))

/-- union: `size = max(len(field.type), size)`, `None` once a member is dynamic -/
def Fields.unionSize (cfg : Cfg) : Fields → Option Nat → Option Nat
  | .nil, s => s
  | .cons _ _ ty _ r, s =>
    match s with
    | none => Fields.unionSize cfg r none
    | some cur => match ty.size cfg with
      | some k => Fields.unionSize cfg r (some (max k cur))
      | none => Fields.unionSize cfg r none

/-- `StructureMetaType._calculate_size_and_offsets`: returns `(size, alignment, field offsets)`.
    `.error .typeErr` is the `None + int` TypeError, `.error .value` the straddle ValueError. -/
def Fields.layout (cfg : Cfg) (align : Bool) : Fields → LState → Except Err (Option Nat × Nat × List (Option Nat))
  | .nil, st =>
    let size := match st.offset with
      | some o => if align then some (o + padNat o st.alignment) else some o
      | none => none
    .ok (size, st.alignment, [])
  | .cons _ _ ty bits rest, st =>
    let fa := ty.alignment cfg
    let offset : Option Nat := match st.offset with
      | some o => if align then some (o + padNat o fa) else some o
      | none => none
    let alignment := max st.alignment fa
    match bits with
    | some (b + 1) =>
      match ty.bitBase with
      | none => .error .typeErr
      | some ft =>
        match ft.size with
        | none => .error .typeErr      -- `bits_type.size * 8` with size None
        | some fsz =>
          -- third disjunct: `bits_type is not None and offset > bits_field_offset + bits_type.size`
          let third : Except Err Bool :=
            if st.bitsRemaining = 0 ∨ some ft ≠ st.bitsType then .ok true else
            match st.bitsType with
            | none => .ok false
            | some bt =>
              match offset, st.bitsFieldOffset, bt.size with
              | some o, some bfo, some bs => .ok (decide (o > bfo + bs))
              | some _, some _, none => .error .typeErr
              | _, _, _ => .ok false            -- `offset is not None and bits_field_offset is not None and ...'
          match third with
          | .error e => .error e
          | .ok newUnit =>
            let (st1, foff) : LState × Option Nat :=
              if newUnit then
                ({ offset := offset.map (· + fsz), alignment := alignment, bitsType := some ft,
                   bitsFieldOffset := offset, bitsRemaining := (fsz * 8 : Nat) }, offset)
              else ({ st with offset := offset, alignment := alignment }, none)
            let rem := st1.bitsRemaining - ((b + 1 : Nat) : Int)
            if rem < 0 then .error .value else
            match Fields.layout cfg align rest { st1 with bitsRemaining := rem } with
            | .error e => .error e
            | .ok (sz, al, offs) => .ok (sz, al, foff :: offs)
    | _ =>
      let st1 : LState := { offset := offset, alignment := alignment, bitsType := none, bitsFieldOffset := some 0, bitsRemaining := 0 }
      let st2 : LState := match offset with
        | some o => match ty.size cfg with
          | some k => { st1 with offset := some (o + k) }
          | none => { st1 with offset := none }
        | none => st1
      match Fields.layout cfg align rest st2 with
      | .error e => .error e
      | .ok (sz, al, offs) => .ok (sz, al, offset :: offs)
end

mutual
/-- definition-time errors: the structure metaclass computes the layout of every nested structure when it is
    created, innermost first; the first failure aborts the definition -/
def Ty.defErr (cfg : Cfg) : Ty → Option Err
  | .sc _ _ => none
  | .enum _ _ _ => none
  | .ptr t => t.defErr cfg
  | .arr e _ => e.defErr cfg
  | .struct al fs =>
    match Fields.defErr cfg fs with
    | some e => some e
    | none => match Fields.layout cfg al fs { offset := some 0, alignment := 0, bitsType := none, bitsFieldOffset := some 0, bitsRemaining := 0 } with
      | .error e => some e
      | .ok _ => none
  | .union _ fs => Fields.defErr cfg fs
def Fields.defErr (cfg : Cfg) : Fields → Option Err
  | .nil => none
  | .cons _ _ t _ r => match t.defErr cfg with
    | some e => some e
    | none => Fields.defErr cfg r
end

def LState.init : LState := { offset := some 0, alignment := 0, bitsType := none, bitsFieldOffset := some 0, bitsRemaining := 0 }

/-- layout of a structure body -/
def structLayout (cfg : Cfg) (align : Bool) (fs : Fields) : Except Err (Option Nat × Nat × List (Option Nat)) :=
  Fields.layout cfg align fs LState.init

end Cstruct
