/-
  The interpreted readers: per-class `_read / _read_array / _read_0`, `BaseArray._read`,
  `StructureMetaType._read`, `UnionMetaType._read` (fixed-size unions).
  A stream is the pair (data, pos); `read(n)` returns at most `n` bytes and advances by what it returned;
  `seek` may go past the end.
-/
import CstructModel.Val

set_option linter.unusedSimpArgs false

namespace Cstruct

/-- `stream.read(n)` at position `pos` -/
def sread (data : Bytes) (pos n : Nat) : Bytes := (data.drop pos).take n

/-- read exactly `n` bytes or EOFError -/
def readExact (data : Bytes) (pos n : Nat) : Except Err (Bytes × Nat) :=
  let bs := sread data pos n
  if bs.length ≠ n then .error .eof else .ok (bs, pos + n)

abbrev Ctx := List (String × Val)

/-- the `context` dict restricted to what `int(context[tok])` accepts -/
def Ctx.ints : Ctx → List (String × Int)
  | [] => []
  | (k, v) :: r => match v.asInt? with
    | some i => (k, i) :: Ctx.ints r
    | none => Ctx.ints r

/-- `dict` update: a later binding of the same key replaces the earlier one (lookup finds the first) -/
def Ctx.set (c : Ctx) (k : String) (v : Val) : Ctx := (k, v) :: c

/-- `max(0, expr.evaluate(context))` -/
def evalLen (cfg : Cfg) (toks : List String) (ctx : Ctx) : Except Err Nat :=
  let env : Expr.Env := { ctx := Ctx.ints ctx, consts := cfg.consts, sizeof := fun _ => .error .resolve }
  match (Expr.Obj.evaluate ⟨toks⟩ env).2 with
  | .ok v => .ok v.toNat
  | .error _ => .error .expr

def isSurrogate (u : Nat) : Bool := 0xD800 ≤ u && u ≤ 0xDFFF
def isHigh (u : Nat) : Bool := 0xD800 ≤ u && u ≤ 0xDBFF
def isLow (u : Nat) : Bool := 0xDC00 ≤ u && u ≤ 0xDFFF

/-- well-formed UTF-16: every high surrogate is followed by a low one and no low one stands alone -/
def utf16Ok : List Nat → Bool
  | [] => true
  | u :: r =>
    if isHigh u then
      match r with
      | l :: r' => isLow l && utf16Ok r'
      | [] => false
    else if isLow u then false else utf16Ok r

/-- code units of a byte string of even length -/
def unitsOf (e : Endian) : Bytes → List Nat
  | a :: b :: r => (match e with | .little => a.toNat + 256 * b.toNat | .big => 256 * a.toNat + b.toNat) :: unitsOf e r
  | _ => []

/-- `data.decode("utf-16-le"/"utf-16-be")` -/
def decodeWchar (e : Endian) (bs : Bytes) : Except Err Val :=
  if bs.length % 2 ≠ 0 then .error .unicode else
  let us := unitsOf e bs
  if utf16Ok us then .ok (.wstr us) else .error .unicode

def isFloatZero (size : Nat) (bits : Nat) : Bool := bits = 0 ∨ bits = 2 ^ (8 * size - 1)

/-- `Scalar._read` -/
def readScalar (cfg : Cfg) (s : Scalar) (data : Bytes) (pos : Nat) : Except Err (Val × Nat) :=
  match s with
  | .pint n sg => do let (bs, p) ← readExact data pos n; pure (.int (decodeInt cfg.endian sg bs), p)
  | .pflt n => do let (bs, p) ← readExact data pos n; pure (.flt (decodeNat cfg.endian bs), p)
  | .aint n sg => do let (bs, p) ← readExact data pos n; pure (.int (decodeInt cfg.endian sg bs), p)
  | .char => do let (bs, p) ← readExact data pos 1; pure (.bytes bs, p)
  | .wchar => do let (bs, p) ← readExact data pos 2; let v ← decodeWchar cfg.endian bs; pure (v, p)
  | .leb sg =>
    match lebRead sg (data.drop pos) with
    | .ok (v, rest) => .ok (.int v, data.length - rest.length)
    | .error e => .error e
  | .void => .ok (.void, pos)

/-- `Packed._read_array` for a count: one bulk read of `n * count` bytes, then `struct.unpack` -/
def splitEvery (n : Nat) : Nat → Bytes → List Bytes
  | 0, _ => []
  | k + 1, bs => bs.take n :: splitEvery n k (bs.drop n)

def Vals.ofInts (l : List Int) : Vals := Vals.ofList (l.map .int)

/-- wrap the elements of an array read through the base type into enum instances (`list(map(cls, ...))`) -/
def Vals.mapEnum : Vals → Vals
  | .nil => .nil
  | .cons (.int v) r => .cons (.enum v) r.mapEnum
  | .cons x r => .cons x r.mapEnum

/-- bulk readers of the scalar classes: `Packed._read_array`, `Char._read_array`, `Wchar._read_array`;
    `none` means "no fast path": the default per-element loop applies -/
def readScalarArray (cfg : Cfg) (s : Scalar) (count : Nat) (data : Bytes) (pos : Nat) : Option (Except Err (Val × Nat)) :=
  match s with
  | .pint n sg => some do
      let (bs, p) ← readExact data pos (n * count)
      pure (.list (Vals.ofInts ((splitEvery n count bs).map (decodeInt cfg.endian sg))), p)
  | .pflt n => some do
      let (bs, p) ← readExact data pos (n * count)
      pure (.list (Vals.ofList ((splitEvery n count bs).map fun b => Val.flt (decodeNat cfg.endian b))), p)
  | .char => some (if count = 0 then .ok (.bytes [], pos) else do
      let (bs, p) ← readExact data pos count; pure (.bytes bs, p))
  | .wchar => some (if count = 0 then .ok (.wstr [], pos) else do
      let (bs, p) ← readExact data pos (2 * count); let v ← decodeWchar cfg.endian bs; pure (v, p))
  | _ => none

/-- `count == EOF` branch of the bulk readers -/
def readScalarArrayEOF (cfg : Cfg) (s : Scalar) (data : Bytes) (pos : Nat) : Option (Except Err (Val × Nat)) :=
  let rest := data.drop pos
  let endp := max pos data.length
  match s with
  | .pint n sg => some (
      if n = 0 then .error .other else
      if rest.length % n ≠ 0 then .error .eof           -- `if length != count * cls.size: raise EOFError`
      else .ok (.list (Vals.ofInts ((splitEvery n (rest.length / n) rest).map (decodeInt cfg.endian sg))), endp))
  | .pflt n => some (
      if n = 0 then .error .other else
      if rest.length % n ≠ 0 then .error .eof
      else .ok (.list (Vals.ofList ((splitEvery n (rest.length / n) rest).map fun b => Val.flt (decodeNat cfg.endian b))), endp))
  | .char => some (.ok (.bytes rest, endp))
  | .wchar => some (
      if rest.length % 2 ≠ 0 then .error .eof     -- `if count == EOF and len(data) % 2: raise EOFError`
      else match decodeWchar cfg.endian rest with | .ok v => .ok (v, endp) | .error e => .error e)
  | _ => none

/-- `_read_0` of the scalar classes: read elements until the zero element; `fuel` bounds the loop by the input length -/
def readScalar0 (cfg : Cfg) (s : Scalar) (data : Bytes) : Nat → Nat → List Val → Except Err (List Val × Nat)
  | 0, _, _ => .error .eof
  | fuel + 1, pos, acc =>
    match s with
    | .void => .ok ([.void], pos)
    | .char =>
      match readExact data pos 1 with
      | .error e => .error e
      | .ok (bs, p) => if bs = [0] then .ok (acc.reverse, p) else readScalar0 cfg s data fuel p (.bytes bs :: acc)
    | .wchar =>
      match readExact data pos 2 with
      | .error e => .error e
      | .ok (bs, p) => if bs = [0, 0] then .ok (acc.reverse, p) else readScalar0 cfg s data fuel p (.bytes bs :: acc)
    | _ =>
      match readScalar cfg s data pos with
      | .error e => .error e
      | .ok (v, p) =>
        let isZero : Bool := match v with
          | .int i => decide (i = 0)
          | .flt b => (match s with | .pflt n => isFloatZero n b | _ => decide (b = 0))
          | _ => false
        if isZero then .ok (acc.reverse, p) else readScalar0 cfg s data fuel p (v :: acc)

def joinBytes : List Val → Bytes
  | [] => []
  | .bytes b :: r => b ++ joinBytes r
  | _ :: r => joinBytes r

/-- null-terminated array of a scalar class, packaged as the array value -/
def readScalarNullTerm (cfg : Cfg) (s : Scalar) (data : Bytes) (pos : Nat) : Except Err (Val × Nat) :=
  match readScalar0 cfg s data (data.length - pos + 2) pos [] with
  | .error e => .error e
  | .ok (vs, p) =>
    match s with
    | .char => .ok (.bytes (joinBytes vs), p)
    | .wchar => (decodeWchar cfg.endian (joinBytes vs)).map (·, p)
    | _ => .ok (.list (Vals.ofList vs), p)

/-- the storage unit as an integer, the way `BitBuffer.read` sees it (`bytes` of a char are converted) -/
def unitInt (cfg : Cfg) (v : Val) : Option Int :=
  match v with
  | .int i => some i
  | .bytes b => some (decodeNat cfg.endian b)
  | _ => none

mutual
/-- `T._read(stream, context)` -/
def read (cfg : Cfg) : Ty → Ctx → Bytes → Nat → Except Err (Val × Nat)
  | .sc s _, _, data, pos => readScalar cfg s data pos
  | .enum b _ _, _, data, pos =>
    match readScalar cfg b data pos with
    | .ok (.int v, p) => .ok (.enum v, p)
    | .ok _ => .error .typeErr
    | .error e => .error e
  | .ptr _, _, data, pos =>
    match readScalar cfg cfg.ptr data pos with
    | .ok (.int v, p) => .ok (.ptr v, p)
    | .ok _ => .error .typeErr
    | .error e => .error e
  | .arr e len, ctx, data, pos =>
    match len with
    | .nullTerm => read0 cfg e ctx data pos
    | .fixed n => readArray cfg e n ctx data pos
    | .expr toks =>
      match evalLen cfg toks ctx with
      | .ok n => readArray cfg e n ctx data pos
      | .error er => .error er
    | .eof => readEOF cfg e ctx data pos
  | .struct al fs, _, data, pos =>
    match structLayout cfg al fs with
    | .error e => .error e
    | .ok (_, salign, offs) =>
      match readFields cfg al fs offs pos BitBuf.empty [] data pos with
      | .error e => .error e
      | .ok (vs, _, p) =>
        let p' := if al then p + padNat p salign else p
        .ok (.record vs, p')
  | .union al fs, _, data, pos =>
    match (Ty.union al fs).size cfg with
    | none => .error .notImpl          -- dynamic unions are not modelled
    | some sz =>
      let buf := sread data pos sz
      match readMembers cfg fs [] buf with
      | .error e => .error e
      | .ok vs => .ok (.union buf vs, pos + sz)   -- the union ends where its size says, also after a short read (`stream.seek(start + cls.size)`)
termination_by t _ _ _ => (t.msize, 0)
decreasing_by
  all_goals simp_wf
  all_goals (try simp only [Ty.msize, Fields.msize])
  all_goals (first | omega | (apply Prod.Lex.left; omega) | (apply Prod.Lex.right; omega) | skip)

/-- `T._read_array(stream, count, context)` packaged as the array value -/
def readArray (cfg : Cfg) : Ty → Nat → Ctx → Bytes → Nat → Except Err (Val × Nat)
  | .sc s a, n, ctx, data, pos =>
    match readScalarArray cfg s n data pos with
    | some r => r
    | none => (readN cfg (.sc s a) n ctx data pos).map fun (vs, p) => (.list vs, p)
  | .enum b a _, n, ctx, data, pos =>
    -- EnumMetaType._read_array: list(map(cls, cls.type._read_array(...)))
    match readScalarArray cfg b n data pos with
    | some (.ok (.list vs, p)) => .ok (.list vs.mapEnum, p)
    | some (.ok _) => .error .typeErr
    | some (.error e) => .error e
    | none =>
      match readN cfg (.sc b a) n ctx data pos with
      | .ok (vs, p) => .ok (.list vs.mapEnum, p)
      | .error e => .error e
  | t, n, ctx, data, pos => (readN cfg t n ctx data pos).map fun (vs, p) => (.list vs, p)
termination_by t n _ _ _ => (t.msize, n + 2)
decreasing_by
  all_goals simp_wf
  all_goals (try simp only [Ty.msize, Fields.msize])
  all_goals (first | omega | (apply Prod.Lex.left; omega) | (apply Prod.Lex.right; omega) | skip)

/-- the default `[cls._read(stream, context) for _ in range(count)]` -/
def readN (cfg : Cfg) : Ty → Nat → Ctx → Bytes → Nat → Except Err (Vals × Nat)
  | _, 0, _, _, pos => .ok (.nil, pos)
  | t, n + 1, ctx, data, pos =>
    match read cfg t ctx data pos with
    | .error e => .error e
    | .ok (v, p) =>
      match readN cfg t n ctx data p with
      | .error e => .error e
      | .ok (vs, p') => .ok (.cons v vs, p')
termination_by t n _ _ _ => (t.msize, n + 1)
decreasing_by
  all_goals simp_wf
  all_goals (try simp only [Ty.msize, Fields.msize])
  all_goals (first | omega | (apply Prod.Lex.left; omega) | (apply Prod.Lex.right; omega) | skip)

/-- `T._read_0(stream, context)` packaged as the array value -/
def read0 (cfg : Cfg) : Ty → Ctx → Bytes → Nat → Except Err (Val × Nat)
  | .sc s _, _, data, pos => readScalarNullTerm cfg s data pos
  | .enum b _ _, _, data, pos =>
    match readScalarNullTerm cfg b data pos with
    | .ok (.list vs, p) => .ok (.list vs.mapEnum, p)
    | .ok _ => .error .typeErr
    | .error e => .error e
  | .struct al fs, ctx, data, pos =>
    (readUntilFalsy cfg (.struct al fs) ctx data (data.length - pos + 2) pos).map fun (vs, p) => (.list vs, p)
  | .union al fs, ctx, data, pos =>
    (readUntilFalsy cfg (.union al fs) ctx data (data.length - pos + 2) pos).map fun (vs, p) => (.list vs, p)
  | _, _, _, _ => .error .notImpl     -- Pointer / array element: MetaType._read_0 raises NotImplementedError
termination_by t _ data pos => (t.msize, data.length - pos + 4)
decreasing_by
  all_goals simp_wf
  all_goals (try simp only [Ty.msize, Fields.msize])
  all_goals (first | omega | (apply Prod.Lex.left; omega) | (apply Prod.Lex.right; omega) | skip)

/-- `while obj := cls._read(stream, context): result.append(obj)` -/
def readUntilFalsy (cfg : Cfg) : Ty → Ctx → Bytes → Nat → Nat → Except Err (Vals × Nat)
  | _, _, _, 0, _ => .error .eof
  | t, ctx, data, fuel + 1, pos =>
    match read cfg t ctx data pos with
    | .error e => .error e
    | .ok (v, p) =>
      if !v.truthy then .ok (.nil, p) else
      match readUntilFalsy cfg t ctx data fuel p with
      | .error e => .error e
      | .ok (vs, p') => .ok (.cons v vs, p')
termination_by t _ _ fuel _ => (t.msize, fuel + 1)
decreasing_by
  all_goals simp_wf
  all_goals (try simp only [Ty.msize, Fields.msize])
  all_goals (first | omega | (apply Prod.Lex.left; omega) | (apply Prod.Lex.right; omega) | skip)

/-- `count == EOF` -/
def readEOF (cfg : Cfg) : Ty → Ctx → Bytes → Nat → Except Err (Val × Nat)
  | .sc s a, ctx, data, pos =>
    match readScalarArrayEOF cfg s data pos with
    | some r => r
    | none => (readWhileData cfg (.sc s a) ctx data (data.length - pos + 1) pos).map fun (vs, p) => (.list vs, p)
  | .enum b a _, ctx, data, pos =>
    match readScalarArrayEOF cfg b data pos with
    | some (.ok (.list vs, p)) => .ok (.list vs.mapEnum, p)
    | some (.ok _) => .error .typeErr
    | some (.error e) => .error e
    | none =>
      match readWhileData cfg (.sc b a) ctx data (data.length - pos + 1) pos with
      | .ok (vs, p) => .ok (.list vs.mapEnum, p)
      | .error e => .error e
  | t, ctx, data, pos => (readWhileData cfg t ctx data (data.length - pos + 1) pos).map fun (vs, p) => (.list vs, p)
termination_by t _ data pos => (t.msize, data.length - pos + 3)
decreasing_by
  all_goals simp_wf
  all_goals (try simp only [Ty.msize, Fields.msize])
  all_goals (first | omega | (apply Prod.Lex.left; omega) | (apply Prod.Lex.right; omega) | skip)

/-- `while not _is_eof(stream): result.append(cls._read(stream, context))`; running out of fuel means the element
    type consumes nothing (the real loop would not terminate) -/
def readWhileData (cfg : Cfg) : Ty → Ctx → Bytes → Nat → Nat → Except Err (Vals × Nat)
  | _, _, _, 0, _ => .error .other
  | t, ctx, data, fuel + 1, pos =>
    if pos ≥ data.length then .ok (.nil, pos) else
    match read cfg t ctx data pos with
    | .error e => .error e
    | .ok (v, p) =>
      match readWhileData cfg t ctx data fuel p with
      | .error e => .error e
      | .ok (vs, p') => .ok (.cons v vs, p')
termination_by t _ _ fuel _ => (t.msize, fuel + 1)
decreasing_by
  all_goals simp_wf
  all_goals (try simp only [Ty.msize, Fields.msize])
  all_goals (first | omega | (apply Prod.Lex.left; omega) | (apply Prod.Lex.right; omega) | skip)

/-- the field loop of `StructureMetaType._read`. `offs` are the layout offsets (`field.offset`), `start` is
    `struct_start`, `bb` the bit buffer, `ctx` the `result` dict so far. Returns values, sizes and the position. -/
def readFields (cfg : Cfg) (align : Bool) : Fields → List (Option Nat) → Nat → BitBuf → Ctx → Bytes → Nat →
    Except Err (Vals × List (String × Nat) × Nat)
  | .nil, _, _, _, _, _, pos => .ok (.nil, [], pos)
  | .cons name _ ty bits rest, offs, start, bb, ctx, data, pos =>
    let foff : Option Nat := match offs with | o :: _ => o | [] => none
    let offs' := offs.drop 1
    -- `if field.offset is not None and offset != struct_start + field.offset: seek`
    let offset1 := match foff with | some fo => start + fo | none => pos
    -- `if cls.__align__ and field.offset is None: offset += -offset & (field.alignment - 1); seek`
    let offset2 := if align ∧ foff.isNone then offset1 + padNat offset1 (ty.alignment cfg) else offset1
    match bits with
    | some (b + 1) =>
      match ty.bitBase with
      | none => .error .typeErr
      | some ft =>
        -- BitBuffer.read: load a new unit when exhausted or the storage type changes
        let loaded : Except Err (BitBuf × Nat) :=
          if bb.remaining = 0 ∨ bb.ty ≠ some ft then
            match ft.size with
            | none => .error .value
            | some fsz =>
              match readScalar cfg ft data offset2 with
              | .error e => .error e
              | .ok (u, p) =>
                match unitInt cfg u with
                | some i => .ok ({ ty := some ft, buffer := i, remaining := fsz * 8 }, p)
                | none => .error .typeErr
          else .ok (bb, offset2)
        match loaded with
        | .error e => .error e
        | .ok (bb1, p1) =>
          match bb1.take cfg.endian (b + 1) with
          | none => .error .value
          | some (v, bb2) =>
            let val : Val := match ty with | .enum _ _ _ => .enum v | _ => .int v
            match readFields cfg align rest offs' start bb2 (ctx.set name val) data p1 with
            | .error e => .error e
            | .ok (vs, szs, p') => .ok (.cons val vs, szs, p')
    | _ =>
      match read cfg ty ctx data offset2 with
      | .error e => .error e
      | .ok (v, p1) =>
        match readFields cfg align rest offs' start BitBuf.empty (ctx.set name v) data p1 with
        | .error e => .error e
        | .ok (vs, szs, p') => .ok (.cons v vs, (name, p1 - offset2) :: szs, p')
termination_by fs _ _ _ _ _ _ => (fs.msize, 0)
decreasing_by
  all_goals simp_wf
  all_goals (try simp only [Ty.msize, Fields.msize])
  all_goals (first | omega | (apply Prod.Lex.left; omega) | (apply Prod.Lex.right; omega) | skip)

/-- `UnionMetaType._read_fields` on the union's private buffer: every member is read from offset 0 (member
    offsets are never assigned), with the members read so far as context; bit widths are ignored. -/
def readMembers (cfg : Cfg) : Fields → Ctx → Bytes → Except Err Vals
  | .nil, _, _ => .ok .nil
  | .cons name _ ty _ rest, ctx, buf =>
    match read cfg ty ctx buf 0 with
    | .error e => .error e
    | .ok (v, _) =>
      match readMembers cfg rest (ctx.set name v) buf with
      | .error e => .error e
      | .ok vs => .ok (.cons v vs)
termination_by fs _ _ => (fs.msize, 0)
decreasing_by
  all_goals simp_wf
  all_goals (try simp only [Ty.msize, Fields.msize])
  all_goals (first | omega | (apply Prod.Lex.left; omega) | (apply Prod.Lex.right; omega) | skip)
end

/-- top-level structure read that also reports `_sizes` -/
def readStructWithSizes (cfg : Cfg) (al : Bool) (fs : Fields) (data : Bytes) (pos : Nat) :
    Except Err (Val × List (String × Nat) × Nat) :=
  match structLayout cfg al fs with
  | .error e => .error e
  | .ok (_, salign, offs) =>
    match readFields cfg al fs offs pos BitBuf.empty [] data pos with
    | .error e => .error e
    | .ok (vs, szs, p) =>
      let p' := if al then p + padNat p salign else p
      .ok (.record vs, szs, p')

end Cstruct
