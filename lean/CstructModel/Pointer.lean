/-
  Pointers (types/pointer.py): a pointer value is an integer bound to the stream it was read from.
  `dereference` seeks to the address, reads the target type there (a NUL-terminated string for char targets),
  seeks back, and caches the value.
-/
import CstructModel.Write

namespace Cstruct.Pointer
open Cstruct

/-- a pointer instance: address, the stream it is bound to (`none` for a default-constructed pointer), target type,
    and the cached dereferenced value (`_value`) -/
structure Ptr where
  addr : Int
  stream : Option Bytes
  target : Ty
  cache : Option Val

def isVoid : Ty → Bool
  | .sc .void _ => true
  | _ => false

def isChar : Ty → Bool
  | .sc .char _ => true
  | _ => false

/-- `Pointer._read`: the configured pointer type's integer, bound to the stream -/
def readPtr (cfg : Cfg) (target : Ty) (data : Bytes) (pos : Nat) : Except Err (Ptr × Nat) :=
  match readScalar cfg cfg.ptr data pos with
  | .ok (.int v, p) => .ok ({ addr := v, stream := some data, target := target, cache := none }, p)
  | .ok _ => .error .typeErr
  | .error e => .error e

/-- `Pointer.dereference()` with the stream currently at `pos`: returns the value, the pointer with its cache filled,
    and the stream position afterwards (always `pos`: the position is saved and restored) -/
def deref (cfg : Cfg) (ptr : Ptr) (pos : Nat) : Except Err (Val × Ptr × Nat) :=
  match ptr.stream with
  | none => .error .nullDeref
  | some data =>
    if ptr.addr = 0 then .error .nullDeref else
    match ptr.cache with
    | some v => .ok (v, ptr, pos)
    | none =>
      if isVoid ptr.target then .ok (.void, ptr, pos)       -- `_value` stays None: a void target is never read
      else if ptr.addr < 0 then .error .value               -- seek to a negative offset
      else
        let r := if isChar ptr.target then read cfg (.arr ptr.target .nullTerm) [] data ptr.addr.toNat
                 else read cfg ptr.target [] data ptr.addr.toNat
        match r with
        | .ok (v, _) => .ok (v, { ptr with cache := some v }, pos)
        | .error e => .error e

/-- pointer arithmetic (`__add__`, `__sub__`, …): a new pointer of the same type on the same stream, cache empty -/
def arith (ptr : Ptr) (f : Int → Int) : Ptr := { ptr with addr := f ptr.addr, cache := none }

/-- `Pointer._write`: the address through the configured pointer type -/
def writePtr (cfg : Cfg) (ptr : Ptr) : Except Err Bytes := writeScalar cfg cfg.ptr (.int ptr.addr)

end Cstruct.Pointer
