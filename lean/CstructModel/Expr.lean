/-
  Model of dissect/cstruct/expression.py: the character tokenizer, the in-place
  unary-minus rewriting and the shunting-yard evaluator.  Tokens are strings, as in
  the code; the operator tables come from `Gen.ExprTables`, which is regenerated
  from /repo on every run.
-/
import CstructModel.Bits
import CstructModel.Gen.ExprTables

namespace Cstruct.Expr
open Cstruct

/-- Python exception classes the evaluator can raise (compared by class only). -/
inductive EErr
  | tokenizer   -- ExpressionTokenizerError
  | parser      -- ExpressionParserError
  | value       -- ValueError  (int() of a malformed literal, negative shift count)
  | zeroDiv     -- ZeroDivisionError
  | index       -- IndexError  (`sizeof(x` without the closing token)
  | key         -- KeyError    (operator missing from the precedence table)
  | resolve     -- ResolveError (sizeof of an unknown type)
  | typeErr     -- TypeError   (sizeof of a dynamic type)
  | outOfModel  -- shift count above `shiftBound`: CPython's behaviour there (MemoryError/OverflowError/slow) is not modelled
  deriving DecidableEq, Repr

def EErr.name : EErr → String
  | .tokenizer => "ExpressionTokenizerError" | .parser => "ExpressionParserError"
  | .value => "ValueError" | .zeroDiv => "ZeroDivisionError" | .index => "IndexError"
  | .key => "KeyError" | .resolve => "ResolveError" | .typeErr => "TypeError" | .outOfModel => "OutOfModel"

def lookup {α} (k : String) : List (String × α) → Option α
  | [] => none
  | (k', v) :: r => if k = k' then some v else lookup k r

/-! ### Tokenizer -/

def isOperatorChar (c : Char) : Bool := Gen.tokenizerOperators.contains c
def isHexDigit (c : Char) : Bool := c.isDigit || ('a' ≤ c && c ≤ 'f') || ('A' ≤ c && c ≤ 'F')
def isHexBinSuffix (c : Char) : Bool := Gen.hexbinSuffix.contains c
def isIdStart (c : Char) : Bool := c.isAlpha || c = '_'
def isIdChar (c : Char) : Bool := c.isAlphanum || c = '_'

def takeWhileC (p : Char → Bool) : List Char → List Char × List Char
  | [] => ([], [])
  | c :: r => if p c then let (a, b) := takeWhileC p r; (c :: a, b) else ([], c :: r)

/-- the `u`/`l` suffix logic after a number: returns the remaining input -/
def skipSuffix : List Char → List Char
  | c :: r =>
    if c = 'u' ∨ c = 'U' then
      match r with
      | l1 :: r1 =>
        if l1 = 'l' ∨ l1 = 'L' then
          match r1 with
          | l2 :: r2 => if l2 = 'l' ∨ l2 = 'L' then r2 else r1
          | [] => r1
        else r
      | [] => r
    else if c = 'l' ∨ c = 'L' then
      let r1 := match r with
        | l2 :: r' => if l2 = 'l' ∨ l2 = 'L' then r' else r
        | [] => r
      match r1 with
      | u :: r2 => if u = 'u' ∨ u = 'U' then r2 else r1
      | [] => r1
    else c :: r
  | [] => []

/-- after a lone `>` was consumed and the second `match(">")` failed, the `elif` chain goes on *at the next
    character*: `match("<") and match("<")`, then blank, else the error branch — which indexes
    `self.expression[self.pos]` and therefore raises IndexError at end of input.
    Returns the remaining input and the token to append, if any. -/
def afterLoneGt : List Char → Except EErr (List Char × Option String)
  | [] => .error .index
  | '<' :: '<' :: r' => .ok (r', some "<<")
  | '<' :: [] => .error .index
  | '<' :: c2 :: r' => if c2 = ' ' ∨ c2 = '\t' then .ok (r', none) else .error .tokenizer
  | c :: r' => if c = ' ' ∨ c = '\t' then .ok (r', none) else .error .tokenizer

/-- the same after a lone `<`: only the blank branch and the error branch are left -/
def afterLoneLt : List Char → Except EErr (List Char × Option String)
  | [] => .error .index
  | c :: r' => if c = ' ' ∨ c = '\t' then .ok (r', none) else .error .tokenizer

/-- `ExpressionTokenizer.tokenize`; `fuel` is only there to make the recursion structural
    (the input length always suffices, see `tokenize`). -/
def tokenizeAux : Nat → List Char → List String → Except EErr (List String)
  | 0, _, acc => .ok acc.reverse
  | _, [], acc => .ok acc.reverse
  | fuel + 1, c :: r, acc =>
    if isOperatorChar c then tokenizeAux fuel r (String.singleton c :: acc)
    else if c.isDigit then
      -- digit, optional x/X/b/B, then hex digits
      let (sfx, r1) := match r with
        | s :: r' => if isHexBinSuffix s then ([s], r') else ([], r)
        | [] => ([], r)
      let (hx, r2) := takeWhileC isHexDigit r1
      let tok := c :: (sfx ++ hx)
      let r3 := skipSuffix r2
      if (match tok with | [_, d] => isHexBinSuffix d | _ => false) then .error .tokenizer
      else
        let tok' := match tok with
          | '0' :: d :: rest => if isHexBinSuffix d then tok else '0' :: 'o' :: d :: rest
          | _ => tok
        tokenizeAux fuel r3 (String.ofList tok' :: acc)
    else if isIdStart c then
      let (idc, r1) := takeWhileC isIdChar (c :: r)
      tokenizeAux fuel r1 (String.ofList idc :: acc)
    else if c = '>' then
      match r with
      | '>' :: r' => tokenizeAux fuel r' (">>" :: acc)
      | _ =>
        match afterLoneGt r with
        | .error e => .error e
        | .ok (r', some t) => tokenizeAux fuel r' (t :: acc)
        | .ok (r', none) => tokenizeAux fuel r' acc
    else if c = '<' then
      match r with
      | '<' :: r' => tokenizeAux fuel r' ("<<" :: acc)
      | _ =>
        match afterLoneLt r with
        | .error e => .error e
        | .ok (r', some t) => tokenizeAux fuel r' (t :: acc)
        | .ok (r', none) => tokenizeAux fuel r' acc
    else if c = ' ' ∨ c = '\t' then tokenizeAux fuel r acc
    else .error .tokenizer

def tokenize (s : String) : Except EErr (List String) := tokenizeAux (s.length + 1) s.toList []

/-! ### Literals -/

def isAsciiDigits (cs : List Char) : Bool := !cs.isEmpty && cs.all Char.isDigit

/-- `Expression.is_number` (ASCII input) -/
def isNumber (t : String) : Bool :=
  let cs := t.toList
  isAsciiDigits cs ||
    (match cs with
     | '0' :: d :: _ :: _ => d = 'x' || d = 'X' || d = 'b' || d = 'B' || d = 'o' || d = 'O'
     | _ => false)

def digitVal (c : Char) : Nat :=
  if c.isDigit then c.toNat - '0'.toNat
  else if 'a' ≤ c ∧ c ≤ 'f' then c.toNat - 'a'.toNat + 10
  else if 'A' ≤ c ∧ c ≤ 'F' then c.toNat - 'A'.toNat + 10
  else 99

def parseBase (base : Nat) (cs : List Char) : Option Nat :=
  if cs.isEmpty then none else
  cs.foldl (fun acc c => match acc with
    | none => none
    | some a => if digitVal c < base then some (a * base + digitVal c) else none) (some 0)

/-- `int(token, 0)` on the tokens `is_number` lets through -/
def parseInt (t : String) : Option Int :=
  match t.toList with
  | '0' :: d :: rest =>
    if d = 'x' ∨ d = 'X' then (parseBase 16 rest).map Int.ofNat
    else if d = 'b' ∨ d = 'B' then (parseBase 2 rest).map Int.ofNat
    else if d = 'o' ∨ d = 'O' then (parseBase 8 rest).map Int.ofNat
    else if (d :: rest).all (· = '0') then some 0 else none
  | cs => (parseBase 10 cs).map Int.ofNat

/-! ### Operators (tables from Gen) -/

/-- shift counts above this bound are outside the modelled domain -/
def shiftBound : Int := 4096

def binop : Gen.BinKind → Int → Int → Except EErr Int
  | .or, a, b => .ok (lor a b) | .xor, a, b => .ok (lxor a b) | .and, a, b => .ok (land a b)
  | .shl, a, b => if b < 0 then .error .value else if b > shiftBound then .error .outOfModel else .ok (shl a b.toNat)
  | .shr, a, b => if b < 0 then .error .value else if b > shiftBound then .error .outOfModel else .ok (shr a b.toNat)
  | .add, a, b => .ok (a + b) | .sub, a, b => .ok (a - b) | .mul, a, b => .ok (a * b)
  | .floordiv, a, b => if b = 0 then .error .zeroDiv else .ok (Int.fdiv a b)
  | .mod, a, b => if b = 0 then .error .zeroDiv else .ok (Int.fmod a b)

def unop : Gen.UnKind → Int → Int
  | .neg, a => -a | .inv, a => lnot a

def isBinary (t : String) : Bool := (lookup t Gen.binaryOperators).isSome
def isUnary (t : String) : Bool := (lookup t Gen.unaryOperators).isSome
/-- `operators = set(binary_operators) | set(unary_operators)` -/
def isOperator (t : String) : Bool := isBinary t || isUnary t

/-- the unary-minus rewriting loop of `evaluate`; `prev` is the (already rewritten) previous token -/
def rewriteFrom : Option String → List String → List String
  | _, [] => []
  | prev, t :: r =>
    let t' :=
      if t = "-" then
        match prev with
        | none => Gen.minusMarker
        | some p => if isOperator p || Gen.unaryContextTokens.contains p then Gen.minusMarker else t
      else t
    t' :: rewriteFrom (some t') r

def rewriteMinus (ts : List String) : List String := rewriteFrom none ts

structure Env where
  ctx : List (String × Int)
  consts : List (String × Int)
  sizeof : String → Except EErr Int

/-- `evaluate_exp` on the pair (operator, queue) -/
def applyOp (op : String) (q : List Int) : Except EErr (List Int) :=
  match q with
  | [] => .error .parser
  | r :: q' =>
    match lookup op Gen.unaryOperators with
    | some u => .ok (unop u r :: q')
    | none =>
      match q' with
      | [] => .error .parser
      | l :: q'' =>
        match lookup op Gen.binaryOperators with
        | some b => (binop b l r).map (· :: q'')
        | none => .error .key

/-- `precedence(o1, o2)` -/
def precGe (o1 o2 : String) : Except EErr Bool :=
  match lookup o1 Gen.precedenceLevels, lookup o2 Gen.precedenceLevels with
  | some a, some b => .ok (decide (a ≥ b))
  | _, _ => .error .key

/-- `while stack and stack[-1] != "(" and precedence(stack[-1], cur): evaluate_exp()` -/
def flush (cur : String) : List String → List Int → Except EErr (List String × List Int)
  | [], q => .ok ([], q)
  | top :: st, q =>
    if top = "(" then .ok (top :: st, q) else
    match precGe top cur with
    | .error e => .error e
    | .ok false => .ok (top :: st, q)
    | .ok true =>
      match applyOp top q with
      | .error e => .error e
      | .ok q' => flush cur st q'

/-- the `")"` branch after its two guards: evaluate down to `"("` and pop it.
    An exhausted stack is `self.stack[-1]` on an empty list: IndexError. -/
def closeParen : List String → List Int → Except EErr (List String × List Int)
  | [], _ => .error .index
  | top :: st, q =>
    if top = "(" then .ok (st, q) else
    match applyOp top q with
    | .error e => .error e
    | .ok q' => closeParen st q'

/-- final `while len(self.stack) != 0` loop -/
def drain : List String → List Int → Except EErr (List Int)
  | [], q => .ok q
  | top :: st, q =>
    if top = "(" then .error .parser else
    match applyOp top q with
    | .error e => .error e
    | .ok q' => drain st q'

structure St where
  prev : Option String
  st : List String
  q : List Int

/-- main `while i < len(tmp_expression)` loop. -/
def run (env : Env) : List String → St → Except EErr St
  | [], s => .ok s
  | t :: rest, s =>
    if isNumber t then
      match parseInt t with
      | some n => run env rest { prev := some t, st := s.st, q := n :: s.q }
      | none => .error .value
    else match lookup t env.ctx with
    | some v => run env rest { prev := some t, st := s.st, q := v :: s.q }
    | none =>
    match lookup t env.consts with
    | some v => run env rest { prev := some t, st := s.st, q := v :: s.q }
    | none =>
    if isUnary t then run env rest { prev := some t, st := t :: s.st, q := s.q }
    else if t = "sizeof" then
      match rest with
      | a :: b :: c :: rest' =>
        if a ≠ "(" ∨ c ≠ ")" then .error .parser else
        match env.sizeof b with
        | .ok n => run env rest' { prev := some c, st := s.st, q := n :: s.q }
        | .error e => .error e
      | [a, _] => if a ≠ "(" then .error .parser else .error .index
      | _ => .error .parser
    else if isOperator t then
      match flush t s.st s.q with
      | .ok (st', q') => run env rest { prev := some t, st := t :: st', q := q' }
      | .error e => .error e
    else if t = "(" then
      match s.prev with
      | some p => if isNumber p then .error .parser
                  else run env rest { prev := some t, st := t :: s.st, q := s.q }
      | none => run env rest { prev := some t, st := t :: s.st, q := s.q }
    else if t = ")" then
      if s.prev = some "(" then .error .parser
      else if s.st.isEmpty then .error .parser
      else match closeParen s.st s.q with
        | .ok (st', q') => run env rest { prev := some t, st := st', q := q' }
        | .error e => .error e
    else .error .parser

/-- `Expression.evaluate` on an already rewritten token list -/
def evalMarked (env : Env) (ts : List String) : Except EErr Int :=
  match run env ts { prev := none, st := [], q := [] } with
  | .error e => .error e
  | .ok s =>
    match drain s.st s.q with
    | .error e => .error e
    | .ok [v] => .ok v
    | .ok _ => .error .parser

/-- The Expression object: only `tokens` persists between calls (`stack`/`queue` are reset on entry). -/
structure Obj where
  tokens : List String

def Obj.new (s : String) : Except EErr Obj := (tokenize s).map (⟨·⟩)

/-- `Expression.evaluate(context)`: returns the object after the call (tokens rewritten in place) and the result -/
def Obj.evaluate (o : Obj) (env : Env) : Obj × Except EErr Int :=
  let ts := rewriteMinus o.tokens
  (⟨ts⟩, evalMarked env ts)

end Cstruct.Expr
