/-
  Minimal S-expression reader/printer for the line protocol between the Python harness and the
  model driver.  Not part of any theorem.
-/
namespace Cstruct

inductive Sexp
  | atom (s : String)
  | str (s : String)
  | list (l : List Sexp)
  deriving Repr, Inhabited

namespace Sexp

def hexVal (c : Char) : Nat :=
  if c.isDigit then c.toNat - '0'.toNat
  else if 'a' ≤ c ∧ c ≤ 'f' then c.toNat - 'a'.toNat + 10
  else if 'A' ≤ c ∧ c ≤ 'F' then c.toNat - 'A'.toNat + 10 else 0

partial def parseStr : List Char → List Char → Option (String × List Char)
  | '"' :: r, acc => some (String.ofList acc.reverse, r)
  | '\\' :: 'n' :: r, acc => parseStr r ('\n' :: acc)
  | '\\' :: 't' :: r, acc => parseStr r ('\t' :: acc)
  | '\\' :: 'r' :: r, acc => parseStr r ('\r' :: acc)
  | '\\' :: 'x' :: a :: b :: r, acc => parseStr r (Char.ofNat (hexVal a * 16 + hexVal b) :: acc)
  | '\\' :: c :: r, acc => parseStr r (c :: acc)
  | c :: r, acc => parseStr r (c :: acc)
  | [], _ => none

mutual
partial def parseOne : List Char → Option (Sexp × List Char)
  | [] => none
  | ' ' :: r => parseOne r
  | '(' :: r => (parseList r []).map fun (l, r') => (.list l, r')
  | '"' :: r => (parseStr r []).map fun (s, r') => (.str s, r')
  | ')' :: _ => none
  | cs =>
    let a := cs.takeWhile (fun c => c ≠ ' ' ∧ c ≠ '(' ∧ c ≠ ')')
    some (.atom (String.ofList a), cs.drop a.length)
partial def parseList : List Char → List Sexp → Option (List Sexp × List Char)
  | ' ' :: r, acc => parseList r acc
  | ')' :: r, acc => some (acc.reverse, r)
  | [], _ => none
  | cs, acc => match parseOne cs with
    | some (s, r) => parseList r (s :: acc)
    | none => none
end

def parse (s : String) : Option Sexp := (parseOne s.toList).map (·.1)

def hexDigit (n : Nat) : Char := if n < 10 then Char.ofNat (48 + n) else Char.ofNat (87 + n)

def quote (s : String) : String :=
  "\"" ++ String.join (s.toList.map fun c =>
    if c = '"' then "\\\"" else if c = '\\' then "\\\\" else if c = '\n' then "\\n"
    else if c = '\t' then "\\t" else if c = '\r' then "\\r"
    else if c.toNat < 32 ∨ c.toNat = 127 then "\\x" ++ String.ofList [hexDigit (c.toNat / 16), hexDigit (c.toNat % 16)]
    else String.singleton c) ++ "\""

partial def toString : Sexp → String
  | .atom s => s
  | .str s => quote s
  | .list l => "(" ++ " ".intercalate (l.map toString) ++ ")"

instance : ToString Sexp := ⟨Sexp.toString⟩

def int? : Sexp → Option Int
  | .atom s => s.toInt?
  | _ => none
def nat? : Sexp → Option Nat
  | .atom s => s.toNat?
  | _ => none
def string? : Sexp → Option String
  | .str s => some s
  | .atom s => some s
  | _ => none

/-- bytes as a hex atom, e.g. `0a0bff`; the empty string is `-` -/
def hexBytes? : Sexp → Option (List UInt8)
  | .atom "-" => some []
  | .atom s =>
    let rec go : List Char → List UInt8 → Option (List UInt8)
      | a :: b :: r, acc => go r (UInt8.ofNat (hexVal a * 16 + hexVal b) :: acc)
      | [], acc => some acc.reverse
      | _, _ => none
    go s.toList []
  | _ => none

def ofBytes (bs : List UInt8) : Sexp :=
  if bs.isEmpty then .atom "-" else
  .atom (String.ofList (bs.flatMap fun b => [hexDigit (b.toNat / 16), hexDigit (b.toNat % 16)]))

end Sexp
end Cstruct
