/-
  Python's unbounded-integer bit operations, defined without Mathlib so that the
  driver executable links natively.  Two's complement semantics on `Int`:
  `Int.negSucc n` is `-(n+1)` = `~n`.
-/
namespace Cstruct

/-- `a & b` on Python ints -/
def land : Int → Int → Int
  | .ofNat m, .ofNat n => ((m &&& n : Nat) : Int)
  | .ofNat m, .negSucc n => ((Nat.bitwise (fun a b => a && !b) m n : Nat) : Int)
  | .negSucc m, .ofNat n => ((Nat.bitwise (fun a b => a && !b) n m : Nat) : Int)
  | .negSucc m, .negSucc n => .negSucc (m ||| n)

/-- `a | b` on Python ints -/
def lor : Int → Int → Int
  | .ofNat m, .ofNat n => ((m ||| n : Nat) : Int)
  | .ofNat m, .negSucc n => .negSucc (Nat.bitwise (fun a b => a && !b) n m)
  | .negSucc m, .ofNat n => .negSucc (Nat.bitwise (fun a b => a && !b) m n)
  | .negSucc m, .negSucc n => .negSucc (m &&& n)

/-- `a ^ b` on Python ints -/
def lxor : Int → Int → Int
  | .ofNat m, .ofNat n => ((m ^^^ n : Nat) : Int)
  | .ofNat m, .negSucc n => .negSucc (m ^^^ n)
  | .negSucc m, .ofNat n => .negSucc (m ^^^ n)
  | .negSucc m, .negSucc n => ((m ^^^ n : Nat) : Int)

/-- `~a` -/
def lnot (a : Int) : Int := -a - 1

/-- `a << n` for a non-negative shift count -/
def shl (a : Int) (n : Nat) : Int := a * (2 ^ n : Nat)

/-- `a >> n` (arithmetic, floors) for a non-negative shift count -/
def shr (a : Int) (n : Nat) : Int := a / ((2 ^ n : Nat) : Int)

/-- `-offset & (alignment - 1)` exactly as written in structure.py / compiler.py.
    For `alignment = 0` Python computes `-o & -1 = -o`; the model keeps that. -/
def pyPad (o : Int) (a : Int) : Int := land (-o) (a - 1)

/-- `-o & (a - 1)` on the non-negative offsets the library works with -/
def padNat (o a : Nat) : Nat := (pyPad (o : Int) (a : Int)).toNat

/-- The textbook rule: bytes to add to `o` to reach the next multiple of `a`. -/
def pad (o a : Nat) : Nat := (a - o % a) % a

end Cstruct

instance {ε α} [DecidableEq ε] [DecidableEq α] : DecidableEq (Except ε α)
  | .ok a, .ok b => if h : a = b then isTrue (by rw [h]) else isFalse (fun e => h (by cases e; rfl))
  | .error a, .error b => if h : a = b then isTrue (by rw [h]) else isFalse (fun e => h (by cases e; rfl))
  | .ok _, .error _ => isFalse (fun e => by cases e)
  | .error _, .ok _ => isFalse (fun e => by cases e)
