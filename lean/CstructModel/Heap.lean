/-
  State-sharing model for C14: cstruct objects, structure instances and class-level default values as *locations* in a store.
  Operations name the object they act on; the model makes explicit which locations an operation may write.
-/
import CstructModel.Basic

namespace Cstruct.Heap
open Cstruct

/-- what a cstruct object owns -/
structure CsState where
  endian : Endian
  pointer : String := "uint64"                       -- name of the configured pointer type
  typedefs : List (String × String)
  consts : List (String × Int)
  lookups : List (String × List (Int × String)) := []   -- `$name = {...}` tables
  anonCount : Nat
  deriving DecidableEq, Repr

/-- the attributes of a cstruct object that the model carries, under the names the Python class uses; the translator
    extracts every attribute of the cstruct object that the library writes (`Gen/CsWrites.lean`) and `c14_cs_alphabet`
    proves that list is covered by this one, i.e. that the operations below are all the ways the library changes a
    cstruct object -/
def csAttrs : List String := ["endian", "pointer", "typedefs", "consts", "lookups", "_anonymous_count"]

/-- a value stored in the heap: an integer, or a reference to a mutable list/structure cell -/
inductive Cell
  | int (v : Int)
  | ref (loc : Nat)
  deriving DecidableEq, Repr

structure Store where
  cs : List (Nat × CsState)            -- cstruct objects by id
  cells : List (Nat × List Cell)       -- mutable containers (lists, nested structure instances) by location
  insts : List (Nat × List Cell)       -- structure instances by id: one cell per field
  deriving DecidableEq, Repr

def lookupN {α} (k : Nat) : List (Nat × α) → Option α
  | [] => none
  | (k', v) :: r => if k = k' then some v else lookupN k r

def updateN {α} (k : Nat) (v : α) : List (Nat × α) → List (Nat × α)
  | [] => [(k, v)]
  | (k', v') :: r => if k = k' then (k', v) :: r else (k', v') :: updateN k v r

inductive Op
  | setEndian (cs : Nat) (e : Endian)
  | addType (cs : Nat) (name target : String)
  | addConst (cs : Nat) (name : String) (v : Int)
  | nextAnonymous (cs : Nat)
  | setPointer (cs : Nat) (ty : String)
  | addLookup (cs : Nat) (name : String) (table : List (Int × String))
  | setField (inst : Nat) (field : Nat) (v : Cell)        -- x.f = v
  | setItem (loc : Nat) (idx : Nat) (v : Cell)            -- x.a[idx] = v / x.nested.f = v: writes *through a reference*

def setNth {α} : List α → Nat → α → List α
  | [], _, _ => []
  | _ :: r, 0, v => v :: r
  | a :: r, k + 1, v => a :: setNth r k v

def apply (s : Store) : Op → Store
  | .setEndian i e => match lookupN i s.cs with
    | some c => { s with cs := updateN i { c with endian := e } s.cs }
    | none => s
  | .addType i n t => match lookupN i s.cs with
    | some c => { s with cs := updateN i { c with typedefs := (n, t) :: c.typedefs } s.cs }
    | none => s
  | .addConst i n v => match lookupN i s.cs with
    | some c => { s with cs := updateN i { c with consts := (n, v) :: c.consts } s.cs }
    | none => s
  | .nextAnonymous i => match lookupN i s.cs with
    | some c => { s with cs := updateN i { c with anonCount := c.anonCount + 1 } s.cs }
    | none => s
  | .setPointer i t => match lookupN i s.cs with
    | some c => { s with cs := updateN i { c with pointer := t } s.cs }
    | none => s
  | .addLookup i n t => match lookupN i s.cs with
    | some c => { s with cs := updateN i { c with lookups := (n, t) :: c.lookups } s.cs }
    | none => s
  | .setField x f v => match lookupN x s.insts with
    | some fs => { s with insts := updateN x (setNth fs f v) s.insts }
    | none => s
  | .setItem l k v => match lookupN l s.cells with
    | some cs => { s with cells := updateN l (setNth cs k v) s.cells }
    | none => s

/-- default construction as the code does it: the instance's fields are *the class's default cells themselves*
    (the generated `__init__` stores the constants of the code object), so container-valued defaults are shared references -/
def constructAliased (s : Store) (inst : Nat) (defaults : List Cell) : Store :=
  { s with insts := updateN inst defaults s.insts }

/-- what an observer sees of an instance: its fields with references followed one level -/
def observe (s : Store) (inst : Nat) : Option (List (Cell × Option (List Cell))) :=
  (lookupN inst s.insts).map fun fs => fs.map fun c => match c with
    | .int _ => (c, none)
    | .ref l => (c, lookupN l s.cells)

end Cstruct.Heap
