/-
  Values of the model and the BitBuffer.
-/
import CstructModel.Ty
import CstructModel.Codec
import CstructModel.Leb

namespace Cstruct

mutual
inductive Val
  | int (v : Int)                 -- Packed / Int / LEB128 integers
  | flt (bits : Nat)              -- a float is its IEEE bit pattern
  | bytes (b : Bytes)             -- char and char arrays
  | wstr (units : List Nat)       -- wchar and wchar arrays: UTF-16 code units
  | enum (v : Int)                -- Enum / Flag instance: its underlying integer
  | ptr (addr : Int)
  | void
  | list (vs : Vals)
  | record (fs : Vals)            -- structure: field values in `__fields__` order
  | union (buf : Bytes) (fs : Vals)
inductive Vals
  | nil
  | cons (v : Val) (rest : Vals)
end

def Vals.toList : Vals → List Val
  | .nil => []
  | .cons v r => v :: r.toList

def Vals.ofList : List Val → Vals
  | [] => .nil
  | v :: r => .cons v (Vals.ofList r)

def Vals.length : Vals → Nat
  | .nil => 0
  | .cons _ r => r.length + 1

def Vals.snoc : Vals → Val → Vals
  | .nil, v => .cons v .nil
  | .cons a r, v => .cons a (r.snoc v)

/-- `int(context[name])` for the values an expression may refer to -/
def Val.asInt? : Val → Option Int
  | .int v => some v
  | .enum v => some v
  | .ptr a => some a
  | _ => none

mutual
/-- Python truthiness of a parsed value (`__bool__`), as `_read_0` of structures uses it -/
def Val.truthy : Val → Bool
  | .int v => v ≠ 0
  | .flt b => b ≠ 0            -- only used for all-integer structures; -0.0 is outside that domain
  | .bytes b => !b.isEmpty     -- bytes: non-empty (b"\x00" is truthy)
  | .wstr u => !u.isEmpty
  | .enum v => v ≠ 0
  | .ptr a => a ≠ 0
  | .void => false
  | .list vs => !(match vs with | .nil => true | _ => false)
  | .record fs => Vals.anyTruthy fs
  | .union _ fs => Vals.anyTruthy fs
def Vals.anyTruthy : Vals → Bool
  | .nil => false
  | .cons v r => v.truthy || r.anyTruthy
end

/-! ### BitBuffer (bitbuffer.py) -/

structure BitBuf where
  ty : Option Scalar
  buffer : Int
  remaining : Nat
  deriving Repr, DecidableEq

def BitBuf.empty : BitBuf := { ty := none, buffer := 0, remaining := 0 }

/-- the extraction part of `BitBuffer.read` once the unit is loaded: returns the value and the new state;
    `none` is the straddle ValueError -/
def BitBuf.take (e : Endian) (bb : BitBuf) (bits : Nat) : Option (Int × BitBuf) :=
  if bits > bb.remaining then none else
  match e with
  | .little =>
    let v := land bb.buffer (shl 1 bits - 1)
    some (v, { bb with buffer := shr bb.buffer bits, remaining := bb.remaining - bits })
  | .big =>
    let mask := lxor (shl 1 (bb.remaining - bits) - 1) (shl 1 bb.remaining - 1)
    let v := shr (land bb.buffer mask) (bb.remaining - bits)
    some (v, { bb with remaining := bb.remaining - bits })

/-- the accumulation part of `BitBuffer.write` once the unit is selected (size = unit size in bytes).
    `none`: more bits than the unit has left — a negative shift count (ValueError) in big endian; in little endian the
    code would go on with a negative `_remaining`, which no laid-out structure can reach (layout rejects straddles). -/
def BitBuf.put (e : Endian) (bb : BitBuf) (size : Nat) (data : Int) (bits : Nat) : Option BitBuf :=
  if bits > bb.remaining then none else
  if data < 0 ∨ data ≥ shl 1 bits then none else      -- `if not 0 <= data < (1 << bits): raise ValueError`
  let buffer := match e with
    | .little => lor bb.buffer (shl data (size * 8 - bb.remaining))
    | .big => lor bb.buffer (shl data (bb.remaining - bits))
  some { bb with buffer := buffer, remaining := bb.remaining - bits }

end Cstruct
