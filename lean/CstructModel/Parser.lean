/-
  Front end pieces of parser.py / cstruct.py that C13 reasons about: the comment stripper
  (`TokenParser._remove_comments`, a regex substitution, as a scanner) and the alias table (`cstruct.resolve`, `add_type`).
-/
import CstructModel.Resolve

namespace Cstruct.Parser
open Cstruct

/-- first occurrence of the character `q`: (text before it, text after it) -/
def splitAtChar (q : Char) : List Char → Option (List Char × List Char)
  | [] => none
  | c :: r => if c = q then some ([], r) else (splitAtChar q r).map fun (a, b) => (c :: a, b)

/-- first occurrence of "*/": (text before it, text after it) -/
def splitAtClose : List Char → Option (List Char × List Char)
  | [] => none
  | '*' :: '/' :: r => some ([], r)
  | c :: r => (splitAtClose r).map fun (a, b) => (c :: a, b)

def newlinesOf (l : List Char) : List Char := l.filter (· = '\n')

/-- the longest prefix without CR / LF, and the rest -/
def spanLine : List Char → List Char × List Char
  | [] => ([], [])
  | c :: r => if c = '\r' ∨ c = '\n' then ([], c :: r) else let (a, b) := spanLine r; (c :: a, b)

/-- `re.sub(r"(\".*?\"|\'.*?\')|(/\*.*?\*/|//[^\r\n]*$)", replacer, text)` with MULTILINE | DOTALL: at each position the
    alternatives are tried in order — a double-quoted string, a single-quoted string (both kept), a block comment, a line
    comment that reaches the end of its line (both replaced by the newlines they contain); otherwise the character is copied.
    `fuel` bounds the number of scanner steps by the input length. -/
def stripAux : Nat → List Char → List Char
  | 0, l => l
  | _, [] => []
  | fuel + 1, c :: r =>
    if c = '"' ∨ c = '\'' then
      match splitAtChar c r with
      | some (body, rest) => c :: body ++ c :: stripAux fuel rest
      | none => c :: stripAux fuel r
    else if c = '/' then
      match r with
      | '*' :: r' =>
        match splitAtClose r' with
        | some (body, rest) => newlinesOf body ++ stripAux fuel rest
        | none => c :: stripAux fuel r
      | '/' :: r' =>
        let (_, rest) := spanLine r'
        match rest with
        | [] => []
        | '\n' :: _ => stripAux fuel rest
        | _ => c :: stripAux fuel r            -- the line ends in CR: `$` does not match, this is not a comment
      | _ => c :: stripAux fuel r
    else c :: stripAux fuel r

def stripComments (s : String) : String := String.ofList (stripAux (s.length + 1) s.toList)

/-- a user typedef table: a name is bound to another name (alias) or to a type object (identified by a number) -/
inductive Bind
  | alias (target : String)
  | type (id : Nat)
  deriving DecidableEq, Repr

def lookupB (name : String) : List (String × Bind) → Option Bind
  | [] => none
  | (k, v) :: r => if name = k then some v else lookupB name r

/-- `cstruct.resolve(name)`: at most `fuel` (10) look-ups; `none` is ResolveError (unknown name or limit exceeded) -/
def resolveB (tbl : List (String × Bind)) : Nat → String → Option Nat
  | 0, _ => none
  | fuel + 1, name =>
    match lookupB name tbl with
    | none => none
    | some (.type id) => some id
    | some (.alias t) => resolveB tbl fuel t

/-- `dict` assignment `typedefs[name] = v` -/
def setB (name : String) (v : Bind) : List (String × Bind) → List (String × Bind)
  | [] => [(name, v)]
  | (k, b) :: r => if name = k then (k, v) :: r else (k, b) :: setB name v r

/-- `add_type(name, type_)` without `replace`: refused (ValueError, `none`) when the name is already bound and resolves to
    something else than the new binding resolves to -/
def addType (tbl : List (String × Bind)) (name : String) (v : Bind) : Option (List (String × Bind)) :=
  let newTarget : Option Nat := match v with | .type id => some id | .alias t => resolveB tbl 10 t
  match lookupB name tbl with
  | some _ => if resolveB tbl 10 name ≠ newTarget then none else some (setB name v tbl)
  | none => some (setB name v tbl)

end Cstruct.Parser
