/-
  Front end pieces of parser.py / cstruct.py that C13 reasons about: the comment stripper
  (`TokenParser._remove_comments`, a regex substitution, as a scanner) and the alias table (`cstruct.resolve`, `add_type`).
-/
import CstructModel.Resolve

namespace Cstruct.Parser
open Cstruct

/-- first occurrence of the character `q`: (text before it, text after it) -/
def splitAtChar (q : Char) : List Char → Option (List Char × List Char)
  | [] => none
  | c :: r => if c = q then some ([], r) else (splitAtChar q r).map fun (a, b) => (c :: a, b)

/-- first occurrence of "*/": (text before it, text after it) -/
def splitAtClose : List Char → Option (List Char × List Char)
  | [] => none
  | '*' :: '/' :: r => some ([], r)
  | c :: r => (splitAtClose r).map fun (a, b) => (c :: a, b)

def newlinesOf (l : List Char) : List Char := l.filter (· = '\n')

/-- the longest prefix without CR / LF, and the rest -/
def spanLine : List Char → List Char × List Char
  | [] => ([], [])
  | c :: r => if c = '\r' ∨ c = '\n' then ([], c :: r) else let (a, b) := spanLine r; (c :: a, b)

/-- `str.isspace()` -/
def isSpace (c : Char) : Bool :=
  let n := c.toNat
  (9 ≤ n && n ≤ 13) || (28 ≤ n && n ≤ 32) || n == 0x85 || n == 0xa0 || n == 0x1680 || (0x2000 ≤ n && n ≤ 0x200a) ||
  n == 0x2028 || n == 0x2029 || n == 0x202f || n == 0x205f || n == 0x3000

/-- what a block comment is replaced by: its line breaks; if it has none and stands directly between two characters that are
    no white space (`prev`: the input character in front of it — also the `/` of a preceding comment or a quote —, `next`: the
    one behind it; none at the start / end of the text), one blank; else nothing -/
def commentRepl (prev : Option Char) (body : List Char) (next : Option Char) : List Char :=
  if (newlinesOf body).isEmpty then
    match prev, next with
    | some a, some b => if isSpace a || isSpace b then [] else [' ']
    | _, _ => []
  else newlinesOf body

/-- `re.sub(r"(\".*?\"|\'.*?\')|(/\*.*?\*/|//[^\r\n]*\r?$)", replacer, text)` with MULTILINE | DOTALL: at each position the
    alternatives are tried in order — a double-quoted string, a single-quoted string (both kept), a block comment, a line
    comment that reaches the end of its line; otherwise the character is copied.  A comment is replaced by the line breaks it
    contains, or (`commentRepl`) by one blank when it is all that separates two characters that are no white space, or by
    nothing; a line comment contains no line break and is followed by one (or by the end of the text), so it is replaced by
    nothing.  The end of the line (`$`: in front of `\n`, or the end of the text) may be preceded by ONE carriage return, which
    then belongs to the comment and disappears with it (fix F73: `\r?$` — before, a `//` comment on a CRLF-terminated line was
    not recognised at all and stayed in the text); a `//…` that runs into a CR followed by anything but `\n` (a lone CR is no
    line end for `$`) is still no comment: its first `/` is copied and the scan goes on behind it.  `prev`: the previous
    character of the INPUT (`text[match.start() - 1]`); `fuel` bounds the number of scanner steps by the input length. -/
def stripAux : Nat → Option Char → List Char → List Char
  | 0, _, l => l
  | _, _, [] => []
  | fuel + 1, prev, c :: r =>
    if c = '"' ∨ c = '\'' then
      match splitAtChar c r with
      | some (body, rest) => c :: body ++ c :: stripAux fuel (some c) rest
      | none => c :: stripAux fuel (some c) r
    else if c = '/' then
      match r with
      | '*' :: r' =>
        match splitAtClose r' with
        | some (body, rest) => commentRepl prev body rest.head? ++ stripAux fuel (some '/') rest
        | none => c :: stripAux fuel (some c) r
      | '/' :: r' =>
        let (_, rest) := spanLine r'
        match rest with
        | [] => []
        | '\n' :: _ => stripAux fuel (some '/') rest    -- what follows is the newline: `prev` is not looked at there
        | ['\r'] => []                                  -- `\r?$` at the very end of the text: the CR belongs to the match
        | '\r' :: '\n' :: t => stripAux fuel (some '\r') ('\n' :: t)   -- CRLF: the CR belongs to the match (it is `prev` now)
        | _ => c :: stripAux fuel (some c) r            -- CR followed by something else: `$` does not match, no comment
      | _ => c :: stripAux fuel (some c) r
    else c :: stripAux fuel (some c) r

def stripComments (s : String) : String := String.ofList (stripAux (s.length + 1) none s.toList)

/-- a user typedef table: a name is bound to another name (alias) or to a type object (identified by a number) -/
inductive Bind
  | alias (target : String)
  | type (id : Nat)
  deriving DecidableEq, Repr

def lookupB (name : String) : List (String × Bind) → Option Bind
  | [] => none
  | (k, v) :: r => if name = k then some v else lookupB name r

/-- `cstruct.resolve(name)`: at most `fuel` (10) look-ups; `none` is ResolveError (unknown name or limit exceeded) -/
def resolveB (tbl : List (String × Bind)) : Nat → String → Option Nat
  | 0, _ => none
  | fuel + 1, name =>
    match lookupB name tbl with
    | none => none
    | some (.type id) => some id
    | some (.alias t) => resolveB tbl fuel t

/-- `dict` assignment `typedefs[name] = v` -/
def setB (name : String) (v : Bind) : List (String × Bind) → List (String × Bind)
  | [] => [(name, v)]
  | (k, b) :: r => if name = k then (k, v) :: r else (k, b) :: setB name v r

/-- `add_type(name, type_)` without `replace`: refused (ValueError, `none`) when the name is already bound and resolves to
    something else than the new binding resolves to -/
def addType (tbl : List (String × Bind)) (name : String) (v : Bind) : Option (List (String × Bind)) :=
  let newTarget : Option Nat := match v with | .type id => some id | .alias t => resolveB tbl 10 t
  match lookupB name tbl with
  | some _ => if resolveB tbl 10 name ≠ newTarget then none else some (setB name v tbl)
  | none => some (setB name v tbl)

end Cstruct.Parser
