/-
  Unions (types/structure.py: UnionMetaType, Union): a fixed-size union instance is a byte buffer plus the values of all
  members, each re-read from the buffer; assigning a member writes it into the buffer and re-reads everything.
-/
import CstructModel.Write

namespace Cstruct.Union
open Cstruct

structure UState where
  buf : Bytes
  vals : Vals

/-- replace the value of member number `k` -/
def setNth : Vals → Nat → Val → Vals
  | .nil, _, _ => .nil
  | .cons _ r, 0, v => .cons v r
  | .cons a r, k + 1, v => .cons a (setNth r k v)

/-- `BytesIO(buf); seek(0); write(enc); getvalue()`: overwrite the prefix, keep the rest -/
def overwrite (buf enc : Bytes) : Bytes := enc ++ buf.drop enc.length

/-- `UnionMetaType._read` for a fixed-size union of size `sz`: one unchecked `read(sz)`, then every member from the buffer -/
def parse (cfg : Cfg) (fs : Fields) (sz : Nat) (data : Bytes) (pos : Nat) : Except Err (UState × Nat) :=
  let buf := sread data pos sz
  match readMembers cfg fs [] buf with
  | .error e => .error e
  | .ok vs => .ok ({ buf := buf, vals := vs }, pos + sz)   -- the union ends at start + size, also after a short read

/-- `Union.__setattr__(member k, v)` followed by `_rebuild`: write the member into the buffer at its offset (always 0: union
    members never get an offset), then `_update()`: re-read every member from the new buffer -/
def assign (cfg : Cfg) (fs : Fields) (s : UState) (k : Nat) (v : Val) : Except Err UState :=
  match writeMemberRaw cfg fs (setNth s.vals k v) k 0 with
  | .error e => .error e
  | .ok enc =>
    let buf' := overwrite s.buf enc
    match readMembers cfg fs [] buf' with
    | .error e => .error e
    | .ok vs => .ok { buf := buf', vals := vs }

/-- a history of member assignments -/
def assignAll (cfg : Cfg) (fs : Fields) : UState → List (Nat × Val) → Except Err UState
  | s, [] => .ok s
  | s, (k, v) :: r =>
    match assign cfg fs s k v with
    | .error e => .error e
    | .ok s' => assignAll cfg fs s' r

/-- `cls()` : a default-constructed union: a zero buffer of the union's size and every member read from it -/
def default (cfg : Cfg) (fs : Fields) (sz : Nat) : Except Err UState :=
  match readMembers cfg fs [] (zeros sz) with
  | .error e => .error e
  | .ok vs => .ok { buf := zeros sz, vals := vs }

end Cstruct.Union
