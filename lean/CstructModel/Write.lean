/-
  The writers: per-class `_write / _write_array / _write_0`, `BaseArray._write`, `CharArray._write`,
  `WcharArray._write`, `StructureMetaType._write` with `BitBuffer.write/flush`, `UnionMetaType._write`.
  The output stream is positioned at its end, at absolute position `pos` (the structure writer pads relative to the
  absolute position for dynamically placed fields, exactly like the reader); `write` returns the bytes appended.
-/
import CstructModel.Read

set_option linter.unusedSimpArgs false

namespace Cstruct

def zeros (n : Nat) : Bytes := List.replicate n 0

/-- `str.encode("utf-16-le"/"utf-16-be")` on a string given by its UTF-16 code units; a lone surrogate is
    UnicodeEncodeError -/
def encodeWchar (e : Endian) (us : List Nat) : Except Err Bytes :=
  if utf16Ok us then
    .ok (us.flatMap fun u => match e with
      | .little => [UInt8.ofNat (u % 256), UInt8.ofNat (u / 256)]
      | .big => [UInt8.ofNat (u / 256), UInt8.ofNat (u % 256)])
  else .error .unicode

/-- `n` bytes of a float bit pattern in the given order -/
def encodeBits (e : Endian) (n : Nat) (bits : Nat) : Bytes :=
  match e with | .little => toLE n bits | .big => (toLE n bits).reverse

/-- `Scalar._write(stream, value)` -/
def writeScalar (cfg : Cfg) (s : Scalar) (v : Val) : Except Err Bytes :=
  match s, v with
  | .pint n sg, .int i => match encodeInt cfg.endian n sg i with | some b => .ok b | none => .error .overflow
  | .aint n sg, .int i => match encodeInt cfg.endian n sg i with | some b => .ok b | none => .error .overflow
  | .pflt n, .flt bits => if bits < 2 ^ (8 * n) then .ok (encodeBits cfg.endian n bits) else .error .overflow
  | .char, .bytes b => .ok b
  | .char, .int i => if 0 ≤ i ∧ i < 256 then .ok [UInt8.ofNat i.toNat] else .error .value   -- chr(data).encode("latin-1")
  | .wchar, .wstr us => encodeWchar cfg.endian us
  | .leb sg, .int i => lebWrite sg i
  | .void, _ => .ok []
  | _, _ => .error .typeErr

/-- `T.__default__()` for the element types a null-terminated array can have -/
def scalarDefault : Scalar → Val
  | .pint _ _ => .int 0 | .aint _ _ => .int 0 | .leb _ => .int 0
  | .pflt _ => .flt 0
  | .char => .bytes [0]
  | .wchar => .wstr [0]
  | .void => .void

mutual
/-- `T.__default__()` -/
def Ty.default (cfg : Cfg) : Ty → Val
  | .sc s _ => scalarDefault s
  | .enum _ _ _ => .enum 0
  | .ptr _ => .ptr 0
  | .arr e len =>
    match e, len with
    | .sc .char _, .fixed n => .bytes (zeros n)
    | .sc .wchar _, .fixed n => .wstr (List.replicate n 0)
    | .sc .char _, _ => .bytes []
    | .sc .wchar _, _ => .wstr []
    | e, .fixed n => .list (Vals.ofList (List.replicate n (e.default cfg)))
    | _, _ => .list .nil
  | .struct _ fs => .record (Fields.defaults cfg fs)
  | .union _ fs => .union [] (Fields.defaults cfg fs)   -- only used as a null terminator; its bytes come from the first member
def Fields.defaults (cfg : Cfg) : Fields → Vals
  | .nil => .nil
  | .cons _ _ t _ r => .cons (t.default cfg) (Fields.defaults cfg r)
end

/-- stable insertion of index `i` with key `k` into a list sorted by descending key -/
def insertDesc (k : Nat) (i : Nat) : List (Nat × Nat) → List (Nat × Nat)
  | [] => [(k, i)]
  | (k', i') :: r => if k > k' then (k, i) :: (k', i') :: r else (k', i') :: insertDesc k i r

/-- `BitBuffer.flush`: write the pending unit through its storage type -/
def flushBits (cfg : Cfg) (bb : BitBuf) : Except Err Bytes :=
  match bb.ty with
  | none => .ok []
  | some t =>
    -- `self._buffer.to_bytes(self._type.size, order)`: the raw bits of the unit, unsigned
    match t.size with
    | none => .error .value
    | some n => match encodeInt cfg.endian n false bb.buffer with
      | some b => .ok b
      | none => .error .overflow

def Fields.toList : Fields → List (String × Bool × Ty × Option Nat)
  | .nil => []
  | .cons n a t b r => (n, a, t, b) :: r.toList

def isStructLike : Ty → Bool
  | .struct _ _ => true
  | .union _ _ => true
  | _ => false

mutual
/-- `T._write(stream, value)` with the stream at absolute position `pos` -/
def write (cfg : Cfg) : Ty → Val → Nat → Except Err Bytes
  | .sc s _, v, _ => writeScalar cfg s v
  | .enum b _ _, v, _ =>
    match v with
    | .enum i => writeScalar cfg b (.int i)
    | .int i => writeScalar cfg b (.int i)
    | _ => .error .typeErr
  | .ptr _, v, _ =>
    match v with
    | .ptr a => writeScalar cfg cfg.ptr (.int a)
    | .int a => writeScalar cfg cfg.ptr (.int a)
    | _ => .error .typeErr
  | .arr e len, v, pos =>
    match e, v with
    -- CharArray._write / WcharArray._write: no length check at all
    | .sc .char _, .bytes b => .ok (match len with | .nullTerm => b ++ [0] | _ => b)
    | .sc .wchar _, .wstr us => encodeWchar cfg.endian (match len with | .nullTerm => us ++ [0] | _ => us)
    | e, .list vs =>
      match len with
      | .nullTerm => writeN cfg e (vs.snoc (e.default cfg)) pos      -- _write_0: [*array, default]
      | .fixed n =>
        -- `if not cls.dynamic and cls.num_entries != len(data)`: dynamic = the array's size is None
        if vs.length ≠ n then .error .arraySize else writeN cfg e vs pos   -- `isinstance(cls.num_entries, int) and num_entries != len(data)`
      | _ => writeN cfg e vs pos
    | _, _ => .error .typeErr
  | .struct al fs, v, pos =>
    match v with
    | .record vs =>
      match structLayout cfg al fs with
      | .error e => .error e
      | .ok (_, salign, offs) =>
        match writeFields cfg al fs offs vs pos BitBuf.empty pos with
        | .error e => .error e
        | .ok (out, bb) =>
          match flushBits cfg bb with
          | .error e => .error e
          | .ok fl =>
            let body := out ++ fl
            let p := pos + body.length
            .ok (if al then body ++ zeros (padNat p salign) else body)
    | _ => .error .typeErr
  | .union al fs, v, pos =>
    match v with
    | .union _ vs =>
      match (Ty.union al fs).size cfg with
      | none => .error .notImpl
      | some sz =>
        -- fields sorted by size, largest first (stable); anonymous structures are skipped on the first pass
        let items := (fs.toList.zip vs.toList)
        let order := (List.range items.length).foldl
          (fun acc i => match items[i]? with
            | some ((_, _, t, _), _) => insertDesc ((t.size cfg).getD 0) i acc
            | none => acc) []
        writeUnion cfg fs vs (order.map (·.2)) none sz pos
    | _ => .error .typeErr
termination_by t _ _ => (t.msize, 0)
decreasing_by
  all_goals simp_wf
  all_goals (try simp only [Ty.msize, Fields.msize, Vals.length])
  all_goals (first | omega | (apply Prod.Lex.left; omega) | (apply Prod.Lex.right; omega) | skip)

/-- `_write_array` default: `sum(cls._write(stream, entry) for entry in array)` (for Packed the bulk `pack` produces the
    same bytes and fails on the same values) -/
def writeN (cfg : Cfg) : Ty → Vals → Nat → Except Err Bytes
  | _, .nil, _ => .ok []
  | t, .cons v vs, pos =>
    match write cfg t v pos with
    | .error e => .error e
    | .ok a =>
      match writeN cfg t vs (pos + a.length) with
      | .error e => .error e
      | .ok b => .ok (a ++ b)
termination_by t vs _ => (t.msize, vs.length + 1)
decreasing_by
  all_goals simp_wf
  all_goals (try simp only [Ty.msize, Fields.msize, Vals.length])
  all_goals (first | omega | (apply Prod.Lex.left; omega) | (apply Prod.Lex.right; omega) | skip)

/-- the field loop of `StructureMetaType._write`; `pos` is the current absolute position, `start` is `struct_start` -/
def writeFields (cfg : Cfg) (align : Bool) : Fields → List (Option Nat) → Vals → Nat → BitBuf → Nat →
    Except Err (Bytes × BitBuf)
  | .nil, _, _, _, bb, _ => .ok ([], bb)
  | .cons _ _ ty bits rest, offs, vals, start, bb, pos =>
    match vals with
    | .nil => .error .typeErr
    | .cons v vrest =>
    let foff : Option Nat := match offs with | o :: _ => o | [] => none
    let offs' := offs.drop 1
    let isBits := match bits with | some (_ + 1) => true | _ => false
    let bitBase : Option Scalar := if isBits then ty.bitBase else none
    -- flush when leaving bit-fields or when the storage type changes
    let needFlush := (!isBits && bb.ty.isSome) || (bb.ty.isSome && bb.ty ≠ bitBase)
    match (if needFlush then flushBits cfg bb else .ok []) with
    | .error e => .error e
    | .ok fl =>
    let bb1 := if needFlush then BitBuf.empty else bb
    let pos1 := pos + fl.length
    -- pad to the recorded offset
    let pad1 := match foff with | some fo => if pos1 < start + fo then start + fo - pos1 else 0 | none => 0
    let pos2 := pos1 + pad1
    -- aligned, dynamically placed field
    let boundary := bb1.ty.isSome && (bb1.remaining = 0 || bb1.ty ≠ (match ty with | .sc s _ => some s | _ => none))
    let pad2 := if align ∧ foff.isNone ∧ (bb1.ty.isNone ∨ boundary) then padNat pos2 (ty.alignment cfg) else 0
    let pos3 := pos2 + pad2
    let pre := fl ++ zeros pad1 ++ zeros pad2
    match bits with
    | some (b + 1) =>
      match ty.bitBase, (match v with | .int i => some i | .enum i => some i | _ => none) with
      | some ft, some i =>
        match ft.size with
        | none => .error .value
        | some fsz =>
          -- BitBuffer.write: select a new unit when exhausted or the type changes (flushing a pending one)
          let newUnit := bb1.remaining = 0 ∨ bb1.ty ≠ some ft
          match (if newUnit ∧ bb1.ty.isSome then flushBits cfg bb1 else .ok []) with
          | .error e => .error e
          | .ok fl2 =>
            let bb2 : BitBuf := if newUnit then { ty := some ft, buffer := 0, remaining := fsz * 8 } else bb1
            match bb2.put cfg.endian fsz i (b + 1) with
            | none => .error .value
            | some bb3 =>
              -- `if self._remaining == 0: self.flush()`
              match (if bb3.remaining = 0 then flushBits cfg bb3 else .ok []) with
              | .error e => .error e
              | .ok fl3 =>
                let bb4 := if bb3.remaining = 0 then BitBuf.empty else bb3
                let out := pre ++ fl2 ++ fl3
                match writeFields cfg align rest offs' vrest start bb4 (pos + out.length) with
                | .error e => .error e
                | .ok (o, bbf) => .ok (out ++ o, bbf)
      | _, _ => .error .typeErr
    | _ =>
      match write cfg ty v pos3 with
      | .error e => .error e
      | .ok body =>
        let out := pre ++ body
        match writeFields cfg align rest offs' vrest start bb1 (pos + out.length) with
        | .error e => .error e
        | .ok (o, bbf) => .ok (out ++ o, bbf)
termination_by fs _ _ _ _ _ => (fs.msize, 0)
decreasing_by
  all_goals simp_wf
  all_goals (try simp only [Ty.msize, Fields.msize, Vals.length])
  all_goals (first | omega | (apply Prod.Lex.left; omega) | (apply Prod.Lex.right; omega) | skip)

/-- `UnionMetaType._write`: walk the members by descending size; remember anonymous structures, write the first other
    member; if nothing was written and an anonymous structure was skipped write that; pad with zeros to the union size. -/
def writeUnion (cfg : Cfg) (fs : Fields) (vs : Vals) : List Nat → Option Nat → Nat → Nat → Except Err Bytes
  | [], anon, sz, pos =>
    -- no regular member wrote anything
    match anon with
    | some i => writeMember cfg fs vs i sz pos
    | none => .ok (zeros sz)
  | i :: rest, anon, sz, pos =>
    match (fs.toList)[i]? with
    | none => .error .other
    | some (_, isAnon, t, _) =>
      if isStructLike t ∧ isAnon then writeUnion cfg fs vs rest (some i) sz pos
      else
        match writeMemberRaw cfg fs vs i pos with
        | .error e => .error e
        | .ok body =>
          if body.isEmpty then
            match anon with
            | some j => writeMember cfg fs vs j sz pos
            | none => .ok (zeros sz)
          else .ok (body ++ zeros (sz - body.length))
termination_by order _ _ _ => (fs.msize, order.length + 2)
decreasing_by
  all_goals simp_wf
  all_goals (try simp only [Ty.msize, Fields.msize, Vals.length])
  all_goals (first | omega | (apply Prod.Lex.left; omega) | (apply Prod.Lex.right; omega) | skip)

/-- write member `i` and pad to the union size -/
def writeMember (cfg : Cfg) (fs : Fields) (vs : Vals) (i : Nat) (sz : Nat) (pos : Nat) : Except Err Bytes :=
  match writeMemberRaw cfg fs vs i pos with
  | .error e => .error e
  | .ok body => .ok (body ++ zeros (sz - body.length))
termination_by (fs.msize, 1)
decreasing_by
  all_goals simp_wf
  all_goals (try simp only [Ty.msize, Fields.msize, Vals.length])
  all_goals (first | omega | (apply Prod.Lex.left; omega) | (apply Prod.Lex.right; omega) | skip)

/-- write member number `i` of the union with its own type -/
def writeMemberRaw (cfg : Cfg) : Fields → Vals → Nat → Nat → Except Err Bytes
  | .cons _ _ t _ _, .cons v _, 0, pos => write cfg t v pos
  | .cons _ _ _ _ r, .cons _ vr, i + 1, pos => writeMemberRaw cfg r vr i pos
  | _, _, _, _ => .error .other
termination_by fs _ _ _ => (fs.msize, 0)
decreasing_by
  all_goals simp_wf
  all_goals (try simp only [Ty.msize, Fields.msize, Vals.length])
  all_goals (first | omega | (apply Prod.Lex.left; omega) | (apply Prod.Lex.right; omega) | skip)
end

/-- `T.dumps(v)` -/
def dumps (cfg : Cfg) (t : Ty) (v : Val) : Except Err Bytes := write cfg t v 0

end Cstruct
