/-
  A model of the source-generating compiler itself (`compiler.py`, class `_ReadSourceGenerator`): from a field list and
  its layout to the *plan* (`CstructModel/Compiler.lean`) that `harness/srcplan.py` extracts from the generated source.

  `compile cfg al fs offs`
    * `.ok plan`    — the statements `_generate_fields` yields, as plan instructions, in order;
    * `.error ()`   — the real generator raises (unsupported type, non-packable pointer type, dynamic bit-field, ...),
                      `Compiler.compile` swallows the exception and the structure keeps the interpreted reader.

  The functions follow the Python line by line: `genFields` = `_generate_fields` (with its closures `flush` and
  `align_to_field`), `genPacked` = `_generate_packed`, `structInfo` = `_generate_struct_info`, `optFmt` + `renderFmt` =
  `_optimize_struct_fmt`, `readType` (Compiler.lean) = `_get_read_type`.
  Field attributes: `field.offset` = the layout offset (`structLayout`), `field.alignment` = `ty.alignment cfg`,
  `len(field_type)` = `ty.size cfg` (`none` = TypeError "Dynamic size").
-/
import CstructModel.Compiler

namespace Cstruct.Compiler
open Cstruct

/-- a `Field` object as the generator sees it -/
structure CField where
  name : String          -- `field._name`
  ty : Ty                -- `field.type`
  off : Option Nat       -- `field.offset`

/-- `field.bits` is truthy -/
def isBitsField : Option Nat → Bool
  | some (_ + 1) => true
  | _ => false

/-- `Packed.packchar` -/
def packChar : Scalar → Option Char
  | .pint 1 true => some 'b' | .pint 1 false => some 'B'
  | .pint 2 true => some 'h' | .pint 2 false => some 'H'
  | .pint 4 true => some 'i' | .pint 4 false => some 'I'
  | .pint 8 true => some 'q' | .pint 8 false => some 'Q'
  | .pflt 2 => some 'e' | .pflt 4 => some 'f' | .pflt 8 => some 'd'
  | _ => none

/-- `issubclass(read_type, (Char, Wchar, Int))`: sliced out of `buf`, never unpacked -/
def isByteBased : Scalar → Bool
  | .char | .wchar | .aint .. => true
  | _ => false

-- ------------------------------------------------------------------------------------------ _generate_struct_info

/-- an entry of `_generate_struct_info`: `(field | None, count, char)` -/
structure Info where
  field : Option CField
  count : Nat
  char : Char

/-- `if field.offset is not None and (drift := field.offset - current_offset) > 0`: the drift (0 = no padding entry);
    `field.offset - None` raises -/
def drift1 (off cur : Option Nat) : Except Unit Nat :=
  match off, cur with
  | some fo, some co => .ok (fo - co)
  | some _, none => .error ()
  | none, _ => .ok 0

/-- `if align and field.offset is None and (drift := -imaginary_offset & (field.alignment - 1)) > 0` -/
def drift2 (cfg : Cfg) (al : Bool) (f : CField) (imag : Nat) : Nat :=
  if al ∧ f.off.isNone then padNat imag (f.ty.alignment cfg) else 0

/-- `yield None, drift, "x"` when the drift is positive -/
def padInfo (d : Nat) : List Info := if d > 0 then [⟨none, d, 'x'⟩] else []

/-- the entry of a field whose read type is the scalar `s` (`count` items of `esz` bytes) -/
def entryInfo (f : CField) (s : Scalar) (count esz : Nat) : Except Unit (List Info) :=
  if isPacked s then
    (match packChar s with
    | some c => .ok [⟨some f, count, c⟩]
    | none => .error ())
  else if isByteBased s then .ok [⟨some f, count * esz, 'x'⟩]
  else .ok []

/-- `_generate_struct_info(cs, fields, align)`; `cur` = `current_offset`, `imag` = `imaginary_offset` -/
def structInfo (cfg : Cfg) (al : Bool) : List CField → Option Nat → Nat → Except Unit (List Info)
  | [], _, _ => .ok []
  | f :: rest, cur, imag =>
    match drift1 f.off cur with
    | .error e => .error e
    | .ok d1 =>
      let d2 := drift2 cfg al f imag
      match readType cfg f.ty with
      | none => .error ()                  -- not a type that is ever put into a block
      | some (s, cnt) =>
        -- `if issubclass(read_type, Void): continue`
        if s = .void ∧ cnt.isNone then
          match structInfo cfg al rest (cur.map (· + d1)) (imag + d2) with
          | .error e => .error e
          | .ok is => .ok (padInfo d1 ++ padInfo d2 ++ is)
        else
          match s.size with
          | none => .error ()              -- `count * None`
          | some esz =>
            match entryInfo f s (cnt.getD 1) esz with
            | .error e => .error e
            | .ok entry =>
              let size := cnt.getD 1 * esz
              match structInfo cfg al rest ((cur.map (· + d1)).map (· + size)) (imag + d2 + size) with
              | .error e => .error e
              | .ok is => .ok (padInfo d1 ++ padInfo d2 ++ entry ++ is)

-- ------------------------------------------------------------------------------------------ _optimize_struct_fmt

/-- the `chars` list of `_optimize_struct_fmt`; `cnt`/`cur` = `current_count`/`current_char` -/
def optFmt : List Info → Nat → Option Char → List (Nat × Char)
  | [], cnt, cur =>
    match cur with
    | some c => if cnt ≠ 0 then [(cnt, c)] else []
    | none => []
  | i :: rest, cnt, cur =>
    match cur with
    | none => optFmt rest i.count (some i.char)
    | some c =>
      if i.char ≠ c then (if cnt ≠ 0 then [(cnt, c)] else []) ++ optFmt rest i.count (some i.char)
      else optFmt rest (cnt + i.count) (some c)

/-- `"".join(f"{count if count > 1 else ''}{char}" for count, char in chars)` -/
def renderFmt : List (Nat × Char) → List Char
  | [] => []
  | (n, c) :: rest => (if n > 1 then Nat.toDigits 10 n else []) ++ c :: renderFmt rest

-- ------------------------------------------------------------------------------------------ _generate_packed

/-- is the field's type an `Array` class (as opposed to `CharArray` / `WcharArray`)? -/
def isPlainArray : Ty → Bool
  | .arr (.sc .char _) _ => false
  | .arr (.sc .wchar _) _ => false
  | .arr _ _ => true
  | _ => false

def isCharArray : Ty → Bool
  | .arr (.sc .char _) _ => true
  | _ => false

def isPtrTy : Ty → Bool
  | .ptr _ => true
  | _ => false

def arrElemIsPtr : Ty → Bool
  | .arr (.ptr _) _ => true
  | _ => false

/-- the decoder of a slot: the `parser` / `list_comp` expression of `_generate_packed` -/
def slotDec (ty : Ty) (s : Scalar) (esz : Nat) : Dec :=
  -- `if issubclass(read_type, (Wchar, Int))`: `{type}({getter})`, else `type.__call__({type}, {getter})`
  let parses : Bool := match s with | .wchar | .aint .. => true | _ => false
  if isPlainArray ty then
    (match s with
    | .aint .. => .intArray esz
    | _ => if arrElemIsPtr ty then .pointerArray else if parses then .parseArray else .initArray)
  else if isCharArray ty then .init
  else if isPtrTy ty then .pointer
  else if parses then .parse else .init

/-- the `getter` of a slot and the new `slice_index` -/
def slotSrc (s : Scalar) (cnt : Option Nat) (esz size si : Nat) : Src × Nat :=
  match cnt with
  | some n => if isByteBased s then (.buf size (size + n * esz), si) else (.dataN si (si + n), si + n)
  | none => if isByteBased s then (.buf size (size + esz), si) else (.data1 si, si + 1)

/-- the loop of `_generate_packed` over the info entries; `size`, `si` = `slice_index` -/
def packedSlots (cfg : Cfg) : List Info → Nat → Nat → Except Unit (List Slot × Nat)
  | [], size, _ => .ok ([], size)
  | i :: rest, size, si =>
    match i.field with
    | none => packedSlots cfg rest (size + i.count) si
    | some f =>
      match readType cfg f.ty, f.ty.size cfg with
      | some (s, cnt), some fsz =>
        match s.size with
        | none => .error ()
        | some esz =>
          match packedSlots cfg rest (size + fsz) (slotSrc s cnt esz size si).2 with
          | .error e => .error e
          | .ok (sls, tot) => .ok (⟨f.name, (slotSrc s cnt esz size si).1, slotDec f.ty s esz, fsz⟩ :: sls, tot)
      | _, _ => .error ()

/-- `fmt == "x" or (len(fmt) == 2 and fmt[1] == "x")` -/
def fmtLooksPadding (fmt : List Char) : Bool :=
  fmt == ['x'] || (fmt.length == 2 && fmt[1]? == some 'x')

/-- `_generate_packed(fields)`: the block instruction -/
def genPacked (cfg : Cfg) (al : Bool) (fields : List CField) : Except Unit Instr :=
  match fields with
  | [] => .error ()      -- never called with an empty block
  | f0 :: _ =>
    match structInfo cfg al fields f0.off 0 with
    | .error e => .error e
    | .ok info =>
      match packedSlots cfg info 0 0 with
      | .error e => .error e
      | .ok (slots, size) =>
        let fmt := renderFmt (optFmt info 0 none)
        let unpack : Option String :=
          if fmtLooksPadding fmt ∧ info.all (fun i => i.char == 'x') then none else some (String.ofList fmt)
        .ok (.block size unpack slots)

-- ------------------------------------------------------------------------------------------ _generate_fields

structure GState where
  cur : Option Nat               -- `current_offset`
  block : List CField            -- `current_block`
  blockOff : Option Nat          -- `current_block_offset`
  prevBits : Bool                -- `prev_was_bits`
  prevBitsTy : Option Scalar     -- `prev_bits_type` (class identity of a scalar type = its table entry)
  bitsRem : Int                  -- `bits_remaining`
  rollover : Bool                -- `bits_rollover`

def GState.init : GState :=
  { cur := some 0, block := [], blockOff := some 0, prevBits := false, prevBitsTy := none, bitsRem := 0, rollover := false }

/-- the closure `flush()` (without the `current_block[:] = []`, which the caller does) -/
def flush (cfg : Cfg) (al : Bool) (st : GState) : Except Unit Plan :=
  match st.block with
  | [] => .ok []
  | f0 :: _ =>
    match genPacked cfg al st.block with
    | .error e => .error e
    | .ok blk =>
      .ok ((match f0.off with
            | some o => if some o ≠ st.blockOff then [Instr.seek o] else []
            | none => []) ++
           (if al ∧ f0.off.isNone then [Instr.align (f0.ty.alignment cfg)] else []) ++ [blk])

/-- the closure `align_to_field(field)`: the statements and the new `current_offset` -/
def alignToField (cfg : Cfg) (al : Bool) (f : CField) (cur : Option Nat) : Plan × Option Nat :=
  match f.off with
  | some o => if some o ≠ cur then ([.seek o], some o) else ([], cur)
  | none => if al then ([.align (f.ty.alignment cfg)], none) else ([], cur)

/-- `field_type` after `if isinstance(field_type, EnumMetaType): field_type = field_type.type` -/
def fieldType : Ty → Ty
  | .enum b a _ => .sc b a
  | t => t

/-- `not issubclass(field_type, SUPPORTED_TYPES)`: of the type classes only LEB128 is missing from the tuple -/
def unsupported : Ty → Bool
  | .sc (.leb _) _ => true
  | _ => false

/-- `while issubclass(element_type, BaseArray): element_type = element_type.type` -/
def elementType : Ty → Ty
  | .arr e _ => elementType e
  | t => t

def isStructTy : Ty → Bool
  | .struct .. | .union .. => true
  | _ => false

def isArrTy : Ty → Bool
  | .arr .. => true
  | _ => false

/-- second branch of the field loop: array of structures, multi-dimensional array, dynamic array -/
def isSubArray (ft : Ty) (size : Option Nat) : Bool :=
  match ft with
  | .arr e _ => isStructTy e || isArrTy e || size.isNone
  | _ => false

/-- `_generate_bits`: through which type object the bit reader is called -/
def bitsViaOf : Ty → Via
  | .sc .char _ => .token
  | .enum .char _ _ => .token
  | .enum .. => .base
  | _ => .self

/-- the tail of the loop body: `current_offset += size` and forgetting it after a nested structure -/
def advance (st : GState) (isB : Bool) (size : Option Nat) (et : Ty) : GState :=
  let st1 : GState :=
    match st.cur, size with
    | some c, some z => if !isB || st.rollover then { st with cur := some (c + z), rollover := false } else st
    | _, _ => st
  if isStructTy et && !isB then { st1 with cur := none } else st1

/-- `if prev_was_bits and not field.bits: yield "bit_reader.reset()"` -/
def preOf (st : GState) (isB : Bool) : Plan := if st.prevBits ∧ ¬ isB then [.bitsReset] else []

/-- `prev_was_bits = False; bits_remaining = 0` after that statement -/
def afterPre (st : GState) (isB : Bool) : GState :=
  if st.prevBits ∧ ¬ isB then { st with prevBits := false, bitsRem := 0 } else st

/-- the bookkeeping of the bit-field branch: `prev_was_bits`, `prev_bits_type`, `bits_remaining`, `bits_rollover` -/
def bitsState (st : GState) (ft : Ty) (sz nbits : Nat) : GState :=
  let st : GState := { st with prevBits := true }
  let st : GState :=
    if st.bitsRem = 0 ∨ st.prevBitsTy ≠ ft.bitBase then
      { st with prevBitsTy := ft.bitBase, bitsRem := ((sz * 8 : Nat) : Int), rollover := true }
    else st
  { st with bitsRem := st.bitsRem - ((nbits : Nat) : Int) }

/-- the last branch: `flush()` for a dynamically placed member of an aligned structure, then
    `if not current_block: current_block_offset = current_offset; current_block.append(field)` -/
def blockState (al : Bool) (st : GState) (f : CField) : GState :=
  let st : GState := if al ∧ f.off.isNone then { st with block := [] } else st
  let st : GState := if st.block.isEmpty then { st with blockOff := st.cur } else st
  { st with block := st.block ++ [f] }

/-- `_generate_fields` -/
def genFields (cfg : Cfg) (al : Bool) : Fields → List (Option Nat) → GState → Except Unit Plan
  | .nil, _, st =>
    match flush cfg al st with
    | .error e => .error e
    | .ok fl => .ok (fl ++ (if al then [.alignCls] else []))
  | .cons name _ ty bits rest, offs, st0 =>
    let f : CField := { name := name, ty := ty, off := hdOff offs }
    let ft := fieldType ty
    if unsupported ft then .error () else
    let et := elementType ft
    if isPtrTy et ∧ ¬ isPacked cfg.ptr then .error () else
    let isB := isBitsField bits
    -- `if prev_was_bits and not field.bits`
    let pre : Plan := preOf st0 isB
    let st : GState := afterPre st0 isB
    let size := ft.size cfg
    if isStructTy ft ∨ isSubArray ft size then
      match flush cfg al st with
      | .error e => .error e
      | .ok fl =>
        match genFields cfg al rest (offs.drop 1)
            (advance { st with block := [], cur := (alignToField cfg al f st.cur).2 } isB size et) with
        | .error e => .error e
        | .ok p => .ok (pre ++ fl ++ (alignToField cfg al f st.cur).1 ++ [.sub name] ++ p)
    else if isB then
      match size with
      | none => .error ()        -- "Unsupported type for bit field"
      | some sz =>
        let st : GState := bitsState st ft sz (bits.getD 0)
        match flush cfg al st with
        | .error e => .error e
        | .ok fl =>
          match genFields cfg al rest (offs.drop 1)
              (advance { st with block := [], cur := (alignToField cfg al f st.cur).2 } isB size et) with
          | .error e => .error e
          | .ok p => .ok (pre ++ fl ++ (alignToField cfg al f st.cur).1 ++ [.bits name (bits.getD 0) (bitsViaOf ty)] ++ p)
    else
      -- `if self.align and field.offset is None: yield from flush()`
      let fl : Except Unit Plan := if al ∧ f.off.isNone then flush cfg al st else .ok []
      match fl with
      | .error e => .error e
      | .ok fl =>
        match genFields cfg al rest (offs.drop 1) (advance (blockState al st f) isB size et) with
        | .error e => .error e
        | .ok p => .ok (pre ++ fl ++ p)

/-- the plan of the source that `_ReadSourceGenerator(cs, fields, name, align).generate_source()` produces for a
    structure with the field list `fs` whose layout offsets are `offs`; `.error ()` = it raises -/
def compile (cfg : Cfg) (al : Bool) (fs : Fields) (offs : List (Option Nat)) : Except Unit Plan :=
  genFields cfg al fs offs GState.init

end Cstruct.Compiler
