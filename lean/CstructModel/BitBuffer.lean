/-
  The class `BitBuffer` of dissect/cstruct/bitbuffer.py as an object of its own: its mutable state (`_type`, `_buffer`,
  `_remaining`, `endian`, the stream) and its methods `__init__`, `read`, `write`, `flush`, `reset`, statement by
  statement, including what the object looks like after a method raised.

  Shared with the structure-level model (`readFields` / `writeFields`), so that the two cannot drift:
    * the stream primitives `sread` / `readExact` (Read.lean),
    * the unit codecs `decodeInt` / `decodeNat` / `encodeInt` (Codec.lean),
    * the extraction step `BitBuf.take` (Val.lean) - `BB.read` calls it -, and the accumulation step `BitBuf.put`:
      `BB.write` spells the shift out (it has to go on where `put` stops: a straddling little-endian write), and
      `Proofs/Lemmas/C06BitBufferB.lean` (`write_eq_put`, = `c06_bb_write_is_put`) proves the two equal wherever `put` is defined.

  Assumption on the callers (structure.py, compiler.py: `BitBuffer(stream, cls.cs.endian)`): the storage types handed to
  `read` / `write` belong to the cstruct object whose `endian` the buffer was created with, so `field_type._read` decodes
  the unit in the byte order the buffer normalised (`struct` and `ENDIANNESS_MAP` treat '@' / '=' as the host's order and
  '!' as big, like `__init__` does).  Storage types are those whose `_read` gives an `int` (Packed integers, `Int`) or
  `bytes` (char); the stream is a `BytesIO`.
-/
import CstructModel.Read

namespace Cstruct.BBuf
open Cstruct

/-- the spellings of a byte order a `cstruct` object can carry -/
inductive EndianCode | lt | gt | bang | at | eq
  deriving DecidableEq, Repr

/-- `__init__`: `("<" if sys.byteorder == "little" else ">") if endian in ("@", "=") else endian`, seen through the only
    test the class ever makes on the result (`self.endian == "<"`; everything else counts as big) -/
def normEndian (host : Endian) : EndianCode → Endian
  | .lt => .little
  | .gt => .big
  | .bang => .big
  | .at => host
  | .eq => host

/-- a storage type as `BitBuffer` sees it: `id` stands for the identity of the class object (`self._type != field_type`),
    `size` for its `size` attribute (`none` = variable length), `signed` for how `_read` decodes, `bytes` for a `_read`
    that returns `bytes` (char) -/
structure BTy where
  id : Nat
  size : Option Nat
  signed : Bool
  bytes : Bool
  deriving DecidableEq, Repr

/-- a `BytesIO`: content and position -/
structure Stream where
  data : Bytes
  pos : Nat
  deriving DecidableEq, Repr

/-- the position after a `read(n)` that came back short: what was left has been handed out (a position behind the end
    stays where it is) -/
def Stream.afterShort (s : Stream) (n : Nat) : Stream := { s with pos := s.pos + (sread s.data s.pos n).length }

/-- `stream.write(bs)`: overwrites at the position and extends the content (zero filled when the position lies behind
    the end); writing `b""` changes nothing -/
def Stream.write (s : Stream) (bs : Bytes) : Stream :=
  if bs.isEmpty then s else
  { data := s.data.take s.pos ++ List.replicate (s.pos - s.data.length) 0 ++ bs ++ s.data.drop (s.pos + bs.length),
    pos := s.pos + bs.length }

/-- the object. `remaining` is an `Int`: a straddling little-endian write drives `_remaining` below zero -/
structure BB where
  ty : Option BTy
  buffer : Int
  remaining : Int
  endian : Endian
  stream : Stream
  deriving DecidableEq, Repr

/-- `BitBuffer(stream, endian)` on a host with byte order `host` -/
def BB.init (host : Endian) (code : EndianCode) (s : Stream) : BB :=
  { ty := none, buffer := 0, remaining := 0, endian := normEndian host code, stream := s }

/-- `_type = None; _buffer = 0; _remaining = 0` -/
def BB.cleared (bb : BB) : BB := { bb with ty := none, buffer := 0, remaining := 0 }

/-- result of a method: the new object and the return value, or the exception class and the object as it is left -/
abbrev R (α : Type) := Except (Err × BB) (BB × α)

/-- the unit as an integer: what `field_type._read` returns, after the `isinstance(self._buffer, bytes)` conversion -/
def unitVal (e : Endian) (t : BTy) (bs : Bytes) : Int :=
  if t.bytes then (decodeNat e bs : Int) else decodeInt e t.signed bs

/-- `reset()` -/
def BB.reset (bb : BB) : R Unit := .ok (bb.cleared, ())

/-- `flush()`: `self._buffer.to_bytes(self._type.size, order)` written to the stream, then the state is cleared; a buffer
    that is negative or too wide raises OverflowError before anything changed -/
def BB.flush (bb : BB) : R Unit :=
  match bb.ty with
  | none => .ok (bb.cleared, ())
  | some t =>
    match t.size with
    | none => .error (.typeErr, bb)            -- `to_bytes(None, ..)`; `_type` is never a variable-length type
    | some n =>
      match encodeInt bb.endian n false bb.buffer with
      | none => .error (.overflow, bb)
      | some bs => .ok ({ bb.cleared with stream := bb.stream.write bs }, ())

/-- `read(field_type, bits)` -/
def BB.read (bb : BB) (t : BTy) (bits : Nat) : R Int :=
  -- `if self._remaining == 0 or self._type != field_type:` load a unit
  let loaded : Except (Err × BB) BB :=
    if bb.remaining = 0 ∨ bb.ty ≠ some t then
      match t.size with
      | none => .error (.value, bb)
      | some n =>
        -- `_type` and `_remaining` are assigned before `_read` gets the chance to raise
        match readExact bb.stream.data bb.stream.pos n with
        | .error e => .error (e, { bb with ty := some t, remaining := n * 8, stream := bb.stream.afterShort n })
        | .ok (bs, p) =>
          .ok { bb with ty := some t, remaining := n * 8, buffer := unitVal bb.endian t bs, stream := { bb.stream with pos := p } }
    else .ok bb
  match loaded with
  | .error e => .error e
  | .ok bb1 =>
    -- `if bits > self._remaining: raise ValueError`
    if (bits : Int) > bb1.remaining then .error (.value, bb1) else
    match BitBuf.take bb1.endian { ty := none, buffer := bb1.buffer, remaining := bb1.remaining.toNat } bits with
    | none => .error (.value, bb1)
    | some (v, b) => .ok ({ bb1 with buffer := b.buffer, remaining := (b.remaining : Int) }, v)

/-- `write(field_type, data, bits)` -/
def BB.write (bb : BB) (t : BTy) (data : Int) (bits : Nat) : R Unit :=
  -- `if self._remaining == 0 or self._type != field_type:` select a unit
  let selected : Except (Err × BB) BB :=
    if bb.remaining = 0 ∨ bb.ty ≠ some t then
      -- `if self._type: self.flush()`; the truth value of a type class is its `__len__`, i.e. its size
      let flushed : Except (Err × BB) BB :=
        match bb.ty with
        | none => .ok bb
        | some t0 =>
          match t0.size with
          | none => .error (.typeErr, bb)
          | some 0 => .ok bb
          | some _ => bb.flush.map (·.1)
      match flushed with
      | .error e => .error e
      | .ok bb1 =>
        match t.size with
        | none => .error (.value, bb1)
        | some n => .ok { bb1 with ty := some t, remaining := n * 8 }
    else .ok bb
  match selected with
  | .error e => .error e
  | .ok bb2 =>
    -- `if self._type is None or self._type.size is None: raise ValueError("Invalid state")`
    match bb2.ty with
    | none => .error (.value, bb2)
    | some t2 =>
      match t2.size with
      | none => .error (.value, bb2)
      | some n =>
        -- `if not 0 <= data < (1 << bits): raise ValueError`
        if data < 0 ∨ data ≥ shl 1 bits then .error (.value, bb2) else
        -- `data << (size * 8 - remaining)` in little endian, `data << (remaining - bits)` in big endian
        let sh : Int := match bb2.endian with
          | .little => ((n * 8 : Nat) : Int) - bb2.remaining
          | .big => bb2.remaining - (bits : Int)
        if sh < 0 then .error (.value, bb2) else     -- "negative shift count"
        let bb3 : BB := { bb2 with buffer := lor bb2.buffer (shl data sh.toNat), remaining := bb2.remaining - (bits : Int) }
        -- `if self._remaining == 0: self.flush()`
        if bb3.remaining = 0 then bb3.flush else .ok (bb3, ())

/-! ### Operation sequences -/

inductive Op
  | read (t : BTy) (bits : Nat)
  | write (t : BTy) (data : Int) (bits : Nat)
  | flush
  | reset
  deriving DecidableEq, Repr

inductive Res
  | val (v : Int)
  | done
  | err (e : Err)
  deriving DecidableEq, Repr

/-- one method call: the object afterwards and what the caller sees -/
def BB.step (bb : BB) : Op → BB × Res
  | .read t bits => match bb.read t bits with
    | .ok (bb', v) => (bb', .val v)
    | .error (e, bb') => (bb', .err e)
  | .write t data bits => match bb.write t data bits with
    | .ok (bb', _) => (bb', .done)
    | .error (e, bb') => (bb', .err e)
  | .flush => match bb.flush with
    | .ok (bb', _) => (bb', .done)
    | .error (e, bb') => (bb', .err e)
  | .reset => match bb.reset with
    | .ok (bb', _) => (bb', .done)
    | .error (e, bb') => (bb', .err e)

/-- the object and the result after every call of a sequence -/
def BB.trace : BB → List Op → List (BB × Res)
  | _, [] => []
  | bb, op :: r => let s := bb.step op; s :: BB.trace s.1 r

end Cstruct.BBuf
