/-
  The update protocol of `StructureMetaType` as a state machine: `add_field`, `start_update()` (a context manager that may be
  nested and may be left through an exception) and `commit()`.

      def add_field(cls, name, type_, bits=None, offset=None):
          field = Field(name, type_, bits=bits, offset=offset)     # raises here (AttributeError on a type that did not resolve,
          cls.__fields__.append(field)                              # TypeError on a missing argument): nothing was appended
          if not cls.__updating__:
              cls.commit()

      @contextmanager
      def start_update(cls):
          try:
              cls.__updating__ = True
              yield
          finally:
              cls.commit()                  # a commit that raises leaves the flag set
              cls.__updating__ = False

      def commit(cls):
          classdict = cls._update_fields(cls.__fields__, cls.__align__)   # raises: no attribute of the class was replaced, but
          for key, value in classdict.items():                             # the offsets of the fields it passed are written
              setattr(cls, key, value)

  The state keeps what the class keeps: `__fields__` with the offsets on the Field objects, the committed view (the field list
  that `fields` / `lookup` / `__init__` / `__eq__` / `__hash__` / `__bool__` / `size` / `alignment` were last built from, with the
  layout that commit computed) and `__updating__`.  `commitErr` / `broken` record what the caller saw: whether the last call let
  an exception escape from `commit()`, and whether that ever happened.
-/
import CstructModel.Commit

namespace Cstruct.Update
open Cstruct Cstruct.Commit

/-- `(size, alignment, field offsets)` as `_calculate_size_and_offsets` produces them -/
abbrev Layout := Option Nat × Nat × List (Option Nat)

structure UState where
  fields : Fields                   -- `cls.__fields__`
  persisted : List (Option Nat)     -- `field.offset` of each of them
  cfields : Fields                  -- the field list the class attributes were last generated from
  layout : Layout                   -- `cls.size`, `cls.alignment` and the offsets that commit assigned
  updating : Bool                   -- `cls.__updating__`
  commitErr : Option Err            -- the exception the last call let escape from `commit()`
  broken : Bool                     -- some `commit()` has raised so far

/-- a structure made with an empty field list (`_make_struct(name, [])`) -/
def UState.init : UState :=
  { fields := .nil, persisted := [], cfields := .nil, layout := (some 0, 0, []), updating := false, commitErr := none,
    broken := false }

inductive Op
  | addField (name : String) (ty : Ty) (bits : Option Nat)   -- `add_field(name, type_, bits)`
  | addFieldFails                                             -- `add_field` raising before the append
  | enter                                                     -- `with cls.start_update():`
  | exitOk                                                    -- the block ends
  | exitExc                                                   -- the block is left through an exception
  | commit                                                    -- `cls.commit()`

def names : Fields → List String
  | .nil => []
  | .cons n _ _ _ r => n :: names r

/-- `_update_fields`: `if field._name in lookup and field._name != "_": raise ValueError("Duplicate field name")` -/
def hasDup : List String → List String → Bool
  | [], _ => false
  | n :: r, seen => (seen.contains n && n != "_") || hasDup r (n :: seen)

/-- the offsets of the fields a raising `_calculate_size_and_offsets` did not reach: unchanged -/
def keepP : Fields → List (Option Nat) → List (Option Nat)
  | .nil, _ => []
  | .cons _ _ _ _ r, pre => pre.headD none :: keepP r (pre.drop 1)

/-- `field.offset` of all fields after `_calculate_size_and_offsets` ran over them, whether it returned or raised part-way
    (the same walk as `layoutP`; where that returns, this is its offset list: `Proofs/Lemmas/C18Update.lean`, `writesP_ok`) -/
def writesP (cfg : Cfg) (align : Bool) : Fields → List (Option Nat) → LState → List (Option Nat)
  | .nil, _, _ => []
  | .cons _ _ ty bits rest, pre, st =>
    let fa := ty.alignment cfg
    let lead : Option Nat := match pre.headD none with | some o => some o | none => st.offset
    let offset : Option Nat := match lead with
      | some o => if align then some (o + padNat o fa) else some o
      | none => none
    let alignment := max st.alignment fa
    let untouched := pre.headD none :: keepP rest (pre.drop 1)
    match bits with
    | some (b + 1) =>
      match ty.bitBase with
      | none => untouched
      | some ft =>
        match ft.size with
        | none => untouched
        | some fsz =>
          let third : Except Err Bool :=
            if st.bitsRemaining = 0 ∨ some ft ≠ st.bitsType then .ok true else
            match st.bitsType with
            | none => .ok false
            | some bt =>
              match offset, st.bitsFieldOffset, bt.size with
              | some o, some bfo, some bs => .ok (decide (o > bfo + bs))
              | some _, some _, none => .error .typeErr
              | _, _, _ => .ok false
          match third with
          | .error _ => untouched
          | .ok newUnit =>
            let (st1, foff) : LState × Option Nat :=
              if newUnit then
                ({ offset := offset.map (· + fsz), alignment := alignment, bitsType := some ft,
                   bitsFieldOffset := offset, bitsRemaining := (fsz * 8 : Nat) }, offset)
              else ({ st with offset := offset, alignment := alignment }, pre.headD none)
            let rem := st1.bitsRemaining - ((b + 1 : Nat) : Int)
            -- `field.offset = bits_field_offset` precedes the straddle check
            if rem < 0 then foff :: keepP rest (pre.drop 1) else
            foff :: writesP cfg align rest (pre.drop 1) { st1 with bitsRemaining := rem }
    | _ =>
      let st1 : LState := { offset := offset, alignment := alignment, bitsType := none, bitsFieldOffset := some 0, bitsRemaining := 0 }
      let st2 : LState := match offset with
        | some o => match ty.size cfg with
          | some k => { st1 with offset := some (o + k) }
          | none => { st1 with offset := none }
        | none => st1
      offset :: writesP cfg align rest (pre.drop 1) st2

/-- what `_update_fields` computes from `__fields__`, or the exception it raises -/
def view (cfg : Cfg) (align : Bool) (fs : Fields) (persisted : List (Option Nat)) : Except Err Layout :=
  if hasDup (names fs) [] then .error .value else commit cfg align fs persisted

/-- `cls.commit()` -/
def commitStep (cfg : Cfg) (align : Bool) (s : UState) : UState :=
  match view cfg align s.fields s.persisted with
  | .ok (sz, a, offs) =>
    { s with persisted := offs, cfields := s.fields, layout := (sz, a, offs), commitErr := none }
  | .error e =>
    -- the class keeps every attribute it had; the duplicate check precedes the layout, the layout writes offsets as it goes
    { s with persisted := if hasDup (names s.fields) [] then s.persisted else writesP cfg align s.fields s.persisted LState.init,
             commitErr := some e, broken := true }

/-- the `finally:` of `start_update`: `cls.commit()`, then - unless that raised - `cls.__updating__ = False` -/
def exitStep (cfg : Cfg) (align : Bool) (s : UState) : UState :=
  let s1 := commitStep cfg align s
  match s1.commitErr with
  | some _ => s1
  | none => { s1 with updating := false }

def step (cfg : Cfg) (align : Bool) (s : UState) : Op → UState
  | .addField n ty bits =>
    let s1 : UState := { s with fields := Fields.append s.fields (.cons n false ty bits .nil), persisted := s.persisted ++ [none],
                                commitErr := none }
    if s.updating then s1 else commitStep cfg align s1
  | .addFieldFails => { s with commitErr := none }
  | .enter => { s with updating := true, commitErr := none }
  | .exitOk => exitStep cfg align s
  | .exitExc => exitStep cfg align s
  | .commit => commitStep cfg align s

def run (cfg : Cfg) (align : Bool) : UState → List Op → UState
  | s, [] => s
  | s, op :: ops => run cfg align (step cfg align s op) ops

/-- the states after each operation (what the driver prints) -/
def trace (cfg : Cfg) (align : Bool) : UState → List Op → List UState
  | _, [] => []
  | s, op :: ops => let s' := step cfg align s op; s' :: trace cfg align s' ops

end Cstruct.Update
