/-
  Enums and flags: the numbering fold of `TokenParser._enum` and the comparison/hash semantics of
  `Enum.__eq__/__hash__`, `Flag.__eq__/__hash__` (types/enum.py, types/flag.py).
  Reading and writing an enum field is `read`/`write` on `Ty.enum` (Read.lean / Write.lean): the underlying integer, untouched.
-/
import CstructModel.Expr

namespace Cstruct.Enum
open Cstruct

/-- Python's `int.bit_length()` -/
def bitLength (v : Int) : Nat := if v = 0 then 0 else Nat.log2 v.natAbs + 1

/-- `nextval` after a member of value `val` -/
def nextVal (isFlag : Bool) (val : Int) : Int :=
  if isFlag then ((2 ^ bitLength val : Nat) : Int)      -- 2 ** (val.bit_length() - 1 + 1)
  else val + 1

/-- `values[key] = val` on an insertion-ordered dict -/
def setVal (k : String) (v : Int) : List (String × Int) → List (String × Int)
  | [] => [(k, v)]
  | (k', v') :: r => if k = k' then (k', v) :: r else (k', v') :: setVal k v r

/-- the member loop of `_enum`: every member is `(name, none)` (implicit value) or `(name, some exprText)`.
    Explicit values are expressions over the members defined so far (context), then the constants. -/
def number (isFlag : Bool) (consts : List (String × Int)) :
    List (String × Option String) → Int → List (String × Int) → Except Expr.EErr (List (String × Int))
  | [], _, vals => .ok vals
  | (name, ex) :: rest, next, vals =>
    let val : Except Expr.EErr Int := match ex with
      | none => .ok next
      | some text =>
        match Expr.Obj.new text with
        | .error e => .error e
        | .ok o => (o.evaluate { ctx := vals, consts := consts, sizeof := fun _ => .error .resolve }).2
    match val with
    | .error e => .error e
    | .ok v => number isFlag consts rest (nextVal isFlag v) (setVal name v vals)

/-- `_enum`: `nextval` starts at 0 for an enum and at 1 for a flag -/
def enumValues (isFlag : Bool) (consts : List (String × Int)) (members : List (String × Option String)) :=
  number isFlag consts members (if isFlag then 1 else 0) []

/-- an enum / flag instance: its class (identity), its name if it names a member, its integer value -/
structure EVal where
  cls : Nat
  name : Option String
  value : Int
  deriving DecidableEq, Repr

/-- `Enum.__eq__` / `Flag.__eq__` against another enum instance (of any enum or flag class) -/
def EVal.eq (a b : EVal) : Bool := if a.cls ≠ b.cls then false else decide (a.value = b.value)
/-- `__eq__` against a plain integer -/
def EVal.eqInt (a : EVal) (n : Int) : Bool := decide (a.value = n)
/-- `hash((self.__class__, self.name, self.value))` as the tuple itself -/
def EVal.hashKey (a : EVal) : Nat × Option String × Int := (a.cls, a.name, a.value)

/-- `cls(value)`: the member registered for the value (the last alias wins in `_value2member_map_`), else an unnamed
    pseudo-member holding the value (`_missing_`) -/
def mk (cls : Nat) (members : List (String × Int)) (v : Int) : EVal :=
  { cls := cls, name := (members.reverse.find? (·.2 = v)).map (·.1), value := v }

end Cstruct.Enum
