/-
  Incremental structure definition (StructureMetaType.add_field / start_update / commit): `Field` objects keep the
  offset a previous commit assigned (`field.offset`), and `_calculate_size_and_offsets` treats an existing offset as
  leading.  `layoutP` is `Fields.layout` with that extra input.
-/
import CstructModel.Ty

namespace Cstruct.Commit
open Cstruct

def Fields.append : Fields → Fields → Fields
  | .nil, g => g
  | .cons n a t b r, g => .cons n a t b (Fields.append r g)

/-- `_calculate_size_and_offsets` with the offsets already present on the Field objects (`pre`, one per field; `none` for a
    field that was never laid out, was dynamically placed, or continues a bit-field unit) -/
def layoutP (cfg : Cfg) (align : Bool) : Fields → List (Option Nat) → LState → Except Err (Option Nat × Nat × List (Option Nat))
  | .nil, _, st =>
    let size := match st.offset with
      | some o => if align then some (o + padNat o st.alignment) else some o
      | none => none
    .ok (size, st.alignment, [])
  | .cons _ _ ty bits rest, pre, st =>
    let fa := ty.alignment cfg
    -- `if field.offset is not None: offset = field.offset`
    let lead : Option Nat := match pre.headD none with | some o => some o | none => st.offset
    let offset : Option Nat := match lead with
      | some o => if align then some (o + padNat o fa) else some o
      | none => none
    let alignment := max st.alignment fa
    match bits with
    | some (b + 1) =>
      match ty.bitBase with
      | none => .error .typeErr
      | some ft =>
        match ft.size with
        | none => .error .typeErr
        | some fsz =>
          let third : Except Err Bool :=
            if st.bitsRemaining = 0 ∨ some ft ≠ st.bitsType then .ok true else
            match st.bitsType with
            | none => .ok false
            | some bt =>
              match offset, st.bitsFieldOffset, bt.size with
              | some o, some bfo, some bs => .ok (decide (o > bfo + bs))
              | some _, some _, none => .error .typeErr
              | _, _, _ => .ok false
          match third with
          | .error e => .error e
          | .ok newUnit =>
            let (st1, foff) : LState × Option Nat :=
              if newUnit then
                ({ offset := offset.map (· + fsz), alignment := alignment, bitsType := some ft,
                   bitsFieldOffset := offset, bitsRemaining := (fsz * 8 : Nat) }, offset)
              else ({ st with offset := offset, alignment := alignment }, pre.headD none)   -- `field.offset` is left as it was
            let rem := st1.bitsRemaining - ((b + 1 : Nat) : Int)
            if rem < 0 then .error .value else
            match layoutP cfg align rest (pre.drop 1) { st1 with bitsRemaining := rem } with
            | .error e => .error e
            | .ok (sz, al, offs) => .ok (sz, al, foff :: offs)
    | _ =>
      let st1 : LState := { offset := offset, alignment := alignment, bitsType := none, bitsFieldOffset := some 0, bitsRemaining := 0 }
      let st2 : LState := match offset with
        | some o => match ty.size cfg with
          | some k => { st1 with offset := some (o + k) }
          | none => { st1 with offset := none }
        | none => st1
      match layoutP cfg align rest (pre.drop 1) st2 with
      | .error e => .error e
      | .ok (sz, al, offs) => .ok (sz, al, offset :: offs)

/-- one `commit()`: lay out all fields with the offsets persisted so far (new fields have none) -/
def commit (cfg : Cfg) (align : Bool) (fs : Fields) (persisted : List (Option Nat)) :=
  layoutP cfg align fs persisted LState.init

/-- a history of batches: after every batch a commit; returns the last commit's result -/
def commitAll (cfg : Cfg) (align : Bool) : Fields → List (Option Nat) → List Fields → Except Err (Fields × Option Nat × Nat × List (Option Nat))
  | fs, persisted, [] =>
    match commit cfg align fs persisted with
    | .ok (sz, a, offs) => .ok (fs, sz, a, offs)
    | .error e => .error e
  | fs, persisted, batch :: more =>
    let fs' := Fields.append fs batch
    match commit cfg align fs' persisted with
    | .error e => .error e
    | .ok (_, _, offs) => commitAll cfg align fs' offs more

end Cstruct.Commit
