/-
  LEB128 (types/leb128.py): the accumulate-and-shift reader and the emit loop of the writer, as written.
-/
import CstructModel.Basic

namespace Cstruct

/-- the `while True` loop of `LEB128._read`: state `(result, shift)`; returns the final `(result, shift, last byte, rest)`,
    `none` when the stream ends first (EOFError). -/
def lebReadLoop : Bytes → Nat → Nat → Option (Nat × Nat × UInt8 × Bytes)
  | [], _, _ => none
  | b :: r, res, sh =>
    let res' := res ||| ((b.toNat &&& 0x7F) <<< sh)
    if b.toNat &&& 0x80 = 0 then some (res', sh + 7, b, r) else lebReadLoop r res' (sh + 7)

/-- `LEB128._read` -/
def lebRead (signed : Bool) (bs : Bytes) : Except Err (Int × Bytes) :=
  match lebReadLoop bs 0 0 with
  | none => .error .eof
  | some (res, sh, b, r) =>
    if signed ∧ b.toNat &&& 0x40 ≠ 0 then .ok (lor (res : Int) (shl (lnot 0) sh), r)   -- result |= ~0 << shift
    else .ok ((res : Int), r)

/-- the emit loop of `LEB128._write` (after the negative/unsigned guard) -/
def lebWriteLoop (signed : Bool) (data : Int) : Bytes :=
  let byte := land data 0x7F
  let data' := shr data 7
  if (signed ∧ data' = 0 ∧ land byte 0x40 = 0) ∨ (data' = -1 ∧ land byte 0x40 ≠ 0) ∨ (¬ signed ∧ data' = 0) then
    [UInt8.ofNat byte.toNat]
  else
    if _h : data = 0 ∨ data = -1 then [UInt8.ofNat byte.toNat]   -- unreachable: 0 and -1 always stop above
    else UInt8.ofNat (lor 0x80 byte).toNat :: lebWriteLoop signed data'
termination_by data.natAbs
decreasing_by
  simp only [shr]
  have : ((2 ^ 7 : Nat) : Int) = 128 := by decide
  rw [this]
  omega

/-- `LEB128._write`; ValueError for a negative value in unsigned mode -/
def lebWrite (signed : Bool) (data : Int) : Except Err Bytes :=
  if data < 0 ∧ ¬ signed then .error .value else .ok (lebWriteLoop signed data)

end Cstruct
