import CstructModel.Sexp

/-!
  The class call `T(*args, **kwargs)`: which of the library's routes a call takes.

  `MetaType.__call__` (types/base.py), `StructureMetaType.__call__` and `UnionMetaType.__call__` (types/structure.py) decide
  by the NUMBER of positional arguments, the presence of keywords, and what the single positional argument is, whether the
  call parses its argument (`_read` on a readable, `reads` on a buffer), takes it as a value (`type.__call__`, i.e. the
  generated `__init__`), or takes one of two shortcuts ("single char/bytes type"); a union additionally decides whether the
  freshly made object is rebuilt from its first given member (value initialisation) or left as parsed.  This is decision
  logic only; what the routes compute is the subject of Read / Write / Union.

  The model looks at exactly what the code looks at:
    * the argument:  a `bytes` object of length n | another buffer (bytearray, memoryview) | a readable (has `read`) |
                     an instance of the class itself | any other value;
    * the class:     whether it is a `bytes` subclass (char, char arrays) and its size; for structures and unions the
                     list of fields with (type is a bytes subclass, is a bit-field, size of the type).
-/

namespace Cstruct.Call

inductive Arg
  | bytes (n : Nat)      -- isinstance(x, bytes), len(x) = n  (bytes is also a buffer type)
  | buffer               -- bytearray / memoryview: `_is_buffer_type` but not `bytes`
  | readable             -- `_is_readable_type`: has a `read` attribute
  | self_                -- isinstance(x, cls)
  | value                -- anything else
  deriving DecidableEq, Repr

inductive Route
  | read                 -- cls._read(stream)
  | reads                -- cls.reads(buffer)
  | shortcutScalar       -- MetaType: "Shortcut for char/bytes type"
  | shortcutStruct       -- StructureMetaType: "Shortcut for single char/bytes type" (bookkeeping of a parse is kept)
  | default_             -- StructureMetaType: no arguments at all, `_values = {}`
  | init                 -- type.__call__(cls, *args, **kwargs): the value constructor
  deriving DecidableEq, Repr

structure FieldInfo where
  isBytes : Bool         -- issubclass(field.type, bytes)
  bits : Bool            -- field.bits is set
  size : Option Nat      -- field.type.size
  offset : Bool := false -- field.offset is set and not 0 (an explicitly placed member; fix F86)
  deriving DecidableEq, Repr

structure Cls where
  isBytes : Bool         -- issubclass(cls, bytes)
  size : Option Nat      -- cls.size
  fields : List FieldInfo  -- `__fields__` (structures and unions; [] otherwise)
  deriving DecidableEq, Repr

/-- `_is_buffer_type(x)`: bytes, bytearray, memoryview -/
def Arg.isBuffer : Arg → Bool
  | .bytes _ => true
  | .buffer => true
  | _ => false

/-- `MetaType.__call__` -/
def metaCall (c : Cls) (args : List Arg) : Route :=
  match args with
  | [a] =>
    if a = .self_ then .init
    else if a = .readable then .read
    else match a with
      | .bytes n => if c.isBytes ∧ c.size = some n then .shortcutScalar else .reads
      | .buffer => .reads
      | _ => .init
  | _ => .init

/-- `StructureMetaType.__call__` (keywords are not looked at by the shortcut test) -/
def structCall (c : Cls) (args : List Arg) (nkw : Nat) : Route :=
  match c.fields, args with
  | [f], [.bytes n] =>
    if f.isBytes ∧ f.bits = false ∧ f.offset = false ∧ f.size = some n then .shortcutStruct
    else metaCall c args
  | _, [] => if nkw = 0 then .default_ else .init
  | _, _ => metaCall c args

inductive Post
  | rebuild              -- value initialisation: the union is rebuilt from the first given member
  | proxify              -- default initialisation
  | asParsed             -- parsed: nothing is done here
  deriving DecidableEq, Repr

/-- what `UnionMetaType.__call__` does with the object `StructureMetaType.__call__` returned -/
def unionPost (args : List Arg) (nkw : Nat) : Post :=
  let parsedForm := match args with
    | [a] => a = .readable || a.isBuffer
    | _ => false
  if (!args.isEmpty && !parsedForm) || nkw ≠ 0 then .rebuild
  else if args.isEmpty && nkw = 0 then .proxify
  else .asParsed

/-! ### line protocol: (callroute (cls isBytes size|none ((isBytes bits size|none [offset]) ...)) (arg ...) nkw) -/

def parseArg : Sexp → Option Arg
  | .list [.atom "bytes", n] => n.nat?.map .bytes
  | .atom "buffer" => some .buffer
  | .atom "readable" => some .readable
  | .atom "self" => some .self_
  | .atom "value" => some .value
  | _ => none

def optSize : Sexp → Option (Option Nat)
  | .atom "none" => some none
  | s => s.nat?.map some

def parseField : Sexp → Option FieldInfo
  | .list [b, bits, sz] =>
    match b.nat?, bits.nat?, optSize sz with
    | some b, some bits, some sz => some ⟨b != 0, bits != 0, sz, false⟩
    | _, _, _ => none
  | .list [b, bits, sz, off] =>
    match b.nat?, bits.nat?, optSize sz, off.nat? with
    | some b, some bits, some sz, some off => some ⟨b != 0, bits != 0, sz, off != 0⟩
    | _, _, _, _ => none
  | _ => none

def parseCls : Sexp → Option Cls
  | .list [.atom "cls", b, sz, .list fs] =>
    match b.nat?, optSize sz, fs.mapM parseField with
    | some b, some sz, some fs => some ⟨b != 0, sz, fs⟩
    | _, _, _ => none
  | _ => none

def Route.name : Route → String
  | .read => "read" | .reads => "reads" | .shortcutScalar => "shortcut-scalar" | .shortcutStruct => "shortcut-struct"
  | .default_ => "default" | .init => "init"

def Post.name : Post → String
  | .rebuild => "rebuild" | .proxify => "proxify" | .asParsed => "as-parsed"

/-- answers (ok <route of a structure/union class> <route of any other class> <what a union does afterwards>) -/
def callroute : List Sexp → Sexp
  | [c, .list args, k] =>
    match parseCls c, args.mapM parseArg, k.nat? with
    | some c, some args, some nkw =>
      .list [.atom "ok", .atom (structCall c args nkw).name, .atom (metaCall c args).name, .atom (unionPost args nkw).name]
    | _, _, _ => .list [.atom "bad-args"]
  | _ => .list [.atom "bad-args"]

end Cstruct.Call
