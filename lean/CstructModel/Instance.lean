/-
  Structure instances (types/structure.py: the generated `__init__`, `__eq__`, `__hash__`, `__bool__`).
  An instance is its class (identity) and its field values in `__fields__` order.
-/
import CstructModel.Write

namespace Cstruct.Instance
open Cstruct

mutual
/-- Python `==` on parsed values (structural; an enum equals an integer of the same value) -/
def veq : Val → Val → Bool
  | .int a, .int b => a == b
  | .int a, .enum b => a == b
  | .enum a, .int b => a == b
  | .enum a, .enum b => a == b
  | .flt a, .flt b => a == b
  | .bytes a, .bytes b => a == b
  | .wstr a, .wstr b => a == b
  | .ptr a, .ptr b => a == b
  | .ptr a, .int b => a == b
  | .int a, .ptr b => a == b
  | .void, .void => true
  | .list a, .list b => vseq a b
  | .record a, .record b => vseq a b
  | .union _ a, .union _ b => vseq a b
  | _, _ => false
def vseq : Vals → Vals → Bool
  | .nil, .nil => true
  | .cons a r, .cons b s => veq a b && vseq r s
  | _, _ => false
end

structure Inst where
  cls : Nat
  names : List String
  vals : List Val

/-- `_make__eq__`: same class, then the tuples of all fields compare equal -/
def Inst.eq (a b : Inst) : Bool :=
  a.cls == b.cls && a.vals.length == b.vals.length && (a.vals.zip b.vals).all (fun (x, y) => veq x y)

/-- `_make__bool__`: `any([self.f1, self.f2, …])` -/
def Inst.bool (a : Inst) : Bool := a.vals.any Val.truthy

/-- `_make__hash__`: `hash((self.f1, …))` — the tuple of field values is the key -/
def Inst.hashKey (a : Inst) : List Val := a.vals

/-- assign field number `k` -/
def setNth : List Val → Nat → Val → List Val
  | [], _, _ => []
  | _ :: r, 0, v => v :: r
  | a :: r, k + 1, v => a :: setNth r k v

def Inst.set (a : Inst) (k : Nat) (v : Val) : Inst := { a with vals := setNth a.vals k v }

def indexOf (names : List String) (n : String) : Option Nat :=
  match names with
  | [] => none
  | x :: r => if x = n then some 0 else (indexOf r n).map (· + 1)

/-- the generated `__init__(self, f1=None, f2=None, …)`: positional arguments fill the fields in order, keyword
    arguments by name; every field left `None` takes the type's default -/
def init (cls : Nat) (names : List String) (defaults : List Val) (args : List Val) (kwargs : List (String × Val)) : Inst :=
  let base : List Val := (List.range names.length).map fun i => (args[i]?).getD (defaults.getD i .void)
  let vals := kwargs.foldl (fun vs (k, v) => match indexOf names k with | some i => setNth vs i v | none => vs) base
  { cls := cls, names := names, vals := vals }

end Cstruct.Instance
