/-
  utils._dumpstruct: the walk over `structure.__class__.__fields__` that builds the palette (one entry per listed field:
  the field's recorded size and the next background colour of a cycle of seven) and the listing (one line per listed
  field), on top of the hex-dump state machine of `Hexdump.lean`.

  Modelled: which fields are listed (anonymous members are skipped and do not advance the colour counter), the colour
  assigned to each, the palette handed to `hexdump`, `hex(value)` for integers, the re-indentation of multi-line list
  renderings, the assembly of each listing line. Not modelled (rendered by the caller and passed in as text): `repr`
  of strings / pointers / enums, `pprint.pformat` of lists, `str()` of every other value.
-/
import CstructModel.Hexdump
import CstructModel.Gen.Colors

namespace Cstruct.Dumpstruct
open Cstruct Cstruct.Hexdump

/-- the value of a field as `_dumpstruct` distinguishes it -/
inductive DVal
  | int (v : Int)        -- `isinstance(value, int)` (and not str / Pointer / Enum): shown as `hex(value)`
  | text (s : String)    -- str / Pointer / Enum: `repr(value)`; any other type: `str(value)` - rendered by the caller
  | list (s : String)    -- `pprint.pformat(value)`, rendered by the caller; continuation lines are re-indented here
  deriving Repr

/-- one entry of `structure.__class__.__fields__` as `_dumpstruct` sees it -/
structure DField where
  name : String
  anonymous : Bool       -- `getattr(field.type, "anonymous", False)`
  size : Option Nat      -- `structure._sizes.get(field._name)`; absent counts as 0
  value : DVal
  deriving Repr

/-- `hex(value)` -/
def hexInt (v : Int) : String :=
  (if v < 0 then "-0x" else "0x") ++ String.ofList (Nat.toDigits 16 v.natAbs)

/-- `value.replace("\n", "\n" + " " * (len(field._name) + 4))` -/
def reindentChars (pad : List Char) : List Char → List Char
  | [] => []
  | c :: r => if c = '\n' then c :: pad ++ reindentChars pad r else c :: reindentChars pad r

def reindent (name s : String) : String :=
  String.ofList (reindentChars (List.replicate (name.length + 4) ' ') s.toList)

def render (f : DField) : String :=
  match f.value with
  | .int v => hexInt v
  | .text s => s
  | .list s => reindent f.name s

/-- `colors`: (foreground, background) - regenerated from utils.py by the translator (`Gen/Colors.lean`) -/
def colorTable : List (String × String) := Gen.dumpColors

/-- `colors[ci % len(colors)]` -/
def colorAt (ci : Nat) : String × String := colorTable.getD (ci % colorTable.length) ("", "")

/-- the listing line of one field -/
def fieldLine (color : Bool) (ci : Nat) (f : DField) : List Seg :=
  if color then [.text "- ", .code (colorAt ci).1, .text f.name, .code "NORMAL", .text (": " ++ render f)]
  else [.text ("- " ++ f.name ++ ": " ++ render f)]

/-- the `for field in structure.__class__.__fields__` loop: palette entries and listing lines, `ci` the colour counter -/
def walk (color : Bool) : Nat → List DField → List (Int × String) × List (List Seg)
  | _, [] => ([], [])
  | ci, f :: rest =>
    if f.anonymous then walk color ci rest
    else
      let (pal, ls) := walk color (ci + 1) rest
      ((if color then [(((f.size.getD 0 : Nat) : Int), (colorAt ci).2)] else []) ++ pal, fieldLine color ci f :: ls)

structure Dump where
  hex : List Line              -- `hexdump(data, palette, offset=offset)`
  title : String               -- `struct <name>:`
  listing : List (List Seg)    -- one entry per listed field
  deriving Repr

/-- `_dumpstruct(structure, data, offset, color, output)` up to the final string assembly; the palette handed to `hexdump` is
    `[] if color else None` (fix F72: without colour no colour code at all reaches the hex part) -/
def dumpstruct (cls : String) (fields : List DField) (data : Bytes) (offset : Nat) (color : Bool) : Dump :=
  let (pal, ls) := walk color 0 fields
  { hex := hexdump data (if color then some pal else none) offset, title := "struct " ++ cls ++ ":", listing := ls }

end Cstruct.Dumpstruct
