/-
  utils._hexdump: the per-byte palette state machine, with the output as tagged segments so that
  "colour codes" and "text" can be told apart; and utils.pack / unpack / swap.
-/
import CstructModel.Codec

namespace Cstruct.Hexdump
open Cstruct

inductive Seg
  | text (s : String)
  | code (s : String)   -- a palette colour or COLOR_NORMAL
  deriving DecidableEq, Repr

/-- `PRINTABLE = string.digits + string.ascii_letters + string.punctuation + " "` = ASCII 0x20..0x7e -/
def printable (b : UInt8) : Bool := 0x20 ≤ b.toNat && b.toNat ≤ 0x7e

def hexDigit (n : Nat) : Char := if n < 10 then Char.ofNat (48 + n) else Char.ofNat (87 + n)
/-- `f"{b:02x}"` -/
def hex2 (b : UInt8) : String := String.ofList [hexDigit (b.toNat / 16), hexDigit (b.toNat % 16)]
def printChar (b : UInt8) : String := if printable b then String.singleton (Char.ofNat b.toNat) else "."

/-- palette state: `palette` is `None` or the stack of remaining entries (next entry first),
    `active` is `None` or a colour string (possibly empty, which Python treats as false). -/
structure PState where
  palette : Option (List (Int × String))
  remaining : Int
  active : Option String

def truthy : Option String → Bool
  | some s => s ≠ ""
  | none => false

/-- the inner `while remaining == 0:` loop after a pop -/
def skipEmpty : List (Int × String) → Int → String → List (Int × String) × Int × String
  | [], rem, act => if rem = 0 then ([], rem, "") else ([], rem, act)
  | (r', a') :: pal, rem, act => if rem = 0 then skipEmpty pal r' a' else ((r', a') :: pal, rem, act)

/-- One iteration of `for j in range(16)`: `byte` is `data[i+j]` or `none` past the end.
    Returns the new state, the segments appended to `values` and those appended to `chars`. -/
def cell (s : PState) (j : Nat) (byte : Option UInt8) : PState × List Seg × List Seg :=
  -- colour switching
  let (s1, v1) : PState × List Seg :=
    match s.palette with
    | some ((r, a) :: pal) =>
      if !truthy s.active then
        let (pal', rem, act) := skipEmpty pal r a
        ({ palette := some pal', remaining := rem, active := some act }, [.code act])
      else if j = 0 then (s, [.code (s.active.getD "")]) else (s, [])
    | _ =>
      if truthy s.active ∧ j = 0 then (s, [.code (s.active.getD "")]) else (s, [])
  -- the byte
  let (s2, v2, c2) : PState × List Seg × List Seg :=
    match byte with
    | none => (s1, [.text "  "], [])
    | some b =>
      let cs : List Seg := if truthy s1.active then [.code (s1.active.getD ""), .text (printChar b), .code "NORMAL"] else [.text (printChar b)]
      let rem := s1.remaining - 1
      let (act, vEnd) : Option String × List Seg :=
        if rem = 0 then (none, if s1.palette.isSome then [.code "NORMAL"] else []) else (s1.active, [])
      let vLine : List Seg := if j = 15 ∧ s1.palette.isSome then [.code "NORMAL"] else []
      ({ s1 with remaining := rem, active := act }, [.text (hex2 b)] ++ vEnd ++ vLine, cs)
  (s2, v1 ++ v2 ++ [.text (if j = 7 then "  " else " ")], c2)

/-- the 16 cells of one line, starting at column `j` -/
def cells (s : PState) : Nat → List (Option UInt8) → PState × List Seg × List Seg
  | _, [] => (s, [], [])
  | j, b :: rest =>
    let (s1, v, c) := cell s j b
    let (s2, vs, cs) := cells s1 (j + 1) rest
    (s2, v ++ vs, c ++ cs)

def padRow (row : Bytes) : List (Option UInt8) := row.map some ++ List.replicate (16 - row.length) none

structure Line where
  offset : Nat
  values : List Seg
  chars : List Seg
  deriving Repr

/-- the outer `for i in range(0, len(data), 16)` loop; `fuel` bounds the number of lines -/
def lines (s : PState) (offset : Nat) : Nat → Bytes → List Line
  | 0, _ => []
  | _, [] => []
  | fuel + 1, data =>
    let row := data.take 16
    let (s', v, c) := cells s 0 (padRow row)
    { offset := offset, values := v, chars := c } :: lines s' (offset + 16) fuel (data.drop 16)

/-- `_hexdump(data, palette, offset)`: `palette = None` and `palette = []` both skip the reversal; the model keeps
    the entries in popping order (first entry first). -/
def hexdump (data : Bytes) (palette : Option (List (Int × String))) (offset : Nat) : List Line :=
  lines { palette := palette, remaining := 0, active := none } offset (data.length + 1) data

def stripCodes : List Seg → String
  | [] => ""
  | .text s :: r => s ++ stripCodes r
  | .code _ :: r => stripCodes r

/-! ### Specification: the plain dump -/

def plainValues (row : List (Option UInt8)) : Nat → String
  | j => match row with
    | [] => ""
    | b :: rest => (match b with | some x => hex2 x | none => "  ") ++ (if j = 7 then "  " else " ") ++ plainValues rest (j + 1)

def plainChars (row : Bytes) : String := String.join (row.map printChar)

/-! ### pack / unpack / swap -/

def bitLength (n : Nat) : Nat := if n = 0 then 0 else Nat.log2 n + 1

/-- `pack(value, size, endian)`; `size = none` or `0` means "as many bytes as the value needs"; error = OverflowError -/
def pack (value : Int) (size : Option Nat) (e : Endian) : Option Bytes :=
  let bits := match size with
    | some 0 | none => if value < 0 then bitLength (value.natAbs - 1) + 1 else bitLength value.natAbs   -- `(~value).bit_length() + 1`
    | some s => s
  encodeInt e ((bits + 7) / 8) (decide (value < 0)) value

/-- `unpack(value, size, endian, sign)`; error = ValueError -/
def unpack (bs : Bytes) (size : Option Nat) (e : Endian) (sign : Bool) : Option Int :=
  match size with
  | some s => if s ≠ 0 ∧ bs.length ≠ (s + 7) / 8 then none else some (decodeInt e sign bs)
  | none => some (decodeInt e sign bs)

/-- `swap(value, size)` -/
def swap (value : Int) (size : Nat) : Option Int :=
  match pack value (some size) .big with
  | none => none
  | some bs => unpack bs (some size) .little false

end Cstruct.Hexdump
