/-
  The compiled reader (compiler.py), as a *plan*: the instruction list that the generated `_read` source executes.

  The real compiler emits Python source made of nine statement shapes.  `harness/srcplan.py` parses the source that the
  real compiler generated (`T._read.__func__.__source__`) into the `Plan` below, without interpreting it.  This file gives

  * `exec`   — what running such a plan does (stream position, bit reader, result dict `r`, sizes dict `s`), written
               against the same primitive readers as the interpreted model (`read`, `readScalar`, `BitBuf.take`);
  * `planOK` — a validator: a decidable check of a plan against the structure's field list and layout.

  `Proofs/C03.lean` proves that every plan the validator accepts behaves like the interpreted reader
  (`readStructWithSizes`); the check runs the validator on the plan of every structure it generates, so the theorem applies
  to the code the real compiler produced for that structure (translation validation with a verified validator).
-/
import CstructModel.Read

namespace Cstruct.Compiler
open Cstruct

/-- where a slot takes its raw value from: a slice of the block's bytes or items of the unpacked tuple -/
inductive Src
  | buf (a b : Nat)       -- `buf[a:b]`
  | data1 (i : Nat)       -- `data[i]`
  | dataN (i j : Nat)     -- `data[i:j]`
  deriving DecidableEq, Repr

/-- how a slot's value is built from its source -/
inductive Dec
  | init                  -- `type.__call__(T, x)`
  | parse                 -- `T(x)`
  | pointer               -- `_pt.__new__(_pt, x, stream, r)`
  | intArray (esz : Nat)  -- `type.__call__(_t, [_et(_b[i:i + esz]) for i in range(0, n, esz)])`
  | initArray             -- `type.__call__(_t, [type.__call__(_et, e) for e in data[i:j]])`
  | parseArray            -- `type.__call__(_t, [_et(e) for e in ...])`
  | pointerArray          -- `type.__call__(_t, [_et.__new__(_et, e, stream, r) for e in data[i:j]])`
  deriving DecidableEq, Repr

structure Slot where
  name : String
  src : Src
  dec : Dec
  size : Nat              -- `s["name"] = size`
  deriving DecidableEq, Repr

/-- through which type object `bit_reader.read` is called -/
inductive Via
  | self    -- `bit_reader.read(_t, n)`: the field's own type
  | base    -- `bit_reader.read(_t.type, n)`: the underlying type of an enum / flag
  | token   -- `_t = cls.cs.uint8; bit_reader.read(_k, n)`: a char unit, value produced as uint8
  deriving DecidableEq, Repr

inductive Instr
  | seek (off : Nat)                                   -- `stream.seek(o + off)`
  | align (a : Nat)                                    -- `stream.seek(-stream.tell() & (a - 1), SEEK_CUR)`
  | alignCls                                           -- the same with `cls.alignment`
  | block (size : Nat) (fmt : Option String) (slots : List Slot)
  | sub (name : String)                                -- `r[name] = _k._read(stream, context=r)`; size = bytes consumed
  | bitsReset                                          -- `bit_reader.reset()`
  | bits (name : String) (nbits : Nat) (via : Via)
  deriving DecidableEq, Repr

abbrev Plan := List Instr

-- ------------------------------------------------------------------------------------------ struct formats

/-- item size of a struct format character (standard sizes: the format always carries `<`, `>` or `!`) -/
def charSize (c : Char) : Option Nat :=
  if c = 'b' ∨ c = 'B' then some 1 else if c = 'h' ∨ c = 'H' ∨ c = 'e' then some 2
  else if c = 'i' ∨ c = 'I' ∨ c = 'f' then some 4 else if c = 'q' ∨ c = 'Q' ∨ c = 'd' then some 8 else none

/-- the Packed scalar a format character decodes -/
def charScalar (c : Char) : Option Scalar :=
  if c = 'b' then some (.pint 1 true) else if c = 'B' then some (.pint 1 false)
  else if c = 'h' then some (.pint 2 true) else if c = 'H' then some (.pint 2 false)
  else if c = 'i' then some (.pint 4 true) else if c = 'I' then some (.pint 4 false)
  else if c = 'q' then some (.pint 8 true) else if c = 'Q' then some (.pint 8 false)
  else if c = 'e' then some (.pflt 2) else if c = 'f' then some (.pflt 4) else if c = 'd' then some (.pflt 8) else none

/-- `"2I4xQ"` -> `[(2,'I'), (4,'x'), (1,'Q')]`; `none` for anything that is not `(digits? letter)*` -/
def parseFmtAux : List Char → Option Nat → Option (List (Nat × Char))
  | [], none => some []
  | [], some _ => none
  | c :: rest, acc =>
    if c.isDigit then parseFmtAux rest (some (acc.getD 0 * 10 + (c.toNat - 48)))
    else if c.isAlpha then (parseFmtAux rest none).map ((acc.getD 1, c) :: ·)
    else none

def parseFmt (cs : List Char) : Option (List (Nat × Char)) := parseFmtAux cs none

/-- an unpacked item: its scalar and its byte offset inside the block -/
structure Item where
  sc : Scalar
  off : Nat
  size : Nat
  deriving DecidableEq, Repr

def replicateItems (s : Scalar) (sz : Nat) : Nat → Nat → List Item
  | 0, _ => []
  | n + 1, off => ⟨s, off, sz⟩ :: replicateItems s sz n (off + sz)

/-- the items `struct.unpack(fmt, buf)` returns, with their offsets, and the total size `struct.calcsize(fmt)` -/
def fmtItems : List (Nat × Char) → Nat → Option (List Item × Nat)
  | [], off => some ([], off)
  | (n, c) :: rest, off =>
    if c = 'x' then fmtItems rest (off + n) else
    match charScalar c, charSize c with
    | some s, some sz =>
      match fmtItems rest (off + n * sz) with
      | some (its, tot) => some (replicateItems s sz n off ++ its, tot)
      | none => none
    | _, _ => none

def fmtItemsOf (fmt : Option String) (size : Nat) : Option (List Item) :=
  match fmt with
  | none => some []
  | some f => match parseFmt f.toList with
    | some pf => match fmtItems pf 0 with
      | some (its, tot) => if tot = size then some its else none
      | none => none
    | none => none

-- ------------------------------------------------------------------------------------------ values of slots

def slice (buf : Bytes) (a b : Nat) : Bytes := (buf.drop a).take (b - a)

/-- `struct.unpack` of one item -/
def itemVal (cfg : Cfg) (buf : Bytes) (it : Item) : Option Val :=
  match it.sc with
  | .pint n sg => some (.int (decodeInt cfg.endian sg (slice buf it.off (it.off + n))))
  | .pflt n => some (.flt (decodeNat cfg.endian (slice buf it.off (it.off + n))))
  | _ => none

def isIntBase : Scalar → Bool
  | .pint .. | .aint .. => true
  | _ => false

/-- wrap an unpacked / decoded number into an instance of the element class (`type.__call__(T, x)` / `T(bytes)`) -/
def wrapNum (ty : Ty) (v : Val) : Except Err Val :=
  match ty, v with
  | .sc (.pint ..) _, .int i => .ok (.int i)
  | .sc (.aint ..) _, .int i => .ok (.int i)
  | .sc (.pflt _) _, .flt b => .ok (.flt b)
  | .enum b _ _, .int i => if isIntBase b then .ok (.enum i) else .error .typeErr
  | .ptr _, .int i => .ok (.ptr i)
  | _, _ => .error .typeErr

def mapM' (f : α → Except Err β) : List α → Except Err (List β)
  | [] => .ok []
  | a :: r => match f a with
    | .error e => .error e
    | .ok b => match mapM' f r with
      | .error e => .error e
      | .ok bs => .ok (b :: bs)

def chunks (esz : Nat) : Nat → Bytes → List Bytes
  | 0, _ => []
  | n + 1, bs => bs.take esz :: chunks esz n (bs.drop esz)

/-- the value a slot assigns to `r[name]` for a field of type `ty`; `.error .other` = a combination the generated code
    never contains (its Python meaning is not modelled; the validator rejects it) -/
def slotVal (cfg : Cfg) (ty : Ty) (buf : Bytes) (items : List Item) (sl : Slot) : Except Err Val :=
  match sl.dec, sl.src with
  | .init, .data1 i =>
    match items[i]? with
    | some it => match itemVal cfg buf it with
      | some v => match ty with
        | .ptr _ => .error .other
        | _ => wrapNum ty v
      | none => .error .other
    | none => .error .other
  | .init, .buf a b =>
    match ty with
    | .sc .char _ => .ok (.bytes (slice buf a b))
    | .arr (.sc .char _) (.fixed _) => .ok (.bytes (slice buf a b))
    | _ => .error .other
  | .parse, .buf a b =>
    match ty with
    | .sc (.aint _ sg) _ => .ok (.int (decodeInt cfg.endian sg (slice buf a b)))
    | .enum (.aint _ sg) _ _ => .ok (.enum (decodeInt cfg.endian sg (slice buf a b)))
    | .sc .wchar _ => decodeWchar cfg.endian (slice buf a b)
    | .arr (.sc .wchar _) (.fixed _) => decodeWchar cfg.endian (slice buf a b)
    | _ => .error .other
  | .pointer, .data1 i =>
    match ty, items[i]? with
    | .ptr _, some it => match itemVal cfg buf it with
      | some (.int v) => .ok (.ptr v)
      | _ => .error .other
    | _, _ => .error .other
  | .intArray esz, .buf a b =>
    match ty with
    | .arr (.sc (.aint n sg) _) (.fixed k) =>
      if esz = n then .ok (.list (Vals.ofList ((chunks esz k (slice buf a b)).map fun c => Val.int (decodeInt cfg.endian sg c))))
      else .error .other
    | .arr (.enum (.aint n sg) _ _) (.fixed k) =>
      if esz = n then .ok (.list (Vals.ofList ((chunks esz k (slice buf a b)).map fun c => Val.enum (decodeInt cfg.endian sg c))))
      else .error .other
    | _ => .error .other
  | .initArray, .dataN i j =>
    match ty with
    | .arr (.ptr _) _ => .error .other
    | .arr e (.fixed _) =>
      match mapM' (fun it => match itemVal cfg buf it with | some v => wrapNum e v | none => .error .other) ((items.drop i).take (j - i)) with
      | .ok vs => .ok (.list (Vals.ofList vs))
      | .error er => .error er
    | _ => .error .other
  | .pointerArray, .dataN i j =>
    match ty with
    | .arr (.ptr t) (.fixed _) =>
      match mapM' (fun it => match itemVal cfg buf it with | some v => wrapNum (.ptr t) v | none => .error .other) ((items.drop i).take (j - i)) with
      | .ok vs => .ok (.list (Vals.ofList vs))
      | .error er => .error er
    | _ => .error .other
  | _, _ => .error .other

-- ------------------------------------------------------------------------------------------ execution

def isVoid : Ty → Bool
  | .sc .void _ => true
  | _ => false

/-- the storage scalar `bit_reader.read` is called with, and the class the value is wrapped in -/
def bitsVia (ty : Ty) (via : Via) : Option Scalar :=
  match via, ty with
  | .self, .sc s _ => if s = .char then none else some s
  | .base, .enum b _ _ => some b
  | .token, .sc .char _ => some .char
  | _, _ => none

structure St where
  pos : Nat
  bb : BitBuf
  ctx : Ctx

/-- the slots of one block, walked along the field list (void fields get no slot and are skipped) -/
def execSlots (cfg : Cfg) (buf : Bytes) (items : List Item) :
    List Slot → Fields → Ctx → Except Err (Vals × List (String × Nat) × Fields × Ctx)
  | [], fs, ctx => .ok (.nil, [], fs, ctx)
  | sl :: rest, fs, ctx =>
    match fs with
    | .nil => .error .other
    | .cons name _ ty bits fs' =>
      if isVoid ty ∧ bits.isNone ∧ name ≠ sl.name then
        match execSlots cfg buf items (sl :: rest) fs' (ctx.set name .void) with
        | .error e => .error e
        | .ok (vs, szs, fs'', ctx') => .ok (.cons .void vs, szs, fs'', ctx')
      else if name ≠ sl.name ∨ bits.isSome then .error .other else
      match slotVal cfg ty buf items sl with
      | .error e => .error e
      | .ok v =>
        match execSlots cfg buf items rest fs' (ctx.set name v) with
        | .error e => .error e
        | .ok (vs, szs, fs'', ctx') => .ok (.cons v vs, (name, sl.size) :: szs, fs'', ctx')
termination_by sl fs _ => (sl.length, fs.length)
decreasing_by
  all_goals simp_wf
  · apply Prod.Lex.right; simp [Fields.length]
  · apply Prod.Lex.left; simp

/-- void fields in front of the cursor: the generated code has no statement for them -/
def skipVoids : Fields → Ctx → Vals → (Fields × Ctx × (Vals → Vals))
  | .cons name a ty bits rest, ctx, _ =>
    if isVoid ty ∧ bits.isNone then
      let (fs, c, k) := skipVoids rest (ctx.set name .void) .nil
      (fs, c, fun vs => .cons .void (k vs))
    else (.cons name a ty bits rest, ctx, id)
  | .nil, ctx, _ => (.nil, ctx, id)

/-- run a plan along the field list. Returns the field values in field order, the recorded sizes, the final position.
    `start` is `o`, `salign` the structure's alignment (`cls.alignment`). A plan whose instructions do not follow the
    field order is `.error .other` (such a plan is never accepted by `planOK`). -/
def exec (cfg : Cfg) (salign start : Nat) (data : Bytes) :
    Plan → Fields → St → Except Err (Vals × List (String × Nat) × Nat)
  | [], fs, st =>
    let (fs', _, k) := skipVoids fs st.ctx .nil
    match fs' with
    | .nil => .ok (k .nil, [], st.pos)
    | _ => .error .other
  | .seek o :: is, fs, st =>
    let (fs', ctx', k) := skipVoids fs st.ctx .nil
    match exec cfg salign start data is fs' { st with pos := start + o, ctx := ctx' } with
    | .error e => .error e
    | .ok (vs, szs, pe) => .ok (k vs, szs, pe)
  | .align a :: is, fs, st =>
    let (fs', ctx', k) := skipVoids fs st.ctx .nil
    match exec cfg salign start data is fs' { st with pos := st.pos + padNat st.pos a, ctx := ctx' } with
    | .error e => .error e
    | .ok (vs, szs, pe) => .ok (k vs, szs, pe)
  | .alignCls :: is, fs, st =>
    let (fs', ctx', k) := skipVoids fs st.ctx .nil
    match exec cfg salign start data is fs' { st with pos := st.pos + padNat st.pos salign, ctx := ctx' } with
    | .error e => .error e
    | .ok (vs, szs, pe) => .ok (k vs, szs, pe)
  | .bitsReset :: is, fs, st => exec cfg salign start data is fs { st with bb := BitBuf.empty }
  | .sub nm :: is, fs, st =>
    let (fs', ctx', k) := skipVoids fs st.ctx .nil
    match fs' with
    | .cons name _ ty none rest =>
      if name ≠ nm then .error .other else
      match read cfg ty ctx' data st.pos with
      | .error e => .error e
      | .ok (v, p) =>
        match exec cfg salign start data is rest { pos := p, bb := st.bb, ctx := ctx'.set name v } with
        | .error e => .error e
        | .ok (vs, szs, pe) => .ok (k (.cons v vs), (name, p - st.pos) :: szs, pe)
    | _ => .error .other
  | .bits nm n via :: is, fs, st =>
    let (fs', ctx', k) := skipVoids fs st.ctx .nil
    match fs' with
    | .cons name _ ty (some b) rest =>
      if name ≠ nm ∨ b ≠ n ∨ n = 0 then .error .other else
      match bitsVia ty via with
      | none => .error .other
      | some ft =>
        let loaded : Except Err (BitBuf × Nat) :=
          if st.bb.remaining = 0 ∨ st.bb.ty ≠ some ft then
            match ft.size with
            | none => .error .value
            | some fsz =>
              match readScalar cfg ft data st.pos with
              | .error e => .error e
              | .ok (u, p) =>
                match unitInt cfg u with
                | some i => .ok ({ ty := some ft, buffer := i, remaining := fsz * 8 }, p)
                | none => .error .typeErr
          else .ok (st.bb, st.pos)
        match loaded with
        | .error e => .error e
        | .ok (bb1, p1) =>
          match bb1.take cfg.endian n with
          | none => .error .value
          | some (v, bb2) =>
            let val : Val := match ty with | .enum _ _ _ => .enum v | _ => .int v
            match exec cfg salign start data is rest { pos := p1, bb := bb2, ctx := ctx'.set name val } with
            | .error e => .error e
            | .ok (vs, szs, pe) => .ok (k (.cons val vs), szs, pe)
    | _ => .error .other
  | .block size fmt slots :: is, fs, st =>
    let (fs0, ctx0, k) := skipVoids fs st.ctx .nil
    match readExact data st.pos size with
    | .error e => .error e
    | .ok (buf, p) =>
      match fmtItemsOf fmt size with
      | none => .error .other          -- `struct.error`: the format does not describe `size` bytes
      | some its =>
        match execSlots cfg buf its slots fs0 ctx0 with
        | .error e => .error e
        | .ok (vs1, szs1, fs', ctx') =>
          match exec cfg salign start data is fs' { pos := p, bb := st.bb, ctx := ctx' } with
          | .error e => .error e
          | .ok (vs, szs, pe) => .ok (k (Vals.append vs1 vs), szs1 ++ szs, pe)
where
  Vals.append : Vals → Vals → Vals
    | .nil, b => b
    | .cons v r, b => .cons v (Vals.append r b)

/-- the compiled `_read` of a structure: run the plan from `pos`, build the record -/
def readCompiled (cfg : Cfg) (al : Bool) (fs : Fields) (plan : Plan) (data : Bytes) (pos : Nat) :
    Except Err (Val × List (String × Nat) × Nat) :=
  match structLayout cfg al fs with
  | .error e => .error e
  | .ok (_, salign, _) =>
    match exec cfg salign pos data plan fs { pos := pos, bb := BitBuf.empty, ctx := [] } with
    | .error e => .error e
    | .ok (vs, szs, p) => .ok (.record vs, szs, p)

-- ------------------------------------------------------------------------------------------ the validator

/-- what `_get_read_type` / `_generate_packed` make of a field type that sits in a block:
    the scalar that is decoded and, for arrays, the element count -/
def readType (cfg : Cfg) : Ty → Option (Scalar × Option Nat)
  | .sc s _ => some (s, none)
  | .enum b _ _ => some (b, none)
  | .ptr _ => some (cfg.ptr, none)
  | .arr (.sc s _) (.fixed n) => some (s, some n)
  | .arr (.enum b _ _) (.fixed n) => some (b, some n)
  | .arr (.ptr _) (.fixed n) => some (cfg.ptr, some n)
  | _ => none

def isPacked : Scalar → Bool
  | .pint .. | .pflt .. => true
  | _ => false

/-- the decoder the generated code must use for a field of type `ty` -/
def expectDec (cfg : Cfg) (ty : Ty) : Option Dec :=
  match readType cfg ty with
  | none => none
  | some (s, none) =>
    (match ty, s with
    | .ptr _, .pint _ _ => some .pointer
    | .ptr _, _ => none
    | .enum _ _ _, .pint _ _ => some .init
    | .enum _ _ _, .aint _ _ => some .parse
    | .enum _ _ _, _ => none
    | _, .pint _ _ => some .init
    | _, .pflt _ => some .init
    | _, .char => some .init
    | _, .wchar => some .parse
    | _, .aint _ _ => some .parse
    | _, _ => none)
  | some (s, some _) =>
    (match ty, s with
    | .arr (.ptr _) _, .pint _ _ => some .pointerArray
    | .arr (.ptr _) _, _ => none
    | .arr (.enum _ _ _) _, .pint _ _ => some .initArray
    | .arr (.enum _ _ _) _, .aint n _ => some (.intArray n)
    | .arr (.enum _ _ _) _, _ => none
    | _, .pint _ _ => some .initArray
    | _, .pflt _ => some .initArray
    | _, .char => some .init
    | _, .wchar => some .parse
    | _, .aint n _ => some (.intArray n)
    | _, _ => none)

/-- are the items `i .. j-1` exactly `k` contiguous items of scalar `s` starting at byte `a`? -/
def itemsAre (items : List Item) (s : Scalar) (sz : Nat) : Nat → Nat → Nat → Bool
  | _, 0, _ => true
  | i, k + 1, a =>
    match items[i]? with
    | some it => it.sc == s && it.off == a && it.size == sz && itemsAre items s sz (i + 1) k (a + sz)
    | none => false

/-- the byte range `[a, b)` of the block that a slot decodes, if the slot has the shape the field's type requires
    (`none` otherwise); a slot of zero items (`data[i:i]`) has no position of its own: `(cur, cur)` -/
def slotRange (cfg : Cfg) (ty : Ty) (items : List Item) (sl : Slot) (cur : Nat) : Option (Nat × Nat) :=
  match readType cfg ty, expectDec cfg ty with
  | some (s, cnt), some d =>
    if sl.dec ≠ d then none else
    match s.size with
    | none => none
    | some esz =>
      let fsize := esz * cnt.getD 1
      if isPacked s then
        match sl.src, cnt with
        | .data1 i, none =>
          (match items[i]? with
          | some it => if it.sc == s && it.size == esz then some (it.off, it.off + esz) else none
          | none => none)
        | .dataN i j, some k =>
          if j ≠ i + k then none else
          if k = 0 then some (cur, cur) else
          (match items[i]? with
          | some it => if itemsAre items s esz i k it.off then some (it.off, it.off + fsize) else none
          | none => none)
        | _, _ => none
      else
        match sl.src with
        | .buf a b => if b = a + fsize then some (a, b) else none
        | _ => none
  | _, _ => none

structure VSt where
  spos : Option Nat        -- static offset of the stream relative to the structure start, if known (an alignment
                           -- statement pads on the absolute position: unknown afterwards, until the next seek)
  lastAlign : Option Nat   -- the alignment applied since the last read (dynamic position)
  unit : Option (Scalar × Nat)  -- the bit reader's unit: storage scalar, free bits
  dirty : Bool             -- a bit run is open (no `bit_reader.reset()` since the last bit read)
  deriving Repr

/-- is the stream where the interpreted reader reads a field with layout offset `fo` and alignment `fa`? -/
def posOK (al : Bool) (st : VSt) (fo : Option Nat) (fa : Nat) : Bool :=
  match fo with
  | some o => st.spos == some o && st.lastAlign.isNone
  | none =>
    if al then (st.lastAlign == some fa) || (st.lastAlign.isNone && fa == 1)
    else st.lastAlign.isNone

/-- does reading a value of the type run a structure's (or union's) own `_read`?  An aligned structure pads on the
    absolute position of the stream, so the bytes it consumes are not determined by its declared size -/
def readsStruct : Ty → Bool
  | .struct .. | .union .. => true
  | .arr e _ => readsStruct e
  | _ => false

/-- the layout offset of the field under the cursor -/
def hdOff : List (Option Nat) → Option Nat
  | o :: _ => o
  | [] => none

/-- `a` is a power of two (`-p & (a - 1)` is "bytes to the next multiple of `a`" only for these) -/
def isPow2b (a : Nat) : Bool := a == 2 ^ a.log2

/-- the field under the cursor has a layout offset: the interpreted reader seeks to it whatever the stream position is -/
def nextStatic : Fields → List (Option Nat) → Bool
  | .cons _ _ _ _ _, some _ :: _ => true
  | _, _ => false

/-- the field under the cursor is not a bit field -/
def nonBitHead : Fields → Bool
  | .cons _ _ _ (some _) _ => false
  | _ => true

/-- skip the void fields under the cursor (the generated code has no statement for them). The interpreted reader
    still *positions* the stream for a void field: at `start + offset` when the layout gave it one, and at the next
    multiple of its alignment in aligned mode when it did not (so such a void must have alignment 1). `at` is the static
    offset the compiled stream is known to be at; `none` result: the interpreted reader would move the stream. -/
def dropVoids (cfg : Cfg) (al : Bool) : Fields → List (Option Nat) → Option Nat → Option (Fields × List (Option Nat) × Bool)
  | .cons name a ty bits rest, offs, at_ =>
    if isVoid ty ∧ bits.isNone then
      let ok : Bool := match hdOff offs with
        | some o => at_ == some o
        | none => !al || ty.alignment cfg == 1
      if ok then
        match dropVoids cfg al rest (offs.drop 1) at_ with
        | some (fs, os, _) => some (fs, os, true)
        | none => none
      else none
    else some (.cons name a ty bits rest, offs, false)
  | .nil, offs, _ => some (.nil, offs, false)

/-- validate the slots of a block against the fields under the cursor.
    `bstart` static offset of the block (or none), `first` no slot yet, `cur` end of the last slot -/
def slotsOK (cfg : Cfg) (al : Bool) (items : List Item) (size : Nat) (bstart : Option Nat) (la : Option Nat) :
    List Slot → Fields → List (Option Nat) → Bool → Nat → Option (Fields × List (Option Nat) × Nat)
  | [], fs, offs, _, cur => some (fs, offs, cur)
  | sl :: rest, fs, offs, first, cur =>
    match fs with
    | .nil => none
    | .cons name _ ty bits fs' =>
      let fo : Option Nat := hdOff offs
      if isVoid ty ∧ bits.isNone ∧ name ≠ sl.name then
        -- a void field inside the block: the interpreted reader positions the stream at its offset
        let ok : Bool := match fo, bstart with
          | some o, some k => k + cur == o
          | some _, none => false
          | none, _ => !al || ty.alignment cfg == 1
        if ok then slotsOK cfg al items size bstart la (sl :: rest) fs' (offs.drop 1) first cur else none
      else if name ≠ sl.name ∨ bits.isSome then none else
      match slotRange cfg ty items sl cur, ty.size cfg with
      | some (a0, b0), some fsize =>
        -- a field of zero bytes has no bytes of its own: the interpreted reader only positions the stream for it
        let (a, b) : Nat × Nat :=
          if fsize = 0 then (match fo, bstart with | some o, some k => (o - k, o - k) | _, _ => (cur, cur)) else (a0, b0)
        if sl.size ≠ fsize ∨ b0 - a0 ≠ fsize ∨ b > size ∨ a < cur then none else
        let fa := ty.alignment cfg
        let okPos : Bool := match fo, bstart with
          | some o, some k => k + a == o
          | some _, none => false
          | none, some _ => false
          | none, none =>
            -- dynamically placed: the interpreted reader reads it at the current position, aligned to `fa` in aligned
            -- mode; inside a block that is the end of the previous slot
            a == cur && (if al then (if first then (la == some fa || (la.isNone && fa == 1)) else fa == 1) else la.isNone)
        if okPos then slotsOK cfg al items size bstart la rest fs' (offs.drop 1) false b else none
      | _, _ => none
termination_by sl fs _ _ _ => (sl.length, fs.length)
decreasing_by
  all_goals simp_wf
  · apply Prod.Lex.right; simp [Fields.length]
  · apply Prod.Lex.left; simp

/-- the validator -/
def planOKAux (cfg : Cfg) (al : Bool) (salign : Nat) : Plan → Fields → List (Option Nat) → VSt → Bool
  | [], fs, offs, st =>
    match dropVoids cfg al fs offs st.spos with
    | some (.nil, _, skipped) => !al && !(skipped && st.dirty) && st.lastAlign.isNone
    | _ => false
  | .alignCls :: is, fs, offs, st =>
    match is with
    | [] =>
      (match dropVoids cfg al fs offs st.spos with
      | some (.nil, _, skipped) => al && st.lastAlign.isNone && !(skipped && st.dirty)
      | _ => false)
    | _ :: _ => false
  | .seek o :: is, fs, offs, st =>
    match dropVoids cfg al fs offs st.spos with
    | some (fs', offs', skipped) =>
      -- the stream leaves the position the interpreted reader is at: sound only in front of a field that the
      -- interpreted reader seeks to as well (the compiler emits a seek only for a field with a layout offset),
      -- or when the stream is known to be there already (a seek to the offset of a void field)
      !(skipped && st.dirty) &&
      (if nextStatic fs' offs' then planOKAux cfg al salign is fs' offs' { st with spos := some o, lastAlign := none }
       else if st.spos == some o then planOKAux cfg al salign is fs' offs' st
       else false)
    | none =>
      -- a void field under the cursor that the stream is not known to be at (its offset is static, the position of
      -- the stream is not known): it has a layout offset, so the interpreted reader seeks for it whatever its position
      -- is; the void fields stay under the cursor and have to be passed at the new position
      nextStatic fs offs && planOKAux cfg al salign is fs offs { st with spos := some o, lastAlign := none }
  | .align a :: is, fs, offs, st =>
    match dropVoids cfg al fs offs st.spos with
    | none => false
    | some (fs', offs', skipped) =>
      if st.lastAlign.isSome ∨ a = 0 ∨ (skipped && st.dirty) then false else
      if a = 1 then planOKAux cfg al salign is fs' offs' st else
      -- only aligned structures have alignment statements (a packed structure may start anywhere).
      -- The statement pads on the absolute position of the stream and the structure may start anywhere: the offset
      -- relative to the structure start is not known statically afterwards (until the next seek)
      if !al then false else
      planOKAux cfg al salign is fs' offs' { st with spos := none, lastAlign := some a }
  | .bitsReset :: is, fs, offs, st =>
    -- the interpreted reader drops its bit buffer when it reads a field that is not a bit field: a reset in front of a
    -- bit field would make the compiled reader load a unit the interpreted reader still has
    nonBitHead fs && planOKAux cfg al salign is fs offs { st with unit := none, dirty := false }
  | .sub nm :: is, fs, offs, st =>
    match dropVoids cfg al fs offs st.spos with
    | some (.cons name _ ty none rest, offs', _) =>
      let fo : Option Nat := hdOff offs'
      name == nm && !st.dirty && posOK al st fo (ty.alignment cfg) &&
      planOKAux cfg al salign is rest (offs'.drop 1)
        -- the position after the member is known for a member with a layout offset and a static size that contains no
        -- structure (scalars and arrays of them consume exactly their size; a nested structure need not)
        { spos := (match fo, st.spos, ty.size cfg with
            | some _, some k, some z => if readsStruct ty then none else some (k + z)
            | _, _, _ => none),
          lastAlign := none, unit := none, dirty := false }
    | _ => false
  | .bits nm n via :: is, fs, offs, st =>
    match dropVoids cfg al fs offs st.spos with
    | some (.cons name _ ty (some b) rest, offs', skipped) =>
      match bitsVia ty via, ty.bitBase with
      | some ft, some ft' =>
        match ft.size with
        | none => false
        | some fsz =>
          let fo : Option Nat := hdOff offs'
          let newUnit : Bool := match st.unit with
            | none => true
            | some (u, rem) => rem == 0 || u != ft
          let rem0 := if newUnit then fsz * 8 else (match st.unit with | some (_, r) => r | none => 0)
          name == nm && b == n && n != 0 && ft == ft' && !(skipped && st.dirty) && posOK al st fo (ty.alignment cfg) &&
          decide (n ≤ rem0) &&
          planOKAux cfg al salign is rest (offs'.drop 1)
            { spos := (match st.spos with | some k => some (if newUnit then k + fsz else k) | none => none),
              lastAlign := none, unit := some (ft, rem0 - n), dirty := true }
      | _, _ => false
    | _ => false
  | .block size fmt slots :: is, fs, offs, st =>
    if st.dirty then false else
    match dropVoids cfg al fs offs st.spos, fmtItemsOf fmt size with
    | some (fs0, offs0, _), some its =>
      match slotsOK cfg al its size st.spos st.lastAlign slots fs0 offs0 true 0 with
      | none => false
      | some (fs', offs', cur) =>
        cur == size &&
        planOKAux cfg al salign is fs' offs'
          { spos := st.spos.map (· + size),
            -- a block without slots reads no field: a pending alignment stays pending
            lastAlign := if slots.isEmpty then st.lastAlign else none, unit := none, dirty := false }
    | _, _ => false

/-- validate the plan of a structure's compiled reader against its field list -/
def planOK (cfg : Cfg) (al : Bool) (fs : Fields) (plan : Plan) : Bool :=
  match structLayout cfg al fs with
  | .error _ => false
  | .ok (_, salign, offs) =>
    planOKAux cfg al salign plan fs offs { spos := some 0, lastAlign := none, unit := none, dirty := false }

end Cstruct.Compiler
