/-
  Concurrency model for C15: threads evaluating the same `Expression` object.
  After `Expression.evaluate` keeps its operand stack in local variables, the only write to a shared object on the
  parse path is the in-place unary-minus rewriting of `self.tokens` (see `Gen.sharedWrites`).  Every thread runs that
  rewriting pass and then reads the tokens in its main loop; the steps below are the atomic actions (one shared read or
  write each), interleaved by an arbitrary schedule.
-/
import CstructModel.Expr
import CstructModel.Gen.Footprint

namespace Cstruct.Sched
open Cstruct

inductive Phase | readCur | readPrev | write | main
  deriving DecidableEq, Repr

/-- a thread: loop index, phase, and the tokens its main loop has read so far -/
structure Th where
  i : Nat
  ph : Phase
  seen : List String
  deriving Repr

def Th.init : Th := { i := 0, ph := .readCur, seen := [] }

/-- `tokens[i-1] in operators or tokens[i-1] == marker or tokens[i-1] == "("` -/
def ctxTok (p : String) : Bool := Expr.isOperator p || Gen.unaryContextTokens.contains p

/-- one atomic action of a thread on the shared token list -/
def step (t : Th) (toks : List String) : Th × List String :=
  let n := toks.length
  match t.ph with
  | .readCur =>
    if t.i ≥ n then ({ t with i := 0, ph := .main }, toks)
    else if toks.getD t.i "" = "-" then
      if t.i = 0 then ({ t with ph := .write }, toks) else ({ t with ph := .readPrev }, toks)
    else ({ t with i := t.i + 1 }, toks)
  | .readPrev =>
    if ctxTok (toks.getD (t.i - 1) "") then ({ t with ph := .write }, toks)
    else ({ t with i := t.i + 1, ph := .readCur }, toks)
  | .write => ({ t with i := t.i + 1, ph := .readCur }, toks.set t.i Gen.minusMarker)
  | .main =>
    if t.i ≥ n then (t, toks)
    else ({ t with i := t.i + 1, seen := t.seen ++ [toks.getD t.i ""] }, toks)

def Th.finished (t : Th) (n : Nat) : Bool := t.ph == .main && decide (t.i ≥ n)

/-- run a schedule: each entry names the thread that performs its next atomic action -/
def run : List Th → List String → List Nat → List Th × List String
  | ths, toks, [] => (ths, toks)
  | ths, toks, tid :: rest =>
    match ths[tid]? with
    | none => run ths toks rest
    | some t =>
      let (t', toks') := step t toks
      run (ths.set tid t') toks' rest

/-- memo tables (`functools.lru_cache` on `_struct` and on the code templates): lookup or compute-and-insert -/
def memoGet {K V} [DecidableEq K] (f : K → V) (m : List (K × V)) (k : K) : V × List (K × V) :=
  match m.find? (·.1 = k) with
  | some (_, v) => (v, m)
  | none => (f k, (k, f k) :: m)

end Cstruct.Sched
