/-
  Line-protocol codecs for types, configurations and values (driver only; not part of any theorem).
-/
import CstructModel.Sexp
import CstructModel.Write
import CstructModel.Resolve

namespace Cstruct.Proto
open Cstruct

def scalarOf (name : String) : Except String (Scalar × Nat) :=
  match resolve Gen.typeTable name with
  | .ok (_, k, _, al) => .ok (k, al.getD 0)
  | .error _ => .error s!"unknown type {name}"

def parseCfg : Sexp → Except String Cfg
  | .list [.atom "cfg", .atom e, ptr, .list consts] => do
    let endian ← match e with | "le" => pure Endian.little | "be" => pure Endian.big | _ => throw "endian"
    let pname ← match ptr.string? with | some s => pure s | none => throw "ptr"
    let (pk, pal) ← scalarOf pname
    let cs ← consts.mapM fun c => match c with
      | .list [k, v] => match k.string?, v.int? with
        | some k, some v => pure (k, v)
        | _, _ => throw "const"
      | _ => throw "const"
    pure { endian := endian, ptr := pk, ptrAlign := pal, consts := cs }
  | _ => .error "cfg"

mutual
partial def parseTy : Sexp → Except String Ty
  | .list [.atom "sc", n] => do
    let name ← match n.string? with | some s => pure s | none => throw "sc"
    let (k, al) ← scalarOf name
    pure (.sc k al)
  | .list [.atom "enum", n] => do
    let name ← match n.string? with | some s => pure s | none => throw "enum"
    let (k, al) ← scalarOf name
    pure (.enum k al false)
  | .list [.atom "flag", n] => do
    let name ← match n.string? with | some s => pure s | none => throw "flag"
    let (k, al) ← scalarOf name
    pure (.enum k al true)
  | .list [.atom "ptr", t] => do pure (.ptr (← parseTy t))
  | .list [.atom "arr", t, l] => do
    let e ← parseTy t
    let len ← match l with
      | .list [.atom "fixed", n] => match n.nat? with | some k => pure (Len.fixed k) | none => throw "fixed"
      | .list [.atom "expr", .str s] =>
        match Expr.tokenize s with
        | .ok toks => pure (Len.expr toks)
        | .error _ => throw "expr-tokenize"
      | .atom "null" => pure Len.nullTerm
      | .atom "eof" => pure Len.eof
      | _ => throw "len"
    pure (.arr e len)
  | .list [.atom "struct", al, .list fs] => do pure (.struct (al.nat? != some 0) (← parseFields fs))
  | .list [.atom "union", al, .list fs] => do pure (.union (al.nat? != some 0) (← parseFields fs))
  | s => .error s!"type: {s}"
partial def parseFields : List Sexp → Except String Fields
  | [] => pure .nil
  | .list [.atom "f", n, an, t, b] :: r => do
    let name ← match n.string? with | some s => pure s | none => throw "field name"
    let ty ← parseTy t
    let bits := match b.nat? with | some 0 => none | some k => some k | none => none
    pure (.cons name (an.nat? != some 0) ty bits (← parseFields r))
  | _ => .error "field"
end

mutual
partial def valToSexp : Val → Sexp
  | .int v => .list [.atom "int", .atom (toString v)]
  | .flt b => .list [.atom "flt", .atom (toString b)]
  | .bytes b => .list [.atom "bytes", Sexp.ofBytes b]
  | .wstr us => .list (.atom "wstr" :: us.map fun u => .atom (toString u))
  | .enum v => .list [.atom "enum", .atom (toString v)]
  | .ptr a => .list [.atom "ptr", .atom (toString a)]
  | .void => .list [.atom "void"]
  | .list vs => .list (.atom "list" :: valsToSexp vs)
  | .record vs => .list (.atom "rec" :: valsToSexp vs)
  | .union b vs => .list (.atom "union" :: Sexp.ofBytes b :: valsToSexp vs)
partial def valsToSexp : Vals → List Sexp
  | .nil => []
  | .cons v r => valToSexp v :: valsToSexp r
end

mutual
partial def parseVal : Sexp → Except String Val
  | .list [.atom "int", v] => match v.int? with | some i => pure (.int i) | none => throw "int"
  | .list [.atom "flt", v] => match v.nat? with | some i => pure (.flt i) | none => throw "flt"
  | .list [.atom "bytes", b] => match b.hexBytes? with | some x => pure (.bytes x) | none => throw "bytes"
  | .list (.atom "wstr" :: us) => do
    let l ← us.mapM fun u => match u.nat? with | some k => pure k | none => throw "wstr"
    pure (.wstr l)
  | .list [.atom "enum", v] => match v.int? with | some i => pure (.enum i) | none => throw "enum"
  | .list [.atom "ptr", v] => match v.int? with | some i => pure (.ptr i) | none => throw "ptr"
  | .list [.atom "void"] => pure .void
  | .list (.atom "list" :: vs) => do pure (.list (← parseVals vs))
  | .list (.atom "rec" :: vs) => do pure (.record (← parseVals vs))
  | .list (.atom "union" :: b :: vs) => do
    match b.hexBytes? with
    | some x => pure (.union x (← parseVals vs))
    | none => throw "union"
  | s => .error s!"value: {s}"
partial def parseVals : List Sexp → Except String Vals
  | [] => pure .nil
  | v :: r => do pure (.cons (← parseVal v) (← parseVals r))
end

def errSexp (e : Err) : Sexp := .list [.atom "err", .atom e.name]
def optNat : Option Nat → Sexp
  | some n => .atom (toString n)
  | none => .atom "none"

end Cstruct.Proto
