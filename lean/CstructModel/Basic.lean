/-
  Shared basic definitions of the model: byte strings, endianness, error classes, scalar kinds.
-/
import CstructModel.Bits

namespace Cstruct

abbrev Bytes := List UInt8

inductive Endian | little | big
  deriving DecidableEq, Repr

/-- Python exception classes raised on the read/write paths, compared by class only. -/
inductive Err
  | eof          -- EOFError
  | overflow     -- struct.error / OverflowError: value does not fit the field
  | arraySize    -- ArraySizeError
  | value        -- ValueError
  | typeErr      -- TypeError
  | unicode      -- UnicodeDecodeError / UnicodeEncodeError
  | nullDeref    -- NullPointerDereference
  | notImpl      -- NotImplementedError
  | resolve      -- ResolveError
  | expr         -- any error from expression evaluation
  | other
  deriving DecidableEq, Repr

def Err.name : Err → String
  | .eof => "EOFError" | .overflow => "Overflow" | .arraySize => "ArraySizeError" | .value => "ValueError"
  | .typeErr => "TypeError" | .unicode => "UnicodeError" | .nullDeref => "NullPointerDereference"
  | .notImpl => "NotImplementedError" | .resolve => "ResolveError" | .expr => "ExprError" | .other => "Other"

/-- The scalar type classes `cstruct.__init__` instantiates. -/
inductive Scalar
  | pint (size : Nat) (signed : Bool)    -- Packed integers: struct chars b B h H i I q Q
  | pflt (size : Nat)                    -- Packed floats e f d; a value is its IEEE bit pattern
  | aint (size : Nat) (signed : Bool)    -- Int: arbitrary width via int.from_bytes / to_bytes
  | char | wchar
  | leb (signed : Bool)
  | void
  deriving DecidableEq, Repr

/-- `size` attribute (None for variable-length types) -/
def Scalar.size : Scalar → Option Nat
  | .pint n _ => some n | .pflt n => some n | .aint n _ => some n
  | .char => some 1 | .wchar => some 2 | .leb _ => none | .void => some 0

end Cstruct
