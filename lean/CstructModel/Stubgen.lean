/-
  Model of dissect/cstruct/tools/stubgen.py: generate_cstruct_stub / generate_typehint /
  generate_generic_stub / generate_enum_stub / generate_structure_stub.

  The real functions build text with f-strings, "\n".join and textwrap.indent.  The model builds the same text
  as a list of *typed lines* (`ILine` = indentation level + one of the eleven line shapes the generator can
  emit) and renders them; the correspondence check compares the rendered text with the real output character
  by character.  The input is what the generator reads from the cstruct object: the constants with the repr of
  their value, and the typedef table (key -> type) with, per type, its class name, its base class name, enum
  members, and structure fields; the built-in table it subtracts (`cstruct()`'s typedefs) is the generated
  `Gen.typeTable`.
-/
import CstructModel.Gen.TypeTable

namespace Cstruct.Stubgen

mutual
/-- a type class as `generate_typehint` / `generate_structure_stub` see it -/
inductive STy
  | leaf (name : String)                       -- any class that is not an array, pointer or structure
  | charArr (name : String)
  | wcharArr (name : String)
  | ptr (name : String) (t : STy)
  | arr (name : String) (t : STy)
  | struct (name base : String) (fs : SFields) -- `structure.fields.items()` in order
inductive SFields
  | nil
  | cons (fname : String) (t : STy) (rest : SFields)
end

def STy.name : STy → String
  | .leaf n | .charArr n | .wcharArr n | .ptr n _ | .arr n _ | .struct n _ _ => n

/-- a value of `cs.typedefs` -/
inductive TDef
  | str (target : String)                               -- an unresolved alias (only through `add_type`)
  | enum (name base : String) (members : List String)   -- Enum / Flag class
  | generic (name base : String)                        -- any other BaseType class
  | ty (t : STy)                                        -- pointer, array or structure class

inductive Err | attributeError | typeError
  deriving DecidableEq, Repr

/-- the text of a type hint, as a tree -/
inductive Hint
  | name (pfx n : String)
  | charArray (mp : String)
  | wcharArray (mp : String)
  | pointer (mp : String) (h : Hint)
  | array (mp : String) (h : Hint)
  deriving DecidableEq, Repr

inductive Line
  | classHdr (name base : String)            -- `class N(B):`
  | generic (name base : String)             -- `class N(B): ...`
  | constDecl (name lit : String)            -- `N: Literal[lit] = ...`
  | aliasName (name target : String)         -- `N: TypeAlias = target`
  | aliasHint (name : String) (h : Hint)     -- `N: TypeAlias = <hint>`
  | field (name : String) (h : Hint)         -- `N: <hint>`
  | member (name : String)                   -- `N = ...`
  | overload                                 -- `@overload`
  | initFields (args : List (String × Hint)) -- `def __init__(self, a: H | None = ..., ...): ...`
  | initFh                                   -- `def __init__(self, fh: bytes | memoryview | bytearray | BinaryIO, /): ...`
  | ellipsis                                 -- `...`
  | blank
  deriving DecidableEq, Repr

structure ILine where
  indent : Nat
  line : Line
  deriving DecidableEq, Repr

/-- textwrap.indent by one level: lines that consist of white space only are left alone -/
def indent1 (ls : List ILine) : List ILine :=
  ls.map fun l => if l.line = .blank then l else { l with indent := l.indent + 1 }

/-- generate_typehint -/
def hint (pfx mp : String) : STy → Hint
  | .charArr _ => .charArray mp
  | .wcharArr _ => .wcharArray mp
  | .ptr _ t => .pointer mp (hint pfx mp t)
  | .arr _ t => .array mp (hint pfx mp t)
  | .leaf n => .name pfx n
  | .struct n _ _ => .name pfx n

/-- `while issubclass(nested_type, BaseArray): nested_type = nested_type.type`, then `issubclass(nested_type, Structure)` -/
def underArraysIsStruct : STy → Bool
  | .arr _ t => underArraysIsStruct t
  | .struct .. => true
  | _ => false   -- a CharArray's element is char, a WcharArray's wchar

def inlined (keys : List String) (t : STy) : Bool :=
  underArraysIsStruct t && !(keys.contains t.name)

def fieldHint (keys : List String) (cp mp : String) (t : STy) : Hint :=
  hint (if inlined keys t then "" else cp) mp t

def SFields.args (keys : List String) (cp mp : String) : SFields → List (String × Hint)
  | .nil => []
  | .cons f t rest => (f, fieldHint keys cp mp t) :: rest.args keys cp mp

mutual
/-- the inline stub of the structure found under the arrays of a field type -/
def STy.inlineStub (keys : List String) (cp mp : String) : STy → List ILine
  | .arr _ t => t.inlineStub keys cp mp
  | .struct n b fs =>
    ⟨0, .classHdr n (mp ++ b)⟩ :: (fs.body keys cp mp ++
      [⟨1, .overload⟩, ⟨1, .initFields (fs.args keys cp mp)⟩, ⟨1, .overload⟩, ⟨1, .initFh⟩, ⟨0, .blank⟩])
  | _ => []
/-- the per-field lines of generate_structure_stub (inline stubs and annotations) -/
def SFields.body (keys : List String) (cp mp : String) : SFields → List ILine
  | .nil => []
  | .cons f t rest =>
    (if inlined keys t then indent1 (t.inlineStub keys cp mp) else []) ++
      ⟨1, .field f (fieldHint keys cp mp t)⟩ :: rest.body keys cp mp
end

/-- generate_structure_stub -/
def structStub (keys : List String) (cp mp : String) (n b : String) (fs : SFields) : List ILine :=
  (STy.struct n b fs).inlineStub keys cp mp

/-- generate_enum_stub -/
def enumStub (mp n b : String) (members : List String) : List ILine :=
  ⟨0, .classHdr n (mp ++ b)⟩ :: (members.map fun k => ⟨1, .member k⟩) ++ [⟨0, .blank⟩]

/-- generate_generic_stub -/
def genericStub (mp n b : String) : List ILine := [⟨0, .generic n (mp ++ b)⟩, ⟨0, .blank⟩]

def TDef.name? : TDef → Option String
  | .str _ => none
  | .enum n _ _ | .generic n _ => some n
  | .ty t => some t.name

def isPtrOrArr : TDef → Bool
  | .ty (.ptr ..) | .ty (.arr ..) | .ty (.charArr _) | .ty (.wcharArr _) => true
  | _ => false

structure Input where
  modPrefix : String
  clsName : String
  consts : List (String × String)      -- name, repr of the value (after the enum-member unwrapping)
  typedefs : List (String × TDef)      -- `cs.typedefs.items()`, built-ins included

def builtinKeys : List String := Gen.typeTable.map (·.1)

/-- one iteration of the typedef loop: the stub lines (not yet indented) -/
def entryStub (inp : Input) (keys defined : List String) (key : String) (td : TDef) : Except Err (List ILine) :=
  let cp := inp.clsName ++ "."
  let mp := inp.modPrefix
  match td.name? with
  | none => .error .attributeError          -- `typedef.__name__` of a str
  | some n =>
    if builtinKeys.contains n then .ok [⟨0, .aliasName key (cp ++ n)⟩]
    else if isPtrOrArr td then
      match td with
      | .ty t => .ok [⟨0, .aliasHint key (hint cp mp t)⟩]
      | _ => .error .typeError
    else if defined.contains n then .ok [⟨0, .aliasName key n⟩]
    else match td with
      | .enum n b ms => .ok (enumStub mp n b ms)
      | .ty (.struct n b fs) => .ok (structStub keys cp mp n b fs)
      | .generic n b => .ok (genericStub mp n b)
      | .ty (.leaf n) => .ok (genericStub mp n "")
      | _ => .error .typeError

def typedefLoop (inp : Input) (keys : List String) : List (String × TDef) → List String → Except Err (List ILine)
  | [], _ => .ok []
  | (key, td) :: rest, defined =>
    if builtinKeys.contains key then typedefLoop inp keys rest defined
    else do
      let stub ← entryStub inp keys defined key td
      let n := (td.name?).getD ""
      let more ← typedefLoop inp keys rest (n :: defined)
      pure (indent1 stub ++ more)

/-- generate_cstruct_stub -/
def generate (inp : Input) : Except Err (List ILine) := do
  let keys := inp.typedefs.map (·.1)
  let cbody : List ILine := inp.consts.map fun (n, r) => ⟨1, .constDecl n r⟩
  let tbody ← typedefLoop inp keys inp.typedefs []
  let body := cbody ++ tbody
  pure (⟨0, .classHdr inp.clsName (inp.modPrefix ++ "cstruct")⟩ :: (if body.isEmpty then [⟨1, .ellipsis⟩] else body))

-- ------------------------------------------------------------------------------------------ rendering

def Hint.render : Hint → String
  | .name p n => p ++ n
  | .charArray mp => mp ++ "CharArray"
  | .wcharArray mp => mp ++ "WcharArray"
  | .pointer mp h => mp ++ "Pointer[" ++ h.render ++ "]"
  | .array mp h => mp ++ "Array[" ++ h.render ++ "]"

def Line.render : Line → String
  | .classHdr n b => "class " ++ n ++ "(" ++ b ++ "):"
  | .generic n b => "class " ++ n ++ "(" ++ b ++ "): ..."
  | .constDecl n l => n ++ ": Literal[" ++ l ++ "] = ..."
  | .aliasName n t => n ++ ": TypeAlias = " ++ t
  | .aliasHint n h => n ++ ": TypeAlias = " ++ h.render
  | .field n h => n ++ ": " ++ h.render
  | .member n => n ++ " = ..."
  | .overload => "@overload"
  | .initFields args =>
    "def __init__(" ++ ", ".intercalate ("self" :: args.map fun (n, h) => n ++ ": " ++ h.render ++ " | None = ...") ++ "): ..."
  | .initFh => "def __init__(self, fh: bytes | memoryview | bytearray | BinaryIO, /): ..."
  | .ellipsis => "..."
  | .blank => ""

def ILine.render (l : ILine) : String :=
  if l.line = .blank then "" else String.join (List.replicate l.indent "    ") ++ l.line.render

def renderAll (ls : List ILine) : String := "\n".intercalate (ls.map ILine.render)

end Cstruct.Stubgen
