/-
  `cstruct.resolve`: follow alias strings through the typedef table, at most 10 steps.
-/
import CstructModel.Gen.TypeTable

namespace Cstruct

def lookupEntry (name : String) : List (String × Gen.TypeEntry) → Option Gen.TypeEntry
  | [] => none
  | (k, v) :: r => if name = k then some v else lookupEntry name r

/-- the `for _ in range(10)` loop of `cstruct.resolve`; `.error .resolve` for an unknown name or when the
    10 steps are used up -/
def resolveAux (tbl : List (String × Gen.TypeEntry)) : Nat → String → Except Err (String × Scalar × Option Nat × Option Nat)
  | 0, _ => .error .resolve
  | fuel + 1, name =>
    match lookupEntry name tbl with
    | none => .error .resolve
    | some (.type n k sz al) => .ok (n, k, sz, al)
    | some (.alias target) => resolveAux tbl fuel target

def resolve (tbl : List (String × Gen.TypeEntry)) (name : String) := resolveAux tbl 10 name

end Cstruct
