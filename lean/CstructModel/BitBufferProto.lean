/-
  Line protocol of the `BitBuffer` model (not part of any theorem):

    (bbops endian host hexstream pos (op ...))
      endian = "<" | ">" | "!" | "@" | "=", host = "<" | ">",
      op = (read size|none signed bytes typeid bits) | (write size|none signed bytes typeid value bits) | (flush) | (reset)
    -> (ok ((result buffer remaining typeid|none pos) ...) hexstream)
      result = (val v) | done | (err Class)
-/
import CstructModel.Sexp
import CstructModel.BitBuffer

namespace Cstruct.BBuf
open Cstruct

def parseEndianCode : Sexp → Option EndianCode
  | s => match s.string? with
    | some "<" => some .lt | some ">" => some .gt | some "!" => some .bang | some "@" => some .at | some "=" => some .eq
    | _ => none

def parseBTy (sz sg by_ id : Sexp) : Option BTy := do
  let size ← (match sz with | .atom "none" => some none | s => s.nat?.map some)
  some { id := (← id.nat?), size := size, signed := (← sg.nat?) != 0, bytes := (← by_.nat?) != 0 }

def parseOp : Sexp → Option Op
  | .list [.atom "read", sz, sg, by_, id, bits] => do some (.read (← parseBTy sz sg by_ id) (← bits.nat?))
  | .list [.atom "write", sz, sg, by_, id, v, bits] => do some (.write (← parseBTy sz sg by_ id) (← v.int?) (← bits.nat?))
  | .list [.atom "flush"] => some .flush
  | .list [.atom "reset"] => some .reset
  | _ => none

def resSexp : Res → Sexp
  | .val v => .list [.atom "val", .atom (toString v)]
  | .done => .atom "done"
  | .err e => .list [.atom "err", .atom e.name]

def bbops : List Sexp → Sexp
  | [en, host, d, p, .list ops] =>
    match parseEndianCode en, host.string?, d.hexBytes?, p.nat?, ops.mapM parseOp with
    | some code, some h, some data, some pos, some ops =>
      let bb := BB.init (if h = "<" then .little else .big) code { data := data, pos := pos }
      let tr := bb.trace ops
      let last := match tr.getLast? with | some (b, _) => b | none => bb
      .list [.atom "ok", .list (tr.map fun (b, r) =>
        .list [resSexp r, .atom (toString b.buffer), .atom (toString b.remaining),
               (match b.ty with | some t => .atom (toString t.id) | none => .atom "none"), .atom (toString b.stream.pos)]),
        Sexp.ofBytes last.stream.data]
    | _, _, _, _, _ => .list [.atom "bad-args"]
  | _ => .list [.atom "bad-args"]

end Cstruct.BBuf
