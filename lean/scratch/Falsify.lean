import Proofs.Spec.C03Compile
open Cstruct Cstruct.Compiler

def cfgs : List Cfg := [
  { endian := .little, ptr := .pflt 4, ptrAlign := 4, consts := [] },
  { endian := .little, ptr := .pint 8 false, ptrAlign := 8, consts := [] },
  { endian := .little, ptr := .pint 2 false, ptrAlign := 2, consts := [] },
  { endian := .little, ptr := .aint 3 false, ptrAlign := 4, consts := [] }]

def u8 : Ty := .sc (.pint 1 false) 1
def u16 : Ty := .sc (.pint 2 false) 2
def u32 : Ty := .sc (.pint 4 false) 4
def i24 : Ty := .sc (.aint 3 true) 4
def chr : Ty := .sc .char 1
def wch : Ty := .sc .wchar 2
def vd : Ty := .sc .void 0
def f32 : Ty := .sc (.pflt 4) 4
def e8 : Ty := .enum (.pint 1 false) 1 false
def e32 : Ty := .enum (.pint 4 false) 4 false
def e24 : Ty := .enum (.aint 3 false) 4 false
def stS : Ty := .struct false (.cons "x" false u8 none (.cons "y" false u32 none .nil))
def stA : Ty := .struct true (.cons "x" false u8 none (.cons "y" false u32 none .nil))
def stD : Ty := .struct false (.cons "x" false (.arr u8 .nullTerm) none .nil)

-- (type, bits)
def alphabet : List (Ty × Option Nat) := [
  (u8, none), (u16, none), (u32, none), (i24, none), (chr, none), (wch, none), (vd, none), (f32, none),
  (e8, none), (e24, none), (.ptr u8, none),
  (.arr u16 (.fixed 2), none), (.arr u32 (.fixed 0), none), (.arr chr (.fixed 3), none), (.arr wch (.fixed 2), none),
  (.arr i24 (.fixed 2), none), (.arr (.ptr chr) (.fixed 2), none), (.arr e8 (.fixed 2), none), (.arr e24 (.fixed 2), none),
  (.arr f32 (.fixed 2), none),
  (.sc (.aint 3 true) 1, some 20), (.sc (.aint 3 true) 1, some 10), (stS, none), (stA, none), (stD, none), (.arr stS (.fixed 2), none), (.arr u8 .nullTerm, none), (.arr (.arr u8 (.fixed 2)) (.fixed 2), none),
  (.union false (.cons "x" false u8 none (.cons "y" false u32 none .nil)), none),
  (u8, some 3), (u8, some 5), (u32, some 7), (e32, some 9), (chr, some 3), (e8, some 2), (u16, some 9), (e24, some 3)]

def alphabet2 : List (Ty × Option Nat) := [
  (u8, none), (u32, none), (i24, none), (vd, none), (.sc .void 4, none), (.enum .char 1 false, none), (.enum .char 1 false, some 2),
  (.sc (.pint 1 false) 4, none), (.sc (.pint 1 false) 4, some 3), (.sc (.pint 4 false) 1, some 7), (.sc (.pint 4 false) 1, none),
  (.sc (.aint 0 false) 1, none), (.sc (.pint 1 false) 3, none), (.sc (.pint 2 false) 6, none), (u8, some 0), (.ptr u8, none),
  (.arr (.sc (.aint 0 false) 1) (.fixed 3), none), (.arr (.enum .wchar 2 false) (.fixed 2), none), (.enum (.pflt 4) 4 false, none),
  (.arr vd (.fixed 2), none), (.arr u8 .nullTerm, none), (stA, none), (u8, some 3), (u8, some 5), (.sc (.pint 1 false) 2, some 3),
  (i24, some 20), (.sc .wchar 2, some 3), (.sc (.pint 3 false) 1, none), (.arr u32 (.fixed 0), none), (.sc (.pint 1 true) 1, some 8)]

def memberWF' (k : Nat) (cfg : Cfg) (al : Bool) (ty : Ty) (bits : Option Nat) : Bool :=
  (k == 1 || bits != some 0) &&
  (k == 2 || (!al || isPow2b (ty.alignment cfg))) &&
  (k == 3 || (!al || !isVoid ty || ty.alignment cfg == 1)) &&
  (match ty with
   | .enum b _ _ => k == 4 || isIntBase b
   | .arr (.enum b _ _) (.fixed _) => k == 5 || isIntBase b
   | .ptr _ => k == 6 || !isFloatSc cfg.ptr
   | .arr (.ptr _) (.fixed _) => k == 7 || !isFloatSc cfg.ptr
   | .arr (.sc .void _) (.fixed _) => k == 8
   | _ => true) &&
  (k == 9 || (!al || bits.isNone || ty.size cfg == some (ty.alignment cfg)))

def compileWF' (k : Nat) (cfg : Cfg) (al : Bool) : Fields → Bool
  | .nil => true
  | .cons name _ ty bits rest =>
    memberWF' k cfg al ty bits &&
    (k == 10 || (!(isVoid ty && bits.isNone) || !(Fields.names rest).contains name)) &&
    compileWF' k cfg al rest

def mkFields : List (Ty × Option Nat) → Nat → Fields
  | [], _ => .nil
  | (t, b) :: r, i => .cons s!"f{i % 2}" false t b (mkFields r (i + 1))

def check (k : Nat) (cfg : Cfg) (al : Bool) (fs : Fields) : Option String :=
  if !compileWF' k cfg al fs then none else
  match structLayout cfg al fs with
  | .error _ => none
  | .ok (_, _, offs) =>
    match compile cfg al fs offs with
    | .error _ => none
    | .ok plan => if planOK cfg al fs plan then none else some (reprStr plan)

def seqs : Nat → List (List (Nat))
  | 0 => [[]]
  | n + 1 => (seqs n).flatMap fun s => (List.range alphabet.length).map (· :: s)

def seqs2 : Nat → List (List (Nat))
  | 0 => [[]]
  | n + 1 => (seqs2 n).flatMap fun s => (List.range alphabet2.length).map (· :: s)

def main : IO Unit := do
  for k in [0, 1, 2, 3, 4, 5, 6, 7, 8, 9, 10] do
    let mut bad := 0
    let mut tot := 0
    for n in [1, 2, 3] do
      for s in seqs2 n do
        let items := s.filterMap (alphabet2[·]?)
        let fs := mkFields items 0
        for cfg in cfgs, ci in [0, 1, 2, 3] do
          for al in [false, true] do
            tot := tot + 1
            match check k cfg al fs with
            | none => pure ()
            | some p =>
              bad := bad + 1
              if bad < 3 then IO.println s!"REJECT2 k={k} cfg{ci} al={al} {s} {(p.replace "Cstruct.Compiler." "").replace "\n" " "}"
    IO.println s!"k={k} total {tot} bad {bad}"
