/-
  C13 — definition parsing ignores comments; aliases resolve to the very same type; re-declaration only for the same
  target; unknown or cyclic aliases are resolve errors: property theorems over the models `Parser.stripAux`
  (`TokenParser._remove_comments`) and `Parser.resolveB / addType` (`cstruct.resolve / add_type`).

  * `c13_strip_append`       — on a text that ends between lexical items (`Closed`), the comment scanner is compositional:
                               what follows is scanned as if it stood alone.
  * `c13_comment_block/line` — so a block comment inserted at such a point is replaced by `commentRepl`: exactly the newlines it
                               contains; if it has none and stands directly between two characters that are no white space, one
                               blank (so that `uint8/**/a` are two tokens); else nothing (`c13_comment_repl`) — and a line
                               comment by nothing (its newline stays).  Since the output of a block comment now depends on its two
                               neighbours, `Closed`, `stripFrom` and these theorems carry the input character in front of the text
                               (`prev`) and the one behind it (`next`); what stands in front only matters for a text that itself
                               starts with a block comment (`c13_strip_prev`).
  * `c13_comment_line_crlf`  — the same on a CRLF-terminated line (fix F73, `//[^\r\n]*\r?$`): the carriage return in front of
                               the newline belongs to the line comment and disappears with it, the newline stays; the result
                               is that of the same comment on an LF-terminated line (`c13_comment_line_crlf_is_lf`).  A line
                               comment closed by one CR at the very end of the text disappears with that CR
                               (`c13_comment_line_cr_end`).  A lone CR inside the text is still no line end (example below).
  * `c13_newlines_preserved` — for every text at all: the scanner preserves the line structure (line numbers in error
                               messages and the line-oriented parts of the parser see the same lines).
  * `c13_resolve_chain`      — `resolve` succeeds exactly on alias chains of at most 10 look-ups that end in a type, and
                               returns that type; `c13_resolve_unique`: a name reaches at most one type.
  * `c13_resolve_unknown / _cycle` — an unknown name and a cyclic alias are resolve errors (no looping: the function is
                               structurally recursive on the step budget).
  * `c13_alias_same`         — after `add_type(name, alias)` of a fresh name, the name resolves to the very same type object
                               as its target, and every other name resolves as before.
  * `c13_redeclare`          — re-declaring a bound name is accepted exactly when the new binding has the same target.
  * `c13_commute`            — adding two different fresh names commutes (tables bind every name alike), so the order of
                               unrelated definitions does not matter for name resolution.
  * `c13_builtin_aliases`    — in the built-in table generated from `cstruct.__init__`, every alias resolves to what its
                               target resolves to (all synonyms name the same type).
-/
import Proofs.Lemmas.C13

namespace Cstruct.Parser.C13
open Cstruct Cstruct.Parser

theorem c13_strip_append (p : Option Char) (a o b : List Char) (h : Closed p a b.head? o) :
    stripFrom p (a ++ b) = o ++ stripFrom (lastOr p a) b :=
  strip_append p a o b h

theorem c13_comment_block (p : Option Char) (a o body b : List Char) (h : Closed p a (some '/') o) (hb : hasClose body = false) :
    stripFrom p (a ++ ('/' :: '*' :: body ++ '*' :: '/' :: b))
      = o ++ commentRepl (lastOr p a) body b.head? ++ stripFrom (some '/') b :=
  comment_block p a o body b h hb

theorem c13_comment_line (p : Option Char) (a o body b : List Char) (h : Closed p a (some '/') o) (hb : ∀ c ∈ body, isEol c = false) :
    stripFrom p (a ++ ('/' :: '/' :: body ++ '\n' :: b)) = o ++ stripFrom (some '/') ('\n' :: b) :=
  comment_line p a o body b h hb

/-- **A line comment on a CRLF-terminated line is replaced by nothing, together with its carriage return; the newline stays.**
    On a text `a` that ends between lexical items (`Closed`, as in `c13_comment_line`), `// body` (no CR / LF in `body`) followed
    by `\r\n` contributes nothing to the output: the scan continues at the `\n`, behind the input character `\r` (the last
    character of the match; it matters to nothing, `c13_comment_line_crlf_is_lf`).  Fix F73 — before it, the `//` of such a line
    was not recognised as a comment. -/
theorem c13_comment_line_crlf (p : Option Char) (a o body b : List Char) (h : Closed p a (some '/') o)
    (hb : ∀ c ∈ body, isEol c = false) :
    stripFrom p (a ++ ('/' :: '/' :: body ++ '\r' :: '\n' :: b)) = o ++ stripFrom (some '\r') ('\n' :: b) :=
  comment_line_crlf p a o body b h hb

/-- **CRLF and LF line ends are alike for a line comment**: the stripped text is the same whether the line comment is closed by
    `\r\n` or by `\n` — in both cases `o` followed by what the scanner makes of `\n` and the rest. -/
theorem c13_comment_line_crlf_is_lf (p : Option Char) (a o body b : List Char) (h : Closed p a (some '/') o)
    (hb : ∀ c ∈ body, isEol c = false) :
    stripFrom p (a ++ ('/' :: '/' :: body ++ '\r' :: '\n' :: b)) = stripFrom p (a ++ ('/' :: '/' :: body ++ '\n' :: b)) := by
  rw [comment_line_crlf p a o body b h hb, comment_line p a o body b h hb,
    stripFrom_prev (some '\r') (some '/') ('\n' :: b) (by intro r e; cases e)]

/-- **A line comment closed by one carriage return at the very end of the text disappears with it** (`\r?$` at the end of the
    text). -/
theorem c13_comment_line_cr_end (p : Option Char) (a o body : List Char) (h : Closed p a (some '/') o)
    (hb : ∀ c ∈ body, isEol c = false) :
    stripFrom p (a ++ ('/' :: '/' :: body ++ ['\r'])) = o :=
  comment_line_cr_end p a o body h hb

/-- the three outcomes of a block comment (`commentRepl`): its newlines; else one blank between two characters that are no white
    space; else nothing -/
theorem c13_comment_repl (p n : Option Char) (body : List Char) :
    (newlinesOf body ≠ [] → commentRepl p body n = newlinesOf body) ∧
    (newlinesOf body = [] → ∀ x y, p = some x → n = some y → isSpace x = false → isSpace y = false → commentRepl p body n = [' ']) ∧
    (newlinesOf body = [] → (p = none ∨ n = none ∨ (∃ x, p = some x ∧ isSpace x = true) ∨ (∃ y, n = some y ∧ isSpace y = true)) →
      commentRepl p body n = []) := by
  refine ⟨?_, ?_, ?_⟩
  · intro h; simp [commentRepl, h]
  · intro h x y hp hn hx hy; subst hp hn; simp [commentRepl, h, hx, hy]
  · intro h hc
    simp only [commentRepl, h, List.isEmpty_nil, if_true]
    rcases hc with rfl | rfl | ⟨x, rfl, hx⟩ | ⟨y, rfl, hy⟩
    · rfl
    · cases p <;> rfl
    · cases n <;> simp [hx]
    · cases p <;> simp [hy]

theorem c13_strip_prev (p p' : Option Char) (l : List Char) (h : ∀ r, l ≠ '/' :: '*' :: r) : stripFrom p l = stripFrom p' l :=
  stripFrom_prev p p' l h

theorem c13_newlines_preserved (p : Option Char) (l : List Char) : newlinesOf (stripFrom p l) = newlinesOf l :=
  newlines_preserved p l

theorem c13_resolve_chain (tbl : List (String × Bind)) (name : String) (id : Nat) :
    resolveB tbl 10 name = some id ↔ ∃ k, k ≤ 10 ∧ Chain tbl name id k :=
  resolve_chain tbl 10 name id

theorem c13_resolve_unique (tbl : List (String × Bind)) (name : String) (i j k m : Nat)
    (h₁ : Chain tbl name i k) (h₂ : Chain tbl name j m) : i = j ∧ k = m :=
  chain_unique tbl name i j k m h₁ h₂

theorem c13_resolve_unknown (tbl : List (String × Bind)) (name : String) (h : lookupB name tbl = none) :
    resolveB tbl 10 name = none := by
  simp [resolveB, h]

theorem c13_resolve_cycle (tbl : List (String × Bind)) (name : String) (h : ∀ id k, ¬ Chain tbl name id k) :
    resolveB tbl 10 name = none := by
  cases hr : resolveB tbl 10 name with
  | none => rfl
  | some id =>
    obtain ⟨k, _, hc⟩ := (resolve_chain tbl 10 name id).mp hr
    exact absurd hc (h id k)

theorem c13_alias_same (tbl tbl' : List (String × Bind)) (name t : String) (id : Nat)
    (hfresh : lookupB name tbl = none) (ht : resolveB tbl 9 t = some id)
    (hadd : addType tbl name (.alias t) = some tbl') :
    resolveB tbl' 10 name = some id ∧
    ∀ n i, resolveB tbl 10 n = some i → resolveB tbl' 10 n = some i :=
  alias_same tbl tbl' name t id hfresh ht hadd

theorem c13_redeclare (tbl : List (String × Bind)) (name : String) (b v : Bind)
    (hb : lookupB name tbl = some b) :
    (addType tbl name v).isSome ↔ resolveB tbl 10 name = v.target tbl :=
  redeclare tbl name b v hb

theorem c13_commute (tbl t₁ t₂ t₁' t₂' : List (String × Bind)) (a b : String) (va vb : Bind) (hab : a ≠ b)
    (ha : lookupB a tbl = none) (hb : lookupB b tbl = none)
    (h₁ : addType tbl a va = some t₁) (h₁' : addType t₁ b vb = some t₁')
    (h₂ : addType tbl b vb = some t₂) (h₂' : addType t₂ a va = some t₂') :
    LookupEq t₁' t₂' ∧ ∀ n, resolveB t₁' 10 n = resolveB t₂' 10 n :=
  commute tbl t₁ t₂ t₁' t₂' a b va vb hab ha hb h₁ h₁' h₂ h₂'

theorem c13_builtin_aliases :
    ∀ p ∈ Gen.typeTable, ∀ t, p.2 = Gen.TypeEntry.alias t →
      (resolve Gen.typeTable p.1).toOption = (resolve Gen.typeTable t).toOption ∧ (resolve Gen.typeTable p.1).toOption.isSome :=
  builtin_aliases

-- non-vacuity: a closed text with a string, both comment kinds and a division; a chain of two aliases
example : Closed none "x/*c*/y /* x\n */ \"//\" b / 2 // c\n".toList none "x y \n \"//\" b / 2 \n".toList := sample_closed
-- F73: a `//` comment on a CRLF-terminated line goes away with its CR, the LF stays; a lone CR is still no line end (the text
-- is unchanged); a CR at the very end of the text closes the comment; an instance of `c13_comment_line_crlf`
example : strip "uint8 x; // c\r\n uint8 y;".toList = "uint8 x; \n uint8 y;".toList := by decide +kernel
example : strip "a // c\rb".toList = "a // c\rb".toList := by decide +kernel
example : strip "a // c\r".toList = "a ".toList ∧ strip "a // c\r\r\n".toList = "a // c\r\r\n".toList := by decide +kernel
example : stripFrom none ("x; ".toList ++ ('/' :: '/' :: " c".toList ++ '\r' :: '\n' :: "y;".toList))
    = "x; ".toList ++ stripFrom (some '\r') ('\n' :: "y;".toList) :=
  c13_comment_line_crlf none _ _ _ _
    (.char _ _ 'x' _ _ (by decide) (by decide) (by decide) (.char _ _ ';' _ _ (by decide) (by decide) (by decide)
      (.char _ _ ' ' _ _ (by decide) (by decide) (by decide) (.nil _ _)))) (by decide)
example : Chain [("A", .alias "B"), ("B", .alias "C"), ("C", .type 7)] "A" 7 3 :=
  .alias "A" "B" 7 2 rfl (.alias "B" "C" 7 1 rfl (.type "C" 7 rfl))

end Cstruct.Parser.C13
