/-
  C07 — array length semantics: fixed, expression, null-terminated and to-end-of-stream.

  Property theorems over the model of `BaseArray._read/_write`, the per-class `_read_array/_read_0/_write_array/_write_0`
  (`CstructModel/Read.lean`, `CstructModel/Write.lean`). Helper lemmas in `Proofs/Lemmas/C07.lean`.
-/
import Proofs.Spec.C07
import Proofs.Lemmas.C07

namespace Cstruct.C07
open Cstruct

/-- **x[n] holds exactly n elements** — whatever the element type (scalars through their bulk readers, enums, pointers,
    structures, nested arrays, variable-size elements), whatever the input. -/
theorem c07_fixed (cfg : Cfg) (e : Ty) (n : Nat) (ctx : Ctx) (d : Bytes) (pos : Nat) (v : Val) (p : Nat)
    (h : read cfg (.arr e (.fixed n)) ctx d pos = .ok (v, p)) : count v = n := by
  rw [Core.Lemmas.read_arr_fixed] at h
  exact Lemmas.readArray_count cfg e n ctx d pos v p h

/-- **x[expr] holds max(0, expr) elements**, the expression being evaluated over the fields parsed before it (integer-like
    ones), falling back to the constants (the lookup order is C10's `Atom`: context first). -/
theorem c07_expr (cfg : Cfg) (e : Ty) (toks : List String) (ctx : Ctx) (d : Bytes) (pos : Nat) (x : Int)
    (hx : (Expr.Obj.evaluate ⟨toks⟩ { ctx := Ctx.ints ctx, consts := cfg.consts, sizeof := fun _ => .error .resolve }).2 = .ok x) :
    read cfg (.arr e (.expr toks)) ctx d pos = read cfg (.arr e (.fixed x.toNat)) ctx d pos ∧
    (x ≤ 0 → x.toNat = 0) ∧ (0 ≤ x → (x.toNat : Int) = x) := by
  refine ⟨?_, fun h => by omega, fun h => by omega⟩
  rw [Core.Lemmas.read_arr_expr, Lemmas.evalLen_ok cfg toks ctx x hx, Core.Lemmas.read_arr_fixed]
  rfl

/-- **x[] over an integer type stops at and consumes the first zero element**: the result holds the `n` elements before it,
    none of which is zero, each read at its own offset, and the end position is just past the terminator. -/
theorem c07_nullterm_int (cfg : Cfg) (k : Nat) (sg : Bool) (a : Nat) (hk : 0 < k) (ctx : Ctx) (d : Bytes) (pos : Nat) (v : Val) (p : Nat)
    (h : read cfg (.arr (.sc (.pint k sg) a) .nullTerm) ctx d pos = .ok (v, p)) :
    ∃ vs : List Int, v = .list (Vals.ofList (vs.map .int)) ∧ (∀ x ∈ vs, x ≠ 0) ∧ p = pos + (vs.length + 1) * k ∧
      (∀ i (hi : i < vs.length), readScalar cfg (.pint k sg) d (pos + i * k) = .ok (.int vs[i], pos + (i + 1) * k)) ∧
      readScalar cfg (.pint k sg) d (pos + vs.length * k) = .ok (.int 0, p) := by
  have _ := hk
  rw [Core.Lemmas.read_arr_null, Lemmas.read0_sc] at h
  exact Lemmas.readScalarNullTerm_pint cfg k sg d pos v p h

/-- **char x[]** is the bytes up to the first NUL, which is consumed and not part of the value. -/
theorem c07_nullterm_char (cfg : Cfg) (a : Nat) (ctx : Ctx) (d : Bytes) (pos : Nat) (v : Val) (p : Nat)
    (h : read cfg (.arr (.sc .char a) .nullTerm) ctx d pos = .ok (v, p)) :
    ∃ b : Bytes, v = .bytes b ∧ (∀ x ∈ b, x ≠ 0) ∧ p = pos + b.length + 1 ∧ (d.drop pos).take (b.length + 1) = b ++ [0] := by
  rw [Core.Lemmas.read_arr_null, Lemmas.read0_sc] at h
  exact Lemmas.readScalarNullTerm_char cfg d pos v p h

/-- **Dumping re-appends the terminator**: a null-terminated array is written as its elements followed by one zero
    element (integers) / one NUL byte (char). -/
theorem c07_nullterm_write (cfg : Cfg) (k : Nat) (sg : Bool) (a : Nat) (vs : List Int) (b : Bytes) (pos : Nat) :
    write cfg (.arr (.sc .char a) .nullTerm) (.bytes b) pos = .ok (b ++ [0]) ∧
    (∀ bs, write cfg (.arr (.sc (.pint k sg) a) .nullTerm) (.list (Vals.ofList (vs.map .int))) pos = .ok bs →
      ∃ body zero, bs = body ++ zero ∧ encodeInt cfg.endian k sg 0 = some zero ∧
        write cfg (.arr (.sc (.pint k sg) a) (.fixed vs.length)) (.list (Vals.ofList (vs.map .int))) pos = .ok body) := by
  refine ⟨Lemmas.write_arr_null_chars cfg a b pos, ?_⟩
  intro bs h
  rw [Lemmas.write_arr_null_list, Lemmas.default_pint, Lemmas.ofList_snoc] at h
  obtain ⟨body, last, h1, h2, h3⟩ := Lemmas.writeN_append cfg _ _ _ _ _ h
  refine ⟨body, last, h1, Lemmas.write_pint_zero cfg k sg a _ last h3, ?_⟩
  rw [Core.Lemmas.write_arr_list, Lemmas.ofList_length, List.length_map]
  simp only [ne_eq, not_true_eq_false, and_false, if_false]
  exact h2

/-- **A fixed-size array of non-character elements with another number of elements is refused** on dump - whatever the
    element type, also one without a static size (`uleb128 x[3]`; the code used to skip the check there: fixed F62). -/
theorem c07_size_refused (cfg : Cfg) (e : Ty) (n : Nat) (vs : Vals) (pos : Nat)
    (hlen : vs.length ≠ n) : write cfg (.arr e (.fixed n)) (.list vs) pos = .error .arraySize := by
  rw [Core.Lemmas.write_arr_list]
  simp only [ne_eq, hlen, not_false_eq_true, if_true]

/-- **The bulk readers are the element reader, repeated**: `Packed._read_array`'s single `struct.unpack` of `n` items yields
    exactly what reading the `n` elements one after the other yields, and ends at the same position. -/
theorem c07_fastpath (cfg : Cfg) (k : Nat) (sg : Bool) (a : Nat) (n : Nat) (ctx : Ctx) (d : Bytes) (pos : Nat) :
    read cfg (.arr (.sc (.pint k sg) a) (.fixed n)) ctx d pos =
      (readN cfg (.sc (.pint k sg) a) n ctx d pos).map (fun (vs, p) => (Val.list vs, p)) := by
  rw [Core.Lemmas.read_arr_fixed]
  exact Lemmas.readArray_pint cfg k sg a n ctx d pos

/-- **Multi-dimensional arrays nest in C order**: `x[n][m]` is `n` rows of `m` elements, row `i` read where row `i-1` ended;
    for an element type of fixed size `k` the element `(i, j)` therefore sits at offset `(i * m + j) * k`. -/
theorem c07_multidim (cfg : Cfg) (e : Ty) (n m : Nat) (ctx : Ctx) (d : Bytes) (pos : Nat) (v : Val) (p : Nat)
    (h : read cfg (.arr (.arr e (.fixed m)) (.fixed n)) ctx d pos = .ok (v, p)) :
    ∃ rows : Vals, v = .list rows ∧ rows.length = n ∧ ∀ r ∈ rows.toList, count r = m := by
  rw [Core.Lemmas.read_arr_fixed,
    Lemmas.readArray_other cfg _ n ctx d pos (by intros; intro h; cases h) (by intros; intro h; cases h)] at h
  obtain ⟨⟨rows, q⟩, h1, h2⟩ := Core.Lemmas.map_ok h
  cases h2
  refine ⟨rows, rfl, Lemmas.readN_length cfg _ ctx d _ _ _ _ h1, ?_⟩
  intro r hr
  obtain ⟨pos', p', h3⟩ := Lemmas.readN_mem cfg _ ctx d _ _ _ _ h1 r hr
  exact c07_fixed cfg e m ctx d pos' r p' h3

/-- **x[EOF] over a packed integer type takes every remaining whole element**: when the rest of the input is `m` whole
    elements the result has exactly `m` elements and the stream is at the end; a partial trailing element is an EOFError. -/
theorem c07_eof (cfg : Cfg) (k : Nat) (sg : Bool) (a : Nat) (hk : 0 < k) (ctx : Ctx) (d : Bytes) (pos : Nat) (hpos : pos ≤ d.length) :
    ((d.length - pos) % k = 0 →
      ∃ vs, read cfg (.arr (.sc (.pint k sg) a) .eof) ctx d pos = .ok (.list vs, d.length) ∧ vs.length = (d.length - pos) / k) ∧
    ((d.length - pos) % k ≠ 0 → read cfg (.arr (.sc (.pint k sg) a) .eof) ctx d pos = .error .eof) := by
  rw [Lemmas.read_arr_eof, Lemmas.readEOF_pint cfg k sg a ctx d pos hk, Nat.max_eq_right hpos]
  constructor
  · intro h0
    refine ⟨_, by simp only [h0, ne_eq, not_true_eq_false, if_false]; rfl, ?_⟩
    simp only [Vals.ofInts, Lemmas.ofList_length, List.length_map, Lemmas.splitEvery_length]
  · intro h0
    simp only [ne_eq, h0, not_false_eq_true, if_true]

end Cstruct.C07
