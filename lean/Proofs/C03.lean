/-
  C03 — the compiled reader is observationally equivalent to the interpreted reader: property theorems.

  The real compiler's output (the Python source of `_read`) is parsed by `harness/srcplan.py` into a `Plan`
  (`CstructModel/Compiler.lean`); `Compiler.exec` says what running the plan does and `Compiler.planOK` is a
  decidable validator of a plan against the structure's field list and layout.  The check runs `planOK` (through the
  model driver) on the plan of every structure it generates, and compares `exec` with the real compiled reader.
  What is proved here, for every configuration, field list, plan, input and start position:

  * `c03_compiled_refines`   — a plan accepted by the validator never returns anything the interpreted reader
        (`readStructWithSizes`, the model of `StructureMetaType._read`) would contradict: if the compiled reader
        returns, the interpreted reader returns the same value, the same end position and the same sizes for every
        field that occupies bytes.
  * `c03_plan_sound`         — both return ⇒ equal value, equal consumed bytes, equal non-zero sizes.
  * `c03_interp_ok_compiled` — if the interpreted reader returns, the compiled one returns the same or raises
        EOFError (a block is read eagerly, so on an input too short for the block the compiled reader may raise where
        the interpreted one still returns — never a different value, never a different error class).
  * `c03_layout_shared`      — size, alignment and offsets are not recomputed by the compiler: both readers use the
        one `structLayout` of the class.

  Hypothesis `AlignedStart`: an aligned structure starts at a multiple of its alignment (property C09 states the same
  restriction; parsing from a bytes object starts at 0).
  Hypothesis `SubSizes`: a member that is read through its own `_read` (nested structure, structure array, ...) and has a
  layout offset and a static size consumes exactly that size where the layout puts it.  The compiler assumes this when
  it emits no seek after such a member, and so does the validator (`spos := k + size` after `.sub`); it is not a theorem
  about `read` (an aligned structure nested in a packed one at a misaligned offset pads on the absolute position).  Nested structures are read through `read` (their own `_read`);
  for a nested structure with a compiled reader the statement applies to it separately, so the equivalence of whole
  type trees follows by induction over the nesting depth.
-/
import Proofs.Lemmas.C03

namespace Cstruct.Compiler.C03
open Cstruct Cstruct.Compiler

theorem c03_compiled_refines (cfg : Cfg) (al : Bool) (fs : Fields) (plan : Plan) (data : Bytes) (pos : Nat)
    (hok : planOK cfg al fs plan = true) (hstart : AlignedStart cfg al fs pos) (hsub : SubSizes cfg al fs data pos)
    (v : Val) (szs : List (String × Nat)) (p : Nat)
    (hc : readCompiled cfg al fs plan data pos = .ok (v, szs, p)) :
    ∃ szs', readStructWithSizes cfg al fs data pos = .ok (v, szs', p) ∧
      szs.filter (fun e => e.2 ≠ 0) = szs'.filter (fun e => e.2 ≠ 0) :=
  compiled_refines cfg al fs plan data pos hok hstart hsub v szs p hc

theorem c03_plan_sound (cfg : Cfg) (al : Bool) (fs : Fields) (plan : Plan) (data : Bytes) (pos : Nat)
    (hok : planOK cfg al fs plan = true) (hstart : AlignedStart cfg al fs pos) (hsub : SubSizes cfg al fs data pos)
    (v₁ v₂ : Val) (s₁ s₂ : List (String × Nat)) (p₁ p₂ : Nat)
    (hc : readCompiled cfg al fs plan data pos = .ok (v₁, s₁, p₁))
    (hi : readStructWithSizes cfg al fs data pos = .ok (v₂, s₂, p₂)) :
    v₁ = v₂ ∧ p₁ = p₂ ∧ s₁.filter (fun e => e.2 ≠ 0) = s₂.filter (fun e => e.2 ≠ 0) := by
  obtain ⟨s', h, hs⟩ := compiled_refines cfg al fs plan data pos hok hstart hsub v₁ s₁ p₁ hc
  rw [h] at hi
  cases hi
  exact ⟨rfl, rfl, hs⟩

theorem c03_interp_ok_compiled (cfg : Cfg) (al : Bool) (fs : Fields) (plan : Plan) (data : Bytes) (pos : Nat)
    (hok : planOK cfg al fs plan = true) (hstart : AlignedStart cfg al fs pos) (hsub : SubSizes cfg al fs data pos)
    (v : Val) (szs : List (String × Nat)) (p : Nat)
    (hi : readStructWithSizes cfg al fs data pos = .ok (v, szs, p)) :
    (∃ szs', readCompiled cfg al fs plan data pos = .ok (v, szs', p) ∧
        szs'.filter (fun e => e.2 ≠ 0) = szs.filter (fun e => e.2 ≠ 0)) ∨
      readCompiled cfg al fs plan data pos = .error .eof :=
  interp_ok_compiled cfg al fs plan data pos hok hstart hsub v szs p hi

theorem c03_layout_shared (cfg : Cfg) (al : Bool) (fs : Fields) (plan : Plan) (data : Bytes) (pos : Nat)
    (e : Err) (h : structLayout cfg al fs = .error e) :
    readCompiled cfg al fs plan data pos = .error e ∧ readStructWithSizes cfg al fs data pos = .error e := by
  simp [readCompiled, readStructWithSizes, h]

-- non-vacuity: a concrete aligned structure with a bit-field run, a gap, a nested structure and an array, its real
-- plan, the validator accepts it, the hypotheses hold and both readers return
example : planOK samplecfg true sampleFields samplePlan = true ∧ AlignedStart samplecfg true sampleFields 0 ∧
    SubSizes samplecfg true sampleFields sampleData 0 ∧
    (∃ r, readCompiled samplecfg true sampleFields samplePlan sampleData 0 = .ok r) := by
  refine ⟨sample_planOK, sample_aligned, sample_subsizes, ⟨_, sample_runs⟩⟩

end Cstruct.Compiler.C03
