/-
  C03 — the compiled reader is observationally equivalent to the interpreted reader: property theorems.

  The real compiler's output (the Python source of `_read`) is parsed by `harness/srcplan.py` into a `Plan`
  (`CstructModel/Compiler.lean`); `Compiler.exec` says what running the plan does and `Compiler.planOK` is a
  decidable validator of a plan against the structure's field list and layout.  The check runs `planOK` (through the
  model driver) on the plan of every structure it generates, and compares `exec` with the real compiled reader.
  What is proved here, for every configuration, field list, plan, input and start position:

  * `c03_compiled_refines`   — a plan accepted by the validator never returns anything the interpreted reader
        (`readStructWithSizes`, the model of `StructureMetaType._read`) would contradict: if the compiled reader
        returns, the interpreted reader returns the same value, the same end position and the same sizes for every
        field that occupies bytes.
  * `c03_plan_sound`         — both return ⇒ equal value, equal consumed bytes, equal non-zero sizes.
  * `c03_interp_ok_compiled` — if the interpreted reader returns, the compiled one returns the same or raises
        EOFError (a block is read eagerly, so on an input too short for the block the compiled reader may raise where
        the interpreted one still returns — never a different value, never a different error class).
  * `c03_layout_shared`      — size, alignment and offsets are not recomputed by the compiler: both readers use the
        one `structLayout` of the class.

  No hypothesis on the start position: the structure may start anywhere in the stream (an aligned structure at a
  position that is not a multiple of its alignment, too).  After an alignment statement (`.align a`, `a ≠ 1`: it pads on
  the absolute position) the validator no longer knows the static offset of the stream; it accepts what follows only if
  the plan re-establishes the position by a seek in front of a member with a layout offset (the compiler does: it forgets
  its tracked offset after emitting an alignment statement).
  No hypothesis on members that are read through their own `_read` either: after a `.sub` of a member that contains a
  structure (nested structure, union, arrays of them) the validator does not know the static offset of the stream (an
  aligned structure nested at a misaligned position pads on the absolute position, so it need not consume its declared
  size); the plan has to seek in front of the next member with a layout offset (the compiler does: it forgets its tracked
  offset after every nested structure).  For a member without a structure (multi-dimensional arrays of scalars, ...) the
  validator uses `k + size`; that such a member consumes exactly its declared size is proved (`static_pf`).
  Nested structures are read through `read` (their own `_read`); for a nested structure with a compiled reader the
  statement applies to it separately, so the equivalence of whole type trees follows by induction over the nesting depth.
-/
import Proofs.Lemmas.C03

namespace Cstruct.Compiler.C03
open Cstruct Cstruct.Compiler

theorem c03_compiled_refines (cfg : Cfg) (al : Bool) (fs : Fields) (plan : Plan) (data : Bytes) (pos : Nat)
    (hok : planOK cfg al fs plan = true)
    (v : Val) (szs : List (String × Nat)) (p : Nat)
    (hc : readCompiled cfg al fs plan data pos = .ok (v, szs, p)) :
    ∃ szs', readStructWithSizes cfg al fs data pos = .ok (v, szs', p) ∧
      szs.filter (fun e => e.2 ≠ 0) = szs'.filter (fun e => e.2 ≠ 0) :=
  compiled_refines cfg al fs plan data pos hok v szs p hc

theorem c03_plan_sound (cfg : Cfg) (al : Bool) (fs : Fields) (plan : Plan) (data : Bytes) (pos : Nat)
    (hok : planOK cfg al fs plan = true)
    (v₁ v₂ : Val) (s₁ s₂ : List (String × Nat)) (p₁ p₂ : Nat)
    (hc : readCompiled cfg al fs plan data pos = .ok (v₁, s₁, p₁))
    (hi : readStructWithSizes cfg al fs data pos = .ok (v₂, s₂, p₂)) :
    v₁ = v₂ ∧ p₁ = p₂ ∧ s₁.filter (fun e => e.2 ≠ 0) = s₂.filter (fun e => e.2 ≠ 0) := by
  obtain ⟨s', h, hs⟩ := compiled_refines cfg al fs plan data pos hok v₁ s₁ p₁ hc
  rw [h] at hi
  cases hi
  exact ⟨rfl, rfl, hs⟩

theorem c03_interp_ok_compiled (cfg : Cfg) (al : Bool) (fs : Fields) (plan : Plan) (data : Bytes) (pos : Nat)
    (hok : planOK cfg al fs plan = true)
    (v : Val) (szs : List (String × Nat)) (p : Nat)
    (hi : readStructWithSizes cfg al fs data pos = .ok (v, szs, p)) :
    (∃ szs', readCompiled cfg al fs plan data pos = .ok (v, szs', p) ∧
        szs'.filter (fun e => e.2 ≠ 0) = szs.filter (fun e => e.2 ≠ 0)) ∨
      readCompiled cfg al fs plan data pos = .error .eof :=
  interp_ok_compiled cfg al fs plan data pos hok v szs p hi

theorem c03_layout_shared (cfg : Cfg) (al : Bool) (fs : Fields) (plan : Plan) (data : Bytes) (pos : Nat)
    (e : Err) (h : structLayout cfg al fs = .error e) :
    readCompiled cfg al fs plan data pos = .error e ∧ readStructWithSizes cfg al fs data pos = .error e := by
  simp [readCompiled, readStructWithSizes, h]

-- non-vacuity: a concrete aligned structure with a bit-field run, a gap, a nested structure and an array, its real
-- plan (with the seek after the nested structure), the validator accepts it and the compiled reader returns
example : planOK samplecfg true sampleFields samplePlan = true ∧
    (∃ r, readCompiled samplecfg true sampleFields samplePlan sampleData 0 = .ok r) := by
  refine ⟨sample_planOK, ⟨_, sample_runs⟩⟩

end Cstruct.Compiler.C03
