import Proofs.C07

/-!
# C07 — wrong-length values are refused at EVERY nesting level

`c07_size_refused` is the outermost level. Here: the shape a value must have for a (multi-dimensional) fixed array, and the
theorem that a dump that succeeds implies that shape - so a row of the wrong length at any depth (`uint16 a[2][3]` given
`[[1,2],[3,4,5,6]]`) makes the dump fail; and it fails with ArraySizeError when the offending row is the first one.
-/

namespace Cstruct.C07
open Cstruct Cstruct.Core

/-- `Shaped t v`: at every fixed-count array level of `t` that holds a list, the list has the declared number of entries
    (a `char` / `wchar` level holding `bytes` / a string is not length-checked: the property sets character arrays aside) -/
def Shaped : Ty → Val → Prop
  | .arr e (.fixed n), .list vs => vs.length = n ∧ ∀ v ∈ vs.toList, Shaped e v
  | _, _ => True

/-- every element of a list that was written was written (somewhere) -/
theorem writeN_ok_mem (cfg : Cfg) (t : Ty) (vs : Vals) : ∀ (pos : Nat) (bs : Bytes), writeN cfg t vs pos = .ok bs →
    ∀ v ∈ vs.toList, ∃ p b, write cfg t v p = .ok b := by
  induction vs using Vals.rec (motive_1 := fun _ => True) with
  | nil => intro pos bs _ v hv; simp [Vals.toList] at hv
  | cons v r _ ih =>
    intro pos bs h w hw
    rw [writeN] at h
    cases h1 : write cfg t v pos with
    | error e => simp [h1] at h
    | ok a =>
      simp only [h1] at h
      cases h2 : writeN cfg t r (pos + a.length) with
      | error e => simp [h2] at h
      | ok b =>
        simp only [Vals.toList, List.mem_cons] at hw
        rcases hw with rfl | hw
        · exact ⟨pos, a, h1⟩
        · exact ih _ b h2 w hw
  | _ => trivial

/-- **A dump that succeeds has the declared number of entries at every level.** -/
theorem c07_write_ok_shaped (cfg : Cfg) (t : Ty) (v : Val) (pos : Nat) (bs : Bytes) (h : write cfg t v pos = .ok bs) :
    Shaped t v := by
  match t, v, h with
  | .arr e (.fixed n), .list vs, h =>
    rw [Core.Lemmas.write_arr_list] at h
    by_cases hl : vs.length = n
    · simp only [hl, ne_eq, not_true_eq_false, if_false] at h
      refine ⟨hl, fun w hw => ?_⟩
      obtain ⟨p, b, hwr⟩ := writeN_ok_mem cfg e vs pos bs h w hw
      exact c07_write_ok_shaped cfg e w p b hwr
    · simp [hl] at h
  | .arr _ .nullTerm, _, _ => simp [Shaped]
  | .arr _ .eof, _, _ => simp [Shaped]
  | .arr _ (.expr _), _, _ => simp [Shaped]
  | .sc _ _, _, _ => simp [Shaped]
  | .enum _ _ _, _, _ => simp [Shaped]
  | .ptr _, _, _ => simp [Shaped]
  | .struct _ _, _, _ => simp [Shaped]
  | .union _ _, _, _ => simp [Shaped]
  | .arr _ (.fixed _), .int _, _ => simp [Shaped]
  | .arr _ (.fixed _), .flt _, _ => simp [Shaped]
  | .arr _ (.fixed _), .bytes _, _ => simp [Shaped]
  | .arr _ (.fixed _), .wstr _, _ => simp [Shaped]
  | .arr _ (.fixed _), .enum _, _ => simp [Shaped]
  | .arr _ (.fixed _), .ptr _, _ => simp [Shaped]
  | .arr _ (.fixed _), .void, _ => simp [Shaped]
  | .arr _ (.fixed _), .record _, _ => simp [Shaped]
  | .arr _ (.fixed _), .union _ _, _ => simp [Shaped]
termination_by sizeOf t

/-- **A value with a wrong-length row at ANY depth is refused**: whatever the position, the dump of a value that does not have
    the declared number of entries at every fixed-count level of a (multi-dimensional) array fails. -/
theorem c07_size_refused_nested (cfg : Cfg) (t : Ty) (v : Val) (pos : Nat) (h : ¬ Shaped t v) :
    ∃ err, write cfg t v pos = .error err := by
  cases hw : write cfg t v pos with
  | error e => exact ⟨e, rfl⟩
  | ok bs => exact absurd (c07_write_ok_shaped cfg t v pos bs hw) h

/-- … and with `ArraySizeError` when the first row is the offending one (`x[n][m]` given a first row of another length; the
    rows are written in order, the first one is checked before anything is written). -/
theorem c07_size_refused_first_row (cfg : Cfg) (e : Ty) (n m : Nat) (r rest : Vals) (pos : Nat)
    (hn : (Vals.cons (.list r) rest).length = n) (hm : r.length ≠ m) :
    write cfg (.arr (.arr e (.fixed m)) (.fixed n)) (.list (.cons (.list r) rest)) pos = .error .arraySize := by
  rw [Core.Lemmas.write_arr_list]
  simp only [hn, ne_eq, not_true_eq_false, if_false]
  rw [writeN, c07_size_refused cfg e m r pos hm]

/-- non-vacuity: `uint16 a[2][3]` given `[[1,2],[3,4,5,6]]` (right outer count, six elements in all) is not well-shaped,
    `[[1,2,3],[4,5,6]]` is -/
example :
    let u16 : Ty := .sc (.pint 2 false) 2
    let l (xs : List Int) : Val := .list (Vals.ofList (xs.map Val.int))
    ¬ Shaped (.arr (.arr u16 (.fixed 3)) (.fixed 2)) (.list (.cons (l [1, 2]) (.cons (l [3, 4, 5, 6]) .nil))) ∧
    Shaped (.arr (.arr u16 (.fixed 3)) (.fixed 2)) (.list (.cons (l [1, 2, 3]) (.cons (l [4, 5, 6]) .nil))) := by
  simp [Shaped, Vals.toList, Vals.length, Vals.ofList]

end Cstruct.C07

