/-
  C14 — no hidden shared state: instances, defaults and cstruct objects are independent.

  Property theorems over `CstructModel/Heap.lean` (which locations an operation writes), the memo lemma and the generated
  write footprint of `Proofs/C15.lean`. The read model is a pure function of (configuration, type, context, data,
  position) by construction, which is the model-level form of "parsing is a pure function of type and bytes"; for the real
  code this is what the footprint lemma (no write to a shared object on the parse path except the idempotent token rewriting)
  and the history run of this check establish.
  Known finding F8: container-valued defaults ARE shared between default-constructed instances
  (`c14_default_alias_witness`), so `c14_instances_partial` is about assignments, not in-place mutation of shared defaults.
-/
import CstructModel.Heap
import CstructModel.Gen.CsWrites
import Proofs.C15

namespace Cstruct.C14
open Cstruct Cstruct.Heap

theorem lookup_update_ne {α} (k j : Nat) (v : α) (l : List (Nat × α)) (h : k ≠ j) : lookupN j (updateN k v l) = lookupN j l := by
  induction l with
  | nil => simp [updateN, lookupN, Ne.symm h]
  | cons p r ih =>
    obtain ⟨k', v'⟩ := p
    simp only [updateN]
    split
    · rename_i hk
      simp only [lookupN]
      have : ¬ j = k' := by rw [← hk]; exact Ne.symm h
      simp [this]
    · simp only [lookupN]
      split
      · rfl
      · exact ih

/-- the cstruct object an operation acts on, if any -/
def opCs : Op → Option Nat
  | .setEndian i _ => some i | .addType i _ _ => some i | .addConst i _ _ => some i | .nextAnonymous i => some i
  | .setPointer i _ => some i | .addLookup i _ _ => some i
  | _ => none

/-- **Frame for cstruct objects**: loading definitions, changing endianness or adding types/constants on one cstruct object
    never changes the state of another, and never touches any instance or container. -/
theorem c14_frame_cs (s : Store) (op : Op) (i j : Nat) (hop : opCs op = some i) (hij : i ≠ j) :
    lookupN j (apply s op).cs = lookupN j s.cs ∧ (apply s op).insts = s.insts ∧ (apply s op).cells = s.cells := by
  cases op <;> simp only [opCs, Option.some.injEq, reduceCtorEq] at hop
  all_goals (subst hop; simp only [apply]; split <;> simp [lookup_update_ne _ _ _ _ hij])

/-- **Frame for instances**: assigning a field of one instance changes no other instance, no container and no cstruct
    object. -/
theorem c14_instances_partial (s : Store) (x y f : Nat) (v : Cell) (hxy : x ≠ y) :
    lookupN y (apply s (.setField x f v)).insts = lookupN y s.insts ∧
    (apply s (.setField x f v)).cells = s.cells ∧ (apply s (.setField x f v)).cs = s.cs := by
  simp only [apply]; split <;> simp [lookup_update_ne _ _ _ _ hxy]

/-- **Writes through a reference change exactly that container**: every instance that does not hold a reference to it observes
    nothing. -/
theorem c14_setitem_frame (s : Store) (l k : Nat) (v : Cell) (y : Nat)
    (hno : ∀ fs, lookupN y s.insts = some fs → Cell.ref l ∉ fs) :
    observe (apply s (.setItem l k v)) y = observe s y := by
  simp only [apply]
  split
  · rename_i cs hcs
    simp only [observe]
    cases hy : lookupN y s.insts with
    | none => simp
    | some fs =>
      simp only [Option.map_some, Option.some.injEq]
      apply List.map_congr_left
      intro c hc
      cases c with
      | int _ => rfl
      | ref l' =>
        have : l ≠ l' := by
          intro e; subst e; exact hno fs hy hc
        simp [lookup_update_ne _ _ _ _ this]
  · rfl

/-- **F8, the witness**: with the code's aliased default construction, mutating the array of one default-constructed instance
    in place is observed by another default-constructed instance (and by every later one): the unguarded statement of the
    property is false of the model of the unchanged code, exactly as on the real code
    (`x = cs.A(); x.a[0] = 9; cs.A().a == [9, 0]`). -/
theorem c14_default_alias_witness :
    let s0 : Store := { cs := [], cells := [(100, [.int 0, .int 0])], insts := [] }
    let defaults := [Cell.int 0, Cell.ref 100]
    let s1 := constructAliased s0 1 defaults
    let s2 := constructAliased s1 2 defaults
    let s3 := apply s2 (.setItem 100 0 (.int 9))
    observe s3 2 ≠ observe s2 2 ∧ observe (constructAliased s3 3 defaults) 3 ≠ observe s1 1 := by
  decide

/-- Memo tables and the write footprint (shared with C15). -/
theorem c14_memo {K V} [DecidableEq K] (f : K → V) (m : List (K × V)) (hm : ∀ p ∈ m, p.2 = f p.1) (k : K) :
    (Cstruct.Sched.memoGet f m k).1 = f k ∧ ∀ p ∈ (Cstruct.Sched.memoGet f m k).2, p.2 = f p.1 :=
  Cstruct.C15.c14_memo_transparent f m hm k

/-- **The operations on a cstruct object are all there are**: every attribute of a cstruct object that the library's own
    code writes (extracted from cstruct.py, parser.py and the type modules on every run, `Gen/CsWrites.lean`) is one of the
    attributes the model carries (`Heap.csAttrs`), each of which is written by exactly one `Op`. A change that keeps new
    state on the cstruct object (a parser, a cache, a mode flag) makes this fail to build. -/
theorem c14_cs_alphabet : ∀ w ∈ Gen.csWrites, w.2.2 ∈ Heap.csAttrs := by decide

theorem c14_footprint : ∀ w ∈ Gen.sharedWrites, w = ("Expression.evaluate", "store self.tokens.[]") :=
  Cstruct.C15.c15_footprint

end Cstruct.C14
