/-
  C10 — expressions evaluate with C precedence and left associativity, repeatably.

  Property theorems only. Specification-side definitions are in `Proofs/Spec/C10.lean`, helper lemmas in
  `Proofs/Lemmas/C10.lean`. Everything is stated over the model in `CstructModel/Expr.lean`, whose operator
  tables (`Gen.binaryOperators`, `Gen.unaryOperators`, `Gen.precedenceLevels`, `Gen.minusMarker`,
  `Gen.unaryContextTokens`, `Gen.tokenizerOperators`, `Gen.hexbinSuffix`) are regenerated from /repo's
  `expression.py` on every run, so these theorems are re-checked against the tables the code has now.
-/
import Proofs.Spec.C10
import Proofs.Lemmas.C10

namespace Cstruct.Expr.C10
open Cstruct Cstruct.Expr

/-- The tables the code evaluates with are exactly C's: same operator spellings with the same meaning, the
    same relative precedence, and both unary operators bind tighter than every binary one. -/
theorem c10_tables :
    Gen.binaryOperators = cBinary.map (fun (t, o, _) => (t, o)) ∧
    (∀ t o k, (t, o, k) ∈ cBinary → lookup t Gen.precedenceLevels = some k ∧ k < 6) ∧
    Gen.unaryOperators = [(Gen.minusMarker, .neg), ("~", .inv)] ∧
    lookup Gen.minusMarker Gen.precedenceLevels = some 6 ∧ lookup "~" Gen.precedenceLevels = some 6 ∧
    IsName "sizeof" ∧ ¬ IsName Gen.minusMarker := by
  refine ⟨by decide, ?_, by decide, by decide, by decide, by decide, by decide⟩
  intro t o k h
  have hf := Lemmas.binFacts h
  exact ⟨hf.prec, Nat.lt_succ_of_le hf.le5⟩

/-- **C10, evaluation.** Every token sequence of the C grammar evaluates — through the in-place minus
    rewriting and the shunting-yard loop, exactly as `Expression.evaluate` runs them — to the value of its
    parse tree, for every binding of the identifiers (context first, then constants); afterwards the object
    holds the marked token list. -/
theorem c10_eval_correct (env : Env) (henv : EnvOk env) {raw marked : List String} {v : Int}
    (h : D env 0 raw marked v) :
    (Obj.evaluate ⟨raw⟩ env).2 = .ok v ∧ (Obj.evaluate ⟨raw⟩ env).1.tokens = marked := by
  exact Lemmas.eval_correct env henv h

/-- **C10, repeatability.** Evaluating the same object again, with the same or a different context, gives
    what a fresh object gives — for *every* token list, well-formed or not: the only state that survives a call
    is the rewritten token list, and the rewriting is idempotent. -/
theorem c10_repeat (o : Obj) (env1 env2 : Env) :
    ((o.evaluate env1).1.evaluate env2).2 = (o.evaluate env2).2 ∧
    ((o.evaluate env1).1.evaluate env2).1 = (o.evaluate env1).1 := by
  exact Lemmas.repeat_ o env1 env2

/-- `/` and `%` (Python floor semantics in the code) are C's truncating `/` and `%` whenever both operands are
    non-negative — the domain in which the property prescribes them. -/
theorem c10_div_mod_nonneg (a b : Int) (ha : 0 ≤ a) (hb : 0 < b) :
    binop .floordiv a b = .ok (Int.tdiv a b) ∧ binop .mod a b = .ok (Int.tmod a b) := by
  exact Lemmas.div_mod_nonneg a b ha hb

/-- Literal tokens denote their C value: hexadecimal, binary and octal (as the tokenizer hands them on, i.e.
    `0o…` for a C literal with a leading 0) by prefix, decimal otherwise. -/
theorem c10_literals (ds : List Nat) (hne : ds ≠ []) :
    ((∀ d ∈ ds, d < 16) → ∀ p ∈ ['x', 'X'],
        parseInt (String.ofList ('0' :: p :: ds.map digitChar)) = some (Int.ofNat (ofDigits 16 ds))) ∧
    ((∀ d ∈ ds, d < 2) → ∀ p ∈ ['b', 'B'],
        parseInt (String.ofList ('0' :: p :: ds.map digitChar)) = some (Int.ofNat (ofDigits 2 ds))) ∧
    ((∀ d ∈ ds, d < 8) →
        parseInt (String.ofList ('0' :: 'o' :: ds.map digitChar)) = some (Int.ofNat (ofDigits 8 ds))) ∧
    ((∀ d ∈ ds, d < 10) → ds.head? ≠ some 0 →
        parseInt (String.ofList (ds.map digitChar)) = some (Int.ofNat (ofDigits 10 ds))) := by
  exact Lemmas.literals ds hne

/-- The tokenizer turns a C octal literal (leading `0`) into Python's `0o` spelling and drops `u`/`l` suffixes. -/
theorem c10_tokenize_octal_suffix :
    tokenize "0" = .ok ["0"] ∧ tokenize "017" = .ok ["0o17"] ∧ tokenize "0x1FuLL" = .ok ["0x1F"] ∧
    tokenize "10ull" = .ok ["10"] ∧ tokenize "0b101L" = .ok ["0b101"] ∧ tokenize "1<<2" = .ok ["1", "<<", "2"] := by
  decide +kernel

/-! ### Non-vacuity: the hypotheses are satisfiable by concrete derivations -/

def env0 : Env := { ctx := [("n", 3)], consts := [("A", 8), ("n", 100)], sizeof := fun _ => .ok 4 }

example : (Obj.evaluate ⟨["2", "*", "-", "n", "-", "-", "1"]⟩ env0).2 = .ok (-5) := by decide +kernel
example : (Obj.evaluate ⟨["1", "|", "2", "+", "4", "*", "A", "<<", "1"]⟩ env0).2 = .ok 69 := by decide +kernel
example : EnvOk env0 := by
  exact Lemmas.envOk_of_keys (by decide) (by decide)
example : D env0 0 ["-", "n", "-", "1"] [Gen.minusMarker, "n", "-", "1"] (-4) := by
  have hn : D env0 6 ["n"] ["n"] 3 := .up (by decide) (.atom (.ctx (by decide) (by decide)))
  have h1 : D env0 5 ["1"] ["1"] 1 := .up (by decide) (.up (by decide) (.atom (.lit (by decide) (by decide))))
  have hl : D env0 4 ["-", "n"] [Gen.minusMarker, "n"] (-3) := .up (by decide) (.up (by decide) (.neg hn))
  have hb : D env0 4 (["-", "n"] ++ "-" :: ["1"]) ([Gen.minusMarker, "n"] ++ "-" :: ["1"]) (-4) :=
    .bin (o := .sub) (by decide) hl h1 (by decide)
  exact .up (by decide) (.up (by decide) (.up (by decide) (.up (by decide) hb)))

end Cstruct.Expr.C10
