import Proofs.C09Call
import Proofs.Lemmas.CoreRW

namespace Cstruct.Call.C09
open Cstruct Cstruct.Core

/-- **Where the structure shortcut applies it is a parse in disguise**: for a packed structure whose only member is
    `char name[n]` (n > 0) and an input of exactly n bytes, reading the structure yields the record holding exactly those
    bytes and ends at n - the value the shortcut constructs from the argument. -/
theorem c09_shortcut_is_parse (cfg : Cfg) (nm : String) (an : Bool) (a n : Nat) (hn : 0 < n) (ctx : Ctx) (d : Bytes)
    (hd : d.length = n) :
    read cfg (.struct false (.cons nm an (.arr (.sc .char a) (.fixed n)) none .nil)) ctx d 0 =
      .ok (.record (.cons (.bytes d) .nil), n) := by
  rw [Lemmas.read_struct]
  obtain ⟨al', hl⟩ : ∃ al', structLayout cfg false (.cons nm an (.arr (.sc .char a) (.fixed n)) none .nil) =
      .ok (some n, al', [some 0]) := by
    refine ⟨if a = 0 then 1 else a, ?_⟩
    simp [structLayout, Fields.layout, LState.init, Ty.size, Ty.alignment, Scalar.size]
  rw [hl]
  simp only [Except.bind]
  rw [Lemmas.readFields_cons_nobits _ _ _ _ _ _ _ _ _ _ _ _ _ (by rfl)]
  have hpos : Lemmas.fieldPos cfg false (.arr (.sc .char a) (.fixed n)) ([some 0] : List (Option Nat)).head?.join 0 0 = 0 := by
    simp [Lemmas.fieldPos]
  rw [hpos, Lemmas.read_arr_fixed, Lemmas.readArray_char]
  have hne : n ≠ 0 := by omega
  have hs : sread d 0 n = d := by
    simp [sread, ← hd]
  simp only [hne, if_false, readExact, hs, hd, ne_eq, not_true_eq_false, Except.bind, Lemmas.readFields_nil]
  simp

end Cstruct.Call.C09
