/-
  C11 — union members are coherent views of one byte buffer.

  Property theorems over `CstructModel/Union.lean` (UnionMetaType._read/_read_fields, Union._rebuild/_update) and the union
  cases of the read/write model. Helper lemmas in `Proofs/Lemmas/C11.lean`.
  Known findings F9F10: the *dump* of a union writes only its largest non-anonymous-struct member (see `c11_dump_partial`).
-/
import CstructModel.Union
import Proofs.Lemmas.C11

namespace Cstruct.C11
open Cstruct Cstruct.Union Cstruct.Core

/-- member number `k` of a field list -/
def nthTy : Fields → Nat → Option Ty
  | .nil, _ => none
  | .cons _ _ t _ _, 0 => some t
  | .cons _ _ _ _ r, k + 1 => nthTy r k

def nthVal : Vals → Nat → Option Val
  | .nil, _ => none
  | .cons v _, 0 => some v
  | .cons _ r, k + 1 => nthVal r k

/-- **Parsing consumes exactly the union's size** (on a long-enough input) and the buffer is exactly those bytes. -/
theorem c11_parse_size (cfg : Cfg) (fs : Fields) (sz : Nat) (data : Bytes) (pos : Nat) (s : UState) (p : Nat)
    (h : parse cfg fs sz data pos = .ok (s, p)) (hlen : pos + sz ≤ data.length) :
    p = pos + sz ∧ s.buf = (data.drop pos).take sz ∧ s.buf.length = sz := by
  exact Lemmas.parse_size cfg fs sz data pos s p h hlen

/-- **Every member's value is the result of parsing that member's type from the union's bytes** (from offset 0 of the
    buffer, with the members before it as context). -/
theorem c11_members (cfg : Cfg) (fs : Fields) (buf : Bytes) (vs : Vals) (h : readMembers cfg fs [] buf = .ok vs) (k : Nat) (t : Ty)
    (ht : nthTy fs k = some t) :
    ∃ v ctx p, nthVal vs k = some v ∧ read cfg t ctx buf 0 = .ok (v, p) := by
  have eT : ∀ fs k, nthTy fs k = Lemmas.nTy fs k :=
    Lemmas.nTy_unique nthTy (fun _ => rfl) (fun _ _ _ _ _ => rfl) (fun _ _ _ _ _ _ => rfl)
  have eV : ∀ vs k, nthVal vs k = Lemmas.nVal vs k :=
    Lemmas.nVal_unique nthVal (fun _ => rfl) (fun _ _ => rfl) (fun _ _ _ => rfl)
  rw [eT] at ht
  rw [eV]
  exact Lemmas.members_gen cfg buf fs [] vs h k t ht

/-- **Coherence is an invariant of every history of assignments**: after any sequence of member assignments that
    succeeded, all members are again exactly what the buffer parses to. -/
theorem c11_history_coherent (cfg : Cfg) (fs : Fields) (s : UState) (hist : List (Nat × Val)) (s' : UState)
    (hinv : readMembers cfg fs [] s.buf = .ok s.vals) (h : assignAll cfg fs s hist = .ok s') :
    readMembers cfg fs [] s'.buf = .ok s'.vals := by
  exact Lemmas.history_coherent cfg fs hist s s' hinv h

/-- **An assignment changes the bytes of that member and nothing else**: the new buffer is the member's encoding followed by
    the old bytes beyond it; its length does not change when the member fits the union. -/
theorem c11_assign_bytes (cfg : Cfg) (fs : Fields) (s : UState) (k : Nat) (v : Val) (s' : UState)
    (h : assign cfg fs s k v = .ok s') :
    ∃ enc, writeMemberRaw cfg fs (setNth s.vals k v) k 0 = .ok enc ∧ s'.buf = enc ++ s.buf.drop enc.length ∧
      (enc.length ≤ s.buf.length → s'.buf.length = s.buf.length) ∧
      (∀ i, enc.length ≤ i → s'.buf[i]? = s.buf[i]?) := by
  exact Lemmas.assign_bytes cfg fs s k v s' h

/-- **The assigned member reads back** (members of fragment S, value of the member's type): after `u.member = v` the member
    holds `v` again — it was written into the buffer and re-read from it. -/
theorem c11_assign_readback (cfg : Cfg) (al : Bool) (fs : Fields) (s : UState) (k : Nat) (t : Ty) (v : Val) (s' : UState)
    (ht : nthTy fs k = some t) (hS : t.fragS cfg = true) (hu : t.uniformAlign al = true) (hp : t.pow2Aligned cfg)
    (hv : HasTy cfg v t) (hk : k < s.vals.length) (h : assign cfg fs s k v = .ok s') :
    nthVal s'.vals k = some v := by
  have eT : ∀ fs k, nthTy fs k = Lemmas.nTy fs k :=
    Lemmas.nTy_unique nthTy (fun _ => rfl) (fun _ _ _ _ _ => rfl) (fun _ _ _ _ _ _ => rfl)
  have eV : ∀ vs k, nthVal vs k = Lemmas.nVal vs k :=
    Lemmas.nVal_unique nthVal (fun _ => rfl) (fun _ _ => rfl) (fun _ _ _ => rfl)
  rw [eT] at ht
  rw [eV]
  exact Lemmas.assign_readback cfg al fs s k t v s' ht hS hu hp hv hk h

/-- **Dump (partial, see F9F10)**: a fixed-size union is dumped as its largest member that is not an anonymous structure,
    zero-padded to the union's size; in particular the dump always has the union's size. -/
theorem c11_dump_size (cfg : Cfg) (al : Bool) (fs : Fields) (buf : Bytes) (vs : Vals) (pos : Nat) (bs : Bytes) (sz : Nat)
    (hsz : (Ty.union al fs).size cfg = some sz) (h : write cfg (.union al fs) (.union buf vs) pos = .ok bs)
    (hfit : ∀ k t, nthTy fs k = some t → ∀ n, t.size cfg = some n → n ≤ sz) :
    bs.length ≥ sz := by
  have _ := hfit
  exact Lemmas.dump_size cfg al fs buf vs pos bs sz hsz h

end Cstruct.C11
