/-
  C09 — stream discipline: position-independent and consistent across input kinds.

  Property theorems derived from `Core.read_window` / `Core.read_prefix` / `Core.roundtrip_S`.
  What is proved: the result never depends on bytes after the encoded extent (every plain type without bit-fields, one
  align flag, power-of-two alignments, aligned start); a written value is read back identically wherever it is embedded
  (`c09_embedded`, fragment S): bytes before `p` never matter and the stream is left at `p + size`.
  Not a theorem: that `T(x)`, `T.read(x)`, `T.reads(x)`, `cs.read(name, x)` and bytes / bytearray / memoryview / file-like
  inputs all reach the same `_read` — a statement about `MetaType.__call__`'s dispatch, established by the correspondence
  run of this check over all call forms and input kinds.
-/
import Proofs.Core

namespace Cstruct.C09
open Cstruct Cstruct.Core

/-- **Nothing after the encoded extent matters.** -/
theorem c09_after_extent (cfg : Cfg) (al : Bool) (ty : Ty) (hplain : ty.plain = true) (hnb : ty.noBits = true)
    (hu : ty.uniformAlign al = true) (hp : ty.pow2Aligned cfg) (ctx : Ctx) (d : Bytes) (pos : Nat)
    (hal : ty.alignsDivide cfg pos = true) (v : Val) (p : Nat)
    (hr : read cfg ty ctx d pos = .ok (v, p)) (post : Bytes) :
    read cfg ty ctx (d.take p ++ post) pos = .ok (v, p) :=
  read_window cfg al ty hplain hnb hu hp ctx d pos hal v p hr post

/-- **A value reads back the same wherever it is embedded (fragment S):** written at an aligned position `p` after any
    `pre` and before any `post`, it parses to the same value and leaves the stream at `p + size`. -/
theorem c09_embedded (cfg : Cfg) (al : Bool) (ty : Ty) (hS : ty.fragS cfg = true) (hu : ty.uniformAlign al = true)
    (hp : ty.pow2Aligned cfg) (v : Val) (hv : HasTy cfg v ty) (pre post : Bytes) (hal : ty.alignsDivide cfg pre.length = true) (ctx : Ctx) :
    ∃ bs, write cfg ty v pre.length = .ok bs ∧ ty.size cfg = some bs.length ∧
      read cfg ty ctx (pre ++ bs ++ post) pre.length = .ok (v, pre.length + bs.length) := by
  obtain ⟨bs, hw, hsz⟩ := write_total_S cfg al ty hS hu hp v hv pre.length hal
  exact ⟨bs, hw, hsz, roundtrip_S cfg al ty hS hu hp v hv pre.length hal bs hw pre post rfl ctx⟩

/-- **The stream is left at `p + size`** for every fixed-size type of fragment S on a long-enough input, whatever precedes. -/
theorem c09_end_position (cfg : Cfg) (al : Bool) (ty : Ty) (hS : ty.fragS cfg = true) (hu : ty.uniformAlign al = true)
    (hp : ty.pow2Aligned cfg) (ctx : Ctx) (data : Bytes) (pos n : Nat) (hsz : ty.size cfg = some n) (hlen : pos + n ≤ data.length)
    (hal : ty.alignsDivide cfg pos = true) :
    ∃ v, read cfg ty ctx data pos = .ok (v, pos + n) := by
  obtain ⟨v, h, _⟩ := read_size_S cfg al ty hS hu hp ctx data pos n hsz hlen hal
  exact ⟨v, h⟩

end Cstruct.C09
