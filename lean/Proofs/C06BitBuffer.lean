/-
  C06 — the class `BitBuffer` (bitbuffer.py) as an object: how storage units are loaded, switched, flushed and dropped
  around the bit steps of `Proofs/C06.lean`.

  Property theorems only; specification in `Proofs/Spec/C06BitBuffer.lean` (+ `Proofs/Spec/C06.lean` for slots),
  helper lemmas in `Proofs/Lemmas/C06BitBuffer{A,B,C}.lean`.
  Model: `CstructModel/BitBuffer.lean` (`BB`, `BB.read`, `BB.write`, `BB.flush`, `BB.reset`, `BB.init`); its extraction step
  IS `BitBuf.take`, its accumulation step is proved equal to `BitBuf.put` (`c06_bb_write_is_put`), its codecs are
  `decodeInt` / `encodeInt`.  The model is tied to the code by the operation-sequence correspondence of
  harness/v5_c06bb.py (driver command `bbops`).
-/
import Proofs.Spec.C06BitBuffer
import Proofs.Lemmas.C06BitBufferC

namespace Cstruct.C06
open Cstruct Cstruct.BBuf Cstruct.C06.BB Cstruct.C06.Lemmas

/-- the slots of a run of widths `ws` in a unit `u` of `w` bits, `k` bits used before: what `c06_partition` talks about -/
def slots (e : Endian) (w : Nat) (u : Int) (ws : List Nat) (k : Nat) : List Int :=
  (ws.zip (starts ws k)).map fun (b, k) => slotVal u (slotLo e w k b) b

private theorem slots_range (e : Endian) (w : Nat) (u : Int) : ∀ (ws : List Nat) (k : Nat),
    InRange (slots e w u ws k) ws
  | [], _ => by simp [slots, starts, InRange]
  | b :: r, k => by
    simp only [slots, starts, List.zip_cons_cons, List.map_cons]
    exact ⟨slotVal_bounds u _ b, slots_range e w u r (k + b)⟩

private theorem readRun_cont (t : BTy) (w : Nat) (u : Int) : ∀ (ws : List Nat) (k : Nat) (bb : BB),
    bb.ty = some t → bb.remaining = ((w - k : Nat) : Int) → (∀ x ∈ ws, 0 < x) → k + ws.sum ≤ w →
    ReadInv bb.endian w u k { ty := none, buffer := bb.buffer, remaining := w - k } →
    ∃ buf, readRun bb t ws = .ok ({ bb with buffer := buf, remaining := ((w - (k + ws.sum) : Nat) : Int) }, slots bb.endian w u ws k)
  | [], k, bb, _, hrem, _, _, _ => by
    refine ⟨bb.buffer, ?_⟩
    simp only [readRun, slots, starts, List.zip_nil_left, List.map_nil, List.sum_nil, Nat.add_zero, ← hrem]
  | b :: r, k, bb, hty, hrem, hpos, hsum, hinv => by
    simp only [List.sum_cons] at hsum
    have hb0 : 0 < b := hpos b (by simp)
    obtain ⟨buf, hex, hinv'⟩ := extract_ok bb w k b u (by omega) hinv
    have hrd := read_cont bb t b (w - k) hty hrem (by omega)
    obtain ⟨buf2, hrest⟩ := readRun_cont t w u r (k + b)
      ({ bb with buffer := buf, remaining := ((w - (k + b) : Nat) : Int) } : BB) hty rfl
      (fun x hx => hpos x (List.mem_cons_of_mem _ hx)) (by omega) hinv'
    refine ⟨buf2, ?_⟩
    simp only [readRun, hrd, hex, hrest, slots, starts, List.zip_cons_cons, List.map_cons, List.sum_cons, Nat.add_assoc]

/-- **A run of reads.**  On an object whose unit is used up or that holds none (fresh, after `reset()`, after a unit was
    read to its last bit), a run of reads of widths `w1..wk ≥ 1` over one storage type of `n` bytes whose widths sum to at
    most `8n` consumes exactly the `n` bytes at the stream position, once; returns field by field the slots of that unit
    that `c06_partition` describes — counted from the least significant end in little endian, from the most significant
    end in big endian —; leaves `8n - Σw` bits; and every value lies in [0, 2^w), also when the unit was decoded as a
    negative number (signed storage type with the top bit set). -/
theorem c06_bb_read_run (bb : BB) (t : BTy) (n : Nat) (ws : List Nat)
    (hfresh : bb.remaining = 0) (hsz : t.size = some n) (hne : ws ≠ []) (hpos : ∀ w ∈ ws, 0 < w) (hsum : ws.sum ≤ 8 * n)
    (hlen : bb.stream.pos + n ≤ bb.stream.data.length) :
    let u := unitVal bb.endian t (sread bb.stream.data bb.stream.pos n)
    ∃ bb', readRun bb t ws = .ok (bb', slots bb.endian (8 * n) u ws 0) ∧
      bb'.stream = { bb.stream with pos := bb.stream.pos + n } ∧ bb'.ty = some t ∧ bb'.endian = bb.endian ∧
      bb'.remaining = ((8 * n - ws.sum : Nat) : Int) ∧
      InRange (slots bb.endian (8 * n) u ws 0) ws := by
  intro u
  cases ws with
  | nil => exact absurd rfl hne
  | cons w r =>
    have hw0 : 0 < w := hpos w (by simp)
    simp only [List.sum_cons] at hsum
    -- the first read loads the unit, and then behaves like a read on the loaded object
    have hld := read_load bb t n w (Or.inl hfresh) hsz hlen
    have hlrem : (loaded bb t n).remaining = ((8 * n - 0 : Nat) : Int) := by simp only [loaded]; omega
    have hcont := read_cont (loaded bb t n) t w (8 * n - 0) rfl hlrem (by omega)
    have h8 : n * 8 = 8 * n - 0 := by omega
    have hfirst : readRun bb t (w :: r) = readRun (loaded bb t n) t (w :: r) := by
      simp only [readRun, hld, hcont, h8]
    obtain ⟨buf, hrun⟩ := readRun_cont t (8 * n) u (w :: r) 0 (loaded bb t n) rfl hlrem hpos
      (by simp only [List.sum_cons]; omega) (readInv_init _ _ _ none)
    refine ⟨_, hfirst.trans hrun, rfl, rfl, rfl, by simp, slots_range _ _ _ _ _⟩

/-- **Loading and switching units; the straddle check.**
    (1) A read for another storage type than the current one, or when no bits are left, loads a new unit of `n` bytes from
        the current stream position: value and state afterwards are those of a read on a freshly loaded unit — nothing of the old
        unit (its buffer, its unused bits) enters.
    (2) A read of the current storage type that asks for more bits than are left (and some are left) is refused with
        ValueError and leaves the object, stream included, exactly as it was: bits are never taken from two units. -/
theorem c06_bb_unit_switch (bb : BB) (t : BTy) (bits : Nat) :
    (∀ n, (bb.remaining = 0 ∨ bb.ty ≠ some t) → t.size = some n → bits ≤ 8 * n → bb.stream.pos + n ≤ bb.stream.data.length →
      let u := unitVal bb.endian t (sread bb.stream.data bb.stream.pos n)
      ∃ buf, bb.read t bits =
          .ok ({ ty := some t, buffer := buf, remaining := ((8 * n - bits : Nat) : Int), endian := bb.endian,
                 stream := { bb.stream with pos := bb.stream.pos + n } },
               slotVal u (slotLo bb.endian (8 * n) 0 bits) bits) ∧
        ReadInv bb.endian (8 * n) u bits { ty := none, buffer := buf, remaining := 8 * n - bits }) ∧
    (∀ r : Nat, bb.ty = some t → bb.remaining = (r : Int) → 0 < r → r < bits → bb.read t bits = .error (.value, bb)) := by
  constructor
  · intro n hnew hsz hb hlen u
    have hld := read_load bb t n bits hnew hsz hlen
    have h8 : n * 8 = 8 * n - 0 := by omega
    obtain ⟨buf, hex, hinv⟩ := extract_ok (loaded bb t n) (8 * n) 0 bits u (by omega) (readInv_init _ _ _ none)
    rw [h8] at hld
    simp only [Nat.zero_add] at hex hinv
    refine ⟨buf, ?_, hinv⟩
    rw [hld, hex]
    simp [loaded]
  · intro r hty hrem hr hlt
    rw [read_cont bb t bits r hty hrem (by omega)]
    exact extract_straddle bb r bits hlt

/-- when the stream ends inside the unit that has to be loaded the read raises EOFError (nothing is returned) -/
theorem c06_bb_unit_eof (bb : BB) (t : BTy) (n bits : Nat) (hnew : bb.remaining = 0 ∨ bb.ty ≠ some t) (hsz : t.size = some n)
    (hn : 0 < n) (hlen : bb.stream.data.length < bb.stream.pos + n) : ∃ bb', bb.read t bits = .error (.eof, bb') :=
  ⟨_, read_eof bb t n bits hnew hsz hn hlen⟩

/-- a variable-length storage type is refused with ValueError, by `read` (nothing changes) and by `write` -/
theorem c06_bb_varlen (bb : BB) (t : BTy) (bits : Nat) (v : Int) (hnew : bb.remaining = 0 ∨ bb.ty ≠ some t) (hsz : t.size = none) :
    bb.read t bits = .error (.value, bb) ∧ (Idle bb → bb.write t v bits = .error (.value, bb)) := by
  refine ⟨read_varlen bb t bits hnew hsz, ?_⟩
  intro hidle
  simp only [BB.write, if_pos hnew]
  simp only [hidle.1, hsz]

/-- **`write` accumulates with `BitBuf.put`** (the step `c06_put_take` is about) whenever the current unit goes on and the
    request is one `put` accepts; a unit whose last bit was written is flushed on the spot. -/
theorem c06_bb_write_is_put (bb : BB) (t : BTy) (n r bits : Nat) (v : Int) (b : BitBuf)
    (hty : bb.ty = some t) (hsz : t.size = some n) (hrem : bb.remaining = (r : Int)) (hr : r ≠ 0) (hrn : r ≤ n * 8)
    (hput : BitBuf.put bb.endian { ty := none, buffer := bb.buffer, remaining := r } n v bits = some b) :
    bb.write t v bits =
      if b.remaining = 0 then ({ bb with buffer := b.buffer, remaining := (b.remaining : Int) } : BB).flush
      else .ok ({ bb with buffer := b.buffer, remaining := (b.remaining : Int) }, ()) :=
  write_eq_put bb t n r bits v b hty hsz hrem hr hrn hput

/-- **Writing, then flushing, is the exact inverse of reading — across units.**  Take any sequence of writes
    (type, width, value) in which every value fits its width (0 ≤ v < 2^w) and that respects the unit discipline `Fits`
    (no width exceeds what its unit has left, where a unit is given up and a new one opened whenever the storage type
    changes or the unit is exhausted).  On an idle object over a stream positioned inside its content:
    every write succeeds, the final `flush()` succeeds and leaves the object idle; the stream content before the start
    position and behind the end position is untouched; and a fresh object of the same byte order reading the same
    (type, width) requests from the start position of the new content gets exactly the values written and ends at the
    position where the writer ended.  Both byte orders; unit switches in the middle of a unit (write flushes the unit
    with its unused bits zero), exhausted units (write flushes as soon as the last bit is written), signed and `bytes`
    storage types included. -/
theorem c06_bb_write_flush_inverse (wb : BB) (ws : List (BTy × Nat × Int))
    (hidle : Idle wb) (hin : wb.stream.pos ≤ wb.stream.data.length)
    (hfit : ∀ p ∈ ws, 0 ≤ p.2.2 ∧ p.2.2 < 2 ^ p.2.1) (hunits : Fits none 0 (requests ws)) :
    ∃ wb1 wbF, writeAll wb ws = .ok wb1 ∧ wb1.flush = .ok (wbF, ()) ∧ Idle wbF ∧ wbF.endian = wb.endian ∧
      wb.stream.pos ≤ wbF.stream.pos ∧ wbF.stream.pos ≤ wbF.stream.data.length ∧
      wbF.stream.data.take wb.stream.pos = wb.stream.data.take wb.stream.pos ∧
      wbF.stream.data.drop wbF.stream.pos = wb.stream.data.drop wbF.stream.pos ∧
      ∀ rb : BB, rb.remaining = 0 → rb.endian = wb.endian → rb.stream = { data := wbF.stream.data, pos := wb.stream.pos } →
        ∃ rbF, readAll rb (requests ws) = .ok (rbF, values ws) ∧ rbF.stream.pos = wbF.stream.pos := by
  obtain ⟨wbF, hwf, hpost, hback⟩ := (pall ws).2 wb hidle hin hunits hfit
  simp only [writeFlush] at hwf
  cases hwa : writeAll wb ws with
  | error e => rw [hwa] at hwf; exact absurd hwf (by simp)
  | ok wb1 =>
    rw [hwa] at hwf
    simp only at hwf
    cases hfl : wb1.flush with
    | error e => rw [hfl] at hwf; exact absurd hwf (by simp)
    | ok p =>
      obtain ⟨wb2, u⟩ := p
      rw [hfl] at hwf
      simp only [Except.ok.injEq] at hwf
      subst hwf
      refine ⟨wb1, wb2, rfl, hfl, hpost.idle, hpost.endian, hpost.mono, hpost.inb, hpost.pre, hpost.suf, ?_⟩
      intro rb hr0 hre hrs
      have hrl : Reloads rb ws := by
        cases ws with
        | nil => trivial
        | cons x r => obtain ⟨t, w, v⟩ := x; exact Or.inl hr0
      obtain ⟨rbF, h1, h2⟩ := hback rb hre hrs hrl
      exact ⟨rbF, h1, by rw [h2]⟩

/-- **A write that does not fit the rest of its unit** (same storage type, `r > 0` bits left, `bits > r`, the value in
    range).  Big endian: refused with ValueError ("negative shift count"), nothing changes.  Little endian: NOT refused —
    the value is or-ed in above the bits used so far, reaching beyond the unit, and `_remaining` becomes negative; from
    then on every read and every big-endian write on this unit is refused and no write of this type opens a new unit.
    (Such a request cannot come from a structure: `c06_layout_straddle` rejects the definition.) -/
theorem c06_bb_write_straddle (bb : BB) (t : BTy) (n r bits : Nat) (v : Int)
    (hty : bb.ty = some t) (hsz : t.size = some n) (hrem : bb.remaining = (r : Int)) (hr : 0 < r) (hrn : r ≤ n * 8)
    (hlt : r < bits) (hv : 0 ≤ v ∧ v < 2 ^ bits) :
    bb.write t v bits =
      match bb.endian with
      | .big => .error (.value, bb)
      | .little => .ok ({ bb with buffer := lor bb.buffer (shl v (n * 8 - r)), remaining := (r : Int) - (bits : Int) }, ()) := by
  have h1 : ¬ (bb.remaining = 0 ∨ bb.ty ≠ some t) := by
    rw [hrem, hty]; simp; omega
  have hv' : ¬ (v < 0 ∨ v ≥ shl 1 bits) := by
    have : shl 1 bits = ((2 ^ bits : Nat) : Int) := by simp [shl]
    rw [this]
    have h2 : ((2 ^ bits : Nat) : Int) = (2 : Int) ^ bits := by norm_cast
    omega
  simp only [BB.write, if_neg h1]
  simp only [hty, hsz, if_neg hv']
  cases he : bb.endian with
  | big =>
    have hs : bb.remaining - (bits : Int) < 0 := by omega
    simp only [if_pos hs]
  | little =>
    simp only [hrem]
    have hs : ¬ (((n * 8 : Nat) : Int) - (r : Int) < 0) := by omega
    have ht : (((n * 8 : Nat) : Int) - (r : Int)).toNat = n * 8 - r := by omega
    have h0 : ¬ ((r : Int) - (bits : Int) = 0) := by omega
    simp only [if_neg hs, ht, if_neg h0]

/-- **`reset()`** forgets the unit — type, buffer, free bits — and touches neither the stream nor the byte order; the next
    read, whatever its type, loads a fresh unit from the stream position (`c06_bb_unit_switch` (1) applies: no bits left). -/
theorem c06_bb_reset (bb : BB) :
    ∃ bb', bb.reset = .ok (bb', ()) ∧ Idle bb' ∧ bb'.stream = bb.stream ∧ bb'.endian = bb.endian ∧
      ∀ (t : BTy) (n bits : Nat), t.size = some n → bits ≤ 8 * n → bb.stream.pos + n ≤ bb.stream.data.length →
        ∃ bb'', bb'.read t bits = .ok (bb'', slotVal (unitVal bb.endian t (sread bb.stream.data bb.stream.pos n))
            (slotLo bb.endian (8 * n) 0 bits) bits) ∧
          bb''.stream = { bb.stream with pos := bb.stream.pos + n } ∧ bb''.ty = some t ∧
          bb''.remaining = ((8 * n - bits : Nat) : Int) := by
  refine ⟨bb.cleared, rfl, ⟨rfl, rfl, rfl⟩, rfl, rfl, ?_⟩
  intro t n bits hsz hb hlen
  obtain ⟨buf, hrd, _⟩ := (c06_bb_unit_switch bb.cleared t bits).1 n (Or.inl rfl) hsz hb hlen
  exact ⟨_, hrd, rfl, rfl, rfl⟩

/-- **The byte order codes.**  An object created with '@' or '=' behaves, call for call, like one created with the code
    that spells the host's byte order ('<' on a little-endian host, '>' on a big-endian one), and one created with '!'
    like one created with '>': same results, same states, same stream, for every sequence of calls. -/
theorem c06_bb_native (host : Endian) (s : Stream) (ops : List Op) :
    (BB.init host .at s).trace ops = (BB.init host (hostCode host) s).trace ops ∧
    (BB.init host .eq s).trace ops = (BB.init host (hostCode host) s).trace ops ∧
    (BB.init host .bang s).trace ops = (BB.init host .gt s).trace ops ∧
    (BB.init host .at s).endian = host ∧ (BB.init host .eq s).endian = host ∧ (BB.init host .bang s).endian = .big := by
  have h1 : BB.init host .at s = BB.init host (hostCode host) s := by cases host <;> rfl
  have h2 : BB.init host .eq s = BB.init host (hostCode host) s := by cases host <;> rfl
  have h3 : BB.init host .bang s = BB.init host .gt s := rfl
  exact ⟨by rw [h1], by rw [h2], by rw [h3], rfl, rfl, rfl⟩

/-! ### Non-vacuity -/

def u8 : BTy := { id := 0, size := some 1, signed := false, bytes := false }
def i8 : BTy := { id := 1, size := some 1, signed := true, bytes := false }
def u16 : BTy := { id := 2, size := some 2, signed := false, bytes := false }
def chr : BTy := { id := 14, size := some 1, signed := false, bytes := true }
def fresh (e : Endian) (d : Bytes) (p : Nat) : BB := BB.init e (hostCode e) { data := d, pos := p }

-- signed storage, top bit set: the unit is loaded as -75 (0xB5), the fields are still the slots 5, 6, 2 / 5, 5, 1
example : (readRun (fresh .little [0xB5] 0) i8 [3, 3, 2]).toOption.map (·.2) = some [5, 6, 2] := by decide +kernel
example : (readRun (fresh .big [0xB5] 0) i8 [3, 3, 2]).toOption.map (·.2) = some [5, 5, 1] := by decide +kernel
example : ((fresh .little [0xB5] 0).read i8 3).toOption.map (·.1.buffer) = some (-10) := by decide +kernel
example : slots .little 8 (-75) [3, 3, 2] 0 = [5, 6, 2] ∧ slots .big 8 (-75) [3, 3, 2] 0 = [5, 5, 1] := by decide +kernel
-- a type switch in the middle of a unit: the other 5 bits of 0xB5 are dropped, the uint16 unit starts at byte 1
example : (readAll (fresh .little [0xB5, 0x34, 0x12] 0) [(u8, 3), (u16, 4), (u16, 12)]).toOption.map (fun r => (r.2, r.1.stream.pos)) =
    some ([5, 4, 0x123], 3) := by decide +kernel
-- a straddle is refused and changes nothing: the next read still gets its slot
example : ((fresh .little [0xB5, 0xFF] 0).trace [.read u8 3, .read u8 6, .read u8 5]).map (·.2) = [.val 5, .err .value, .val 22] := by
  decide +kernel
example : ((fresh .little [0xB5, 0xFF] 0).trace [.read u8 3, .read u8 6]).map (·.1.stream.pos) = [1, 1] := by decide +kernel
-- write + flush across a unit switch and an exhausted unit, then read back
example : ((fresh .big [] 0).trace [.write u8 5 3, .write u16 0xABC 12, .write u16 1 4, .write chr 3 2, .flush]).getLast?.map (·.1.stream.data) =
    some [0xA0, 0xAB, 0xC1, 0xC0] := by decide +kernel
example : (readAll (fresh .big [0xA0, 0xAB, 0xC1, 0xC0] 0) [(u8, 3), (u16, 12), (u16, 4), (chr, 2)]).toOption.map (·.2) =
    some [5, 0xABC, 1, 3] := by decide +kernel
-- the little-endian straddling write goes through and drives `remaining` below zero; the big-endian one is refused
example : ((fresh .little [] 0).trace [.write u8 1 5, .write u8 9 4]).map (fun s => (s.2, s.1.remaining)) = [(.done, 3), (.done, -1)] := by
  decide +kernel
example : ((fresh .big [] 0).trace [.write u8 1 5, .write u8 9 4]).map (fun s => (s.2, s.1.remaining)) = [(.done, 3), (.err .value, 3)] := by
  decide +kernel
-- reset drops the partially consumed unit without touching the stream
example : ((fresh .little [0xB5, 0x01] 0).trace [.read u8 3, .reset, .read u8 3]).map (fun s => (s.2, s.1.stream.pos)) =
    [(.val 5, 1), (.done, 1), (.val 1, 2)] := by decide +kernel
example : Fits none 0 [(u8, 3), (u16, 12), (u16, 4), (chr, 2)] := by
  refine ⟨1, rfl, by decide, by decide, 2, rfl, by decide, by decide, 2, rfl, by decide, by decide, 1, rfl, by decide, by decide, trivial⟩

end Cstruct.C06
