/-
  C06 — bit-fields partition their storage unit exactly, in endian-defined order.

  Property theorems only; specification in `Proofs/Spec/C06.lean`, helper lemmas in `Proofs/Lemmas/C06.lean`.
  Model: `BitBuf.take` / `BitBuf.put` in `CstructModel/Val.lean` (bitbuffer.py's read and write with their masks and
  shifts on Python ints, as written) and the bit-field branch of `Fields.layout` in `CstructModel/Ty.lean`
  (`_calculate_size_and_offsets`). How units are loaded, switched and flushed around these steps is part of the
  read/write model (`readFields`/`writeFields`), tied to the code by the correspondence run of this check.
-/
import Proofs.Spec.C06
import Proofs.Lemmas.C06

namespace Cstruct.C06
open Cstruct

/-- **One read step.** From a unit `u` of width `w` with `k` bits used, reading `b ≤ w - k` bits returns exactly the bits
    of the field's slot — least significant end first in little endian, most significant end first in big endian —,
    a value in [0, 2^b), and leaves the buffer describing the same unit with `k + b` bits used. Holds for every integer
    `u`, negative ones (signed storage types) included. -/
theorem c06_take (e : Endian) (w k b : Nat) (u : Int) (bb : BitBuf) (hinv : ReadInv e w u k bb) (hb : k + b ≤ w) :
    ∃ bb', bb.take e b = some (slotVal u (slotLo e w k b) b, bb') ∧ ReadInv e w u (k + b) bb' ∧
      0 ≤ slotVal u (slotLo e w k b) b ∧ slotVal u (slotLo e w k b) b < 2 ^ b := by
  exact Lemmas.take_step e w k b u bb hinv hb

/-- **A straddling read is refused**, it never returns bits of another unit. -/
theorem c06_take_straddle (e : Endian) (bb : BitBuf) (b : Nat) (h : bb.remaining < b) : bb.take e b = none := by
  exact Lemmas.take_straddle e bb b h

/-- **Partition.** The slots of consecutive fields of one unit are pairwise disjoint and lie inside the unit. -/
theorem c06_partition (e : Endian) (w : Nat) (bs : List Nat) (hsum : bs.sum ≤ w) (i j : Nat) (hij : i < j) (hj : j < bs.length) :
    let ks := starts bs 0
    let lo (n : Nat) := slotLo e w (ks.getD n 0) (bs.getD n 0)
    (lo i + bs.getD i 0 ≤ lo j ∨ lo j + bs.getD j 0 ≤ lo i) ∧ lo i + bs.getD i 0 ≤ w ∧ lo j + bs.getD j 0 ≤ w := by
  exact Lemmas.partition e w bs hsum i j hij hj

/-- **A run of reads.** Reading fields of widths `bs` (total ≤ w) from a freshly loaded unit returns, field by field, the
    value of that field's slot. -/
theorem c06_take_all (e : Endian) (w : Nat) (u : Int) (bs : List Nat) (hsum : bs.sum ≤ w) (t : Option Scalar) :
    ∃ bb', takeAll e { ty := t, buffer := u, remaining := w } bs =
      some ((bs.zip (starts bs 0)).map (fun (b, k) => slotVal u (slotLo e w k b) b), bb') ∧
      bb'.remaining = w - bs.sum := by
  exact Lemmas.take_all e w u bs hsum t

/-- **Writing is the inverse of reading.** Putting values that fit their widths (0 ≤ v < 2^b, total width ≤ 8·size) into
    a fresh unit yields a unit value `U` in [0, 2^(8·size)) from which reading the same widths returns exactly those
    values; bits not assigned to any field are zero. -/
theorem c06_put_take (e : Endian) (size : Nat) (fs : List (Int × Nat)) (t : Option Scalar)
    (hfit : ∀ p ∈ fs, 0 ≤ p.1 ∧ p.1 < 2 ^ p.2) (hsum : (fs.map (·.2)).sum ≤ 8 * size) :
    ∃ bb, putAll e size { ty := t, buffer := 0, remaining := 8 * size } fs = some bb ∧
      0 ≤ bb.buffer ∧ bb.buffer < 2 ^ (8 * size) ∧ bb.remaining = 8 * size - (fs.map (·.2)).sum ∧
      (∃ bb', takeAll e { ty := t, buffer := bb.buffer, remaining := 8 * size } (fs.map (·.2)) = some (fs.map (·.1), bb')) ∧
      (match e with
       | .little => bb.buffer < 2 ^ (fs.map (·.2)).sum
       | .big => bb.buffer % (2 ^ (8 * size - (fs.map (·.2)).sum) : Nat) = 0) := by
  exact Lemmas.put_take e size fs t hfit hsum

/-- **Definition time.** A bit-field that does not fit into what is left of the current unit (same storage type, unit
    not exhausted, no offset jump) is rejected with the straddle error; it is never split across units. -/
theorem c06_layout_straddle (cfg : Cfg) (name : String) (an : Bool) (ty : Ty) (b : Nat) (rest : Fields)
    (st : LState) (ft : Scalar) (fsz o bfo : Nat)
    (hbase : ty.bitBase = some ft) (hsz : ft.size = some fsz) (hty : st.bitsType = some ft)
    (hrem : 0 < st.bitsRemaining ∧ st.bitsRemaining < ((b + 1 : Nat) : Int))
    (hoff : st.offset = some o) (hbfo : st.bitsFieldOffset = some bfo) (hnojump : ¬ (o > bfo + fsz)) :
    Fields.layout cfg false (.cons name an ty (some (b + 1)) rest) st = .error .value := by
  exact Lemmas.layout_straddle cfg name an ty b rest st ft fsz o bfo hbase hsz hty hrem hoff hbfo hnojump

/-- **Definition time.** A bit-field of the same storage type that fits continues the current unit: it gets no offset of
    its own, the structure does not grow, and the unit's free bits shrink by its width; a bit-field when the unit is
    exhausted or of another storage type starts a new unit at the current (aligned) offset and grows the structure by
    the unit size. -/
theorem c06_layout_unit (cfg : Cfg) (name : String) (an : Bool) (ty : Ty) (b : Nat) (rest : Fields)
    (st : LState) (ft : Scalar) (fsz o : Nat)
    (hbase : ty.bitBase = some ft) (hsz : ft.size = some fsz) (hoff : st.offset = some o)
    (hfit : (b + 1 : Nat) ≤ 8 * fsz) (hnew : st.bitsRemaining = 0 ∨ st.bitsType ≠ some ft) :
    let st' : LState := ⟨some (o + fsz), max st.alignment (ty.alignment cfg), some ft, some o,
      ((8 * fsz : Nat) : Int) - ((b + 1 : Nat) : Int)⟩
    Fields.layout cfg false (.cons name an ty (some (b + 1)) rest) st =
      (Fields.layout cfg false rest st').map fun (sz, a, offs) => (sz, a, some o :: offs) := by
  exact Lemmas.layout_unit cfg name an ty b rest st ft fsz o hbase hsz hoff hfit hnew

/-! ### Non-vacuity -/
example : (BitBuf.take .little { ty := none, buffer := 0xAB, remaining := 8 } 4) = some (0xB, { ty := none, buffer := 0xA, remaining := 4 }) := by decide +kernel
example : (BitBuf.take .big { ty := none, buffer := 0xAB, remaining := 8 } 4).map (·.1) = some 0xA := by decide +kernel
example : ReadInv .big 8 0xAB 0 { ty := none, buffer := 0xAB, remaining := 8 } := by simp [ReadInv]

end Cstruct.C06
