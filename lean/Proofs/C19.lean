/-
  C19 — utilities: the hex dump is lossless, colour is cosmetic, pack/unpack/swap are inverses.

  Property theorems only; specification-side definitions in `Proofs/Spec/C19.lean`, helper lemmas in
  `Proofs/Lemmas/C19.lean`. Model: `CstructModel/Hexdump.lean` (utils._hexdump's per-byte palette state machine with
  its output as tagged text/colour-code segments; utils.pack/unpack/swap over the codecs of `Codec.lean`).
-/
import Proofs.Spec.C19
import Proofs.Lemmas.C19

namespace Cstruct.Hexdump.C19
open Cstruct Cstruct.Hexdump

/-- **Colour is cosmetic.** For every byte string, every palette (including `None`, the empty palette, zero-length and
    negative-length entries, empty colour strings, palettes shorter or longer than the data) and every offset, the dump
    with the colour-code segments removed is the plain dump: same rows, same running offsets, same hex column, same
    character column. -/
theorem c19_colour_cosmetic (data : Bytes) (palette : Option (List (Int × String))) (offset : Nat) :
    (hexdump data palette offset).map (fun l => (l.offset, stripCodes l.values, stripCodes l.chars))
      = plainDump data offset :=
  Lemmas.colour_cosmetic data palette offset

/-- **Lossless, sixteen per row, in order.** The rows of the plain dump partition the input: concatenated they are the
    input, every row but the last has exactly 16 bytes and the last has between 1 and 16; row `i` carries offset
    `offset + 16 * i`. -/
theorem c19_rows (data : Bytes) (offset : Nat) :
    let rs := rows (data.length + 1) data
    rs.flatten = data ∧ (∀ r ∈ rs, 0 < r.length ∧ r.length ≤ 16) ∧ (∀ r ∈ rs.dropLast, r.length = 16) ∧
    (plainDump data offset).map (·.1) = (List.range rs.length).map (fun i => offset + 16 * i) :=
  Lemmas.rows_spec data offset

/-- **Every byte exactly once.** The hex column of a row reads back to exactly the bytes of the row. -/
theorem c19_hex_column_inverse (row : Bytes) (h : row.length ≤ 16) :
    parseValues 16 0 (plainValues (padRow row) 0).toList = row :=
  Lemmas.hex_column_inverse row h

/-- pack then unpack returns the value: for every width that is a whole number of bytes, both byte orders, every value
    that fits (negative values are packed signed and must be unpacked signed). -/
theorem c19_pack_unpack (v : Int) (n : Nat) (e : Endian) (hn : 0 < n) (h : fits n (decide (v < 0)) v = true) :
    ∃ bs, pack v (some (8 * n)) e = some bs ∧ bs.length = n ∧ unpack bs (some (8 * n)) e (decide (v < 0)) = some v :=
  Lemmas.pack_unpack v n e hn h

/-- unpack then pack returns the bytes, for either signedness. -/
theorem c19_unpack_pack (bs : Bytes) (e : Endian) (s : Bool) (hne : bs ≠ []) :
    ∃ v, unpack bs (some (8 * bs.length)) e s = some v ∧ pack v (some (8 * bs.length)) e = some bs :=
  Lemmas.unpack_pack bs e s hne

/-- pack/unpack agree with the two's-complement codecs of the integer types in the requested byte order; a value that
    does not fit is refused. -/
theorem c19_pack_is_codec (v : Int) (n : Nat) (e : Endian) (hn : 0 < n) :
    pack v (some (8 * n)) e = encodeInt e n (decide (v < 0)) v ∧
    (∀ bs s, bs.length = n → unpack bs (some (8 * n)) e s = some (decodeInt e s bs)) ∧
    (∀ bs s, bs.length ≠ n → unpack bs (some (8 * n)) e s = none) :=
  Lemmas.pack_is_codec v n e hn

/-- Without a size, a non-negative value is packed into as many bytes as it needs and unpacks to itself. -/
theorem c19_pack_auto (v : Int) (e : Endian) (hv : 0 ≤ v) :
    ∃ bs, pack v none e = some bs ∧ unpack bs none e false = some v :=
  Lemmas.pack_auto v e hv

/-- The same for negative values (packed signed, with room for the sign bit: `pack(-129)` takes two bytes). -/
theorem c19_pack_auto_neg (v : Int) (e : Endian) (hv : v < 0) :
    ∃ bs, pack v none e = some bs ∧ unpack bs none e true = some v :=
  Lemmas.pack_auto_neg v e hv

/-- Swapping byte order twice is the identity on every value of the width. -/
theorem c19_swap_involution (v : Int) (n : Nat) (hn : 0 < n) (h0 : 0 ≤ v) (h1 : v < 2 ^ (8 * n)) :
    ∃ w, swap v (8 * n) = some w ∧ 0 ≤ w ∧ w < 2 ^ (8 * n) ∧ swap w (8 * n) = some v :=
  Lemmas.swap_involution v n hn h0 h1

/-! ### Non-vacuity / sanity -/
example : (hexdump [0x41, 0x00, 0xff] (some [(1, "R"), (0, "G"), (5, "B")]) 16).map
    (fun l => (l.offset, (stripCodes l.values).length, stripCodes l.chars, l.chars.length)) = [(16, 49, "A..", 9)] := by decide +kernel
example : swap 0x1234 16 = some 0x3412 := by decide +kernel
example : pack (-2) (some 16) .big = some [0xff, 0xfe] := by decide +kernel

end Cstruct.Hexdump.C19
