/-
  C11 / C01 / C02 for the DUMP of a fixed-size union.

  Property C11: "… the bytes produced by dumping reflect the new bytes of that member and the old bytes elsewhere".
  `UnionMetaType._write` does not write the union's buffer: it writes ONE member — `C11.writtenMember`
  (`Proofs/Spec/C11Dump.lean`): the first of the largest members that are not anonymous structures — and pads with zeros.
  Known finding (F9F10): when that member does not cover every data byte of every member, bytes are lost
  (`c11_dump_loses_witness` below). The theorems here are therefore PARTIAL: they carry the covering hypothesis

      the written member `t` is of fragment SB, `t.size = n` (the union's size) and `maskB cfg t = replicate n 0xFF`
      (no padding byte and no unassigned bit-field bit: every bit of the union's extent is a data bit of `t`)

  and state that under it the dump IS the buffer: parse-then-dump reproduces the consumed bytes (C02), the dump parses back
  to the same value (C01), and after any history of member assignments the dump is the history's buffer, i.e. (with
  `C11.c11_assign_bytes`) the new bytes of every assigned member and the old bytes elsewhere (C11).

  Mode hypotheses as in `C02B.c02_fidelity_SB_gen` / `C09.c09_shift`, which are applied to the written member: one `align`
  flag (the union's), power-of-two alignments, in aligned mode bit-field storage scalars with `size = alignment`, an
  accepted definition, and a dump position that is a multiple of the member's alignments (packed: `alignsDivide` is still
  asked of the position by the reused theorems; it holds for every position when all alignments are 1, and for
  position 0 always — `C01.alignsDivide_zero`).

  Model: the union cases of `read` (`CstructModel/Read.lean`) and `write`/`writeUnion` (`CstructModel/Write.lean`),
  `Union.parse/assign/assignAll` (`CstructModel/Union.lean`). Lemmas: `Proofs/Lemmas/C11Dump{A,B,C}.lean`.
-/
import Proofs.Spec.C11Dump
import Proofs.Lemmas.C11DumpC
import Proofs.C11

namespace Cstruct.C11
open Cstruct Cstruct.Union Cstruct.Core Cstruct.C02B

private theorem nthTy_eq (fs : Fields) (k : Nat) : nthTy fs k = Lemmas.nTy fs k :=
  Lemmas.nTy_unique nthTy (fun _ => rfl) (fun _ _ _ _ _ => rfl) (fun _ _ _ _ _ _ => rfl) fs k

/-- **The dump of a coherent union state is its buffer** (general form): if the member values `vs` are what the buffer
    `buf` parses to, the buffer has at least the union's size `n`, and the written member covers the union, then dumping
    `(buf', vs)` — whatever buffer `buf'` the value carries: the writer never looks at it — at a position `q` gives the
    first `n` bytes of `buf`. -/
theorem c11_dump_coherent (cfg : Cfg) (al : Bool) (fs : Fields) (n k : Nat) (t : Ty)
    (hsz : (Ty.union al fs).size cfg = some n) (hk : writtenMember cfg fs = some k) (ht : nthTy fs k = some t)
    (hS : t.fragSB cfg = true) (hu : t.uniformAlign al = true) (hp : t.pow2Aligned cfg)
    (hn : al = true → t.bitsNatural cfg = true) (hd : t.defErr cfg = none)
    (htn : t.size cfg = some n) (hcov : maskB cfg t = List.replicate n 0xFF)
    (buf : Bytes) (vs : Vals) (hm : readMembers cfg fs [] buf = .ok vs) (hbl : n ≤ buf.length)
    (q : Nat) (hal : t.alignsDivide cfg q = true) (buf' : Bytes) :
    write cfg (.union al fs) (.union buf' vs) q = .ok (buf.take n) := by
  rw [nthTy_eq] at ht
  exact DumpLemmas.dump_of_coherent cfg al fs n k t hsz hk ht hS hu hp hn hd htn hcov buf vs hm hbl q hal buf'

/-- what a successful parse of a union from the middle of an input is -/
private theorem read_union_inv (cfg : Cfg) (al : Bool) (fs : Fields) (n : Nat)
    (hsz : (Ty.union al fs).size cfg = some n) (ctx : Ctx) (pre w post : Bytes) (hw : w.length = n)
    (r : Except Err (Val × Nat)) (hr : read cfg (.union al fs) ctx (pre ++ w ++ post) pre.length = r) :
    r = match readMembers cfg fs [] w with
        | .error e => .error e
        | .ok vs => .ok (.union w vs, pre.length + n) := by
  subst hw
  rw [DumpLemmas.read_union_eq cfg al fs ctx _ _ _ hsz, Core.Lemmas.sread_mid] at hr
  exact hr.symm

/-- **C02 for unions covered by their written member: parse-then-dump reproduces the consumed bytes exactly.**
    If parsing `pre ++ w ++ post` from position `|pre|`, `|w| = n` the union's size, succeeds with the value
    `(buf, vs)` at end position `p`, then the buffer is `w`, `p = |pre| + n`, and dumping the value at the same position
    yields `w`. -/
theorem c11_dump_is_buffer (cfg : Cfg) (al : Bool) (fs : Fields) (n k : Nat) (t : Ty)
    (hsz : (Ty.union al fs).size cfg = some n) (hk : writtenMember cfg fs = some k) (ht : nthTy fs k = some t)
    (hS : t.fragSB cfg = true) (hu : t.uniformAlign al = true) (hp : t.pow2Aligned cfg)
    (hn : al = true → t.bitsNatural cfg = true) (hd : t.defErr cfg = none)
    (htn : t.size cfg = some n) (hcov : maskB cfg t = List.replicate n 0xFF)
    (ctx : Ctx) (pre w post : Bytes) (hw : w.length = n) (hal : t.alignsDivide cfg pre.length = true)
    (buf : Bytes) (vs : Vals) (p : Nat)
    (hr : read cfg (.union al fs) ctx (pre ++ w ++ post) pre.length = .ok (.union buf vs, p)) :
    buf = w ∧ p = pre.length + n ∧ write cfg (.union al fs) (.union buf vs) pre.length = .ok w := by
  have hinv := read_union_inv cfg al fs n hsz ctx pre w post hw _ hr
  split at hinv
  · cases hinv
  · rename_i vs' hm
    cases hinv
    refine ⟨rfl, rfl, ?_⟩
    have := c11_dump_coherent cfg al fs n k t hsz hk ht hS hu hp hn hd htn hcov w vs hm (by omega) pre.length hal w
    rw [List.take_of_length_le (by omega)] at this
    exact this

/-- **C01 for unions covered by their written member: the dump of a parsed value parses back to that value.**
    With `v` the value obtained by parsing, dumping `v` succeeds and its dump `bs`, embedded after any `pre'` and before
    any `post'`, with any context, parses to `v` again and ends exactly after `bs`. -/
theorem c11_roundtrip_covering (cfg : Cfg) (al : Bool) (fs : Fields) (n k : Nat) (t : Ty)
    (hsz : (Ty.union al fs).size cfg = some n) (hk : writtenMember cfg fs = some k) (ht : nthTy fs k = some t)
    (hS : t.fragSB cfg = true) (hu : t.uniformAlign al = true) (hp : t.pow2Aligned cfg)
    (hn : al = true → t.bitsNatural cfg = true) (hd : t.defErr cfg = none)
    (htn : t.size cfg = some n) (hcov : maskB cfg t = List.replicate n 0xFF)
    (ctx : Ctx) (pre w post : Bytes) (hw : w.length = n) (hal : t.alignsDivide cfg pre.length = true)
    (v : Val) (p : Nat) (hr : read cfg (.union al fs) ctx (pre ++ w ++ post) pre.length = .ok (v, p)) :
    ∃ bs, write cfg (.union al fs) v pre.length = .ok bs ∧ bs.length = n ∧
      ∀ (pre' post' : Bytes) (ctx' : Ctx),
        read cfg (.union al fs) ctx' (pre' ++ bs ++ post') pre'.length = .ok (v, pre'.length + bs.length) := by
  have hinv := read_union_inv cfg al fs n hsz ctx pre w post hw _ hr
  split at hinv
  · cases hinv
  · rename_i vs hm
    cases hinv
    obtain ⟨_, _, hwr⟩ := c11_dump_is_buffer cfg al fs n k t hsz hk ht hS hu hp hn hd htn hcov ctx pre w post hw hal
      w vs _ hr
    refine ⟨w, hwr, hw, ?_⟩
    intro pre' post' ctx'
    have := read_union_inv cfg al fs n hsz ctx' pre' w post' hw _ rfl
    rw [this, hm, hw]

/-- **C11 for unions covered by their written member: after any history of member assignments the dump is the history's
    buffer.** Parse a union from a long-enough input, then assign members in any order (`Union.assignAll`); if no
    assignment overflowed the union (`histFits`: the encoding of each assigned member fits the buffer), the final buffer
    still has the union's size and the dump of the final state, at any position `q`, is exactly that buffer — by
    `c11_assign_bytes`, the encoding of the member assigned last followed by the older bytes beyond it, and so on back to
    the parsed bytes: the new bytes of every assigned member and the old bytes elsewhere. -/
theorem c11_history_dump (cfg : Cfg) (al : Bool) (fs : Fields) (n k : Nat) (t : Ty)
    (hsz : (Ty.union al fs).size cfg = some n) (hk : writtenMember cfg fs = some k) (ht : nthTy fs k = some t)
    (hS : t.fragSB cfg = true) (hu : t.uniformAlign al = true) (hp : t.pow2Aligned cfg)
    (hn : al = true → t.bitsNatural cfg = true) (hd : t.defErr cfg = none)
    (htn : t.size cfg = some n) (hcov : maskB cfg t = List.replicate n 0xFF)
    (data : Bytes) (pos : Nat) (hlen : pos + n ≤ data.length) (s0 : UState) (p : Nat)
    (hparse : parse cfg fs n data pos = .ok (s0, p)) (hist : List (Nat × Val)) (s' : UState)
    (hh : assignAll cfg fs s0 hist = .ok s') (hfit : histFits cfg fs s0 hist)
    (q : Nat) (hal : t.alignsDivide cfg q = true) :
    s'.buf.length = n ∧ write cfg (.union al fs) (.union s'.buf s'.vals) q = .ok s'.buf := by
  obtain ⟨_, _, hl0⟩ := c11_parse_size cfg fs n data pos s0 p hparse hlen
  have hc0 := DumpLemmas.parse_coherent cfg fs n data pos s0 p hparse
  have hc := c11_history_coherent cfg fs s0 hist s' hc0 hh
  have hl : s'.buf.length = n := by
    rw [(DumpLemmas.history_length cfg fs hist s0 s' hh).2 hfit, hl0]
  refine ⟨hl, ?_⟩
  have := c11_dump_coherent cfg al fs n k t hsz hk ht hS hu hp hn hd htn hcov s'.buf s'.vals hc (by omega) q hal s'.buf
  rw [List.take_of_length_le (by omega)] at this
  exact this

/-- Without the no-overflow hypothesis the buffer can only have grown, and the dump is its first `n` bytes. -/
theorem c11_history_dump_take (cfg : Cfg) (al : Bool) (fs : Fields) (n k : Nat) (t : Ty)
    (hsz : (Ty.union al fs).size cfg = some n) (hk : writtenMember cfg fs = some k) (ht : nthTy fs k = some t)
    (hS : t.fragSB cfg = true) (hu : t.uniformAlign al = true) (hp : t.pow2Aligned cfg)
    (hn : al = true → t.bitsNatural cfg = true) (hd : t.defErr cfg = none)
    (htn : t.size cfg = some n) (hcov : maskB cfg t = List.replicate n 0xFF)
    (data : Bytes) (pos : Nat) (hlen : pos + n ≤ data.length) (s0 : UState) (p : Nat)
    (hparse : parse cfg fs n data pos = .ok (s0, p)) (hist : List (Nat × Val)) (s' : UState)
    (hh : assignAll cfg fs s0 hist = .ok s') (q : Nat) (hal : t.alignsDivide cfg q = true) :
    n ≤ s'.buf.length ∧ write cfg (.union al fs) (.union s'.buf s'.vals) q = .ok (s'.buf.take n) := by
  obtain ⟨_, _, hl0⟩ := c11_parse_size cfg fs n data pos s0 p hparse hlen
  have hc0 := DumpLemmas.parse_coherent cfg fs n data pos s0 p hparse
  have hc := c11_history_coherent cfg fs s0 hist s' hc0 hh
  have hl : n ≤ s'.buf.length := by
    have := (DumpLemmas.history_length cfg fs hist s0 s' hh).1
    omega
  exact ⟨hl, c11_dump_coherent cfg al fs n k t hsz hk ht hS hu hp hn hd htn hcov s'.buf s'.vals hc hl q hal s'.buf⟩

/-- **One assignment, spelled out**: on a coherent state whose buffer has the union's size, after `u.member_j = x` the
    dump is the encoding of that member followed by the old buffer bytes beyond it (when the encoding fits the union). -/
theorem c11_assign_dump (cfg : Cfg) (al : Bool) (fs : Fields) (n k : Nat) (t : Ty)
    (hsz : (Ty.union al fs).size cfg = some n) (hk : writtenMember cfg fs = some k) (ht : nthTy fs k = some t)
    (hS : t.fragSB cfg = true) (hu : t.uniformAlign al = true) (hp : t.pow2Aligned cfg)
    (hn : al = true → t.bitsNatural cfg = true) (hd : t.defErr cfg = none)
    (htn : t.size cfg = some n) (hcov : maskB cfg t = List.replicate n 0xFF)
    (s : UState) (hlen : s.buf.length = n) (j : Nat) (x : Val) (s' : UState)
    (h : assign cfg fs s j x = .ok s') (q : Nat) (hal : t.alignsDivide cfg q = true) :
    ∃ enc, writeMemberRaw cfg fs (setNth s.vals j x) j 0 = .ok enc ∧
      (enc.length ≤ n →
        write cfg (.union al fs) (.union s'.buf s'.vals) q = .ok (enc ++ s.buf.drop enc.length)) := by
  obtain ⟨enc, hw, hb, hm⟩ := Lemmas.assign_ok cfg fs s j x s' h
  refine ⟨enc, hw, fun hle => ?_⟩
  have hl : s'.buf.length = n := by
    rw [hb, List.length_append, List.length_drop]; omega
  have := c11_dump_coherent cfg al fs n k t hsz hk ht hS hu hp hn hd htn hcov s'.buf s'.vals hm (by omega) q hal s'.buf
  rw [List.take_of_length_le (by omega), hb] at this
  rw [hb]
  exact this

/-- the buffer of a history never shrinks, and keeps the union's size when no assignment overflows -/
theorem c11_history_length (cfg : Cfg) (fs : Fields) (s : UState) (hist : List (Nat × Val)) (s' : UState)
    (h : assignAll cfg fs s hist = .ok s') :
    s.buf.length ≤ s'.buf.length ∧ (histFits cfg fs s hist → s'.buf.length = s.buf.length) :=
  DumpLemmas.history_length cfg fs hist s s' h

/-- **What the dump is in general** (no covering hypothesis): the encoding of the written member, zero-padded to the
    union's size (when that member writes something, or is the anonymous-structure fallback). -/
theorem c11_dump_written (cfg : Cfg) (al : Bool) (fs : Fields) (buf : Bytes) (vs : Vals) (pos n : Nat)
    (hsz : (Ty.union al fs).size cfg = some n) (hlen : vs.length = fs.length) (k : Nat) (t : Ty)
    (hk : writtenMember cfg fs = some k) (ht : nthTy fs k = some t) (body : Bytes)
    (hw : writeMemberRaw cfg fs vs k pos = .ok body) (hb : body ≠ []) :
    write cfg (.union al fs) (.union buf vs) pos = .ok (body ++ zeros (n - body.length)) := by
  rw [nthTy_eq] at ht
  exact DumpLemmas.write_union_written cfg al fs buf vs pos n hsz hlen k t hk ht body hw (fun _ => hb)

/-! ### The covering hypothesis cannot be dropped (the recorded finding F9F10)
  `union { struct { uint32 a; uint32 b; }; uint32 c; }` with an anonymous structure member, packed, little endian:
  the written member is `c` (the anonymous structure is skipped), which covers only the first 4 of the 8 bytes. -/
namespace Ex
open Cstruct.Core.Lemmas

def cfgL : Cfg := { endian := .little, ptr := .pint 4 false, ptrAlign := 4, consts := [] }
def cfgB : Cfg := { endian := .big, ptr := .pint 4 false, ptrAlign := 4, consts := [] }
def u8 : Ty := .sc (.pint 1 false) 1
def u16 : Ty := .sc (.pint 2 false) 2
def u32 : Ty := .sc (.pint 4 false) 4
/-- `struct { uint32 a; uint32 b; }` -/
def sAB : Ty := .struct false (.cons "a" false u32 none (.cons "b" false u32 none .nil))
/-- `union { struct { uint32 a; uint32 b; }; uint32 c; }` -/
def fsW : Fields := .cons "_anon" true sAB none (.cons "c" false u32 none .nil)
def tyW : Ty := .union false fsW
def w8 : Bytes := [0, 1, 2, 3, 4, 5, 6, 7]

example : writtenMember cfgL fsW = some 1 ∧ tyW.size cfgL = some 8 ∧ u32.size cfgL = some 4 := by decide +kernel

/-- **Negative witness.** Parsing the bytes `00 01 02 03 04 05 06 07` as
    `union { struct { uint32 a; uint32 b; }; uint32 c; }` succeeds and consumes 8 bytes; dumping the parsed value gives
    `00 01 02 03 00 00 00 00`: the bytes of `b` are lost. (Outside the covering hypothesis: the written member `c` has
    size 4 ≠ 8.) -/
theorem dump_loses (ctx : Ctx) (post : Bytes) :
    ∃ vs, read cfgL tyW ctx (w8 ++ post) 0 = .ok (.union w8 vs, 8) ∧
      write cfgL tyW (.union w8 vs) 0 = .ok [0, 1, 2, 3, 0, 0, 0, 0] ∧
      ([0, 1, 2, 3, 0, 0, 0, 0] : Bytes) ≠ w8 := by
  have hsz : (Ty.union false fsW).size cfgL = some 8 := by decide +kernel
  obtain ⟨va, hra, _⟩ := C02B.read_size_SB_packed cfgL sAB (by decide +kernel) (by decide +kernel) (by decide +kernel)
    [] w8 0 8 (by decide +kernel) (by decide)
  have hrc : ∀ ctx', read cfgL u32 ctx' w8 0 = .ok (.int 0x03020100, 4) := by
    intro ctx'
    rw [u32, read_sc]
    rfl
  have hm : readMembers cfgL fsW [] w8 = .ok (.cons va (.cons (.int 0x03020100) .nil)) := by
    rw [fsW, Lemmas.readMembers_cons, hra]
    simp only
    rw [Lemmas.readMembers_cons, hrc]
    simp only [Lemmas.readMembers_nil]
  refine ⟨.cons va (.cons (.int 0x03020100) .nil), ?_, ?_, by decide⟩
  · have := read_union_inv cfgL false fsW 8 hsz ctx [] w8 post rfl _ rfl
    rw [hm] at this
    exact this
  · have hw : writeMemberRaw cfgL fsW (.cons va (.cons (.int 0x03020100) .nil)) 1 0 = .ok [0, 1, 2, 3] := by
      rw [fsW, Lemmas.writeMemberRaw_succ, Lemmas.writeMemberRaw_zero, u32, write_sc]
      decide +kernel
    have := c11_dump_written cfgL false fsW w8 _ 0 8 hsz rfl 1 u32 (by decide +kernel) rfl _ hw (by decide)
    exact this

/-! ### Non-vacuity: `union { uint32 a; uint8 b[4]; uint16 c[2]; }`, packed and aligned
  The written member is `a` (the first of the three largest members), a `uint32`: fragment SB, size 4 = the union's size,
  mask `ff ff ff ff`. -/

def fsE : Fields := .cons "a" false u32 none (.cons "b" false (.arr u8 (.fixed 4)) none
  (.cons "c" false (.arr u16 (.fixed 2)) none .nil))

example (al : Bool) : (Ty.union al fsE).size cfgL = some 4 ∧ writtenMember cfgL fsE = some 0 ∧
    u32.fragSB cfgL = true ∧ u32.uniformAlign al = true ∧ u32.bitsNatural cfgL = true ∧ u32.defErr cfgL = none ∧
    u32.size cfgL = some 4 ∧ maskB cfgL u32 = List.replicate 4 0xFF := by
  cases al <;> decide +kernel
example : nthTy fsE 0 = some u32 := rfl

theorem ex_size (cfg : Cfg) (al : Bool) : (Ty.union al fsE).size cfg = some 4 := by
  cases al
  · rfl
  · have h : (Ty.union true fsE).size cfg = some (4 + padNat 4 4) := rfl
    rw [h]
    decide +kernel

/-- every 4-byte input parses (packed or aligned, any configuration) … -/
theorem ex_read (cfg : Cfg) (al : Bool) (ctx : Ctx) (pre w post : Bytes) (hw : w.length = 4) :
    ∃ vs, read cfg (.union al fsE) ctx (pre ++ w ++ post) pre.length = .ok (.union w vs, pre.length + 4) := by
  have hp8 : (Ty.arr u8 (.fixed 4)).pow2Aligned cfg := Or.inr ⟨0, rfl⟩
  have hp16 : (Ty.arr u16 (.fixed 2)).pow2Aligned cfg := Or.inr ⟨1, rfl⟩
  have hp32 : u32.pow2Aligned cfg := Or.inr ⟨2, rfl⟩
  obtain ⟨va, ha, _⟩ := C02B.read_size_SB cfg al u32 rfl rfl hp32 (fun _ => rfl) rfl [] w 0 4 rfl (by omega) rfl
  obtain ⟨vb, hb, _⟩ := C02B.read_size_SB cfg al (.arr u8 (.fixed 4)) rfl rfl hp8 (fun _ => rfl) rfl
    (Ctx.set [] "a" va) w 0 4 rfl (by omega) rfl
  obtain ⟨vc, hc, _⟩ := C02B.read_size_SB cfg al (.arr u16 (.fixed 2)) rfl rfl hp16 (fun _ => rfl) rfl
    (Ctx.set (Ctx.set [] "a" va) "b" vb) w 0 4 rfl (by omega) rfl
  have hm : readMembers cfg fsE [] w = .ok (.cons va (.cons vb (.cons vc .nil))) := by
    rw [fsE, Lemmas.readMembers_cons, ha]
    simp only
    rw [Lemmas.readMembers_cons, hb]
    simp only
    rw [Lemmas.readMembers_cons, hc]
    simp only [Lemmas.readMembers_nil]
  have := read_union_inv cfg al fsE 4 (ex_size cfg al) ctx pre w post hw _ rfl
  rw [hm] at this
  exact ⟨_, this⟩

/-- … and parse-then-dump at a position that is a multiple of 4 gives back the four bytes, whatever they are -/
theorem ex_dump (cfg : Cfg) (al : Bool) (ctx : Ctx) (pre w post : Bytes) (hw : w.length = 4)
    (hpre : pre.length % 4 = 0) :
    ∃ vs, read cfg (.union al fsE) ctx (pre ++ w ++ post) pre.length = .ok (.union w vs, pre.length + 4) ∧
      write cfg (.union al fsE) (.union w vs) pre.length = .ok w := by
  obtain ⟨vs, hr⟩ := ex_read cfg al ctx pre w post hw
  refine ⟨vs, hr, ?_⟩
  exact (c11_dump_is_buffer cfg al fsE 4 0 u32 (ex_size cfg al) rfl rfl rfl rfl (Or.inr ⟨2, rfl⟩)
    (fun _ => rfl) rfl rfl rfl ctx pre w post hw (by simp [u32, Ty.alignsDivide, hpre]) w vs _ hr).2.2

/-- concretely: `de ad be ef` at position 4 of an aligned union, little endian -/
example : ∃ vs, read cfgL (.union true fsE) [] ([9, 9, 9, 9] ++ [0xde, 0xad, 0xbe, 0xef] ++ [1, 2]) 4 =
      .ok (.union [0xde, 0xad, 0xbe, 0xef] vs, 8) ∧
    write cfgL (.union true fsE) (.union [0xde, 0xad, 0xbe, 0xef] vs) 4 = .ok [0xde, 0xad, 0xbe, 0xef] :=
  ex_dump cfgL true [] [9, 9, 9, 9] [0xde, 0xad, 0xbe, 0xef] [1, 2] rfl rfl

/-- a union of anonymous structures only: `union { struct { uint16 x; uint16 y; }; struct { uint32 z; }; }` is dumped
    through the LAST of its (equally large) members -/
example : writtenMember cfgL (.cons "_1" true (.struct false (.cons "x" false u16 none (.cons "y" false u16 none .nil))) none
    (.cons "_2" true (.struct false (.cons "z" false u32 none .nil)) none .nil)) = some 1 := by decide +kernel

/-- `union { uint16 s; uint8 b[4]; uint32 a; }`: the largest members are `b` and `a`; the first of them is written -/
example : writtenMember cfgL (.cons "s" false u16 none (.cons "b" false (.arr u8 (.fixed 4)) none
    (.cons "a" false u32 none .nil))) = some 1 := by decide +kernel

/-- a member with unassigned bits does not cover: `union { struct S { uint16 f:3; uint16 g:4; uint8 h; } s; }` has mask
    `7f 00 ff`, not `ff ff ff` -/
example : maskB cfgL (.struct false (.cons "f" false u16 (some 3) (.cons "g" false u16 (some 4) (.cons "h" false u8 none .nil))))
    ≠ List.replicate 3 0xFF := by decide +kernel

end Ex

/-- **Negative witness** (`Ex.dump_loses`, restated at top level): for
    `union { struct { uint32 a; uint32 b; }; uint32 c; }` (anonymous structure member; packed, little endian) parsing the
    bytes `00 01 02 03 04 05 06 07` succeeds, consumes 8 bytes, and dumping the parsed value gives
    `00 01 02 03 00 00 00 00` ≠ the input: the covering hypothesis of the theorems above cannot be dropped. -/
theorem c11_dump_loses_witness (ctx : Ctx) (post : Bytes) :
    ∃ vs, read Ex.cfgL Ex.tyW ctx ([0, 1, 2, 3, 4, 5, 6, 7] ++ post) 0 = .ok (.union [0, 1, 2, 3, 4, 5, 6, 7] vs, 8) ∧
      write Ex.cfgL Ex.tyW (.union [0, 1, 2, 3, 4, 5, 6, 7] vs) 0 = .ok [0, 1, 2, 3, 0, 0, 0, 0] ∧
      ([0, 1, 2, 3, 0, 0, 0, 0] : Bytes) ≠ [0, 1, 2, 3, 4, 5, 6, 7] :=
  Ex.dump_loses ctx post

end Cstruct.C11
