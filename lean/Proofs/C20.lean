/-
  C20 — generated type stubs: property theorems over the model `CstructModel/Stubgen.lean`.

  The model emits typed lines; that each line shape is a Python statement is checked per generated case with
  `ast.parse` on the real text (the model's rendering is compared with it character by character).  What is
  proved here, for every input:

  * `c20_declared_names`   — the names bound in the body of the stub class are exactly the user constants followed
                             by, per user typedef in table order, the typedef's key (alias lines) or its class name
                             (class stubs); under `Canonical` (class-defining typedefs are registered under their
                             class name — what `cstruct.load` produces) that is exactly constants ++ typedef keys.
  * `c20_nothing_extra`    — unconditionally, every bound name is a user constant, a user typedef key or the class
                             name of a user typedef.
  * `c20_blocks_wellformed`— indentation discipline Python's parser needs: the line after every `class …:` header is
                             one level deeper, no other line is deeper than its predecessor (blank lines aside), the
                             first line is at level 0; needs only that enums have at least one member.
  * `c20_fields_hinted`    — a structure stub annotates exactly the structure's fields, in order, each with
                             `generate_typehint` of the field's type, the keyword `__init__` overload repeats them,
                             and the hint *denotes* the field's type (`HintDenotes`: same array/pointer nesting, same
                             leaf class name).
  * `c20_bound_names_from_input` — every identifier the stub binds anywhere (class names, annotated names, enum
                             members, parameters) is a name that occurs in the input, so if those are Python
                             identifiers so are all binding positions.
-/
import Proofs.Lemmas.C20

namespace Cstruct.Stubgen.C20
open Cstruct.Stubgen

theorem c20_declared_names (inp : Input) (ls : List ILine) (h : generate inp = .ok ls) :
    declaredTop ls = inp.consts.map (·.1) ++ expectedTypeNames inp := by
  exact declared_names inp ls h

theorem c20_declared_names_canonical (inp : Input) (ls : List ILine) (h : generate inp = .ok ls)
    (hc : Canonical inp) :
    declaredTop ls = inp.consts.map (·.1) ++ (userTypedefs inp).map (·.1) := by
  rw [declared_names inp ls h, expectedTypeNames_canonical inp hc]

theorem c20_nothing_extra (inp : Input) (ls : List ILine) (h : generate inp = .ok ls) :
    ∀ n ∈ declaredTop ls, n ∈ inp.consts.map (·.1) ∨ n ∈ (userTypedefs inp).map (·.1) ∨
      n ∈ (userTypedefs inp).filterMap (fun p => p.2.name?) := by
  exact nothing_extra inp ls h

theorem c20_blocks_wellformed (inp : Input) (ls : List ILine) (h : generate inp = .ok ls)
    (he : EnumsNonEmpty inp) :
    BlocksOK (ls.filter (fun l => l.line ≠ .blank)) := by
  exact blocks_wellformed inp ls h he

theorem c20_fields_hinted (keys : List String) (cp mp n b : String) (fs : SFields) :
    fieldDecls (structStub keys cp mp n b fs) = fs.args keys cp mp ∧
    initArgs (structStub keys cp mp n b fs) = [fs.args keys cp mp] ∧
    ∀ f t, SFields.Mem f t fs → HintDenotes (fieldHint keys cp mp t) t := by
  exact ⟨fieldDecls_structStub keys cp mp n b fs, initArgs_structStub keys cp mp n b fs,
    fun f t _ => hint_denotes _ mp t⟩

theorem c20_bound_names_from_input (P : String → Prop) (inp : Input) (ls : List ILine)
    (h : generate inp = .ok ls) (hP : ∀ n ∈ inputNames inp, P n) :
    ∀ l ∈ ls, ∀ n ∈ boundNames l.line, P n := by
  exact bound_names_from_input P inp ls h hP

-- non-vacuity: a concrete input meets the hypotheses and generates
example : ∃ ls, generate sampleInput = .ok ls ∧ Canonical sampleInput ∧ EnumsNonEmpty sampleInput ∧
    declaredTop ls = ["K", "E", "S", "PS", "T"] := by
  refine ⟨_, rfl, ?_, ?_, ?_⟩ <;> decide

end Cstruct.Stubgen.C20
