/-
  C07 — null-terminated arrays `e[]` over EVERY element kind of the model (generalising `c07_nullterm_int`,
  `c07_nullterm_char`, `c07_nullterm_write` of `Proofs/C07.lean`).

  Specification: `Proofs/Spec/C07Null.lean` (`Reads` = the successive element reads, `StopsAt` / `FailsAt` / `RunsOn`,
  `elemRead`, `isTerminator`, `packElems`, `Progress`). Lemmas: `Proofs/Lemmas/C07Null.lean`, `C07NullRT.lean`, `C07NullProgA.lean`, `C07NullProgB.lean`.
  Model: `read0`, `readScalarNullTerm`, `readScalar0`, `readUntilFalsy` (`CstructModel/Read.lean`), `write`/`writeN`,
  `Ty.default` (`CstructModel/Write.lean`), `Val.truthy` (`CstructModel/Val.lean`).

  What the model (and the Python code) does per element kind of `e[]`:
    * fixed-width / arbitrary-width / LEB128 integers, floats: `while (v := cls._read(stream)) != 0` — stop at value zero
      (floats: `+0.0` and `-0.0`);
    * `char` / `wchar`: stop at the byte `00` / the code unit `00 00`; the `wchar` units are decoded together at the end;
    * enums / flags: the loop of the underlying integer type, every element wrapped afterwards;
    * structures / unions: `while obj := cls._read(stream)` — stop at the first value whose `__bool__` is false;
    * `void`: `[void]` without reading; pointers and arrays as elements: `NotImplementedError`.
  The model's loops carry a bound of `len(data) - pos + 2` element reads; `c07_nullterm_bounded` states the result for every
  input with that bound explicit, `c07_nullterm_general` shows that the bound is never reached when every non-terminator
  element consumes input (`Progress`), which holds for all scalar and enum elements (`c07_nullterm_progress_scalar`).
-/
import Proofs.Spec.C07Null
import Proofs.Lemmas.C07Null
import Proofs.Lemmas.C07NullRT
import Proofs.Lemmas.C07NullProgB

namespace Cstruct.C07
open Cstruct

/-- **`e[]` for every input, with the model's bound explicit.** For every element type with a `_read_0` loop (every scalar
    but `void`, enums over integers, structures, unions), every context, input and start position:
    * the read returns `(v, q)` exactly when the elements read successively from `pos` are some `vs`, none of them a
      terminator, the next element is a terminator whose read ends at `q` (it is consumed), `v` is the array value made of
      `vs`, and `vs` has at most `len(data) - pos + 1` elements;
    * the read fails with `er` exactly when an element read fails with `er` before any terminator (after at most that many
      elements), or the terminator is found but the collected `wchar` units do not decode (`er` = UnicodeDecodeError), or —
      `er = EOFError` — `len(data) - pos + 2` elements were read none of which is a terminator (only possible for
      elements that consume no input; the Python loop does not terminate in that case). -/
theorem c07_nullterm_bounded (cfg : Cfg) (e : Ty) (ctx : Ctx) (d : Bytes) (pos : Nat) (he : nullLoopElem e = true) :
    (∀ v q, read cfg (.arr e .nullTerm) ctx d pos = .ok (v, q) ↔
      ∃ vs, StopsAt (elemRead cfg e ctx d) (isTerminator e) pos vs q ∧ vs.length ≤ d.length - pos + 1 ∧
        packElems cfg e vs = .ok v) ∧
    (∀ er, read cfg (.arr e .nullTerm) ctx d pos = .error er ↔
      (∃ vs, FailsAt (elemRead cfg e ctx d) (isTerminator e) pos vs er ∧ vs.length ≤ d.length - pos + 1) ∨
      (∃ vs q, StopsAt (elemRead cfg e ctx d) (isTerminator e) pos vs q ∧ vs.length ≤ d.length - pos + 1 ∧
        packElems cfg e vs = .error er) ∨
      (er = .eof ∧ RunsOn (elemRead cfg e ctx d) (isTerminator e) pos (d.length - pos + 2))) := by
  rw [Core.Lemmas.read_arr_null, Lemmas.read0_eq_loop cfg e ctx d pos he]
  constructor
  · intro v q
    constructor
    · intro h
      cases hl : Lemmas.loop (elemRead cfg e ctx d) (isTerminator e) (d.length - pos + 2) pos with
      | error er => rw [hl] at h; cases h
      | ok r =>
        obtain ⟨vs, q'⟩ := r
        rw [hl] at h
        simp only [Lemmas.packRes] at h
        cases hp : packElems cfg e vs with
        | error er => rw [hp] at h; cases h
        | ok v' =>
          rw [hp] at h
          cases h
          obtain ⟨h1, h2⟩ := (Lemmas.loop_ok_iff _ _ _ _).1 hl
          exact ⟨vs, h1, by omega, hp⟩
    · rintro ⟨vs, h1, h2, h3⟩
      rw [(Lemmas.loop_ok_iff _ _ _ _).2 ⟨h1, by omega⟩]
      simp only [Lemmas.packRes, h3]
  · intro er
    constructor
    · intro h
      cases hl : Lemmas.loop (elemRead cfg e ctx d) (isTerminator e) (d.length - pos + 2) pos with
      | error er' =>
        rw [hl] at h
        cases h
        rcases (Lemmas.loop_err_iff _ _ _).1 hl with ⟨vs, h1, h2⟩ | ⟨h1, h2⟩
        · exact .inl ⟨vs, h1, by omega⟩
        · exact .inr (.inr ⟨h1, h2⟩)
      | ok r =>
        obtain ⟨vs, q'⟩ := r
        rw [hl] at h
        simp only [Lemmas.packRes] at h
        cases hp : packElems cfg e vs with
        | ok v' => rw [hp] at h; cases h
        | error er' =>
          rw [hp] at h
          cases h
          obtain ⟨h1, h2⟩ := (Lemmas.loop_ok_iff _ _ _ _).1 hl
          exact .inr (.inl ⟨vs, q', h1, by omega, hp⟩)
    · rintro (⟨vs, h1, h2⟩ | ⟨vs, q, h1, h2, h3⟩ | ⟨h1, h2⟩)
      · rw [(Lemmas.loop_err_iff _ _ _).2 (.inl ⟨vs, h1, by omega⟩)]; rfl
      · rw [(Lemmas.loop_ok_iff _ _ _ _).2 ⟨h1, by omega⟩]
        simp only [Lemmas.packRes, h3]
      · rw [(Lemmas.loop_err_iff _ _ _).2 (.inr ⟨h1, h2⟩)]; rfl

/-- **`e[]`: the array stops at and consumes the first terminator element** — for every element type with a `_read_0`
    loop, every context, input and start position, provided every non-terminator element consumes input (`Progress`; it
    holds for every scalar and enum element, see `c07_nullterm_scalar`):
    * the read returns `(v, q)` exactly when the elements read successively from `pos` (each where the previous one ended)
      are some `vs`, none of them a terminator, followed by a terminator element whose read ends at `q`, and `v` is the
      array value made of `vs` — the terminator is consumed and is not part of the value, nothing behind it is touched;
    * the read fails with `er` exactly when an element read fails with `er` before any terminator was found — in
      particular an input that ends first gives the element reader's EOFError, never a partial array — or, for `wchar`,
      when the units before the terminator do not decode. -/
theorem c07_nullterm_general (cfg : Cfg) (e : Ty) (ctx : Ctx) (d : Bytes) (pos : Nat) (he : nullLoopElem e = true)
    (hprog : Progress cfg e ctx d) :
    (∀ v q, read cfg (.arr e .nullTerm) ctx d pos = .ok (v, q) ↔
      ∃ vs, StopsAt (elemRead cfg e ctx d) (isTerminator e) pos vs q ∧ packElems cfg e vs = .ok v) ∧
    (∀ er, read cfg (.arr e .nullTerm) ctx d pos = .error er ↔
      (∃ vs, FailsAt (elemRead cfg e ctx d) (isTerminator e) pos vs er) ∨
      (∃ vs q, StopsAt (elemRead cfg e ctx d) (isTerminator e) pos vs q ∧ packElems cfg e vs = .error er)) := by
  have hb := fun vs p' hr hn => (Lemmas.reads_progress (L := d.length) hprog vs pos p' hr hn).2
  obtain ⟨h1, h2⟩ := c07_nullterm_bounded cfg e ctx d pos he
  constructor
  · intro v q
    rw [h1]
    constructor
    · rintro ⟨vs, hs, _, hp⟩; exact ⟨vs, hs, hp⟩
    · rintro ⟨vs, hs, hp⟩
      obtain ⟨p', t, hr, hn, _⟩ := id hs
      exact ⟨vs, hs, by have := hb vs p' hr hn; omega, hp⟩
  · intro er
    rw [h2]
    constructor
    · rintro (⟨vs, hf, _⟩ | ⟨vs, q, hs, _, hp⟩ | ⟨_, vs, p', hr, hn, hl⟩)
      · exact .inl ⟨vs, hf⟩
      · exact .inr ⟨vs, q, hs, hp⟩
      · have := hb vs p' hr hn; omega
    · rintro (⟨vs, hf⟩ | ⟨vs, q, hs, hp⟩)
      · obtain ⟨p', hr, hn, _⟩ := id hf
        exact .inl ⟨vs, hf, by have := hb vs p' hr hn; omega⟩
      · obtain ⟨p', t, hr, hn, _⟩ := id hs
        exact .inr (.inl ⟨vs, q, hs, by have := hb vs p' hr hn; omega, hp⟩)

/-- **The decomposition is unique**: the successive element reads from a position determine the elements before the first
    terminator and the position behind it; and a run cannot both reach a terminator and fail before one. -/
theorem c07_nullterm_deterministic (rd : Nat → Except Err (Val × Nat)) (term : Val → Bool) (p : Nat)
    (vs : List Val) (q : Nat) (hs : StopsAt rd term p vs q) :
    (∀ vs' q', StopsAt rd term p vs' q' → vs' = vs ∧ q' = q) ∧ (∀ vs' er, ¬ FailsAt rd term p vs' er) := by
  constructor
  · intro vs' q' hs'
    have h1 := (Lemmas.loop_ok_iff (vs.length + vs'.length + 1) p vs q).2 ⟨hs, by omega⟩
    have h2 := (Lemmas.loop_ok_iff (vs.length + vs'.length + 1) p vs' q').2 ⟨hs', by omega⟩
    rw [h1] at h2
    cases h2
    exact ⟨rfl, rfl⟩
  · intro vs' er hf
    have h1 := (Lemmas.loop_ok_iff (vs.length + vs'.length + 1) p vs q).2 ⟨hs, by omega⟩
    have h2 := (Lemmas.loop_err_iff (vs.length + vs'.length + 1) p er).2 (.inl ⟨vs', hf, by omega⟩)
    rw [h1] at h2
    cases h2

/-- **Every scalar and enum element makes progress**: an element that is not the terminator was read from inside the
    input and ends behind its start (a width-0 integer or float can only be zero). -/
theorem c07_nullterm_progress_scalar (cfg : Cfg) (e : Ty) (ctx : Ctx) (d : Bytes) (he : scalarElem e = true) :
    Progress cfg e ctx d :=
  Lemmas.progress_scalar cfg e ctx d he

/-- **Scalar and enum elements, every input** (integers of any width and signedness, fixed or LEB128; floats; `char`;
    `wchar`; enums and flags over integers): the statement of `c07_nullterm_general` without any hypothesis, and the only
    errors are EOFError — the input ended before a terminator was found — and, for `wchar`, UnicodeDecodeError. -/
theorem c07_nullterm_scalar (cfg : Cfg) (e : Ty) (ctx : Ctx) (d : Bytes) (pos : Nat) (he : scalarElem e = true) :
    (∀ v q, read cfg (.arr e .nullTerm) ctx d pos = .ok (v, q) ↔
      ∃ vs, StopsAt (elemRead cfg e ctx d) (isTerminator e) pos vs q ∧ packElems cfg e vs = .ok v) ∧
    (∀ er, read cfg (.arr e .nullTerm) ctx d pos = .error er ↔
      (er = .eof ∧ ∃ vs, FailsAt (elemRead cfg e ctx d) (isTerminator e) pos vs .eof) ∨
      (er = .unicode ∧ (∃ a, e = .sc .wchar a) ∧
        ∃ vs q, StopsAt (elemRead cfg e ctx d) (isTerminator e) pos vs q ∧ packElems cfg e vs = .error .unicode)) := by
  obtain ⟨h1, h2⟩ := c07_nullterm_general cfg e ctx d pos (Lemmas.nullLoopElem_of_scalar he)
    (Lemmas.progress_scalar cfg e ctx d he)
  refine ⟨h1, fun er => ?_⟩
  rw [h2]
  constructor
  · rintro (⟨vs, hf⟩ | ⟨vs, q, hs, hp⟩)
    · obtain ⟨p', hr, hn, hrd⟩ := hf
      cases Lemmas.elemRead_scalar_err cfg e ctx d p' er he hrd
      exact .inl ⟨rfl, vs, p', hr, hn, hrd⟩
    · obtain ⟨hw, rfl⟩ := Lemmas.packElems_err cfg e vs er hp
      exact .inr ⟨rfl, hw, vs, q, hs, hp⟩
  · rintro (⟨rfl, vs, hf⟩ | ⟨rfl, _, vs, q, hs, hp⟩)
    · exact .inl ⟨vs, hf⟩
    · exact .inr ⟨vs, q, hs, hp⟩

/-- **`void[]`** does not read anything: the value is `[void]` and the position is unchanged. -/
theorem c07_nullterm_void (cfg : Cfg) (a : Nat) (ctx : Ctx) (d : Bytes) (pos : Nat) :
    read cfg (.arr (.sc .void a) .nullTerm) ctx d pos = .ok (.list (.cons .void .nil), pos) := by
  rw [Core.Lemmas.read_arr_null, Lemmas.read0_sc]
  simp [readScalarNullTerm, readScalar0, Vals.ofList]

/-- **Pointers and arrays as elements of `x[]` are refused**: `MetaType._read_0` raises NotImplementedError. -/
theorem c07_nullterm_unsupported (cfg : Cfg) (ctx : Ctx) (d : Bytes) (pos : Nat) :
    (∀ t, read cfg (.arr (.ptr t) .nullTerm) ctx d pos = .error .notImpl) ∧
    (∀ e len, read cfg (.arr (.arr e len) .nullTerm) ctx d pos = .error .notImpl) := by
  constructor
  · intro t; rw [Core.Lemmas.read_arr_null, read0.eq_5] <;> (intros; rename_i h; cases h)
  · intro e len; rw [Core.Lemmas.read_arr_null, read0.eq_5] <;> (intros; rename_i h; cases h)

/-! ### Which element is the terminator -/

/-- **Which element ends `e[]`**, per element kind — the test of the model's loops, as `c07_nullterm_bounded` /
    `c07_nullterm_general` show (`isTerminator` is what they stop at):
    integers of any width and signedness, fixed or LEB128: the value `0`; floats: the bit patterns of `+0.0` and `-0.0`;
    `char`: the byte `00`; `wchar`: the code unit `00 00` (whatever the byte order); enums / flags: the value `0`
    (whether or not it is a named member); structures and unions: the value is false (`not obj`). -/
theorem c07_nullterm_truthiness :
    (∀ n sg a i, isTerminator (.sc (.pint n sg) a) (.int i) = true ↔ i = 0) ∧
    (∀ n sg a i, isTerminator (.sc (.aint n sg) a) (.int i) = true ↔ i = 0) ∧
    (∀ sg a i, isTerminator (.sc (.leb sg) a) (.int i) = true ↔ i = 0) ∧
    (∀ n a b, isTerminator (.sc (.pflt n) a) (.flt b) = true ↔ b = 0 ∨ b = 2 ^ (8 * n - 1)) ∧
    (∀ a b, isTerminator (.sc .char a) (.bytes b) = true ↔ b = [0]) ∧
    (∀ a b, isTerminator (.sc .wchar a) (.bytes b) = true ↔ b = [0, 0]) ∧
    (∀ b a f i, isTerminator (.enum b a f) (.enum i) = true ↔ i = 0) ∧
    (∀ al fs v, isTerminator (.struct al fs) v = true ↔ v.truthy = false) ∧
    (∀ al fs v, isTerminator (.union al fs) v = true ↔ v.truthy = false) := by
  refine ⟨?_, ?_, ?_, ?_, ?_, ?_, ?_, ?_, ?_⟩ <;> intros <;> simp [isTerminator]

/-- **Truthiness of a parsed value** (`__bool__`), which decides where a null-terminated array of structures or unions
    stops: integers, enum / flag members and pointers are true when non-zero; a float when its bit pattern is not `+0.0`
    (the model does NOT treat `-0.0` as false); a byte string / wide string when non-empty — so a `char` or `wchar` FIELD
    is always true, even `b"\\x00"`; `void` is false; a list (array) when non-empty, whatever its elements; a structure or
    union exactly when some field is true — it is false exactly when ALL its fields are false. -/
theorem c07_truthy_rules :
    (∀ i, (Val.int i).truthy = true ↔ i ≠ 0) ∧
    (∀ i, (Val.enum i).truthy = true ↔ i ≠ 0) ∧
    (∀ i, (Val.ptr i).truthy = true ↔ i ≠ 0) ∧
    (∀ b, (Val.flt b).truthy = true ↔ b ≠ 0) ∧
    (∀ b, (Val.bytes b).truthy = true ↔ b ≠ []) ∧
    (∀ u, (Val.wstr u).truthy = true ↔ u ≠ []) ∧
    (Val.void.truthy = false) ∧
    (∀ vs, (Val.list vs).truthy = true ↔ vs ≠ .nil) ∧
    (∀ fs, (Val.record fs).truthy = false ↔ ∀ v ∈ fs.toList, v.truthy = false) ∧
    (∀ buf fs, (Val.union buf fs).truthy = false ↔ ∀ v ∈ fs.toList, v.truthy = false) := by
  refine ⟨?_, ?_, ?_, ?_, ?_, ?_, ?_, ?_, ?_, ?_⟩
  · intro i; simp [Val.truthy]
  · intro i; simp [Val.truthy]
  · intro i; simp [Val.truthy]
  · intro b; simp [Val.truthy]
  · intro b; cases b <;> simp [Val.truthy]
  · intro u; cases u <;> simp [Val.truthy]
  · simp [Val.truthy]
  · intro vs; cases vs <;> simp [Val.truthy]
  · intro fs; simp only [Val.truthy]; exact Lemmas.anyTruthy_false fs
  · intro buf fs; simp only [Val.truthy]; exact Lemmas.anyTruthy_false fs

/-- so a null-terminated array of structures stops at the first structure all of whose fields are false -/
theorem c07_nullterm_struct_terminator (al : Bool) (fs : Fields) (vs : Vals) :
    isTerminator (.struct al fs) (.record vs) = true ↔ ∀ v ∈ vs.toList, v.truthy = false := by
  rw [c07_nullterm_truthiness.2.2.2.2.2.2.2.1, c07_truthy_rules.2.2.2.2.2.2.2.2.1]

/-! ### The writer -/

/-- **The terminator that `_write_0` appends is the default value of the element type**: integer `0`, float `+0.0`,
    `b"\\x00"`, `"\\x00"`, the enum value `0`, the null pointer, the structure / union of the defaults of its fields. -/
theorem c07_nullterm_terminator (cfg : Cfg) :
    (∀ n sg a, (Ty.sc (.pint n sg) a).default cfg = .int 0) ∧
    (∀ n sg a, (Ty.sc (.aint n sg) a).default cfg = .int 0) ∧
    (∀ sg a, (Ty.sc (.leb sg) a).default cfg = .int 0) ∧
    (∀ n a, (Ty.sc (.pflt n) a).default cfg = .flt 0) ∧
    (∀ a, (Ty.sc .char a).default cfg = .bytes [0]) ∧
    (∀ a, (Ty.sc .wchar a).default cfg = .wstr [0]) ∧
    (∀ b a f, (Ty.enum b a f).default cfg = .enum 0) ∧
    (∀ t, (Ty.ptr t).default cfg = .ptr 0) ∧
    (∀ al fs, (Ty.struct al fs).default cfg = .record (Fields.defaults cfg fs)) ∧
    (∀ al fs, (Ty.union al fs).default cfg = .union [] (Fields.defaults cfg fs)) := by
  refine ⟨?_, ?_, ?_, ?_, ?_, ?_, ?_, ?_, ?_, ?_⟩ <;> intros <;> simp [Ty.default, scalarDefault]

/-- **Dumping `e[]` writes the elements, then one terminator element** — for every element type: the output is the
    elements written one after the other (each at the position where the previous one ended) followed by the element
    type's default value written as one more element; a `char[]` byte string is followed by one NUL byte, a `wchar[]`
    string by one zero code unit (encoded with the string). The writer does not look at the elements: an element equal to
    the terminator is written like any other (see `c07_nullterm_write_truncates`). -/
theorem c07_nullterm_write_general (cfg : Cfg) (e : Ty) (vs : List Val) (pos : Nat) :
    write cfg (.arr e .nullTerm) (.list (Vals.ofList vs)) pos =
      ((writeN cfg e (Vals.ofList vs) pos).bind fun body =>
        (write cfg e (e.default cfg) (pos + body.length)).bind fun t => .ok (body ++ t)) ∧
    (∀ a b, write cfg (.arr (.sc .char a) .nullTerm) (.bytes b) pos = .ok (b ++ [0])) ∧
    (∀ a us, write cfg (.arr (.sc .wchar a) .nullTerm) (.wstr us) pos = encodeWchar cfg.endian (us ++ [0])) := by
  refine ⟨Lemmas.write_null_list cfg e vs pos, fun a b => Lemmas.write_arr_null_chars cfg a b pos, fun a us => ?_⟩
  rw [write]

/-- **Round trip of `e[]`** for list-valued arrays (every element kind but `char` / `wchar`, whose arrays are strings and
    are covered by `Core.roundtrip_D_packed`). If dumping the list `vs` succeeded, every element of `vs` and the terminator
    (the element type's default value) round-trip as single elements, NO element of `vs` is a terminator, the default
    value IS a terminator, and the output is not shorter than the number of elements minus one (every element takes at
    least a byte — automatic for scalar and enum elements, see `c07_nullterm_roundtrip_scalar`), then parsing the output
    returns `vs` and ends right behind the written terminator. -/
theorem c07_nullterm_roundtrip (cfg : Cfg) (e : Ty) (ctx : Ctx) (vs : List Val) (pos : Nat) (bs : Bytes)
    (he : nullLoopElem e = true) (hc : ∀ a, e ≠ .sc .char a) (hwc : ∀ a, e ≠ .sc .wchar a)
    (hw : write cfg (.arr e .nullTerm) (.list (Vals.ofList vs)) pos = .ok bs)
    (hrt : ∀ v, (v ∈ vs ∨ v = e.default cfg) → ∀ p b, write cfg e v p = .ok b → ∀ pre' post' : Bytes, pre'.length = p →
      read cfg e ctx (pre' ++ b ++ post') p = .ok (v, p + b.length))
    (hnt : ∀ v ∈ vs, isTerminator e v = false) (ht : isTerminator e (e.default cfg) = true)
    (hlen : vs.length ≤ bs.length + 1)
    (pre post : Bytes) (hpre : pre.length = pos) :
    read cfg (.arr e .nullTerm) ctx (pre ++ bs ++ post) pos = .ok (.list (Vals.ofList vs), pos + bs.length) := by
  rw [Lemmas.write_null_list] at hw
  obtain ⟨body, h1, h2⟩ := Core.Lemmas.bind_ok hw
  obtain ⟨tb, h3, h4⟩ := Core.Lemmas.bind_ok h2
  cases h4
  have hel : elemRead cfg e ctx (pre ++ (body ++ tb) ++ post) = read cfg e ctx (pre ++ (body ++ tb) ++ post) := by
    funext p
    unfold elemRead
    split
    · exact absurd rfl (hwc _)
    · rfl
  rw [(c07_nullterm_bounded cfg e ctx _ pos he).1]
  refine ⟨vs, ⟨pos + body.length, e.default cfg, ?_, hnt, ?_, ht⟩, ?_, ?_⟩
  · rw [hel]
    have e1 : pre ++ (body ++ tb) ++ post = pre ++ body ++ (tb ++ post) := by simp only [List.append_assoc]
    rw [e1]
    exact Lemmas.reads_of_writeN cfg e ctx vs pos body h1 (fun v hv => hrt v (.inl hv)) pre (tb ++ post) hpre
  · rw [hel]
    have e1 : pre ++ (body ++ tb) ++ post = (pre ++ body) ++ tb ++ post := by simp only [List.append_assoc]
    rw [e1, List.length_append, ← Nat.add_assoc]
    exact hrt _ (.inr rfl) _ _ h3 (pre ++ body) post (by rw [List.length_append, hpre])
  · simp only [List.length_append] at hlen ⊢
    omega
  · unfold packElems
    split
    · exact absurd rfl (hc _)
    · exact absurd rfl (hwc _)
    · rfl

/-- **A list containing a terminator element does NOT round-trip**: the writer writes it like any other element, and the
    reader stops at the FIRST terminator — it returns only the elements before it and ends right behind it, in the middle
    of the written bytes. (Same hypotheses on the single elements as `c07_nullterm_roundtrip`.) -/
theorem c07_nullterm_write_truncates (cfg : Cfg) (e : Ty) (ctx : Ctx) (xs : List Val) (z : Val) (ys : List Val)
    (pos : Nat) (bs : Bytes)
    (he : nullLoopElem e = true) (hc : ∀ a, e ≠ .sc .char a) (hwc : ∀ a, e ≠ .sc .wchar a)
    (hw : write cfg (.arr e .nullTerm) (.list (Vals.ofList (xs ++ z :: ys))) pos = .ok bs)
    (hrt : ∀ v, (v ∈ xs ∨ v = z) → ∀ p b, write cfg e v p = .ok b → ∀ pre' post' : Bytes, pre'.length = p →
      read cfg e ctx (pre' ++ b ++ post') p = .ok (v, p + b.length))
    (hnt : ∀ v ∈ xs, isTerminator e v = false) (hz : isTerminator e z = true)
    (hlen : xs.length ≤ bs.length + 1)
    (pre post : Bytes) (hpre : pre.length = pos) :
    ∃ bx bz rest, bs = bx ++ bz ++ rest ∧ writeN cfg e (Vals.ofList xs) pos = .ok bx ∧
      write cfg e z (pos + bx.length) = .ok bz ∧
      read cfg (.arr e .nullTerm) ctx (pre ++ bs ++ post) pos =
        .ok (.list (Vals.ofList xs), pos + bx.length + bz.length) ∧
      Vals.ofList xs ≠ Vals.ofList (xs ++ z :: ys) := by
  rw [Lemmas.write_null_list] at hw
  obtain ⟨body, h1, h2⟩ := Core.Lemmas.bind_ok hw
  obtain ⟨tb, h3, h4⟩ := Core.Lemmas.bind_ok h2
  cases h4
  rw [Lemmas.writeN_app] at h1
  obtain ⟨bx, h5, h6⟩ := Core.Lemmas.bind_ok h1
  obtain ⟨byz, h7, h8⟩ := Core.Lemmas.bind_ok h6
  cases h8
  have h7' : writeN cfg e (Vals.ofList ([z] ++ ys)) (pos + bx.length) = .ok byz := h7
  rw [Lemmas.writeN_app, Lemmas.writeN_single] at h7'
  obtain ⟨bz, h9, h10⟩ := Core.Lemmas.bind_ok h7'
  obtain ⟨by', h11, h12⟩ := Core.Lemmas.bind_ok h10
  cases h12
  refine ⟨bx, bz, by' ++ tb, by simp only [List.append_assoc], h5, h9, ?_, ?_⟩
  · have hel : ∀ dd, elemRead cfg e ctx dd = read cfg e ctx dd := by
      intro dd
      funext p
      unfold elemRead
      split
      · exact absurd rfl (hwc _)
      · rfl
    rw [(c07_nullterm_bounded cfg e ctx _ pos he).1]
    refine ⟨xs, ⟨pos + bx.length, z, ?_, hnt, ?_, hz⟩, ?_, ?_⟩
    · rw [hel]
      have e1 : pre ++ (bx ++ (bz ++ by') ++ tb) ++ post = pre ++ bx ++ (bz ++ by' ++ tb ++ post) := by
        simp only [List.append_assoc]
      rw [e1]
      exact Lemmas.reads_of_writeN cfg e ctx xs pos bx h5 (fun v hv => hrt v (.inl hv)) pre _ hpre
    · rw [hel]
      have e1 : pre ++ (bx ++ (bz ++ by') ++ tb) ++ post = (pre ++ bx) ++ bz ++ (by' ++ tb ++ post) := by
        simp only [List.append_assoc]
      rw [e1]
      exact hrt _ (.inr rfl) _ _ h9 (pre ++ bx) _ (by rw [List.length_append, hpre])
    · simp only [List.length_append] at hlen ⊢
      omega
    · unfold packElems
      split
      · exact absurd rfl (hc _)
      · exact absurd rfl (hwc _)
      · rfl
  · intro h
    have := congrArg Vals.length h
    simp only [Lemmas.ofList_length, List.length_append, List.length_cons] at this
    omega

/-- **Round trip of `e[]` over scalar and enum elements** (integers of any width, LEB128, floats, enums / flags): a list of
    values of the element type none of which is zero, once dumped, parses back to the same list, the parse ending behind
    the written terminator. The ONLY side condition is "no element is the terminator" (`c07_nullterm_write_truncates`
    shows it is needed). -/
theorem c07_nullterm_roundtrip_scalar (cfg : Cfg) (e : Ty) (ctx : Ctx) (vs : List Val) (pos : Nat) (bs : Bytes)
    (he : scalarElem e = true) (hc : ∀ a, e ≠ .sc .char a) (hwc : ∀ a, e ≠ .sc .wchar a)
    (hw : write cfg (.arr e .nullTerm) (.list (Vals.ofList vs)) pos = .ok bs)
    (hty : ∀ v ∈ vs, Core.HasTyD cfg ctx v e) (hnt : ∀ v ∈ vs, isTerminator e v = false)
    (pre post : Bytes) (hpre : pre.length = pos) :
    read cfg (.arr e .nullTerm) ctx (pre ++ bs ++ post) pos = .ok (.list (Vals.ofList vs), pos + bs.length) := by
  obtain ⟨hS, hu⟩ := Lemmas.fragD_scalar cfg e he
  obtain ⟨hdt, hdz⟩ := Lemmas.default_scalar cfg ctx e he hc hwc
  have hrt : ∀ v, (v ∈ vs ∨ v = e.default cfg) → ∀ p b, write cfg e v p = .ok b → ∀ pre' post' : Bytes,
      pre'.length = p → read cfg e ctx (pre' ++ b ++ post') p = .ok (v, p + b.length) := by
    intro v hv p b hwv pre' post' hp
    have hvt : Core.HasTyD cfg ctx v e := by
      rcases hv with hv | rfl
      · exact hty v hv
      · exact hdt
    exact Core.roundtrip_D_packed cfg e hS hu ctx v hvt p b hwv pre' post' hp
  refine c07_nullterm_roundtrip cfg e ctx vs pos bs (Lemmas.nullLoopElem_of_scalar he) hc hwc hw hrt hnt hdz ?_
    pre post hpre
  -- every non-terminator element takes at least one byte
  have hw' := hw
  rw [Lemmas.write_null_list] at hw'
  obtain ⟨body, h1, h2⟩ := Core.Lemmas.bind_ok hw'
  obtain ⟨tb, _, h4⟩ := Core.Lemmas.bind_ok h2
  cases h4
  have := Lemmas.writeN_length_ge cfg e vs pos body h1 (by
    intro v hv p b hwv
    have hr := hrt v (.inl hv) p b hwv (List.replicate p 0) [] (by simp)
    have hel : elemRead cfg e ctx (List.replicate p 0 ++ b ++ []) p = .ok (v, p + b.length) := by
      unfold elemRead
      split
      · exact absurd rfl (hwc _)
      · exact hr
    have := (Lemmas.progress_scalar cfg e ctx _ he p v _ hel (hnt v hv)).1
    omega)
  simp only [List.length_append]
  omega

/-- **Round trip of a null-terminated array of packed structures** (element type in fragment D, `Core.HasTyD`): a list of
    values of the structure type, each of them true, dumps and parses back to itself — provided the terminator the writer
    appends (the structure of the default values of the fields) is false, which FAILS as soon as the structure has a
    `char` / `wchar` field or a non-empty fixed-length array field (their defaults `b"\\x00"`, `[0, …]` are true): such an
    array can be written but reading it back never finds the terminator. -/
theorem c07_nullterm_roundtrip_struct_packed (cfg : Cfg) (fs : Fields) (ctx : Ctx) (vs : List Val) (pos : Nat) (bs : Bytes)
    (hS : (Ty.struct false fs).fragD cfg = true) (hu : (Ty.struct false fs).uniformAlign false = true)
    (hw : write cfg (.arr (.struct false fs) .nullTerm) (.list (Vals.ofList vs)) pos = .ok bs)
    (hty : ∀ v ∈ vs, Core.HasTyD cfg ctx v (.struct false fs)) (htr : ∀ v ∈ vs, v.truthy = true)
    (hdt : Core.HasTyD cfg ctx ((Ty.struct false fs).default cfg) (.struct false fs))
    (hdz : ((Ty.struct false fs).default cfg).truthy = false)
    (hlen : vs.length ≤ bs.length + 1)
    (pre post : Bytes) (hpre : pre.length = pos) :
    read cfg (.arr (.struct false fs) .nullTerm) ctx (pre ++ bs ++ post) pos =
      .ok (.list (Vals.ofList vs), pos + bs.length) := by
  refine c07_nullterm_roundtrip cfg _ ctx vs pos bs rfl (by intros; intro h; cases h) (by intros; intro h; cases h) hw
    ?_ ?_ ?_ hlen pre post hpre
  · intro v hv p b hwv pre' post' hp
    have hvt : Core.HasTyD cfg ctx v (.struct false fs) := by
      rcases hv with hv | rfl
      · exact hty v hv
      · exact hdt
    exact Core.roundtrip_D_packed cfg _ hS hu ctx v hvt p b hwv pre' post' hp
  · intro v hv
    simp [isTerminator, htr v hv]
  · simp [isTerminator, hdz]

/-! ### Structures and unions as elements -/

/-- **No read ever ends before its start**, whatever the type, context, input and position (seeks to layout offsets, bit
    buffers, alignment padding, unions and all array forms included); this is what makes "nothing behind the terminator
    is touched" and the progress argument meaningful for arbitrary structure members. -/
theorem c07_reads_forward (cfg : Cfg) (t : Ty) (ctx : Ctx) (d : Bytes) (p : Nat) (v : Val) (q : Nat)
    (h : read cfg t ctx d p = .ok (v, q)) : p ≤ q :=
  Lemmas.fwd_ty cfg t ctx d p v q h

/-- **Structures and unions of the class `consumes` make progress** (`Proofs/Spec/C07Null.lean`): the structure has a
    member, not a bit-field, of non-zero declared size that always takes at least one byte — a scalar, enum or pointer of
    non-zero width, a LEB128 integer, a non-empty fixed-length array or a null-terminated array of such, a nested
    structure / union of the class; the other members are arbitrary (bit-fields, `x[expr]`, `x[EOF]`, `void`, …). A union
    is in the class when its first member is. -/
theorem c07_nullterm_progress_struct (cfg : Cfg) (e : Ty) (ctx : Ctx) (d : Bytes) (hs : isStructLike e = true)
    (hc : consumes cfg e = true) : Progress cfg e ctx d :=
  Lemmas.progress_consumes cfg e ctx d hs hc

/-- **Null-terminated arrays of structures / unions, every input**: for element types of the class `consumes` the
    statement of `c07_nullterm_general` holds without hypothesis — the array is the structures read one after the other up
    to, not including, the first one whose value is false (all fields false), which is consumed; if a structure cannot be
    read before that (typically: the input ends, EOFError) the whole read fails with that error. -/
theorem c07_nullterm_struct (cfg : Cfg) (e : Ty) (ctx : Ctx) (d : Bytes) (pos : Nat) (hs : isStructLike e = true)
    (hc : consumes cfg e = true) :
    (∀ v q, read cfg (.arr e .nullTerm) ctx d pos = .ok (v, q) ↔
      ∃ vs, StopsAt (read cfg e ctx d) (fun v => !v.truthy) pos vs q ∧ v = .list (Vals.ofList vs)) ∧
    (∀ er, read cfg (.arr e .nullTerm) ctx d pos = .error er ↔
      ∃ vs, FailsAt (read cfg e ctx d) (fun v => !v.truthy) pos vs er) := by
  have he : nullLoopElem e = true := by cases e <;> first | rfl | simp [isStructLike] at hs
  have h1 : elemRead cfg e ctx d = read cfg e ctx d := by
    funext p; cases e <;> first | rfl | simp [isStructLike] at hs
  have h2 : isTerminator e = fun v => !v.truthy := by
    funext v; cases e <;> first | (cases v <;> rfl) | simp [isStructLike] at hs
  have h3 : ∀ vs, packElems cfg e vs = .ok (.list (Vals.ofList vs)) := by
    intro vs; cases e <;> first | rfl | simp [isStructLike] at hs
  obtain ⟨g1, g2⟩ := c07_nullterm_general cfg e ctx d pos he (Lemmas.progress_consumes cfg e ctx d hs hc)
  rw [h1, h2] at g1 g2
  constructor
  · intro v q
    rw [g1]
    constructor
    · rintro ⟨vs, hs', hp⟩; rw [h3] at hp; cases hp; exact ⟨vs, hs', rfl⟩
    · rintro ⟨vs, hs', rfl⟩; exact ⟨vs, hs', h3 vs⟩
  · intro er
    rw [g2]
    constructor
    · rintro (h | ⟨vs, q, _, hp⟩)
      · exact h
      · rw [h3] at hp; cases hp
    · intro h; exact .inl h

/-- **A structure with a `char` member first is never false**, so a null-terminated array of such structures never
    terminates normally: every read fails (EOFError once the input is exhausted) — although the writer happily appends an
    all-zero structure as terminator. The same holds wherever the `char` / `wchar` member or a non-empty fixed-length
    array member stands (`c07_truthy_rules`: a non-empty byte string / list is true); the first position keeps the proof
    short. -/
theorem c07_nullterm_struct_char_never_stops (cfg : Cfg) (al : Bool) (name : String) (an : Bool) (a : Nat) (rest : Fields)
    (ctx : Ctx) (d : Bytes) (pos : Nat) (v : Val) (q : Nat) :
    read cfg (.arr (.struct al (.cons name an (.sc .char a) none rest)) .nullTerm) ctx d pos ≠ .ok (v, q) := by
  intro h
  obtain ⟨vs, ⟨p', t, _, _, hrd, ht⟩, _⟩ := (c07_nullterm_bounded cfg _ ctx d pos rfl).1 v q |>.1 h
  have hrd' : read cfg (.struct al (.cons name an (.sc .char a) none rest)) ctx d p' = .ok (t, q) := hrd
  rw [Core.Lemmas.read_struct] at hrd'
  obtain ⟨⟨sz, salign, offs⟩, _, h2⟩ := Core.Lemmas.bind_ok hrd'
  obtain ⟨⟨fvs, szs, q'⟩, h3, h4⟩ := Core.Lemmas.bind_ok h2
  rw [Core.Lemmas.readFields_cons_nobits _ _ _ _ _ _ _ _ _ _ _ _ _ rfl, Core.Lemmas.read_sc] at h3
  obtain ⟨⟨v1, p1⟩, h5, h6⟩ := Core.Lemmas.bind_ok h3
  obtain ⟨⟨vs', szs', q''⟩, _, h8⟩ := Core.Lemmas.bind_ok h6
  simp only [readScalar, bind, pure] at h5
  obtain ⟨⟨bs, q1⟩, h9, h10⟩ := Core.Lemmas.bind_ok h5
  obtain ⟨_, hl, _⟩ := Lemmas.readExact_adv h9
  cases h10
  cases h8
  simp only [Except.ok.injEq, Prod.mk.injEq] at h4
  obtain ⟨rfl, _⟩ := h4
  have : (Val.record (.cons (.bytes bs) vs')).truthy = true := by
    cases bs with
    | nil => simp at hl
    | cons x r => simp [Val.truthy, Vals.anyTruthy]
  simp [isTerminator, this] at ht

end Cstruct.C07

namespace Cstruct.C07.Ex
open Cstruct Cstruct.C07

/-! ### Non-vacuity: concrete inputs
  `read` is defined by well-founded recursion, so `decide` cannot evaluate it; the theorems above reduce `e[]` to single
  element reads, which are evaluated with `decide +kernel` (`DecidableEq` on values is derived here for that purpose). -/

deriving instance DecidableEq for Cstruct.Val, Cstruct.Vals

def cfgL : Cfg := { endian := .little, ptr := .pint 4 false, ptrAlign := 4, consts := [] }

/-- `wchar s[]` on `h\0 i\0 \0\0 ff ff` (little endian) is `"hi"` and ends at 6, behind the terminating unit -/
example : read cfgL (.arr (.sc .wchar 2) .nullTerm) [] [104, 0, 105, 0, 0, 0, 0xFF, 0xFF] 0 = .ok (.wstr [104, 105], 6) := by
  refine ((c07_nullterm_scalar cfgL _ [] _ 0 rfl).1 _ _).2
    ⟨[.bytes [104, 0], .bytes [105, 0]], ⟨4, .bytes [0, 0], ?_, by decide, by decide +kernel, by decide⟩, by decide +kernel⟩
  exact .cons (p' := 2) (by decide +kernel) (.cons (p' := 4) (by decide +kernel) .nil)

def enumE : Ty := .enum (.pint 2 false) 2 false
/-- `E x[]` for an enum over `uint16`: `0001 1234 0000 09` is `[E(1), E(0x1234)]`, the read ends at 6 -/
example : read cfgL (.arr enumE .nullTerm) [] [1, 0, 0x34, 0x12, 0, 0, 9] 0 =
    .ok (.list (.cons (.enum 1) (.cons (.enum 0x1234) .nil)), 6) := by
  refine ((c07_nullterm_scalar cfgL enumE [] _ 0 rfl).1 _ _).2
    ⟨[.enum 1, .enum 0x1234], ⟨4, .enum 0, ?_, by decide, ?_, by decide⟩, rfl⟩
  · exact .cons (p' := 2) (by rw [enumE, Lemmas.elemRead_enum]; decide +kernel)
      (.cons (p' := 4) (by rw [enumE, Lemmas.elemRead_enum]; decide +kernel) .nil)
  · rw [enumE, Lemmas.elemRead_enum]; decide +kernel

def uleb : Ty := .sc (.leb false) 1
/-- `uleb128 x[]`: `e5 8e 26 | 7f | 00 | aa` is `[624485, 127]`, the read ends at 5 -/
example : read cfgL (.arr uleb .nullTerm) [] [0xE5, 0x8E, 0x26, 0x7F, 0x00, 0xAA] 0 =
    .ok (.list (.cons (.int 624485) (.cons (.int 127) .nil)), 5) := by
  refine ((c07_nullterm_scalar cfgL uleb [] _ 0 rfl).1 _ _).2
    ⟨[.int 624485, .int 127], ⟨4, .int 0, ?_, by decide, ?_, by decide⟩, rfl⟩
  · exact .cons (p' := 3) (by rw [uleb, Lemmas.elemRead_sc _ _ _ _ _ _ (by decide)]; decide +kernel)
      (.cons (p' := 4) (by rw [uleb, Lemmas.elemRead_sc _ _ _ _ _ _ (by decide)]; decide +kernel) .nil)
  · rw [uleb, Lemmas.elemRead_sc _ _ _ _ _ _ (by decide)]; decide +kernel

def f32 : Ty := .sc (.pflt 4) 4
/-- `float x[]`: `1.0f` followed by `-0.0f` (`00 00 00 80`): the negative zero terminates the array -/
example : read cfgL (.arr f32 .nullTerm) [] [0, 0, 0x80, 0x3F, 0, 0, 0, 0x80, 7] 0 =
    .ok (.list (.cons (.flt 0x3F800000) .nil), 8) := by
  refine ((c07_nullterm_scalar cfgL f32 [] _ 0 rfl).1 _ _).2
    ⟨[.flt 0x3F800000], ⟨4, .flt 0x80000000, ?_, by decide, ?_, by decide⟩, rfl⟩
  · exact .cons (p' := 4) (by rw [f32, Lemmas.elemRead_sc _ _ _ _ _ _ (by decide)]; decide +kernel) .nil
  · rw [f32, Lemmas.elemRead_sc _ _ _ _ _ _ (by decide)]; decide +kernel

def u8 : Ty := .sc (.pint 1 false) 1
/-- an input that ends before a zero element is EOFError, not the partial array `[1, 2, 3]` -/
example : read cfgL (.arr u8 .nullTerm) [] [1, 2, 3] 0 = .error .eof := by
  refine ((c07_nullterm_scalar cfgL u8 [] _ 0 rfl).2 _).2 (.inl ⟨rfl, [.int 1, .int 2, .int 3], 3, ?_, by decide, ?_⟩)
  · exact .cons (p' := 1) (by rw [u8, Lemmas.elemRead_sc _ _ _ _ _ _ (by decide)]; decide +kernel)
      (.cons (p' := 2) (by rw [u8, Lemmas.elemRead_sc _ _ _ _ _ _ (by decide)]; decide +kernel)
        (.cons (p' := 3) (by rw [u8, Lemmas.elemRead_sc _ _ _ _ _ _ (by decide)]; decide +kernel) .nil))
  · rw [u8, Lemmas.elemRead_sc _ _ _ _ _ _ (by decide)]; decide +kernel

def u16 : Ty := .sc (.pint 2 false) 2
/-- `struct { uint8 a; uint16 b; }`, packed -/
def tyS : Ty := .struct false (.cons "a" false u8 none (.cons "b" false u16 none .nil))

theorem read_tyS (ctx : Ctx) (d : Bytes) (p : Nat) :
    read cfgL tyS ctx d p =
      match readScalar cfgL (.pint 1 false) d p with
      | .error e => .error e
      | .ok (va, _) =>
        match readScalar cfgL (.pint 2 false) d (p + 1) with
        | .error e => .error e
        | .ok (vb, q) => .ok (.record (.cons va (.cons vb .nil)), q) := by
  have hl : structLayout cfgL false (.cons "a" false u8 none (.cons "b" false u16 none .nil)) =
      .ok (some 3, 2, [some 0, some 1]) := by decide +kernel
  rw [tyS, Core.Lemmas.read_struct, hl]
  simp only [Except.bind]
  rw [Core.Lemmas.readFields_cons_nobits _ _ _ _ _ _ _ _ _ _ _ _ _ rfl, u8, Core.Lemmas.read_sc]
  simp only [Core.Lemmas.fieldPos, List.head?_cons, Option.join_some, Option.isNone_some, Bool.false_eq_true, and_false,
    if_false, Nat.add_zero, List.drop_succ_cons, List.drop_zero]
  cases readScalar cfgL (.pint 1 false) d p with
  | error e => rfl
  | ok r =>
    obtain ⟨va, p1⟩ := r
    simp only [Except.bind]
    rw [Core.Lemmas.readFields_cons_nobits _ _ _ _ _ _ _ _ _ _ _ _ _ rfl, u16, Core.Lemmas.read_sc]
    simp only [Core.Lemmas.fieldPos, List.head?_cons, Option.join_some, Option.isNone_some, Bool.false_eq_true,
      and_false, if_false, List.drop_succ_cons, List.drop_zero]
    cases readScalar cfgL (.pint 2 false) d (p + 1) with
    | error e => rfl
    | ok r2 =>
      obtain ⟨vb, q⟩ := r2
      simp only [Except.bind]
      rw [Core.Lemmas.readFields_nil]

/-- `struct { uint8 a; uint16 b; } x[]` on `01 0200 | 00 0500 | 00 0000 | ee`: two structures — the second one has
    `a = 0` but `b = 5`, so it is true —, then the all-zero structure, which is consumed: the read ends at 9 -/
example : read cfgL (.arr tyS .nullTerm) [] [1, 2, 0, 0, 5, 0, 0, 0, 0, 0xEE] 0 =
    .ok (.list (.cons (.record (.cons (.int 1) (.cons (.int 2) .nil)))
      (.cons (.record (.cons (.int 0) (.cons (.int 5) .nil))) .nil)), 9) := by
  have hc : consumes cfgL tyS = true := by decide +kernel
  refine ((c07_nullterm_struct cfgL tyS [] _ 0 rfl hc).1 _ _).2
    ⟨[.record (.cons (.int 1) (.cons (.int 2) .nil)), .record (.cons (.int 0) (.cons (.int 5) .nil))],
      ⟨6, .record (.cons (.int 0) (.cons (.int 0) .nil)), ?_, by decide, ?_, by decide⟩, rfl⟩
  · exact .cons (p' := 3) (by rw [read_tyS]; decide +kernel) (.cons (p' := 6) (by rw [read_tyS]; decide +kernel) .nil)
  · rw [read_tyS]; decide +kernel

/-- the same input cut behind the second structure: EOFError, not the two structures read so far -/
example : read cfgL (.arr tyS .nullTerm) [] [1, 2, 0, 0, 5, 0] 0 = .error .eof := by
  have hc : consumes cfgL tyS = true := by decide +kernel
  refine ((c07_nullterm_struct cfgL tyS [] _ 0 rfl hc).2 _).2
    ⟨[.record (.cons (.int 1) (.cons (.int 2) .nil)), .record (.cons (.int 0) (.cons (.int 5) .nil))], 6, ?_, by decide, ?_⟩
  · exact .cons (p' := 3) (by rw [read_tyS]; decide +kernel) (.cons (p' := 6) (by rw [read_tyS]; decide +kernel) .nil)
  · rw [read_tyS]; decide +kernel

/-- the writer appends the zero element whatever the list contains, the reader stops at the FIRST zero:
    `[1, 0, 2]` is written as `01 00 02 00` and read back as `[1]`, ending at 2 -/
example : write cfgL (.arr u8 .nullTerm) (.list (Vals.ofList [.int 1, .int 0, .int 2])) 0 = .ok [1, 0, 2, 0] ∧
    read cfgL (.arr u8 .nullTerm) [] [1, 0, 2, 0] 0 = .ok (.list (Vals.ofList [.int 1]), 2) := by
  constructor
  · have h : ∀ i pos, write cfgL u8 (.int i) pos = writeScalar cfgL (.pint 1 false) (.int i) := by
      intro i pos; rw [u8, Core.Lemmas.write_sc]
    have hd : u8.default cfgL = .int 0 := (c07_nullterm_terminator cfgL).1 _ _ _
    rw [(c07_nullterm_write_general cfgL u8 _ 0).1, hd]
    simp only [Vals.ofList]
    rw [Core.Lemmas.writeN_cons, h]
    have e1 : writeScalar cfgL (.pint 1 false) (.int 1) = .ok [1] := by decide +kernel
    have e0 : writeScalar cfgL (.pint 1 false) (.int 0) = .ok [0] := by decide +kernel
    have e2 : writeScalar cfgL (.pint 1 false) (.int 2) = .ok [2] := by decide +kernel
    simp only [e1, Except.bind]
    rw [Core.Lemmas.writeN_cons, h]
    simp only [e0, Except.bind]
    rw [Core.Lemmas.writeN_cons, h]
    simp only [e2, Except.bind]
    rw [Core.Lemmas.writeN_nil]
    simp only [h, e0, List.append_nil, List.cons_append, List.nil_append]
  · refine ((c07_nullterm_scalar cfgL u8 [] _ 0 rfl).1 _ _).2 ⟨[.int 1], ⟨1, .int 0, ?_, by decide, ?_, by decide⟩, rfl⟩
    · exact .cons (p' := 1) (by rw [u8, Lemmas.elemRead_sc _ _ _ _ _ _ (by decide)]; decide +kernel) .nil
    · rw [u8, Lemmas.elemRead_sc _ _ _ _ _ _ (by decide)]; decide +kernel

theorem write_tyS (a b : Int) (pos : Nat) :
    write cfgL tyS (.record (.cons (.int a) (.cons (.int b) .nil))) pos =
      (writeScalar cfgL (.pint 1 false) (.int a)).bind fun x =>
        (writeScalar cfgL (.pint 2 false) (.int b)).bind fun y => .ok (x ++ y) := by
  have hl : structLayout cfgL false (.cons "a" false u8 none (.cons "b" false u16 none .nil)) =
      .ok (some 3, 2, [some 0, some 1]) := by decide +kernel
  rw [tyS, Core.Lemmas.write_struct, hl]
  simp only [Except.bind]
  rw [Core.Lemmas.writeFields_nb_idle cfgL _ _ _ _ _ _ _ _ pos pos (by intro fo h; cases h; rfl), u8, Core.Lemmas.write_sc]
  cases h1 : writeScalar cfgL (.pint 1 false) (.int a) with
  | error e => rfl
  | ok x =>
    have hx : x.length = 1 := by
      simp only [writeScalar] at h1
      split at h1
      · rename_i bs hb
        cases h1
        simp only [encodeInt] at hb
        split at hb
        · cases hb; cases cfgL.endian <;> simp [toLE]
        · cases hb
      · cases h1
    simp only [Except.bind]
    rw [Core.Lemmas.writeFields_nb_idle cfgL _ _ _ _ _ _ _ _ pos (pos + x.length) (by intro fo h; cases h; omega), u16,
      Core.Lemmas.write_sc]
    cases writeScalar cfgL (.pint 2 false) (.int b) with
    | error e => rfl
    | ok y =>
      simp only [Except.bind]
      rw [Core.Lemmas.writeFields_nil]
      simp [flushBits, BitBuf.empty]

def rec12 : Val := .record (.cons (.int 1) (.cons (.int 2) .nil))
def rec05 : Val := .record (.cons (.int 0) (.cons (.int 5) .nil))

/-- **round trip of a null-terminated array of structures** (`c07_nullterm_roundtrip_struct_packed`): the list of the two
    true structures `{1, 2}`, `{0, 5}` is written as `01 0200 00 0500 00 0000` and, whatever follows, read back -/
example (post : Bytes) :
    write cfgL (.arr tyS .nullTerm) (.list (Vals.ofList [rec12, rec05])) 0 = .ok [1, 2, 0, 0, 5, 0, 0, 0, 0] ∧
    read cfgL (.arr tyS .nullTerm) [] ([1, 2, 0, 0, 5, 0, 0, 0, 0] ++ post) 0 =
      .ok (.list (Vals.ofList [rec12, rec05]), 9) := by
  have hd : tyS.default cfgL = .record (.cons (.int 0) (.cons (.int 0) .nil)) := by decide +kernel
  have hw : write cfgL (.arr tyS .nullTerm) (.list (Vals.ofList [rec12, rec05])) 0 = .ok [1, 2, 0, 0, 5, 0, 0, 0, 0] := by
    rw [(c07_nullterm_write_general cfgL tyS _ 0).1, hd]
    simp only [Vals.ofList, rec12, rec05]
    rw [Core.Lemmas.writeN_cons, write_tyS]
    have e1 : writeScalar cfgL (.pint 1 false) (.int 1) = .ok [1] := by decide +kernel
    have e0 : writeScalar cfgL (.pint 1 false) (.int 0) = .ok [0] := by decide +kernel
    have f2 : writeScalar cfgL (.pint 2 false) (.int 2) = .ok [2, 0] := by decide +kernel
    have f5 : writeScalar cfgL (.pint 2 false) (.int 5) = .ok [5, 0] := by decide +kernel
    have f0 : writeScalar cfgL (.pint 2 false) (.int 0) = .ok [0, 0] := by decide +kernel
    simp only [e1, f2, Except.bind]
    rw [Core.Lemmas.writeN_cons, write_tyS]
    simp only [e0, f5, Except.bind]
    rw [Core.Lemmas.writeN_nil]
    simp only [write_tyS, e0, f0, Except.bind, List.append_nil, List.cons_append, List.nil_append]
  refine ⟨hw, ?_⟩
  have hty : ∀ a b : Int, fits 1 false a = true → fits 2 false b = true →
      Core.HasTyD cfgL [] (.record (.cons (.int a) (.cons (.int b) .nil))) tyS := by
    intro a b ha hb
    exact .struct (.cons (.int rfl ha) (.cons (.int rfl hb) .nil))
  have h := c07_nullterm_roundtrip_struct_packed cfgL _ [] [rec12, rec05] 0 _ (by decide +kernel) (by decide +kernel) hw
    (by
      intro v hv
      simp only [List.mem_cons, List.not_mem_nil, or_false] at hv
      rcases hv with rfl | rfl
      · exact hty 1 2 (by decide) (by decide)
      · exact hty 0 5 (by decide) (by decide))
    (by decide) (by rw [← tyS, hd]; exact hty 0 0 (by decide) (by decide)) (by rw [← tyS, hd]; decide) (by decide)
    [] post rfl
  simpa [tyS] using h

/-- `struct { void x[1]; }`: its value `{x = [void]}` is true (a non-empty list) and reading it consumes nothing -/
def tyV : Ty := .struct false (.cons "x" false (.arr (.sc .void 1) (.fixed 1)) none .nil)
def recV : Val := .record (.cons (.list (.cons .void .nil)) .nil)

theorem read_tyV (ctx : Ctx) (d : Bytes) (p : Nat) : read cfgL tyV ctx d p = .ok (recV, p) := by
  have hl : structLayout cfgL false (.cons "x" false (.arr (.sc .void 1) (.fixed 1)) none .nil) =
      .ok (some 0, 1, [some 0]) := by decide +kernel
  rw [tyV, Core.Lemmas.read_struct, hl]
  simp only [Except.bind]
  rw [Core.Lemmas.readFields_cons_nobits _ _ _ _ _ _ _ _ _ _ _ _ _ rfl, Core.Lemmas.read_arr_fixed, readArray.eq_1]
  simp only [readScalarArray, Core.Lemmas.fieldPos, List.head?_cons, Option.join_some, Option.isNone_some,
    Bool.false_eq_true, and_false, if_false, Nat.add_zero, List.drop_succ_cons, List.drop_zero]
  rw [Core.Lemmas.readN_succ, Core.Lemmas.read_sc]
  simp only [readScalar, Except.bind, Except.map, Core.Lemmas.readN_zero, Core.Lemmas.readFields_nil]
  rfl

/-- **the bound of the model's loop is reached only by elements that consume nothing**: `struct { void x[1]; } a[]` reads
    true structures forever without advancing; the Python loop does not terminate, the model answers EOFError after
    `len(data) - pos + 2` elements (`c07_nullterm_bounded`, third case). `Progress` fails for this element type. -/
example : read cfgL (.arr tyV .nullTerm) [] [] 0 = .error .eof ∧ ¬ Progress cfgL tyV [] [] := by
  constructor
  · refine ((c07_nullterm_bounded cfgL tyV [] [] 0 rfl).2 _).2 (.inr (.inr ⟨rfl, [recV, recV], 0, ?_, by decide, rfl⟩))
    exact .cons (p' := 0) (read_tyV _ _ _) (.cons (p' := 0) (read_tyV _ _ _) .nil)
  · intro h
    have := (h 0 recV 0 (read_tyV _ _ _) (by decide)).1
    omega

/-- the class `consumes` admits bit-fields next to the member that takes the bytes:
    `struct { uint8 lo:4; uint8 hi:4; uint16 c; char s[]; uint8 tail[c]; }`, so `c07_nullterm_struct` applies to it -/
def tyBits : Ty := .struct false (.cons "lo" false u8 (some 4) (.cons "hi" false u8 (some 4) (.cons "c" false u16 none
  (.cons "s" false (.arr (.sc .char 1) .nullTerm) none (.cons "tail" false (.arr u8 (.expr ["c"])) none .nil)))))
example : consumes cfgL tyBits = true ∧ isStructLike tyBits = true ∧ consumes cfgL tyV = false := by decide +kernel

/-- to compare with the Python code: a structure whose only non-zero member is a float `-0.0` (`00 00 00 80`) is TRUE
    in the model (`Val.truthy` tests the bit pattern against `+0.0` only), whereas `bool(-0.0)` is `False` in Python; as an
    element of `float x[]` the same value IS the terminator (`c07_nullterm_truthiness`, as in Python's `== 0`) -/
example : (Val.record (.cons (.flt 0x80000000) .nil)).truthy = true ∧
    isTerminator (.sc (.pflt 4) 4) (.flt 0x80000000) = true := by decide +kernel

end Cstruct.C07.Ex
