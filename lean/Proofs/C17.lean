/-
  C17 — structure values: field-wise equality, consistent hash/bool, local assignment.

  Property theorems over `CstructModel/Instance.lean` (the generated `__init__/__eq__/__hash__/__bool__` of
  types/structure.py as functions of the field tuple) and the write model. Helper lemmas in `Proofs/Lemmas/C17.lean`.
  Trusted / by correspondence only: that the code templates patched with `CodeType.replace` compute exactly these functions
  for every field count and every field name (checked on the real classes by this check's run over 0..40 fields, colliding
  names and shared templates).
-/
import CstructModel.Instance
import Proofs.Lemmas.C17

namespace Cstruct.C17
open Cstruct Cstruct.Instance Cstruct.Core

/-- **Equality is field-wise**: two instances are equal exactly when they are of the same structure type and all their
    fields are equal. -/
theorem c17_eq_iff (a b : Inst) (hlen : a.vals.length = b.vals.length) :
    a.eq b = true ↔ a.cls = b.cls ∧ ∀ i (h : i < a.vals.length), veq a.vals[i] (b.vals[i]'(hlen ▸ h)) = true := by
  exact Lemmas.eq_iff a b hlen

/-- `veq` is reflexive and symmetric on values, hence instance equality is reflexive and symmetric. -/
theorem c17_eq_refl_symm (a b : Inst) : a.eq a = true ∧ a.eq b = b.eq a := by
  exact ⟨Lemmas.eq_refl a, Lemmas.eq_symm a b⟩

/-- **Equal field tuples hash equally**: the hash is a function of the field values alone. -/
theorem c17_hash (a b : Inst) (h : a.vals = b.vals) : a.hashKey = b.hashKey := by
  unfold Inst.hashKey; exact h

/-- **An instance is falsy exactly when all its fields are.** -/
theorem c17_bool_iff (a : Inst) : a.bool = false ↔ ∀ v ∈ a.vals, v.truthy = false := by
  exact Lemmas.bool_iff a

/-- **Constructing from positional or keyword values equals assigning those fields on a default instance**, unspecified
    fields taking the type's default. -/
theorem c17_init (cls : Nat) (names : List String) (defaults args : List Val) (kwargs : List (String × Val))
    (hd : defaults.length = names.length) (ha : args.length ≤ names.length) :
    init cls names defaults args kwargs =
      kwargs.foldl (fun (x : Inst) (kv : String × Val) => match indexOf names kv.1 with | some i => x.set i kv.2 | none => x)
        ((List.range args.length).foldl (fun (x : Inst) i => x.set i (args.getD i .void)) (init cls names defaults [] [])) ∧
    (init cls names defaults [] []).vals = defaults := by
  exact ⟨Lemmas.init_eq cls names defaults args kwargs hd ha, Lemmas.init_default cls names defaults hd⟩

/-- member number `k` of a field list / value list -/
def nthTy : Fields → Nat → Option Ty
  | .nil, _ => none
  | .cons _ _ t _ _, 0 => some t
  | .cons _ _ _ _ r, k + 1 => nthTy r k

def setNthV : Vals → Nat → Val → Vals
  | .nil, _, _ => .nil
  | .cons _ r, 0, v => .cons v r
  | .cons a r, k + 1, v => .cons a (setNthV r k v)

/-- **Assigning a field of a fixed-size structure changes, in the dumped bytes, exactly the bytes of that field**
    (fragment S): the dumps before and after have the same length and agree at every position outside
    `[offset k, offset k + size k)`. -/
theorem c17_assign_local (cfg : Cfg) (al : Bool) (fs : Fields) (hS : (Ty.struct al fs).fragS cfg = true)
    (hu : (Ty.struct al fs).uniformAlign al = true) (hp : (Ty.struct al fs).pow2Aligned cfg)
    (vs : Vals) (hv : HasTy cfg (.record vs) (.struct al fs)) (k : Nat) (t : Ty) (ht : nthTy fs k = some t) (v : Val) (hvk : HasTy cfg v t)
    (off n : Nat) (offs : List (Option Nat)) (sz : Option Nat) (a : Nat)
    (hl : structLayout cfg al fs = .ok (sz, a, offs)) (hoff : offs[k]? = some (some off)) (hn : t.size cfg = some n) :
    ∃ b1 b2, dumps cfg (.struct al fs) (.record vs) = .ok b1 ∧ dumps cfg (.struct al fs) (.record (setNthV vs k v)) = .ok b2 ∧
      b1.length = b2.length ∧ ∀ i, (i < off ∨ off + n ≤ i) → b1[i]? = b2[i]? := by
  have e1 : nthTy fs k = Lemmas.nTy fs k :=
    Lemmas.nTy_unique nthTy (fun _ => rfl) (fun _ _ _ _ _ => rfl) (fun _ _ _ _ _ _ => rfl) fs k
  have e2 : setNthV vs k v = Lemmas.setV vs k v :=
    Lemmas.setV_unique setNthV (fun _ _ => rfl) (fun _ _ _ => rfl) (fun _ _ _ _ => rfl) vs k v
  rw [e1] at ht
  rw [e2]
  exact Lemmas.assign_local cfg al fs hS hu hp vs hv k t ht v hvk off n offs sz a hl hoff hn

end Cstruct.C17
