/-
  C12 — enums and flags preserve every underlying value and number members like C.

  Property theorems over `CstructModel/Enum.lean` (numbering fold of `TokenParser._enum`, `__eq__`/`__hash__` of Enum and
  Flag) and the `Ty.enum` cases of the read/write model. Helper lemmas in `Proofs/Lemmas/C12.lean`.
  Trusted: the standard library's IntEnum/IntFlag machinery behind `cls(value)` (member lookup, pseudo-members); the model
  keeps the integer value and a name and is tied to the real classes by the correspondence run.
-/
import CstructModel.Enum
import Proofs.Lemmas.C12

namespace Cstruct.C12
open Cstruct Cstruct.Enum Cstruct.Core

/-- **Every underlying value is preserved, named or not**: reading an enum/flag field yields exactly the integer its
    underlying type decodes (the member table is not even consulted), and dumping writes that integer back through the
    underlying type. -/
theorem c12_preserve (cfg : Cfg) (b : Scalar) (a : Nat) (f : Bool) (ctx : Ctx) (d : Bytes) (pos : Nat) (hb : Scalar.isInt b = true) :
    (∀ v p, readScalar cfg b d pos = .ok (.int v, p) → read cfg (.enum b a f) ctx d pos = .ok (.enum v, p)) ∧
    (∀ e, readScalar cfg b d pos = .error e → read cfg (.enum b a f) ctx d pos = .error e) ∧
    (∀ v wpos, write cfg (.enum b a f) (.enum v) wpos = writeScalar cfg b (.int v)) := by
  exact ⟨fun v p h => Lemmas.read_enum_ok cfg b a f ctx d pos v p h,
    fun e h => Lemmas.read_enum_error cfg b a f ctx d pos e h,
    fun v wpos => Lemmas.write_enum cfg b a f v wpos⟩

/-- **Round trip for every underlying value that fits the underlying type**, as a scalar and inside arrays and structures
    (instance of `roundtrip_S`, enums being part of fragment S). -/
theorem c12_roundtrip (cfg : Cfg) (b : Scalar) (a : Nat) (f : Bool) (hb : Scalar.isInt b = true) (v : Int) (hfit : intFits b v = true)
    (hpow : a = 0 ∨ ∃ k, a = 2 ^ k) (post : Bytes) (ctx : Ctx) :
    ∃ bs, write cfg (.enum b a f) (.enum v) 0 = .ok bs ∧ read cfg (.enum b a f) ctx (bs ++ post) 0 = .ok (.enum v, bs.length) := by
  exact Lemmas.enum_roundtrip cfg b a f hb v hfit hpow post ctx

/-- **Enum numbering**: a member without explicit value continues from the previous one, `previous + 1`, the first from 0. -/
theorem c12_auto_enum (consts : List (String × Int)) (name : String) (rest : List (String × Option String)) (next : Int)
    (vals : List (String × Int)) :
    number false consts ((name, none) :: rest) next vals = number false consts rest (next + 1) (setVal name next vals) ∧
    enumValues false consts [(name, none)] = .ok [(name, 0)] := by
  refine ⟨?_, ?_⟩
  · rw [Lemmas.number_none, Lemmas.nextVal_false]
  · simp only [enumValues, Lemmas.number_none]
    simp [number, setVal]

/-- **Flag numbering**: a member without explicit value takes the next higher power of two above the previous value's
    highest set bit (the first takes 1): `nextVal true v = 2^(bit_length v)`, which is the least power of two `> v`. -/
theorem c12_auto_flag (v : Int) (hv : 0 ≤ v) :
    ∃ k : Nat, nextVal true v = 2 ^ k ∧ v < 2 ^ k ∧ (0 < v → (2 : Int) ^ k ≤ 2 * v) ∧
      (∀ consts name rest vals, number true consts ((name, none) :: rest) (2 ^ k) vals =
        number true consts rest (nextVal true (2 ^ k)) (setVal name (2 ^ k) vals)) := by
  refine ⟨bitLength v, Lemmas.nextVal_true v, Lemmas.lt_two_pow_bitLength v hv,
    Lemmas.two_pow_bitLength_le v, ?_⟩
  intro consts name rest vals
  exact Lemmas.number_none true consts name rest _ vals

/-- **Explicit values may be expressions over earlier members** (the members so far are the context, the constants the
    fallback), and the next implicit member continues from the explicit value. -/
theorem c12_expr_members (isFlag : Bool) (consts : List (String × Int)) (name text : String) (rest : List (String × Option String))
    (next : Int) (vals : List (String × Int)) (o : Expr.Obj) (x : Int) (ho : Expr.Obj.new text = .ok o)
    (hx : (o.evaluate { ctx := vals, consts := consts, sizeof := fun _ => .error .resolve }).2 = .ok x) :
    number isFlag consts ((name, some text) :: rest) next vals = number isFlag consts rest (nextVal isFlag x) (setVal name x vals) := by
  exact Lemmas.number_some isFlag consts name text rest next vals o x ho hx

/-- **Comparison semantics**: a member equals its integer value; it equals a same-class instance exactly when the values
    are equal; it never equals an instance of another enum or flag class; equality is reflexive and symmetric. -/
theorem c12_eq (a b : EVal) (n : Int) :
    (a.eqInt n = true ↔ a.value = n) ∧
    (a.cls = b.cls → (a.eq b = true ↔ a.value = b.value)) ∧
    (a.cls ≠ b.cls → a.eq b = false) ∧
    a.eq a = true ∧ a.eq b = b.eq a := by
  exact ⟨Lemmas.eqInt_iff a n, Lemmas.eq_iff_of_cls a b, Lemmas.eq_false_of_cls a b, Lemmas.eq_refl a,
    Lemmas.eq_symm a b⟩

/-- **Two parses of the same underlying value yield equal objects with equal hashes.** -/
theorem c12_parse_eq_hash (cls : Nat) (members : List (String × Int)) (v : Int) :
    (mk cls members v).eq (mk cls members v) = true ∧ (mk cls members v).hashKey = (mk cls members v).hashKey ∧
    (mk cls members v).value = v ∧
    (∀ w, (mk cls members v).eq (mk cls members w) = true → (mk cls members v).hashKey = (mk cls members w).hashKey) := by
  refine ⟨Lemmas.eq_refl _, rfl, Lemmas.mk_value cls members v, ?_⟩
  intro w h
  rw [Lemmas.mk_eq_imp cls members v w h]

/-! ### Non-vacuity -/
example : enumValues false [] [("A", none), ("B", some "5"), ("C", none), ("D", some "B + C"), ("E", none)] =
    .ok [("A", 0), ("B", 5), ("C", 6), ("D", 11), ("E", 12)] := by decide +kernel
example : enumValues true [] [("a", none), ("b", none), ("c", some "0x10"), ("d", none), ("e", some "3"), ("f", none)] =
    .ok [("a", 1), ("b", 2), ("c", 16), ("d", 32), ("e", 3), ("f", 4)] := by decide +kernel

end Cstruct.C12
