/-
  Helper lemmas for `Proofs/C03Compile.lean`, part 6: `flush()`.  The statements it yields (an optional seek or alignment,
  then the block) take the validator from the cursor in front of the pending members to the compiler's cursor.
-/
import Proofs.Lemmas.C03CompileBlock

namespace Cstruct.Compiler
open Cstruct Cstruct.Core.Lemmas

/-- the validator's state between two members outside a bit run: only the static position is known -/
def syncSt (o : Option Nat) : VSt := { spos := o, lastAlign := none, unit := none, dirty := false }

/-- what the validator knows of the static position, against the layout offset `lo` and the generator's tracked offset
    `c`: the validator knows the layout offset, or it knows nothing (after an alignment statement in front of a bit-field
    that continues a unit) and then the generator has forgotten its offset as well (so it will emit a seek) -/
def Known (sp lo c : Option Nat) : Prop := sp = lo ∨ (sp = none ∧ c = none)

theorem Known.of_some {sp lo c : Option Nat} {x : Nat} (h : Known sp lo c) (hc : c = some x) : sp = lo := by
  rcases h with h | ⟨_, h⟩
  · exact h
  · rw [h] at hc; cases hc

theorem Known.of_none {sp c : Option Nat} (h : Known sp none c) : sp = none := by
  rcases h with h | ⟨h, _⟩ <;> exact h

/-- the part of the simulation invariant that speaks about the pending block (no bit run is open) -/
structure PlainSt (cfg : Cfg) (al : Bool) (gst : GState) (vst : VSt) (bs lo : Option Nat)
    (fsV : Fields) (offsV : List (Option Nat)) (fs : Fields) (offs : List (Option Nat)) : Prop where
  pend : Pending gst.block fsV offsV fs offs
  /-- `bs` is the layout's running offset in front of the pending block -/
  chain : Chain cfg al gst.block bs lo
  sync : Known vst.spos bs (if gst.block.isEmpty = true then gst.cur else gst.blockOff)
  mem : ∀ f ∈ gst.block, Member cfg al f
  vfresh : VoidsFresh gst.block
  vfresh2 : ∀ f ∈ gst.block, isVoid f.ty = true → f.name ∉ Fields.names fs
  boff : gst.block ≠ [] → ∀ c l, gst.blockOff = some c → bs = some l → c ≤ l
  dyn : al = true → bs = none → gst.block.length ≤ 1
  vsync : vst = syncSt vst.spos
  np : gst.prevBits = false
  rem0 : gst.bitsRem = 0

theorem dv_isSome_of_dropVoids {cfg : Cfg} {al : Bool} {fs : Fields} {offs : List (Option Nat)} {at_ : Option Nat}
    (h : ∃ r, dropVoids cfg al fs offs at_ = some r) : ∃ r, dv cfg al fs offs at_ = some r := by
  obtain ⟨r, hr⟩ := h
  exact ⟨_, by rw [dv, hr]; rfl⟩

theorem dropVoids_of_dv {cfg : Cfg} {al : Bool} {fs : Fields} {offs : List (Option Nat)} {at_ : Option Nat}
    {r : Fields × List (Option Nat)} (h : dv cfg al fs offs at_ = some r) :
    ∃ sk, dropVoids cfg al fs offs at_ = some (r.1, r.2, sk) := by
  unfold dv at h
  cases hd : dropVoids cfg al fs offs at_ with
  | none => rw [hd] at h; cases h
  | some x =>
    obtain ⟨a, b, c⟩ := x
    rw [hd] at h
    simp only [Option.map_some, Option.some.injEq] at h
    subst h
    exact ⟨c, rfl⟩

/-- a seek to where the stream is known to be, in front of a block: nothing changes -/
theorem seek_same (cfg : Cfg) (al : Bool) (salign : Nat) (o size : Nat) (fmt : Option String) (slots : List Slot)
    (rest : Plan) (fsV : Fields) (offsV : List (Option Nat)) :
    planOKAux cfg al salign (.seek o :: .block size fmt slots :: rest) fsV offsV (syncSt (some o)) =
      planOKAux cfg al salign (.block size fmt slots :: rest) fsV offsV (syncSt (some o)) := by
  rw [planOKAux]
  cases hd : dropVoids cfg al fsV offsV (syncSt (some o)).spos with
  | none =>
    have hb : planOKAux cfg al salign (.block size fmt slots :: rest) fsV offsV (syncSt (some o)) = false := by
      rw [planOKAux]
      simp only [syncSt, Bool.false_eq_true, if_false] at hd ⊢
      rw [hd]
    have heq : ({ syncSt (some o) with spos := some o, lastAlign := none } : VSt) = syncSt (some o) := rfl
    simp only [heq, hb, Bool.and_false]
  | some r =>
    obtain ⟨fs', offs', sk⟩ := r
    have hdv := dv_of_dropVoids cfg al hd
    have heq : ({ syncSt (some o) with spos := some o, lastAlign := none } : VSt) = syncSt (some o) := rfl
    simp only [heq]
    have e := planOKAux_dv cfg al salign (.block size fmt slots :: rest) (by simp) (syncSt (some o)) rfl _ _ _ _ hdv
      (Or.inr (by simp))
    rw [e]
    simp [syncSt]

/-- `align 1` in front of a block, no alignment pending: nothing changes -/
theorem align_one (cfg : Cfg) (al : Bool) (salign : Nat) (size : Nat) (fmt : Option String) (slots : List Slot)
    (rest : Plan) (fsV : Fields) (offsV : List (Option Nat)) (bo : Option Nat) :
    planOKAux cfg al salign (.align 1 :: .block size fmt slots :: rest) fsV offsV (syncSt bo) =
      planOKAux cfg al salign (.block size fmt slots :: rest) fsV offsV (syncSt bo) := by
  rw [planOKAux]
  cases hd : dropVoids cfg al fsV offsV (syncSt bo).spos with
  | none =>
    simp only
    rw [planOKAux]
    simp only [syncSt, Bool.false_eq_true, if_false] at hd ⊢
    rw [hd]
  | some r =>
    obtain ⟨fs', offs', sk⟩ := r
    have hdv := dv_of_dropVoids cfg al hd
    have e := planOKAux_dv cfg al salign (.block size fmt slots :: rest) (by simp) (syncSt bo) rfl _ _ _ _ hdv
      (Or.inr (by simp))
    simp only
    rw [← e]
    simp [syncSt]

/-- the block instruction in front of the pending members -/
theorem block_step (cfg : Cfg) (al : Bool) (salign : Nat) (st1 : VSt) (hd1 : st1.dirty = false)
    {B : List CField} {fsV : Fields} {offsV : List (Option Nat)} {fs : Fields} {offs : List (Option Nat)}
    (hp : Pending B fsV offsV fs offs) (hm : ∀ f ∈ B, Member cfg al f) (hvf : VoidsFresh B) (lo : Option Nat)
    (hc : Chain cfg al B st1.spos lo) (f0 : CField) (B0 : List CField) (hB : B = f0 :: B0) (hoff : f0.off = st1.spos)
    (blk : Instr) (hg : genPacked cfg al B = .ok blk) (hdyn : DynOK cfg al st1.spos st1.lastAlign B true 0)
    (hla : st1.lastAlign ≠ none → isVoid f0.ty = false)
    (hfs : ∃ r, dropVoids cfg al fs offs lo = some r) (rest : Plan) (hh : rest.head? ≠ some .bitsReset) :
    planOKAux cfg al salign (blk :: rest) fsV offsV st1 = planOKAux cfg al salign rest fs offs (syncSt lo) := by
  obtain ⟨size, fmt, slots, its, rfl, hfmt, he, hvd, fsE, offsE, hso, hdv⟩ :=
    block_ok cfg al st1.spos st1.lastAlign hp hm hvf lo hc f0 B0 hB hoff blk hg hdyn
  subst he
  rw [planOKAux]
  simp only [hd1, Bool.false_eq_true, if_false, hfmt]
  cases slots with
  | cons sl slots' =>
    obtain ⟨fs0, offs0, sk, hdr, hso'⟩ := slotsOK_dropVoids cfg al its size st1.spos st1.lastAlign sl slots' fsV offsV _ hso
    simp only [hdr, hso', beq_self_eq_true, Bool.true_and, List.isEmpty_cons, Bool.false_eq_true, if_false]
    exact planOKAux_dv cfg al salign rest hh _ rfl _ _ _ _ hdv (Or.inl hfs)
  | nil =>
    rw [slotsOK.eq_def] at hso
    simp only [Option.some.injEq, Prod.mk.injEq] at hso
    obtain ⟨rfl, rfl, rfl⟩ := hso
    obtain ⟨r, hr⟩ := dv_isSome_of_dropVoids hfs
    rw [← hdv] at hr
    have hz : st1.spos.map (· + 0) = st1.spos := map_add_zero _
    rw [hz] at hr hdv
    obtain ⟨sk, hdr⟩ := dropVoids_of_dv hr
    have hla' : st1.lastAlign = none := by
      cases hl : st1.lastAlign with
      | none => rfl
      | some a =>
        have h1 := hla (by simp [hl])
        have h2 := hvd rfl f0 (by rw [hB]; exact List.mem_cons_self)
        rw [h1] at h2
        cases h2
    simp only [hdr, List.isEmpty_nil, if_true, hla', hz]
    rw [slotsOK.eq_def]
    simp only [beq_self_eq_true, Bool.true_and]
    have hdv2 := dv_of_dropVoids cfg al hdr
    exact planOKAux_dv cfg al salign rest hh _ rfl _ _ _ _ (by simp only [syncSt]; rw [hdv2, hdv]) (Or.inl (by rw [hz] at hfs; exact hfs))

theorem padNat_aligned {a : Nat} (ha : IsP2 a) (o : Nat) : padNat (o + padNat o a) a = 0 :=
  padNat_of_dvd ha (padNat_p2_dvd ha o)

/-- a seek in front of a block whose first member is a void member the stream is not known to be at: the void member
    stays under the cursor -/
theorem seek_void (cfg : Cfg) (al : Bool) (salign : Nat) (o : Nat) (is : Plan) (name : String) (an : Bool) (ty : Ty)
    (fsV : Fields) (offsV : List (Option Nat)) (hv : isVoid ty = true) :
    planOKAux cfg al salign (.seek o :: is) (.cons name an ty none fsV) (some o :: offsV) (syncSt none) =
      planOKAux cfg al salign is (.cons name an ty none fsV) (some o :: offsV) (syncSt (some o)) := by
  rw [planOKAux, dropVoids_void _ _ _ _ _ _ _ _ hv]
  simp [voidOK, hdOff, syncSt, nextStatic]

/-- `flush()` -/
theorem flush_ok (cfg : Cfg) (al : Bool) (salign : Nat) (gst : GState) (vst : VSt) (bs lo : Option Nat)
    (fsV : Fields) (offsV : List (Option Nat)) (fs : Fields) (offs : List (Option Nat))
    (hP : PlainSt cfg al gst vst bs lo fsV offsV fs offs) (fl : Plan) (hfl : flush cfg al gst = .ok fl)
    (hfs : ∃ r, dropVoids cfg al fs offs lo = some r) (rest : Plan) (hh : rest.head? ≠ some .bitsReset) :
    ∃ sp', planOKAux cfg al salign (fl ++ rest) fsV offsV vst = planOKAux cfg al salign rest fs offs (syncSt sp') ∧
      Known sp' lo gst.cur := by
  obtain ⟨sp, la, un, di⟩ := vst
  have hvs := hP.vsync
  simp only [syncSt, VSt.mk.injEq, true_and] at hvs
  obtain ⟨rfl, rfl, rfl⟩ := hvs
  change ∃ sp', planOKAux cfg al salign (fl ++ rest) fsV offsV (syncSt sp) = _ ∧ _
  have hp : Pending gst.block fsV offsV fs offs := hP.pend
  have hc : Chain cfg al gst.block bs lo := hP.chain
  have hm := hP.mem
  have hsync : Known sp bs (if gst.block.isEmpty = true then gst.cur else gst.blockOff) := hP.sync
  have hboff : gst.block ≠ [] → ∀ c l, gst.blockOff = some c → bs = some l → c ≤ l := hP.boff
  have hdynl : al = true → bs = none → gst.block.length ≤ 1 := hP.dyn
  unfold flush at hfl
  cases hB : gst.block with
  | nil =>
    rw [hB] at hfl
    cases hfl
    rw [hB] at hp hc hsync
    cases hp
    simp only [Chain] at hc
    subst hc
    exact ⟨sp, by rw [List.nil_append], by simpa using hsync⟩
  | cons f0 B0 =>
    rw [hB] at hfl hsync
    simp only [List.isEmpty_cons, Bool.false_eq_true, if_false] at hsync
    simp only at hfl
    rw [← hB] at hfl
    refine ⟨lo, ?_, Or.inl rfl⟩
    split at hfl
    · cases hfl
    · rename_i blk hg
      cases hfl
      obtain ⟨size, fmt, slots, rfl⟩ := genPacked_block cfg al _ _ hg
      have hmf : Member cfg al f0 := hm f0 (by rw [hB]; exact List.mem_cons_self)
      rw [hB] at hc
      obtain ⟨hc1, hc2⟩ := hc
      cases hoff : f0.off with
      | some o =>
        -- static: the block is read at `o`
        simp only [Option.isNone_some, Bool.false_eq_true, and_false, if_false, List.append_nil]
        rw [hoff] at hc1 hc2
        obtain ⟨b0, rfl⟩ : ∃ b0, bs = some b0 := by
          cases bs with
          | none => cases hc1
          | some b0 => exact ⟨b0, rfl⟩
        simp only [alignOpt, Option.map_some, Option.some.injEq] at hc1
        have hre : Chain cfg al (f0 :: B0) (some o) lo := by
          refine ⟨?_, by rw [hoff]; exact hc2⟩
          rw [hoff]
          simp only [alignOpt, Option.map_some, Option.some.injEq]
          cases hal : al with
          | false => simp
          | true =>
            rw [hal] at hc1
            simp only [if_true] at hc1 ⊢
            have := padNat_aligned (hmf.p2 hal) b0
            rw [← hc1] at this
            omega
        have hblock : planOKAux cfg al salign (.block size fmt slots :: rest) fsV offsV (syncSt (some o)) =
            planOKAux cfg al salign rest fs offs (syncSt lo) := by
          refine block_step cfg al salign (syncSt (some o)) rfl hp hm hP.vfresh lo (by rw [hB]; exact hre) f0 B0 hB hoff _ hg
            ?_ (fun h => absurd rfl h) hfs rest hh
          intro h; cases h
        by_cases hsk : some o ≠ gst.blockOff
        · rw [if_pos hsk]
          simp only [List.cons_append, List.nil_append]
          -- the seek
          have hseek : planOKAux cfg al salign (.seek o :: .block size fmt slots :: rest) fsV offsV (syncSt sp) =
              planOKAux cfg al salign (.block size fmt slots :: rest) fsV offsV (syncSt (some o)) := by
            by_cases hv : isVoid f0.ty = true
            · have : o = b0 := by
                cases hal : al with
                | false => rw [hal] at hc1; simpa using hc1
                | true =>
                  rw [hal] at hc1
                  simp only [if_true] at hc1
                  rw [hmf.voidAlign hv hal, padNat_one] at hc1
                  simpa using hc1
              subst this
              rcases hsync with h | ⟨h, _⟩
              · subst h
                exact seek_same cfg al salign o size fmt slots rest fsV offsV
              · subst h
                rw [hB] at hp
                cases hp with
                | cons name an ty o' hp' =>
                  simp only at hv hoff
                  subst hoff
                  exact seek_void cfg al salign o _ name an ty _ _ hv
            · rw [hB] at hp
              cases hp with
              | cons name an ty o' hp' =>
                simp only at hv hoff
                subst hoff
                rw [planOKAux, dropVoids_nonvoid _ _ _ _ _ _ _ _ _ (by simp [hv])]
                simp only [nextStatic, if_true, syncSt, Bool.false_eq_true, Bool.and_false, Bool.not_false,
                  Bool.true_and]
          rw [hseek, hblock]
        · have hbo : gst.blockOff = some o := by
            cases hbo : gst.blockOff with
            | none => rw [hbo] at hsk; exact absurd (by simp) hsk
            | some c =>
              rw [hbo] at hsk
              simp only [ne_eq, Option.some.injEq, Decidable.not_not] at hsk
              rw [hsk]
          have hsp : sp = some b0 := hsync.of_some hbo
          subst hsp
          have hle := hboff (by rw [hB]; simp) o b0 hbo rfl
          have : o = b0 := by
            cases hal : al with
            | false => rw [hal] at hc1; simpa using hc1
            | true => rw [hal] at hc1; simp only [if_true] at hc1; omega
          subst this
          rw [if_neg hsk, List.nil_append, List.cons_append, List.nil_append, hblock]
      | none =>
        -- dynamic: the block is read where the stream is (aligned in an aligned structure)
        rw [hoff] at hc1 hc2
        obtain rfl : bs = none := by
          cases bs with
          | none => rfl
          | some b0 => cases hc1
        obtain rfl : sp = none := hsync.of_none
        have hre : Chain cfg al (f0 :: B0) none lo := ⟨by rw [hoff]; rfl, by rw [hoff]; exact hc2⟩
        simp only [List.nil_append, Option.isNone_none, and_true]
        cases hal : al with
        | false =>
          simp only [Bool.false_eq_true, if_false, List.nil_append, List.cons_append]
          subst hal
          refine block_step cfg false salign (syncSt none) rfl hp hm hP.vfresh lo (by rw [hB]; exact hre) f0 B0 hB hoff _ hg
            ?_ (fun h => absurd rfl h) hfs rest hh
          intro _
          exact ⟨(fun _ => rfl), (fun h => by cases h)⟩
        | true =>
          subst hal
          simp only [if_true, List.cons_append, List.nil_append]
          have hlen := hdynl rfl rfl
          have hB0 : B0 = [] := by
            rw [hB] at hlen
            simp only [List.length_cons] at hlen
            cases B0 with
            | nil => rfl
            | cons _ _ => simp at hlen
          by_cases h1 : f0.ty.alignment cfg = 1
          · rw [h1, align_one]
            refine block_step cfg true salign (syncSt none) rfl hp hm hP.vfresh lo (by rw [hB]; exact hre) f0 B0 hB hoff _ hg
              ?_ (fun h => absurd rfl h) hfs rest hh
            intro _
            exact ⟨(fun h => by cases h), (fun _ => Or.inr ⟨f0, by rw [hB, hB0], rfl, rfl, Or.inr ⟨rfl, h1⟩⟩)⟩
          · have hnv : isVoid f0.ty = false := by
              cases hv : isVoid f0.ty with
              | false => rfl
              | true => exact absurd (hmf.voidAlign hv rfl) h1
            have hp2 := hp
            rw [hB] at hp
            cases hp with
            | cons name an ty o' hp' =>
              simp only at hnv h1 hoff
              rw [planOKAux, dropVoids_nonvoid _ _ _ _ _ _ _ _ _ (by simp [hnv])]
              have hpos := hmf.apos
              simp only at hpos
              simp only [syncSt, Option.isSome_none, Bool.false_eq_true, false_or, Bool.and_false, or_false,
                if_neg (Nat.pos_iff_ne_zero.mp hpos), if_neg h1, Bool.not_true, if_false]
              refine block_step cfg true salign ⟨none, some (ty.alignment cfg), none, false⟩ rfl hp2 hm hP.vfresh lo
                (by rw [hB]; exact hre) _ B0 hB hoff _ hg ?_ (fun _ => hnv) hfs rest hh
              intro _
              exact ⟨(fun h => by cases h), (fun _ => Or.inr ⟨_, by rw [hB, hB0], rfl, rfl, Or.inl rfl⟩)⟩

end Cstruct.Compiler
