/-
  Helper lemmas for `Proofs/CoreBits.lean`, part 3: the member loop of the packed round trip, case by case (end of the
  member list, non-bit member, bit-field opening a unit, member met with a pending unit).
-/
import Proofs.Lemmas.CoreBitsRT0
namespace Cstruct.Core.Lemmas
open Cstruct Cstruct.Core Cstruct.C06 Cstruct.C06.Lemmas
open Cstruct.C05.Lemmas (encBytes encBytes_length)
set_option linter.unusedSimpArgs false

/-! ### The member loop, case by case -/

theorem fieldPos_packed (cfg : Cfg) (ty : Ty) (foff : Option Nat) (start pos : Nat)
    (hfo : ∀ fo, foff = some fo → start + fo = pos) : fieldPos cfg false ty foff start pos = pos := by
  cases foff with
  | none => simp [fieldPos]
  | some fo => simp [fieldPos, hfo fo rfl]

theorem idle_nil (cfg : Cfg) : IdleStmt cfg .nil := by
  intro _ _ vs hvs st sz sa offs hlay _ start pos out bbF hw hpos
  cases hvs
  rw [layout_nil_packed] at hlay
  rw [writeFields_nil] at hw
  simp only [Except.ok.injEq, Prod.mk.injEq] at hlay hw
  obtain ⟨rfl, rfl, rfl⟩ := hlay
  obtain ⟨rfl, rfl⟩ := hw
  refine ⟨[], rfl, ?_, ?_⟩
  · intro o ho; simpa using hpos o ho
  · intro pre post ctx bbR _ _
    exact ⟨[], by rw [readFields_nil]; simp⟩

theorem pend_nil (cfg : Cfg) : PendStmt cfg .nil := by
  intro _ _ vs hvs st sz sa offs hlay ft fsz k n bbW hP start pos out bbF hw hpos
  cases hvs
  rw [layout_nil_packed] at hlay
  rw [writeFields_nil] at hw
  simp only [Except.ok.injEq, Prod.mk.injEq] at hlay hw
  obtain ⟨rfl, rfl, rfl⟩ := hlay
  obtain ⟨rfl, rfl⟩ := hw
  obtain ⟨F, hfl, hF, hrel⟩ := flush_pend cfg ft fsz k n bbW hP.wty hP.size hP.winv hP.nlt (by have := hP.lt; omega)
  have hl : (encBytes cfg.endian fsz F).length = fsz := encBytes_length _ _ _
  refine ⟨_, F, [], hfl, by simp, hF, hrel, ?_, ?_⟩
  · intro o ho; simp only [List.nil_append, hl]; exact hpos o ho
  · intro pre post ctx bbR U _ _ _ _
    exact ⟨[], by rw [readFields_nil]; simp [hl]⟩

theorem hasTysB_cons_vals {cfg : Cfg} {vs : Vals} {name an ty bits r} (h : HasTysB cfg vs (.cons name an ty bits r)) :
    ∃ v vs', vs = .cons v vs' := by
  cases h <;> exact ⟨_, _, rfl⟩

theorem idle_cons_nb (cfg : Cfg) (name an ty rest) (IHt : TyStmt cfg ty) (IHi : IdleStmt cfg rest) :
    IdleStmt cfg (.cons name an ty none rest) := by
  intro hS hU vs hvs st sz sa offs hlay _ start pos out bbF hw hpos
  simp only [Fields.fragSB, Bool.and_eq_true] at hS
  simp only [Fields.uniformAlign, Bool.and_eq_true] at hU
  cases hvs with
  | @cons v vs' _ _ _ _ hv hvs' =>
  rw [layout_nb] at hlay
  obtain ⟨⟨sz', sa', offs'⟩, hlay', heq⟩ := bind_ok hlay
  simp only [Except.ok.injEq, Prod.mk.injEq] at heq
  obtain ⟨rfl, rfl, rfl⟩ := heq
  have hfo : ∀ fo, st.offset = some fo → start + fo = pos := fun fo h => (hpos fo h).symm
  rw [writeFields_nb_idle cfg name an ty rest st.offset offs' v vs' start pos hfo] at hw
  obtain ⟨body, hwb, hw2⟩ := bind_ok hw
  obtain ⟨⟨o, bbF'⟩, hwr, heq⟩ := bind_ok hw2
  simp only [Except.ok.injEq, Prod.mk.injEq] at heq
  obtain ⟨rfl, rfl⟩ := heq
  obtain ⟨hsize, hread⟩ := IHt hS.1 hU.1 v hv pos body hwb
  have hpos' : ∀ o', (stNb cfg ty st).offset = some o' → pos + body.length = start + o' := by
    intro o' ho'
    simp only [stNb] at ho'
    cases hso : st.offset with
    | none => rw [hso] at ho'; cases ho'
    | some o0 =>
      rw [hso] at ho'
      cases hk : ty.size cfg with
      | none => rw [hk] at ho'; cases ho'
      | some k =>
        rw [hk] at ho'
        simp only [Option.some.injEq] at ho'
        rw [hsize k hk, hpos o0 hso]; omega
  obtain ⟨fl, hfl, hsz, hrd⟩ := IHi hS.2 hU.2 vs' hvs' (stNb cfg ty st) sz' sa' offs' hlay'
    (lidle_of_rem _ rfl rest) start _ o bbF' hwr hpos'
  refine ⟨fl, hfl, ?_, ?_⟩
  · intro o' ho'
    have := hsz o' ho'
    simp only [List.length_append] at this ⊢; omega
  · intro pre post ctx bbR hp _
    rw [readFields_cons_nobits _ _ _ _ _ _ _ _ _ _ _ _ _ rfl]
    simp only [List.head?, Option.join, Option.bind, id, List.drop_one, List.tail_cons]
    rw [fieldPos_packed cfg ty st.offset start pos hfo]
    have e1 : pre ++ (body ++ o ++ fl) ++ post = pre ++ body ++ ((o ++ fl) ++ post) := by simp only [List.append_assoc]
    have e2 : pre ++ (body ++ o ++ fl) ++ post = (pre ++ body) ++ (o ++ fl) ++ post := by simp only [List.append_assoc]
    have hr1 := hread pre ((o ++ fl) ++ post) ctx hp
    rw [← e1] at hr1
    rw [hr1]
    simp only [Except.bind]
    obtain ⟨szs, hr2⟩ := hrd (pre ++ body) post (ctx.set name v) BitBuf.empty
      (by rw [List.length_append, hp]) (ridle_of_rem _ rfl rest)
    rw [← e2] at hr2
    rw [hr2]
    simp only [List.length_append]
    exact ⟨_, by congr 3; omega⟩


theorem loadUnit_new (cfg : Cfg) (ft : Scalar) (hi : Scalar.isInt ft = true) (fsz : Nat) (hsz : ft.size = some fsz) (F : Nat)
    (hF : F < 2 ^ (8 * fsz)) (pre post : Bytes) (pos : Nat) (hp : pre.length = pos) (bbR : BitBuf)
    (hc : bbR.remaining = 0 ∨ bbR.ty ≠ some ft) :
    ∃ U : Int, loadUnit cfg ft bbR (pre ++ encBytes cfg.endian fsz F ++ post) pos =
        .ok ({ ty := some ft, buffer := U, remaining := fsz * 8 }, pos + fsz) ∧
      U % ((2 ^ (8 * fsz) : Nat) : Int) = (F : Int) := by
  obtain ⟨U, hU, hUF⟩ := unit_load cfg ft hi fsz hsz F hF pre post pos hp
  refine ⟨U, ?_, hUF⟩
  simp only [loadUnit, hc, if_true, hsz, hU, unitInt]

theorem idle_cons_bit (cfg : Cfg) (name an ty b rest) (IHi : IdleStmt cfg rest) (IHp : PendStmt cfg rest) :
    IdleStmt cfg (.cons name an ty (some (b + 1)) rest) := by
  intro hS hU vs hvs st sz sa offs hlay hli start pos out bbF hw hpos
  simp only [Fields.fragSB, Bool.and_eq_true] at hS
  simp only [Fields.uniformAlign, Bool.and_eq_true] at hU
  obtain ⟨v, vs', rfl⟩ := hasTysB_cons_vals hvs
  obtain ⟨i, rfl, hi0, hi1, hvs'⟩ := hasTysB_bits hvs
  obtain ⟨ft, fsz, hbase, hint, hsz⟩ := bitOk_base ty hS.1
  have hnew : st.bitsRemaining = 0 ∨ some ft ≠ st.bitsType := by
    rcases hli with h | h
    · exact Or.inl h
    · rw [hbase] at h; exact Or.inr h
  rw [layout_bit_new cfg name an ty b rest st ft fsz hbase hsz hnew] at hlay
  split at hlay
  · cases hlay
  rename_i hfit
  obtain ⟨⟨sz', sa', offs'⟩, hlay', heq⟩ := bind_ok hlay
  simp only [Except.ok.injEq, Prod.mk.injEq] at heq
  obtain ⟨rfl, rfl, rfl⟩ := heq
  have hfo : ∀ fo, st.offset = some fo → start + fo = pos := fun fo h => (hpos fo h).symm
  rw [writeFields_bit_idle cfg name an ty b rest st.offset offs' _ vs' start pos ft fsz i hfo hbase hsz
    (bitVal_cases ty i)] at hw
  have h8 : fsz * 8 = 8 * fsz := Nat.mul_comm _ _
  have hpos' : ∀ o, (stNew cfg ty ft fsz (b + 1) st).offset = some o → pos + fsz = start + o := by
    intro o ho
    simp only [stNew] at ho
    cases hso : st.offset with
    | none => rw [hso] at ho; cases ho
    | some o0 =>
      rw [hso] at ho
      simp only [Option.map, Option.some.injEq] at ho
      rw [hpos o0 hso]; omega
  obtain ⟨fl, F, tail, hfl, hdata, hF, _, hsize, hread⟩ := bit_step cfg rest IHi IHp hS.2 hU.2 vs' hvs'
    (stNew cfg ty ft fsz (b + 1) st) sz' sa' offs' hlay' ft fsz 0 0 (b + 1) _ hint hsz rfl
    (by simp only [stNew]; omega) (by omega) rfl rfl (by rw [h8]; exact writeInv_init _ _ _) (by simp) i hi0 hi1
    start pos out bbF hw hpos'
  refine ⟨fl, hfl, hsize, ?_⟩
  intro pre post ctx bbR hp hri
  have hc : bbR.remaining = 0 ∨ bbR.ty ≠ some ft := by
    rcases hri with h | h
    · exact Or.inl h
    · rw [hbase] at h; exact Or.inr h
  have hd : pre ++ (out ++ fl) ++ post = pre ++ encBytes cfg.endian fsz F ++ (tail ++ post) := by
    rw [hdata]; simp only [List.append_assoc]
  obtain ⟨U, hload, hUF⟩ := loadUnit_new cfg ft hint fsz hsz F hF pre (tail ++ post) pos hp bbR hc
  rw [← hd] at hload
  obtain ⟨bbR2, htake, hrest⟩ := hread pre post { ty := some ft, buffer := U, remaining := fsz * 8 } U hp rfl
    (by rw [h8]; exact readInv_init _ _ _ _) hUF
  obtain ⟨szs, hr⟩ := hrest (ctx.set name (ty.bitVal i))
  rw [readFields_cons_bits]
  simp only [hbase, List.head?, Option.join, Option.bind, id, List.drop_one, List.tail_cons]
  rw [fieldPos_packed cfg ty st.offset start pos hfo, hload]
  simp only [Except.bind, htake, bitVal_eq, hr]
  exact ⟨_, rfl⟩

theorem pend_cons (cfg : Cfg) (name an ty bits rest) (Hidle : IdleStmt cfg (.cons name an ty bits rest))
    (IHi : IdleStmt cfg rest) (IHp : PendStmt cfg rest) : PendStmt cfg (.cons name an ty bits rest) := by
  intro hS hU vs hvs st sz sa offs hlay ft fsz k n bbW hP start pos out bbF hw hpos
  obtain ⟨v, vs', rfl⟩ := hasTysB_cons_vals hvs
  by_cases hsame : isBitW bits = true ∧ ty.bitBase = some ft
  · -- a bit-field of the pending unit's storage type: the unit continues
    obtain ⟨hb, hbase⟩ := hsame
    rcases bits with _ | _ | b
    · simp [isBitW] at hb
    · simp [isBitW] at hb
    simp only [Fields.fragSB, Bool.and_eq_true] at hS
    simp only [Fields.uniformAlign, Bool.and_eq_true] at hU
    obtain ⟨i, rfl, hi0, hi1, hvs'⟩ := hasTysB_bits hvs
    have hrem : st.bitsRemaining ≠ 0 := by rw [hP.lrem]; have := hP.lt; omega
    rw [layout_bit_cont cfg name an ty b rest st ft fsz hbase hP.size hrem hP.lty hP.loff] at hlay
    split at hlay
    · cases hlay
    rename_i hfit
    obtain ⟨⟨sz', sa', offs'⟩, hlay', heq⟩ := bind_ok hlay
    simp only [Except.ok.injEq, Prod.mk.injEq] at heq
    obtain ⟨rfl, rfl, rfl⟩ := heq
    have hwrem : bbW.remaining ≠ 0 := by rw [hP.winv.1]; have := hP.lt; omega
    rw [writeFields_bit_cont cfg name an ty b rest none offs' _ vs' start pos ft fsz i bbW (fun fo h => by cases h) hbase
      hP.size (bitVal_cases ty i) hP.wty hwrem] at hw
    rw [hP.lrem] at hfit
    obtain ⟨fl, F, tail, hfl, hdata, hF, hrel, hsize, hread⟩ := bit_step cfg rest IHi IHp hS.2 hU.2 vs' hvs'
      (stCont cfg ty (b + 1) st) sz' sa' offs' hlay' ft fsz k n (b + 1) bbW hP.isInt hP.size hP.lty
      (by simp only [stCont, hP.lrem]; omega) (by omega) hP.loff hP.wty hP.winv hP.nlt i hi0 hi1
      start pos out bbF hw hpos
    refine ⟨fl, F, tail, hfl, hdata, hF, hrel, hsize, ?_⟩
    intro pre post ctx bbR U hp hRty hR hUF
    obtain ⟨bbR2, htake, hrest⟩ := hread pre post bbR U hp hRty hR hUF
    obtain ⟨szs, hr⟩ := hrest (ctx.set name (ty.bitVal i))
    have hc : ¬ (bbR.remaining = 0 ∨ bbR.ty ≠ some ft) := by
      have := hP.lt
      rw [hR.2.1, hRty]; simp; omega
    rw [readFields_cons_bits]
    simp only [hbase, List.head?, Option.join, Option.bind, id, List.drop_one, List.tail_cons, loadUnit, hc, if_false]
    rw [fieldPos_packed cfg ty none start (pos + fsz) (fun fo h => by cases h)]
    simp only [Except.bind, htake, bitVal_eq, hr]
    exact ⟨_, rfl⟩
  · -- anything else: the unit is flushed first
    have hne : isBitW bits = false ∨ ty.bitBase ≠ some ft := by
      by_cases h1 : isBitW bits = true
      · exact Or.inr (fun h2 => hsame ⟨h1, h2⟩)
      · exact Or.inl (by simpa using h1)
    rw [writeFields_flush cfg false name an ty bits rest offs v vs' start bbW pos ft hP.wty hne] at hw
    obtain ⟨F, hfl0, hF, hrel⟩ := flush_pend cfg ft fsz k n bbW hP.wty hP.size hP.winv hP.nlt (by have := hP.lt; omega)
    have hl0 : (encBytes cfg.endian fsz F).length = fsz := encBytes_length _ _ _
    rw [hfl0] at hw
    simp only [Except.bind] at hw
    obtain ⟨⟨o, bbF'⟩, hwr, heq⟩ := bind_ok hw
    simp only [Except.ok.injEq, Prod.mk.injEq] at heq
    obtain ⟨rfl, rfl⟩ := heq
    have hli : LIdle st (.cons name an ty bits rest) := by
      rcases bits with _ | _ | b
      · trivial
      · trivial
      · right
        rw [hP.lty]
        rcases hne with h | h
        · simp [isBitW] at h
        · exact h
    rw [hl0] at hwr
    obtain ⟨fl, hfl, hsize, hread⟩ := Hidle hS hU _ hvs st sz sa offs hlay hli start (pos + fsz) o bbF' hwr hpos
    refine ⟨fl, F, o ++ fl, hfl, by simp only [List.append_assoc], hF, hrel, ?_, ?_⟩
    · intro o' ho'
      have := hsize o' ho'
      simp only [List.length_append, hl0] at this ⊢; omega
    · intro pre post ctx bbR U hp hRty hR hUF
      have hri : RIdle bbR (.cons name an ty bits rest) := by
        rcases bits with _ | _ | b
        · trivial
        · trivial
        · right
          rw [hRty]
          rcases hne with h | h
          · simp [isBitW] at h
          · exact fun h' => h h'.symm
      obtain ⟨szs, hr⟩ := hread (pre ++ encBytes cfg.endian fsz F) post ctx bbR
        (by rw [List.length_append, hp, hl0]) hri
      refine ⟨szs, ?_⟩
      have e1 : pre ++ (encBytes cfg.endian fsz F ++ o ++ fl) ++ post =
          pre ++ encBytes cfg.endian fsz F ++ (o ++ fl) ++ post := by simp only [List.append_assoc]
      rw [e1, hr]
      simp only [List.length_append, hl0]
      congr 3; omega

end Cstruct.Core.Lemmas
