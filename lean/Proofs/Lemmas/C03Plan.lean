/-
  Helper lemmas for `Proofs/C03.lean`, part 5: a plan the validator accepts is simulated by the interpreted field loop
  (induction over the plan), and the two theorems about `readCompiled`.
-/
import Proofs.Lemmas.C03Sim
namespace Cstruct.Compiler
open Cstruct Cstruct.Core.Lemmas

theorem readExact_error {d : Bytes} {pos n : Nat} {e : Err} (h : readExact d pos n = .error e) : e = .eof := by
  unfold readExact at h
  simp only at h
  split at h
  · cases h; rfl
  · cases h

/-- **simulation**: running a validated plan from a state related to the interpreted reader's (`Inv`) gives what the
    interpreted field loop (followed by the final alignment) gives, in the sense of `Sim` -/
theorem sim_plan (cfg : Cfg) (al : Bool) (salign start : Nat) (data : Bytes) :
    ∀ plan fs offs vst st ipos ibb, planOKAux cfg al salign plan fs offs vst = true →
      Inv start vst fs offs st.pos st.bb ipos ibb → SubSizesAux cfg data start fs offs →
      Sim (exec cfg salign start data plan fs st)
        (finR al salign (readFields cfg al fs offs start ibb st.ctx data ipos)) := by
  intro plan
  induction plan with
  | nil =>
    intro fs offs vst st ipos ibb hok hinv hsub
    simp only [planOKAux] at hok
    cases hdv : dropVoids cfg al fs offs vst.spos with
    | none => rw [hdv] at hok; simp at hok
    | some r =>
      obtain ⟨fs', offs', skipped⟩ := r
      rw [hdv] at hok
      cases fs' with
      | cons _ _ _ _ _ => simp at hok
      | nil =>
        simp only [Bool.and_eq_true, Bool.not_eq_true', Option.isNone_iff_eq_none] at hok
        obtain ⟨⟨hal', hsd⟩, hla⟩ := hok
        obtain ⟨ctx', k, zs, ipos', ibb', hsk, hz, hrf, hinv', hsub'⟩ :=
          dropVoids_sim cfg al data start vst st.pos st.bb fs offs _ _ _ _ st.ctx ipos ibb rfl hdv hinv
            (by intro h; rw [h.1, h.2] at hsd; simp at hsd) hsub
        simp only [exec, hsk]
        show Sim (wrapR k [] (.ok (.nil, [], st.pos))) _
        refine sim_skip hz hrf ?_
        rw [readFields_nil]
        have hp := hinv'.pos
        rw [hla] at hp
        simp only [nextStatic, Bool.false_eq_true, false_or, LaMatch] at hp
        subst hal'
        exact Or.inr ⟨rfl, hp.symm, rfl⟩
  | cons ins is ih =>
    intro fs offs vst st ipos ibb hok hinv hsub
    cases ins with
    | seek o =>
      simp only [planOKAux] at hok
      cases hdv : dropVoids cfg al fs offs vst.spos with
      | none =>
        -- the void fields stay under the cursor: the next statement passes them at the new position
        rw [hdv] at hok
        simp only [Bool.and_eq_true] at hok
        obtain ⟨hns, hok⟩ := hok
        rw [exec_seek]
        exact ih fs offs _ { st with pos := start + o } ipos ibb hok
          ⟨(by intro k hk; cases hk; rfl), Or.inl hns, (by intro _ a ha; cases ha), hinv.unit, hinv.bb⟩ hsub
      | some r =>
        obtain ⟨fs', offs', skipped⟩ := r
        rw [hdv] at hok
        simp only [Bool.and_eq_true, Bool.not_eq_true'] at hok
        obtain ⟨hsd, hok⟩ := hok
        obtain ⟨ctx', k, zs, ipos', ibb', hsk, hz, hrf, hinv', hsub'⟩ :=
          dropVoids_sim cfg al data start vst st.pos st.bb fs offs _ _ _ _ st.ctx ipos ibb rfl hdv hinv
            (by intro h; rw [h.1, h.2] at hsd; simp at hsd) hsub
        simp only [exec, hsk]
        show Sim (wrapR k [] (exec cfg salign start data is fs' { st with pos := start + o, ctx := ctx' })) _
        refine sim_skip hz hrf ?_
        by_cases hns : nextStatic fs' offs' = true
        · rw [if_pos hns] at hok
          refine ih fs' offs' _ _ ipos' ibb' hok ?_ hsub'
          exact ⟨(by intro k hk; cases hk; rfl), Or.inl hns, (by intro _ a ha; cases ha), hinv'.unit, hinv'.bb⟩
        · rw [if_neg hns] at hok
          by_cases hsp : (vst.spos == some o) = true
          · rw [if_pos hsp] at hok
            simp only [beq_iff_eq] at hsp
            have hpe : start + o = st.pos := (hinv'.spos o hsp).symm
            rw [hpe]
            exact ih fs' offs' vst _ ipos' ibb' hok hinv' hsub'
          · rw [if_neg hsp] at hok; cases hok
    | alignCls =>
      simp only [planOKAux] at hok
      cases is with
      | cons _ _ => simp at hok
      | nil =>
        simp only at hok
        cases hdv : dropVoids cfg al fs offs vst.spos with
        | none => rw [hdv] at hok; simp at hok
        | some r =>
          obtain ⟨fs', offs', skipped⟩ := r
          rw [hdv] at hok
          cases fs' with
          | cons _ _ _ _ _ => simp at hok
          | nil =>
            simp only [Bool.and_eq_true, Bool.not_eq_true', Option.isNone_iff_eq_none] at hok
            obtain ⟨⟨hal', hla⟩, hsd⟩ := hok
            obtain ⟨ctx', k, zs, ipos', ibb', hsk, hz, hrf, hinv', hsub'⟩ :=
              dropVoids_sim cfg al data start vst st.pos st.bb fs offs _ _ _ _ st.ctx ipos ibb rfl hdv hinv
                (by intro h; rw [h.1, h.2] at hsd; simp at hsd) hsub
            simp only [exec, hsk, skipVoids]
            show Sim (wrapR k [] (.ok (.nil, [], st.pos + padNat st.pos salign))) _
            refine sim_skip hz hrf ?_
            rw [readFields_nil]
            have hp := hinv'.pos
            rw [hla] at hp
            simp only [nextStatic, Bool.false_eq_true, false_or, LaMatch] at hp
            subst hal'
            subst hp
            exact Or.inr ⟨rfl, rfl, rfl⟩
    | align a =>
      simp only [planOKAux] at hok
      cases hdv : dropVoids cfg al fs offs vst.spos with
      | none => rw [hdv] at hok; simp at hok
      | some r =>
        obtain ⟨fs', offs', skipped⟩ := r
        rw [hdv] at hok
        simp only at hok
        split at hok
        · cases hok
        · rename_i hc
          simp only [not_or, Bool.and_eq_true, Bool.not_eq_true, Option.isSome_eq_false_iff, Option.isNone_iff_eq_none] at hc
          obtain ⟨hla, ha0, hsd⟩ := hc
          obtain ⟨ctx', k, zs, ipos', ibb', hsk, hz, hrf, hinv', hsub'⟩ :=
            dropVoids_sim cfg al data start vst st.pos st.bb fs offs _ _ _ _ st.ctx ipos ibb rfl hdv hinv hsd hsub
          simp only [exec, hsk]
          show Sim (wrapR k [] (exec cfg salign start data is fs' { st with pos := st.pos + padNat st.pos a, ctx := ctx' })) _
          refine sim_skip hz hrf ?_
          split at hok
          · rename_i ha1
            subst ha1
            rw [padNat_one]
            exact ih fs' offs' vst _ ipos' ibb' hok hinv' hsub'
          · split at hok
            · cases hok
            · rename_i ha1 hal'
              simp only [Bool.not_eq_true', Bool.not_eq_false] at hal'
              have hpos' : nextStatic fs' offs' = true ∨ LaMatch (some a) (st.pos + padNat st.pos a) ipos' := by
                rcases hinv'.pos with h | h
                · exact Or.inl h
                · rw [hla] at h; simp only [LaMatch] at h; subst h; exact Or.inr rfl
              refine ih fs' offs' _ _ ipos' ibb' hok ?_ hsub'
              refine ⟨?_, hpos', ?_, hinv'.unit, hinv'.bb⟩
              · intro k1 hk1; cases hk1
              · intro h; exact (h rfl).elim
    | bitsReset =>
      simp only [planOKAux, Bool.and_eq_true] at hok
      simp only [exec]
      refine ih fs offs _ _ ipos ibb hok.2 ?_ hsub
      refine ⟨hinv.spos, hinv.pos, hinv.la, rfl, ?_⟩
      show (if false = true then _ else _)
      rw [if_neg (by simp)]
      exact ⟨rfl, Or.inr hok.1⟩
    | sub nm =>
      simp only [planOKAux] at hok
      cases hdv : dropVoids cfg al fs offs vst.spos with
      | none => rw [hdv] at hok; simp at hok
      | some r =>
        obtain ⟨fs', offs', skipped⟩ := r
        rw [hdv] at hok
        cases fs' with
        | nil => simp at hok
        | cons name an ty bits rest =>
          cases bits with
          | some b => simp at hok
          | none =>
            simp only [Bool.and_eq_true, beq_iff_eq, Bool.not_eq_true'] at hok
            obtain ⟨⟨⟨hnm, hd⟩, hpos⟩, hok⟩ := hok
            obtain ⟨ctx', k, zs, ipos', ibb', hsk, hz, hrf, hinv', hsub'⟩ :=
              dropVoids_sim cfg al data start vst st.pos st.bb fs offs _ _ _ _ st.ctx ipos ibb rfl hdv hinv
                (by intro h; rw [hd] at h; simp at h) hsub
            obtain ⟨hq, hso⟩ := posOK_pos hinv' hpos
            have hbb : st.bb = BitBuf.empty := by
              have := hinv'.bb; rw [hd, if_neg (by simp)] at this; exact this.1
            subst hnm
            simp only [exec, hsk, ne_eq, not_true_eq_false, if_false]
            cases hr : read cfg ty ctx' data st.pos with
            | error e =>
              show Sim (wrapR k [] (.error e)) _
              refine sim_skip hz hrf ?_
              rw [readFields_nb_err _ _ _ _ _ _ _ _ _ _ _ _ e (by rw [hq]; exact hr)]
              exact sim_err _ _
            | ok vp =>
              obtain ⟨v, p⟩ := vp
              show Sim (wrapR (k ∘ Vals.cons v) ([] ++ [(name, p - st.pos)])
                (exec cfg salign start data is rest { pos := p, bb := st.bb, ctx := ctx'.set name v })) _
              rw [← wrapR_wrapR]
              refine sim_skip hz hrf ?_
              rw [readFields_nb_ok _ _ _ _ _ _ _ _ _ _ _ _ v p (by rw [hq]; exact hr), finR_wrapR, hq]
              refine sim_wrap _ _ _ rfl ?_
              refine ih rest _ _ _ p BitBuf.empty hok ?_ hsub'.2
              refine ⟨?_, Or.inr rfl, (by intro _ a ha; cases ha), hbb, ?_⟩
              · intro k1 hk1
                simp only at hk1
                split at hk1
                · rename_i o k0 z ho hk0 hz
                  split at hk1
                  · cases hk1
                  rename_i hns
                  simp only [Bool.not_eq_true] at hns
                  simp only [Option.some.injEq] at hk1
                  subst hk1
                  have hk0' := hso o ho
                  rw [hk0] at hk0'
                  simp only [Option.some.injEq] at hk0'
                  subst hk0'
                  have hsp := hinv'.spos k0 hk0
                  have := hsub'.1 rfl hns k0 z ho hz ctx' v p (by rw [← hsp]; exact hr)
                  show p = start + (k0 + z)
                  omega
                · cases hk1
              · show (if false = true then _ else _)
                rw [if_neg (by simp)]
                exact ⟨hbb, Or.inl rfl⟩
    | bits nm n via =>
      simp only [planOKAux] at hok
      cases hdv : dropVoids cfg al fs offs vst.spos with
      | none => rw [hdv] at hok; simp at hok
      | some r =>
        obtain ⟨fs', offs', skipped⟩ := r
        rw [hdv] at hok
        cases fs' with
        | nil => simp at hok
        | cons name an ty bits rest =>
          cases bits with
          | none => simp at hok
          | some b =>
            simp only at hok
            cases hbv : bitsVia ty via with
            | none => rw [hbv] at hok; simp at hok
            | some ft =>
              cases hbb : ty.bitBase with
              | none => rw [hbv, hbb] at hok; simp at hok
              | some ft' =>
                cases hfs : ft.size with
                | none => rw [hbv, hbb] at hok; simp only [hfs] at hok; cases hok
                | some fsz =>
                  rw [hbv, hbb] at hok
                  simp only [hfs, Bool.and_eq_true, beq_iff_eq, Bool.not_eq_true', bne_iff_ne, ne_eq, decide_eq_true_eq] at hok
                  obtain ⟨⟨⟨⟨⟨⟨⟨hnm, hbn⟩, hn0⟩, hft⟩, hsd⟩, hpos⟩, hle⟩, hok⟩ := hok
                  subst hnm; subst hbn; subst hft
                  obtain ⟨ctx', k, zs, ipos', ibb', hsk, hz, hrf, hinv', hsub'⟩ :=
                    dropVoids_sim cfg al data start vst st.pos st.bb fs offs _ _ _ _ st.ctx ipos ibb rfl hdv hinv
                      (by intro h; rw [h.1, h.2] at hsd; simp at hsd) hsub
                  obtain ⟨hq, _⟩ := posOK_pos hinv' hpos
                  have hibb : ibb' = st.bb := by
                    have := hinv'.bb
                    by_cases hd : vst.dirty = true
                    · rw [if_pos hd] at this; exact this
                    · rw [if_neg hd] at this
                      rcases this.2 with h | h
                      · rw [h, this.1]
                      · simp [nonBitHead] at h
                  subst hibb
                  obtain ⟨b', rfl⟩ : ∃ b', b = b' + 1 := ⟨b - 1, by omega⟩
                  have hnext : ∀ bb1 p1 v bb2, loadUnit cfg ft st.bb data st.pos = .ok (bb1, p1) →
                      bb1.take cfg.endian (b' + 1) = some (v, bb2) →
                      ∃ vst', planOKAux cfg al salign is rest (offs'.drop 1) vst' = true ∧
                        Inv start vst' rest (offs'.drop 1) p1 bb2 p1 bb2 := by
                    intro bb1 p1 v bb2 hl ht
                    cases hvu : vst.unit with
                    | none =>
                      have hu := hinv'.unit
                      rw [hvu] at hu
                      simp only [hvu] at hok
                      refine ⟨_, hok, bits_inv hinv' hl hfs ht true (fsz * 8) ?_ (by simp) ?_ ?_ rfl rfl rfl⟩
                      · simp only at hu; rw [hu]; simp [BitBuf.empty]
                      · intro k0 hk0; simp only [hk0]
                      · intro hk0; simp only [hk0]
                    | some ur =>
                      obtain ⟨u, r⟩ := ur
                      have hu := hinv'.unit
                      rw [hvu] at hu
                      simp only at hu
                      simp only [hvu] at hok
                      refine ⟨_, hok, bits_inv hinv' hl hfs ht (r == 0 || u != ft)
                        (if (r == 0 || u != ft) = true then fsz * 8 else r) ?_ (by rw [hu.2]) ?_ ?_ rfl rfl rfl⟩
                      · rw [hu.1, hu.2]
                        simp only [Bool.or_eq_true, beq_iff_eq, bne_iff_ne, ne_eq, Option.some.injEq]
                      · intro k0 hk0; simp only [hk0]
                      · intro hk0; simp only [hk0]
                  simp only [exec, hsk, hbv]
                  rw [if_neg (by simp)]
                  split
                  · rename_i e hl
                    have hl' : loadUnit cfg ft st.bb data st.pos = .error e := hl
                    rw [hrf, readFields_bits_lerr _ _ _ _ _ _ _ _ _ _ _ _ _ ft e hbb (by rw [hq]; exact hl')]
                    exact sim_err _ _
                  · rename_i bb1 p1 hl
                    have hl' : loadUnit cfg ft st.bb data st.pos = .ok (bb1, p1) := hl
                    split
                    · rename_i ht
                      rw [hrf, readFields_bits_terr _ _ _ _ _ _ _ _ _ _ _ _ _ ft bb1 p1 hbb (by rw [hq]; exact hl') ht]
                      exact sim_err _ _
                    · rename_i v bb2 ht
                      show Sim (wrapR (k ∘ Vals.cons (bitVal ty v)) ([] ++ [])
                        (exec cfg salign start data is rest { pos := p1, bb := bb2, ctx := ctx'.set name (bitVal ty v) })) _
                      rw [← wrapR_wrapR]
                      refine sim_skip hz hrf ?_
                      rw [readFields_bits_ok _ _ _ _ _ _ _ _ _ _ _ _ _ ft bb1 p1 v bb2 hbb (by rw [hq]; exact hl') ht,
                        finR_wrapR]
                      refine sim_wrap _ _ _ rfl ?_
                      obtain ⟨vst', hok', hinv''⟩ := hnext bb1 p1 v bb2 hl' ht
                      exact ih rest _ vst' { pos := p1, bb := bb2, ctx := ctx'.set name (bitVal ty v) } p1 bb2 hok' hinv'' hsub'.2
    | block size fmt slots =>
      simp only [planOKAux] at hok
      split at hok
      · cases hok
      · rename_i hd
        simp only [Bool.not_eq_true] at hd
        cases hdv : dropVoids cfg al fs offs vst.spos with
        | none => rw [hdv] at hok; simp at hok
        | some r =>
          obtain ⟨fs0, offs0, skipped⟩ := r
          rw [hdv] at hok
          cases hfi : fmtItemsOf fmt size with
          | none => rw [hfi] at hok; simp at hok
          | some its =>
            rw [hfi] at hok
            simp only at hok
            obtain ⟨ctx0, k, zs, ipos', ibb', hsk, hz, hrf, hinv', hsub'⟩ :=
              dropVoids_sim cfg al data start vst st.pos st.bb fs offs _ _ _ _ st.ctx ipos ibb rfl hdv hinv
                (by intro h; rw [hd] at h; simp at h) hsub
            have hbb : st.bb = BitBuf.empty := by
              have := hinv'.bb; rw [hd, if_neg (by simp)] at this; exact this.1
            simp only [exec, hsk, hfi]
            cases hre : readExact data st.pos size with
            | error e =>
              rw [readExact_error hre]
              exact sim_eof _
            | ok bp =>
              obtain ⟨buf, p⟩ := bp
              have hp : p = st.pos + size := readExact_pos hre
              simp only
              cases hso : slotsOK cfg al its size vst.spos vst.lastAlign slots fs0 offs0 true 0 with
              | none => rw [hso] at hok; simp at hok
              | some r =>
                obtain ⟨fs', offs', cur⟩ := r
                rw [hso] at hok
                simp only [Bool.and_eq_true, beq_iff_eq] at hok
                obtain ⟨hcs, hok⟩ := hok
                subst hcs
                cases slots with
                | nil =>
                  rw [slotsOK] at hso
                  cases hso
                  rw [execSlots_nil]
                  show Sim (wrapR (k ∘ exec.Vals.append .nil) ([] ++ [])
                    (exec cfg salign start data is fs0 { pos := p, bb := st.bb, ctx := ctx0 })) _
                  rw [← wrapR_wrapR, wrapR_append_nil]
                  refine sim_skip hz hrf ?_
                  refine ih fs0 offs0 _ _ ipos' ibb' hok ?_ hsub'
                  have hp0 : p = st.pos := by omega
                  subst hp0
                  refine ⟨?_, hinv'.pos, ?_, hbb, ?_⟩
                  · intro k1 hk1
                    cases hs : vst.spos with
                    | none => rw [hs] at hk1; cases hk1
                    | some k0 =>
                      rw [hs] at hk1
                      cases hk1
                      have := hinv'.spos k0 hs
                      show st.pos = start + (k0 + 0)
                      omega
                  · intro hs a ha
                    refine hinv'.la ?_ a ha
                    intro h0; apply hs; show vst.spos.map _ = none; rw [h0]; rfl
                  · show (if false = true then _ else _)
                    rw [if_neg (by simp)]
                    have := hinv'.bb; rw [hd, if_neg (by simp)] at this; exact this
                | cons sl rest =>
                  have hsim := slots_sim cfg al data buf start st.pos cur p its vst.spos vst.lastAlign hre hinv'.spos
                    hinv'.la (sl :: rest) fs0 offs0 true 0 fs' offs' cur ctx0 ipos' ibb' hso
                    (by unfold SPre; rw [if_pos rfl]; exact ⟨rfl, hinv'.pos⟩) hsub'
                  cases hes : execSlots cfg buf its (sl :: rest) fs0 ctx0 with
                  | error e =>
                    rw [hes] at hsim
                    obtain ⟨e', he'⟩ := hsim
                    rw [hrf, he']
                    exact sim_err _ _
                  | ok x =>
                    obtain ⟨vs1, szs1, fs'', ctx'⟩ := x
                    rw [hes] at hsim
                    obtain ⟨hfs, zs', ipos'', ibb'', hnz, hrf', hpre', hsub''⟩ := hsim
                    subst hfs
                    show Sim (wrapR (k ∘ exec.Vals.append vs1) ([] ++ szs1)
                      (exec cfg salign start data is fs'' { pos := p, bb := st.bb, ctx := ctx' })) _
                    rw [← wrapR_wrapR]
                    refine sim_skip hz hrf ?_
                    rw [hrf', finR_wrapR]
                    refine sim_wrap _ _ _ hnz.symm ?_
                    unfold SPre at hpre'
                    rw [if_neg (by simp)] at hpre'
                    obtain ⟨hi, hib⟩ := hpre'
                    subst hib
                    refine ih fs'' offs' _ _ ipos'' BitBuf.empty hok ?_ hsub''
                    refine ⟨?_, Or.inr (by show ipos'' = p; omega), (by intro _ a ha; cases ha), hbb, ?_⟩
                    · intro k1 hk1
                      cases hs : vst.spos with
                      | none => rw [hs] at hk1; cases hk1
                      | some k0 =>
                        rw [hs] at hk1
                        cases hk1
                        have := hinv'.spos k0 hs
                        show p = start + (k0 + cur)
                        omega
                    · show (if false = true then _ else _)
                      rw [if_neg (by simp)]
                      exact ⟨hbb, Or.inl rfl⟩

end Cstruct.Compiler
