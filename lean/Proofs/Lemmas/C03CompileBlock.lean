/-
  Helper lemmas for `Proofs/C03Compile.lean`, part 5: the block instruction that `_generate_packed` emits for the pending
  members is accepted by the block validator (`slots_ok`, `block_ok`).
-/
import Proofs.Lemmas.C03CompileSlots

namespace Cstruct.Compiler
open Cstruct Cstruct.Core.Lemmas

theorem map_add_zero (c : Option Nat) : c.map (· + 0) = c := by cases c <;> rfl

theorem map_id_fun' (c : Option Nat) : c.map (fun x => x) = c := by cases c <;> rfl

theorem map_map_add (c : Option Nat) (a b : Nat) : (c.map (· + a)).map (· + b) = c.map (· + (a + b)) := by
  cases c with
  | none => rfl
  | some k => simp [Nat.add_assoc]

/-- the alignment padding in front of a member of the block, `size` bytes into a block that starts at `bstart` -/
def padOf (al : Bool) (bstart : Option Nat) (size fa : Nat) : Nat :=
  match bstart with
  | some k => if al then padNat (k + size) fa else 0
  | none => 0

theorem alignOpt_eq (al : Bool) (bstart : Option Nat) (size fa : Nat) :
    alignOpt al (bstart.map (· + size)) fa = bstart.map (· + (size + padOf al bstart size fa)) := by
  cases bstart with
  | none => rfl
  | some k => cases al <;> simp [alignOpt, padOf, Nat.add_assoc]

theorem drift1_eq (al : Bool) (bstart : Option Nat) (size fa : Nat) :
    drift1 (bstart.map (· + (size + padOf al bstart size fa))) (bstart.map (· + size)) = .ok (padOf al bstart size fa) := by
  cases bstart with
  | none => rfl
  | some k =>
    simp only [Option.map_some, drift1]
    congr 1
    omega

theorem padNat_zero_left {a : Nat} (ha : IsP2 a) : padNat 0 a = 0 := by
  rw [padNat_p2_eq ha]; simp

/-- dynamically placed blocks: a packed structure has no alignment statement pending; an aligned structure has one
    member per block, aligned by the statement in front of the block -/
def DynOK (cfg : Cfg) (al : Bool) (bstart la : Option Nat) (B : List CField) (first : Bool) (imag : Nat) : Prop :=
  bstart = none → (al = false → la = none) ∧
    (al = true → B = [] ∨ ∃ f, B = [f] ∧ first = true ∧ imag = 0 ∧
      (la = some (f.ty.alignment cfg) ∨ (la = none ∧ f.ty.alignment cfg = 1)))

theorem DynOK.tail {cfg : Cfg} {al : Bool} {bstart la : Option Nat} {f : CField} {B : List CField} {first : Bool}
    {imag : Nat} (h : DynOK cfg al bstart la (f :: B) first imag) (first' : Bool) (imag' : Nat) :
    DynOK cfg al bstart la B first' imag' := by
  intro hb
  obtain ⟨h1, h2⟩ := h hb
  refine ⟨h1, fun hal => ?_⟩
  rcases h2 hal with h | ⟨g, hg, _⟩
  · cases h
  · left
    simp only [List.cons.injEq] at hg
    exact hg.2

theorem drift2_zero (cfg : Cfg) (al : Bool) (bstart la : Option Nat) (f : CField) (B : List CField) (first : Bool)
    (imag size A : Nat) (hoff : f.off = bstart.map (· + A)) (hm : Member cfg al f)
    (hdyn : DynOK cfg al bstart la (f :: B) first imag) : drift2 cfg al f imag = 0 := by
  unfold drift2
  cases bstart with
  | some k => simp [hoff]
  | none =>
    cases hal : al with
    | false => simp
    | true =>
      obtain ⟨_, h2⟩ := hdyn rfl
      rcases h2 hal with h | ⟨g, hg, _, him, _⟩
      · cases h
      · subst him
        simp only [hoff, Option.map_none, Option.isNone_none, and_self, if_true]
        exact padNat_zero_left (hm.p2 hal)

/-- the entry of a non-void member -/
theorem entry_spec (f : CField) (s : Scalar) (count esz : Nat) (entry : List Info)
    (h : entryInfo f s count esz = .ok entry) (hsz : s.size = some esz)
    (hk : isPacked s = true ∨ (isPacked s = false ∧ isByteBased s = true)) :
    ∃ n c, entry = [⟨some f, n, c⟩] ∧ FmtChar c ∧
      ∀ (l : List (Nat × Char)) (off : Nat) (its' : List Item) (t : Nat),
        fmtItems l (off + count * esz) = some (its', t) →
        fmtItems ((n, c) :: l) off = some ((if isPacked s = true then replicateItems s esz count off else []) ++ its', t) := by
  unfold entryInfo at h
  rcases hk with hp | ⟨hp, hb⟩
  · rw [if_pos hp] at h
    split at h
    · rename_i c hc
      cases h
      obtain ⟨h1, h2, h3, h4⟩ := packChar_spec hc
      refine ⟨count, c, rfl, h3, ?_⟩
      intro l off its' t hl
      rw [hsz] at h2
      simp only [fmtItems, if_neg h4, h1, h2, hl, hp, if_true]
    · cases h
  · rw [if_neg (by simp [hp]), if_pos hb] at h
    cases h
    refine ⟨count * esz, 'x', rfl, Or.inl rfl, ?_⟩
    intro l off its' t hl
    simp only [fmtItems, if_true, hl, hp, Bool.false_eq_true, if_false, List.nil_append]

theorem packedSlots_entry (cfg : Cfg) (f : CField) (n : Nat) (c : Char) (l : List Info) (A si : Nat)
    (s : Scalar) (cnt : Option Nat) (esz fsz : Nat) (hrt : readType cfg f.ty = some (s, cnt)) (hsz : s.size = some esz)
    (hts : f.ty.size cfg = some fsz) :
    packedSlots cfg (⟨some f, n, c⟩ :: l) A si =
      match packedSlots cfg l (A + fsz) (slotSrc s cnt esz A si).2 with
      | .error e => .error e
      | .ok (sls, tot) => .ok (⟨f.name, (slotSrc s cnt esz A si).1, slotDec f.ty s esz, fsz⟩ :: sls, tot) := by
  rw [packedSlots]
  simp only [hrt, hts, hsz]
  cases packedSlots cfg l (A + fsz) (slotSrc s cnt esz A si).2 with
  | error e => rfl
  | ok r => rfl

/-- the members of a block, walked by the generator (`structInfo`, `packedSlots`, the format) and by the block validator
    at the same time -/
theorem slots_ok (cfg : Cfg) (al : Bool) (bsize : Nat) (bstart la : Option Nat) :
    ∀ {B : List CField} {fsV : Fields} {offsV : List (Option Nat)} {fs : Fields} {offs : List (Option Nat)},
    Pending B fsV offsV fs offs → (∀ f ∈ B, Member cfg al f) → VoidsFresh B →
    ∀ (size si imag : Nat) (e : Option Nat) (info : List Info) (slots : List Slot) (tot : Nat) (first : Bool),
      Chain cfg al B (bstart.map (· + size)) e →
      structInfo cfg al B (bstart.map (· + size)) imag = .ok info →
      packedSlots cfg info size si = .ok (slots, tot) →
      tot ≤ bsize →
      DynOK cfg al bstart la B first imag →
      e = bstart.map (· + tot) ∧ (slots = [] → ∀ f ∈ B, isVoid f.ty = true) ∧
        ∃ its, fmtItems (infoPairs info) size = some (its, tot) ∧
        ∀ pre : List Item, pre.length = si → ∃ fsE offsE,
          slotsOK cfg al (pre ++ its) bsize bstart la slots fsV offsV first size = some (fsE, offsE, tot) ∧
          dv cfg al fsE offsE (bstart.map (· + tot)) = dv cfg al fs offs (bstart.map (· + tot)) := by
  intro B fsV offsV fs offs hp
  induction hp with
  | nil fs offs =>
    intro _ _ size si imag e info slots tot first hc hsi hps _ _
    rw [structInfo] at hsi
    cases hsi
    rw [packedSlots] at hps
    cases hps
    simp only [Chain] at hc
    refine ⟨hc.symm, (fun _ f hf => by cases hf), [], rfl, fun pre _ => ⟨fs, offs, ?_, rfl⟩⟩
    rw [slotsOK.eq_def]
  | @cons name an ty o B' fsV' offsV' fs offs hp' ih =>
    intro hm hvf size si imag e info slots tot first hc hsi hps htot hdyn
    have hmf : Member cfg al ⟨name, ty, o⟩ := hm _ List.mem_cons_self
    have hmB : ∀ f ∈ B', Member cfg al f := fun f hf => hm f (List.mem_cons_of_mem _ hf)
    obtain ⟨hc1, hc2⟩ := hc
    simp only at hc1 hc2
    by_cases hv : isVoid ty = true
    · -- a void member: no entry, no slot
      obtain ⟨a, rfl⟩ := isVoid_sc hv
      have hp0 : padOf al bstart size ((Ty.sc .void a).alignment cfg) = 0 := by
        unfold padOf
        cases bstart with
        | none => rfl
        | some k =>
          cases hal : al with
          | false => rfl
          | true => simp only [if_true]; rw [hmf.voidAlign hv hal, padNat_one]
      rw [alignOpt_eq, hp0, Nat.add_zero] at hc1
      subst hc1
      have hd1 := drift1_eq al bstart size ((Ty.sc .void a).alignment cfg)
      rw [hp0, Nat.add_zero] at hd1
      have hd2 := drift2_zero cfg al bstart la ⟨name, .sc .void a, bstart.map (· + size)⟩ B' first imag size size rfl hmf hdyn
      rw [structInfo] at hsi
      simp only at hsi
      rw [hd1] at hsi
      simp only [readType, hd2, true_and, Option.isNone_none, if_true, map_id_fun', Nat.add_zero, padInfo,
        Nat.lt_irrefl, if_false, List.nil_append] at hsi
      have hts : (Ty.sc .void a).size cfg = some 0 := rfl
      rw [hts] at hc2
      have hc2' : Chain cfg al B' (bstart.map (· + size)) e := by
        cases bstart <;> simpa [addOpt] using hc2
      split at hsi
      · cases hsi
      · rename_i info' hsi'
        obtain rfl : info' = info := by simpa using hsi
        obtain ⟨he, hvd, its, hfi, hall⟩ := ih hmB hvf.2 size si imag e info' slots tot first hc2' hsi' hps htot (hdyn.tail _ _)
        refine ⟨he, ?_, its, hfi, fun pre hpre => ?_⟩
        · intro hs f hf
          rcases List.mem_cons.mp hf with rfl | hf
          · exact hv
          · exact hvd hs f hf
        obtain ⟨fsE, offsE, hso, hdv⟩ := hall pre hpre
        cases slots with
        | nil =>
          rw [slotsOK.eq_def] at hso
          simp only [Option.some.injEq, Prod.mk.injEq] at hso
          obtain ⟨rfl, rfl, rfl⟩ := hso
          refine ⟨_, _, by rw [slotsOK.eq_def], ?_⟩
          rw [dv_void _ _ _ _ _ _ _ _ hv, List.drop_one, List.tail_cons, hdv]
          simp only [voidOK, hdOff]
          cases bstart with
          | some k => simp
          | none =>
            cases hal : al with
            | false => simp
            | true => simp [hmf.voidAlign hv hal]
        | cons sl rest =>
          have hne : name ≠ sl.name := by
            obtain ⟨g, hg, hgn⟩ := slots_names cfg al B' _ _ _ hsi' _ _ _ _ hps sl List.mem_cons_self
            rw [← hgn]
            exact (hvf.1 hv g hg).symm
          rw [slotsOK_void cfg al _ bsize bstart la sl rest name an _ fsV' _ offsV' first size hv hne rfl
            (fun hb hal => hmf.voidAlign hv hal)]
          exact ⟨fsE, offsE, hso, hdv⟩
    · -- a member with an entry and a slot
      have hv' : isVoid ty = false := by simpa using hv
      obtain ⟨s, cnt, esz, hrt, hnvd, hsz, hts, hdec, hk⟩ := hmf.nonvoid hv'
      simp only at hrt hts hdec
      rw [alignOpt_eq] at hc1
      have hd1 := drift1_eq al bstart size (ty.alignment cfg)
      generalize hpd : padOf al bstart size (ty.alignment cfg) = p at hc1 hd1
      subst hc1
      have hd2 := drift2_zero cfg al bstart la ⟨name, ty, bstart.map (· + (size + p))⟩ B' first imag size _ rfl hmf hdyn
      rw [structInfo] at hsi
      simp only at hsi
      rw [hd1] at hsi
      simp only [hrt, if_neg hnvd, hsz, hd2, Nat.add_zero, map_map_add] at hsi
      split at hsi
      · cases hsi
      · rename_i entry hen
        split at hsi
        · cases hsi
        · rename_i info' hsi'
          obtain rfl : padInfo p ++ padInfo 0 ++ entry ++ info' = info := by simpa using hsi
          obtain ⟨n, c, rfl, hfc, hfm⟩ := entry_spec _ s (cnt.getD 1) esz entry hen hsz hk
          have hpi0 : padInfo 0 = [] := rfl
          rw [hpi0, List.append_nil, List.append_assoc, packedSlots_pad, List.cons_append, List.nil_append,
            packedSlots_entry cfg ⟨name, ty, bstart.map (· + (size + p))⟩ n c info' (size + p) si s cnt esz _ hrt hsz hts] at hps
          split at hps
          · cases hps
          · rename_i slots' tot' hps'
            simp only [Except.ok.injEq, Prod.mk.injEq] at hps
            obtain ⟨rfl, rfl⟩ := hps
            rw [hts] at hc2
            have hc2' : Chain cfg al B' (bstart.map (· + (size + p + cnt.getD 1 * esz))) e := by
              cases bstart <;> simpa [addOpt, Nat.add_assoc] using hc2
            obtain ⟨he, _, its', hfi', hall⟩ := ih hmB hvf.2 (size + p + cnt.getD 1 * esz) _ _ e info' slots' tot' false hc2'
              hsi' hps' htot (hdyn.tail _ _)
            refine ⟨he, (fun h => by cases h),
              (if isPacked s = true then replicateItems s esz (cnt.getD 1) (size + p) else []) ++ its', ?_, ?_⟩
            · rw [hpi0, List.append_nil, List.append_assoc, fmtItems_pad]
              exact hfm _ _ _ _ hfi'
            · intro pre hpre
              have hlen : (pre ++ (if isPacked s = true then replicateItems s esz (cnt.getD 1) (size + p) else [])).length =
                  (slotSrc s cnt esz (size + p) si).2 := by
                rw [slotSrc_snd, List.length_append, hpre]
                rcases hk with hp | ⟨hp, hb⟩
                · rw [if_pos hp, isPacked_not_byteBased hp, replicateItems_length]; simp
                · rw [if_neg (by simp [hp]), if_pos hb]; rfl
              obtain ⟨fsE, offsE, hso, hdv⟩ := hall _ hlen
              refine ⟨fsE, offsE, ?_, hdv⟩
              obtain ⟨a0, b0, hsr, hd, hab⟩ := slotRange_member cfg ty s cnt esz hrt hsz hdec hk name
                (cnt.getD 1 * esz) (size + p) size pre its'
              rw [hpre] at hsr
              rw [← List.append_assoc, slotsOK_member cfg al _ bsize bstart la _ slots' name an ty fsV' _ offsV' first size
                (size + p) (cnt.getD 1 * esz) a0 b0 hv' rfl hsr hts rfl hd hab (by omega)
                (by have := packedSlots_le cfg _ _ _ _ _ hps'; omega) ?_]
              · exact hso
              · refine ⟨rfl, fun hb => ?_⟩
                subst hb
                have hp0 : p = 0 := by rw [← hpd]; rfl
                obtain ⟨h1, h2⟩ := hdyn rfl
                refine ⟨by omega, fun hal => ?_, h1⟩
                rcases h2 hal with h | ⟨g, hg, hf, _, hla⟩
                · cases h
                · simp only [List.cons.injEq] at hg
                  obtain ⟨rfl, _⟩ := hg
                  exact ⟨hf, hla⟩

/-- every info entry carries a format character -/
theorem structInfo_fmtchars (cfg : Cfg) (al : Bool) : ∀ (B : List CField) (cur : Option Nat) (imag : Nat) (info : List Info),
    structInfo cfg al B cur imag = .ok info → ∀ i ∈ info, FmtChar i.char
  | [], _, _, info, h => by
    rw [structInfo] at h
    cases h
    intro i hi
    cases hi
  | g :: rest, cur, imag, info, h => by
    have hpad : ∀ d, ∀ i ∈ padInfo d, FmtChar i.char := by
      intro d i hi
      unfold padInfo at hi
      split at hi
      · simp only [List.mem_singleton] at hi
        subst hi
        exact Or.inl rfl
      · cases hi
    rw [structInfo] at h
    split at h
    · cases h
    · simp only at h
      split at h
      · cases h
      · split at h
        · split at h
          · cases h
          · rename_i is heq
            cases h
            intro i hi
            simp only [List.mem_append] at hi
            rcases hi with (hi | hi) | hi
            · exact hpad _ i hi
            · exact hpad _ i hi
            · exact structInfo_fmtchars cfg al rest _ _ _ heq i hi
        · split at h
          · cases h
          · split at h
            · cases h
            · rename_i entry hen
              split at h
              · cases h
              · rename_i is heq
                cases h
                intro i hi
                simp only [List.mem_append] at hi
                rcases hi with ((hi | hi) | hi) | hi
                · exact hpad _ i hi
                · exact hpad _ i hi
                · unfold entryInfo at hen
                  split at hen
                  · split at hen
                    · rename_i c hc
                      cases hen
                      simp only [List.mem_singleton] at hi
                      subst hi
                      exact (packChar_spec hc).2.2.1
                    · cases hen
                  · split at hen
                    · cases hen
                      simp only [List.mem_singleton] at hi
                      subst hi
                      exact Or.inl rfl
                    · cases hen
                      cases hi
                · exact structInfo_fmtchars cfg al rest _ _ _ heq i hi

theorem genPacked_block (cfg : Cfg) (al : Bool) (B : List CField) (blk : Instr) (h : genPacked cfg al B = .ok blk) :
    ∃ size fmt slots, blk = .block size fmt slots := by
  unfold genPacked at h
  split at h
  · cases h
  · split at h
    · cases h
    · split at h
      · cases h
      · cases h
        exact ⟨_, _, _, rfl⟩

/-- the block instruction of the pending members, in front of a stream that is where the first member is read -/
theorem block_ok (cfg : Cfg) (al : Bool) (bstart la : Option Nat) {B : List CField} {fsV : Fields}
    {offsV : List (Option Nat)} {fs : Fields} {offs : List (Option Nat)} (hp : Pending B fsV offsV fs offs)
    (hm : ∀ f ∈ B, Member cfg al f) (hvf : VoidsFresh B) (e : Option Nat) (hc : Chain cfg al B bstart e)
    (f0 : CField) (B0 : List CField) (hB : B = f0 :: B0) (hoff : f0.off = bstart)
    (blk : Instr) (hg : genPacked cfg al B = .ok blk) (hdyn : DynOK cfg al bstart la B true 0) :
    ∃ size fmt slots its, blk = .block size fmt slots ∧ fmtItemsOf fmt size = some its ∧ e = bstart.map (· + size) ∧
      (slots = [] → ∀ f ∈ B, isVoid f.ty = true) ∧
      ∃ fsE offsE, slotsOK cfg al its size bstart la slots fsV offsV true 0 = some (fsE, offsE, size) ∧
        dv cfg al fsE offsE (bstart.map (· + size)) = dv cfg al fs offs (bstart.map (· + size)) := by
  subst hB
  unfold genPacked at hg
  simp only at hg
  split at hg
  · cases hg
  · rename_i info hsi
    split at hg
    · cases hg
    · rename_i slots size hps
      cases hg
      rw [hoff, ← map_add_zero bstart] at hsi
      rw [← map_add_zero bstart] at hc
      obtain ⟨he, hvd, its, hfi, hall⟩ := slots_ok cfg al size bstart la hp hm hvf 0 0 0 e info slots size true hc hsi hps
        (Nat.le_refl _) hdyn
      obtain ⟨fsE, offsE, hso, hdv⟩ := hall [] rfl
      rw [List.nil_append] at hso
      exact ⟨size, _, slots, its, rfl,
        fmtItemsOf_block info (structInfo_fmtchars cfg al _ _ _ _ hsi) its size hfi, he, hvd, fsE, offsE, hso, hdv⟩

end Cstruct.Compiler
