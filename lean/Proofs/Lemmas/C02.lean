/-
  Helper lemmas for `Proofs/C02.lean` (byte fidelity: read, then write): facts about `applyMask`, the data mask
  `tyMask`, scalars re-encoding to the bytes they were decoded from, and the mutual induction `rw_ty` / `rw_fields`
  ("parse, then dump, gives back the masked input slice") over fragment S.
-/
import Proofs.Spec.C02
import Proofs.Core
namespace Cstruct.C02.Lemmas
open Cstruct Cstruct.C02 Cstruct.Core Cstruct.Core.Lemmas

/-! ### `applyMask` -/

theorem applyMask_nil_left (bs : Bytes) : applyMask [] bs = [] := by cases bs <;> rfl

theorem applyMask_nil_right (m : List Bool) : applyMask m [] = [] := by cases m <;> rfl

theorem applyMask_length : ∀ (m : List Bool) (bs : Bytes), (applyMask m bs).length = min m.length bs.length
  | [], bs => by rw [applyMask_nil_left]; simp
  | _ :: _, [] => by rw [applyMask_nil_right]; simp
  | m :: ms, b :: bs => by
    simp only [applyMask, List.length_cons, applyMask_length ms bs]
    omega

theorem applyMask_append : ∀ (m1 m2 : List Bool) (b1 b2 : Bytes), m1.length = b1.length →
    applyMask (m1 ++ m2) (b1 ++ b2) = applyMask m1 b1 ++ applyMask m2 b2
  | [], m2, [], b2, _ => by simp [applyMask_nil_left]
  | [], _, _ :: _, _, h => by simp at h
  | _ :: _, _, [], _, h => by simp at h
  | m :: ms, m2, b :: bs, b2, h => by
    simp only [List.cons_append, applyMask]
    rw [applyMask_append ms m2 bs b2 (by simpa using h)]

theorem applyMask_true : ∀ (n : Nat) (bs : Bytes), bs.length = n → applyMask (List.replicate n true) bs = bs
  | 0, [], _ => rfl
  | 0, _ :: _, h => by simp at h
  | _ + 1, [], h => by simp at h
  | n + 1, b :: bs, h => by
    simp only [List.replicate_succ, applyMask, if_true]
    rw [applyMask_true n bs (by simpa using h)]

theorem applyMask_false : ∀ (n : Nat) (bs : Bytes), bs.length = n → applyMask (List.replicate n false) bs = zeros n
  | 0, [], _ => rfl
  | 0, _ :: _, h => by simp at h
  | _ + 1, [], h => by simp at h
  | n + 1, b :: bs, h => by
    simp only [List.replicate_succ, applyMask, zeros, Bool.false_eq_true, if_false]
    have := applyMask_false n bs (by simpa using h)
    simp only [zeros] at this
    rw [this]

/-- a gap, a member, the rest -/
theorem applyMask_three (d : Bytes) (s a k r : Nat) (m mr : List Bool) (hm : m.length = k)
    (hlen : s + a + k ≤ d.length) :
    applyMask (List.replicate a false ++ m ++ mr) (sread d s (a + k + r)) =
      zeros a ++ applyMask m (sread d (s + a) k) ++ applyMask mr (sread d (s + a + k) r) := by
  have l1 : (sread d s a).length = a := sread_length_of_le d s a (by omega)
  have l2 : (sread d (s + a) k).length = k := sread_length_of_le d (s + a) k (by omega)
  rw [sread_add, sread_add, applyMask_append, applyMask_append, applyMask_false a _ l1, Nat.add_assoc]
  · rw [List.length_replicate, l1]
  · rw [List.length_append, List.length_append, List.length_replicate, l1, l2, hm]

/-! ### Fragment S is plain and has no bit-fields -/

mutual
theorem fragS_plain (cfg : Cfg) : ∀ ty : Ty, ty.fragS cfg = true → ty.plain = true
  | .sc _ _, _ => rfl
  | .enum _ _ _, _ => rfl
  | .ptr _, _ => rfl
  | .arr e len, h => by
    simp only [Ty.fragS, Bool.and_eq_true] at h
    cases len with
    | fixed n => simp only [Ty.plain, Bool.true_and]; exact fragS_plain cfg e h.2
    | expr _ => simp at h
    | nullTerm => simp at h
    | eof => simp at h
  | .struct _ fs, h => by
    simp only [Ty.fragS] at h
    simp only [Ty.plain]; exact fragS_plain_fields cfg fs h
  | .union _ _, h => by simp [Ty.fragS] at h
theorem fragS_plain_fields (cfg : Cfg) : ∀ fs : Fields, Fields.fragS cfg fs = true → Fields.plain fs = true
  | .nil, _ => rfl
  | .cons _ _ t _ r, h => by
    simp only [Fields.fragS, Bool.and_eq_true] at h
    simp only [Fields.plain, Bool.and_eq_true]
    exact ⟨fragS_plain cfg t h.1.2, fragS_plain_fields cfg r h.2⟩
end

mutual
theorem fragS_noBits (cfg : Cfg) : ∀ ty : Ty, ty.fragS cfg = true → ty.noBits = true
  | .sc _ _, _ => rfl
  | .enum _ _ _, _ => rfl
  | .ptr _, _ => rfl
  | .arr e len, h => by
    simp only [Ty.fragS, Bool.and_eq_true] at h
    simp only [Ty.noBits]; exact fragS_noBits cfg e h.2
  | .struct _ fs, h => by
    simp only [Ty.fragS] at h
    simp only [Ty.noBits]; exact fragS_noBits_fields cfg fs h
  | .union _ _, h => by simp [Ty.fragS] at h
theorem fragS_noBits_fields (cfg : Cfg) : ∀ fs : Fields, Fields.fragS cfg fs = true → Fields.noBits fs = true
  | .nil, _ => rfl
  | .cons _ _ t bits r, h => by
    simp only [Fields.fragS, Bool.and_eq_true, Option.isNone_iff_eq_none] at h
    obtain ⟨⟨rfl, h1⟩, h2⟩ := h
    simp only [Fields.noBits, Bool.and_eq_true]
    exact ⟨⟨trivial, fragS_noBits cfg t h1⟩, fragS_noBits_fields cfg r h2⟩
end

/-- position facts of a successful read of a fragment-S type (from the window lemmas) -/
theorem pf_S (cfg : Cfg) (al : Bool) (d : Bytes) (ty : Ty) (hS : ty.fragS cfg = true)
    (hU : ty.uniformAlign al = true) (hP : ty.pow2Aligned cfg) : ElemPF cfg al ty d :=
  pf_ty cfg al d ty (fragS_plain cfg ty hS) (fragS_noBits cfg ty hS) hU hP

/-! ### The mask has the size of the type -/

mutual
theorem tyMask_length (cfg : Cfg) : ∀ ty : Ty, ty.fragS cfg = true → ∀ k, ty.size cfg = some k →
    (tyMask cfg ty).length = k
  | .sc s _, _, k, hk => by
    simp only [Ty.size] at hk
    simp only [tyMask, hk, Option.getD_some, List.length_replicate]
  | .enum b _ _, _, k, hk => by
    simp only [Ty.size] at hk
    simp only [tyMask, hk, Option.getD_some, List.length_replicate]
  | .ptr _, _, k, hk => by
    simp only [Ty.size] at hk
    simp only [tyMask, hk, Option.getD_some, List.length_replicate]
  | .union _ _, h, _, _ => by simp [Ty.fragS] at h
  | .arr e len, h, k, hk => by
    simp only [Ty.fragS, Bool.and_eq_true] at h
    cases len with
    | expr _ => simp at h
    | nullTerm => simp at h
    | eof => simp at h
    | fixed n =>
      simp only [Ty.size] at hk
      cases he : e.size cfg with
      | none => rw [he] at hk; cases hk
      | some k' =>
        rw [he] at hk; cases hk
        have ih := tyMask_length cfg e h.2 k' he
        simp only [tyMask, List.length_flatten, List.map_replicate, List.sum_replicate_nat, ih]
  | .struct al fs, h, k, hk => by
    simp only [Ty.fragS] at h
    rw [struct_size cfg al fs h] at hk
    cases hk
    have ih := fieldsMask_length cfg fs h al 0
    have h1 := le_endOff cfg al fs 0
    have h2 := le_alignTo al (endOff cfg al fs 0) (Fields.maxAlign cfg fs 0)
    simp only [tyMask, structLayout_S cfg al fs h, List.length_append, List.length_replicate, ih]
    omega
theorem fieldsMask_length (cfg : Cfg) : ∀ fs : Fields, Fields.fragS cfg fs = true → ∀ (al : Bool) (o : Nat),
    (fieldsMask cfg fs (offsS cfg al fs o) o).length = endOff cfg al fs o - o
  | .nil, _, _, _ => by simp [fieldsMask, endOff]
  | .cons _ _ ty bits r, h, al, o => by
    simp only [Fields.fragS, Bool.and_eq_true, Option.isNone_iff_eq_none] at h
    obtain ⟨⟨rfl, h1⟩, h2⟩ := h
    obtain ⟨k, hk⟩ := fragS_size cfg ty h1
    have hm := tyMask_length cfg ty h1 k hk
    have ih := fieldsMask_length cfg r h2 al (alignTo al o (ty.alignment cfg) + k)
    have hle := le_alignTo al o (ty.alignment cfg)
    have hle2 := le_endOff cfg al r (alignTo al o (ty.alignment cfg) + k)
    simp only [offsS, endOff, hk, Option.getD_some, fieldsMask, List.headD_cons, List.drop_succ_cons, List.drop_zero,
      List.length_append, List.length_replicate, hm, ih]
    omega
end

/-! ### Scalars: the value re-encodes to exactly the bytes it was decoded from -/

theorem fragS_sc_of_isInt (cfg : Cfg) (s : Scalar) (a : Nat) (h : Scalar.isInt s = true) :
    (Ty.sc s a).fragS cfg = true := by
  cases s <;> simp [Scalar.isInt] at h <;> rfl

theorem scalar_rw (cfg : Cfg) (s : Scalar) (a : Nat) (hS : (Ty.sc s a).fragS cfg = true) (d : Bytes) (pos : Nat)
    (v : Val) (p : Nat) (h : readScalar cfg s d pos = .ok (v, p)) :
    ∃ k, s.size = some k ∧ p = pos + k ∧ (sread d pos k).length = k ∧ writeScalar cfg s v = .ok (sread d pos k) := by
  cases s with
  | pint n sg =>
    simp only [readScalar, bind, pure] at h
    obtain ⟨⟨bs, q⟩, h1, h2⟩ := bind_ok h
    obtain ⟨hl, hr⟩ := readExact_ok h1
    cases hr; cases h2
    refine ⟨n, rfl, rfl, hl, ?_⟩
    have := (C05.c05_int_roundtrip_bytes cfg.endian sg (sread d pos n)).2
    rw [hl] at this
    simp only [writeScalar, this]
  | aint n sg =>
    simp only [readScalar, bind, pure] at h
    obtain ⟨⟨bs, q⟩, h1, h2⟩ := bind_ok h
    obtain ⟨hl, hr⟩ := readExact_ok h1
    cases hr; cases h2
    refine ⟨n, rfl, rfl, hl, ?_⟩
    have := (C05.c05_int_roundtrip_bytes cfg.endian sg (sread d pos n)).2
    rw [hl] at this
    simp only [writeScalar, this]
  | pflt n =>
    simp only [readScalar, bind, pure] at h
    obtain ⟨⟨bs, q⟩, h1, h2⟩ := bind_ok h
    obtain ⟨hl, hr⟩ := readExact_ok h1
    cases hr; cases h2
    refine ⟨n, rfl, rfl, hl, ?_⟩
    have h1 := C05.Lemmas.decodeNat_lt cfg.endian (sread d pos n)
    have h2 := C05.Lemmas.encBytes_decodeNat cfg.endian (sread d pos n)
    rw [hl] at h1 h2
    have heq : ∀ u, encodeBits cfg.endian n u = C05.Lemmas.encBytes cfg.endian n u := fun _ => rfl
    simp only [writeScalar, if_pos h1, heq, h2]
  | char =>
    simp only [readScalar, bind, pure] at h
    obtain ⟨⟨bs, q⟩, h1, h2⟩ := bind_ok h
    obtain ⟨hl, hr⟩ := readExact_ok h1
    cases hr; cases h2
    exact ⟨1, rfl, rfl, hl, rfl⟩
  | void =>
    simp only [readScalar] at h
    cases h
    exact ⟨0, rfl, rfl, by simp [sread_zero], by simp [sread_zero, writeScalar]⟩
  | wchar => simp [Ty.fragS] at hS
  | leb sg => simp [Ty.fragS] at hS

/-- the mask of a scalar-sized type is all data -/
theorem applyMask_scalar (d : Bytes) (pos k : Nat) (h : (sread d pos k).length = k) :
    applyMask (List.replicate k true) (sread d pos k) = sread d pos k :=
  applyMask_true k _ h

/-! ### Arrays -/

theorem readScalar_int (cfg : Cfg) (s : Scalar) (hi : Scalar.isInt s = true) (d : Bytes) (pos : Nat) (v : Val) (p : Nat)
    (h : readScalar cfg s d pos = .ok (v, p)) : ∃ i, v = .int i := by
  cases s with
  | pint n sg =>
    simp only [readScalar, bind, pure] at h
    obtain ⟨⟨bs, q⟩, _, h2⟩ := bind_ok h
    cases h2; exact ⟨_, rfl⟩
  | aint n sg =>
    simp only [readScalar, bind, pure] at h
    obtain ⟨⟨bs, q⟩, _, h2⟩ := bind_ok h
    cases h2; exact ⟨_, rfl⟩
  | pflt n => simp [Scalar.isInt] at hi
  | char => simp [Scalar.isInt] at hi
  | wchar => simp [Scalar.isInt] at hi
  | leb sg => simp [Scalar.isInt] at hi
  | void => simp [Scalar.isInt] at hi

theorem readN_length (cfg : Cfg) (e : Ty) (ctx : Ctx) (d : Bytes) : ∀ (n pos : Nat) (vs : Vals) (p : Nat),
    readN cfg e n ctx d pos = .ok (vs, p) → vs.length = n := by
  intro n
  induction n with
  | zero => intro pos vs p h; rw [readN_zero] at h; cases h; rfl
  | succ n ih =>
    intro pos vs p h
    rw [readN_succ] at h
    obtain ⟨⟨v, p1⟩, _, h2⟩ := bind_ok h
    obtain ⟨⟨vs', p'⟩, h3, h4⟩ := bind_ok h2
    cases h4
    simp only [Vals.length, ih _ _ _ h3]

/-- converse of `readN_bulk`: when the bytes are there, the element loop of a bulk scalar succeeds -/
theorem readN_of_bulk (cfg : Cfg) (s : Scalar) (a k : Nat) (dec : Bytes → Val) (hB : Bulk cfg s k dec) (ctx : Ctx)
    (d : Bytes) : ∀ (n pos : Nat), (sread d pos (k * n)).length = k * n →
      readN cfg (.sc s a) n ctx d pos =
        .ok (Vals.ofList ((splitEvery k n (sread d pos (k * n))).map dec), pos + k * n) := by
  intro n
  induction n with
  | zero => intro pos _; rw [readN_zero]; simp [splitEvery, Vals.ofList]
  | succ n ih =>
    intro pos hl
    have hk : k * (n + 1) = k + k * n := by rw [Nat.mul_succ]; omega
    rw [hk, sread_add] at hl ⊢
    have b1 : (sread d pos k).length ≤ k := by unfold sread; exact List.length_take_le _ _
    have b2 : (sread d (pos + k) (k * n)).length ≤ k * n := by unfold sread; exact List.length_take_le _ _
    rw [List.length_append] at hl
    have l1 : (sread d pos k).length = k := by omega
    have l2 : (sread d (pos + k) (k * n)).length = k * n := by omega
    rw [readN_succ, read_sc, hB.1, readExact_of_len l1]
    simp only [Except.bind]
    rw [ih (pos + k) l2]
    simp only [splitEvery, List.map_cons, Vals.ofList]
    rw [List.take_left' l1, List.drop_left' l1, Nat.add_assoc]

/-- an element loop over the base type of an enum is the element loop over the enum -/
theorem readN_enum_of_sc (cfg : Cfg) (b : Scalar) (a : Nat) (f : Bool) (hi : Scalar.isInt b = true) (ctx : Ctx)
    (d : Bytes) : ∀ (n pos : Nat) (vs : Vals) (p : Nat), readN cfg (.sc b a) n ctx d pos = .ok (vs, p) →
      readN cfg (.enum b a f) n ctx d pos = .ok (vs.mapEnum, p) := by
  intro n
  induction n with
  | zero => intro pos vs p h; rw [readN_zero] at h ⊢; cases h; rfl
  | succ n ih =>
    intro pos vs p h
    rw [readN_succ] at h ⊢
    obtain ⟨⟨v, p1⟩, h1, h2⟩ := bind_ok h
    obtain ⟨⟨vs', p'⟩, h3, h4⟩ := bind_ok h2
    cases h4
    rw [read_sc] at h1
    obtain ⟨i, rfl⟩ := readScalar_int cfg b hi d pos v p1 h1
    rw [read_enum, h1]
    simp only [wrapInt, Except.bind]
    rw [ih _ _ _ h3]
    rfl

/-- a successful array read of a non-`char` element type is the element loop -/
theorem readN_of_readArray (cfg : Cfg) (e : Ty) (hS : e.fragS cfg = true) (hne : ∀ a, e ≠ .sc .char a) (ctx : Ctx)
    (d : Bytes) (n pos : Nat) (v : Val) (p : Nat) (h : readArray cfg e n ctx d pos = .ok (v, p)) :
    ∃ vs, v = .list vs ∧ readN cfg e n ctx d pos = .ok (vs, p) := by
  cases e with
  | sc s a =>
    rw [readArray.eq_1] at h
    cases s with
    | pint k sg =>
      rw [(bulk_pint cfg k sg).2] at h
      simp only [] at h
      obtain ⟨⟨bs, q⟩, h1, h2⟩ := bind_ok h
      obtain ⟨hl, hr⟩ := readExact_ok h1
      cases hr; cases h2
      exact ⟨_, rfl, readN_of_bulk cfg _ a k _ (bulk_pint cfg k sg) ctx d n pos hl⟩
    | pflt k =>
      rw [(bulk_pflt cfg k).2] at h
      simp only [] at h
      obtain ⟨⟨bs, q⟩, h1, h2⟩ := bind_ok h
      obtain ⟨hl, hr⟩ := readExact_ok h1
      cases hr; cases h2
      exact ⟨_, rfl, readN_of_bulk cfg _ a k _ (bulk_pflt cfg k) ctx d n pos hl⟩
    | aint k sg =>
      simp only [readScalarArray] at h
      obtain ⟨⟨vs, q⟩, h1, h2⟩ := map_ok h
      cases h2; exact ⟨vs, rfl, h1⟩
    | void =>
      simp only [readScalarArray] at h
      obtain ⟨⟨vs, q⟩, h1, h2⟩ := map_ok h
      cases h2; exact ⟨vs, rfl, h1⟩
    | char => exact absurd rfl (hne a)
    | wchar => simp [Ty.fragS] at hS
    | leb sg => simp [Ty.fragS] at hS
  | enum b a f =>
    rw [readArray.eq_2] at h
    simp only [Ty.fragS] at hS
    cases b with
    | pint k sg =>
      rw [(bulk_pint cfg k sg).2] at h
      cases hx : readExact d pos (k * n) with
      | error er => rw [hx] at h; cases h
      | ok r =>
        obtain ⟨bs, q⟩ := r
        rw [hx] at h
        simp only [Except.bind] at h
        cases h
        obtain ⟨hl, hr⟩ := readExact_ok hx
        cases hr
        exact ⟨_, rfl, readN_enum_of_sc cfg _ a f hS ctx d n pos _ _
          (readN_of_bulk cfg _ a k _ (bulk_pint cfg k sg) ctx d n pos hl)⟩
    | aint k sg =>
      simp only [readScalarArray] at h
      cases h1 : readN cfg (.sc (.aint k sg) a) n ctx d pos with
      | error er => rw [h1] at h; cases h
      | ok r =>
        obtain ⟨vs, q⟩ := r
        rw [h1] at h; cases h
        exact ⟨_, rfl, readN_enum_of_sc cfg _ a f hS ctx d n pos _ _ h1⟩
    | pflt k => simp [Scalar.isInt] at hS
    | char => simp [Scalar.isInt] at hS
    | wchar => simp [Scalar.isInt] at hS
    | leb sg => simp [Scalar.isInt] at hS
    | void => simp [Scalar.isInt] at hS
  | ptr t =>
    rw [readArray.eq_3 _ _ _ _ _ _ (by intros; contradiction) (by intros; contradiction)] at h
    obtain ⟨⟨vs, q⟩, h1, h2⟩ := map_ok h
    cases h2; exact ⟨vs, rfl, h1⟩
  | arr e' l =>
    rw [readArray.eq_3 _ _ _ _ _ _ (by intros; contradiction) (by intros; contradiction)] at h
    obtain ⟨⟨vs, q⟩, h1, h2⟩ := map_ok h
    cases h2; exact ⟨vs, rfl, h1⟩
  | struct al fs =>
    rw [readArray.eq_3 _ _ _ _ _ _ (by intros; contradiction) (by intros; contradiction)] at h
    obtain ⟨⟨vs, q⟩, h1, h2⟩ := map_ok h
    cases h2; exact ⟨vs, rfl, h1⟩
  | union al fs => simp [Ty.fragS] at hS

/-- element loop: read `n` elements, write them back -/
theorem rw_N (cfg : Cfg) (al : Bool) (e : Ty) (k : Nat) (m : List Bool) (hm : m.length = k) (d : Bytes)
    (hdvd : al = true → sAlign cfg e ∣ k)
    (hE : ∀ ctx pos v p, read cfg e ctx d pos = .ok (v, p) → (al = true → sAlign cfg e ∣ pos) →
      p = pos + k ∧ (p ≤ d.length → write cfg e v pos = .ok (applyMask m (sread d pos k)))) :
    ∀ (n : Nat) (ctx : Ctx) (pos : Nat) (vs : Vals) (p : Nat), readN cfg e n ctx d pos = .ok (vs, p) →
      (al = true → sAlign cfg e ∣ pos) →
      p = pos + n * k ∧ (p ≤ d.length →
        writeN cfg e vs pos = .ok (applyMask (List.replicate n m).flatten (sread d pos (n * k)))) := by
  intro n
  induction n with
  | zero =>
    intro ctx pos vs p h _
    rw [readN_zero] at h; cases h
    refine ⟨by simp, fun _ => ?_⟩
    rw [writeN_nil]; simp [applyMask_nil_left]
  | succ n ih =>
    intro ctx pos vs p h hpos
    rw [readN_succ] at h
    obtain ⟨⟨v, p1⟩, h1, h2⟩ := bind_ok h
    obtain ⟨⟨vs', p'⟩, h3, h4⟩ := bind_ok h2
    cases h4
    obtain ⟨hp1, w1⟩ := hE ctx pos v p1 h1 hpos
    obtain ⟨hp, w2⟩ := ih _ p1 vs' p h3 (fun ha => by rw [hp1]; exact Nat.dvd_add (hpos ha) (hdvd ha))
    have e1 : (n + 1) * k = k + n * k := by rw [Nat.succ_mul]; omega
    refine ⟨by rw [hp, hp1, e1]; omega, fun hlen => ?_⟩
    have w1 := w1 (by omega)
    have w2 := w2 hlen
    have l1 : (sread d pos k).length = k := sread_length_of_le d pos k (by omega)
    have l2 : (applyMask m (sread d pos k)).length = k := by rw [applyMask_length, hm, l1]; omega
    rw [writeN_cons, w1]
    simp only [Except.bind]
    rw [l2, ← hp1, w2]
    rw [e1, sread_add, List.replicate_succ, List.flatten_cons, applyMask_append _ _ _ _ (by rw [hm, l1]), ← hp1]

/-! ### The induction: parse, then dump -/

mutual
theorem rw_ty (cfg : Cfg) (al : Bool) : ∀ (ty : Ty), ty.fragS cfg = true → ty.uniformAlign al = true →
    (al = true → ty.pow2Aligned cfg) → ∀ (ctx : Ctx) (d : Bytes) (pos : Nat) (v : Val) (p : Nat),
    read cfg ty ctx d pos = .ok (v, p) → (al = true → sAlign cfg ty ∣ pos) →
    ∀ k, ty.size cfg = some k →
      p = pos + k ∧ (p ≤ d.length → write cfg ty v pos = .ok (applyMask (tyMask cfg ty) (sread d pos k)))
  | .sc s a, hS, _, _, ctx, d, pos, v, p, h, _, k, hk => by
    rw [read_sc] at h
    obtain ⟨k', s1, s2, s3, s4⟩ := scalar_rw cfg s a hS d pos v p h
    simp only [Ty.size] at hk
    rw [hk] at s1; cases s1
    refine ⟨s2, fun _ => ?_⟩
    rw [write_sc, s4]
    simp only [tyMask, hk, Option.getD_some, applyMask_scalar d pos k s3]
  | .enum b a f, hS, _, _, ctx, d, pos, v, p, h, _, k, hk => by
    rw [read_enum] at h
    obtain ⟨i, q, h1, h2⟩ := wrapInt_ok h
    cases h2
    simp only [Ty.fragS] at hS
    obtain ⟨k', s1, s2, s3, s4⟩ := scalar_rw cfg b a (fragS_sc_of_isInt cfg b a hS) d pos _ _ h1
    simp only [Ty.size] at hk
    rw [hk] at s1; cases s1
    refine ⟨s2, fun _ => ?_⟩
    rw [write_enum_enum, s4]
    simp only [tyMask, hk, Option.getD_some, applyMask_scalar d pos k s3]
  | .ptr t, hS, _, _, ctx, d, pos, v, p, h, _, k, hk => by
    rw [read_ptr] at h
    obtain ⟨i, q, h1, h2⟩ := wrapInt_ok h
    cases h2
    simp only [Ty.fragS] at hS
    obtain ⟨k', s1, s2, s3, s4⟩ := scalar_rw cfg cfg.ptr 0 (fragS_sc_of_isInt cfg cfg.ptr 0 hS) d pos _ _ h1
    simp only [Ty.size] at hk
    rw [hk] at s1; cases s1
    refine ⟨s2, fun _ => ?_⟩
    rw [write_ptr_ptr, s4]
    simp only [tyMask, hk, Option.getD_some, applyMask_scalar d pos k s3]
  | .union _ _, hS, _, _, _, _, _, _, _, _, _, _, _ => by simp [Ty.fragS] at hS
  | .arr e len, hS, hU, hP, ctx, d, pos, v, p, h, hpos, k, hk => by
    simp only [Ty.fragS, Bool.and_eq_true] at hS
    simp only [Ty.uniformAlign] at hU
    have hP' : al = true → e.pow2Aligned cfg := fun ha => by
      have := hP ha; simpa only [Ty.pow2Aligned] using this
    simp only [sAlign] at hpos
    cases len with
    | expr _ => simp at hS
    | nullTerm => simp at hS
    | eof => simp at hS
    | fixed n =>
      obtain ⟨k', hk'⟩ := fragS_size cfg e hS.2
      simp only [Ty.size, hk'] at hk
      cases hk
      rw [read_arr_fixed] at h
      have hml := tyMask_length cfg e hS.2 k' hk'
      by_cases hc : ∃ a, e = .sc .char a
      · obtain ⟨a, rfl⟩ := hc
        cases hk'
        simp only [tyMask, Scalar.size, Option.getD_some]
        rw [List.flatten_replicate_replicate, readArray_char] at *
        split at h
        · rename_i h0; subst h0
          cases h
          refine ⟨by simp, fun _ => ?_⟩
          rw [write_arr_chars, sread_zero]; simp [applyMask_nil_left]
        · obtain ⟨⟨bs, q⟩, h1, h2⟩ := bind_ok h
          obtain ⟨hl, hr⟩ := readExact_ok h1
          cases hr; cases h2
          refine ⟨by simp, fun _ => ?_⟩
          rw [write_arr_chars, Nat.mul_one, applyMask_true _ _ hl]
      · have hne : ∀ a, e ≠ .sc .char a := fun a h => hc ⟨a, h⟩
        obtain ⟨vs, rfl, h1⟩ := readN_of_readArray cfg e hS.2 hne ctx d n pos v p h
        have hdvd : al = true → sAlign cfg e ∣ k' := by
          intro ha; subst ha; exact size_sAlign_dvd cfg e hS.2 hU (hP' rfl) k' hk'
        obtain ⟨hp, hw⟩ := rw_N cfg al e k' (tyMask cfg e) hml d hdvd
          (fun ctx pos v p hr hp => rw_ty cfg al e hS.2 hU hP' ctx d pos v p hr hp k' hk')
          n ctx pos vs p h1 hpos
        refine ⟨hp, fun hlen => ?_⟩
        have hvl : vs.length = n := readN_length cfg e ctx d n pos vs p h1
        rw [write_arr_list, if_neg (by rw [hvl]; simp), hw hlen]
        simp only [tyMask]
  | .struct al' fs, hS, hU, hP, ctx, d, pos, v, p, h, hpos, k, hk => by
    simp only [Ty.fragS] at hS
    simp only [Ty.uniformAlign, Bool.and_eq_true, beq_iff_eq] at hU
    obtain ⟨rfl, hU⟩ := hU
    have hP' : al' = true → fs.pow2Aligned cfg := fun ha => by
      have := hP ha; simpa only [Ty.pow2Aligned] using this
    rw [struct_size cfg al' fs hS] at hk
    cases hk
    rw [read_struct, structLayout_S cfg al' fs hS] at h
    simp only [Except.bind] at h
    obtain ⟨⟨vs, szs, q⟩, h3, h4⟩ := bind_ok h
    have hdv : al' = true → allAlignDvd cfg pos fs :=
      fun ha => allAlignDvd_of_sAlign cfg al' fs (hP' ha) pos (hpos ha)
    have h3' : readFields cfg al' fs (offsS cfg al' fs 0) pos BitBuf.empty [] d (pos + 0) = .ok (vs, szs, q) := h3
    obtain ⟨b1, b2⟩ := rw_fields cfg al' fs hS hU hP' [] d pos 0 BitBuf.empty vs szs q h3' hdv
    have hml := fieldsMask_length cfg fs hS al' 0
    simp only [Nat.sub_zero, Nat.add_zero] at b2 hml
    generalize hEd : endOff cfg al' fs 0 = E at *
    generalize hMd : Fields.maxAlign cfg fs 0 = M at *
    have hpad : al' = true → padNat (pos + E) M = padNat E M := by
      intro ha; subst ha; subst hMd; exact padNat_struct cfg true fs (hP' rfl) pos E (hpos rfl)
    have hv : v = .record vs := by cases h4; rfl
    subst hv
    have hp : p = pos + alignTo al' E M := by
      cases h4
      cases al' with
      | false => simp [alignTo, b1]
      | true => simp only [alignTo, if_true, b1, hpad rfl]; omega
    have hle := le_alignTo al' E M
    refine ⟨hp, fun hlen => ?_⟩
    have w := b2 (by omega)
    have l1 : (sread d pos E).length = E := sread_length_of_le d pos E (by omega)
    have l2 : (sread d (pos + E) (alignTo al' E M - E)).length = alignTo al' E M - E :=
      sread_length_of_le d _ _ (by omega)
    have lo : (applyMask (fieldsMask cfg fs (offsS cfg al' fs 0) 0) (sread d pos E)).length = E := by
      rw [applyMask_length, hml, l1]; omega
    rw [write_struct, structLayout_S cfg al' fs hS]
    simp only [Except.bind, w, flushBits_empty, List.append_nil, hMd]
    simp only [tyMask, structLayout_S cfg al' fs hS, hml, hEd, hMd]
    have e1 : alignTo al' E M = E + (alignTo al' E M - E) := by omega
    rw [e1, sread_add, applyMask_append _ _ _ _ (by rw [hml, l1]), ← e1, applyMask_false _ _ l2, lo]
    cases al' with
    | false => simp [alignTo, zeros]
    | true => simp only [if_true, hpad rfl, alignTo]; congr 3; omega
theorem rw_fields (cfg : Cfg) (al : Bool) : ∀ (fs : Fields), Fields.fragS cfg fs = true →
    Fields.uniformAlign al fs = true → (al = true → fs.pow2Aligned cfg) →
    ∀ (ctx : Ctx) (d : Bytes) (start o : Nat) (bb : BitBuf) (vs : Vals) (szs : List (String × Nat)) (q : Nat),
    readFields cfg al fs (offsS cfg al fs o) start bb ctx d (start + o) = .ok (vs, szs, q) →
    (al = true → allAlignDvd cfg start fs) →
    q = start + endOff cfg al fs o ∧
    (q ≤ d.length →
      writeFields cfg al fs (offsS cfg al fs o) vs start BitBuf.empty (start + o) =
        .ok (applyMask (fieldsMask cfg fs (offsS cfg al fs o) o) (sread d (start + o) (endOff cfg al fs o - o)),
          BitBuf.empty))
  | .nil, _, _, _, ctx, d, start, o, bb, vs, szs, q, h, _ => by
    rw [readFields_nil] at h; cases h
    refine ⟨rfl, fun _ => ?_⟩
    rw [writeFields_nil]
    simp [fieldsMask, applyMask_nil_left]
  | .cons name an ty bits rest, hS, hU, hP, ctx, d, start, o, bb, vs, szs, q, h, hdv => by
    simp only [Fields.fragS, Bool.and_eq_true, Option.isNone_iff_eq_none] at hS
    obtain ⟨⟨rfl, hS1⟩, hS2⟩ := hS
    simp only [Fields.uniformAlign, Bool.and_eq_true] at hU
    have hP1 : al = true → ty.pow2Aligned cfg := fun ha => by
      have := hP ha; simp only [Fields.pow2Aligned] at this; exact this.1
    have hP2 : al = true → rest.pow2Aligned cfg := fun ha => by
      have := hP ha; simp only [Fields.pow2Aligned] at this; exact this.2
    obtain ⟨k, hk⟩ := fragS_size cfg ty hS1
    have hle := le_alignTo al o (ty.alignment cfg)
    have hpos : al = true → sAlign cfg ty ∣ start + alignTo al o (ty.alignment cfg) := by
      intro ha; subst ha
      have h1 := (hdv rfl).1
      exact Nat.dvd_trans (sAlign_dvd_alignment cfg ty)
        (Nat.dvd_add h1 (alignTo_dvd (alignment_p2 cfg ty (hP1 rfl)) o))
    have hml := tyMask_length cfg ty hS1 k hk
    simp only [offsS, hk, Option.getD_some] at h ⊢
    simp only [endOff, hk, Option.getD_some]
    generalize alignTo al o (ty.alignment cfg) = fo at *
    rw [readFields_cons_S] at h
    obtain ⟨⟨v, p1⟩, h1, h2⟩ := bind_ok h
    obtain ⟨⟨vs', szs', q'⟩, h3, h4⟩ := bind_ok h2
    cases h4
    obtain ⟨a3, w1⟩ := rw_ty cfg al ty hS1 hU.1 hP1 ctx d (start + fo) v p1 h1 hpos k hk
    have hp1 : p1 = start + (fo + k) := by rw [a3]; omega
    rw [hp1] at h3
    obtain ⟨b1, b2⟩ := rw_fields cfg al rest hS2 hU.2 hP2 _ d start (fo + k) _ vs' szs' q h3 (fun ha => (hdv ha).2)
    have hE := le_endOff cfg al rest (fo + k)
    refine ⟨b1, fun hq => ?_⟩
    have w1 := w1 (by omega)
    have w2 := b2 hq
    generalize endOff cfg al rest (fo + k) = E at *
    have hpad : (if start + o < start + fo then start + fo - (start + o) else 0) = fo - o := by
      split <;> omega
    have l1 : (sread d (start + fo) k).length = k := sread_length_of_le d _ k (by omega)
    have lb : (applyMask (tyMask cfg ty) (sread d (start + fo) k)).length = k := by
      rw [applyMask_length, hml, l1]; omega
    rw [writeFields_cons_S, hpad]
    have e1 : start + o + (fo - o) = start + fo := by omega
    rw [e1, w1]
    simp only [Except.bind]
    have e2 : start + o + (zeros (fo - o) ++ applyMask (tyMask cfg ty) (sread d (start + fo) k)).length =
        start + (fo + k) := by
      simp only [List.length_append, zeros, List.length_replicate, lb]; omega
    rw [e2, w2]
    simp only [fieldsMask, List.headD_cons, Option.getD_some, List.drop_succ_cons, List.drop_zero, hml]
    have e3 : E - o = (fo - o) + k + (E - (fo + k)) := by omega
    rw [e3, applyMask_three d (start + o) (fo - o) k _ _ _ hml (by omega), e1]
    have e4 : start + fo + k = start + (fo + k) := by omega
    rw [e4]
end

/-! ### Packed mode: the mask is all data -/

mutual
theorem mask_packed_ty (cfg : Cfg) : ∀ ty : Ty, ty.fragS cfg = true → ty.uniformAlign false = true →
    ∀ n, ty.size cfg = some n → tyMask cfg ty = List.replicate n true
  | .sc s _, _, _, n, hn => by
    simp only [Ty.size] at hn
    simp only [tyMask, hn, Option.getD_some]
  | .enum b _ _, _, _, n, hn => by
    simp only [Ty.size] at hn
    simp only [tyMask, hn, Option.getD_some]
  | .ptr _, _, _, n, hn => by
    simp only [Ty.size] at hn
    simp only [tyMask, hn, Option.getD_some]
  | .union _ _, h, _, _, _ => by simp [Ty.fragS] at h
  | .arr e len, h, hU, n, hn => by
    simp only [Ty.fragS, Bool.and_eq_true] at h
    simp only [Ty.uniformAlign] at hU
    cases len with
    | expr _ => simp at h
    | nullTerm => simp at h
    | eof => simp at h
    | fixed m =>
      simp only [Ty.size] at hn
      cases he : e.size cfg with
      | none => rw [he] at hn; cases hn
      | some k =>
        rw [he] at hn; cases hn
        simp only [tyMask, mask_packed_ty cfg e h.2 hU k he, List.flatten_replicate_replicate]
  | .struct al fs, h, hU, n, hn => by
    simp only [Ty.fragS] at h
    simp only [Ty.uniformAlign, Bool.and_eq_true, beq_iff_eq] at hU
    obtain ⟨rfl, hU⟩ := hU
    rw [struct_size cfg false fs h] at hn
    cases hn
    have ih := mask_packed_fields cfg fs h hU 0
    simp only [tyMask, structLayout_S cfg false fs h, ih, List.length_replicate]
    simp [alignTo]
theorem mask_packed_fields (cfg : Cfg) : ∀ fs : Fields, Fields.fragS cfg fs = true →
    Fields.uniformAlign false fs = true → ∀ o : Nat,
    fieldsMask cfg fs (offsS cfg false fs o) o = List.replicate (endOff cfg false fs o - o) true
  | .nil, _, _, _ => by simp [fieldsMask, endOff]
  | .cons _ _ ty bits r, h, hU, o => by
    simp only [Fields.fragS, Bool.and_eq_true, Option.isNone_iff_eq_none] at h
    obtain ⟨⟨rfl, h1⟩, h2⟩ := h
    simp only [Fields.uniformAlign, Bool.and_eq_true] at hU
    obtain ⟨k, hk⟩ := fragS_size cfg ty h1
    have hm := mask_packed_ty cfg ty h1 hU.1 k hk
    have hao : alignTo false o (ty.alignment cfg) = o := by simp [alignTo]
    have ih := mask_packed_fields cfg r h2 hU.2 (o + k)
    have hle := le_endOff cfg false r (o + k)
    simp only [offsS, endOff, hk, hao, Option.getD_some, fieldsMask, List.headD_cons, List.drop_succ_cons,
      List.drop_zero, hm, ih, List.length_replicate, Nat.sub_self, List.replicate_zero, List.nil_append,
      List.replicate_append_replicate]
    congr 1; omega
end

/-! ### The property theorems -/

/-- aligned (and packed) mode: parse, then dump -/
theorem fidelity_aligned (cfg : Cfg) (al : Bool) (ty : Ty) (hS : ty.fragS cfg = true) (hu : ty.uniformAlign al = true)
    (hp : ty.pow2Aligned cfg) (ctx : Ctx) (d : Bytes) (pos : Nat) (hal : ty.alignsDivide cfg pos = true) (v : Val) (p : Nat)
    (hr : read cfg ty ctx d pos = .ok (v, p)) (hlen : p ≤ d.length) :
    ∃ bs, write cfg ty v pos = .ok bs ∧ bs.length = p - pos ∧ pos ≤ p ∧
      bs = applyMask (tyMask cfg ty) ((d.drop pos).take (p - pos)) ∧ (tyMask cfg ty).length = p - pos := by
  obtain ⟨k, hk⟩ := fragS_size cfg ty hS
  obtain ⟨h1, h2⟩ := rw_ty cfg al ty hS hu (fun _ => hp) ctx d pos v p hr
    (fun _ => sAlign_dvd_of_alignsDivide cfg pos ty hal) k hk
  have h2 := h2 hlen
  have hml := tyMask_length cfg ty hS k hk
  have hk' : p - pos = k := by omega
  have l1 : (sread d pos k).length = k := sread_length_of_le d pos k (by omega)
  rw [hk']
  refine ⟨_, h2, ?_, by omega, rfl, hml⟩
  rw [applyMask_length, hml, l1]; omega

/-- the slices of two extensions of `d` by different filler bytes differ as soon as they reach past `d` -/
theorem sread_ext_ne (d : Bytes) (pos k m : Nat) (hpos : pos ≤ d.length) (h1 : d.length < pos + k)
    (h2 : pos + k ≤ d.length + m) :
    sread (d ++ List.replicate m 0) pos k ≠ sread (d ++ List.replicate m 1) pos k := by
  intro h
  have := congrArg (fun l => l[d.length - pos]?) h
  have hlt : d.length - pos < k := by omega
  have hm : 0 < m := by omega
  have e : pos + (d.length - pos) = d.length := by omega
  simp only [sread, List.getElem?_take, List.getElem?_drop, hlt, if_true, e,
    List.getElem?_append_right (Nat.le_refl _), Nat.sub_self, List.getElem?_replicate, hm] at this
  exact absurd this (by decide)

/-- packed mode: parse, then dump on an input that is long enough -/
theorem packed_long (cfg : Cfg) (ty : Ty) (hS : ty.fragS cfg = true) (hu : ty.uniformAlign false = true)
    (ctx : Ctx) (d : Bytes) (pos : Nat) (v : Val) (p : Nat) (hr : read cfg ty ctx d pos = .ok (v, p)) (k : Nat)
    (hk : ty.size cfg = some k) : p = pos + k ∧ (p ≤ d.length → write cfg ty v pos = .ok (sread d pos k)) := by
  obtain ⟨h1, h2⟩ := rw_ty cfg false ty hS hu (fun h => by cases h) ctx d pos v p hr (fun h => by cases h) k hk
  refine ⟨h1, fun hlen => ?_⟩
  rw [h2 hlen, mask_packed_ty cfg ty hS hu k hk, applyMask_true k _ (sread_length_of_le d pos k (by omega))]

/-- packed mode, start inside the input: parse, then dump is the identity on the consumed bytes, which all exist -/
theorem c02_fidelity_packed_alt (cfg : Cfg) (ty : Ty) (hS : ty.fragS cfg = true) (hu : ty.uniformAlign false = true)
    (ctx : Ctx) (d : Bytes) (pos : Nat) (hpos : pos ≤ d.length) (v : Val) (p : Nat)
    (hr : read cfg ty ctx d pos = .ok (v, p)) :
    write cfg ty v pos = .ok ((d.drop pos).take (p - pos)) ∧ pos ≤ p ∧ p ≤ d.length := by
  obtain ⟨k, hk⟩ := fragS_size cfg ty hS
  have hpl := fragS_plain cfg ty hS
  have hr0 := Cstruct.Core.read_extend cfg ty hpl ctx d pos v p hr (d ++ List.replicate (k + 1) 0) (List.prefix_append _ _)
  have hr1 := Cstruct.Core.read_extend cfg ty hpl ctx d pos v p hr (d ++ List.replicate (k + 1) 1) (List.prefix_append _ _)
  obtain ⟨hp, w0⟩ := packed_long cfg ty hS hu ctx _ pos v p hr0 k hk
  obtain ⟨_, w1⟩ := packed_long cfg ty hS hu ctx _ pos v p hr1 k hk
  have w0 := w0 (by simp only [List.length_append, List.length_replicate]; omega)
  have w1 := w1 (by simp only [List.length_append, List.length_replicate]; omega)
  have hle : pos + k ≤ d.length := by
    apply Decidable.byContradiction
    intro hn
    rw [w0] at w1
    exact sread_ext_ne d pos k (k + 1) hpos (by omega) (by omega) (Except.ok.inj w1)
  have hl : (sread d pos k).length = k := sread_length_of_le d pos k hle
  rw [sread_append d _ pos k hl] at w0
  have hk' : p - pos = k := by omega
  rw [hk']
  exact ⟨w0, by omega, by omega⟩

/-- `c02_fidelity_packed` as first stated (without `pos ≤ d.length`) is false: a zero-size type read at a position beyond
    the end of the input "succeeds" without touching the input and ends where it started -/
theorem c02_fidelity_packed_counterexample :
    ¬ (∀ (cfg : Cfg) (ty : Ty) (_ : ty.fragS cfg = true) (_ : ty.uniformAlign false = true)
      (ctx : Ctx) (d : Bytes) (pos : Nat) (v : Val) (p : Nat) (_ : read cfg ty ctx d pos = .ok (v, p)),
      write cfg ty v pos = .ok ((d.drop pos).take (p - pos)) ∧ pos ≤ p ∧ p ≤ d.length) := by
  intro h
  have := h cfg0 (.sc .void 0) rfl rfl [] [] 1 .void 1 (by rw [read_sc]; rfl)
  simp at this

end Cstruct.C02.Lemmas
