/-
  Helper lemmas for `Proofs/C02.lean` (byte fidelity: read, then write): facts about `applyMask`, the data mask
  `tyMask`, scalars re-encoding to the bytes they were decoded from, and the mutual induction `rw_ty` / `rw_fields`
  ("parse, then dump, gives back the masked input slice") over fragment S.
-/
import Proofs.Spec.C02
import Proofs.Core
namespace Cstruct.C02.Lemmas
open Cstruct Cstruct.C02 Cstruct.Core Cstruct.Core.Lemmas

/-! ### `applyMask` -/

theorem applyMask_nil_left (bs : Bytes) : applyMask [] bs = [] := by cases bs <;> rfl

theorem applyMask_nil_right (m : List Bool) : applyMask m [] = [] := by cases m <;> rfl

theorem applyMask_length : ∀ (m : List Bool) (bs : Bytes), (applyMask m bs).length = min m.length bs.length
  | [], bs => by rw [applyMask_nil_left]; simp
  | _ :: _, [] => by rw [applyMask_nil_right]; simp
  | m :: ms, b :: bs => by
    simp only [applyMask, List.length_cons, applyMask_length ms bs]
    omega

theorem applyMask_append : ∀ (m1 m2 : List Bool) (b1 b2 : Bytes), m1.length = b1.length →
    applyMask (m1 ++ m2) (b1 ++ b2) = applyMask m1 b1 ++ applyMask m2 b2
  | [], m2, [], b2, _ => by simp [applyMask_nil_left]
  | [], _, _ :: _, _, h => by simp at h
  | _ :: _, _, [], _, h => by simp at h
  | m :: ms, m2, b :: bs, b2, h => by
    simp only [List.cons_append, applyMask]
    rw [applyMask_append ms m2 bs b2 (by simpa using h)]

theorem applyMask_true : ∀ (n : Nat) (bs : Bytes), bs.length = n → applyMask (List.replicate n true) bs = bs
  | 0, [], _ => rfl
  | 0, _ :: _, h => by simp at h
  | _ + 1, [], h => by simp at h
  | n + 1, b :: bs, h => by
    simp only [List.replicate_succ, applyMask, if_true]
    rw [applyMask_true n bs (by simpa using h)]

theorem applyMask_false : ∀ (n : Nat) (bs : Bytes), bs.length = n → applyMask (List.replicate n false) bs = zeros n
  | 0, [], _ => rfl
  | 0, _ :: _, h => by simp at h
  | _ + 1, [], h => by simp at h
  | n + 1, b :: bs, h => by
    simp only [List.replicate_succ, applyMask, zeros, Bool.false_eq_true, if_false]
    have := applyMask_false n bs (by simpa using h)
    simp only [zeros] at this
    rw [this]

/-- a gap, a member, the rest -/
theorem applyMask_three (d : Bytes) (s a k r : Nat) (m mr : List Bool) (hm : m.length = k)
    (hlen : s + a + k ≤ d.length) :
    applyMask (List.replicate a false ++ m ++ mr) (sread d s (a + k + r)) =
      zeros a ++ applyMask m (sread d (s + a) k) ++ applyMask mr (sread d (s + a + k) r) := by
  have l1 : (sread d s a).length = a := sread_length_of_le d s a (by omega)
  have l2 : (sread d (s + a) k).length = k := sread_length_of_le d (s + a) k (by omega)
  rw [sread_add, sread_add, applyMask_append, applyMask_append, applyMask_false a _ l1, Nat.add_assoc]
  · rw [List.length_replicate, l1]
  · rw [List.length_append, List.length_append, List.length_replicate, l1, l2, hm]

/-! ### Fragment S is plain and has no bit-fields -/

mutual
theorem fragS_plain (cfg : Cfg) : ∀ ty : Ty, ty.fragS cfg = true → ty.plain = true
  | .sc _ _, _ => rfl
  | .enum _ _ _, _ => rfl
  | .ptr _, _ => rfl
  | .arr e len, h => by
    simp only [Ty.fragS, Bool.and_eq_true] at h
    cases len with
    | fixed n => simp only [Ty.plain, Bool.true_and]; exact fragS_plain cfg e h.2
    | expr _ => simp at h
    | nullTerm => simp at h
    | eof => simp at h
  | .struct _ fs, h => by
    simp only [Ty.fragS] at h
    simp only [Ty.plain]; exact fragS_plain_fields cfg fs h
  | .union _ _, h => by simp [Ty.fragS] at h
theorem fragS_plain_fields (cfg : Cfg) : ∀ fs : Fields, Fields.fragS cfg fs = true → Fields.plain fs = true
  | .nil, _ => rfl
  | .cons _ _ t _ r, h => by
    simp only [Fields.fragS, Bool.and_eq_true] at h
    simp only [Fields.plain, Bool.and_eq_true]
    exact ⟨fragS_plain cfg t h.1.2, fragS_plain_fields cfg r h.2⟩
end

mutual
theorem fragS_noBits (cfg : Cfg) : ∀ ty : Ty, ty.fragS cfg = true → ty.noBits = true
  | .sc _ _, _ => rfl
  | .enum _ _ _, _ => rfl
  | .ptr _, _ => rfl
  | .arr e len, h => by
    simp only [Ty.fragS, Bool.and_eq_true] at h
    simp only [Ty.noBits]; exact fragS_noBits cfg e h.2
  | .struct _ fs, h => by
    simp only [Ty.fragS] at h
    simp only [Ty.noBits]; exact fragS_noBits_fields cfg fs h
  | .union _ _, h => by simp [Ty.fragS] at h
theorem fragS_noBits_fields (cfg : Cfg) : ∀ fs : Fields, Fields.fragS cfg fs = true → Fields.noBits fs = true
  | .nil, _ => rfl
  | .cons _ _ t bits r, h => by
    simp only [Fields.fragS, Bool.and_eq_true, Option.isNone_iff_eq_none] at h
    obtain ⟨⟨rfl, h1⟩, h2⟩ := h
    simp only [Fields.noBits, Bool.and_eq_true]
    exact ⟨⟨trivial, fragS_noBits cfg t h1⟩, fragS_noBits_fields cfg r h2⟩
end

/-- position facts of a successful read of a fragment-S type (from the window lemmas) -/
theorem pf_S (cfg : Cfg) (al : Bool) (d : Bytes) (ty : Ty) (hS : ty.fragS cfg = true)
    (hU : ty.uniformAlign al = true) (hP : ty.pow2Aligned cfg) : ElemPF cfg al ty d :=
  pf_ty cfg al d ty (fragS_plain cfg ty hS) (fragS_noBits cfg ty hS) hU hP

/-! ### The mask has the size of the type -/

mutual
theorem tyMask_length (cfg : Cfg) : ∀ ty : Ty, ty.fragS cfg = true → ∀ k, ty.size cfg = some k →
    (tyMask cfg ty).length = k
  | .sc s _, _, k, hk => by
    simp only [Ty.size] at hk
    simp only [tyMask, hk, Option.getD_some, List.length_replicate]
  | .enum b _ _, _, k, hk => by
    simp only [Ty.size] at hk
    simp only [tyMask, hk, Option.getD_some, List.length_replicate]
  | .ptr _, _, k, hk => by
    simp only [Ty.size] at hk
    simp only [tyMask, hk, Option.getD_some, List.length_replicate]
  | .union _ _, h, _, _ => by simp [Ty.fragS] at h
  | .arr e len, h, k, hk => by
    simp only [Ty.fragS, Bool.and_eq_true] at h
    cases len with
    | expr _ => simp at h
    | nullTerm => simp at h
    | eof => simp at h
    | fixed n =>
      simp only [Ty.size] at hk
      cases he : e.size cfg with
      | none => rw [he] at hk; cases hk
      | some k' =>
        rw [he] at hk; cases hk
        have ih := tyMask_length cfg e h.2 k' he
        simp only [tyMask, List.length_flatten, List.map_replicate, List.sum_replicate_nat, ih]
  | .struct al fs, h, k, hk => by
    simp only [Ty.fragS] at h
    rw [struct_size cfg al fs h] at hk
    cases hk
    have ih := fieldsMask_length cfg fs h al 0
    have h1 := le_endOff cfg al fs 0
    have h2 := le_alignTo al (endOff cfg al fs 0) (Fields.maxAlign cfg fs 0)
    simp only [tyMask, structLayout_S cfg al fs h, List.length_append, List.length_replicate, ih]
    omega
theorem fieldsMask_length (cfg : Cfg) : ∀ fs : Fields, Fields.fragS cfg fs = true → ∀ (al : Bool) (o : Nat),
    (fieldsMask cfg fs (offsS cfg al fs o) o).length = endOff cfg al fs o - o
  | .nil, _, _, _ => by simp [fieldsMask, endOff]
  | .cons _ _ ty bits r, h, al, o => by
    simp only [Fields.fragS, Bool.and_eq_true, Option.isNone_iff_eq_none] at h
    obtain ⟨⟨rfl, h1⟩, h2⟩ := h
    obtain ⟨k, hk⟩ := fragS_size cfg ty h1
    have hm := tyMask_length cfg ty h1 k hk
    have ih := fieldsMask_length cfg r h2 al (alignTo al o (ty.alignment cfg) + k)
    have hle := le_alignTo al o (ty.alignment cfg)
    have hle2 := le_endOff cfg al r (alignTo al o (ty.alignment cfg) + k)
    simp only [offsS, endOff, hk, Option.getD_some, fieldsMask, List.headD_cons, List.drop_succ_cons, List.drop_zero,
      List.length_append, List.length_replicate, hm, ih]
    omega
end

/-! ### Scalars: the value re-encodes to exactly the bytes it was decoded from -/

theorem fragS_sc_of_isInt (cfg : Cfg) (s : Scalar) (a : Nat) (h : Scalar.isInt s = true) :
    (Ty.sc s a).fragS cfg = true := by
  cases s <;> simp [Scalar.isInt] at h <;> rfl

theorem scalar_rw (cfg : Cfg) (s : Scalar) (a : Nat) (hS : (Ty.sc s a).fragS cfg = true) (d : Bytes) (pos : Nat)
    (v : Val) (p : Nat) (h : readScalar cfg s d pos = .ok (v, p)) :
    ∃ k, s.size = some k ∧ p = pos + k ∧ (sread d pos k).length = k ∧ writeScalar cfg s v = .ok (sread d pos k) := by
  cases s with
  | pint n sg =>
    simp only [readScalar, bind, pure] at h
    obtain ⟨⟨bs, q⟩, h1, h2⟩ := bind_ok h
    obtain ⟨hl, hr⟩ := readExact_ok h1
    cases hr; cases h2
    refine ⟨n, rfl, rfl, hl, ?_⟩
    have := (C05.c05_int_roundtrip_bytes cfg.endian sg (sread d pos n)).2
    rw [hl] at this
    simp only [writeScalar, this]
  | aint n sg =>
    simp only [readScalar, bind, pure] at h
    obtain ⟨⟨bs, q⟩, h1, h2⟩ := bind_ok h
    obtain ⟨hl, hr⟩ := readExact_ok h1
    cases hr; cases h2
    refine ⟨n, rfl, rfl, hl, ?_⟩
    have := (C05.c05_int_roundtrip_bytes cfg.endian sg (sread d pos n)).2
    rw [hl] at this
    simp only [writeScalar, this]
  | pflt n =>
    simp only [readScalar, bind, pure] at h
    obtain ⟨⟨bs, q⟩, h1, h2⟩ := bind_ok h
    obtain ⟨hl, hr⟩ := readExact_ok h1
    cases hr; cases h2
    refine ⟨n, rfl, rfl, hl, ?_⟩
    have h1 := C05.Lemmas.decodeNat_lt cfg.endian (sread d pos n)
    have h2 := C05.Lemmas.encBytes_decodeNat cfg.endian (sread d pos n)
    rw [hl] at h1 h2
    have heq : ∀ u, encodeBits cfg.endian n u = C05.Lemmas.encBytes cfg.endian n u := fun _ => rfl
    simp only [writeScalar, if_pos h1, heq, h2]
  | char =>
    simp only [readScalar, bind, pure] at h
    obtain ⟨⟨bs, q⟩, h1, h2⟩ := bind_ok h
    obtain ⟨hl, hr⟩ := readExact_ok h1
    cases hr; cases h2
    exact ⟨1, rfl, rfl, hl, rfl⟩
  | void =>
    simp only [readScalar] at h
    cases h
    exact ⟨0, rfl, rfl, by simp [sread_zero], by simp [sread_zero, writeScalar]⟩
  | wchar => simp [Ty.fragS] at hS
  | leb sg => simp [Ty.fragS] at hS

/-- the mask of a scalar-sized type is all data -/
theorem applyMask_scalar (d : Bytes) (pos k : Nat) (h : (sread d pos k).length = k) :
    applyMask (List.replicate k true) (sread d pos k) = sread d pos k :=
  applyMask_true k _ h

/-! ### Arrays -/

/-- element loop: read `n` elements, write them back -/
theorem rw_N (cfg : Cfg) (al : Bool) (e : Ty) (k : Nat) (m : List Bool) (hk : e.size cfg = some k)
    (hm : m.length = k) (d : Bytes) (hPF : ElemPF cfg al e d)
    (hE : ∀ ctx pos v p, read cfg e ctx d pos = .ok (v, p) → p ≤ d.length → (al = true → sAlign cfg e ∣ pos) →
      write cfg e v pos = .ok (applyMask m (sread d pos k))) :
    ∀ (n : Nat) (ctx : Ctx) (pos : Nat) (vs : Vals) (p : Nat), readN cfg e n ctx d pos = .ok (vs, p) →
      p ≤ d.length → (al = true → sAlign cfg e ∣ pos) →
      writeN cfg e vs pos = .ok (applyMask (List.replicate n m).flatten (sread d pos (n * k))) := by
  intro n
  induction n with
  | zero =>
    intro ctx pos vs p h _ _
    rw [readN_zero] at h; cases h
    rw [writeN_nil]; simp [applyMask_nil_left]
  | succ n ih =>
    intro ctx pos vs p h hlen hpos
    rw [readN_succ] at h
    obtain ⟨⟨v, p1⟩, h1, h2⟩ := bind_ok h
    obtain ⟨⟨vs', p'⟩, h3, h4⟩ := bind_ok h2
    cases h4
    obtain ⟨a1, a2, a3⟩ := hPF _ _ _ _ h1 hpos
    obtain ⟨b1, _, _⟩ := pf_N cfg al e d hPF n _ p1 vs' p h3 a2
    have hp1 := a3 k hk
    have w1 := hE ctx pos v p1 h1 (by omega) hpos
    have w2 := ih _ p1 vs' p h3 hlen a2
    have l1 : (sread d pos k).length = k := sread_length_of_le d pos k (by omega)
    have l2 : (applyMask m (sread d pos k)).length = k := by rw [applyMask_length, hm, l1]; omega
    rw [writeN_cons, w1]
    simp only [Except.bind]
    rw [l2, ← hp1, w2]
    have e1 : (n + 1) * k = k + n * k := by rw [Nat.succ_mul]; omega
    rw [e1, sread_add, List.replicate_succ, List.flatten_cons, applyMask_append _ _ _ _ (by rw [hm, l1]), ← hp1]

/-- a successful array read of a non-`char` element type is the element loop -/
theorem readN_of_readArray (cfg : Cfg) (al : Bool) (e : Ty) (hS : e.fragS cfg = true) (hU : e.uniformAlign al = true)
    (hP : e.pow2Aligned cfg) (hne : ∀ a, e ≠ .sc .char a) (ctx : Ctx) (d : Bytes) (n pos : Nat) (v : Val) (p : Nat)
    (h : readArray cfg e n ctx d pos = .ok (v, p)) (hlen : p ≤ d.length) (hpos : al = true → sAlign cfg e ∣ pos) :
    ∃ vs, v = .list vs ∧ readN cfg e n ctx d pos = .ok (vs, p) := by
  obtain ⟨k, hk⟩ := fragS_size cfg e hS
  obtain ⟨_, _, a3⟩ := pf_array cfg al e d (pf_S cfg al d e hS hU hP) n ctx pos v p h hpos
  have hp := a3 k hk
  have hdvd : al = true → sAlign cfg e ∣ k := by
    intro ha; subst ha; exact size_sAlign_dvd cfg e hS hU hP k hk
  obtain ⟨vs, h1, _⟩ := rs_N cfg al e k d hdvd
    (fun ctx pos hl hp => rs_ty cfg al e hS hU hP ctx d pos k hk hl hp) n ctx pos (by omega) hpos
  have h2 := readArray_of_readN cfg e hS hne ctx d n pos vs _ h1
  rw [h] at h2
  cases h2
  exact ⟨vs, rfl, by rw [hp]; exact h1⟩

/-! ### The induction: parse, then dump -/

mutual
theorem rw_ty (cfg : Cfg) (al : Bool) : ∀ (ty : Ty), ty.fragS cfg = true → ty.uniformAlign al = true →
    ty.pow2Aligned cfg → ∀ (ctx : Ctx) (d : Bytes) (pos : Nat) (v : Val) (p : Nat),
    read cfg ty ctx d pos = .ok (v, p) → p ≤ d.length → (al = true → sAlign cfg ty ∣ pos) →
    ∀ k, ty.size cfg = some k →
      p = pos + k ∧ write cfg ty v pos = .ok (applyMask (tyMask cfg ty) (sread d pos k))
  | .sc s a, hS, _, _, ctx, d, pos, v, p, h, _, _, k, hk => by
    rw [read_sc] at h
    obtain ⟨k', s1, s2, s3, s4⟩ := scalar_rw cfg s a hS d pos v p h
    simp only [Ty.size] at hk
    rw [hk] at s1; cases s1
    refine ⟨s2, ?_⟩
    rw [write_sc, s4]
    simp only [tyMask, hk, Option.getD_some, applyMask_scalar d pos k s3]
  | .enum b a f, hS, _, _, ctx, d, pos, v, p, h, _, _, k, hk => by
    rw [read_enum] at h
    obtain ⟨i, q, h1, h2⟩ := wrapInt_ok h
    cases h2
    simp only [Ty.fragS] at hS
    obtain ⟨k', s1, s2, s3, s4⟩ := scalar_rw cfg b a (fragS_sc_of_isInt cfg b a hS) d pos _ _ h1
    simp only [Ty.size] at hk
    rw [hk] at s1; cases s1
    refine ⟨s2, ?_⟩
    rw [write_enum_enum, s4]
    simp only [tyMask, hk, Option.getD_some, applyMask_scalar d pos k s3]
  | .ptr t, hS, _, _, ctx, d, pos, v, p, h, _, _, k, hk => by
    rw [read_ptr] at h
    obtain ⟨i, q, h1, h2⟩ := wrapInt_ok h
    cases h2
    simp only [Ty.fragS] at hS
    obtain ⟨k', s1, s2, s3, s4⟩ := scalar_rw cfg cfg.ptr 0 (fragS_sc_of_isInt cfg cfg.ptr 0 hS) d pos _ _ h1
    simp only [Ty.size] at hk
    rw [hk] at s1; cases s1
    refine ⟨s2, ?_⟩
    rw [write_ptr_ptr, s4]
    simp only [tyMask, hk, Option.getD_some, applyMask_scalar d pos k s3]
  | .union _ _, hS, _, _, _, _, _, _, _, _, _, _, _, _ => by simp [Ty.fragS] at hS
  | .arr e len, hS, hU, hP, ctx, d, pos, v, p, h, hlen, hpos, k, hk => by
    simp only [Ty.fragS, Bool.and_eq_true] at hS
    simp only [Ty.uniformAlign] at hU
    simp only [Ty.pow2Aligned] at hP
    simp only [sAlign] at hpos
    cases len with
    | expr _ => simp at hS
    | nullTerm => simp at hS
    | eof => simp at hS
    | fixed n =>
      obtain ⟨k', hk'⟩ := fragS_size cfg e hS.2
      simp only [Ty.size, hk'] at hk
      cases hk
      rw [read_arr_fixed] at h
      obtain ⟨_, _, a3⟩ := pf_array cfg al e d (pf_S cfg al d e hS.2 hU hP) n ctx pos v p h hpos
      have hp := a3 k' hk'
      refine ⟨hp, ?_⟩
      have hml := tyMask_length cfg e hS.2 k' hk'
      by_cases hc : ∃ a, e = .sc .char a
      · obtain ⟨a, rfl⟩ := hc
        cases hk'
        simp only [tyMask, Scalar.size, Option.getD_some]
        rw [List.flatten_replicate_replicate]
        have hl : (sread d pos (n * 1)).length = n * 1 := sread_length_of_le d pos _ (by omega)
        rw [applyMask_true _ _ hl, Nat.mul_one]
        rw [readArray_char] at h
        split at h
        · rename_i h0; subst h0
          cases h
          rw [write_arr_chars, sread_zero]
        · obtain ⟨⟨bs, q⟩, h1, h2⟩ := bind_ok h
          obtain ⟨_, hr⟩ := readExact_ok h1
          cases hr; cases h2
          rw [write_arr_chars]
      · have hne : ∀ a, e ≠ .sc .char a := fun a h => hc ⟨a, h⟩
        obtain ⟨vs, rfl, h1⟩ := readN_of_readArray cfg al e hS.2 hU hP hne ctx d n pos v p h hlen hpos
        have hPFN := pf_N cfg al e d (pf_S cfg al d e hS.2 hU hP) n ctx pos vs p h1 hpos
        have hw := rw_N cfg al e k' (tyMask cfg e) hk' hml d (pf_S cfg al d e hS.2 hU hP)
          (fun ctx pos v p hr hl hp => (rw_ty cfg al e hS.2 hU hP ctx d pos v p hr hl hp k' hk').2)
          n ctx pos vs p h1 hlen hpos
        have hvl : vs.length = n := by
          obtain ⟨ws, g1, g2⟩ := rs_N cfg al e k' d
            (fun ha => by subst ha; exact size_sAlign_dvd cfg e hS.2 hU hP k' hk')
            (fun ctx pos hl hp => rs_ty cfg al e hS.2 hU hP ctx d pos k' hk' hl hp) n ctx pos (by omega) hpos
          rw [← hp, h1] at g1
          cases g1
          exact hasTyN_length cfg e n _ g2
        rw [write_arr_list, if_neg (by rw [hvl]; simp), hw]
        simp only [tyMask]
  | .struct al' fs, hS, hU, hP, ctx, d, pos, v, p, h, hlen, hpos, k, hk => by
    simp only [Ty.fragS] at hS
    simp only [Ty.uniformAlign, Bool.and_eq_true, beq_iff_eq] at hU
    simp only [Ty.pow2Aligned] at hP
    obtain ⟨rfl, hU⟩ := hU
    rw [struct_size cfg al' fs hS] at hk
    cases hk
    rw [read_struct, structLayout_S cfg al' fs hS] at h
    simp only [Except.bind] at h
    obtain ⟨⟨vs, szs, q⟩, h3, h4⟩ := bind_ok h
    have hdv : al' = true → allAlignDvd cfg pos fs :=
      fun ha => allAlignDvd_of_sAlign cfg al' fs hP pos (hpos ha)
    have h3' : readFields cfg al' fs (offsS cfg al' fs 0) pos BitBuf.empty [] d (pos + 0) = .ok (vs, szs, q) := h3
    obtain ⟨b1, b2⟩ := rw_fields cfg al' fs hS hU hP [] d pos 0 BitBuf.empty vs szs q h3' hdv
    have hml := fieldsMask_length cfg fs hS al' 0
    have hE := le_endOff cfg al' fs 0
    simp only [Nat.sub_zero, Nat.add_zero] at b2 hml
    generalize hEd : endOff cfg al' fs 0 = E at *
    generalize hMd : Fields.maxAlign cfg fs 0 = M at *
    have hpad : al' = true → padNat (pos + E) M = padNat E M := by
      intro ha; subst ha; subst hMd; exact padNat_struct cfg true fs hP pos E (hpos rfl)
    have hv : v = .record vs := by cases h4; rfl
    subst hv
    have hp : p = pos + alignTo al' E M := by
      cases h4
      cases al' with
      | false => simp [alignTo, b1]
      | true => simp only [alignTo, if_true, b1, hpad rfl]; omega
    have hle := le_alignTo al' E M
    refine ⟨hp, ?_⟩
    obtain ⟨w, _⟩ := b2 (by omega)
    have l1 : (sread d pos E).length = E := sread_length_of_le d pos E (by omega)
    have l2 : (sread d (pos + E) (alignTo al' E M - E)).length = alignTo al' E M - E :=
      sread_length_of_le d _ _ (by omega)
    have lo : (applyMask (fieldsMask cfg fs (offsS cfg al' fs 0) 0) (sread d pos E)).length = E := by
      rw [applyMask_length, hml, l1]; omega
    rw [write_struct, structLayout_S cfg al' fs hS]
    simp only [Except.bind, w, flushBits_empty, List.append_nil, hMd]
    simp only [tyMask, structLayout_S cfg al' fs hS, hml, hEd, hMd]
    have e1 : alignTo al' E M = E + (alignTo al' E M - E) := by omega
    rw [e1, sread_add, applyMask_append _ _ _ _ (by rw [hml, l1]), ← e1, applyMask_false _ _ l2, lo]
    cases al' with
    | false => simp [alignTo, zeros]
    | true => simp only [if_true, hpad rfl, alignTo]; congr 3; omega
theorem rw_fields (cfg : Cfg) (al : Bool) : ∀ (fs : Fields), Fields.fragS cfg fs = true →
    Fields.uniformAlign al fs = true → fs.pow2Aligned cfg →
    ∀ (ctx : Ctx) (d : Bytes) (start o : Nat) (bb : BitBuf) (vs : Vals) (szs : List (String × Nat)) (q : Nat),
    readFields cfg al fs (offsS cfg al fs o) start bb ctx d (start + o) = .ok (vs, szs, q) →
    (al = true → allAlignDvd cfg start fs) →
    q = start + endOff cfg al fs o ∧
    (q ≤ d.length →
      writeFields cfg al fs (offsS cfg al fs o) vs start BitBuf.empty (start + o) =
        .ok (applyMask (fieldsMask cfg fs (offsS cfg al fs o) o) (sread d (start + o) (endOff cfg al fs o - o)),
          BitBuf.empty) ∧ True)
  | .nil, _, _, _, ctx, d, start, o, bb, vs, szs, q, h, _ => by
    rw [readFields_nil] at h; cases h
    refine ⟨rfl, fun _ => ⟨?_, trivial⟩⟩
    rw [writeFields_nil]
    simp [fieldsMask, applyMask_nil_left]
  | .cons name an ty bits rest, hS, hU, hP, ctx, d, start, o, bb, vs, szs, q, h, hdv => by
    simp only [Fields.fragS, Bool.and_eq_true, Option.isNone_iff_eq_none] at hS
    obtain ⟨⟨rfl, hS1⟩, hS2⟩ := hS
    simp only [Fields.uniformAlign, Bool.and_eq_true] at hU
    simp only [Fields.pow2Aligned] at hP
    obtain ⟨k, hk⟩ := fragS_size cfg ty hS1
    have hfa := alignment_p2 cfg ty hP.1
    have hle := le_alignTo al o (ty.alignment cfg)
    have hpos : al = true → sAlign cfg ty ∣ start + alignTo al o (ty.alignment cfg) := by
      intro ha; subst ha
      have h1 := (hdv rfl).1
      exact Nat.dvd_trans (sAlign_dvd_alignment cfg ty) (Nat.dvd_add h1 (alignTo_dvd hfa o))
    have hml := tyMask_length cfg ty hS1 k hk
    simp only [offsS, hk, Option.getD_some] at h ⊢
    simp only [endOff, hk, Option.getD_some]
    generalize alignTo al o (ty.alignment cfg) = fo at *
    rw [readFields_cons_S] at h
    obtain ⟨⟨v, p1⟩, h1, h2⟩ := bind_ok h
    obtain ⟨⟨vs', szs', q'⟩, h3, h4⟩ := bind_ok h2
    cases h4
    obtain ⟨_, _, a3⟩ := pf_S cfg al d ty hS1 hU.1 hP.1 ctx (start + fo) v p1 h1 hpos
    have hp1 : p1 = start + (fo + k) := by rw [a3 k hk]; omega
    rw [hp1] at h3
    obtain ⟨b1, b2⟩ := rw_fields cfg al rest hS2 hU.2 hP.2 _ d start (fo + k) _ vs' szs' q h3 (fun ha => (hdv ha).2)
    have hE := le_endOff cfg al rest (fo + k)
    refine ⟨b1, fun hq => ⟨?_, trivial⟩⟩
    obtain ⟨_, w1⟩ := rw_ty cfg al ty hS1 hU.1 hP.1 ctx d (start + fo) v p1 h1 (by omega) hpos k hk
    obtain ⟨w2, _⟩ := b2 hq
    generalize endOff cfg al rest (fo + k) = E at *
    have hpad : (if start + o < start + fo then start + fo - (start + o) else 0) = fo - o := by
      split <;> omega
    have l1 : (sread d (start + fo) k).length = k := sread_length_of_le d _ k (by omega)
    have lb : (applyMask (tyMask cfg ty) (sread d (start + fo) k)).length = k := by
      rw [applyMask_length, hml, l1]; omega
    rw [writeFields_cons_S, hpad]
    have e1 : start + o + (fo - o) = start + fo := by omega
    rw [e1, w1]
    simp only [Except.bind]
    have e2 : start + o + (zeros (fo - o) ++ applyMask (tyMask cfg ty) (sread d (start + fo) k)).length =
        start + (fo + k) := by
      simp only [List.length_append, zeros, List.length_replicate, lb]; omega
    rw [e2, w2]
    simp only [fieldsMask, List.headD_cons, Option.getD_some, List.drop_succ_cons, List.drop_zero, hml]
    have e3 : E - o = (fo - o) + k + (E - (fo + k)) := by omega
    rw [e3, applyMask_three d (start + o) (fo - o) k _ _ _ hml (by omega), e1]
    have e4 : start + fo + k = start + (fo + k) := by omega
    rw [e4]
end

end Cstruct.C02.Lemmas
