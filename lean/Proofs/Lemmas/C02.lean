import Proofs.Spec.C02
import Proofs.Core
namespace Cstruct.C02.Lemmas
open Cstruct Cstruct.C02
end Cstruct.C02.Lemmas
