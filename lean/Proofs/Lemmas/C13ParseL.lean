/-
  C13, definition parser — helper lemmas (12): the loop of `parse` over a concatenation of token lists, and the concatenation
  of admissible lexeme lists at a top-level boundary.
-/
import Proofs.Lemmas.C13ParseK

namespace Cstruct.DefParser.C13
open Cstruct.DefParser

theorem typedefOf_rest (ty : TypeRef) (ns : List (List Char)) (rest : List OTok) (d : Decl) (r : List OTok)
    (h : typedefOf ty ns rest = .ok (d, r)) : r = rest ∧ ∀ rest', typedefOf ty ns rest' = .ok (d, rest') := by
  unfold typedefOf at h ⊢
  split at h
  · simp at h
  · split at h
    · simp at h
    · rename_i ds hds
      simp only [Except.ok.injEq, Prod.mk.injEq] at h
      refine ⟨h.2.symm, fun rest' => ?_⟩
      simp [hds, h.1]

theorem typedefTail_frame (ty : TypeRef) (toks extra : List OTok) (d : Decl) (r : List OTok)
    (h : typedefTail ty toks = .ok (d, r)) (hr : r ≠ []) :
    typedefTail ty (toks ++ extra) = .ok (d, r ++ extra) ∧ r.length ≤ toks.length := by
  unfold typedefTail at h ⊢
  obtain ⟨hrn, hall⟩ := typedefOf_rest _ _ _ _ _ h
  subst hrn
  rw [names_frame toks extra hr]
  exact ⟨hall _, names_len toks⟩

theorem typedefH_frame (toks extra : List OTok) (d : Decl) (r : List OTok) (h : typedefH toks = .ok (d, r)) (hr : r ≠ []) :
    typedefH (toks ++ extra) = .ok (d, r ++ extra) ∧ r.length ≤ toks.length := by
  cases toks with
  | nil =>
    simp only [typedefH] at h
    have := typedefTail_frame .none [] extra d r h hr
    simp at this; exact absurd this.2 hr
  | cons t toks =>
    cases t with
    | ident v =>
      simp only [typedefH] at h
      have h1 := typedefTail_frame _ _ extra d r h hr
      have hi : (identifier (.ident v :: toks)).2 ≠ [] := ne_nil_of_len r _ hr h1.2
      have h2 := identifier_frame (.ident v :: toks) extra hi
      have hl := identifier_len (.ident v :: toks)
      simp only [List.cons_append] at h2
      simp only [List.cons_append, typedefH, h2, h1.1, true_and]
      omega
    | struct u =>
      simp only [typedefH] at h
      split at h
      · simp at h
      · rename_i ty t1 hs
        have h1 := typedefTail_frame ty t1 extra d r h hr
        have ht1 : t1 ≠ [] := ne_nil_of_len r t1 hr h1.2
        have h2 := (frame_all _).1 false (.struct u :: toks) ty t1 extra (4 * (OTok.struct u :: (toks ++ extra)).length + 8) hs ht1
          (by simp; omega)
        simp only [List.cons_append] at h2
        simp only [List.cons_append, typedefH, h2.1, h1.1, true_and]
        have := h2.2; omega
    | _ =>
      simp only [typedefH] at h
      have h1 := typedefTail_frame .none _ extra d r h hr
      simp only [List.cons_append, typedefH]
      exact h1

/-- one iteration of the loop of `parse` is local, and takes at least one token -/
theorem declH_frame (toks extra : List OTok) (d : Decl) (r : List OTok) (h : declH toks = .ok (d, r)) (hr : r ≠ []) :
    declH (toks ++ extra) = .ok (d, r ++ extra) ∧ r.length < toks.length := by
  cases toks with
  | nil => simp [declH] at h
  | cons t toks =>
    cases t with
    | config m => cases m <;> simp [declH] at h ⊢; obtain ⟨rfl, rfl⟩ := h; simp
    | define m => cases m <;> simp [declH] at h ⊢; obtain ⟨rfl, rfl⟩ := h; simp
    | lookup m => cases m <;> simp [declH] at h ⊢; obtain ⟨rfl, rfl⟩ := h; simp
    | typedef =>
      simp only [declH] at h
      have := typedefH_frame toks extra d r h hr
      simp only [List.cons_append, declH, this.1, true_and, List.length_cons]; omega
    | struct u =>
      simp only [declH] at h
      cases hs : structH (4 * toks.length + 12) true (.struct u :: toks) with
      | error e => simp [hs] at h
      | ok p =>
        obtain ⟨ty, t1⟩ := p
        cases ty with
        | inline a =>
          simp only [hs, Except.ok.injEq, Prod.mk.injEq] at h
          obtain ⟨rfl, rfl⟩ := h
          have h2 := (frame_all _).1 true (.struct u :: toks) (.inline a) t1 extra (4 * (toks ++ extra).length + 12) hs hr (by simp; omega)
          simp only [List.cons_append] at h2
          simp only [List.cons_append, declH, h2.1, true_and]
          have := h2.2; simp only [List.length_cons] at this ⊢; omega
        | _ => simp [hs] at h
    | enum m =>
      cases m with
      | none => simp [declH, enumH] at h
      | some m =>
        simp only [declH, enumH] at h
        cases he : eol toks with
        | error e => simp [he] at h
        | ok r' =>
          simp only [he, Except.ok.injEq, Prod.mk.injEq] at h
          obtain ⟨rfl, rfl⟩ := h
          have := eol_frame toks extra r' he
          simp only [List.cons_append, declH, enumH, this.1, true_and, List.length_cons]; omega
    | _ => simp [declH] at h

theorem declH_len (toks : List OTok) (d : Decl) (r : List OTok) (h : declH toks = .ok (d, r)) : r.length < toks.length := by
  by_cases hr : r = []
  · subst hr
    cases toks with
    | nil => simp [declH] at h
    | cons t toks => simp
  · exact (declH_frame toks [] d r h hr).2

theorem declsN_len : ∀ (k : Nat) (toks : List OTok) (ds : List Decl) (r : List OTok),
    declsN k toks = .ok (ds, r) → r.length + k ≤ toks.length ∧ ds.length = k
  | 0, toks, ds, r, h => by simp [declsN] at h; obtain ⟨rfl, rfl⟩ := h; simp
  | k + 1, toks, ds, r, h => by
    simp only [declsN] at h
    cases hd : declH toks with
    | error e => simp [hd] at h
    | ok p =>
      obtain ⟨d, r1⟩ := p
      simp only [hd] at h
      cases hn : declsN k r1 with
      | error e => simp [hn] at h
      | ok q =>
        obtain ⟨ds', r'⟩ := q
        simp only [hn, Except.ok.injEq, Prod.mk.injEq] at h
        obtain ⟨rfl, rfl⟩ := h
        have := declsN_len k r1 ds' r' hn
        have := declH_len toks d r1 hd
        simp; omega

theorem declsN_frame : ∀ (k : Nat) (toks extra : List OTok) (ds : List Decl) (r : List OTok),
    declsN k toks = .ok (ds, r) → r ≠ [] → declsN k (toks ++ extra) = .ok (ds, r ++ extra)
  | 0, toks, extra, ds, r, h, _ => by simp [declsN] at h ⊢; obtain ⟨rfl, rfl⟩ := h; simp
  | k + 1, toks, extra, ds, r, h, hr => by
    simp only [declsN] at h ⊢
    cases hd : declH toks with
    | error e => simp [hd] at h
    | ok p =>
      obtain ⟨d, r1⟩ := p
      simp only [hd] at h
      cases hn : declsN k r1 with
      | error e => simp [hn] at h
      | ok q =>
        obtain ⟨ds', r'⟩ := q
        simp only [hn, Except.ok.injEq, Prod.mk.injEq] at h
        obtain ⟨rfl, rfl⟩ := h
        have hl := (declsN_len k r1 ds' r' hn).1
        have hr1 : r1 ≠ [] := ne_nil_of_len r' r1 hr (by omega)
        rw [(declH_frame toks extra d r1 hd hr1).1]
        simp only [declsN_frame k r1 extra ds' r' hn hr]

/-- the loop of `parse` does not depend on its step budget once that exceeds the number of tokens -/
theorem declsH_fuel : ∀ (n : Nat) (toks : List OTok) (f g : Nat), toks.length ≤ n → toks.length < f → toks.length < g →
    declsH f toks = declsH g toks
  | _, [], f, g, _, hf, hg => by
    obtain ⟨f', rfl⟩ : ∃ f', f = f' + 1 := ⟨f - 1, by simp at hf; omega⟩
    obtain ⟨g', rfl⟩ : ∃ g', g = g' + 1 := ⟨g - 1, by simp at hg; omega⟩
    simp [declsH]
  | 0, t :: toks, _, _, hn, _, _ => by simp at hn
  | n + 1, t :: toks, f, g, hn, hf, hg => by
    obtain ⟨f', rfl⟩ : ∃ f', f = f' + 1 := ⟨f - 1, by simp at hf; omega⟩
    obtain ⟨g', rfl⟩ : ∃ g', g = g' + 1 := ⟨g - 1, by simp at hg; omega⟩
    simp only [declsH]
    cases hd : declH (t :: toks) with
    | error e => rfl
    | ok p =>
      obtain ⟨d, r⟩ := p
      have hl := declH_len _ d r hd
      simp only [List.length_cons] at hl hn hf hg
      have := declsH_fuel n r f' g' (by omega) (by omega) (by omega)
      simp only [this]

/-- `k` iterations, then the loop on what is left -/
theorem declsH_of_declsN : ∀ (k : Nat) (toks : List OTok) (ds : List Decl) (r : List OTok) (f : Nat),
    declsN k toks = .ok (ds, r) → toks.length < f →
    declsH f toks = (ds ++ (declsH (r.length + 1) r).1, (declsH (r.length + 1) r).2)
  | 0, toks, ds, r, f, h, hf => by
    simp [declsN] at h; obtain ⟨rfl, rfl⟩ := h
    simp [declsH_fuel toks.length toks f (toks.length + 1) (Nat.le_refl _) hf (by omega)]
  | k + 1, toks, ds, r, f, h, hf => by
    simp only [declsN] at h
    cases hd : declH toks with
    | error e => simp [hd] at h
    | ok p =>
      obtain ⟨d, r1⟩ := p
      simp only [hd] at h
      cases hn : declsN k r1 with
      | error e => simp [hn] at h
      | ok q =>
        obtain ⟨ds', r'⟩ := q
        simp only [hn, Except.ok.injEq, Prod.mk.injEq] at h
        obtain ⟨rfl, rfl⟩ := h
        have hl := declH_len toks d r1 hd
        obtain ⟨f', rfl⟩ : ∃ f', f = f' + 1 := ⟨f - 1, by omega⟩
        cases toks with
        | nil => simp [declH] at hd
        | cons t toks =>
          simp only [declsH, hd]
          rw [declsH_of_declsN k r1 ds' r' f' hn (by simp at hl hf; omega)]
          simp

end Cstruct.DefParser.C13
