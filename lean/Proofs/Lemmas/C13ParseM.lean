/-
  C13, definition parser — helper lemmas (13): concatenation of admissible lexeme lists at a top-level boundary, the
  declaration list of a concatenation, and the registration of independent typedefs in any order.
-/
import Proofs.Lemmas.C13ParseL
import Proofs.Lemmas.C13

namespace Cstruct.DefParser.C13
open Cstruct Cstruct.Parser Cstruct.DefParser

theorem toks_append (l1 l2 : List (Lexeme × List Char)) : toks (l1 ++ l2) = toks l1 ++ toks l2 := by
  induction l1 with
  | nil => rfl
  | cons p l1 ih => obtain ⟨x, s⟩ := p; simp [toks, ih]

theorem adm_head_not_defs (l : List (Lexeme × List Char)) (h : adm false l = true) :
    ∀ y, l.head?.map (·.1) = some y → y.isDefs = false := by
  intro y hy
  cases l with
  | nil => simp at hy
  | cons p r =>
    obtain ⟨z, sz⟩ := p
    simp at hy; subst hy
    obtain ⟨-, -, hd, -, -⟩ := adm_cons false z sz r h
    cases hdd : z.isDefs with
    | false => rfl
    | true => exact absurd (hd hdd) (by simp)

/-- behind a lexeme list that ends a top-level declaration any admissible list may follow -/
theorem adm_append : ∀ (l1 l2 : List (Lexeme × List Char)) (ac : Bool), adm ac l1 = true → endsTop l1 = true →
    adm false l2 = true → adm ac (l1 ++ l2) = true
  | [], _, _, _, he, _ => by simp [endsTop] at he
  | [(x, s)], l2, ac, h, he, h2 => by
    obtain ⟨hwf, hbs, hd, hsep, -⟩ := adm_cons ac x s [] h
    have hnd := adm_head_not_defs l2 h2
    have hcl : closes x s = false ∧ sepOK x s (l2.head?.map (·.1)) = true := by
      cases x with
      | semi =>
        refine ⟨rfl, ?_⟩
        cases hh : l2.head?.map (·.1) with
        | none => simp [sepOK]
        | some y => simp [sepOK, hnd y hh]
      | config v =>
        refine ⟨rfl, ?_⟩
        cases hh : l2.head?.map (·.1) with
        | none => simp [sepOK]
        | some y => simp [sepOK, hnd y hh]
      | define a b c d =>
        refine ⟨rfl, ?_⟩
        cases s with
        | nil => simp [endsTop] at he
        | cons c0 s' =>
          have : (c0 == '\n' || c0 == '\r') = true := by simpa [sepOK] using hsep
          cases hh : l2.head?.map (·.1) with
          | none => simpa [sepOK] using this
          | some y => simp only [sepOK, hnd y hh]; simpa using this
      | _ => simp [endsTop] at he
    have hd' : (!x.isDefs || ac) = true := by
      cases hx : x.isDefs with
      | false => rfl
      | true => simp [hd hx]
    simp only [List.singleton_append, adm, hwf, hbs, hd', hcl.2, hcl.1, h2, Bool.and_self]
  | (x, s) :: p2 :: r, l2, ac, h, he, h2 => by
    obtain ⟨hwf, hbs, hd, hsep, hrest⟩ := adm_cons ac x s (p2 :: r) h
    have he' : endsTop (p2 :: r) = true := by simpa [endsTop, List.getLast?_cons_cons] using he
    have ih := adm_append (p2 :: r) l2 (closes x s) hrest he' h2
    have hd' : (!x.isDefs || ac) = true := by
      cases hx : x.isDefs with
      | false => rfl
      | true => simp [hd hx]
    have hsep' : sepOK x s (((p2 :: r) ++ l2).head?.map (·.1)) = true := by simpa using hsep
    have e : adm ac ((x, s) :: ((p2 :: r) ++ l2)) = (x.wf && blank s && (!x.isDefs || ac) &&
        sepOK x s (((p2 :: r) ++ l2).head?.map (·.1)) && adm (closes x s) ((p2 :: r) ++ l2)) := rfl
    rw [List.cons_append, e, hwf, hbs, hd', hsep', ih]; rfl

/-- the declaration list of a concatenation of token lists, at a boundary -/
theorem decls_append_obs (o1 o2 : List OTok) (ds1 : List Decl) (h1 : declsH (o1.length + 1) o1 = (ds1, none))
    (hb : match o2.head? with
      | none => True
      | some e => declsN ds1.length (o1 ++ [e]) = .ok (ds1, [e])) :
    declsH ((o1 ++ o2).length + 1) (o1 ++ o2) = (ds1 ++ (declsH (o2.length + 1) o2).1, (declsH (o2.length + 1) o2).2) := by
  cases o2 with
  | nil => simp [h1, declsH]
  | cons e o2 =>
    simp only [List.head?_cons] at hb
    have := declsN_frame ds1.length (o1 ++ [e]) o2 ds1 [e] hb (by simp)
    simp only [List.append_assoc, List.singleton_append] at this
    rw [declsH_of_declsN ds1.length (o1 ++ e :: o2) ds1 (e :: o2) _ this (by simp)]

-- ------------------------------------------------------------------------------------------------ registration order
theorem lookupEq_setB (t1 t2 : List (String × Bind)) (h : LookupEq t1 t2) (name : String) (v : Bind) :
    LookupEq (setB name v t1) (setB name v t2) := by
  intro n; rw [lookupB_setB, lookupB_setB, h n]

theorem regTypedef_fresh (tbl : List (String × Bind)) (a t : String) (id : Nat) (hf : lookupB a tbl = none)
    (ht : resolveB tbl 10 t = some id) : regTypedef tbl (a, t) = some (setB a (.type id) tbl) := by
  simp [regTypedef, ht, addType_fresh tbl a _ hf]

theorem regOK_step (tbl : List (String × Bind)) (a t : String) (rest : List (String × String)) (id : Nat)
    (h : RegOK tbl ((a, t) :: rest)) : RegOK (setB a (.type id) tbl) rest := by
  obtain ⟨hn, hf, hr⟩ := h
  have ha : lookupB a tbl = none := hf (a, t) (by simp)
  simp only [List.map_cons, List.nodup_cons] at hn
  refine ⟨hn.2, ?_, ?_⟩
  · intro p hp
    have hne : p.1 ≠ a := fun e => hn.1 (by rw [← e]; exact List.mem_map_of_mem hp)
    rw [lookupB_setB, if_neg hne]
    exact hf p (by simp [hp])
  · intro p hp
    obtain ⟨i, hi⟩ := hr p (by simp [hp])
    exact ⟨i, resolveB_setB_fresh tbl a _ ha 10 p.2 i hi⟩

theorem regTypedef_congr (t1 t2 t1' : List (String × Bind)) (h : LookupEq t1 t2) (r : String × String)
    (h1 : regTypedef t1 r = some t1') : ∃ t2', regTypedef t2 r = some t2' ∧ LookupEq t1' t2' := by
  unfold regTypedef at h1 ⊢
  rw [← resolveB_congr t1 t2 h 10 r.2]
  cases hr : resolveB t1 10 r.2 with
  | none => simp [hr] at h1
  | some id =>
    simp only [hr] at h1 ⊢
    unfold addType at h1 ⊢
    simp only [← h r.1, ← resolveB_congr t1 t2 h 10 r.1]
    cases hl : lookupB r.1 t1 with
    | none => simp only [hl] at h1 ⊢; cases h1; exact ⟨_, rfl, lookupEq_setB t1 t2 h _ _⟩
    | some b =>
      simp only [hl] at h1 ⊢
      split at h1
      · simp at h1
      · rename_i hc; simp only [hc, if_false]; cases h1; exact ⟨_, rfl, lookupEq_setB t1 t2 h _ _⟩

theorem regAll_congr : ∀ (regs : List (String × String)) (t1 t2 t1' : List (String × Bind)), LookupEq t1 t2 →
    regAll t1 regs = some t1' → ∃ t2', regAll t2 regs = some t2' ∧ LookupEq t1' t2'
  | [], t1, t2, t1', h, h1 => by simp [regAll] at h1; subst h1; exact ⟨t2, rfl, h⟩
  | r :: rest, t1, t2, t1', h, h1 => by
    simp only [regAll] at h1 ⊢
    cases hr : regTypedef t1 r with
    | none => simp [hr] at h1
    | some m1 =>
      simp only [hr] at h1
      obtain ⟨m2, hm2, hm⟩ := regTypedef_congr t1 t2 m1 h r hr
      simp only [hm2]
      exact regAll_congr rest m1 m2 t1' hm h1

theorem regOK_perm (tbl : List (String × Bind)) (l1 l2 : List (String × String)) (hp : l1.Perm l2) (h : RegOK tbl l1) :
    RegOK tbl l2 :=
  ⟨(hp.map _).nodup_iff.mp h.1, fun p hp' => h.2.1 p (hp.mem_iff.mpr hp'), fun p hp' => h.2.2 p (hp.mem_iff.mpr hp')⟩

theorem reg_perm (l1 l2 : List (String × String)) (hp : l1.Perm l2) : ∀ (tbl T : List (String × Bind)), RegOK tbl l1 →
    regAll tbl l1 = some T → ∃ T', regAll tbl l2 = some T' ∧ LookupEq T T' := by
  induction hp with
  | nil => intro tbl T _ h; exact ⟨T, h, fun _ => rfl⟩
  | cons x _ ih =>
    intro tbl T hok h
    obtain ⟨a, t⟩ := x
    obtain ⟨id, hid⟩ := hok.2.2 (a, t) (by simp)
    have hf := hok.2.1 (a, t) (by simp)
    have hr := regTypedef_fresh tbl a t id hf hid
    simp only [regAll, hr] at h ⊢
    exact ih _ T (regOK_step tbl a t _ id hok) h
  | swap x y l =>
    intro tbl T hok h
    obtain ⟨a, ta⟩ := x
    obtain ⟨b, tb⟩ := y
    -- the hypothesis is about  y :: x :: l,  the claim about  x :: y :: l
    obtain ⟨ida, hida⟩ := hok.2.2 (a, ta) (by simp)
    obtain ⟨idb, hidb⟩ := hok.2.2 (b, tb) (by simp)
    have hfa := hok.2.1 (a, ta) (by simp)
    have hfb := hok.2.1 (b, tb) (by simp)
    have hab : a ≠ b := by
      have := hok.1; simp only [List.map_cons, List.nodup_cons, List.mem_cons] at this
      exact fun e => this.1 (.inl e.symm)
    -- y then x
    have hb1 := regTypedef_fresh tbl b tb idb hfb hidb
    have hfa' : lookupB a (setB b (.type idb) tbl) = none := by rw [lookupB_setB, if_neg hab]; exact hfa
    have ha2 := regTypedef_fresh (setB b (.type idb) tbl) a ta ida hfa' (resolveB_setB_fresh tbl b _ hfb 10 ta ida hida)
    -- x then y
    have ha1 := regTypedef_fresh tbl a ta ida hfa hida
    have hfb' : lookupB b (setB a (.type ida) tbl) = none := by rw [lookupB_setB, if_neg (Ne.symm hab)]; exact hfb
    have hb2 := regTypedef_fresh (setB a (.type ida) tbl) b tb idb hfb' (resolveB_setB_fresh tbl a _ hfa 10 tb idb hidb)
    have hc := commute tbl _ _ _ _ b a (.type idb) (.type ida) (Ne.symm hab) hfb hfa
      (addType_fresh tbl b _ hfb) (addType_fresh _ a _ hfa') (addType_fresh tbl a _ hfa) (addType_fresh _ b _ hfb')
    simp only [regAll, hb1, ha2] at h
    simp only [regAll, ha1, hb2]
    exact regAll_congr l _ _ T hc.1 h
  | trans p1 _ ih1 ih2 =>
    intro tbl T hok h
    obtain ⟨T1, h1, e1⟩ := ih1 tbl T hok h
    obtain ⟨T2, h2, e2⟩ := ih2 tbl T1 (regOK_perm tbl _ _ p1 hok) h1
    exact ⟨T2, h2, fun n => (e1 n).trans (e2 n)⟩

theorem regAll_total : ∀ (regs : List (String × String)) (tbl : List (String × Bind)), RegOK tbl regs → ∃ T, regAll tbl regs = some T
  | [], tbl, _ => ⟨tbl, rfl⟩
  | (a, t) :: rest, tbl, hok => by
    obtain ⟨id, hid⟩ := hok.2.2 (a, t) (by simp)
    have hr := regTypedef_fresh tbl a t id (hok.2.1 (a, t) (by simp)) hid
    simp only [regAll, hr]
    exact regAll_total rest _ (regOK_step tbl a t rest id hok)

end Cstruct.DefParser.C13
