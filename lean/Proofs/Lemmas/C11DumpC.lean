/-
  Helper lemmas for `Proofs/C11Dump.lean`, part C: the dump of a union whose members are coherent with a buffer and
  whose written member covers the union is the buffer; parsing; assignment histories.
-/
import Proofs.Lemmas.C11DumpB

namespace Cstruct.C11.DumpLemmas
open Cstruct Cstruct.Union Cstruct.Core Cstruct.C02B
open Cstruct.C11.Lemmas (nTy nVal)

theorem and_ff (b : UInt8) : b &&& 0xFF = b := by
  have : (0xFF : UInt8) = -1 := by decide
  rw [this, UInt8.and_neg_one]

theorem andBytes_ones : ∀ (x : Bytes) (n : Nat), x.length ≤ n → andBytes x (List.replicate n 0xFF) = x
  | [], n, _ => by simp [andBytes]
  | b :: r, 0, h => by simp at h
  | b :: r, n + 1, h => by
    have ih := andBytes_ones r n (by simp only [List.length_cons] at h; omega)
    unfold andBytes at ih ⊢
    rw [List.replicate_succ, List.zipWith_cons_cons, ih, and_ff]

/-- the union case of `read` -/
theorem read_union_eq (cfg : Cfg) (al : Bool) (fs : Fields) (ctx : Ctx) (data : Bytes) (pos sz : Nat)
    (hsz : (Ty.union al fs).size cfg = some sz) :
    read cfg (.union al fs) ctx data pos =
      match readMembers cfg fs [] (sread data pos sz) with
      | .error e => .error e
      | .ok vs => .ok (.union (sread data pos sz) vs, pos + sz) := by
  rw [read]
  simp only [hsz]
  rfl

/-- **Core of the dump theorems.** If the member values `vs` are what the buffer `buf` (at least `n` bytes) parses to,
    and the written member covers the union, the dump at any position `q` (a multiple of the member's alignments) is the
    first `n` bytes of the buffer. -/
theorem dump_of_coherent (cfg : Cfg) (al : Bool) (fs : Fields) (n k : Nat) (t : Ty)
    (hsz : (Ty.union al fs).size cfg = some n) (hk : writtenMember cfg fs = some k) (ht : nTy fs k = some t)
    (hS : t.fragSB cfg = true) (hu : t.uniformAlign al = true) (hp : t.pow2Aligned cfg)
    (hn : al = true → t.bitsNatural cfg = true) (hd : t.defErr cfg = none)
    (htn : t.size cfg = some n) (hcov : maskB cfg t = List.replicate n 0xFF)
    (buf : Bytes) (vs : Vals) (hm : readMembers cfg fs [] buf = .ok vs) (hbl : n ≤ buf.length)
    (q : Nat) (hal : t.alignsDivide cfg q = true) (b' : Bytes) :
    write cfg (.union al fs) (.union b' vs) q = .ok (buf.take n) := by
  obtain ⟨v, ctx', p', hv, hr⟩ := Lemmas.members_gen cfg buf fs [] vs hm k t ht
  have hzl : (zeros q).length = q := Lemmas.length_zeros q
  have hsh := C09.c09_shift cfg al t (C02B.Lemmas.fragSB_plain cfg t hS) hu hp ctx' (zeros q) buf 0
    (fun _ => by rw [hzl]; exact hal)
  rw [hr, hzl, Nat.add_zero] at hsh
  simp only [C09.shiftRes] at hsh
  obtain ⟨n', hsz', hp'', _, _, hwr⟩ := c02_fidelity_SB_gen cfg al t hS hu hp hn hd ctx' _ q hal v _ hsh
  rw [htn] at hsz'
  have hnn : n' = n := (Option.some.inj hsz').symm
  subst hnn
  have hwr := hwr (by rw [List.length_append, hzl]; omega)
  have hsr : sread (zeros q ++ buf) q n' = buf.take n' := by
    have := C09.Lemmas.sread_shift (zeros q) buf 0 n'
    rw [hzl, Nat.add_zero] at this
    rw [this]
    simp [sread]
  rw [hsr, hcov, andBytes_ones _ _ (by rw [List.length_take]; omega)] at hwr
  have hwm : writeMemberRaw cfg fs vs k q = .ok (buf.take n') := by
    rw [Lemmas.writeMemberRaw_eq cfg fs vs k t v q ht hv]
    exact hwr
  have hlen : (buf.take n').length = n' := by rw [List.length_take]; omega
  have := write_union_written cfg al fs b' vs q n' hsz (readMembers_length cfg buf fs [] vs hm) k t hk ht _ hwm
    (by
      intro h0 he
      rw [htn] at h0
      rw [he] at hlen
      simp only [Option.getD_some] at h0
      simp only [List.length_nil] at hlen
      omega)
  rw [this, hlen, Nat.sub_self]
  simp [zeros]

/-! ### parsing and histories -/

theorem parse_coherent (cfg : Cfg) (fs : Fields) (sz : Nat) (data : Bytes) (pos : Nat) (s : UState) (p : Nat)
    (h : parse cfg fs sz data pos = .ok (s, p)) : readMembers cfg fs [] s.buf = .ok s.vals := by
  unfold parse at h
  simp only at h
  split at h
  · cases h
  · rename_i vs hm
    cases h
    exact hm

theorem overwrite_length (buf enc : Bytes) : (overwrite buf enc).length = max enc.length buf.length := by
  unfold overwrite
  rw [List.length_append, List.length_drop]
  omega

/-- an assignment never shortens the buffer, and keeps its length when the encoding fits -/
theorem assign_length (cfg : Cfg) (fs : Fields) (s : UState) (k : Nat) (v : Val) (s' : UState)
    (h : assign cfg fs s k v = .ok s') :
    s.buf.length ≤ s'.buf.length ∧
      ((∀ enc, writeMemberRaw cfg fs (setNth s.vals k v) k 0 = .ok enc → enc.length ≤ s.buf.length) →
        s'.buf.length = s.buf.length) := by
  obtain ⟨enc, hw, hb, _⟩ := Lemmas.assign_ok cfg fs s k v s' h
  have hl : s'.buf.length = max enc.length s.buf.length := by
    rw [hb]
    exact overwrite_length s.buf enc
  refine ⟨by omega, fun hf => ?_⟩
  have := hf enc hw
  omega

theorem history_length (cfg : Cfg) (fs : Fields) : ∀ (hist : List (Nat × Val)) (s s' : UState),
    assignAll cfg fs s hist = .ok s' →
    s.buf.length ≤ s'.buf.length ∧ (histFits cfg fs s hist → s'.buf.length = s.buf.length)
  | [], s, s', h => by
    simp only [assignAll] at h
    cases h
    exact ⟨Nat.le_refl _, fun _ => rfl⟩
  | (k, v) :: r, s, s', h => by
    simp only [assignAll] at h
    split at h
    · cases h
    · rename_i s1 h1
      obtain ⟨a1, a2⟩ := assign_length cfg fs s k v s1 h1
      obtain ⟨b1, b2⟩ := history_length cfg fs r s1 s' h
      refine ⟨by omega, fun hf => ?_⟩
      simp only [histFits] at hf
      rw [b2 (hf.2 s1 h1), a2 hf.1]

end Cstruct.C11.DumpLemmas
