/-
  C13, round trip — helper lemmas (4): one iteration of the loop of `parse`, and the whole loop, on the observed tokens of rendered
  declarations.
-/
import Proofs.Lemmas.C13RenderC

namespace Cstruct.DefParser.C13
open Cstruct.DefParser

theorem typedefName_declr (d : Declarator) (h : declrWF false d = true) : typedefName (declrLex d).text = .ok d := by
  have hb : d.bits = none := by
    simp only [declrWF, Bool.and_eq_true, Bool.or_eq_true, Bool.false_eq_true, false_or, Option.isNone_iff_eq_none] at h
    exact h.2
  simp [typedefName, parseDeclarator_declrLex false d h, hb]

theorem typedefTail_declr (ty : TypeRef) (hty : ty ≠ .none) (d : Declarator) (h : declrWF false d = true) (rest : List OTok) :
    typedefTail ty (.name (declrLex d).text (.ok d) :: .eol :: rest) = .ok (.typedef ty [d], rest) := by
  have hn : names (.name (declrLex d).text (.ok d) :: .eol :: rest) = ([(declrLex d).text], rest) := by simp [names]
  unfold typedefTail typedefOf
  rw [hn]
  cases ty with
  | none => exact absurd rfl hty
  | _ => simp [List.mapM_cons, typedefName_declr d h]; rfl

theorem declH_oD (d : Decl) (h : wfDecl d = true) (rest : List OTok) (hr : notEolHead rest = true) :
    declH (oD d ++ rest) = .ok (d, rest) := by
  cases d with
  | lookup n v => simp [wfDecl] at h
  | config vs =>
    simp only [wfDecl, Bool.and_eq_true, Bool.not_eq_true', List.isEmpty_eq_false_iff, List.all_eq_true, bne_iff_ne, ne_eq] at h
    have := splitOn1_joinComma vs h.1.1 (fun v hv c hc => ((h.2 v hv).1 c hc).1)
    simp [oD, declH, this]
  | const n v => simp [oD, declH]
  | enum fl n b ms =>
    simp only [wfDecl, Bool.and_eq_true, List.all_eq_true] at h
    have hm := enumMembers_render ms (fun m hm => memberOK_of m (h.2 m hm))
    simp only [oD, List.cons_append, List.nil_append, declH, enumH, eol, hm]
    cases n with
    | nil => rfl
    | cons c n => rfl
  | typedef t ds =>
    simp only [wfDecl, Bool.and_eq_true] at h
    obtain ⟨ht, hds⟩ := h
    match ds, hds with
    | [d], hd =>
      cases t with
      | none => simp [wfT] at ht
      | name n =>
        obtain ⟨w, ws, hw⟩ := List.exists_cons_of_ne_nil (typeWordsOf_ne_nil n)
        have hid := identifier_idents w ws (.name (declrLex d).text (.ok d) :: .eol :: rest) (by intro v r e; cases e)
        have hj : joinBlank (w :: ws) = n := by rw [← hw]; exact joinBlank_split n
        simp only [oD, oT, hw, List.map_cons, List.map_nil, List.cons_append, List.append_assoc, List.nil_append] at hid ⊢
        simp only [declH, typedefH, hid, hj]
        exact typedefTail_declr _ (by simp) d hd rest
      | structRef tg =>
        simp only [oD, oT, List.map_cons, List.map_nil, List.cons_append, List.nil_append, declH, typedefH,
          List.length_cons]
        have : structH (4 * ((rest.length + 1 + 1 + 1) + 1) + 8) false
            (.struct false :: .ident tg :: .name (declrLex d).text (.ok d) :: .eol :: rest)
            = .ok (.structRef tg, .name (declrLex d).text (.ok d) :: .eol :: rest) := by
          simp [structH, structTail]
        simp only [this]
        exact typedefTail_declr _ (by simp) d hd rest
      | inline a =>
        have hwa : wfA false a = true := by simpa [wfT] using ht
        have hsz := szA_le a hwa
        have hs := structH_oA a hwa (4 * (oA a ++ (.name (declrLex d).text (.ok d) :: .eol :: rest)).length + 8)
          (.name (declrLex d).text (.ok d) :: .eol :: rest) (by simp only [List.length_append]; omega)
        obtain ⟨u, tag, fs, ns⟩ := a
        simp only [oD, oT, oA, List.map_cons, List.map_nil, List.cons_append, List.append_assoc, List.nil_append] at hs ⊢
        simp only [declH, typedefH, hs, dropEol]
        exact typedefTail_declr _ (by simp) d hd rest
  | aggr a =>
    obtain ⟨u, tag, fs, ns⟩ := a
    simp only [wfDecl, wfA, Bool.and_eq_true, if_true, Bool.or_eq_true, Bool.not_eq_true', List.isEmpty_eq_false_iff,
      Option.isSome_iff_ne_none] at h
    obtain ⟨⟨htag, hfs⟩, -, hnm⟩ := h
    have hsz := szFs_le fs hfs
    have hnames := names_oNames ns rest
    have hend : structEnd true u tag fs (oNames ns ++ .eol :: rest) = .ok (.inline (.mk u tag fs ns), rest) := by
      unfold structEnd
      simp only [if_true, hnames]
      have hcheck : (true && ns.isEmpty && tag.isNone) = false := by
        rcases hnm with h | h
        · cases tag with
          | none => exact absurd rfl h
          | some t => simp
        · cases ns with
          | nil => exact absurd rfl h
          | cons n r => simp
      simp only [hcheck, Bool.false_eq_true, if_false]
      cases rest with
      | nil => rfl
      | cons t r => cases t <;> simp_all [notEolHead]
    have key : ∀ (front : List OTok) (g : Nat), szFs fs ≤ g →
        structTail (g + 1) true u tag (.block false :: (oFs fs ++ .block true :: (oNames ns ++ .eol :: rest))) = .ok (.inline (.mk u tag fs ns), rest) := by
      intro _ g hg
      simp only [structTail, fieldsH_oFs fs hfs g _ hg, hend]
    cases tag with
    | some t =>
      simp only [oD, tagTok, List.cons_append, List.append_assoc, List.nil_append, declH, structH]
      rw [key [] _ (by simp only [List.length_cons, List.length_append]; omega)]
    | none =>
      simp only [oD, tagTok, List.cons_append, List.append_assoc, List.nil_append, declH, structH]
      rw [key [] _ (by simp only [List.length_cons, List.length_append]; omega)]

end Cstruct.DefParser.C13
