/-
  Helper lemmas for `Proofs/C03Compile.lean`, part 2: the validator's lazy treatment of `void` members.
  Every instruction handler of `planOKAux` except `bitsReset` first drops the void fields under the cursor
  (`dropVoids`); two cursors that agree after that step are indistinguishable while no bit run is open.
-/
import CstructModel.Compile

namespace Cstruct.Compiler
open Cstruct

/-- the cursor after the void fields under it (`dropVoids` without its "skipped" flag) -/
def dv (cfg : Cfg) (al : Bool) (fs : Fields) (offs : List (Option Nat)) (at_ : Option Nat) :
    Option (Fields × List (Option Nat)) :=
  (dropVoids cfg al fs offs at_).map fun r => (r.1, r.2.1)

/-- may the validator pass a void member with layout offset `fo` when the stream is statically at `at_`? -/
def voidOK (cfg : Cfg) (al : Bool) (ty : Ty) (fo : Option Nat) (at_ : Option Nat) : Bool :=
  match fo with
  | some o => at_ == some o
  | none => !al || ty.alignment cfg == 1

theorem dropVoids_nonvoid (cfg : Cfg) (al : Bool) (name : String) (an : Bool) (ty : Ty) (bits : Option Nat) (rest : Fields)
    (offs : List (Option Nat)) (at_ : Option Nat) (h : ¬ (isVoid ty = true ∧ bits.isNone = true)) :
    dropVoids cfg al (.cons name an ty bits rest) offs at_ = some (.cons name an ty bits rest, offs, false) := by
  rw [dropVoids, if_neg h]

theorem dropVoids_nil (cfg : Cfg) (al : Bool) (offs : List (Option Nat)) (at_ : Option Nat) :
    dropVoids cfg al .nil offs at_ = some (.nil, offs, false) := by
  rw [dropVoids]

theorem dv_nonvoid (cfg : Cfg) (al : Bool) (name : String) (an : Bool) (ty : Ty) (bits : Option Nat) (rest : Fields)
    (offs : List (Option Nat)) (at_ : Option Nat) (h : ¬ (isVoid ty = true ∧ bits.isNone = true)) :
    dv cfg al (.cons name an ty bits rest) offs at_ = some (.cons name an ty bits rest, offs) := by
  rw [dv, dropVoids_nonvoid _ _ _ _ _ _ _ _ _ h]; rfl

theorem dv_nil (cfg : Cfg) (al : Bool) (offs : List (Option Nat)) (at_ : Option Nat) :
    dv cfg al .nil offs at_ = some (.nil, offs) := by
  rw [dv, dropVoids_nil]; rfl

theorem dropVoids_void (cfg : Cfg) (al : Bool) (name : String) (an : Bool) (ty : Ty) (rest : Fields)
    (offs : List (Option Nat)) (at_ : Option Nat) (hv : isVoid ty = true) :
    dropVoids cfg al (.cons name an ty none rest) offs at_ =
      if voidOK cfg al ty (hdOff offs) at_ = true then
        (match dropVoids cfg al rest (offs.drop 1) at_ with
        | some (fs, os, _) => some (fs, os, true)
        | none => none)
      else none := by
  rw [dropVoids, if_pos ⟨hv, rfl⟩]
  rfl

theorem dv_void (cfg : Cfg) (al : Bool) (name : String) (an : Bool) (ty : Ty) (rest : Fields)
    (offs : List (Option Nat)) (at_ : Option Nat) (hv : isVoid ty = true) (hok : voidOK cfg al ty (hdOff offs) at_ = true) :
    dv cfg al (.cons name an ty none rest) offs at_ = dv cfg al rest (offs.drop 1) at_ := by
  unfold dv
  rw [dropVoids_void _ _ _ _ _ _ _ _ hv, if_pos hok]
  cases dropVoids cfg al rest (offs.drop 1) at_ with
  | none => rfl
  | some r => obtain ⟨a, b, c⟩ := r; rfl

/-- `dropVoids` is idempotent -/
theorem dropVoids_idem (cfg : Cfg) (al : Bool) : ∀ (fs : Fields) (offs : List (Option Nat)) (at_ : Option Nat)
    (fs' : Fields) (offs' : List (Option Nat)) (sk : Bool),
    dropVoids cfg al fs offs at_ = some (fs', offs', sk) → dropVoids cfg al fs' offs' at_ = some (fs', offs', false)
  | .nil, offs, at_, fs', offs', sk, h => by
    rw [dropVoids] at h
    cases h
    rw [dropVoids]
  | .cons name an ty bits rest, offs, at_, fs', offs', sk, h => by
    by_cases hv : isVoid ty = true ∧ bits.isNone = true
    · obtain ⟨hv1, hv2⟩ := hv
      have hb : bits = none := Option.isNone_iff_eq_none.mp hv2
      subst hb
      rw [dropVoids_void _ _ _ _ _ _ _ _ hv1] at h
      by_cases hok : voidOK cfg al ty (hdOff offs) at_ = true
      · rw [if_pos hok] at h
        cases hr : dropVoids cfg al rest (offs.drop 1) at_ with
        | none => rw [hr] at h; cases h
        | some r =>
          obtain ⟨a, b, c⟩ := r
          rw [hr] at h
          cases h
          exact dropVoids_idem cfg al rest _ at_ _ _ _ hr
      · rw [if_neg hok] at h; cases h
    · rw [dropVoids_nonvoid _ _ _ _ _ _ _ _ _ hv] at h
      cases h
      exact dropVoids_nonvoid _ _ _ _ _ _ _ _ _ hv

theorem dv_of_dropVoids (cfg : Cfg) (al : Bool) {fs : Fields} {offs : List (Option Nat)} {at_ : Option Nat}
    {fs' : Fields} {offs' : List (Option Nat)} {sk : Bool} (h : dropVoids cfg al fs offs at_ = some (fs', offs', sk)) :
    dv cfg al fs' offs' at_ = dv cfg al fs offs at_ := by
  unfold dv
  rw [h, dropVoids_idem cfg al _ _ _ _ _ _ h]
  rfl

/-- cursors that agree after dropping voids are indistinguishable for a plan that does not start with `bitsReset`,
    while no bit run is open -/
theorem planOKAux_dv (cfg : Cfg) (al : Bool) (salign : Nat) (plan : Plan) (hh : plan.head? ≠ some .bitsReset)
    (st : VSt) (hd : st.dirty = false) (fs1 fs2 : Fields) (offs1 offs2 : List (Option Nat))
    (h : dv cfg al fs1 offs1 st.spos = dv cfg al fs2 offs2 st.spos)
    (hs : (∃ r, dropVoids cfg al fs2 offs2 st.spos = some r) ∨ ∀ o, plan.head? ≠ some (.seek o)) :
    planOKAux cfg al salign plan fs1 offs1 st = planOKAux cfg al salign plan fs2 offs2 st := by
  unfold dv at h
  cases h1 : dropVoids cfg al fs1 offs1 st.spos with
  | none =>
    cases h2 : dropVoids cfg al fs2 offs2 st.spos with
    | some r => rw [h1, h2] at h; cases h
    | none =>
      cases plan with
      | nil => simp only [planOKAux, h1, h2]
      | cons i is =>
        cases i with
        | bitsReset => exact absurd rfl hh
        | seek o =>
          rcases hs with ⟨r, hr⟩ | hs
          · rw [h2] at hr; cases hr
          · exact absurd rfl (hs o)
        | align a => simp only [planOKAux, h1, h2]
        | alignCls => cases is <;> simp only [planOKAux, h1, h2]
        | sub nm => simp only [planOKAux, h1, h2]
        | bits nm n via => simp only [planOKAux, h1, h2]
        | block size fmt slots => simp only [planOKAux, h1, h2]
  | some r1 =>
    obtain ⟨a1, b1, c1⟩ := r1
    cases h2 : dropVoids cfg al fs2 offs2 st.spos with
    | none => rw [h1, h2] at h; cases h
    | some r2 =>
      obtain ⟨a2, b2, c2⟩ := r2
      rw [h1, h2] at h
      simp only [Option.map_some, Option.some.injEq, Prod.mk.injEq] at h
      obtain ⟨rfl, rfl⟩ := h
      cases plan with
      | nil =>
        simp only [planOKAux, h1, h2, hd, Bool.and_false]
        cases a1 <;> rfl
      | cons i is =>
        cases i with
        | bitsReset => exact absurd rfl hh
        | seek o => simp only [planOKAux, h1, h2, hd, Bool.and_false]
        | align a => simp only [planOKAux, h1, h2, hd, Bool.and_false]
        | alignCls =>
          cases is with
          | nil =>
            simp only [planOKAux, h1, h2, hd, Bool.and_false]
            cases a1 <;> rfl
          | cons _ _ => simp only [planOKAux]
        | sub nm =>
          simp only [planOKAux, h1, h2]
          cases a1 with
          | nil => rfl
          | cons _ _ _ bits _ => cases bits <;> rfl
        | bits nm n via =>
          simp only [planOKAux, h1, h2, hd, Bool.and_false]
          cases a1 with
          | nil => rfl
          | cons _ _ _ bits _ => cases bits <;> rfl
        | block size fmt slots =>
          simp only [planOKAux, h1, h2]
          cases fmtItemsOf fmt size <;> rfl

/-- the block validator walks over leading void members exactly like `dropVoids` does -/
theorem slotsOK_dropVoids (cfg : Cfg) (al : Bool) (its : List Item) (size : Nat) (bstart la : Option Nat) (sl : Slot)
    (slots : List Slot) : ∀ (fs : Fields) (offs : List (Option Nat)) (r : Fields × List (Option Nat) × Nat),
    slotsOK cfg al its size bstart la (sl :: slots) fs offs true 0 = some r →
    ∃ fs0 offs0 sk, dropVoids cfg al fs offs bstart = some (fs0, offs0, sk) ∧
      slotsOK cfg al its size bstart la (sl :: slots) fs0 offs0 true 0 = some r
  | .nil, offs, r, h => by
    rw [slotsOK.eq_def] at h
    cases h
  | .cons name an ty bits rest, offs, r, h => by
    by_cases hv : isVoid ty = true ∧ bits.isNone = true
    · obtain ⟨hv1, hv2⟩ := hv
      have hb : bits = none := Option.isNone_iff_eq_none.mp hv2
      subst hb
      rw [slotsOK.eq_def] at h
      simp only at h
      by_cases hn : name ≠ sl.name
      · rw [if_pos ⟨hv1, hv2, hn⟩] at h
        have key : voidOK cfg al ty (hdOff offs) bstart = true ∧
            slotsOK cfg al its size bstart la (sl :: slots) rest (offs.drop 1) true 0 = some r := by
          cases ho : hdOff offs with
          | none =>
            simp only [ho] at h
            split at h
            · rename_i hc; exact ⟨by simpa [voidOK] using hc, h⟩
            · cases h
          | some o =>
            cases hbs : bstart with
            | none => simp [ho, hbs] at h
            | some k =>
              simp only [ho, hbs] at h
              split at h
              · rename_i hc
                refine ⟨?_, by rw [← hbs]; exact hbs ▸ h⟩
                simp only [Nat.add_zero, beq_iff_eq] at hc
                simp [voidOK, hc]
              · cases h
        obtain ⟨hok, h'⟩ := key
        obtain ⟨fs0, offs0, sk, hd, hs⟩ := slotsOK_dropVoids cfg al its size bstart la sl slots rest (offs.drop 1) r h'
        refine ⟨fs0, offs0, true, ?_, hs⟩
        rw [dropVoids_void _ _ _ _ _ _ _ _ hv1, if_pos hok, hd]
      · have hn' : name = sl.name := by simpa using hn
        rw [if_neg (by simp [hn'])] at h
        rw [if_neg (by simp [hn'])] at h
        -- a slot on a void member has no decoder
        have hty : ∃ a, ty = .sc .void a := by
          cases ty with
          | sc s a => cases s <;> simp [isVoid] at hv1; exact ⟨a, rfl⟩
          | _ => simp [isVoid] at hv1
        obtain ⟨a, rfl⟩ := hty
        simp [slotRange, readType, expectDec] at h
    · exact ⟨_, _, false, dropVoids_nonvoid _ _ _ _ _ _ _ _ _ hv, h⟩

end Cstruct.Compiler
