/-
  Helper lemmas for `Proofs/CoreDyn.lean`, part 8 (aligned mode WITH bit-fields, static or dynamic placement): unfolding
  lemmas for the aligned layout and the aligned writer of a bit-field, general in whether the layout still has offsets.
-/
import Proofs.Lemmas.CoreDynAlW
namespace Cstruct.Core.Lemmas
open Cstruct Cstruct.Core Cstruct.C06 Cstruct.C06.Lemmas
open Cstruct.C05.Lemmas (encBytes encBytes_length)
set_option linter.unusedSimpArgs false

/-- the re-aligned offset of the next member in aligned mode -/
def alOff (cfg : Cfg) (ty : Ty) (st : LState) : Option Nat :=
  st.offset.map (fun o => o + padNat o (ty.alignment cfg))

/-- layout state after a bit-field that opens a new unit, aligned mode -/
def stNewT (cfg : Cfg) (ty : Ty) (ft : Scalar) (fsz w : Nat) (st : LState) : LState :=
  { offset := (alOff cfg ty st).map (· + fsz), alignment := max st.alignment (ty.alignment cfg), bitsType := some ft,
    bitsFieldOffset := alOff cfg ty st, bitsRemaining := ((fsz * 8 : Nat) : Int) - ((w : Nat) : Int) }

theorem layout_bit_new_true (cfg : Cfg) (n an ty b rest st ft fsz) (hbase : ty.bitBase = some ft) (hsz : ft.size = some fsz)
    (hnew : st.bitsRemaining = 0 ∨ some ft ≠ st.bitsType) :
    Fields.layout cfg true (.cons n an ty (some (b + 1)) rest) st =
      if ((fsz * 8 : Nat) : Int) - ((b + 1 : Nat) : Int) < 0 then .error .value else
      (Fields.layout cfg true rest (stNewT cfg ty ft fsz (b + 1) st)).bind fun (sz, sa, offs) =>
        .ok (sz, sa, alOff cfg ty st :: offs) := by
  rw [Fields.layout]
  obtain ⟨off, sal, bt, bfo, br⟩ := st
  simp only at hnew
  cases off <;>
  · simp only [hbase, hsz, hnew, if_true, stNewT, alOff, Option.map]
    split
    · rfl
    · generalize Fields.layout _ _ _ _ = r
      cases r <;> rfl

theorem layout_bit_cont_true (cfg : Cfg) (n an ty b rest st ft fsz) (hbase : ty.bitBase = some ft) (hsz : ft.size = some fsz)
    (hrem : st.bitsRemaining ≠ 0) (hty : st.bitsType = some ft) (hoff : st.offset = st.bitsFieldOffset.map (· + fsz))
    (hal : ∀ o, st.offset = some o → padNat o (ty.alignment cfg) = 0) :
    Fields.layout cfg true (.cons n an ty (some (b + 1)) rest) st =
      if st.bitsRemaining - ((b + 1 : Nat) : Int) < 0 then .error .value else
      (Fields.layout cfg true rest (stCont cfg ty (b + 1) st)).bind fun (sz, sa, offs) =>
        .ok (sz, sa, none :: offs) := by
  rw [Fields.layout]
  obtain ⟨off, sal, bt, bfo, br⟩ := st
  simp only at hrem hty hoff hal
  subst hty
  have hc : ¬ (br = 0 ∨ some ft ≠ some ft) := by simp [hrem]
  cases bfo with
  | none =>
    simp only [Option.map] at hoff
    subst hoff
    simp only [hbase, hsz, hc, if_false, if_true, Bool.false_eq_true, stCont]
    split
    · rfl
    · generalize Fields.layout _ _ _ _ = r
      cases r <;> rfl
  | some o =>
    simp only [Option.map] at hoff
    subst hoff
    have h0 := hal _ rfl
    have : ¬ (o + fsz > o + fsz) := by omega
    simp only [hbase, hsz, hc, if_false, if_true, Bool.false_eq_true, stCont, h0, Nat.add_zero, this, decide_false]
    split
    · rfl
    · generalize Fields.layout _ _ _ _ = r
      cases r <;> rfl

theorem writeFields_bit_idle_true (cfg : Cfg) (name an ty b rest foff offs v vs start pos ft fsz i)
    (hbase : ty.bitBase = some ft) (hsz : ft.size = some fsz) (hv : v = .int i ∨ v = .enum i) :
    writeFields cfg true (.cons name an ty (some (b + 1)) rest) (foff :: offs) (.cons v vs) start BitBuf.empty pos =
      putStepA cfg true rest offs vs start fsz i (b + 1) { ty := some ft, buffer := 0, remaining := fsz * 8 } pos
        (padW cfg ty foff start pos) := by
  cases foff with
  | some fo => exact writeFields_bit_idle_al cfg true name an ty b rest fo offs v vs start pos ft fsz i hbase hsz hv
  | none =>
    rw [writeFields.eq_def]
    rcases hv with rfl | rfl <;>
    · simp only [hbase, hsz, BitBuf.empty, Option.isSome_none, Bool.and_false, Bool.false_and, Bool.or_self,
        Bool.false_eq_true, if_false, List.length_nil, Nat.add_zero, List.nil_append, false_and, and_false, true_or, if_true,
        Option.isNone_none, Option.isNone_some, and_self, and_true, true_and, zeros, List.replicate_zero, List.append_nil,
        List.drop_one, List.tail_cons, padW]
      simp only [putStepA, BitBuf.empty, zeros, List.replicate_zero, List.nil_append]
      cases BitBuf.put cfg.endian _ fsz i (b + 1) with
      | none => rfl
      | some bb3 =>
        simp only []
        cases (if bb3.remaining = 0 then flushBits cfg bb3 else Except.ok []) with
        | error e => rfl
        | ok fl3 =>
          simp only [Except.bind]
          generalize writeFields cfg true rest _ vs start _ _ = r
          rcases r with e | ⟨o, bbf⟩ <;> rfl

end Cstruct.Core.Lemmas
