/-
  Helper lemmas for `Proofs/C07.lean` (array length semantics).
-/
import Proofs.Spec.C07
import Proofs.Core
namespace Cstruct.C07.Lemmas
open Cstruct Cstruct.C07 Cstruct.Core.Lemmas

/-! ### Lengths -/

theorem splitEvery_length (k : Nat) : ∀ (n : Nat) (bs : Bytes), (splitEvery k n bs).length = n := by
  intro n
  induction n with
  | zero => intro bs; rfl
  | succ n ih => intro bs; simp only [splitEvery, List.length_cons, ih]

theorem ofList_length : ∀ l : List Val, (Vals.ofList l).length = l.length := by
  intro l
  induction l with
  | nil => rfl
  | cons a r ih => simp only [Vals.ofList, Vals.length, List.length_cons, ih]

theorem ofList_toList : ∀ l : List Val, (Vals.ofList l).toList = l := by
  intro l
  induction l with
  | nil => rfl
  | cons a r ih => simp only [Vals.ofList, Vals.toList, ih]

theorem mapEnum_length : ∀ vs : Vals, vs.mapEnum.length = vs.length := by
  intro vs
  induction vs using Vals.rec (motive_1 := fun _ => True) with
  | nil => rfl
  | cons v r _ ih =>
    cases v <;> simp only [Vals.mapEnum, Vals.length, ih]
  | _ => trivial

theorem unitsOf_length (e : Endian) : ∀ (n : Nat) (bs : Bytes), bs.length = 2 * n → (unitsOf e bs).length = n := by
  intro n
  induction n with
  | zero =>
    intro bs h
    have : bs = [] := List.eq_nil_of_length_eq_zero (by omega)
    subst this; rfl
  | succ n ih =>
    intro bs h
    match bs, h with
    | a :: b :: r, h =>
      simp only [unitsOf, List.length_cons]
      rw [ih r (by simp only [List.length_cons] at h; omega)]

theorem readN_length (cfg : Cfg) (t : Ty) (ctx : Ctx) (d : Bytes) :
    ∀ (n pos : Nat) (vs : Vals) (p : Nat), readN cfg t n ctx d pos = .ok (vs, p) → vs.length = n := by
  intro n
  induction n with
  | zero =>
    intro pos vs p h
    rw [readN_zero] at h
    cases h; rfl
  | succ n ih =>
    intro pos vs p h
    rw [readN_succ] at h
    obtain ⟨⟨v, p1⟩, _, h2⟩ := bind_ok h
    obtain ⟨⟨vs', p'⟩, h3, h4⟩ := bind_ok h2
    cases h4
    simp only [Vals.length, ih _ _ _ h3]

theorem readScalarArray_count (cfg : Cfg) (s : Scalar) (n : Nat) (d : Bytes) (pos : Nat) (v : Val) (p : Nat)
    (h : readScalarArray cfg s n d pos = some (.ok (v, p))) : count v = n := by
  cases s with
  | pint k sg =>
    simp only [readScalarArray, Option.some.injEq] at h
    obtain ⟨⟨bs, q⟩, _, h2⟩ := bind_ok h
    cases h2
    simp only [count, Vals.ofInts, ofList_length, List.length_map, splitEvery_length]
  | pflt k =>
    simp only [readScalarArray, Option.some.injEq] at h
    obtain ⟨⟨bs, q⟩, _, h2⟩ := bind_ok h
    cases h2
    simp only [count, ofList_length, List.length_map, splitEvery_length]
  | char =>
    simp only [readScalarArray, Option.some.injEq] at h
    split at h
    · cases h; rename_i h0; subst h0; rfl
    · obtain ⟨⟨bs, q⟩, h1, h2⟩ := bind_ok h
      cases h2
      obtain ⟨hl, hr⟩ := readExact_ok h1
      cases hr
      exact hl
  | wchar =>
    simp only [readScalarArray, Option.some.injEq] at h
    split at h
    · cases h; rename_i h0; subst h0; rfl
    · obtain ⟨⟨bs, q⟩, h1, h2⟩ := bind_ok h
      obtain ⟨w, h3, h4⟩ := bind_ok h2
      cases h4
      obtain ⟨hl, hr⟩ := readExact_ok h1
      cases hr
      unfold decodeWchar at h3
      simp only [] at h3
      split at h3
      · cases h3
      · split at h3
        · cases h3
          exact unitsOf_length _ _ _ hl
        · cases h3
  | aint k sg => simp [readScalarArray] at h
  | leb sg => simp [readScalarArray] at h
  | void => simp [readScalarArray] at h

theorem readArray_other (cfg : Cfg) (e : Ty) (n : Nat) (ctx : Ctx) (d : Bytes) (pos : Nat)
    (h1 : ∀ s a, e ≠ .sc s a) (h2 : ∀ b a f, e ≠ .enum b a f) :
    readArray cfg e n ctx d pos = (readN cfg e n ctx d pos).map fun (vs, p) => (.list vs, p) := by
  rw [readArray.eq_3 _ _ _ _ _ _ (by intro s a h; exact h1 s a h) (by intro b a f h; exact h2 b a f h)]

theorem readArray_count (cfg : Cfg) (e : Ty) (n : Nat) (ctx : Ctx) (d : Bytes) (pos : Nat) (v : Val) (p : Nat)
    (h : readArray cfg e n ctx d pos = .ok (v, p)) : count v = n := by
  have other : ((readN cfg e n ctx d pos).map fun (vs, p) => (Val.list vs, p)) = .ok (v, p) → count v = n := by
    intro h
    obtain ⟨⟨vs, q⟩, h1, h2⟩ := map_ok h
    cases h2
    exact readN_length cfg e ctx d _ _ _ _ h1
  cases e with
  | sc s a =>
    rw [readArray.eq_1] at h
    cases hx : readScalarArray cfg s n d pos with
    | some x =>
      rw [hx] at h; simp only [] at h
      subst h
      exact readScalarArray_count cfg s n d pos v p hx
    | none =>
      rw [hx] at h; simp only [] at h
      exact other h
  | enum b a f =>
    rw [readArray.eq_2] at h
    cases hx : readScalarArray cfg b n d pos with
    | some x =>
      rw [hx] at h
      cases x with
      | error e => simp only [] at h; cases h
      | ok x =>
        obtain ⟨xv, xp⟩ := x
        have hc := readScalarArray_count cfg b n d pos xv xp hx
        cases xv <;> simp only [] at h <;> try cases h
        simp only [count, mapEnum_length] at hc ⊢
        exact hc
    | none =>
      rw [hx] at h; simp only [] at h
      cases h1 : readN cfg (.sc b a) n ctx d pos with
      | error e => rw [h1] at h; cases h
      | ok x =>
        rw [h1] at h
        obtain ⟨vs, q⟩ := x
        cases h
        simp only [count, mapEnum_length]
        exact readN_length cfg _ ctx d _ _ _ _ h1
  | ptr t =>
    rw [readArray_other cfg _ n ctx d pos (by intros; intro h; cases h) (by intros; intro h; cases h)] at h
    exact other h
  | arr e' l =>
    rw [readArray_other cfg _ n ctx d pos (by intros; intro h; cases h) (by intros; intro h; cases h)] at h
    exact other h
  | struct al fs =>
    rw [readArray_other cfg _ n ctx d pos (by intros; intro h; cases h) (by intros; intro h; cases h)] at h
    exact other h
  | union al fs =>
    rw [readArray_other cfg _ n ctx d pos (by intros; intro h; cases h) (by intros; intro h; cases h)] at h
    exact other h

theorem readN_mem (cfg : Cfg) (t : Ty) (ctx : Ctx) (d : Bytes) :
    ∀ (n pos : Nat) (vs : Vals) (p : Nat), readN cfg t n ctx d pos = .ok (vs, p) →
      ∀ r ∈ vs.toList, ∃ pos' p', read cfg t ctx d pos' = .ok (r, p') := by
  intro n
  induction n with
  | zero =>
    intro pos vs p h
    rw [readN_zero] at h
    cases h
    intro r hr; simp [Vals.toList] at hr
  | succ n ih =>
    intro pos vs p h
    rw [readN_succ] at h
    obtain ⟨⟨v, p1⟩, h1, h2⟩ := bind_ok h
    obtain ⟨⟨vs', p'⟩, h3, h4⟩ := bind_ok h2
    cases h4
    intro r hr
    simp only [Vals.toList, List.mem_cons] at hr
    rcases hr with rfl | hr
    · exact ⟨_, _, h1⟩
    · exact ih _ _ _ h3 r hr

/-! ### `x[expr]` -/

theorem evalLen_ok (cfg : Cfg) (toks : List String) (ctx : Ctx) (x : Int)
    (hx : (Expr.Obj.evaluate ⟨toks⟩ { ctx := Ctx.ints ctx, consts := cfg.consts, sizeof := fun _ => .error .resolve }).2 = .ok x) :
    evalLen cfg toks ctx = .ok x.toNat := by
  unfold evalLen
  simp only [hx]

/-! ### `readExact` -/

theorem sread_length (d : Bytes) (pos n : Nat) : (sread d pos n).length = min n (d.length - pos) := by
  unfold sread
  rw [List.length_take, List.length_drop]

theorem readExact_ok_of_le {d : Bytes} {pos n : Nat} (h : n ≤ d.length - pos) :
    readExact d pos n = .ok (sread d pos n, pos + n) :=
  readExact_of_len (by rw [sread_length]; omega)

theorem readExact_err_of_lt {d : Bytes} {pos n : Nat} (h : d.length - pos < n) :
    readExact d pos n = .error .eof := by
  unfold readExact
  have : (sread d pos n).length ≠ n := by rw [sread_length]; omega
  simp [this]

theorem readExact_err {d : Bytes} {pos n : Nat} {e} (h : readExact d pos n = .error e) :
    e = .eof ∧ d.length - pos < n := by
  by_cases hl : n ≤ d.length - pos
  · rw [readExact_ok_of_le hl] at h; cases h
  · rw [readExact_err_of_lt (by omega)] at h; cases h; exact ⟨rfl, by omega⟩

theorem readExact_ok_le {d : Bytes} {pos n : Nat} {r} (h : readExact d pos n = .ok r) :
    n ≤ d.length - pos ∧ r = (sread d pos n, pos + n) := by
  obtain ⟨h1, h2⟩ := readExact_ok h
  rw [sread_length] at h1
  exact ⟨by omega, h2⟩

/-! ### the bulk reader is the element loop -/

theorem readScalar_pint (cfg : Cfg) (k : Nat) (sg : Bool) (d : Bytes) (pos : Nat) :
    readScalar cfg (.pint k sg) d pos =
      (readExact d pos k).bind fun r => .ok (.int (decodeInt cfg.endian sg r.1), r.2) := rfl

theorem readN_pint_error (cfg : Cfg) (k : Nat) (sg : Bool) (a : Nat) (ctx : Ctx) (d : Bytes) :
    ∀ (n pos : Nat) (e : Err), readN cfg (.sc (.pint k sg) a) n ctx d pos = .error e →
      e = .eof ∧ d.length - pos < k * n := by
  intro n
  induction n with
  | zero => intro pos e h; rw [readN_zero] at h; cases h
  | succ n ih =>
    intro pos e h
    rw [readN_succ, read_sc, readScalar_pint] at h
    have hk : k * (n + 1) = k * n + k := Nat.mul_succ k n
    cases h1 : readExact d pos k with
    | error e1 =>
      rw [h1] at h
      simp only [Except.bind] at h
      cases h
      obtain ⟨rfl, hlt⟩ := readExact_err h1
      exact ⟨rfl, by rw [hk]; omega⟩
    | ok r =>
      rw [h1] at h
      obtain ⟨hle, rfl⟩ := readExact_ok_le h1
      simp only [Except.bind] at h
      cases h2 : readN cfg (.sc (.pint k sg) a) n ctx d (pos + k) with
      | error e2 =>
        rw [h2] at h
        simp only [] at h
        cases h
        obtain ⟨rfl, hlt⟩ := ih _ _ h2
        exact ⟨rfl, by rw [hk]; omega⟩
      | ok r2 =>
        rw [h2] at h
        cases h

theorem readArray_pint (cfg : Cfg) (k : Nat) (sg : Bool) (a n : Nat) (ctx : Ctx) (d : Bytes) (pos : Nat) :
    readArray cfg (.sc (.pint k sg) a) n ctx d pos =
      (readN cfg (.sc (.pint k sg) a) n ctx d pos).map (fun (vs, p) => (Val.list vs, p)) := by
  rw [readArray.eq_1]
  cases h : readN cfg (.sc (.pint k sg) a) n ctx d pos with
  | ok r =>
    obtain ⟨vs, p⟩ := r
    rw [readScalarArray_of_readN cfg _ a k _ (bulk_pint cfg k sg) ctx d n pos vs p h]
    rfl
  | error e =>
    obtain ⟨rfl, hlt⟩ := readN_pint_error cfg k sg a ctx d n pos e h
    rw [(bulk_pint cfg k sg).2, readExact_err_of_lt hlt]
    rfl

/-! ### `x[EOF]` -/

theorem read_arr_eof (cfg : Cfg) (e ctx data pos) :
    read cfg (.arr e .eof) ctx data pos = readEOF cfg e ctx data pos := by
  rw [read]

theorem readEOF_pint (cfg : Cfg) (k : Nat) (sg : Bool) (a : Nat) (ctx : Ctx) (d : Bytes) (pos : Nat) (hk : 0 < k) :
    readEOF cfg (.sc (.pint k sg) a) ctx d pos =
      if (d.length - pos) % k ≠ 0 then .error .eof
      else .ok (.list (Vals.ofInts ((splitEvery k ((d.length - pos) / k) (d.drop pos)).map (decodeInt cfg.endian sg))),
        max pos d.length) := by
  rw [readEOF.eq_1]
  have : k ≠ 0 := by omega
  simp only [readScalarArrayEOF, this, if_false, List.length_drop]

/-! ### writing -/

theorem write_arr_null_chars (cfg : Cfg) (a b pos) :
    write cfg (.arr (.sc .char a) .nullTerm) (.bytes b) pos = .ok (b ++ [0]) := by
  rw [write]

theorem write_arr_null_list (cfg : Cfg) (e vs pos) :
    write cfg (.arr e .nullTerm) (.list vs) pos = writeN cfg e (vs.snoc (e.default cfg)) pos := by
  rw [write.eq_def]
  cases e with
  | sc s a => cases s <;> rfl
  | _ => rfl

theorem default_pint (cfg : Cfg) (k sg a) : (Ty.sc (.pint k sg) a).default cfg = .int 0 := by
  rw [Ty.default]; rfl

theorem ofList_snoc : ∀ (l : List Val) (v : Val), (Vals.ofList l).snoc v = Vals.ofList (l ++ [v]) := by
  intro l v
  induction l with
  | nil => rfl
  | cons a r ih => simp only [Vals.ofList, Vals.snoc, List.cons_append, ih]

theorem writeN_append (cfg : Cfg) (t : Ty) : ∀ (l : List Val) (v : Val) (pos : Nat) (bs : Bytes),
    writeN cfg t (Vals.ofList (l ++ [v])) pos = .ok bs →
      ∃ body last, bs = body ++ last ∧ writeN cfg t (Vals.ofList l) pos = .ok body ∧
        write cfg t v (pos + body.length) = .ok last := by
  intro l
  induction l with
  | nil =>
    intro v pos bs h
    simp only [List.nil_append, Vals.ofList] at h
    rw [writeN_cons] at h
    obtain ⟨x, h1, h2⟩ := bind_ok h
    obtain ⟨y, h3, h4⟩ := bind_ok h2
    rw [writeN_nil] at h3
    cases h3; cases h4
    refine ⟨[], x, by simp, ?_, ?_⟩
    · simp only [Vals.ofList]; rw [writeN_nil]
    · simpa using h1
  | cons a r ih =>
    intro v pos bs h
    simp only [List.cons_append, Vals.ofList] at h
    rw [writeN_cons] at h
    obtain ⟨x, h1, h2⟩ := bind_ok h
    obtain ⟨y, h3, h4⟩ := bind_ok h2
    cases h4
    obtain ⟨body, last, rfl, h5, h6⟩ := ih v _ _ h3
    refine ⟨x ++ body, last, by simp, ?_, ?_⟩
    · simp only [Vals.ofList]
      rw [writeN_cons, h1]
      simp only [Except.bind]
      rw [h5]
    · rw [List.length_append, ← Nat.add_assoc]; exact h6

theorem write_pint_zero (cfg : Cfg) (k sg a pos last)
    (h : write cfg (.sc (.pint k sg) a) (.int 0) pos = .ok last) : encodeInt cfg.endian k sg 0 = some last := by
  rw [write_sc] at h
  simp only [writeScalar] at h
  split at h
  · cases h; assumption
  · cases h

/-! ### `x[]` -/

theorem read0_sc (cfg : Cfg) (s a ctx data pos) :
    read0 cfg (.sc s a) ctx data pos = readScalarNullTerm cfg s data pos := by
  rw [read0.eq_1]

theorem readScalar0_pint_succ (cfg : Cfg) (k : Nat) (sg : Bool) (d : Bytes) (fuel pos : Nat) (acc : List Val) :
    readScalar0 cfg (.pint k sg) d (fuel + 1) pos acc =
      match readExact d pos k with
      | .error e => .error e
      | .ok (bs, p) =>
        if decodeInt cfg.endian sg bs = 0 then .ok (acc.reverse, p)
        else readScalar0 cfg (.pint k sg) d fuel p (.int (decodeInt cfg.endian sg bs) :: acc) := by
  simp only [readScalar0, readScalar_pint]
  cases readExact d pos k with
  | error e => rfl
  | ok r => simp [Except.bind]

theorem readScalar0_pint (cfg : Cfg) (k : Nat) (sg : Bool) (d : Bytes) :
    ∀ (fuel pos : Nat) (acc out : List Val) (p : Nat),
      readScalar0 cfg (.pint k sg) d fuel pos acc = .ok (out, p) →
      ∃ vs : List Int, out = acc.reverse ++ vs.map .int ∧ (∀ x ∈ vs, x ≠ 0) ∧ p = pos + (vs.length + 1) * k ∧
        (∀ i (hi : i < vs.length),
          readScalar cfg (.pint k sg) d (pos + i * k) = .ok (.int vs[i], pos + (i + 1) * k)) ∧
        readScalar cfg (.pint k sg) d (pos + vs.length * k) = .ok (.int 0, p) := by
  intro fuel
  induction fuel with
  | zero => intro pos acc out p h; simp only [readScalar0] at h; cases h
  | succ fuel ih =>
    intro pos acc out p h
    rw [readScalar0_pint_succ] at h
    cases h1 : readExact d pos k with
    | error e => rw [h1] at h; cases h
    | ok r =>
      rw [h1] at h
      obtain ⟨hle, rfl⟩ := readExact_ok_le h1
      simp only [] at h
      split at h
      · rename_i hz
        cases h
        refine ⟨[], by simp, by simp, by simp, by simp, ?_⟩
        simp only [List.length_nil, Nat.zero_mul, Nat.add_zero]
        rw [readScalar_pint, h1]
        simp only [Except.bind, hz]
      · rename_i hz
        obtain ⟨vs, h2, h3, h4, h5, h6⟩ := ih _ _ _ _ h
        refine ⟨decodeInt cfg.endian sg (sread d pos k) :: vs, ?_, ?_, ?_, ?_, ?_⟩
        · rw [h2]; simp
        · intro x hx
          simp only [List.mem_cons] at hx
          rcases hx with rfl | hx
          · exact hz
          · exact h3 x hx
        · rw [h4]; simp only [List.length_cons, Nat.add_mul, Nat.one_mul]; omega
        · intro i hi
          cases i with
          | zero =>
            simp only [Nat.zero_mul, Nat.add_zero, List.getElem_cons_zero, Nat.zero_add, Nat.one_mul]
            rw [readScalar_pint, h1]; rfl
          | succ j =>
            simp only [List.length_cons, Nat.add_lt_add_iff_right] at hi
            have := h5 j hi
            simp only [List.getElem_cons_succ]
            have e1 : pos + (j + 1) * k = pos + k + j * k := by rw [Nat.add_mul, Nat.one_mul]; omega
            have e2 : pos + (j + 1 + 1) * k = pos + k + (j + 1) * k := by
              rw [Nat.add_mul (j + 1) 1 k, Nat.one_mul]; omega
            rw [e1, e2]; exact this
        · have e1 : pos + (decodeInt cfg.endian sg (sread d pos k) :: vs).length * k = pos + k + vs.length * k := by
            rw [List.length_cons, Nat.add_mul, Nat.one_mul]; omega
          rw [e1]; exact h6

theorem readScalarNullTerm_pint (cfg : Cfg) (k : Nat) (sg : Bool) (d : Bytes) (pos : Nat) (v : Val) (p : Nat)
    (h : readScalarNullTerm cfg (.pint k sg) d pos = .ok (v, p)) :
    ∃ vs : List Int, v = .list (Vals.ofList (vs.map .int)) ∧ (∀ x ∈ vs, x ≠ 0) ∧ p = pos + (vs.length + 1) * k ∧
      (∀ i (hi : i < vs.length), readScalar cfg (.pint k sg) d (pos + i * k) = .ok (.int vs[i], pos + (i + 1) * k)) ∧
      readScalar cfg (.pint k sg) d (pos + vs.length * k) = .ok (.int 0, p) := by
  unfold readScalarNullTerm at h
  cases h1 : readScalar0 cfg (.pint k sg) d (d.length - pos + 2) pos [] with
  | error e => rw [h1] at h; cases h
  | ok r =>
    obtain ⟨out, q⟩ := r
    rw [h1] at h
    simp only [] at h
    cases h
    obtain ⟨vs, h2, h3⟩ := readScalar0_pint cfg k sg d _ _ _ _ _ h1
    refine ⟨vs, ?_, h3⟩
    rw [h2]; simp

/-! ### `char x[]` -/

theorem drop_of_take_one {d : Bytes} {pos : Nat} {x : UInt8} (h : (d.drop pos).take 1 = [x]) :
    d.drop pos = x :: d.drop (pos + 1) := by
  cases hd : d.drop pos with
  | nil => rw [hd] at h; cases h
  | cons y t =>
    rw [hd] at h
    simp only [List.take_succ_cons, List.take_zero, List.cons.injEq, and_true] at h
    subst h
    have : d.drop (pos + 1) = (d.drop pos).drop 1 := by rw [List.drop_drop]
    rw [this, hd]; rfl

theorem readScalar0_char_succ (cfg : Cfg) (d : Bytes) (fuel pos : Nat) (acc : List Val) :
    readScalar0 cfg .char d (fuel + 1) pos acc =
      match readExact d pos 1 with
      | .error e => .error e
      | .ok (bs, p) => if bs = [0] then .ok (acc.reverse, p) else readScalar0 cfg .char d fuel p (.bytes bs :: acc) := by
  simp only [readScalar0]
  cases readExact d pos 1 with
  | error e => rfl
  | ok r => rfl

theorem readScalar0_char (cfg : Cfg) (d : Bytes) :
    ∀ (fuel pos : Nat) (acc out : List Val) (p : Nat),
      readScalar0 cfg .char d fuel pos acc = .ok (out, p) →
      ∃ b : Bytes, out = acc.reverse ++ b.map (fun x => Val.bytes [x]) ∧ (∀ x ∈ b, x ≠ 0) ∧ p = pos + b.length + 1 ∧
        (d.drop pos).take (b.length + 1) = b ++ [0] := by
  intro fuel
  induction fuel with
  | zero => intro pos acc out p h; simp only [readScalar0] at h; cases h
  | succ fuel ih =>
    intro pos acc out p h
    rw [readScalar0_char_succ] at h
    cases h1 : readExact d pos 1 with
    | error e => rw [h1] at h; cases h
    | ok r =>
      rw [h1] at h
      obtain ⟨hl, rfl⟩ := readExact_ok h1
      simp only [] at h
      -- the byte read
      obtain ⟨x, hx⟩ : ∃ x, sread d pos 1 = [x] := by
        match hs : sread d pos 1, hl with
        | [x], _ => exact ⟨x, rfl⟩
      have hdrop := drop_of_take_one (d := d) (pos := pos) (x := x) (by unfold sread at hx; exact hx)
      rw [hx] at h
      split at h
      · rename_i hz
        cases h
        simp only [List.cons.injEq, and_true] at hz
        subst hz
        refine ⟨[], by simp, by simp, by simp, ?_⟩
        rw [hdrop]; simp
      · rename_i hz
        obtain ⟨b, h2, h3, h4, h5⟩ := ih _ _ _ _ h
        refine ⟨x :: b, ?_, ?_, ?_, ?_⟩
        · rw [h2]; simp
        · intro y hy
          simp only [List.mem_cons] at hy
          rcases hy with rfl | hy
          · intro h0; apply hz; rw [h0]
          · exact h3 y hy
        · rw [h4]; simp only [List.length_cons]; omega
        · rw [hdrop]
          simp only [List.length_cons, List.take_succ_cons, List.cons_append, List.cons.injEq, true_and]
          exact h5

theorem joinBytes_singletons : ∀ b : Bytes, joinBytes (b.map fun x => Val.bytes [x]) = b := by
  intro b
  induction b with
  | nil => rfl
  | cons x r ih => simp only [List.map_cons, joinBytes, ih, List.singleton_append]

theorem readScalarNullTerm_char (cfg : Cfg) (d : Bytes) (pos : Nat) (v : Val) (p : Nat)
    (h : readScalarNullTerm cfg .char d pos = .ok (v, p)) :
    ∃ b : Bytes, v = .bytes b ∧ (∀ x ∈ b, x ≠ 0) ∧ p = pos + b.length + 1 ∧
      (d.drop pos).take (b.length + 1) = b ++ [0] := by
  unfold readScalarNullTerm at h
  cases h1 : readScalar0 cfg .char d (d.length - pos + 2) pos [] with
  | error e => rw [h1] at h; cases h
  | ok r =>
    obtain ⟨out, q⟩ := r
    rw [h1] at h
    simp only [] at h
    cases h
    obtain ⟨b, h2, h3⟩ := readScalar0_char cfg d _ _ _ _ _ h1
    refine ⟨b, ?_, h3⟩
    rw [h2]; simp [joinBytes_singletons]

end Cstruct.C07.Lemmas
