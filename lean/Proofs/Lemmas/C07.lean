/-
  Helper lemmas for `Proofs/C07.lean` (array length semantics).
-/
import Proofs.Spec.C07
import Proofs.Core
namespace Cstruct.C07.Lemmas
open Cstruct Cstruct.C07 Cstruct.Core.Lemmas

/-! ### Lengths -/

theorem splitEvery_length (k : Nat) : ∀ (n : Nat) (bs : Bytes), (splitEvery k n bs).length = n := by
  intro n
  induction n with
  | zero => intro bs; rfl
  | succ n ih => intro bs; simp only [splitEvery, List.length_cons, ih]

theorem ofList_length : ∀ l : List Val, (Vals.ofList l).length = l.length := by
  intro l
  induction l with
  | nil => rfl
  | cons a r ih => simp only [Vals.ofList, Vals.length, List.length_cons, ih]

theorem ofList_toList : ∀ l : List Val, (Vals.ofList l).toList = l := by
  intro l
  induction l with
  | nil => rfl
  | cons a r ih => simp only [Vals.ofList, Vals.toList, ih]

theorem mapEnum_length : ∀ vs : Vals, vs.mapEnum.length = vs.length := by
  intro vs
  induction vs using Vals.rec (motive_1 := fun _ => True) with
  | nil => rfl
  | cons v r _ ih =>
    cases v <;> simp only [Vals.mapEnum, Vals.length, ih]
  | _ => trivial

theorem unitsOf_length (e : Endian) : ∀ (n : Nat) (bs : Bytes), bs.length = 2 * n → (unitsOf e bs).length = n := by
  intro n
  induction n with
  | zero =>
    intro bs h
    have : bs = [] := List.eq_nil_of_length_eq_zero (by omega)
    subst this; rfl
  | succ n ih =>
    intro bs h
    match bs, h with
    | a :: b :: r, h =>
      simp only [unitsOf, List.length_cons]
      rw [ih r (by simp only [List.length_cons] at h; omega)]

theorem readN_length (cfg : Cfg) (t : Ty) (ctx : Ctx) (d : Bytes) :
    ∀ (n pos : Nat) (vs : Vals) (p : Nat), readN cfg t n ctx d pos = .ok (vs, p) → vs.length = n := by
  intro n
  induction n with
  | zero =>
    intro pos vs p h
    rw [readN_zero] at h
    cases h; rfl
  | succ n ih =>
    intro pos vs p h
    rw [readN_succ] at h
    obtain ⟨⟨v, p1⟩, _, h2⟩ := bind_ok h
    obtain ⟨⟨vs', p'⟩, h3, h4⟩ := bind_ok h2
    cases h4
    simp only [Vals.length, ih _ _ _ h3]

theorem readScalarArray_count (cfg : Cfg) (s : Scalar) (n : Nat) (d : Bytes) (pos : Nat) (v : Val) (p : Nat)
    (h : readScalarArray cfg s n d pos = some (.ok (v, p))) : count v = n := by
  cases s with
  | pint k sg =>
    simp only [readScalarArray, Option.some.injEq] at h
    obtain ⟨⟨bs, q⟩, _, h2⟩ := bind_ok h
    cases h2
    simp only [count, Vals.ofInts, ofList_length, List.length_map, splitEvery_length]
  | pflt k =>
    simp only [readScalarArray, Option.some.injEq] at h
    obtain ⟨⟨bs, q⟩, _, h2⟩ := bind_ok h
    cases h2
    simp only [count, ofList_length, List.length_map, splitEvery_length]
  | char =>
    simp only [readScalarArray, Option.some.injEq] at h
    split at h
    · cases h; rename_i h0; subst h0; rfl
    · obtain ⟨⟨bs, q⟩, h1, h2⟩ := bind_ok h
      cases h2
      obtain ⟨hl, hr⟩ := readExact_ok h1
      cases hr
      exact hl
  | wchar =>
    simp only [readScalarArray, Option.some.injEq] at h
    split at h
    · cases h; rename_i h0; subst h0; rfl
    · obtain ⟨⟨bs, q⟩, h1, h2⟩ := bind_ok h
      obtain ⟨w, h3, h4⟩ := bind_ok h2
      cases h4
      obtain ⟨hl, hr⟩ := readExact_ok h1
      cases hr
      unfold decodeWchar at h3
      simp only [] at h3
      split at h3
      · cases h3
      · split at h3
        · cases h3
          exact unitsOf_length _ _ _ hl
        · cases h3
  | aint k sg => simp [readScalarArray] at h
  | leb sg => simp [readScalarArray] at h
  | void => simp [readScalarArray] at h

theorem readArray_other (cfg : Cfg) (e : Ty) (n : Nat) (ctx : Ctx) (d : Bytes) (pos : Nat)
    (h1 : ∀ s a, e ≠ .sc s a) (h2 : ∀ b a f, e ≠ .enum b a f) :
    readArray cfg e n ctx d pos = (readN cfg e n ctx d pos).map fun (vs, p) => (.list vs, p) := by
  rw [readArray.eq_3 _ _ _ _ _ _ (by intro s a h; exact h1 s a h) (by intro b a f h; exact h2 b a f h)]

theorem readArray_count (cfg : Cfg) (e : Ty) (n : Nat) (ctx : Ctx) (d : Bytes) (pos : Nat) (v : Val) (p : Nat)
    (h : readArray cfg e n ctx d pos = .ok (v, p)) : count v = n := by
  have other : ((readN cfg e n ctx d pos).map fun (vs, p) => (Val.list vs, p)) = .ok (v, p) → count v = n := by
    intro h
    obtain ⟨⟨vs, q⟩, h1, h2⟩ := map_ok h
    cases h2
    exact readN_length cfg e ctx d _ _ _ _ h1
  cases e with
  | sc s a =>
    rw [readArray.eq_1] at h
    cases hx : readScalarArray cfg s n d pos with
    | some x =>
      rw [hx] at h; simp only [] at h
      subst h
      exact readScalarArray_count cfg s n d pos v p hx
    | none =>
      rw [hx] at h; simp only [] at h
      exact other h
  | enum b a f =>
    rw [readArray.eq_2] at h
    cases hx : readScalarArray cfg b n d pos with
    | some x =>
      rw [hx] at h
      cases x with
      | error e => simp only [] at h; cases h
      | ok x =>
        obtain ⟨xv, xp⟩ := x
        have hc := readScalarArray_count cfg b n d pos xv xp hx
        cases xv <;> simp only [] at h <;> try cases h
        simp only [count, mapEnum_length] at hc ⊢
        exact hc
    | none =>
      rw [hx] at h; simp only [] at h
      cases h1 : readN cfg (.sc b a) n ctx d pos with
      | error e => rw [h1] at h; cases h
      | ok x =>
        rw [h1] at h
        obtain ⟨vs, q⟩ := x
        cases h
        simp only [count, mapEnum_length]
        exact readN_length cfg _ ctx d _ _ _ _ h1
  | ptr t =>
    rw [readArray_other cfg _ n ctx d pos (by intros; intro h; cases h) (by intros; intro h; cases h)] at h
    exact other h
  | arr e' l =>
    rw [readArray_other cfg _ n ctx d pos (by intros; intro h; cases h) (by intros; intro h; cases h)] at h
    exact other h
  | struct al fs =>
    rw [readArray_other cfg _ n ctx d pos (by intros; intro h; cases h) (by intros; intro h; cases h)] at h
    exact other h
  | union al fs =>
    rw [readArray_other cfg _ n ctx d pos (by intros; intro h; cases h) (by intros; intro h; cases h)] at h
    exact other h

end Cstruct.C07.Lemmas
