/-
  Helper lemmas for `Proofs/CoreDyn.lean`, part 3: the packed round trip for every type of fragment D (scalars, enums,
  pointers, the array forms `x[n]`, `x[expr]`, `x[]`, structures) and the mutual structural recursion `rtD_ty`.
-/
import Proofs.Lemmas.CoreDynB
namespace Cstruct.Core.Lemmas
open Cstruct Cstruct.Core Cstruct.C06 Cstruct.C06.Lemmas
open Cstruct.C05.Lemmas (encBytes encBytes_length encUnits encUnits_length encodeWchar_ok_inv)
set_option linter.unusedSimpArgs false

/-! ### Scalars, enums, pointers -/

theorem stmt_of_WR {cfg : Cfg} {ty : Ty} {v : Val} {pos : Nat} {bs : Bytes} (ctx : Ctx) (h : WR cfg ty v pos)
    (hw : write cfg ty v pos = .ok bs) :
    (∀ k, ty.size cfg = some k → bs.length = k) ∧
    ∀ (pre post : Bytes), pre.length = pos → read cfg ty ctx (pre ++ bs ++ post) pos = .ok (v, pos + bs.length) := by
  obtain ⟨bs', k, w, s, l, r⟩ := h
  rw [hw] at w
  cases w
  refine ⟨fun k' hk' => by rw [s] at hk'; cases hk'; exact l, ?_⟩
  intro pre post hp
  rw [l]; exact r pre post ctx hp

theorem stmt_of_ScRT {cfg : Cfg} {s : Scalar} {a : Nat} {v : Val} {pos : Nat} {bs : Bytes} (ctx : Ctx)
    (h : ScRT cfg s v bs) (hsz : ∀ k, s.size = some k → bs.length = k) :
    (∀ k, (Ty.sc s a).size cfg = some k → bs.length = k) ∧
    ∀ (pre post : Bytes), pre.length = pos →
      read cfg (.sc s a) ctx (pre ++ bs ++ post) pos = .ok (v, pos + bs.length) := by
  refine ⟨fun k hk => hsz k (by simpa only [Ty.size] using hk), ?_⟩
  intro pre post hp
  rw [read_sc]; exact h pre post pos hp

theorem tyD_sc (cfg : Cfg) (s a) : TyStmtD cfg (.sc s a) := by
  intro _ _ ctx v hv pos bs hw
  cases hv with
  | int h1 h2 => exact stmt_of_WR ctx (wr_sc cfg s a _ (.int h1 h2) pos) hw
  | flt h1 => exact stmt_of_WR ctx (wr_sc cfg _ a _ (.flt h1) pos) hw
  | char => exact stmt_of_WR ctx (wr_sc cfg _ a _ .char pos) hw
  | void => exact stmt_of_WR ctx (wr_sc cfg _ a _ .void pos) hw
  | leb hv =>
    rw [write_sc] at hw
    exact stmt_of_ScRT ctx (scrt_leb cfg _ _ hv bs hw).1 (fun k hk => by simp [Scalar.size] at hk)
  | wchar hu hs =>
    rw [write_sc] at hw
    obtain ⟨h1, h2⟩ := scrt_wchar cfg _ hu hs bs hw
    exact stmt_of_ScRT ctx h1 (fun k hk => by simp only [Scalar.size, Option.some.injEq] at hk; omega)

theorem tyD_enum (cfg : Cfg) (b a f) : TyStmtD cfg (.enum b a f) := by
  intro hS _ ctx v hv pos bs hw
  cases hv with
  | enum h1 => exact stmt_of_WR ctx (wr_enum cfg b a f _ (by simpa only [Ty.fragD, Ty.fragS] using hS) (.enum h1) pos) hw

theorem tyD_ptr (cfg : Cfg) (t) : TyStmtD cfg (.ptr t) := by
  intro hS _ ctx v hv pos bs hw
  cases hv with
  | ptr h1 => exact stmt_of_WR ctx (wr_ptr cfg t _ (by simpa only [Ty.fragD, Ty.fragS] using hS) (.ptr h1) pos) hw

/-! ### Arrays with a count -/

theorem hasTyND_length (cfg : Cfg) (ctx : Ctx) (e : Ty) : ∀ (n : Nat) (vs : Vals), HasTyND cfg ctx vs e n → vs.length = n := by
  intro n
  induction n with
  | zero => intro vs h; cases h; rfl
  | succ n ih => intro vs h; cases h with | cons h1 h2 => simp only [Vals.length, ih _ h2]

theorem rtD_N (cfg : Cfg) (ctx : Ctx) (e : Ty) (hE : TyStmtD cfg e) (hS : e.fragD cfg = true)
    (hU : e.uniformAlign false = true) :
    ∀ (n : Nat) (vs : Vals), HasTyND cfg ctx vs e n → ∀ pos bs, writeN cfg e vs pos = .ok bs →
      (∀ k, e.size cfg = some k → bs.length = n * k) ∧
      ∀ (pre post : Bytes), pre.length = pos →
        readN cfg e n ctx (pre ++ bs ++ post) pos = .ok (vs, pos + bs.length) := by
  intro n
  induction n with
  | zero =>
    intro vs h pos bs hw
    cases h
    rw [writeN_nil] at hw
    cases hw
    refine ⟨fun k _ => by simp, ?_⟩
    intro pre post _
    rw [readN_zero]; simp
  | succ n ih =>
    intro vs h pos bs hw
    cases h with
    | @cons _ v vs' _ _ h1 h2 =>
      rw [writeN_cons] at hw
      obtain ⟨bs1, hw1, hw'⟩ := bind_ok hw
      obtain ⟨bs2, hw2, heq⟩ := bind_ok hw'
      cases heq
      obtain ⟨s1, r1⟩ := hE hS hU ctx v h1 pos bs1 hw1
      obtain ⟨s2, r2⟩ := ih vs' h2 _ bs2 hw2
      refine ⟨?_, ?_⟩
      · intro k hk
        rw [List.length_append, s1 k hk, s2 k hk, Nat.succ_mul]; omega
      · intro pre post hp
        rw [readN_succ]
        have e1 : pre ++ (bs1 ++ bs2) ++ post = pre ++ bs1 ++ (bs2 ++ post) := by simp
        rw [e1, r1 pre (bs2 ++ post) hp]
        simp only [Except.bind]
        have e2 : pre ++ bs1 ++ (bs2 ++ post) = (pre ++ bs1) ++ bs2 ++ post := by simp
        rw [e2, r2 (pre ++ bs1) post (by rw [List.length_append, hp])]
        simp only [List.length_append, Nat.add_assoc]

theorem readArray_of_readN_D (cfg : Cfg) (e : Ty) (hS : e.fragD cfg = true) (hc : ∀ a, e ≠ .sc .char a)
    (hw : ∀ a, e ≠ .sc .wchar a) (ctx : Ctx) (data : Bytes) (n pos : Nat) (vs : Vals) (p : Nat)
    (h : readN cfg e n ctx data pos = .ok (vs, p)) : readArray cfg e n ctx data pos = .ok (.list vs, p) := by
  cases e with
  | sc s a =>
    cases s with
    | char => exact absurd rfl (hc a)
    | wchar => exact absurd rfl (hw a)
    | leb sg => rw [readArray.eq_1]; simp only [readScalarArray, h, Except.map]
    | pint k sg => exact readArray_of_readN cfg _ rfl hc ctx data n pos vs p h
    | pflt k => exact readArray_of_readN cfg _ rfl hc ctx data n pos vs p h
    | aint k sg => exact readArray_of_readN cfg _ rfl hc ctx data n pos vs p h
    | void => exact readArray_of_readN cfg _ rfl hc ctx data n pos vs p h
  | enum b a f => exact readArray_of_readN cfg _ (by simpa only [Ty.fragD, Ty.fragS] using hS) hc ctx data n pos vs p h
  | ptr t => exact readArray_of_readN cfg _ (by simpa only [Ty.fragD, Ty.fragS] using hS) hc ctx data n pos vs p h
  | arr e' l =>
    rw [readArray.eq_3 _ _ _ _ _ _ (by intros; contradiction) (by intros; contradiction), h]; rfl
  | struct al fs =>
    rw [readArray.eq_3 _ _ _ _ _ _ (by intros; contradiction) (by intros; contradiction), h]; rfl
  | union al fs => simp [Ty.fragD] at hS

/-- the reader of an array with a count, in terms of `readArray` -/
theorem read_arr_count (cfg : Cfg) (e : Ty) (len : Len) (ctx : Ctx) (n : Nat) (h : len.count cfg ctx = some n)
    (data : Bytes) (pos : Nat) : read cfg (.arr e len) ctx data pos = readArray cfg e n ctx data pos := by
  cases len with
  | fixed m => simp only [Len.count, Option.some.injEq] at h; subst h; rw [read_arr_fixed]
  | expr toks =>
    simp only [Len.count] at h
    rw [read_arr_expr]
    cases he : evalLen cfg toks ctx with
    | error _ => rw [he] at h; cases h
    | ok m => rw [he] at h; cases h; rfl
  | nullTerm => simp [Len.count] at h
  | eof => simp [Len.count] at h

theorem count_not_null {cfg : Cfg} {ctx : Ctx} {len : Len} {n : Nat} (h : len.count cfg ctx = some n) :
    len ≠ .nullTerm := by
  intro h0; subst h0; simp [Len.count] at h

/-- the size of an array type with a count -/
theorem arr_size_count (cfg : Cfg) (e : Ty) (len : Len) (k : Nat) (hk : (Ty.arr e len).size cfg = some k) :
    ∃ n k', len = .fixed n ∧ e.size cfg = some k' ∧ k = n * k' := by
  cases len with
  | fixed n =>
    simp only [Ty.size] at hk
    cases he : e.size cfg with
    | none => rw [he] at hk; cases hk
    | some k' => rw [he] at hk; cases hk; exact ⟨n, k', rfl, rfl, rfl⟩
  | expr _ => simp [Ty.size] at hk
  | nullTerm => simp [Ty.size] at hk
  | eof => simp [Ty.size] at hk

/-- the writer of a list-valued array with a count, for a value of the right length -/
theorem write_arr_count (cfg : Cfg) (e : Ty) (len : Len) (ctx : Ctx) (n : Nat) (h : len.count cfg ctx = some n)
    (vs : Vals) (hl : vs.length = n) (pos : Nat) : write cfg (.arr e len) (.list vs) pos = writeN cfg e vs pos := by
  cases len with
  | fixed m =>
    simp only [Len.count, Option.some.injEq] at h; subst h
    rw [write_arr_list, if_neg (by simp [hl])]
  | expr toks => exact write_arr_expr_list cfg e toks vs pos
  | nullTerm => simp [Len.count] at h
  | eof => simp [Len.count] at h

/-! ### Null-terminated arrays of integers / enums -/

theorem fits_zero (n : Nat) (sg : Bool) : fits n sg 0 = true := by
  have h : (0 : Int) < ((2 ^ (8 * n) : Nat) : Int) := by exact_mod_cast Nat.two_pow_pos (8 * n)
  unfold fits
  cases sg
  · simp only [Bool.false_eq_true, if_false, decide_eq_true_eq]; omega
  · simp only [if_true, decide_eq_true_eq]; omega

theorem intFits_zero (s : Scalar) (hi : Scalar.isInt s = true) : intFits s 0 = true := by
  cases s <;> simp [Scalar.isInt] at hi <;> exact fits_zero _ _

/-- the terminator an integer-like scalar writes parses back as 0 -/
theorem scrt_zero (cfg : Cfg) (s : Scalar) (hs : Scalar.intLike s = true) (z : Bytes)
    (hw : writeScalar cfg s (.int 0) = .ok z) : ScRT cfg s (.int 0) z := by
  cases s with
  | pint n sg => exact (scrt_int cfg (.pint n sg) 0 rfl (intFits_zero _ rfl) z hw).1
  | aint n sg => exact (scrt_int cfg (.aint n sg) 0 rfl (intFits_zero _ rfl) z hw).1
  | leb sg => exact (scrt_leb cfg sg 0 (fun _ => Int.le_refl 0) z hw).1
  | pflt n => simp [Scalar.intLike] at hs
  | char => simp [Scalar.intLike] at hs
  | wchar => simp [Scalar.intLike] at hs
  | void => simp [Scalar.intLike] at hs

/-- a non-zero value of an integer-like scalar type: its bytes parse back and are at least one -/
theorem elem_sc (cfg : Cfg) (s : Scalar) (a : Nat) (ctx : Ctx) (v : Val) (hv : HasTyD cfg ctx v (.sc s a))
    (hnz : v.nonzero = true) :
    ∃ i, v = .int i ∧ i ≠ 0 ∧ ∀ bs, writeScalar cfg s (.int i) = .ok bs → ScRT cfg s (.int i) bs ∧ 1 ≤ bs.length := by
  cases hv with
  | @int _ _ _ i h1 h2 =>
    have hi : i ≠ 0 := by simpa [Val.nonzero] using hnz
    refine ⟨i, rfl, hi, ?_⟩
    intro bs hw
    obtain ⟨r, hsz⟩ := scrt_int cfg s i h1 h2 bs hw
    exact ⟨r, int_size_pos s i h1 h2 hi _ hsz⟩
  | @leb _ sg _ i h1 =>
    have hi : i ≠ 0 := by simpa [Val.nonzero] using hnz
    exact ⟨i, rfl, hi, fun bs hw => scrt_leb cfg sg i h1 bs hw⟩
  | flt _ => simp [Val.nonzero] at hnz
  | char => simp [Val.nonzero] at hnz
  | void => simp [Val.nonzero] at hnz
  | wchar _ _ => simp [Val.nonzero] at hnz

theorem elem_enum (cfg : Cfg) (b : Scalar) (hb : Scalar.isInt b = true) (a : Nat) (f : Bool) (ctx : Ctx) (v : Val)
    (hv : HasTyD cfg ctx v (.enum b a f)) (hnz : v.nonzero = true) :
    ∃ i, v = .enum i ∧ i ≠ 0 ∧ ∀ bs, writeScalar cfg b (.int i) = .ok bs → ScRT cfg b (.int i) bs ∧ 1 ≤ bs.length := by
  cases hv with
  | @enum _ _ _ _ i h2 =>
    have hi : i ≠ 0 := by simpa [Val.nonzero] using hnz
    refine ⟨i, rfl, hi, ?_⟩
    intro bs hw
    obtain ⟨r, hsz⟩ := scrt_int cfg b i hb h2 bs hw
    exact ⟨r, int_size_pos b i hb h2 hi _ hsz⟩

/-- the elements of a typed null-terminated array, as integers with one chunk of the written bytes each -/
theorem chunks_of_Z (cfg : Cfg) (e : Ty) (s : Scalar) (mk : Int → Val)
    (hwr : ∀ i pos, write cfg e (mk i) pos = writeScalar cfg s (.int i))
    (hel : ∀ ctx v, HasTyD cfg ctx v e → v.nonzero = true →
      ∃ i, v = mk i ∧ i ≠ 0 ∧ ∀ bs, writeScalar cfg s (.int i) = .ok bs → ScRT cfg s (.int i) bs ∧ 1 ≤ bs.length)
    (ctx : Ctx) : ∀ (vs : Vals), HasTyZD cfg ctx vs e → ∀ pos body, writeN cfg e vs pos = .ok body →
      ∃ is, vs = Vals.ofList (is.map mk) ∧ Chunks cfg s is body
  | .nil, _, pos, body, hw => by
    rw [writeN_nil] at hw
    cases hw
    exact ⟨[], rfl, .nil⟩
  | .cons v vs', h, pos, body, hw => by
    cases h with
    | cons h1 h2 h3 =>
      rw [writeN_cons] at hw
      obtain ⟨c, hw1, hw'⟩ := bind_ok hw
      obtain ⟨body', hw2, heq⟩ := bind_ok hw'
      cases heq
      obtain ⟨i, rfl, hi, hrt⟩ := hel ctx v h1 h2
      rw [hwr] at hw1
      obtain ⟨r, l⟩ := hrt c hw1
      obtain ⟨is, rfl, hc⟩ := chunks_of_Z cfg e s mk hwr hel ctx vs' h3 _ _ hw2
      exact ⟨i :: is, rfl, .cons hi r l hc⟩

theorem arr0_rt (cfg : Cfg) (e : Ty) (hS : e.fragD cfg = true) (hN : e.nullElem = true) (hc : ∀ a, e ≠ .sc .char a)
    (hwc : ∀ a, e ≠ .sc .wchar a) (ctx : Ctx) (vs : Vals) (hvs : HasTyZD cfg ctx vs e) (pos : Nat) (bs : Bytes)
    (hw : write cfg (.arr e .nullTerm) (.list vs) pos = .ok bs) (pre post : Bytes) (hp : pre.length = pos) :
    read cfg (.arr e .nullTerm) ctx (pre ++ bs ++ post) pos = .ok (.list vs, pos + bs.length) := by
  rw [write_arr_null_list'] at hw
  obtain ⟨body, z, rfl, hwb, hwz⟩ := writeN_snoc cfg e _ vs pos bs hw
  rw [read_arr_null]
  cases e with
  | sc s a =>
    have hs : Scalar.intLike s = true := by
      cases s <;> simp [Ty.nullElem] at hN <;> first | rfl | exact absurd rfl (hc a) | exact absurd rfl (hwc a)
    have hd : (Ty.sc s a).default cfg = .int 0 := by
      rw [Ty.default]; cases s <;> simp [Scalar.intLike] at hs <;> rfl
    rw [hd, write_sc] at hwz
    obtain ⟨is, rfl, hch⟩ := chunks_of_Z cfg (.sc s a) s .int (fun i p => write_sc cfg s a _ p)
      (fun ctx v hv hnz => elem_sc cfg s a ctx v hv hnz) ctx vs hvs pos body hwb
    rw [C07.Lemmas.read0_sc, readScalarNullTerm_chunks cfg s hs z (scrt_zero cfg s hs z hwz) is body hch pre post pos hp]
  | enum b a f =>
    have hb : Scalar.isInt b = true := by simpa only [Ty.fragD] using hS
    have hs : Scalar.intLike b = true := by cases b <;> simp [Scalar.isInt] at hb <;> rfl
    have hd : (Ty.enum b a f).default cfg = .enum 0 := by rw [Ty.default]
    rw [hd, write_enum_enum] at hwz
    obtain ⟨is, rfl, hch⟩ := chunks_of_Z cfg (.enum b a f) b .enum (fun i p => write_enum_enum cfg b a f i p)
      (fun ctx v hv hnz => elem_enum cfg b hb a f ctx v hv hnz) ctx vs hvs pos body hwb
    rw [read0.eq_2, readScalarNullTerm_chunks cfg b hs z (scrt_zero cfg b hs z hwz) is body hch pre post pos hp]
    simp only [mapEnum_ofList_ints]
  | ptr t => simp [Ty.nullElem] at hN
  | arr e' l => simp [Ty.nullElem] at hN
  | struct al fs => simp [Ty.nullElem] at hN
  | union al fs => simp [Ty.nullElem] at hN

/-! ### Arrays -/

theorem tyD_arr (cfg : Cfg) (e : Ty) (len : Len) (hE : TyStmtD cfg e) : TyStmtD cfg (.arr e len) := by
  intro hS hU ctx v hv pos bs hw
  simp only [Ty.fragD, Bool.and_eq_true] at hS
  simp only [Ty.uniformAlign] at hU
  cases hv with
  | @chars _ a _ n b hcnt hl =>
    have hne := count_not_null hcnt
    rw [write_arr_bytes] at hw
    have hb : bs = b := by cases len <;> first | (cases hw; rfl) | exact absurd rfl hne
    subst hb
    refine ⟨?_, ?_⟩
    · intro k hk
      obtain ⟨n', k', rfl, h2, rfl⟩ := arr_size_count cfg _ _ k hk
      simp only [Ty.size, Scalar.size, Option.some.injEq] at h2
      simp only [Len.count, Option.some.injEq] at hcnt
      subst h2; subst hcnt
      omega
    · intro pre post hp
      rw [read_arr_count cfg _ len ctx n hcnt, readArray_char]
      split
      · rename_i h0; subst h0
        cases bs with
        | nil => simp
        | cons _ _ => simp at hl
      · rw [readExact_mid pre bs post pos n hp hl]; simp [Except.bind, hl]
  | @wchars _ a _ n us hcnt hl hu hok =>
    have hne := count_not_null hcnt
    rw [write_arr_wstr] at hw
    have hw' : encodeWchar cfg.endian us = .ok bs := by cases len <;> first | exact hw | exact absurd rfl hne
    refine ⟨?_, ?_⟩
    · intro k hk
      obtain ⟨n', k', rfl, h2, rfl⟩ := arr_size_count cfg _ _ k hk
      simp only [Ty.size, Scalar.size, Option.some.injEq] at h2
      simp only [Len.count, Option.some.injEq] at hcnt
      subst h2; subst hcnt
      exact (wchars_rt cfg a n' us hl hu hok bs hw' ctx [] [] 0 rfl).1
    · intro pre post hp
      rw [read_arr_count cfg _ len ctx n hcnt]
      exact (wchars_rt cfg a n us hl hu hok bs hw' ctx pre post pos hp).2
  | @arr _ _ _ n vs hc hwc hcnt hN =>
    rw [write_arr_count cfg e len ctx n hcnt vs (hasTyND_length cfg ctx e n vs hN)] at hw
    obtain ⟨s, r⟩ := rtD_N cfg ctx e hE hS.2 hU n vs hN pos bs hw
    refine ⟨?_, ?_⟩
    · intro k hk
      obtain ⟨n', k', rfl, h2, rfl⟩ := arr_size_count cfg _ _ k hk
      simp only [Len.count, Option.some.injEq] at hcnt
      subst hcnt
      exact s k' h2
    · intro pre post hp
      rw [read_arr_count cfg _ len ctx n hcnt]
      exact readArray_of_readN_D cfg e hS.2 hc hwc ctx _ n pos vs _ (r pre post hp)
  | @chars0 _ a b hnz =>
    rw [write_arr_bytes] at hw
    cases hw
    refine ⟨fun k hk => by simp [Ty.size] at hk, ?_⟩
    intro pre post hp
    rw [read_arr_null, C07.Lemmas.read0_sc]
    exact readScalarNullTerm_chars cfg b hnz pre post pos hp
  | @wchars0 _ a us hnz hok =>
    rw [write_arr_wstr] at hw
    have hbs := encodeWchar_ok_inv _ _ _ hw
    rw [encUnits_append, encUnits_zero] at hbs
    subst hbs
    refine ⟨fun k hk => by simp [Ty.size] at hk, ?_⟩
    intro pre post hp
    rw [read_arr_null, C07.Lemmas.read0_sc]
    exact readScalarNullTerm_wchars cfg us hnz hok pre post pos hp
  | @arr0 _ _ vs hc hwc hZ =>
    refine ⟨fun k hk => by simp [Ty.size] at hk, ?_⟩
    intro pre post hp
    exact arr0_rt cfg e hS.2 hS.1 hc hwc ctx vs hZ pos bs hw pre post hp

/-! ### Structures -/

theorem tyD_struct (cfg : Cfg) (al : Bool) (fs : Fields) (hF : IdleStmtD cfg fs) : TyStmtD cfg (.struct al fs) := by
  intro hS hU ctx v hv pos bs hw
  simp only [Ty.fragD] at hS
  simp only [Ty.uniformAlign, Bool.and_eq_true, beq_iff_eq] at hU
  obtain ⟨rfl, hU⟩ := hU
  cases hv with
  | @struct _ _ _ vs hvs =>
  rw [write_struct] at hw
  obtain ⟨⟨sz, sa, offs⟩, hlay, hw1⟩ := bind_ok hw
  obtain ⟨⟨out, bbF⟩, hwf, hw2⟩ := bind_ok hw1
  obtain ⟨fl, hfl, heq⟩ := bind_ok hw2
  simp only [Bool.false_eq_true, if_false, Except.ok.injEq] at heq
  subst heq
  obtain ⟨fl', hfl', hsize, hread⟩ := hF hS hU [] vs hvs LState.init sz sa offs hlay (lidle_of_rem _ rfl fs) pos pos out bbF hwf
    (by intro o ho; cases ho; rfl)
  rw [hfl] at hfl'
  cases hfl'
  refine ⟨?_, ?_⟩
  · intro k hk
    have hsz : (Ty.struct false fs).size cfg = sz := by
      have h := hlay
      unfold structLayout LState.init at h
      simp only [Ty.size, h]
    rw [hsz] at hk
    have := hsize k hk
    omega
  · intro pre post hp
    rw [read_struct, hlay]
    simp only [Except.bind]
    obtain ⟨szs, hr⟩ := hread pre post BitBuf.empty hp (ridle_of_rem _ rfl fs)
    rw [hr]
    simp

theorem tyD_union (cfg : Cfg) (al fs) : TyStmtD cfg (.union al fs) := by
  intro hS; simp [Ty.fragD] at hS

/-! ### Tying the knot -/

mutual
theorem rtD_ty (cfg : Cfg) : ∀ ty : Ty, TyStmtD cfg ty
  | .sc s a => tyD_sc cfg s a
  | .enum b a f => tyD_enum cfg b a f
  | .ptr t => tyD_ptr cfg t
  | .arr e len => tyD_arr cfg e len (rtD_ty cfg e)
  | .struct al fs => tyD_struct cfg al fs (rtD_idle cfg fs)
  | .union al fs => tyD_union cfg al fs
theorem rtD_idle (cfg : Cfg) : ∀ fs : Fields, IdleStmtD cfg fs
  | .nil => idle_nil_D cfg
  | .cons name an ty none rest => idle_cons_nb_D cfg name an ty rest (rtD_ty cfg ty) (rtD_idle cfg rest)
  | .cons _ _ _ (some 0) _ => fun hS => by simp [Fields.fragD] at hS
  | .cons name an ty (some (b + 1)) rest => idle_cons_bit_D cfg name an ty b rest (rtD_idle cfg rest) (rtD_pend cfg rest)
theorem rtD_pend (cfg : Cfg) : ∀ fs : Fields, PendStmtD cfg fs
  | .nil => pend_nil_D cfg
  | .cons name an ty none rest =>
    pend_cons_D cfg name an ty none rest (idle_cons_nb_D cfg name an ty rest (rtD_ty cfg ty) (rtD_idle cfg rest))
      (rtD_idle cfg rest) (rtD_pend cfg rest)
  | .cons _ _ _ (some 0) _ => fun hS => by simp [Fields.fragD] at hS
  | .cons name an ty (some (b + 1)) rest =>
    pend_cons_D cfg name an ty (some (b + 1)) rest
      (idle_cons_bit_D cfg name an ty b rest (rtD_idle cfg rest) (rtD_pend cfg rest)) (rtD_idle cfg rest) (rtD_pend cfg rest)
end

end Cstruct.Core.Lemmas
