/-
  Helper lemmas for `Proofs/CoreBits.lean`, part 8 (packed or aligned, static offsets): unfolding lemmas for
  `Fields.layout` at a known offset, the generic one-step lemma `layout_step`, and `layout_final` (reported alignment =
  maximal member alignment; aligned size is a multiple of it).
-/
import Proofs.Lemmas.CoreBitsWT
namespace Cstruct.Core.Lemmas
open Cstruct Cstruct.Core Cstruct.C06 Cstruct.C06.Lemmas
open Cstruct.C05.Lemmas (encBytes encBytes_length)
set_option linter.unusedSimpArgs false

/-! ### Unfolding the layout, packed or aligned, at a static offset -/

theorem layout_nil_al (cfg : Cfg) (al : Bool) (st : LState) (o : Nat) (ho : st.offset = some o) :
    Fields.layout cfg al .nil st = .ok (some (alignTo al o st.alignment), st.alignment, []) := by
  rw [Fields.layout]
  simp only [ho, alignTo]
  cases al <;> rfl

/-- layout state after a member that is not a bit-field -/
def stNbA (cfg : Cfg) (al : Bool) (ty : Ty) (k : Nat) (o : Nat) (st : LState) : LState :=
  { offset := some (alignTo al o (ty.alignment cfg) + k), alignment := max st.alignment (ty.alignment cfg),
    bitsType := none, bitsFieldOffset := some 0, bitsRemaining := 0 }

theorem layout_nb_al (cfg : Cfg) (al : Bool) (n an ty rest st o k) (ho : st.offset = some o) (hk : ty.size cfg = some k) :
    Fields.layout cfg al (.cons n an ty none rest) st =
      (Fields.layout cfg al rest (stNbA cfg al ty k o st)).bind fun (sz, sa, offs) =>
        .ok (sz, sa, some (alignTo al o (ty.alignment cfg)) :: offs) := by
  rw [Fields.layout]
  · simp only [ho, hk, stNbA, alignTo]
    cases al <;> simp only [if_true, if_false, Bool.false_eq_true] <;>
    · generalize Fields.layout _ _ _ _ = r
      cases r <;> rfl
  · intro b h; cases h

/-- layout state after a bit-field that opens a new unit -/
def stNewA (cfg : Cfg) (al : Bool) (ty : Ty) (ft : Scalar) (fsz w o : Nat) (st : LState) : LState :=
  { offset := some (alignTo al o (ty.alignment cfg) + fsz), alignment := max st.alignment (ty.alignment cfg),
    bitsType := some ft, bitsFieldOffset := some (alignTo al o (ty.alignment cfg)),
    bitsRemaining := ((fsz * 8 : Nat) : Int) - ((w : Nat) : Int) }

theorem layout_bit_new_al (cfg : Cfg) (al : Bool) (n an ty b rest st ft fsz o) (hbase : ty.bitBase = some ft)
    (hsz : ft.size = some fsz) (ho : st.offset = some o) (hnew : st.bitsRemaining = 0 ∨ some ft ≠ st.bitsType) :
    Fields.layout cfg al (.cons n an ty (some (b + 1)) rest) st =
      if ((fsz * 8 : Nat) : Int) - ((b + 1 : Nat) : Int) < 0 then .error .value else
      (Fields.layout cfg al rest (stNewA cfg al ty ft fsz (b + 1) o st)).bind fun (sz, sa, offs) =>
        .ok (sz, sa, some (alignTo al o (ty.alignment cfg)) :: offs) := by
  rw [Fields.layout]
  obtain ⟨off, sal, bt, bfo, br⟩ := st
  simp only at hnew ho
  subst ho
  cases al <;>
  · simp only [hbase, hsz, hnew, if_true, Bool.false_eq_true, if_false, stNewA, Option.map, alignTo]
    split
    · rfl
    · generalize Fields.layout _ _ _ _ = r
      cases r <;> rfl

theorem layout_bit_cont_al (cfg : Cfg) (al : Bool) (n an ty b rest st ft fsz uo) (hbase : ty.bitBase = some ft)
    (hsz : ft.size = some fsz) (hrem : st.bitsRemaining ≠ 0) (hty : st.bitsType = some ft)
    (hoff : st.offset = some (uo + fsz)) (hbfo : st.bitsFieldOffset = some uo)
    (hal : alignTo al (uo + fsz) (ty.alignment cfg) = uo + fsz) :
    Fields.layout cfg al (.cons n an ty (some (b + 1)) rest) st =
      if st.bitsRemaining - ((b + 1 : Nat) : Int) < 0 then .error .value else
      (Fields.layout cfg al rest (stCont cfg ty (b + 1) st)).bind fun (sz, sa, offs) =>
        .ok (sz, sa, none :: offs) := by
  rw [Fields.layout]
  obtain ⟨off, sal, bt, bfo, br⟩ := st
  simp only at hrem hty hoff hbfo
  subst hty; subst hoff; subst hbfo
  have hc : ¬ (br = 0 ∨ some ft ≠ some ft) := by simp [hrem]
  have hgt : ¬ (uo + fsz > uo + fsz) := by omega
  cases al with
  | false =>
    simp only [hbase, hsz, hc, if_false, Bool.false_eq_true, stCont, hgt, decide_false]
    split
    · rfl
    · generalize Fields.layout _ _ _ _ = r
      cases r <;> rfl
  | true =>
    simp only [alignTo, if_true] at hal
    simp only [hbase, hsz, hc, if_false, if_true, Bool.false_eq_true, stCont, hal, hgt, decide_false]
    split
    · rfl
    · generalize Fields.layout _ _ _ _ = r
      cases r <;> rfl

/-- one layout step, whatever the member: the remaining members are laid out from some state with the maximal
    alignment so far, and the result is passed through -/
theorem layout_step (cfg : Cfg) (al : Bool) (name an ty bits rest st sz sa offs)
    (h : Fields.layout cfg al (.cons name an ty bits rest) st = .ok (sz, sa, offs)) :
    ∃ st' offs', Fields.layout cfg al rest st' = .ok (sz, sa, offs') ∧
      st'.alignment = max st.alignment (ty.alignment cfg) := by
  rw [Fields.layout.eq_def] at h
  rcases bits with _ | _ | b
  · simp only at h
    split at h
    · cases h
    · rename_i sz' al' offs' hl
      simp only [Except.ok.injEq, Prod.mk.injEq] at h
      obtain ⟨rfl, rfl, rfl⟩ := h
      refine ⟨_, _, hl, ?_⟩
      split <;> (try split) <;> rfl
  · simp only at h
    split at h
    · cases h
    · rename_i sz' al' offs' hl
      simp only [Except.ok.injEq, Prod.mk.injEq] at h
      obtain ⟨rfl, rfl, rfl⟩ := h
      refine ⟨_, _, hl, ?_⟩
      split <;> (try split) <;> rfl
  · simp only at h
    split at h
    · cases h
    split at h
    · cases h
    split at h
    · cases h
    rename_i newUnit hnu
    cases newUnit <;>
    · simp only [Bool.false_eq_true, if_false, if_true] at h
      split at h
      · cases h
      · split at h
        · cases h
        · rename_i sz' al' offs' hl
          simp only [Except.ok.injEq, Prod.mk.injEq] at h
          obtain ⟨rfl, rfl, rfl⟩ := h
          exact ⟨_, _, hl, rfl⟩

/-- the alignment a successful layout reports is the maximum of the member alignments, and in aligned mode the size
    is a multiple of it -/
theorem layout_final (cfg : Cfg) (al : Bool) : ∀ (fs : Fields) (st : LState) sz sa offs,
    Fields.layout cfg al fs st = .ok (sz, sa, offs) →
    sa = Fields.maxAlign cfg fs st.alignment ∧ (al = true → IsP2 sa → ∀ s, sz = some s → sa ∣ s)
  | .nil, st, sz, sa, offs, h => by
    rw [Fields.layout] at h
    simp only [Except.ok.injEq, Prod.mk.injEq] at h
    obtain ⟨rfl, rfl, _⟩ := h
    refine ⟨rfl, ?_⟩
    intro ha hp s hs
    subst ha
    cases ho : st.offset with
    | none => rw [ho] at hs; cases hs
    | some o =>
      rw [ho] at hs
      simp only [if_true, Option.some.injEq] at hs
      subst hs
      exact padNat_p2_dvd hp o
  | .cons name an ty bits rest, st, sz, sa, offs, h => by
    obtain ⟨st', offs', hl, ha⟩ := layout_step cfg al name an ty bits rest st sz sa offs h
    obtain ⟨h1, h2⟩ := layout_final cfg al rest st' sz sa offs' hl
    exact ⟨by rw [h1, ha]; rfl, h2⟩

end Cstruct.Core.Lemmas
