/-
  C10, text level — helper lemmas, part C: what the emitted tokens mean to the evaluator (identifiers are names,
  literal tokens are numbers with their C value, the unary-minus marker is never emitted) and soundness of the
  decidable checkers.
-/
import Proofs.Lemmas.C10
import Proofs.Lemmas.C10TextB

namespace Cstruct.Expr.C10.TextLemmas
open Cstruct Cstruct.Expr Cstruct.Expr.C10

/-! ### Identifiers are names -/

def startsId (t : String) : Bool :=
  match t.toList with
  | c :: _ => isIdStart c
  | [] => false

theorem nonName_facts : ∀ x ∈ Lemmas.opNames ++ ["(", ")"] ++ Gen.unaryContextTokens, startsId x = false := by
  decide

theorem ident_isNumber {c : Char} {cs : List Char} (hc : isIdStart c = true) :
    isNumber (String.ofList (c :: cs)) = false := by
  have hd := idStart_not_digit hc
  have h0 : c ≠ '0' := by rintro rfl; cases hd
  simp only [isNumber, String.toList_ofList, isAsciiDigits, List.all_cons, hd, Bool.false_and, Bool.and_false,
    Bool.false_or]
  split
  · rename_i heq; simp only [List.cons.injEq] at heq; exact absurd heq.1 h0
  · rfl

theorem ident_isName {c : Char} {cs : List Char} (hc : isIdStart c = true) :
    IsName (String.ofList (c :: cs)) := by
  have hs : startsId (String.ofList (c :: cs)) = true := by
    simp only [startsId, String.toList_ofList]; exact hc
  have hne : ∀ x ∈ Lemmas.opNames ++ ["(", ")"] ++ Gen.unaryContextTokens, String.ofList (c :: cs) ≠ x := by
    intro x hx e
    have := nonName_facts x hx
    rw [← e, hs] at this; cases this
  refine ⟨ident_isNumber hc, ?_, ?_, ?_, ?_⟩
  · cases ho : isOperator (String.ofList (c :: cs)) with
    | false => rfl
    | true => exact absurd rfl (hne _ (by simp only [List.mem_append]; exact Or.inl (Or.inl (Lemmas.mem_opNames ho))))
  · exact hne _ (by simp)
  · exact hne _ (by simp)
  · intro hm; exact hne _ (by simp only [List.mem_append]; exact Or.inr hm) rfl

/-! ### Literal tokens are numbers with their C value -/

theorem octRewrite_head (c : Char) (ds : List Char) : ∃ r, octRewrite (c :: ds) = c :: r := by
  unfold octRewrite
  split
  · rename_i d rest heq
    simp only [List.cons.injEq] at heq
    obtain ⟨rfl, rfl⟩ := heq
    by_cases h : isHexBinSuffix d = true
    · exact ⟨_, by rw [if_pos h]⟩
    · exact ⟨_, by rw [if_neg h]⟩
  · exact ⟨ds, rfl⟩

theorem octRewrite_ne_zero {c : Char} (ds : List Char) (h : c ≠ '0') : octRewrite (c :: ds) = c :: ds := by
  unfold octRewrite
  split
  · rename_i heq; simp only [List.cons.injEq] at heq; exact absurd heq.1 h
  · rfl

theorem octRewrite_single (c : Char) : octRewrite [c] = [c] := by
  unfold octRewrite
  split
  · rename_i heq; simp at heq
  · rfl

theorem octRewrite_zero (d : Char) (rest : List Char) :
    octRewrite ('0' :: d :: rest) = if isHexBinSuffix d then '0' :: d :: rest else '0' :: 'o' :: d :: rest := by
  unfold octRewrite
  split
  · rename_i heq
    simp only [List.cons.injEq, true_and] at heq
    obtain ⟨rfl, rfl⟩ := heq
    rfl
  · rename_i hno; exact absurd rfl (hno d rest)

theorem foldl_parse_chars (base : Nat) (cs : List Char) (h : ∀ d ∈ cs, digitVal d < base) (a : Nat) :
    cs.foldl (fun acc c => match acc with
      | none => none
      | some a => if digitVal c < base then some (a * base + digitVal c) else none) (some a)
    = some ((cs.map digitVal).foldl (fun a d => a * base + d) a) := by
  induction cs generalizing a with
  | nil => rfl
  | cons d cs ih =>
    simp only [List.foldl_cons, List.map_cons, h d (by simp), if_true]
    exact ih (fun x hx => h x (by simp [hx])) _

theorem parseBase_chars (base : Nat) (cs : List Char) (hne : cs ≠ []) (h : ∀ d ∈ cs, digitVal d < base) :
    parseBase base cs = some (charsValue base cs) := by
  have : cs.isEmpty = false := by
    cases cs with
    | nil => exact absurd rfl hne
    | cons _ _ => rfl
  simp only [parseBase, this, Bool.false_eq_true, if_false, charsValue, ofDigits]
  exact foldl_parse_chars base cs h 0

theorem digitVal_digit {c : Char} (h : c.isDigit = true) : digitVal c < 10 := by
  simp only [digitVal, h, if_true]
  simp only [Char.isDigit, Bool.and_eq_true, decide_eq_true_eq, UInt32.le_iff_toNat_le, ge_iff_le] at h
  simp only [Char.reduceVal, UInt32.reduceToNat] at h
  show c.val.toNat - 48 < 10
  omega

theorem digitVal_oct {c : Char} (h : isOctDigit c = true) : digitVal c < 8 := by
  have hd := octDigit_digit h
  simp only [digitVal, hd, if_true]
  simp only [isOctDigit, Bool.and_eq_true, decide_eq_true_eq, Char.le_def, UInt32.le_iff_toNat_le] at h
  simp only [Char.reduceVal, UInt32.reduceToNat] at h
  show c.val.toNat - 48 < 8
  omega

theorem digitVal_bin {c : Char} (h : isBinDigit c = true) : digitVal c < 2 := by
  simp only [isBinDigit, Bool.or_eq_true, decide_eq_true_eq] at h
  rcases h with rfl | rfl <;> decide

theorem digitVal_hex {c : Char} (h : isHexDigit c = true) : digitVal c < 16 := by
  unfold digitVal
  by_cases hd : c.isDigit = true
  · have := digitVal_digit hd
    simp only [digitVal, hd, if_true] at this
    rw [if_pos hd]; omega
  · rw [if_neg hd]
    simp only [isHexDigit, Bool.or_eq_true, Bool.and_eq_true, decide_eq_true_eq] at h
    by_cases hl : 'a' ≤ c ∧ c ≤ 'f'
    · rw [if_pos hl]
      simp only [Char.le_def, UInt32.le_iff_toNat_le] at hl
      simp only [Char.reduceVal, UInt32.reduceToNat] at hl
      show c.val.toNat - 97 + 10 < 16
      omega
    · rw [if_neg hl]
      have hu : 'A' ≤ c ∧ c ≤ 'F' := by
        rcases h with (h | h) | h
        · exact absurd h hd
        · exact absurd h hl
        · exact h
      rw [if_pos hu]
      simp only [Char.le_def, UInt32.le_iff_toNat_le] at hu
      simp only [Char.reduceVal, UInt32.reduceToNat] at hu
      show c.val.toNat - 65 + 10 < 16
      omega

theorem isNumber_prefixed {p c : Char} {ds : List Char}
    (hp : p = 'x' ∨ p = 'X' ∨ p = 'b' ∨ p = 'B' ∨ p = 'o' ∨ p = 'O') :
    isNumber (String.ofList ('0' :: p :: c :: ds)) = true := by
  simp only [isNumber, String.toList_ofList, Bool.or_eq_true, decide_eq_true_eq]
  right
  rcases hp with rfl | rfl | rfl | rfl | rfl | rfl <;> simp

theorem isNumber_digits {c : Char} {ds : List Char} (hc : c.isDigit = true) (hds : ∀ d ∈ ds, d.isDigit = true) :
    isNumber (String.ofList (c :: ds)) = true := by
  have : isAsciiDigits (c :: ds) = true := by
    simp only [isAsciiDigits, List.isEmpty_cons, Bool.not_false, Bool.true_and, List.all_cons, hc,
      List.all_eq_true]
    exact hds
  simp only [isNumber, String.toList_ofList, this, Bool.true_or]

/-- the token emitted for a literal is a number for the evaluator, and `int(token, 0)` is its C value -/
theorem lit_value {body : List Char} (h : WFLit body) :
    isNumber (String.ofList (octRewrite body)) = true ∧
    parseInt (String.ofList (octRewrite body)) = some (Int.ofNat (litValue body)) := by
  cases h with
  | zero => exact ⟨by decide, by decide⟩
  | @dec c ds hc h0 hds =>
    rw [octRewrite_ne_zero ds h0]
    refine ⟨isNumber_digits hc hds, ?_⟩
    have hp := parseBase_chars 10 (c :: ds) (by simp) (fun d hd => by
      simp only [List.mem_cons] at hd
      rcases hd with rfl | hd
      · exact digitVal_digit hc
      · exact digitVal_digit (hds d hd))
    have hv : litValue (c :: ds) = charsValue 10 (c :: ds) := by
      unfold litValue
      split
      · rename_i c' p ds' heq
        simp only [List.cons.injEq] at heq
        obtain ⟨rfl, rfl⟩ := heq
        simp only [h0, false_and, if_false]
      · rfl
    unfold parseInt
    simp only [String.toList_ofList]
    split
    · rename_i heq; simp only [List.cons.injEq] at heq; exact absurd heq.1 h0
    · rw [hp, hv]; rfl
  | @hex p ds hp hne hds =>
    have hp' : isHexBinSuffix p = true := by rcases hp with rfl | rfl <;> rfl
    rw [octRewrite_zero, if_pos hp']
    obtain ⟨d, ds', rfl⟩ : ∃ d ds', ds = d :: ds' := by
      cases ds with
      | nil => exact absurd rfl hne
      | cons d ds' => exact ⟨d, ds', rfl⟩
    refine ⟨isNumber_prefixed (by rcases hp with rfl | rfl <;> simp), ?_⟩
    rw [Lemmas.parseInt_prefixed, if_pos hp, parseBase_chars 16 _ hne (fun d hd => digitVal_hex (hds d hd))]
    simp only [litValue, hp, and_self, if_true]; rfl
  | @bin p ds hp hne hds =>
    have hp' : isHexBinSuffix p = true := by rcases hp with rfl | rfl <;> rfl
    have hnx : ¬ (p = 'x' ∨ p = 'X') := by rcases hp with rfl | rfl <;> decide
    rw [octRewrite_zero, if_pos hp']
    obtain ⟨d, ds', rfl⟩ : ∃ d ds', ds = d :: ds' := by
      cases ds with
      | nil => exact absurd rfl hne
      | cons d ds' => exact ⟨d, ds', rfl⟩
    refine ⟨isNumber_prefixed (by rcases hp with rfl | rfl <;> simp), ?_⟩
    rw [Lemmas.parseInt_prefixed, if_neg hnx, if_pos hp,
      parseBase_chars 2 _ hne (fun d hd => digitVal_bin (hds d hd))]
    simp only [litValue, hnx, hp, and_false, and_self, if_false, if_true]; rfl
  | @oct ds hne hds =>
    obtain ⟨d, ds', rfl⟩ : ∃ d ds', ds = d :: ds' := by
      cases ds with
      | nil => exact absurd rfl hne
      | cons d ds' => exact ⟨d, ds', rfl⟩
    have hdd : d.isDigit = true := octDigit_digit (hds d (by simp))
    have hnb : isHexBinSuffix d = false := digit_not_hexbin hdd
    have hnx : ¬ (d = 'x' ∨ d = 'X') := by
      rintro (rfl | rfl) <;> cases hdd
    have hnbb : ¬ (d = 'b' ∨ d = 'B') := by
      rintro (rfl | rfl) <;> cases hdd
    rw [octRewrite_zero, hnb]
    simp only [Bool.false_eq_true, if_false]
    refine ⟨isNumber_prefixed (by simp), ?_⟩
    rw [Lemmas.parseInt_prefixed, if_neg (by decide), if_neg (by decide), if_pos (by decide),
      parseBase_chars 8 _ hne (fun d hd => digitVal_oct (hds d hd))]
    simp only [litValue, hnx, hnbb, and_false, if_false, if_true]; rfl

/-! ### The marker is never emitted -/

theorem normTok_ne_marker {t : String} (h : WFTok t) : normTok t ≠ Gen.minusMarker := by
  intro e
  have e' : (normTok t).toList = ['-', 'u'] := by rw [e]; decide
  cases h with
  | @op c hc => rw [normTok_op hc, String.toList_singleton] at e'; simp at e'
  | shl => rw [normTok_shl] at e'; revert e'; decide
  | shr => rw [normTok_shr] at e'; revert e'; decide
  | @ident c cs hc _ =>
    rw [normTok_ident hc, String.toList_ofList] at e'
    simp only [List.cons.injEq] at e'
    obtain ⟨rfl, _⟩ := e'
    cases hc
  | @lit body sfx hb hs =>
    rw [normTok_lit hb hs, String.toList_ofList] at e'
    obtain ⟨c, ds, rfl, hc, _⟩ := wflit_shape hb
    obtain ⟨r, hr⟩ := octRewrite_head c ds
    rw [hr] at e'
    simp only [List.cons.injEq] at e'
    obtain ⟨rfl, _⟩ := e'
    cases hc

/-! ### Soundness of the checkers -/

theorem isSuffixB_sound {sfx : List Char} (h : isSuffixB sfx = true) : IsSuffix sfx := by
  match sfx, h with
  | [], _ => exact .none
  | [a], h =>
    simp only [isSuffixB, isSuffixChar, Bool.or_eq_true, decide_eq_true_eq] at h
    rcases h with ((h | h) | h) | h
    · exact .u (Or.inl h)
    · exact .u (Or.inr h)
    · exact .l (Or.inl h)
    · exact .l (Or.inr h)
  | [a, b], h =>
    simp only [isSuffixB, isSuffixChar, Bool.or_eq_true, Bool.and_eq_true, decide_eq_true_eq] at h
    rcases h with ⟨ha, hb⟩ | ⟨ha, (hb | hb) | hb⟩
    · exact .ul ha hb
    · exact .lu ha hb
    · exact .ll ha (Or.inl hb)
    · exact .ll ha (Or.inr hb)
  | [a, b, c], h =>
    simp only [isSuffixB, Bool.or_eq_true, Bool.and_eq_true, decide_eq_true_eq] at h
    rcases h with ⟨⟨ha, hb⟩, hc⟩ | ⟨⟨ha, hb⟩, hc⟩
    · exact .ull ha hb hc
    · exact .llu ha hb hc
  | _ :: _ :: _ :: _ :: _, h => simp [isSuffixB] at h

theorem wfLitB_sound {body : List Char} (h : wfLitB body = true) : WFLit body := by
  cases body with
  | nil => simp [wfLitB] at h
  | cons c ds =>
    by_cases h0 : c = '0'
    · subst h0
      cases ds with
      | nil => exact .zero
      | cons p ds' =>
        simp only [wfLitB, if_true] at h
        by_cases hx : p = 'x' ∨ p = 'X'
        · rw [if_pos hx] at h
          simp only [Bool.and_eq_true, Bool.not_eq_true', List.isEmpty_eq_false_iff, List.all_eq_true] at h
          exact .hex hx h.1 h.2
        · rw [if_neg hx] at h
          by_cases hb : p = 'b' ∨ p = 'B'
          · rw [if_pos hb] at h
            simp only [Bool.and_eq_true, Bool.not_eq_true', List.isEmpty_eq_false_iff, List.all_eq_true] at h
            exact .bin hb h.1 h.2
          · rw [if_neg hb] at h
            simp only [List.all_eq_true] at h
            exact .oct (by simp) h
    · simp only [wfLitB, h0, if_false, Bool.and_eq_true, List.all_eq_true] at h
      exact .dec h.1 h0 h.2

theorem wfTokB_sound {t : String} (h : wfTokB t = true) : WFTok t := by
  unfold wfTokB at h
  cases hl : t.toList with
  | nil => rw [hl] at h; cases h
  | cons c cs =>
    rw [hl] at h
    simp only at h
    by_cases hop : isOperatorChar c = true
    · rw [if_pos hop] at h
      have hcs : cs = [] := List.isEmpty_iff.mp h
      have : t = String.singleton c := by
        apply String.toList_inj.mp; rw [hl, hcs, String.toList_singleton]
      rw [this]; exact .op hop
    · rw [if_neg hop] at h
      by_cases hd : c.isDigit = true
      · rw [if_pos hd] at h
        simp only [Bool.and_eq_true] at h
        have ht : t = String.ofList ((c :: cs.takeWhile (fun d => !isSuffixChar d)) ++
            cs.dropWhile (fun d => !isSuffixChar d)) := by
          apply String.toList_inj.mp
          rw [hl, String.toList_ofList, List.cons_append, List.takeWhile_append_dropWhile]
        rw [ht]
        exact .lit (wfLitB_sound h.1) (isSuffixB_sound h.2)
      · rw [if_neg hd] at h
        by_cases hi : isIdStart c = true
        · rw [if_pos hi] at h
          have ht : t = String.ofList (c :: cs) := by
            apply String.toList_inj.mp; rw [hl, String.toList_ofList]
          rw [ht]
          exact .ident hi (List.all_eq_true.mp h)
        · rw [if_neg hi] at h
          simp only [Bool.or_eq_true, decide_eq_true_eq] at h
          rcases h with rfl | rfl
          · exact .shl
          · exact .shr

theorem isBlankB_sound {s : String} (h : isBlankB s = true) : IsBlank s := by
  intro c hc
  have := List.all_eq_true.mp h c hc
  simpa only [Bool.or_eq_true, decide_eq_true_eq] using this

theorem sepOkB_sound (ts : List String) : ∀ seps, sepOkB seps ts = true → SepOk seps ts := by
  induction ts with
  | nil => intro seps h; exact isBlankB_sound h
  | cons t ts ih =>
    intro seps h
    simp only [sepOkB, Bool.and_eq_true] at h
    obtain ⟨⟨h1, h2⟩, h3⟩ := h
    refine ⟨isBlankB_sound h1, ?_, ih _ h3⟩
    intro t' ht' hw hw'
    cases ts with
    | nil => cases ht'
    | cons t'' ts' =>
      cases ht'
      simp only [hw, hw', Bool.and_self, Bool.not_true, Bool.false_or, bne_iff_ne, ne_eq] at h2
      exact h2

end Cstruct.Expr.C10.TextLemmas
