/-
  Helper lemmas for `Proofs/C02Bits.lean`, part 3: the member loop of "parse, then dump", case by case (non-bit member,
  bit-field opening a unit, member met with a pending unit).
-/
import Proofs.Lemmas.C02BitsB
namespace Cstruct.C02B.Lemmas
open Cstruct Cstruct.Core Cstruct.Core.Lemmas Cstruct.C06 Cstruct.C06.Lemmas Cstruct.C02B
open Cstruct.C05.Lemmas (encBytes encBytes_length)
set_option linter.unusedSimpArgs false

theorem idleF_cons_nb (cfg : Cfg) (name an ty rest) (IHt : TyF cfg ty) (IHi : IdleF cfg rest) :
    IdleF cfg (.cons name an ty none rest) := by
  intro hS hU hD st total sa offs hlay _ o ho
  simp only [Fields.fragSB, Bool.and_eq_true] at hS
  simp only [Fields.uniformAlign, Bool.and_eq_true] at hU
  obtain ⟨hD1, hD2⟩ := defErr_cons hD
  rw [layout_nb] at hlay
  obtain ⟨⟨sz', sa', offs'⟩, hlay', heq⟩ := bind_ok hlay
  simp only [Except.ok.injEq, Prod.mk.injEq] at heq
  obtain ⟨rfl, rfl, rfl⟩ := heq
  obtain ⟨k, hk⟩ := size_some_ty cfg ty hS.1 hD1
  obtain ⟨hml, hty⟩ := IHt hS.1 hU.1 hD1 k hk
  have ho' : (stNb cfg ty st).offset = some (o + k) := by simp only [stNb, ho, hk]
  obtain ⟨hle, hmlen, hrest⟩ := IHi hS.2 hU.2 hD2 (stNb cfg ty st) total sa' offs' hlay' (lidle_of_rem _ rfl rest) (o + k) ho'
  have hmask : fieldsMaskB cfg (.cons name an ty none rest) (st.offset :: offs') o none =
      maskB cfg ty ++ fieldsMaskB cfg rest offs' (o + k) none := by
    rw [fieldsMaskB_nb, ho]
    simp only [Option.getD_some, Nat.sub_self, zeros_zero, flushMask_none, List.nil_append, hml]
  refine ⟨by omega, ?_, ?_⟩
  · rw [hmask, List.length_append, hml, hmlen]; omega
  intro ctx d start bbR hlen _
  obtain ⟨v, hr, hv, hw⟩ := hty ctx d (start + o) (by omega)
  obtain ⟨vs, szs, hrr, hvs, out, bbF, fl, hwr, hfl, hout⟩ := hrest (ctx.set name v) d start BitBuf.empty hlen
    (ridle_of_rem _ rfl rest)
  have hfo : ∀ fo, st.offset = some fo → start + fo = start + o := by
    intro fo h; rw [ho] at h; cases h; rfl
  have hsl : (sread d (start + o) k).length = k := sread_length_of_le d _ k (by omega)
  have hbl : (andBytes (sread d (start + o) k) (maskB cfg ty)).length = k := by
    rw [andBytes_length, hsl, hml]; omega
  refine ⟨.cons v vs, (name, start + o + k - (start + o)) :: szs, ?_, .cons hv hvs, ?_⟩
  · rw [readFields_cons_nobits _ _ _ _ _ _ _ _ _ _ _ _ _ rfl]
    simp only [List.head?, Option.join, Option.bind, id, List.drop_one, List.tail_cons]
    rw [fieldPos_packed cfg ty st.offset start (start + o) hfo, hr]
    simp only [Except.bind]
    rw [show start + o + k = start + (o + k) by omega, hrr]
  · refine ⟨andBytes (sread d (start + o) k) (maskB cfg ty) ++ out, bbF, fl, ?_, hfl, ?_⟩
    · rw [writeFields_nb_idle cfg name an ty rest st.offset offs' v vs start (start + o) hfo, hw]
      simp only [Except.bind, hbl]
      rw [show start + o + k = start + (o + k) by omega, hwr]
    · have e1 : total - o = k + (total - (o + k)) := by omega
      rw [hmask, e1, sread_add, andBytes_append _ _ _ _ (by rw [hsl, hml]), List.append_assoc, hout,
        show start + o + k = start + (o + k) by omega]

theorem idleF_cons_bit (cfg : Cfg) (name an ty b rest) (IHi : IdleF cfg rest) (IHp : PendF cfg rest) :
    IdleF cfg (.cons name an ty (some (b + 1)) rest) := by
  intro hS hU hD st total sa offs hlay hli o ho
  simp only [Fields.fragSB, Bool.and_eq_true] at hS
  simp only [Fields.uniformAlign, Bool.and_eq_true] at hU
  obtain ⟨_, hD2⟩ := defErr_cons hD
  obtain ⟨ft, fsz, hbase, hint, hsz⟩ := bitOk_base ty hS.1
  have hnew : st.bitsRemaining = 0 ∨ some ft ≠ st.bitsType := by
    rcases hli with h | h
    · exact Or.inl h
    · rw [hbase] at h; exact Or.inr h
  rw [layout_bit_new cfg name an ty b rest st ft fsz hbase hsz hnew] at hlay
  split at hlay
  · cases hlay
  rename_i hfit
  obtain ⟨⟨sz', sa', offs'⟩, hlay', heq⟩ := bind_ok hlay
  simp only [Except.ok.injEq, Prod.mk.injEq] at heq
  obtain ⟨rfl, rfl, rfl⟩ := heq
  have h8 : fsz * 8 = 8 * fsz := Nat.mul_comm _ _
  obtain ⟨hle, hmlen, hstep⟩ := bit_step cfg rest IHi IHp hS.2 hU.2 hD2 (stNew cfg ty ft fsz (b + 1) st) total sa' offs'
    hlay' ft fsz 0 (b + 1) hint hsz rfl (by simp only [stNew]; omega) (by omega) rfl o
    (by simp only [stNew, ho, Option.map]) 0 (slotMask (slotLo cfg.endian (8 * fsz) 0 (b + 1)) (b + 1))
    (by rw [Nat.zero_or])
  simp only [Nat.zero_add] at hmlen hstep
  have hmask : fieldsMaskB cfg (.cons name an ty (some (b + 1)) rest) (st.offset :: offs') o none =
      fieldsMaskB cfg rest offs' (o + fsz) (some ⟨fsz, b + 1, slotMask (slotLo cfg.endian (8 * fsz) 0 (b + 1)) (b + 1)⟩) := by
    rw [ho, fieldsMaskB_bit_new cfg name an ty b rest o offs' o none ft fsz hbase hsz]
    simp only [Nat.sub_self, zeros_zero, flushMask_none, List.nil_append, PendMask.first]
  refine ⟨by omega, by rw [hmask]; exact hmlen, ?_⟩
  intro ctx d start bbR hlen hri
  have hc : bbR.remaining = 0 ∨ bbR.ty ≠ some ft := by
    rcases hri with h | h
    · exact Or.inl h
    · rw [hbase] at h; exact Or.inr h
  obtain ⟨U, hload, hUF⟩ := loadUnit_fwd cfg ft hint fsz hsz d (start + o) (by omega) bbR hc
  obtain ⟨v, bbR2, htake, h0, h1, hrest⟩ := hstep d start { ty := some ft, buffer := U, remaining := fsz * 8 }
    { ty := some ft, buffer := 0, remaining := fsz * 8 } U hlen hUF rfl (by rw [h8]; exact readInv_init _ _ _ _)
    rfl (by simp only [h8, Nat.sub_zero]) (by simp only [Nat.and_zero, Int.natCast_zero])
  obtain ⟨vs, szs, hrr, hvs, out, bbF, fl, hwr, hfl, hout⟩ := hrest (ctx.set name (bitVal ty v))
  have hfo : ∀ fo, st.offset = some fo → start + fo = start + o := by
    intro fo h; rw [ho] at h; cases h; rfl
  refine ⟨.cons (bitVal ty v) vs, szs, ?_, hasTysB_bitVal hS.1 v h0 h1 hvs, out, bbF, fl, ?_, hfl, ?_⟩
  · rw [readFields_cons_bits]
    simp only [hbase, List.head?, Option.join, Option.bind, id, List.drop_one, List.tail_cons]
    rw [fieldPos_packed cfg ty st.offset start (start + o) hfo, hload]
    simp only [Except.bind, htake]
    rw [show start + o + fsz = start + (o + fsz) by omega, hrr]
  · rw [writeFields_bit_idle cfg name an ty b rest st.offset offs' _ vs start (start + o) ft fsz v hfo hbase hsz
      (bitVal_cases' ty v)]
    exact hwr
  · rw [hmask]; exact hout

theorem pendF_cons (cfg : Cfg) (name an ty bits rest) (Hidle : IdleF cfg (.cons name an ty bits rest))
    (IHi : IdleF cfg rest) (IHp : PendF cfg rest) : PendF cfg (.cons name an ty bits rest) := by
  intro hS hU hD st total sa offs hlay ft fsz k hP uo ho M
  by_cases hsame : isBitW bits = true ∧ ty.bitBase = some ft
  · -- a bit-field of the pending unit's storage type: the unit continues
    obtain ⟨hb, hbase⟩ := hsame
    rcases bits with _ | _ | b
    · simp [isBitW] at hb
    · simp [isBitW] at hb
    simp only [Fields.fragSB, Bool.and_eq_true] at hS
    simp only [Fields.uniformAlign, Bool.and_eq_true] at hU
    obtain ⟨_, hD2⟩ := defErr_cons hD
    have hrem : st.bitsRemaining ≠ 0 := by rw [hP.lrem]; have := hP.lt; omega
    rw [layout_bit_cont cfg name an ty b rest st ft fsz hbase hP.size hrem hP.lty hP.loff] at hlay
    split at hlay
    · cases hlay
    rename_i hfit
    obtain ⟨⟨sz', sa', offs'⟩, hlay', heq⟩ := bind_ok hlay
    simp only [Except.ok.injEq, Prod.mk.injEq] at heq
    obtain ⟨rfl, rfl, rfl⟩ := heq
    rw [hP.lrem] at hfit
    obtain ⟨hle, hmlen, hstep⟩ := bit_step cfg rest IHi IHp hS.2 hU.2 hD2 (stCont cfg ty (b + 1) st) total sa' offs'
      hlay' ft fsz k (b + 1) hP.isInt hP.size hP.lty (by simp only [stCont, hP.lrem]; omega) (by omega) hP.loff uo ho
      M _ rfl
    have hmask : fieldsMaskB cfg (.cons name an ty (some (b + 1)) rest) (none :: offs') (uo + fsz) (some ⟨fsz, k, M⟩) =
        fieldsMaskB cfg rest offs' (uo + fsz)
          (some ⟨fsz, k + (b + 1), M ||| slotMask (slotLo cfg.endian (8 * fsz) k (b + 1)) (b + 1)⟩) := by
      rw [fieldsMaskB_bit_cont cfg name an ty b rest offs' (uo + fsz) _ ft fsz hbase hP.size]
      rfl
    refine ⟨hle, by rw [hmask]; exact hmlen, ?_⟩
    intro ctx d start bbR bbW U hlen hUF hRty hR hWty hWrem hWbuf
    obtain ⟨v, bbR2, htake, h0, h1, hrest⟩ := hstep d start bbR bbW U hlen hUF hRty hR hWty hWrem hWbuf
    obtain ⟨vs, szs, hrr, hvs, out, bbF, fl, hwr, hfl, hout⟩ := hrest (ctx.set name (bitVal ty v))
    have hc : ¬ (bbR.remaining = 0 ∨ bbR.ty ≠ some ft) := by
      have := hP.lt
      rw [hR.2.1, hRty]; simp; omega
    have hwrem : bbW.remaining ≠ 0 := by rw [hWrem]; have := hP.lt; omega
    refine ⟨.cons (bitVal ty v) vs, szs, ?_, hasTysB_bitVal hS.1 v h0 h1 hvs, out, bbF, fl, ?_, hfl, ?_⟩
    · rw [readFields_cons_bits]
      simp only [hbase, List.head?, Option.join, Option.bind, id, List.drop_one, List.tail_cons, loadUnit, hc, if_false]
      rw [fieldPos_packed cfg ty none start (start + (uo + fsz)) (fun fo h => by cases h)]
      simp only [Except.bind, htake, hrr]
    · rw [writeFields_bit_cont cfg name an ty b rest none offs' _ vs start (start + uo) ft fsz v bbW
        (fun fo h => by cases h) hbase hP.size (bitVal_cases' ty v) hWty hwrem]
      exact hwr
    · rw [hmask]; exact hout
  · -- anything else: the unit is flushed first
    have hne : isBitW bits = false ∨ ty.bitBase ≠ some ft := by
      by_cases h1 : isBitW bits = true
      · exact Or.inr (fun h2 => hsame ⟨h1, h2⟩)
      · exact Or.inl (by simpa using h1)
    have hli : LIdle st (.cons name an ty bits rest) := by
      rcases bits with _ | _ | b
      · trivial
      · trivial
      · right
        rw [hP.lty]
        rcases hne with h | h
        · simp [isBitW] at h
        · exact h
    obtain ⟨hle, hmlen, hrest⟩ := Hidle hS hU hD st total sa offs hlay hli (uo + fsz) ho
    have hmf := mask_flush cfg _ hS st _ sa offs hlay hli (uo + fsz) ho (uo + fsz) ⟨fsz, k, M⟩
    refine ⟨hle, ?_, ?_⟩
    · rw [hmf, List.length_append, hmlen, flushMask_some, unitBytes_length]; simp only []; omega
    intro ctx d start bbR bbW U hlen hUF hRty hR hWty hWrem hWbuf
    have hri : RIdle bbR (.cons name an ty bits rest) := by
      rcases bits with _ | _ | b
      · trivial
      · trivial
      · right
        rw [hRty]
        rcases hne with h | h
        · simp [isBitW] at h
        · exact fun h' => h h'.symm
    obtain ⟨vs, szs, hrr, hvs, out, bbF, fl, hwr, hfl, hout⟩ := hrest ctx d start bbR hlen hri
    have hl : start + uo + fsz ≤ d.length := by omega
    have hF := unit_lt cfg.endian d (start + uo) fsz hl
    have hfl0 := flush_nat cfg ft fsz _ bbW hWty hP.size hWbuf (and_lt_of_lt _ M _ hF)
    have hl0 : (encBytes cfg.endian fsz (decodeNat cfg.endian (sread d (start + uo) fsz) &&& M)).length = fsz :=
      encBytes_length _ _ _
    obtain ⟨v, vs', rfl⟩ := hasTysB_cons_vals hvs
    refine ⟨_, szs, hrr, hvs,
      encBytes cfg.endian fsz (decodeNat cfg.endian (sread d (start + uo) fsz) &&& M) ++ out, bbF, fl, ?_, hfl, ?_⟩
    · rw [writeFields_flush cfg false name an ty bits rest offs v vs' start bbW _ ft hWty hne, hfl0]
      simp only [Except.bind, hl0]
      rw [show start + uo + fsz = start + (uo + fsz) by omega, hwr]
    · have e1 : total - uo = fsz + (total - (uo + fsz)) := by omega
      have hsl : (sread d (start + uo) fsz).length = fsz := sread_length_of_le d _ fsz hl
      rw [hmf, flushMask_some, e1, sread_add, andBytes_append _ _ _ _ (by rw [hsl, unitBytes_length]),
        List.append_assoc, hout, ← unit_and cfg.endian _ fsz M hsl,
        show start + uo + fsz = start + (uo + fsz) by omega]

end Cstruct.C02B.Lemmas
