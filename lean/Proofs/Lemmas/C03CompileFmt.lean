/-
  Helper lemmas for `Proofs/C03Compile.lean`, part 1: the struct format string.
  `_optimize_struct_fmt` (model: `optFmt` + `renderFmt`) prints a string that `parseFmt` reads back, and merging runs /
  dropping empty entries does not change what `struct.unpack` returns (`fmtItems`).
-/
import CstructModel.Compile

namespace Cstruct.Compiler
open Cstruct

/-! ### parsing what `renderFmt` prints -/

theorem parseFmtAux_digits (ds rest : List Char) (hd : ∀ c ∈ ds, c.isDigit = true) (a : Nat) :
    parseFmtAux (ds ++ rest) (some a) = parseFmtAux rest (some (Nat.ofDigitChars 10 ds a)) := by
  induction ds generalizing a with
  | nil => simp
  | cons c ds ih =>
    have hc : c.isDigit = true := hd c (by simp)
    rw [List.cons_append, parseFmtAux, if_pos hc, Nat.ofDigitChars_cons]
    rw [show (some a).getD 0 * 10 + (c.toNat - 48) = 10 * a + (c.toNat - '0'.toNat) by
      simp [Nat.mul_comm]]
    exact ih (fun c' h => hd c' (by simp [h])) _

theorem parseFmtAux_digits_none (ds rest : List Char) (hd : ∀ c ∈ ds, c.isDigit = true) (hne : ds ≠ []) :
    parseFmtAux (ds ++ rest) none = parseFmtAux rest (some (Nat.ofDigitChars 10 ds 0)) := by
  cases ds with
  | nil => exact absurd rfl hne
  | cons c ds =>
    have hc : c.isDigit = true := hd c (by simp)
    rw [List.cons_append, parseFmtAux, if_pos hc, Nat.ofDigitChars_cons]
    rw [show (none : Option Nat).getD 0 * 10 + (c.toNat - 48) = 10 * 0 + (c.toNat - '0'.toNat) by simp]
    exact parseFmtAux_digits ds rest (fun c' h => hd c' (by simp [h])) _

/-- a character that `_generate_struct_info` puts into an info entry -/
def FmtChar (c : Char) : Prop :=
  c = 'x' ∨ c = 'b' ∨ c = 'B' ∨ c = 'h' ∨ c = 'H' ∨ c = 'i' ∨ c = 'I' ∨ c = 'q' ∨ c = 'Q' ∨ c = 'e' ∨ c = 'f' ∨ c = 'd'

theorem FmtChar.alpha {c : Char} (h : FmtChar c) : c.isDigit = false ∧ c.isAlpha = true := by
  rcases h with h | h | h | h | h | h | h | h | h | h | h | h <;> subst h <;> decide

theorem parseFmtAux_letter (c : Char) (hc : FmtChar c) (rest : List Char) (acc : Option Nat) :
    parseFmtAux (c :: rest) acc = (parseFmtAux rest none).map ((acc.getD 1, c) :: ·) := by
  obtain ⟨h1, h2⟩ := hc.alpha
  rw [parseFmtAux, if_neg (by simp [h1]), if_pos h2]

theorem parseFmt_render (chars : List (Nat × Char)) (h : ∀ p ∈ chars, 1 ≤ p.1 ∧ FmtChar p.2) :
    parseFmt (renderFmt chars) = some chars := by
  unfold parseFmt
  induction chars with
  | nil => simp [renderFmt, parseFmtAux]
  | cons p chars ih =>
    obtain ⟨n, c⟩ := p
    obtain ⟨hn, hc⟩ := h (n, c) (by simp)
    have ih' := ih (fun p hp => h p (by simp [hp]))
    simp only [renderFmt]
    by_cases h1 : n > 1
    · rw [if_pos h1, parseFmtAux_digits_none _ _ (fun c hc => Nat.isDigit_of_mem_toDigits (by decide) (by decide) hc)
        Nat.toDigits_ne_nil, Nat.ofDigitChars_ten_toDigits, parseFmtAux_letter c hc, ih']
      rfl
    · have : n = 1 := by omega
      subst this
      rw [if_neg h1, List.nil_append, parseFmtAux_letter c hc, ih']
      rfl

/-! ### what the format unpacks: merging runs and dropping empty entries -/

theorem FmtChar.cases {c : Char} (h : FmtChar c) :
    c = 'x' ∨ (c ≠ 'x' ∧ ∃ s sz, charScalar c = some s ∧ charSize c = some sz) := by
  rcases h with h | h | h | h | h | h | h | h | h | h | h | h <;> subst h
  · exact Or.inl rfl
  all_goals exact Or.inr ⟨by decide, _, _, rfl, rfl⟩

theorem replicateItems_add (s : Scalar) (sz n1 n2 off : Nat) :
    replicateItems s sz (n1 + n2) off = replicateItems s sz n1 off ++ replicateItems s sz n2 (off + n1 * sz) := by
  induction n1 generalizing off with
  | zero => simp [replicateItems]
  | succ n ih =>
    rw [show n + 1 + n2 = (n + n2) + 1 by omega, replicateItems, replicateItems, ih, List.cons_append]
    congr 3
    rw [Nat.add_mul]; omega

theorem fmtItems_merge (c : Char) (hc : FmtChar c) (n1 n2 : Nat) (r : List (Nat × Char)) (off : Nat) :
    fmtItems ((n1 + n2, c) :: r) off = fmtItems ((n1, c) :: (n2, c) :: r) off := by
  rcases hc.cases with rfl | ⟨hx, s, sz, h1, h2⟩
  · simp only [fmtItems, if_true, Nat.add_assoc]
  · simp only [fmtItems, if_neg hx, h1, h2]
    rw [show off + (n1 + n2) * sz = off + n1 * sz + n2 * sz by rw [Nat.add_mul]; omega]
    cases fmtItems r (off + n1 * sz + n2 * sz) with
    | none => rfl
    | some p => obtain ⟨its, tot⟩ := p; simp only [replicateItems_add, List.append_assoc]

theorem fmtItems_zero (c : Char) (hc : FmtChar c) (r : List (Nat × Char)) (off : Nat) :
    fmtItems ((0, c) :: r) off = fmtItems r off := by
  rcases hc.cases with rfl | ⟨hx, s, sz, h1, h2⟩
  · simp only [fmtItems, if_true, Nat.add_zero]
  · simp only [fmtItems, if_neg hx, h1, h2, Nat.zero_mul, Nat.add_zero, replicateItems, List.nil_append]
    cases fmtItems r off with
    | none => rfl
    | some p => rfl

/-- the `(count, char)` pairs of the info entries, unmerged -/
def infoPairs (info : List Info) : List (Nat × Char) := info.map fun i => (i.count, i.char)

/-- the run that `_optimize_struct_fmt` is accumulating -/
def curPair (cnt : Nat) : Option Char → List (Nat × Char)
  | some c => [(cnt, c)]
  | none => []

theorem fmtItems_cons_congr (p : Nat × Char) (l1 l2 : List (Nat × Char)) (h : ∀ off, fmtItems l1 off = fmtItems l2 off)
    (off : Nat) : fmtItems (p :: l1) off = fmtItems (p :: l2) off := by
  obtain ⟨n, c⟩ := p
  simp only [fmtItems, h]

theorem fmtItems_optFmt (info : List Info) (hv : ∀ i ∈ info, FmtChar i.char) (cnt : Nat) (cur : Option Char)
    (hcur : ∀ c, cur = some c → FmtChar c) (off : Nat) :
    fmtItems (optFmt info cnt cur) off = fmtItems (curPair cnt cur ++ infoPairs info) off := by
  induction info generalizing cnt cur off with
  | nil =>
    cases cur with
    | none => simp [optFmt, infoPairs, curPair]
    | some c =>
      simp only [optFmt, infoPairs, List.map_nil, List.append_nil, curPair]
      by_cases h0 : cnt = 0
      · subst h0; rw [if_neg (by simp), fmtItems_zero c (hcur c rfl)]
      · rw [if_pos h0]
  | cons i rest ih =>
    have hi : FmtChar i.char := hv i (by simp)
    have hrest : ∀ j ∈ rest, FmtChar j.char := fun j hj => hv j (by simp [hj])
    have ih1 := fun off => ih hrest i.count (some i.char) (fun c h => by cases h; exact hi) off
    simp only [curPair, List.cons_append, List.nil_append] at ih1
    cases cur with
    | none =>
      simp only [optFmt, curPair, List.nil_append, infoPairs, List.map_cons]
      exact ih1 off
    | some c =>
      have hc := hcur c rfl
      simp only [optFmt, curPair, infoPairs, List.map_cons, List.cons_append, List.nil_append]
      by_cases hne : i.char ≠ c
      · rw [if_pos hne]
        by_cases h0 : cnt = 0
        · subst h0
          rw [if_neg (by simp), List.nil_append, fmtItems_zero c hc]
          exact ih1 off
        · rw [if_pos h0, List.cons_append, List.nil_append]
          exact fmtItems_cons_congr _ _ _ ih1 off
      · have heq : i.char = c := by simpa using hne
        rw [if_neg hne, ih hrest (cnt + i.count) (some c) hcur]
        simp only [curPair, List.cons_append, List.nil_append, heq]
        exact fmtItems_merge c hc cnt i.count _ off

/-- the entries `optFmt` keeps have a positive count and a format character -/
theorem optFmt_valid (info : List Info) (hv : ∀ i ∈ info, FmtChar i.char) (cnt : Nat) (cur : Option Char)
    (hcur : ∀ c, cur = some c → FmtChar c) : ∀ p ∈ optFmt info cnt cur, 1 ≤ p.1 ∧ FmtChar p.2 := by
  induction info generalizing cnt cur with
  | nil =>
    intro p hp
    cases cur with
    | none => simp [optFmt] at hp
    | some c =>
      simp only [optFmt] at hp
      by_cases h0 : cnt = 0
      · rw [if_neg (by simp [h0])] at hp; simp at hp
      · rw [if_pos h0] at hp
        simp only [List.mem_singleton] at hp
        subst hp
        exact ⟨by simp only; omega, hcur c rfl⟩
  | cons i rest ih =>
    have hi : FmtChar i.char := hv i (by simp)
    have hrest : ∀ j ∈ rest, FmtChar j.char := fun j hj => hv j (by simp [hj])
    intro p hp
    cases cur with
    | none =>
      simp only [optFmt] at hp
      exact ih hrest _ _ (fun c h => by cases h; exact hi) p hp
    | some c =>
      simp only [optFmt] at hp
      by_cases hne : i.char ≠ c
      · rw [if_pos hne] at hp
        rcases List.mem_append.mp hp with hp | hp
        · by_cases h0 : cnt = 0
          · rw [if_neg (by simp [h0])] at hp; simp at hp
          · rw [if_pos h0] at hp
            simp only [List.mem_singleton] at hp
            subst hp
            exact ⟨by simp only; omega, hcur c rfl⟩
        · exact ih hrest _ _ (fun c h => by cases h; exact hi) p hp
      · rw [if_neg hne] at hp
        exact ih hrest _ _ hcur p hp

/-- a format of padding only unpacks nothing -/
theorem fmtItems_allx (l : List (Nat × Char)) (h : ∀ p ∈ l, p.2 = 'x') (off : Nat) :
    ∃ tot, fmtItems l off = some ([], tot) := by
  induction l generalizing off with
  | nil => exact ⟨off, rfl⟩
  | cons p l ih =>
    obtain ⟨n, c⟩ := p
    have : c = 'x' := h (n, c) (by simp)
    subst this
    simp only [fmtItems, if_true]
    exact ih (fun p hp => h p (by simp [hp])) _

/-- the `fmt` argument of the block instruction describes exactly the items of the unmerged info list -/
theorem fmtItemsOf_block (info : List Info) (hv : ∀ i ∈ info, FmtChar i.char) (its : List Item) (tot : Nat)
    (h : fmtItems (infoPairs info) 0 = some (its, tot)) :
    fmtItemsOf (if fmtLooksPadding (renderFmt (optFmt info 0 none)) ∧ info.all (fun i => i.char == 'x') then none
      else some (String.ofList (renderFmt (optFmt info 0 none)))) tot = some its := by
  split
  · rename_i hc
    have hall : ∀ p ∈ infoPairs info, p.2 = 'x' := by
      intro p hp
      simp only [infoPairs, List.mem_map] at hp
      obtain ⟨i, hi, rfl⟩ := hp
      have := List.all_eq_true.mp hc.2 i hi
      simpa using this
    obtain ⟨t, ht⟩ := fmtItems_allx _ hall 0
    rw [ht] at h
    cases h
    rfl
  · simp only [fmtItemsOf, String.toList_ofList]
    rw [parseFmt_render _ (optFmt_valid info hv 0 none (fun c h => by cases h))]
    simp only
    rw [fmtItems_optFmt info hv 0 none (fun c h => by cases h) 0]
    simp only [curPair, List.nil_append, h, if_true]

end Cstruct.Compiler
