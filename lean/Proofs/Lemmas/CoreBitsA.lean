/-
  Helper lemmas for `Proofs/CoreBits.lean`, part 12 (packed or aligned): types, `size_sAlign_dvd_B`, and the mutual
  recursion `a_ty`.
-/
import Proofs.Lemmas.CoreBitsA1
namespace Cstruct.Core.Lemmas
open Cstruct Cstruct.Core Cstruct.C06 Cstruct.C06.Lemmas
open Cstruct.C05.Lemmas (encBytes encBytes_length)
set_option linter.unusedSimpArgs false

/-! ### Types, packed or aligned -/

theorem a_sc (cfg : Cfg) (al : Bool) (s a) : ATy cfg al (.sc s a) :=
  fun _ _ _ _ _ v hv pos _ => wr_sc cfg s a v (hasTy_of_B_sc hv) pos

theorem a_enum (cfg : Cfg) (al : Bool) (b a f) : ATy cfg al (.enum b a f) :=
  fun hS _ _ _ _ v hv pos _ => wr_enum cfg b a f v hS (hasTy_of_B_enum hv) pos

theorem a_ptr (cfg : Cfg) (al : Bool) (t) : ATy cfg al (.ptr t) :=
  fun hS _ _ _ _ v hv pos _ => wr_ptr cfg t v hS (hasTy_of_B_ptr hv) pos

theorem a_union (cfg : Cfg) (al : Bool) (a fs) : ATy cfg al (.union a fs) := by
  intro hS; simp [Ty.fragSB] at hS

/-- in aligned mode the size of a type of fragment SB is a multiple of the alignment its start needs -/
theorem size_sAlign_dvd_B (cfg : Cfg) : ∀ (ty : Ty), ty.fragSB cfg = true → ty.uniformAlign true = true →
    ty.pow2Aligned cfg → ∀ k, ty.size cfg = some k → sAlign cfg ty ∣ k
  | .sc _ _, _, _, _, _, _ => Nat.one_dvd _
  | .enum _ _ _, _, _, _, _, _ => Nat.one_dvd _
  | .ptr _, _, _, _, _, _ => Nat.one_dvd _
  | .union _ _, _, _, _, _, _ => Nat.one_dvd _
  | .arr e len, hS, hU, hP, k, hk => by
    simp only [Ty.fragSB, Bool.and_eq_true] at hS
    simp only [Ty.uniformAlign] at hU
    simp only [Ty.pow2Aligned] at hP
    cases len with
    | fixed n =>
      simp only [Ty.size] at hk
      cases he : e.size cfg with
      | none => rw [he] at hk; cases hk
      | some k' =>
        rw [he] at hk; cases hk
        simp only [sAlign]
        exact Nat.dvd_trans (size_sAlign_dvd_B cfg e hS.2 hU hP k' he) (Nat.dvd_mul_left _ _)
    | expr _ => simp at hS
    | nullTerm => simp at hS
    | eof => simp at hS
  | .struct al fs, hS, hU, hP, k, hk => by
    simp only [Ty.uniformAlign, Bool.and_eq_true, beq_iff_eq] at hU
    simp only [Ty.pow2Aligned] at hP
    obtain ⟨rfl, hU⟩ := hU
    simp only [Ty.size] at hk
    split at hk
    · rename_i sz sa offs hl
      obtain ⟨h1, h2⟩ := layout_final cfg true fs _ sz sa offs hl
      simp only at h1
      simp only [sAlign, Ty.alignment]
      split
      · exact Nat.one_dvd _
      · rename_i h0
        rcases maxAlign_p2 cfg fs hP 0 (Or.inl rfl) with h3 | h3
        · exact absurd h3 h0
        · rw [← h1] at h3 ⊢
          exact h2 rfl h3 k hk
    · cases hk

theorem wr_N_B (cfg : Cfg) (al : Bool) (e : Ty) (k : Nat) (hk : e.size cfg = some k)
    (hdvd : al = true → sAlign cfg e ∣ k)
    (hE : ∀ v, HasTyB cfg v e → ∀ pos, (al = true → sAlign cfg e ∣ pos) → WR cfg e v pos) :
    ∀ (n : Nat) (vs : Vals), HasTyNB cfg vs e n → ∀ pos, (al = true → sAlign cfg e ∣ pos) →
      ∃ bs, writeN cfg e vs pos = .ok bs ∧ bs.length = n * k ∧
        ∀ (pre post : Bytes) (ctx : Ctx), pre.length = pos →
          readN cfg e n ctx (pre ++ bs ++ post) pos = .ok (vs, pos + n * k) := by
  intro n
  induction n with
  | zero =>
    intro vs h pos _
    cases h
    refine ⟨[], writeN_nil cfg e pos, by simp, ?_⟩
    intro pre post ctx _
    rw [readN_zero]; simp
  | succ n ih =>
    intro vs h pos hpos
    cases h with
    | @cons v vs' _ _ h1 h2 =>
      obtain ⟨bs1, k1, w1, s1, l1, r1⟩ := hE v h1 pos hpos
      rw [hk] at s1; cases s1
      obtain ⟨bs2, w2, l2, r2⟩ := ih vs' h2 (pos + k) (fun ha => Nat.dvd_add (hpos ha) (hdvd ha))
      refine ⟨bs1 ++ bs2, ?_, ?_, ?_⟩
      · rw [writeN_cons, w1]; simp only [Except.bind]; rw [l1, w2]
      · rw [List.length_append, l1, l2, Nat.succ_mul]; omega
      · intro pre post ctx hp
        rw [readN_succ]
        have e1 : pre ++ (bs1 ++ bs2) ++ post = pre ++ bs1 ++ (bs2 ++ post) := by simp
        rw [e1, r1 pre (bs2 ++ post) ctx hp]
        simp only [Except.bind]
        have e2 : pre ++ bs1 ++ (bs2 ++ post) = (pre ++ bs1) ++ bs2 ++ post := by simp
        rw [e2, r2 (pre ++ bs1) post ctx (by rw [List.length_append, hp, l1])]
        have e3 : pos + (n + 1) * k = pos + k + n * k := by rw [Nat.succ_mul]; omega
        rw [e3]

theorem a_arr (cfg : Cfg) (al : Bool) (e : Ty) (len : Len) (hE : ATy cfg al e) : ATy cfg al (.arr e len) := by
  intro hS hU hP hN hD v hv pos hpos
  simp only [Ty.fragSB, Bool.and_eq_true] at hS
  simp only [Ty.uniformAlign] at hU
  simp only [Ty.pow2Aligned] at hP
  simp only [Ty.defErr] at hD
  simp only [sAlign] at hpos
  have hN' : al = true → e.bitsNatural cfg = true := by
    intro ha; have := hN ha; simpa only [Ty.bitsNatural] using this
  obtain ⟨k, hk⟩ := size_some_ty cfg e hS.2 hD
  unfold WR
  cases hv with
  | @chars a n bs hl =>
    refine ⟨bs, n * 1, write_arr_chars cfg a n bs pos, rfl, by omega, ?_⟩
    intro pre post ctx hp
    rw [read_arr_fixed, readArray_char]
    split
    · rename_i h0; subst h0
      cases bs with
      | nil => simp
      | cons _ _ => simp at hl
    · rw [readExact_mid pre bs post pos n hp hl]; simp [Except.bind]
  | @arr _ n vs hne hN2 =>
    have hdvd : al = true → sAlign cfg e ∣ k := by
      intro ha; subst ha; exact size_sAlign_dvd_B cfg e hS.2 hU hP k hk
    obtain ⟨bs, w, l, r⟩ := wr_N_B cfg al e k hk hdvd
      (fun v hv pos hp => hE hS.2 hU hP hN' hD v hv pos hp) n vs hN2 pos hpos
    refine ⟨bs, n * k, ?_, by simp only [Ty.size, hk], l, ?_⟩
    · rw [write_arr_list, if_neg (by rw [hasTyNB_length cfg e n vs hN2]; simp), w]
    · intro pre post ctx hp
      rw [read_arr_fixed]
      exact readArray_of_readN_B cfg e hS.2 hne ctx _ n pos vs _ (r pre post ctx hp)

theorem a_struct (cfg : Cfg) (al : Bool) (al' : Bool) (fs : Fields) (hF : AIdle cfg al fs) : ATy cfg al (.struct al' fs) := by
  intro hS hU hP hN hD v hv pos hpos
  simp only [Ty.fragSB] at hS
  simp only [Ty.uniformAlign, Bool.and_eq_true, beq_iff_eq] at hU
  simp only [Ty.pow2Aligned] at hP
  obtain ⟨rfl, hU⟩ := hU
  simp only [Ty.defErr] at hD
  split at hD
  · cases hD
  rename_i hfd
  split at hD
  · cases hD
  rename_i r hl
  obtain ⟨sz, sa, offs⟩ := r
  have hH : FHyps cfg al' fs := ⟨hS, hU, hP, fun ha => by have := hN ha; simpa only [Ty.bitsNatural] using this, hfd⟩
  cases hv with
  | @struct _ _ vs hvs =>
  have hdv : al' = true → allAlignDvd cfg pos fs :=
    fun ha => allAlignDvd_of_sAlign cfg al' fs hP pos (hpos ha)
  obtain ⟨out, bbF, fl, hw, hfl, hs, hread⟩ := hF hH vs hvs LState.init sz sa offs hl (lidle_of_rem _ rfl fs) 0 rfl pos hdv
  simp only [Nat.add_zero, Nat.zero_add] at hw hs hread
  have hsa : sa = Fields.maxAlign cfg fs 0 := (layout_final cfg al' fs _ sz sa offs hl).1
  have hlay : structLayout cfg al' fs = .ok (sz, sa, offs) := hl
  unfold WR
  refine ⟨if al' then (out ++ fl) ++ zeros (padNat (pos + (out ++ fl).length) sa) else out ++ fl,
    alignTo al' (out ++ fl).length sa, ?_, by simp only [Ty.size, hl, hs], ?_, ?_⟩
  · rw [write_struct, hlay]
    simp only [Except.bind, hw, hfl]
  · cases al' with
    | false => simp [alignTo]
    | true =>
      have hpad := padNat_struct cfg true fs hP pos (out ++ fl).length (hpos rfl)
      rw [← hsa] at hpad
      simp only [if_true, alignTo, List.length_append, zeros, List.length_replicate] at hpad ⊢
      rw [hpad]
  · intro pre post ctx hp
    rw [read_struct, hlay]
    simp only [Except.bind]
    cases al' with
    | false =>
      simp only [Bool.false_eq_true, if_false] at *
      obtain ⟨szs, hr⟩ := hread pre post [] BitBuf.empty hp (ridle_of_rem _ rfl fs)
      rw [hr]; simp [alignTo]
    | true =>
      have hpad := padNat_struct cfg true fs hP pos (out ++ fl).length (hpos rfl)
      rw [← hsa] at hpad
      simp only [if_true] at *
      have e1 : pre ++ (out ++ fl ++ zeros (padNat (pos + (out ++ fl).length) sa)) ++ post =
          pre ++ (out ++ fl) ++ (zeros (padNat (pos + (out ++ fl).length) sa) ++ post) := by
        simp only [List.append_assoc]
      obtain ⟨szs, hr⟩ := hread pre (zeros (padNat (pos + (out ++ fl).length) sa) ++ post) [] BitBuf.empty hp
        (ridle_of_rem _ rfl fs)
      rw [e1, hr]
      simp only [alignTo, if_true, hpad]
      congr 2; omega

mutual
theorem a_ty (cfg : Cfg) (al : Bool) : ∀ ty : Ty, ATy cfg al ty
  | .sc s a => a_sc cfg al s a
  | .enum b a f => a_enum cfg al b a f
  | .ptr t => a_ptr cfg al t
  | .arr e len => a_arr cfg al e len (a_ty cfg al e)
  | .struct al' fs => a_struct cfg al al' fs (a_idle cfg al fs)
  | .union a fs => a_union cfg al a fs
theorem a_idle (cfg : Cfg) (al : Bool) : ∀ fs : Fields, AIdle cfg al fs
  | .nil => a_idle_nil cfg al
  | .cons name an ty none rest => a_idle_cons_nb cfg al name an ty rest (a_ty cfg al ty) (a_idle cfg al rest)
  | .cons _ _ _ (some 0) _ => fun hH => by have := hH.frag; simp [Fields.fragSB] at this
  | .cons name an ty (some (b + 1)) rest =>
    a_idle_cons_bit cfg al name an ty b rest (a_idle cfg al rest) (a_pend cfg al rest)
theorem a_pend (cfg : Cfg) (al : Bool) : ∀ fs : Fields, APend cfg al fs
  | .nil => a_pend_nil cfg al
  | .cons name an ty none rest =>
    a_pend_cons cfg al name an ty none rest (a_idle_cons_nb cfg al name an ty rest (a_ty cfg al ty) (a_idle cfg al rest))
      (a_idle cfg al rest) (a_pend cfg al rest)
  | .cons _ _ _ (some 0) _ => fun hH => by have := hH.frag; simp [Fields.fragSB] at this
  | .cons name an ty (some (b + 1)) rest =>
    a_pend_cons cfg al name an ty (some (b + 1)) rest
      (a_idle_cons_bit cfg al name an ty b rest (a_idle cfg al rest) (a_pend cfg al rest)) (a_idle cfg al rest)
      (a_pend cfg al rest)
end

end Cstruct.Core.Lemmas
