/-
  Helper lemmas for `Proofs/C03Compile.lean`, part 4: the block.  What `_generate_packed` emits for the members of
  `current_block` (the info entries, the format, the slots) passes the block validator `slotsOK`.
-/
import Proofs.Lemmas.C03CompileDefs

namespace Cstruct.Compiler
open Cstruct Cstruct.Core.Lemmas

/-! ### padding entries, sizes -/

theorem packedSlots_pad (cfg : Cfg) (d : Nat) (l : List Info) (size si : Nat) :
    packedSlots cfg (padInfo d ++ l) size si = packedSlots cfg l (size + d) si := by
  unfold padInfo
  by_cases h : d > 0
  · rw [if_pos h, List.cons_append, List.nil_append, packedSlots]
  · have : d = 0 := by omega
    subst this
    rw [if_neg h, List.nil_append, Nat.add_zero]

theorem fmtItems_pad (d : Nat) (l : List Info) (off : Nat) :
    fmtItems (infoPairs (padInfo d ++ l)) off = fmtItems (infoPairs l) (off + d) := by
  unfold padInfo
  by_cases h : d > 0
  · rw [if_pos h]
    simp only [infoPairs, List.cons_append, List.nil_append, List.map_cons, fmtItems, if_true]
  · have : d = 0 := by omega
    subst this
    rw [if_neg h, List.nil_append, Nat.add_zero]

theorem packedSlots_le (cfg : Cfg) : ∀ (info : List Info) (size si : Nat) (slots : List Slot) (tot : Nat),
    packedSlots cfg info size si = .ok (slots, tot) → size ≤ tot
  | [], size, si, slots, tot, h => by
    rw [packedSlots] at h
    cases h
    exact Nat.le_refl _
  | i :: rest, size, si, slots, tot, h => by
    rw [packedSlots] at h
    split at h
    · have := packedSlots_le cfg rest _ _ _ _ h
      omega
    · split at h
      · split at h
        · cases h
        · split at h
          · cases h
          · rename_i sls t heq
            cases h
            have := packedSlots_le cfg rest _ _ _ _ heq
            omega
      · cases h

theorem replicateItems_length (s : Scalar) (sz : Nat) : ∀ (n off : Nat), (replicateItems s sz n off).length = n
  | 0, _ => rfl
  | n + 1, off => by rw [replicateItems, List.length_cons, replicateItems_length s sz n]

theorem itemsAre_replicate (s : Scalar) (sz : Nat) : ∀ (n : Nat) (pre post : List Item) (off : Nat),
    itemsAre (pre ++ replicateItems s sz n off ++ post) s sz pre.length n off = true
  | 0, _, _, _ => by rw [itemsAre]
  | n + 1, pre, post, off => by
    rw [itemsAre, replicateItems]
    have hget : (pre ++ (⟨s, off, sz⟩ :: replicateItems s sz n (off + sz)) ++ post)[pre.length]? = some ⟨s, off, sz⟩ := by
      rw [List.append_assoc, List.getElem?_append_right (Nat.le_refl _)]
      simp
    rw [hget]
    have ih := itemsAre_replicate s sz n (pre ++ [⟨s, off, sz⟩]) post (off + sz)
    rw [List.length_append, List.length_singleton] at ih
    have e : pre ++ [(⟨s, off, sz⟩ : Item)] ++ replicateItems s sz n (off + sz) ++ post =
        pre ++ (⟨s, off, sz⟩ :: replicateItems s sz n (off + sz)) ++ post := by simp
    rw [e] at ih
    have ih' : itemsAre (pre ++ (⟨s, off, sz⟩ : Item) :: (replicateItems s sz n (off + sz) ++ post)) s sz
        (pre.length + 1) n (off + sz) = true := by simpa using ih
    simp [ih']

/-! ### names -/

theorem structInfo_fields (cfg : Cfg) (al : Bool) : ∀ (B : List CField) (cur : Option Nat) (imag : Nat) (info : List Info),
    structInfo cfg al B cur imag = .ok info → ∀ i ∈ info, ∀ f, i.field = some f → f ∈ B
  | [], _, _, info, h => by
    rw [structInfo] at h
    cases h
    intro i hi
    cases hi
  | g :: rest, cur, imag, info, h => by
    have hpad : ∀ d, ∀ i ∈ padInfo d, ∀ f, i.field = some f → f ∈ g :: rest := by
      intro d i hi f hf
      unfold padInfo at hi
      split at hi
      · simp only [List.mem_singleton] at hi
        subst hi
        cases hf
      · cases hi
    rw [structInfo] at h
    split at h
    · cases h
    · simp only at h
      split at h
      · cases h
      · split at h
        · split at h
          · cases h
          · rename_i is heq
            cases h
            intro i hi f hf
            simp only [List.mem_append] at hi
            rcases hi with (hi | hi) | hi
            · exact hpad _ i hi f hf
            · exact hpad _ i hi f hf
            · exact List.mem_cons_of_mem _ (structInfo_fields cfg al rest _ _ _ heq i hi f hf)
        · split at h
          · cases h
          · split at h
            · cases h
            · rename_i entry hen
              split at h
              · cases h
              · rename_i is heq
                cases h
                intro i hi f hf
                simp only [List.mem_append] at hi
                rcases hi with ((hi | hi) | hi) | hi
                · exact hpad _ i hi f hf
                · exact hpad _ i hi f hf
                · unfold entryInfo at hen
                  split at hen
                  · split at hen
                    · cases hen
                      simp only [List.mem_singleton] at hi
                      subst hi
                      cases hf
                      exact List.mem_cons_self
                    · cases hen
                  · split at hen
                    · cases hen
                      simp only [List.mem_singleton] at hi
                      subst hi
                      cases hf
                      exact List.mem_cons_self
                    · cases hen
                      cases hi
                · exact List.mem_cons_of_mem _ (structInfo_fields cfg al rest _ _ _ heq i hi f hf)

theorem packedSlots_names (cfg : Cfg) : ∀ (info : List Info) (size si : Nat) (slots : List Slot) (tot : Nat),
    packedSlots cfg info size si = .ok (slots, tot) → ∀ sl ∈ slots, ∃ i ∈ info, ∃ f, i.field = some f ∧ f.name = sl.name
  | [], size, si, slots, tot, h => by
    rw [packedSlots] at h
    cases h
    intro sl hsl
    cases hsl
  | i :: rest, size, si, slots, tot, h => by
    rw [packedSlots] at h
    split at h
    · intro sl hsl
      obtain ⟨j, hj, f, hf⟩ := packedSlots_names cfg rest _ _ _ _ h sl hsl
      exact ⟨j, List.mem_cons_of_mem _ hj, f, hf⟩
    · rename_i f hfield
      split at h
      · split at h
        · cases h
        · split at h
          · cases h
          · rename_i sls t heq
            cases h
            intro sl hsl
            rcases List.mem_cons.mp hsl with rfl | hsl
            · exact ⟨i, List.mem_cons_self, f, hfield, rfl⟩
            · obtain ⟨j, hj, g, hg⟩ := packedSlots_names cfg rest _ _ _ _ heq sl hsl
              exact ⟨j, List.mem_cons_of_mem _ hj, g, hg⟩
      · cases h

theorem slots_names (cfg : Cfg) (al : Bool) (B : List CField) (cur : Option Nat) (imag : Nat) (info : List Info)
    (h1 : structInfo cfg al B cur imag = .ok info) (size si : Nat) (slots : List Slot) (tot : Nat)
    (h2 : packedSlots cfg info size si = .ok (slots, tot)) : ∀ sl ∈ slots, ∃ g ∈ B, g.name = sl.name := by
  intro sl hsl
  obtain ⟨i, hi, f, hf, hn⟩ := packedSlots_names cfg info size si slots tot h2 sl hsl
  exact ⟨f, structInfo_fields cfg al B cur imag info h1 i hi f hf, hn⟩

/-! ### one slot -/

theorem isPacked_not_byteBased {s : Scalar} (h : isPacked s = true) : isByteBased s = false := by
  cases s <;> simp [isPacked] at h <;> rfl

theorem slotSrc_snd (s : Scalar) (cnt : Option Nat) (esz A si : Nat) :
    (slotSrc s cnt esz A si).2 = si + (if isByteBased s = true then 0 else cnt.getD 1) := by
  unfold slotSrc
  cases cnt <;> by_cases h : isByteBased s = true <;> simp [h]

theorem slotRange_member (cfg : Cfg) (ty : Ty) (s : Scalar) (cnt : Option Nat) (esz : Nat)
    (hrt : readType cfg ty = some (s, cnt)) (hsz : s.size = some esz)
    (hdec : expectDec cfg ty = some (slotDec ty s esz))
    (hk : isPacked s = true ∨ (isPacked s = false ∧ isByteBased s = true))
    (name : String) (fsz A cur : Nat) (pre post : List Item) :
    ∃ a0 b0, slotRange cfg ty (pre ++ (if isPacked s = true then replicateItems s esz (cnt.getD 1) A else []) ++ post)
        ⟨name, (slotSrc s cnt esz A pre.length).1, slotDec ty s esz, fsz⟩ cur = some (a0, b0) ∧
      b0 - a0 = cnt.getD 1 * esz ∧ (cnt.getD 1 * esz ≠ 0 → a0 = A ∧ b0 = A + cnt.getD 1 * esz) := by
  unfold slotRange
  simp only [hrt, hdec, hsz, ne_eq, not_true_eq_false, if_false]
  rcases hk with hp | ⟨hp, hb⟩
  · have hb := isPacked_not_byteBased hp
    simp only [hp, if_true, slotSrc, hb, Bool.false_eq_true, if_false]
    cases cnt with
    | none =>
      simp only [Option.getD_none, replicateItems]
      have hget : (pre ++ [(⟨s, A, esz⟩ : Item)] ++ post)[pre.length]? = some ⟨s, A, esz⟩ := by
        rw [List.append_assoc, List.getElem?_append_right (Nat.le_refl _)]
        simp
      rw [hget]
      refine ⟨A, A + esz, by simp, by omega, fun _ => ⟨rfl, by omega⟩⟩
    | some n =>
      simp only [Option.getD_some, ne_eq, not_true_eq_false, if_false]
      by_cases h0 : n = 0
      · subst h0
        simp only [if_true]
        exact ⟨cur, cur, rfl, by omega, fun h => absurd (by omega) h⟩
      · rw [if_neg h0]
        obtain ⟨m, rfl⟩ : ∃ m, n = m + 1 := ⟨n - 1, by omega⟩
        have hget : (pre ++ replicateItems s esz (m + 1) A ++ post)[pre.length]? = some ⟨s, A, esz⟩ := by
          rw [List.append_assoc, List.getElem?_append_right (Nat.le_refl _), replicateItems]
          simp
        rw [hget]
        simp only [itemsAre_replicate, if_true]
        refine ⟨A, A + esz * (m + 1), rfl, by rw [Nat.mul_comm]; omega, fun _ => ⟨rfl, by rw [Nat.mul_comm]⟩⟩
  · simp only [hp, Bool.false_eq_true, if_false, slotSrc, hb, if_true]
    cases cnt with
    | none =>
      simp only [Option.getD_none, Nat.mul_one, Nat.one_mul, if_true]
      exact ⟨A, A + esz, rfl, by omega, fun _ => ⟨rfl, rfl⟩⟩
    | some n =>
      simp only [Option.getD_some]
      rw [if_pos (by rw [Nat.mul_comm])]
      exact ⟨A, A + n * esz, rfl, by omega, fun _ => ⟨rfl, rfl⟩⟩

/-! ### one step of the block validator -/

/-- where the validator expects a member of the block: `A` bytes into the block -/
def PosCond (al : Bool) (bstart la : Option Nat) (fo : Option Nat) (A cur : Nat) (first : Bool) (fa : Nat) : Prop :=
  fo = bstart.map (· + A) ∧
  (bstart = none → A = cur ∧ (al = true → first = true ∧ (la = some fa ∨ (la = none ∧ fa = 1))) ∧ (al = false → la = none))

theorem slotsOK_member (cfg : Cfg) (al : Bool) (its : List Item) (bsize : Nat) (bstart la : Option Nat)
    (sl : Slot) (rest : List Slot) (name : String) (an : Bool) (ty : Ty) (fs' : Fields) (fo : Option Nat)
    (offs' : List (Option Nat)) (first : Bool) (cur A fsize a0 b0 : Nat)
    (hnv : isVoid ty = false) (hname : sl.name = name)
    (hsr : slotRange cfg ty its sl cur = some (a0, b0)) (hts : ty.size cfg = some fsize) (hss : sl.size = fsize)
    (hd : b0 - a0 = fsize) (hab : fsize ≠ 0 → a0 = A ∧ b0 = A + fsize) (hcur : cur ≤ A) (hfit : A + fsize ≤ bsize)
    (hpos : PosCond al bstart la fo A cur first (ty.alignment cfg)) :
    slotsOK cfg al its bsize bstart la (sl :: rest) (.cons name an ty none fs') (fo :: offs') first cur =
      slotsOK cfg al its bsize bstart la rest fs' offs' false (A + fsize) := by
  rw [slotsOK.eq_def]
  simp only [hnv, Bool.false_eq_true, false_and, if_false, hname, ne_eq, not_true_eq_false, Option.isSome_none, or_self,
    hsr, hts, hdOff, List.drop_one, List.tail_cons]
  obtain ⟨hfo, hdyn⟩ := hpos
  cases bstart with
  | some k =>
    simp only [Option.map_some] at hfo
    subst hfo
    by_cases h0 : fsize = 0
    · subst h0
      simp only [if_true, Nat.add_sub_cancel_left, hss, hd, not_true_eq_false, false_or, Nat.add_zero]
      rw [if_neg (by omega)]
      simp
    · obtain ⟨rfl, rfl⟩ := hab h0
      simp only [h0, if_false, hss, not_true_eq_false, false_or]
      rw [if_neg (by omega)]
      simp
  | none =>
    simp only [Option.map_none] at hfo
    subst hfo
    obtain ⟨rfl, hal, hnal⟩ := hdyn rfl
    have hchk : (A == A && (if al = true then (if first = true then (la == some (ty.alignment cfg) || (la.isNone && ty.alignment cfg == 1))
        else ty.alignment cfg == 1) else la.isNone)) = true := by
      cases al with
      | false => simp [hnal rfl]
      | true =>
        obtain ⟨hf, hla⟩ := hal rfl
        subst hf
        rcases hla with h | ⟨h1, h2⟩
        · simp [h]
        · simp [h1, h2]
    by_cases h0 : fsize = 0
    · subst h0
      simp only [if_true, hss, hd, not_true_eq_false, false_or, Nat.add_zero]
      rw [if_neg (by omega)]
      simp only [hchk, if_true]
    · obtain ⟨rfl, rfl⟩ := hab h0
      simp only [h0, if_false, hss, not_true_eq_false, false_or]
      rw [if_neg (by omega)]
      simp only [hchk, if_true]

theorem slotsOK_void (cfg : Cfg) (al : Bool) (its : List Item) (bsize : Nat) (bstart la : Option Nat)
    (sl : Slot) (rest : List Slot) (name : String) (an : Bool) (ty : Ty) (fs' : Fields) (fo : Option Nat)
    (offs' : List (Option Nat)) (first : Bool) (cur : Nat)
    (hv : isVoid ty = true) (hname : name ≠ sl.name)
    (hfo : fo = bstart.map (· + cur)) (hdyn : bstart = none → al = true → ty.alignment cfg = 1) :
    slotsOK cfg al its bsize bstart la (sl :: rest) (.cons name an ty none fs') (fo :: offs') first cur =
      slotsOK cfg al its bsize bstart la (sl :: rest) fs' offs' first cur := by
  rw [slotsOK.eq_def]
  simp only [hv, Option.isNone_none, hname, ne_eq, not_false_eq_true, and_self, if_true, hdOff, List.drop_one, List.tail_cons]
  cases bstart with
  | some k =>
    simp only [Option.map_some] at hfo
    subst hfo
    simp
  | none =>
    simp only [Option.map_none] at hfo
    subst hfo
    cases al with
    | false => simp
    | true => simp [hdyn rfl rfl]

end Cstruct.Compiler
