/-
  Helper lemmas for `Proofs/CoreBits.lean`, part 5: a type of fragment SB whose definition is accepted has a static size
  (`size_some_ty`), by a generic one-step lemma about `Fields.layout` (packed or aligned).
-/
import Proofs.Lemmas.CoreBitsRT
namespace Cstruct.Core.Lemmas
open Cstruct Cstruct.Core Cstruct.C06 Cstruct.C06.Lemmas
open Cstruct.C05.Lemmas (encBytes encBytes_length)
set_option linter.unusedSimpArgs false

/-! ### A type of fragment SB whose layout is accepted has a static size -/

set_option hygiene false in
macro "los_nb" : tactic => `(tactic| (
    obtain ⟨k, hk⟩ := hk rfl
    cases al <;>
    · simp only [hk, Bool.false_eq_true, if_false, if_true] at h
      split at h
      · cases h
      · rename_i sz' al' offs' hl
        simp only [Except.ok.injEq, Prod.mk.injEq] at h
        obtain ⟨rfl, rfl, rfl⟩ := h
        exact ⟨_, _, hl, rfl⟩))

theorem layout_offset_some (cfg : Cfg) (al : Bool) (name an ty bits rest st sz sa offs)
    (hk : isBitW bits = false → ∃ k, ty.size cfg = some k)
    (h : Fields.layout cfg al (.cons name an ty bits rest) st = .ok (sz, sa, offs)) (ho : st.offset.isSome = true) :
    ∃ st' offs', Fields.layout cfg al rest st' = .ok (sz, sa, offs') ∧ st'.offset.isSome = true := by
  obtain ⟨o, ho⟩ := Option.isSome_iff_exists.mp ho
  rw [Fields.layout.eq_def] at h
  simp only [ho] at h
  rcases bits with _ | _ | b
  · los_nb
  · los_nb
  · simp only at h
    split at h
    · cases h
    rename_i ft hft
    split at h
    · cases h
    rename_i fsz hfsz
    split at h
    · cases h
    rename_i newUnit hnu
    cases newUnit <;> cases al <;>
    · simp only [Bool.false_eq_true, if_false, if_true, Option.map] at h
      split at h
      · cases h
      · split at h
        · cases h
        · rename_i sz' al' offs' hl
          simp only [Except.ok.injEq, Prod.mk.injEq] at h
          obtain ⟨rfl, rfl, rfl⟩ := h
          exact ⟨_, _, hl, rfl⟩

mutual
theorem size_some_ty (cfg : Cfg) : ∀ ty : Ty, ty.fragSB cfg = true → ty.defErr cfg = none → ∃ k, ty.size cfg = some k
  | .sc s _, h, _ => by
    cases s <;> simp [Ty.fragSB] at h <;> simp [Ty.size, Scalar.size]
  | .enum b _ _, h, _ => by
    simp only [Ty.fragSB] at h
    exact isInt_size b h
  | .ptr _, h, _ => by
    simp only [Ty.fragSB] at h
    exact isInt_size _ h
  | .arr e len, h, hd => by
    simp only [Ty.fragSB, Bool.and_eq_true] at h
    simp only [Ty.defErr] at hd
    cases len with
    | fixed n =>
      obtain ⟨k, hk⟩ := size_some_ty cfg e h.2 hd
      exact ⟨n * k, by simp only [Ty.size, hk]⟩
    | expr _ => simp at h
    | nullTerm => simp at h
    | eof => simp at h
  | .struct al fs, h, hd => by
    simp only [Ty.fragSB] at h
    simp only [Ty.defErr] at hd
    split at hd
    · cases hd
    rename_i hfd
    split at hd
    · cases hd
    rename_i r hl
    obtain ⟨sz, sa, offs⟩ := r
    obtain ⟨k, hk⟩ := Option.isSome_iff_exists.mp (size_some_fs cfg fs h hfd al _ sz sa offs hl rfl)
    exact ⟨k, by simp only [Ty.size, hl, hk]⟩
  | .union _ _, h, _ => by simp [Ty.fragSB] at h
theorem size_some_fs (cfg : Cfg) : ∀ fs : Fields, Fields.fragSB cfg fs = true → Fields.defErr cfg fs = none →
    ∀ (al : Bool) (st : LState) sz sa offs, Fields.layout cfg al fs st = .ok (sz, sa, offs) → st.offset.isSome = true →
    sz.isSome = true
  | .nil, _, _, al, st, sz, sa, offs, hl, ho => by
    obtain ⟨o, ho⟩ := Option.isSome_iff_exists.mp ho
    rw [Fields.layout] at hl
    simp only [ho, Except.ok.injEq, Prod.mk.injEq] at hl
    rw [← hl.1]
    cases al <;> rfl
  | .cons name an ty bits rest, hS, hd, al, st, sz, sa, offs, hl, ho => by
    simp only [Fields.fragSB, Bool.and_eq_true] at hS
    simp only [Fields.defErr] at hd
    split at hd
    · cases hd
    rename_i htd
    have hk : isBitW bits = false → ∃ k, ty.size cfg = some k := by
      intro hb
      rcases bits with _ | _ | b
      · exact size_some_ty cfg ty hS.1 htd
      · simp at hS
      · simp [isBitW] at hb
    obtain ⟨st', offs', hl', ho'⟩ := layout_offset_some cfg al name an ty bits rest st sz sa offs hk hl ho
    exact size_some_fs cfg rest hS.2 hd al st' sz sa offs' hl' ho'
end

end Cstruct.Core.Lemmas
