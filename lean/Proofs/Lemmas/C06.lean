import Proofs.Spec.C06
namespace Cstruct.C06.Lemmas
open Cstruct Cstruct.C06

/-! ### Masks on Python ints -/

theorem ldiff_mask (k m : Nat) :
    Nat.bitwise (fun a b => a && !b) (2^k - 1) m = 2^k - 1 - m % 2^k := by
  apply Nat.eq_of_testBit_eq
  intro i
  rw [Nat.testBit_bitwise (by rfl)]
  have h1 : 2^k - 1 - m % 2^k = 2^k - (m % 2^k + 1) := by omega
  rw [h1, Nat.testBit_two_pow_sub_succ (Nat.mod_lt _ (Nat.two_pow_pos k)), Nat.testBit_two_pow_sub_one,
    Nat.testBit_mod_two_pow]
  by_cases h : i < k <;> simp [h]

theorem shl_one_sub (n : Nat) : shl 1 n - 1 = Int.ofNat (2^n - 1) := by
  have hpos : 0 < 2^n := Nat.two_pow_pos n
  unfold shl
  show _ = ((2^n - 1 : Nat) : Int)
  generalize 2^n = a at hpos
  omega

theorem negSucc_emod_two_pow (m n : Nat) :
    Int.negSucc m % ((2^n : Nat) : Int) = ((2^n - 1 - m % 2^n : Nat) : Int) := by
  have hpos : 0 < 2^n := Nat.two_pow_pos n
  have hlt := Nat.mod_lt m hpos
  rw [Int.negSucc_emod m (by exact_mod_cast hpos), ← Int.natCast_emod]
  generalize m % 2^n = r at hlt
  generalize 2^n = a at hpos hlt
  omega

theorem negSucc_ediv_nat (m a : Nat) (h : 0 < a) : Int.negSucc m / (a : Int) = Int.negSucc (m / a) := by
  cases a with
  | zero => omega
  | succ a => rfl

/-- masking with `(1 << n) - 1` is reduction modulo `2^n`, for every integer -/
theorem land_mask (x : Int) (n : Nat) : land x (shl 1 n - 1) = x % ((2^n : Nat) : Int) := by
  rw [shl_one_sub]
  cases x with
  | ofNat m =>
    show ((m &&& (2^n - 1) : Nat) : Int) = _
    rw [Nat.and_two_pow_sub_one_eq_mod]; rfl
  | negSucc m =>
    show ((Nat.bitwise (fun a b => a && !b) (2^n - 1) m : Nat) : Int) = _
    rw [ldiff_mask, negSucc_emod_two_pow]

theorem testBit_bigmask (lo hi i : Nat) :
    ((2^lo - 1) ^^^ (2^hi - 1)).testBit i = (decide (i < lo) ^^ decide (i < hi)) := by
  simp only [Nat.testBit_xor, Nat.testBit_two_pow_sub_one]

/-- the big-endian extraction `(x & (((1 << lo) - 1) ^ ((1 << hi) - 1))) >> lo` is bits `[lo, hi)` of `x`,
    for every integer -/
theorem land_bigmask (x : Int) (lo hi : Nat) (h : lo ≤ hi) :
    shr (land x (lxor (shl 1 lo - 1) (shl 1 hi - 1))) lo
      = (x / ((2^lo : Nat) : Int)) % ((2^(hi - lo) : Nat) : Int) := by
  rw [shl_one_sub, shl_one_sub]
  have hpos : 0 < 2^lo := Nat.two_pow_pos lo
  unfold shr
  cases x with
  | ofNat m =>
    show (((m &&& ((2^lo - 1) ^^^ (2^hi - 1))) / 2^lo : Nat) : Int) = ((m / 2^lo % 2^(hi - lo) : Nat) : Int)
    congr 1
    apply Nat.eq_of_testBit_eq
    intro i
    rw [Nat.testBit_div_two_pow, Nat.testBit_and, testBit_bigmask, Nat.testBit_mod_two_pow, Nat.testBit_div_two_pow]
    by_cases h1 : i + lo < hi
    · have h2 : i < hi - lo := by omega
      have h3 : ¬ (i + lo < lo) := by omega
      simp [h1, h2, h3]
    · have h2 : ¬ (i < hi - lo) := by omega
      have h3 : ¬ (i + lo < lo) := by omega
      simp [h1, h2, h3]
  | negSucc m =>
    show (((Nat.bitwise (fun a b => a && !b) ((2^lo - 1) ^^^ (2^hi - 1)) m) / 2^lo : Nat) : Int) = _
    rw [negSucc_ediv_nat m _ hpos, negSucc_emod_two_pow]
    congr 1
    have hlt := Nat.mod_lt (m / 2^lo) (Nat.two_pow_pos (hi - lo))
    have h1 : 2^(hi - lo) - 1 - m / 2^lo % 2^(hi - lo) = 2^(hi - lo) - (m / 2^lo % 2^(hi - lo) + 1) := by omega
    rw [h1]
    apply Nat.eq_of_testBit_eq
    intro i
    rw [Nat.testBit_div_two_pow, Nat.testBit_bitwise (by rfl), testBit_bigmask,
      Nat.testBit_two_pow_sub_succ hlt, Nat.testBit_mod_two_pow, Nat.testBit_div_two_pow]
    by_cases h1 : i + lo < hi
    · have h2 : i < hi - lo := by omega
      have h3 : ¬ (i + lo < lo) := by omega
      simp [h1, h2, h3]
    · have h2 : ¬ (i < hi - lo) := by omega
      have h3 : ¬ (i + lo < lo) := by omega
      simp [h1, h2, h3]

/-! ### `lor` of disjoint non-negative numbers -/

theorem lor_nat (a b : Nat) : lor (a : Int) (b : Int) = ((a ||| b : Nat) : Int) := rfl

theorem shl_nat (m s : Nat) : shl (m : Int) s = ((m * 2^s : Nat) : Int) := by
  unfold shl; rw [Int.natCast_mul]

theorem or_little (n m k : Nat) (h : n < 2^k) : n ||| m * 2^k = n + m * 2^k := by
  rw [Nat.or_comm, Nat.mul_comm, ← Nat.two_pow_add_eq_or_of_lt h, Nat.add_comm]

theorem or_big (n m r b : Nat) (hb : b ≤ r) (h : m < 2^b) :
    n * 2^r ||| m * 2^(r - b) = (n * 2^b + m) * 2^(r - b) := by
  have hr : 2^r = 2^b * 2^(r - b) := by rw [← Nat.pow_add]; congr 1; omega
  rw [hr, ← Nat.mul_assoc]
  simp only [← Nat.shiftLeft_eq]
  rw [← Nat.shiftLeft_or_distrib, Nat.shiftLeft_add_eq_or_of_lt h n]

/-! ### One read step -/

theorem slotVal_bounds (u : Int) (lo b : Nat) : 0 ≤ slotVal u lo b ∧ slotVal u lo b < 2 ^ b := by
  have hpos : (0 : Int) < ((2^b : Nat) : Int) := by exact_mod_cast Nat.two_pow_pos b
  unfold slotVal
  refine ⟨Int.emod_nonneg _ (by omega), ?_⟩
  have := Int.emod_lt_of_pos (u / ((2^lo : Nat) : Int)) hpos
  exact_mod_cast this

theorem take_step (e : Endian) (w k b : Nat) (u : Int) (bb : BitBuf) (hinv : ReadInv e w u k bb) (hb : k + b ≤ w) :
    ∃ bb', bb.take e b = some (slotVal u (slotLo e w k b) b, bb') ∧ ReadInv e w u (k + b) bb' ∧
      0 ≤ slotVal u (slotLo e w k b) b ∧ slotVal u (slotLo e w k b) b < 2 ^ b := by
  obtain ⟨hk, hrem, hbuf⟩ := hinv
  have hnot : ¬ (b > bb.remaining) := by omega
  cases e with
  | little =>
    simp only at hbuf
    refine ⟨{ bb with buffer := shr bb.buffer b, remaining := bb.remaining - b }, ?_,
      ⟨hb, by show bb.remaining - b = w - (k + b); omega, ?_⟩, slotVal_bounds _ _ _⟩
    · simp only [BitBuf.take, if_neg hnot, land_mask, hbuf]
      rfl
    · show shr bb.buffer b = u / ((2^(k + b) : Nat) : Int)
      rw [hbuf]
      unfold shr
      rw [Int.ediv_ediv_of_nonneg (Int.natCast_nonneg _), ← Int.natCast_mul, ← Nat.pow_add]
  | big =>
    simp only at hbuf
    refine ⟨{ bb with remaining := bb.remaining - b }, ?_,
      ⟨hb, by show bb.remaining - b = w - (k + b); omega, hbuf⟩, slotVal_bounds _ _ _⟩
    have hd : bb.remaining - (bb.remaining - b) = b := by omega
    simp only [BitBuf.take, if_neg hnot, land_bigmask _ _ _ (Nat.sub_le bb.remaining b), hbuf, hd]
    have hlo : slotLo .big w k b = bb.remaining - b := by show w - k - b = _; omega
    rw [hlo]
    rfl

theorem take_straddle (e : Endian) (bb : BitBuf) (b : Nat) (h : bb.remaining < b) : bb.take e b = none := by
  simp [BitBuf.take, h]

/-! ### Prefix sums and the partition -/

theorem starts_bounds : ∀ (bs : List Nat) (k n : Nat), n < bs.length →
    k ≤ (starts bs k).getD n 0 ∧ (starts bs k).getD n 0 + bs.getD n 0 ≤ k + bs.sum
  | [], _, _, h => by simp at h
  | b :: r, k, 0, _ => by simp [starts]
  | b :: r, k, n + 1, h => by
    have := starts_bounds r (k + b) n (by simpa using h)
    simp only [starts, List.getD_cons_succ, List.sum_cons]
    omega

theorem starts_mono : ∀ (bs : List Nat) (k i j : Nat), i < j → j < bs.length →
    (starts bs k).getD i 0 + bs.getD i 0 ≤ (starts bs k).getD j 0
  | [], _, _, _, _, h => by simp at h
  | _ :: _, _, _, 0, h, _ => by omega
  | b :: r, k, 0, j + 1, _, hj => by
    have := (starts_bounds r (k + b) j (by simpa using hj)).1
    simpa [starts] using this
  | b :: r, k, i + 1, j + 1, hij, hj => by
    have := starts_mono r (k + b) i j (by omega) (by simpa using hj)
    simpa [starts] using this

theorem partition (e : Endian) (w : Nat) (bs : List Nat) (hsum : bs.sum ≤ w) (i j : Nat) (hij : i < j)
    (hj : j < bs.length) :
    let ks := starts bs 0
    let lo (n : Nat) := slotLo e w (ks.getD n 0) (bs.getD n 0)
    (lo i + bs.getD i 0 ≤ lo j ∨ lo j + bs.getD j 0 ≤ lo i) ∧ lo i + bs.getD i 0 ≤ w ∧ lo j + bs.getD j 0 ≤ w := by
  intro ks lo
  have hi' := starts_bounds bs 0 i (by omega)
  have hj' := starts_bounds bs 0 j hj
  have hm := starts_mono bs 0 i j hij hj
  cases e <;> simp only [lo, ks, slotLo] <;> omega

/-! ### A run of reads -/

theorem takeAll_spec (e : Endian) (w : Nat) (u : Int) : ∀ (bs : List Nat) (k : Nat) (bb : BitBuf),
    ReadInv e w u k bb → k + bs.sum ≤ w →
    ∃ bb', takeAll e bb bs = some ((bs.zip (starts bs k)).map (fun (b, k) => slotVal u (slotLo e w k b) b), bb') ∧
      ReadInv e w u (k + bs.sum) bb'
  | [], k, bb, hinv, _ => ⟨bb, by simp [takeAll, starts], by simpa using hinv⟩
  | b :: r, k, bb, hinv, hs => by
    simp only [List.sum_cons] at hs
    obtain ⟨bb1, ht, hinv1, _⟩ := take_step e w k b u bb hinv (by omega)
    obtain ⟨bb2, hta, hinv2⟩ := takeAll_spec e w u r (k + b) bb1 hinv1 (by omega)
    refine ⟨bb2, ?_, ?_⟩
    · simp [takeAll, ht, hta, starts]
    · simpa [Nat.add_assoc] using hinv2

theorem readInv_init (e : Endian) (w : Nat) (u : Int) (t : Option Scalar) :
    ReadInv e w u 0 { ty := t, buffer := u, remaining := w } := by
  cases e <;> simp [ReadInv]

theorem take_all (e : Endian) (w : Nat) (u : Int) (bs : List Nat) (hsum : bs.sum ≤ w) (t : Option Scalar) :
    ∃ bb', takeAll e { ty := t, buffer := u, remaining := w } bs =
      some ((bs.zip (starts bs 0)).map (fun (b, k) => slotVal u (slotLo e w k b) b), bb') ∧
      bb'.remaining = w - bs.sum := by
  obtain ⟨bb', h1, h2⟩ := takeAll_spec e w u bs 0 _ (readInv_init e w u t) (by omega)
  exact ⟨bb', h1, by simpa using h2.2.1⟩

/-! ### The write side -/

/-- after `k` bits were put into a unit of `W` bits the accumulated fields form the number `n` (`< 2^k`): little
    endian holds it as is, big endian holds it shifted to the most significant end -/
def WriteInv (e : Endian) (W k n : Nat) (bb : BitBuf) : Prop :=
  bb.remaining = W - k ∧
  match e with
  | .little => bb.buffer = ((n : Nat) : Int)
  | .big => bb.buffer = ((n * 2^(W - k) : Nat) : Int)

/-- the accumulated number after one more field `m` of `b` bits -/
def acc (e : Endian) (k n m b : Nat) : Nat :=
  match e with
  | .little => n + m * 2^k
  | .big => n * 2^b + m

theorem acc_lt (e : Endian) (k n m b : Nat) (hn : n < 2^k) (hm : m < 2^b) : acc e k n m b < 2^(k + b) := by
  rw [Nat.pow_add]
  cases e with
  | little =>
    show n + m * 2^k < 2^k * 2^b
    have h1 : (m + 1) * 2^k ≤ 2^b * 2^k := Nat.mul_le_mul_right _ hm
    rw [Nat.add_mul, Nat.one_mul, Nat.mul_comm (2^b)] at h1
    omega
  | big =>
    show n * 2^b + m < 2^k * 2^b
    have h1 : (n + 1) * 2^b ≤ 2^k * 2^b := Nat.mul_le_mul_right _ hn
    rw [Nat.add_mul, Nat.one_mul] at h1
    omega

theorem put_step (e : Endian) (size k n b m : Nat) (bb : BitBuf) (hinv : WriteInv e (8 * size) k n bb)
    (hn : n < 2^k) (hm : m < 2^b) (hb : k + b ≤ 8 * size) :
    ∃ bb', bb.put e size (m : Int) b = some bb' ∧ WriteInv e (8 * size) (k + b) (acc e k n m b) bb' := by
  obtain ⟨hrem, hbuf⟩ := hinv
  have hnot : ¬ (b > bb.remaining) := by omega
  have hrange : ¬ ((m : Int) < 0 ∨ (m : Int) ≥ shl 1 b) := by
    unfold shl
    have h1 : ((m : Nat) : Int) < ((2 ^ b : Nat) : Int) := Int.ofNat_lt.mpr hm
    omega
  cases e with
  | little =>
    simp only at hbuf
    refine ⟨_, by simp only [BitBuf.put, if_neg hnot, if_neg hrange]; rfl, by show bb.remaining - b = _; omega, ?_⟩
    have hs : size * 8 - bb.remaining = k := by omega
    show lor bb.buffer (shl (m : Int) (size * 8 - bb.remaining)) = ((n + m * 2^k : Nat) : Int)
    rw [hs, hbuf, shl_nat, lor_nat, or_little n m k hn]
  | big =>
    simp only at hbuf
    refine ⟨_, by simp only [BitBuf.put, if_neg hnot, if_neg hrange]; rfl, by show bb.remaining - b = _; omega, ?_⟩
    have hs : 8 * size - (k + b) = 8 * size - k - b := by omega
    show lor bb.buffer (shl (m : Int) (bb.remaining - b)) = (((n * 2^b + m) * 2^(8 * size - (k + b)) : Nat) : Int)
    rw [hbuf, hrem, hs, shl_nat, lor_nat, or_big n m (8 * size - k) b (by omega) hm]

theorem little_rel (nF n m k b : Nat) (hn : n < 2^k) (h : nF % 2^(k + b) = n + m * 2^k) :
    nF % 2^k = n ∧ nF / 2^k % 2^b = m := by
  have hpos : 0 < 2^k := Nat.two_pow_pos k
  constructor
  · have hd : 2^k ∣ 2^(k + b) := Nat.pow_dvd_pow 2 (by omega)
    rw [← Nat.mod_mod_of_dvd nF hd, h, Nat.add_mul_mod_self_right, Nat.mod_eq_of_lt hn]
  · rw [← Nat.mod_mul_right_div_self, ← Nat.pow_add, h, Nat.add_mul_div_right _ _ hpos, Nat.div_eq_of_lt hn,
      Nat.zero_add]

theorem big_rel (nF n m b s : Nat) (hm : m < 2^b) (h : nF / 2^s = n * 2^b + m) :
    nF / 2^(b + s) = n ∧ nF / 2^s % 2^b = m := by
  have hpos : 0 < 2^b := Nat.two_pow_pos b
  constructor
  · rw [Nat.add_comm, Nat.pow_add, ← Nat.div_div_eq_div_mul, h, Nat.add_comm, Nat.add_mul_div_right _ _ hpos,
      Nat.div_eq_of_lt hm, Nat.zero_add]
  · rw [h, Nat.mul_add_mod_of_lt hm]

theorem slotVal_nat (x lo b : Nat) : slotVal (x : Int) lo b = ((x / 2^lo % 2^b : Nat) : Int) := rfl

theorem putAll_spec (e : Endian) (size : Nat) : ∀ (fs : List (Int × Nat)) (k n : Nat) (bb : BitBuf),
    WriteInv e (8 * size) k n bb → n < 2^k → (∀ p ∈ fs, 0 ≤ p.1 ∧ p.1 < 2 ^ p.2) →
    k + (fs.map (·.2)).sum ≤ 8 * size →
    ∃ bbF nF, putAll e size bb fs = some bbF ∧ WriteInv e (8 * size) (k + (fs.map (·.2)).sum) nF bbF ∧
      nF < 2^(k + (fs.map (·.2)).sum) ∧
      (match e with
       | .little => nF % 2^k = n
       | .big => nF / 2^((fs.map (·.2)).sum) = n) ∧
      ((fs.map (·.2)).zip (starts (fs.map (·.2)) k)).map
        (fun (b, k) => slotVal bbF.buffer (slotLo e (8 * size) k b) b) = fs.map (·.1)
  | [], k, n, bb, hinv, hn, _, _ => by
    refine ⟨bb, n, rfl, by simpa using hinv, by simpa using hn, ?_, by simp [starts]⟩
    cases e
    · exact Nat.mod_eq_of_lt hn
    · simp
  | (v, b) :: r, k, n, bb, hinv, hn, hfit, hs => by
    simp only [List.map_cons, List.sum_cons] at hs ⊢
    obtain ⟨hv0, hvlt⟩ := hfit (v, b) (by simp)
    obtain ⟨m, rfl⟩ := Int.eq_ofNat_of_zero_le hv0
    simp only at hvlt
    have hm : m < 2^b := by exact_mod_cast hvlt
    obtain ⟨bb1, hput, hinv1⟩ := put_step e size k n b m bb hinv hn hm (by omega)
    obtain ⟨bbF, nF, hall, hinvF, hnF, hrel, hslots⟩ :=
      putAll_spec e size r (k + b) (acc e k n m b) bb1 hinv1 (acc_lt e k n m b hn hm)
        (fun p hp => hfit p (List.mem_cons_of_mem _ hp)) (by omega)
    rw [Nat.add_assoc] at hinvF hnF
    refine ⟨bbF, nF, by simp [putAll, hput, hall], hinvF, hnF, ?_, ?_⟩
    · cases e with
      | little => exact (little_rel nF n m k b hn hrel).1
      | big => exact (big_rel nF n m b _ hm hrel).1
    · simp only [starts, List.zip_cons_cons, List.map_cons, hslots]
      congr 1
      obtain ⟨hremF, hbufF⟩ := hinvF
      cases e with
      | little =>
        simp only at hbufF
        rw [hbufF]
        show slotVal (nF : Int) k b = _
        rw [slotVal_nat, (little_rel nF n m k b hn hrel).2]
      | big =>
        simp only at hbufF
        rw [hbufF]
        show slotVal _ (8 * size - k - b) b = _
        have hd : 8 * size - k - b = (r.map (·.2)).sum + (8 * size - (k + (b + (r.map (·.2)).sum))) := by omega
        rw [slotVal_nat, hd, Nat.pow_add, Nat.mul_div_mul_right _ _ (Nat.two_pow_pos _),
          (big_rel nF n m b _ hm hrel).2]

theorem writeInv_init (e : Endian) (W : Nat) (t : Option Scalar) :
    WriteInv e W 0 0 { ty := t, buffer := 0, remaining := W } := by
  cases e <;> simp [WriteInv]

theorem put_take (e : Endian) (size : Nat) (fs : List (Int × Nat)) (t : Option Scalar)
    (hfit : ∀ p ∈ fs, 0 ≤ p.1 ∧ p.1 < 2 ^ p.2) (hsum : (fs.map (·.2)).sum ≤ 8 * size) :
    ∃ bb, putAll e size { ty := t, buffer := 0, remaining := 8 * size } fs = some bb ∧
      0 ≤ bb.buffer ∧ bb.buffer < 2 ^ (8 * size) ∧ bb.remaining = 8 * size - (fs.map (·.2)).sum ∧
      (∃ bb', takeAll e { ty := t, buffer := bb.buffer, remaining := 8 * size } (fs.map (·.2)) = some (fs.map (·.1), bb')) ∧
      (match e with
       | .little => bb.buffer < 2 ^ (fs.map (·.2)).sum
       | .big => bb.buffer % (2 ^ (8 * size - (fs.map (·.2)).sum) : Nat) = 0) := by
  obtain ⟨bbF, nF, hall, hinvF, hnF, _, hslots⟩ :=
    putAll_spec e size fs 0 0 _ (writeInv_init e (8 * size) t) (by simp) hfit (by omega)
  simp only [Nat.zero_add] at hinvF hnF
  obtain ⟨hrem, hbuf⟩ := hinvF
  obtain ⟨bb', htake, _⟩ := take_all e (8 * size) bbF.buffer (fs.map (·.2)) hsum t
  rw [hslots] at htake
  have hle : 2^(fs.map (·.2)).sum ≤ 2^(8 * size) := Nat.pow_le_pow_right (by omega) hsum
  cases e with
  | little =>
    simp only at hbuf
    refine ⟨bbF, hall, ?_, ?_, hrem, ⟨bb', htake⟩, ?_⟩
    · rw [hbuf]; exact Int.natCast_nonneg _
    · rw [hbuf]; exact_mod_cast Nat.lt_of_lt_of_le hnF hle
    · show bbF.buffer < _
      rw [hbuf]; exact_mod_cast hnF
  | big =>
    simp only at hbuf
    refine ⟨bbF, hall, ?_, ?_, hrem, ⟨bb', htake⟩, ?_⟩
    · rw [hbuf]; exact Int.natCast_nonneg _
    · rw [hbuf]
      have h1 : nF * 2^(8 * size - (fs.map (·.2)).sum) < 2^(8 * size) := by
        have h2 := (Nat.mul_lt_mul_right (Nat.two_pow_pos (8 * size - (fs.map (·.2)).sum))).2 hnF
        rw [← Nat.pow_add] at h2
        have h3 : (fs.map (·.2)).sum + (8 * size - (fs.map (·.2)).sum) = 8 * size := by omega
        rwa [h3] at h2
      exact_mod_cast h1
    · show bbF.buffer % _ = 0
      rw [hbuf]
      exact_mod_cast Nat.mul_mod_left _ _

/-! ### Definition time -/

theorem layout_straddle (cfg : Cfg) (name : String) (an : Bool) (ty : Ty) (b : Nat) (rest : Fields)
    (st : LState) (ft : Scalar) (fsz o bfo : Nat)
    (hbase : ty.bitBase = some ft) (hsz : ft.size = some fsz) (hty : st.bitsType = some ft)
    (hrem : 0 < st.bitsRemaining ∧ st.bitsRemaining < ((b + 1 : Nat) : Int))
    (hoff : st.offset = some o) (hbfo : st.bitsFieldOffset = some bfo) (hnojump : ¬ (o > bfo + fsz)) :
    Fields.layout cfg false (.cons name an ty (some (b + 1)) rest) st = .error .value := by
  have h0 : ¬ (st.bitsRemaining = 0) := by omega
  have hlt : ¬ (bfo + fsz < o) := by omega
  simp [Fields.layout, hbase, hsz, hty, hoff, hbfo, h0, hlt]
  omega

theorem layout_unit (cfg : Cfg) (name : String) (an : Bool) (ty : Ty) (b : Nat) (rest : Fields)
    (st : LState) (ft : Scalar) (fsz o : Nat)
    (hbase : ty.bitBase = some ft) (hsz : ft.size = some fsz) (hoff : st.offset = some o)
    (hfit : (b + 1 : Nat) ≤ 8 * fsz) (hnew : st.bitsRemaining = 0 ∨ st.bitsType ≠ some ft) :
    let st' : LState := ⟨some (o + fsz), max st.alignment (ty.alignment cfg), some ft, some o,
      ((8 * fsz : Nat) : Int) - ((b + 1 : Nat) : Int)⟩
    Fields.layout cfg false (.cons name an ty (some (b + 1)) rest) st =
      (Fields.layout cfg false rest st').map fun (sz, a, offs) => (sz, a, some o :: offs) := by
  intro st'
  have h0 : (st.bitsRemaining = 0 ∨ some ft ≠ st.bitsType) := by
    rcases hnew with h | h
    · exact Or.inl h
    · exact Or.inr (fun h' => h h'.symm)
  have hnn : ¬ (((8 * fsz : Nat) : Int) - ((b + 1 : Nat) : Int) < 0) := by omega
  have hc : ((fsz * 8 : Nat) : Int) - ((b + 1 : Nat) : Int) = ((8 * fsz : Nat) : Int) - ((b + 1 : Nat) : Int) := by
    omega
  simp only [Fields.layout, hbase, hsz, hoff, h0, if_true]
  simp only [Option.map, hc, hnn, Bool.false_eq_true, if_false]
  show _ = Except.map _ (Fields.layout cfg false rest st')
  cases Fields.layout cfg false rest st' <;> rfl

end Cstruct.C06.Lemmas
