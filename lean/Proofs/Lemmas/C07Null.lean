/-
  Helper lemmas for `Proofs/C07Null.lean` (null-terminated arrays over every element kind), part 1:
  the abstract read-until-terminator loop, its characterisation by the specification `StopsAt / FailsAt / RunsOn`
  (`Proofs/Spec/C07Null.lean`), and the proof that the model's loops (`readScalar0`, `readUntilFalsy`) are this loop.
-/
import Proofs.Spec.C07Null
import Proofs.Lemmas.C07
namespace Cstruct.C07.Lemmas
open Cstruct Cstruct.C07 Cstruct.Core.Lemmas

/-! ### The abstract loop -/

/-- read elements with `rd` until `term` holds of one; `f` bounds the number of element reads -/
def loop (rd : Nat → Except Err (Val × Nat)) (term : Val → Bool) : Nat → Nat → Except Err (List Val × Nat)
  | 0, _ => .error .eof
  | f + 1, p =>
    match rd p with
    | .error e => .error e
    | .ok (v, q) =>
      if term v then .ok ([], q) else
      match loop rd term f q with
      | .error e => .error e
      | .ok (vs, q') => .ok (v :: vs, q')

variable {rd : Nat → Except Err (Val × Nat)} {term : Val → Bool}

theorem loop_err {f p e} (h : rd p = .error e) : loop rd term (f + 1) p = .error e := by
  simp only [loop, h]

theorem loop_term {f p v q} (h : rd p = .ok (v, q)) (ht : term v = true) : loop rd term (f + 1) p = .ok ([], q) := by
  simp only [loop, h, ht, if_true]

/-- prepend an element to a successful result -/
def consRes (v : Val) : Except Err (List Val × Nat) → Except Err (List Val × Nat)
  | .error e => .error e
  | .ok (vs, q) => .ok (v :: vs, q)

theorem loop_step {f p v q} (h : rd p = .ok (v, q)) (ht : term v = false) :
    loop rd term (f + 1) p = consRes v (loop rd term f q) := by
  simp only [loop, h, ht, Bool.false_eq_true, if_false]
  cases loop rd term f q with
  | error e => rfl
  | ok r => rfl

theorem reads_nil {p q} (h : Reads rd p [] q) : q = p := by
  cases h; rfl

theorem loop_of_stops : ∀ (vs : List Val) (p f p' : Nat) (t : Val) (q : Nat), Reads rd p vs p' →
    (∀ v ∈ vs, term v = false) → rd p' = .ok (t, q) → term t = true → vs.length < f →
    loop rd term f p = .ok (vs, q) := by
  intro vs
  induction vs with
  | nil =>
    intro p f p' t q hr _ hrd ht hl
    cases reads_nil hr
    obtain ⟨f', rfl⟩ : ∃ f', f = f' + 1 := ⟨f - 1, by simp only [List.length_nil] at hl; omega⟩
    exact loop_term hrd ht
  | cons v vs ih =>
    intro p f p' t q hr hn hrd ht hl
    cases hr with
    | cons h1 h2 =>
      obtain ⟨f', rfl⟩ : ∃ f', f = f' + 1 := ⟨f - 1, by simp only [List.length_cons] at hl; omega⟩
      rw [loop_step h1 (hn v (List.mem_cons_self ..)),
        ih _ f' _ _ _ h2 (fun x hx => hn x (List.mem_cons_of_mem _ hx)) hrd ht
          (by simp only [List.length_cons] at hl; omega)]
      rfl

theorem stops_of_loop : ∀ (f p : Nat) (vs : List Val) (q : Nat), loop rd term f p = .ok (vs, q) →
    StopsAt rd term p vs q ∧ vs.length < f := by
  intro f
  induction f with
  | zero => intro p vs q h; simp only [loop] at h; cases h
  | succ f ih =>
    intro p vs q h
    cases h1 : rd p with
    | error e => rw [loop_err h1] at h; cases h
    | ok r =>
      obtain ⟨v, p1⟩ := r
      cases ht : term v with
      | true =>
        rw [loop_term h1 ht] at h
        cases h
        exact ⟨⟨p, v, .nil, by simp, h1, ht⟩, by simp⟩
      | false =>
        rw [loop_step h1 ht] at h
        cases h2 : loop rd term f p1 with
        | error e => rw [h2] at h; cases h
        | ok r =>
          obtain ⟨vs', q'⟩ := r
          rw [h2] at h
          simp only [consRes] at h
          cases h
          obtain ⟨⟨p', t, hr, hn, hrd, htt⟩, hl⟩ := ih _ _ _ h2
          refine ⟨⟨p', t, .cons h1 hr, ?_, hrd, htt⟩, by simp only [List.length_cons]; omega⟩
          intro x hx
          simp only [List.mem_cons] at hx
          rcases hx with rfl | hx
          · exact ht
          · exact hn x hx

/-- the loop returns `(vs, q)` exactly when the successive reads stop at a terminator after `vs`, within the bound -/
theorem loop_ok_iff (f p : Nat) (vs : List Val) (q : Nat) :
    loop rd term f p = .ok (vs, q) ↔ StopsAt rd term p vs q ∧ vs.length < f := by
  constructor
  · exact stops_of_loop f p vs q
  · rintro ⟨⟨p', t, hr, hn, hrd, ht⟩, hl⟩
    exact loop_of_stops vs p f p' t q hr hn hrd ht hl

theorem loop_of_fails : ∀ (vs : List Val) (p f p' : Nat) (er : Err), Reads rd p vs p' →
    (∀ v ∈ vs, term v = false) → rd p' = .error er → vs.length < f → loop rd term f p = .error er := by
  intro vs
  induction vs with
  | nil =>
    intro p f p' er hr _ hrd hl
    cases reads_nil hr
    obtain ⟨f', rfl⟩ : ∃ f', f = f' + 1 := ⟨f - 1, by simp only [List.length_nil] at hl; omega⟩
    exact loop_err hrd
  | cons v vs ih =>
    intro p f p' er hr hn hrd hl
    cases hr with
    | cons h1 h2 =>
      obtain ⟨f', rfl⟩ : ∃ f', f = f' + 1 := ⟨f - 1, by simp only [List.length_cons] at hl; omega⟩
      rw [loop_step h1 (hn v (List.mem_cons_self ..)),
        ih _ f' _ _ h2 (fun x hx => hn x (List.mem_cons_of_mem _ hx)) hrd
          (by simp only [List.length_cons] at hl; omega)]
      rfl

theorem loop_of_runs : ∀ (vs : List Val) (p p' : Nat), Reads rd p vs p' →
    (∀ v ∈ vs, term v = false) → loop rd term vs.length p = .error .eof := by
  intro vs
  induction vs with
  | nil => intro p p' _ _; rfl
  | cons v vs ih =>
    intro p p' hr hn
    cases hr with
    | cons h1 h2 =>
      simp only [List.length_cons]
      rw [loop_step h1 (hn v (List.mem_cons_self ..)), ih _ _ h2 (fun x hx => hn x (List.mem_cons_of_mem _ hx))]
      rfl

theorem fails_of_loop : ∀ (f p : Nat) (er : Err), loop rd term f p = .error er →
    (∃ vs, FailsAt rd term p vs er ∧ vs.length < f) ∨ (er = .eof ∧ RunsOn rd term p f) := by
  intro f
  induction f with
  | zero =>
    intro p er h
    simp only [loop] at h
    cases h
    exact .inr ⟨rfl, [], p, .nil, by simp, rfl⟩
  | succ f ih =>
    intro p er h
    cases h1 : rd p with
    | error e =>
      rw [loop_err h1] at h
      cases h
      exact .inl ⟨[], ⟨p, .nil, by simp, h1⟩, by simp⟩
    | ok r =>
      obtain ⟨v, p1⟩ := r
      cases ht : term v with
      | true => rw [loop_term h1 ht] at h; cases h
      | false =>
        rw [loop_step h1 ht] at h
        cases h2 : loop rd term f p1 with
        | ok r => rw [h2] at h; cases h
        | error e =>
          rw [h2] at h
          simp only [consRes] at h
          cases h
          have hcons : ∀ vs : List Val, (∀ x ∈ vs, term x = false) → ∀ x ∈ v :: vs, term x = false := by
            intro vs hn x hx
            simp only [List.mem_cons] at hx
            rcases hx with rfl | hx
            · exact ht
            · exact hn x hx
          rcases ih _ _ h2 with ⟨vs, ⟨p', hr, hn, hrd⟩, hl⟩ | ⟨he, vs, p', hr, hn, hl⟩
          · exact .inl ⟨v :: vs, ⟨p', .cons h1 hr, hcons vs hn, hrd⟩, by simp only [List.length_cons]; omega⟩
          · exact .inr ⟨he, v :: vs, p', .cons h1 hr, hcons vs hn, by simp only [List.length_cons]; omega⟩

/-- the loop fails with `er` exactly when an element read fails with `er` before a terminator is found (within the
    bound), or — `er = EOFError` — when the bound is exhausted by elements none of which is a terminator -/
theorem loop_err_iff (f p : Nat) (er : Err) :
    loop rd term f p = .error er ↔
      (∃ vs, FailsAt rd term p vs er ∧ vs.length < f) ∨ (er = .eof ∧ RunsOn rd term p f) := by
  constructor
  · exact fails_of_loop f p er
  · rintro (⟨vs, ⟨p', hr, hn, hrd⟩, hl⟩ | ⟨rfl, vs, p', hr, hn, rfl⟩)
    · exact loop_of_fails vs p f p' er hr hn hrd hl
    · exact loop_of_runs vs p p' hr hn

/-! ### Progress bounds the number of elements by the input length -/

theorem reads_progress {L : Nat}
    (hp : ∀ p v q, rd p = .ok (v, q) → term v = false → p < q ∧ p < L) :
    ∀ (vs : List Val) (p p' : Nat), Reads rd p vs p' → (∀ v ∈ vs, term v = false) →
      p + vs.length ≤ p' ∧ vs.length ≤ L - p := by
  intro vs
  induction vs with
  | nil => intro p p' hr _; cases reads_nil hr; simp
  | cons v vs ih =>
    intro p p' hr hn
    cases hr with
    | cons h1 h2 =>
      obtain ⟨ha, hb⟩ := hp _ _ _ h1 (hn v (List.mem_cons_self ..))
      obtain ⟨hc, hd⟩ := ih _ _ h2 (fun x hx => hn x (List.mem_cons_of_mem _ hx))
      simp only [List.length_cons]
      omega

/-! ### The model's loops are the abstract loop -/

theorem readUntilFalsy_eq (cfg : Cfg) (t : Ty) (ctx : Ctx) (d : Bytes) : ∀ (f p : Nat),
    readUntilFalsy cfg t ctx d f p =
      (loop (read cfg t ctx d) (fun v => !v.truthy) f p).map (fun r => (Vals.ofList r.1, r.2)) := by
  intro f
  induction f with
  | zero => intro p; rw [readUntilFalsy]; rfl
  | succ f ih =>
    intro p
    rw [readUntilFalsy]
    cases h1 : read cfg t ctx d p with
    | error e => rw [loop_err h1]; rfl
    | ok r =>
      obtain ⟨v, q⟩ := r
      simp only []
      cases ht : v.truthy with
      | false =>
        rw [loop_term h1 (by simp [ht])]
        simp [Except.map, Vals.ofList]
      | true =>
        rw [loop_step h1 (by simp [ht]), ih]
        cases loop (read cfg t ctx d) (fun v => !v.truthy) f q with
        | error e => simp [Except.map, consRes]
        | ok r => simp [Except.map, Vals.ofList, consRes]

theorem elemRead_sc (cfg : Cfg) (s : Scalar) (a : Nat) (ctx : Ctx) (d : Bytes) (p : Nat) (hs : s ≠ .wchar) :
    elemRead cfg (.sc s a) ctx d p = readScalar cfg s d p := by
  cases s <;> first | (exact absurd rfl hs) | (simp only [elemRead, read_sc])

theorem elemRead_wchar (cfg : Cfg) (a : Nat) (ctx : Ctx) (d : Bytes) (p : Nat) :
    elemRead cfg (.sc .wchar a) ctx d p =
      match readExact d p 2 with
      | .ok (bs, q) => .ok (.bytes bs, q)
      | .error er => .error er := rfl

theorem map_acc_nil (acc : List Val) (q : Nat) :
    (Except.ok ([], q) : Except Err (List Val × Nat)).map (fun r => (acc.reverse ++ r.1, r.2)) = .ok (acc.reverse, q) := by
  simp [Except.map]

theorem map_acc_cons (acc : List Val) (v : Val) (x : Except Err (List Val × Nat)) :
    (consRes v x).map (fun r => (acc.reverse ++ r.1, r.2)) =
    x.map (fun r => ((v :: acc).reverse ++ r.1, r.2)) := by
  cases x with
  | error e => rfl
  | ok r => simp [Except.map, consRes]

/-- the zero test of the model's `readScalar0` on a parsed value -/
def zeroTest (s : Scalar) (v : Val) : Bool :=
  match v with
  | .int i => decide (i = 0)
  | .flt b => (match s with | .pflt n => isFloatZero n b | _ => decide (b = 0))
  | _ => false

/-- the scalar kinds whose `_read_0` is `while (v := cls._read(...)) != 0` on the parsed value -/
theorem readScalar0_succ_val (cfg : Cfg) (s : Scalar) (d : Bytes) (f p : Nat) (acc : List Val)
    (h1 : s ≠ .void) (h2 : s ≠ .char) (h3 : s ≠ .wchar) :
    readScalar0 cfg s d (f + 1) p acc =
      match readScalar cfg s d p with
      | .error e => .error e
      | .ok (v, q) =>
        if zeroTest s v = true then .ok (acc.reverse, q) else readScalar0 cfg s d f q (v :: acc) := by
  cases s <;> first | (exact absurd rfl h1) | (exact absurd rfl h2) | (exact absurd rfl h3) | (
    simp only [readScalar0, zeroTest]
    generalize readScalar _ _ _ _ = x
    cases x with
    | error e => rfl
    | ok r => obtain ⟨v, q⟩ := r; cases v <;> rfl)

theorem readScalar_int_shape (cfg : Cfg) (s : Scalar) (d : Bytes) (p : Nat) (v : Val) (q : Nat)
    (hs : s.isInt = true ∨ ∃ sg, s = .leb sg) (h : readScalar cfg s d p = .ok (v, q)) : ∃ i, v = .int i := by
  cases s with
  | pint n sg =>
    simp only [readScalar, bind, pure] at h
    obtain ⟨r, _, h2⟩ := bind_ok h
    cases h2; exact ⟨_, rfl⟩
  | aint n sg =>
    simp only [readScalar, bind, pure] at h
    obtain ⟨r, _, h2⟩ := bind_ok h
    cases h2; exact ⟨_, rfl⟩
  | leb sg =>
    simp only [readScalar] at h
    split at h
    · cases h; exact ⟨_, rfl⟩
    · cases h
  | pflt n => rcases hs with hs | ⟨_, hs⟩ <;> simp [Scalar.isInt] at hs
  | char => rcases hs with hs | ⟨_, hs⟩ <;> simp [Scalar.isInt] at hs
  | wchar => rcases hs with hs | ⟨_, hs⟩ <;> simp [Scalar.isInt] at hs
  | void => rcases hs with hs | ⟨_, hs⟩ <;> simp [Scalar.isInt] at hs

theorem readScalar_flt_shape (cfg : Cfg) (n : Nat) (d : Bytes) (p : Nat) (v : Val) (q : Nat)
    (h : readScalar cfg (.pflt n) d p = .ok (v, q)) : ∃ b, v = .flt b := by
  simp only [readScalar, bind, pure] at h
  obtain ⟨r, _, h2⟩ := bind_ok h
  cases h2; exact ⟨_, rfl⟩

theorem readScalar0_eq (cfg : Cfg) (s : Scalar) (a : Nat) (ctx : Ctx) (d : Bytes) (hs : s ≠ .void) :
    ∀ (f p : Nat) (acc : List Val),
      readScalar0 cfg s d f p acc =
        (loop (elemRead cfg (.sc s a) ctx d) (isTerminator (.sc s a)) f p).map (fun r => (acc.reverse ++ r.1, r.2)) := by
  intro f
  induction f with
  | zero => intro p acc; simp only [readScalar0, loop]; rfl
  | succ f ih =>
    intro p acc
    by_cases hc : s = .char
    · subst hc
      simp only [readScalar0]
      cases h1 : readExact d p 1 with
      | error e =>
        rw [loop_err (by rw [elemRead_sc _ _ _ _ _ _ (by simp), readScalar, h1]; rfl)]; rfl
      | ok r =>
        obtain ⟨bs, q⟩ := r
        have hr : elemRead cfg (.sc .char a) ctx d p = .ok (.bytes bs, q) := by
          rw [elemRead_sc _ _ _ _ _ _ (by simp), readScalar, h1]; rfl
        simp only []
        by_cases hz : bs = [0]
        · rw [if_pos hz, loop_term hr (by simp [isTerminator, hz]), map_acc_nil]
        · rw [if_neg hz, loop_step hr (by simp [isTerminator, hz]), map_acc_cons, ih]
    by_cases hw : s = .wchar
    · subst hw
      simp only [readScalar0]
      cases h1 : readExact d p 2 with
      | error e =>
        rw [loop_err (by rw [elemRead_wchar, h1])]; rfl
      | ok r =>
        obtain ⟨bs, q⟩ := r
        have hr : elemRead cfg (.sc .wchar a) ctx d p = .ok (.bytes bs, q) := by
          rw [elemRead_wchar, h1]
        simp only []
        by_cases hz : bs = [0, 0]
        · rw [if_pos hz, loop_term hr (by simp [isTerminator, hz]), map_acc_nil]
        · rw [if_neg hz, loop_step hr (by simp [isTerminator, hz]), map_acc_cons, ih]
    rw [readScalar0_succ_val cfg s d f p acc hs hc hw]
    cases h1 : readScalar cfg s d p with
    | error e => rw [loop_err (by rw [elemRead_sc _ _ _ _ _ _ hw, h1])]; rfl
    | ok r =>
      obtain ⟨v, q⟩ := r
      have hr : elemRead cfg (.sc s a) ctx d p = .ok (v, q) := by rw [elemRead_sc _ _ _ _ _ _ hw, h1]
      simp only []
      -- the model's zero test is the specification's terminator test on the values this scalar produces
      have hz : zeroTest s v = isTerminator (.sc s a) v := by
        cases s with
        | void => exact absurd rfl hs
        | char => exact absurd rfl hc
        | wchar => exact absurd rfl hw
        | pint n sg =>
          obtain ⟨i, rfl⟩ := readScalar_int_shape cfg _ d p v q (.inl rfl) h1
          simp only [isTerminator, zeroTest]
          by_cases h0 : i = 0 <;> simp [h0]
        | aint n sg =>
          obtain ⟨i, rfl⟩ := readScalar_int_shape cfg _ d p v q (.inl rfl) h1
          simp only [isTerminator, zeroTest]
          by_cases h0 : i = 0 <;> simp [h0]
        | leb sg =>
          obtain ⟨i, rfl⟩ := readScalar_int_shape cfg _ d p v q (.inr ⟨_, rfl⟩) h1
          simp only [isTerminator, zeroTest]
          by_cases h0 : i = 0 <;> simp [h0]
        | pflt n =>
          obtain ⟨b, rfl⟩ := readScalar_flt_shape cfg n d p v q h1
          simp only [isTerminator, isFloatZero, zeroTest]
          by_cases h0 : b = 0 <;> by_cases h2 : b = 2 ^ (8 * n - 1) <;> simp [h0, h2]
      rw [hz]
      cases ht : isTerminator (.sc s a) v with
      | true => rw [if_pos rfl, loop_term hr ht, map_acc_nil]
      | false => rw [if_neg (by simp), loop_step hr ht, map_acc_cons, ih]

theorem joinBytes_eq_rawBytes : ∀ vs : List Val, joinBytes vs = rawBytes vs := by
  intro vs
  induction vs with
  | nil => rfl
  | cons v r ih => cases v <;> simp only [joinBytes, rawBytes, ih]

/-- package the result of the loop as the array value -/
def packRes (cfg : Cfg) (e : Ty) : Except Err (List Val × Nat) → Except Err (Val × Nat)
  | .error er => .error er
  | .ok (vs, q) =>
    match packElems cfg e vs with
    | .ok v => .ok (v, q)
    | .error er => .error er

theorem readScalarNullTerm_eq (cfg : Cfg) (s : Scalar) (a : Nat) (ctx : Ctx) (d : Bytes) (pos : Nat) (hs : s ≠ .void) :
    readScalarNullTerm cfg s d pos =
      packRes cfg (.sc s a) (loop (elemRead cfg (.sc s a) ctx d) (isTerminator (.sc s a)) (d.length - pos + 2) pos) := by
  unfold readScalarNullTerm
  rw [readScalar0_eq cfg s a ctx d hs]
  cases loop (elemRead cfg (.sc s a) ctx d) (isTerminator (.sc s a)) (d.length - pos + 2) pos with
  | error e => rfl
  | ok r =>
    obtain ⟨vs, q⟩ := r
    cases s with
    | void => exact absurd rfl hs
    | char => simp [Except.map, packRes, packElems, joinBytes_eq_rawBytes]
    | wchar =>
      simp only [Except.map, packRes, packElems, joinBytes_eq_rawBytes, List.reverse_nil, List.nil_append]
      cases decodeWchar cfg.endian (rawBytes vs) <;> rfl
    | _ => simp [Except.map, packRes, packElems]

theorem loop_map {rd rd' : Nat → Except Err (Val × Nat)} {term term' : Val → Bool} (g : Val → Val)
    (h1 : ∀ p, rd' p = match rd p with | .error e => .error e | .ok (v, q) => .ok (g v, q))
    (h2 : ∀ p v q, rd p = .ok (v, q) → term' (g v) = term v) :
    ∀ f p, loop rd' term' f p = (loop rd term f p).map (fun r => (r.1.map g, r.2)) := by
  intro f
  induction f with
  | zero => intro p; rfl
  | succ f ih =>
    intro p
    cases hr : rd p with
    | error e =>
      rw [loop_err hr, loop_err (by rw [h1, hr])]; rfl
    | ok r =>
      obtain ⟨v, q⟩ := r
      have hr' : rd' p = .ok (g v, q) := by rw [h1, hr]
      cases ht : term v with
      | true =>
        rw [loop_term hr ht, loop_term hr' (by rw [h2 _ _ _ hr, ht])]; rfl
      | false =>
        rw [loop_step hr ht, loop_step hr' (by rw [h2 _ _ _ hr, ht]), ih]
        cases loop rd term f q with
        | error e => rfl
        | ok r => rfl

/-- `cls(value)` of `list(map(cls, ...))` -/
def toEnum : Val → Val
  | .int v => .enum v
  | x => x

theorem mapEnum_ofList : ∀ vs : List Val, (Vals.ofList vs).mapEnum = Vals.ofList (vs.map toEnum) := by
  intro vs
  induction vs with
  | nil => rfl
  | cons v r ih => cases v <;> simp only [Vals.ofList, Vals.mapEnum, List.map_cons, toEnum, ih]

theorem isInt_cases {b : Scalar} (h : Scalar.isInt b = true) : (∃ n sg, b = .pint n sg) ∨ (∃ n sg, b = .aint n sg) := by
  cases b <;> simp [Scalar.isInt] at h
  · exact .inl ⟨_, _, rfl⟩
  · exact .inr ⟨_, _, rfl⟩

theorem isInt_ne {b : Scalar} (h : Scalar.isInt b = true) : b ≠ .void ∧ b ≠ .wchar ∧ b ≠ .char := by
  cases b <;> simp [Scalar.isInt] at h <;> simp

theorem elemRead_enum (cfg : Cfg) (b : Scalar) (a : Nat) (fl : Bool) (ctx : Ctx) (d : Bytes) (p : Nat) :
    elemRead cfg (.enum b a fl) ctx d p = wrapInt .enum (readScalar cfg b d p) := by
  simp only [elemRead, read_enum]

theorem read0_enum_eq (cfg : Cfg) (b : Scalar) (a : Nat) (fl : Bool) (ctx : Ctx) (d : Bytes) (pos : Nat)
    (hb : Scalar.isInt b = true) :
    read0 cfg (.enum b a fl) ctx d pos =
      packRes cfg (.enum b a fl)
        (loop (elemRead cfg (.enum b a fl) ctx d) (isTerminator (.enum b a fl)) (d.length - pos + 2) pos) := by
  obtain ⟨hv, hw, hc⟩ := isInt_ne hb
  have hm := loop_map (rd := elemRead cfg (.sc b a) ctx d) (term := isTerminator (.sc b a))
    (rd' := elemRead cfg (.enum b a fl) ctx d) (term' := isTerminator (.enum b a fl)) toEnum
    (by
      intro p
      rw [elemRead_enum, elemRead_sc _ _ _ _ _ _ hw]
      cases h : readScalar cfg b d p with
      | error e => rfl
      | ok r =>
        obtain ⟨v, q⟩ := r
        obtain ⟨i, rfl⟩ := readScalar_int_shape cfg b d p v q (.inl hb) h
        rfl)
    (by
      intro p v q h
      rw [elemRead_sc _ _ _ _ _ _ hw] at h
      obtain ⟨i, rfl⟩ := readScalar_int_shape cfg b d p v q (.inl hb) h
      rcases isInt_cases hb with ⟨n, sg, rfl⟩ | ⟨n, sg, rfl⟩ <;> rfl)
  rw [read0.eq_2, readScalarNullTerm_eq cfg b a ctx d pos hv, hm]
  cases loop (elemRead cfg (.sc b a) ctx d) (isTerminator (.sc b a)) (d.length - pos + 2) pos with
  | error e => rfl
  | ok r =>
    obtain ⟨vs, q⟩ := r
    have : packElems cfg (.sc b a) vs = .ok (.list (Vals.ofList vs)) := by
      rcases isInt_cases hb with ⟨n, sg, rfl⟩ | ⟨n, sg, rfl⟩ <;> rfl
    simp only [packRes, this, Except.map]
    simp only [packElems, mapEnum_ofList]

theorem packRes_list (cfg : Cfg) (e : Ty) (h1 : ∀ a, e ≠ .sc .char a) (h2 : ∀ a, e ≠ .sc .wchar a)
    (x : Except Err (List Val × Nat)) :
    packRes cfg e x = x.map (fun r => (Val.list (Vals.ofList r.1), r.2)) := by
  cases x with
  | error er => rfl
  | ok r =>
    obtain ⟨vs, q⟩ := r
    have : packElems cfg e vs = .ok (.list (Vals.ofList vs)) := by
      unfold packElems
      split
      · exact absurd rfl (h1 _)
      · exact absurd rfl (h2 _)
      · rfl
    simp only [packRes, this, Except.map]

/-- **the model's `read0` is the abstract loop**, for every element type with a `_read_0` loop -/
theorem read0_eq_loop (cfg : Cfg) (e : Ty) (ctx : Ctx) (d : Bytes) (pos : Nat) (he : nullLoopElem e = true) :
    read0 cfg e ctx d pos =
      packRes cfg e (loop (elemRead cfg e ctx d) (isTerminator e) (d.length - pos + 2) pos) := by
  cases e with
  | sc s a =>
    rw [read0.eq_1]
    exact readScalarNullTerm_eq cfg s a ctx d pos (by intro h; subst h; simp [nullLoopElem] at he)
  | enum b a fl => exact read0_enum_eq cfg b a fl ctx d pos (by simpa [nullLoopElem] using he)
  | struct al fs =>
    rw [read0.eq_3, readUntilFalsy_eq, packRes_list cfg _ (by intros; intro h; cases h) (by intros; intro h; cases h)]
    have : isTerminator (.struct al fs) = fun v => !v.truthy := by funext v; cases v <;> rfl
    rw [this]
    have : elemRead cfg (.struct al fs) ctx d = read cfg (.struct al fs) ctx d := by funext p; rfl
    rw [this]
    cases loop (read cfg (.struct al fs) ctx d) (fun v => !v.truthy) (d.length - pos + 2) pos <;> rfl
  | union al fs =>
    rw [read0.eq_4, readUntilFalsy_eq, packRes_list cfg _ (by intros; intro h; cases h) (by intros; intro h; cases h)]
    have : isTerminator (.union al fs) = fun v => !v.truthy := by funext v; cases v <;> rfl
    rw [this]
    have : elemRead cfg (.union al fs) ctx d = read cfg (.union al fs) ctx d := by funext p; rfl
    rw [this]
    cases loop (read cfg (.union al fs) ctx d) (fun v => !v.truthy) (d.length - pos + 2) pos <;> rfl
  | ptr t => simp [nullLoopElem] at he
  | arr e' l => simp [nullLoopElem] at he

/-! ### Progress of scalar and enum elements -/

theorem decodeNat_nil (e : Endian) : decodeNat e [] = 0 := by cases e <;> rfl

theorem decodeInt_nil (e : Endian) (sg : Bool) : decodeInt e sg [] = 0 := by
  simp [decodeInt, decodeNat_nil]

theorem readExact_adv {d : Bytes} {p n : Nat} {bs : Bytes} {q : Nat} (h : readExact d p n = .ok (bs, q)) :
    q = p + n ∧ bs.length = n ∧ (0 < n → p < d.length) := by
  obtain ⟨h1, h2⟩ := readExact_ok_le h
  cases h2
  refine ⟨rfl, ?_, fun hn => by omega⟩
  rw [sread_length]; omega

/-- a scalar read never moves backwards; if it consumed something it started inside the input; if it consumed nothing the
    value is a zero (`pint 0`/`aint 0`/`pflt 0` of width 0, or `void`) -/
theorem readScalar_adv (cfg : Cfg) (s : Scalar) (d : Bytes) (p : Nat) (v : Val) (q : Nat)
    (h : readScalar cfg s d p = .ok (v, q)) :
    p ≤ q ∧ (p < q → p < d.length) ∧
      (q = p → v.truthy = false ∧ (s = .void ∨ ∀ a, isTerminator (.sc s a) v = true)) := by
  cases s with
  | pint n sg =>
    simp only [readScalar, bind, pure] at h
    obtain ⟨⟨bs, q'⟩, h1, h2⟩ := bind_ok h
    cases h2
    obtain ⟨rfl, hl, hp⟩ := readExact_adv h1
    refine ⟨by omega, fun hq => hp (by omega), fun hq => ?_⟩
    have : bs = [] := List.eq_nil_of_length_eq_zero (by omega)
    rw [this, decodeInt_nil]
    exact ⟨by simp [Val.truthy], .inr fun a => rfl⟩
  | aint n sg =>
    simp only [readScalar, bind, pure] at h
    obtain ⟨⟨bs, q'⟩, h1, h2⟩ := bind_ok h
    cases h2
    obtain ⟨rfl, hl, hp⟩ := readExact_adv h1
    refine ⟨by omega, fun hq => hp (by omega), fun hq => ?_⟩
    have : bs = [] := List.eq_nil_of_length_eq_zero (by omega)
    rw [this, decodeInt_nil]
    exact ⟨by simp [Val.truthy], .inr fun a => rfl⟩
  | pflt n =>
    simp only [readScalar, bind, pure] at h
    obtain ⟨⟨bs, q'⟩, h1, h2⟩ := bind_ok h
    cases h2
    obtain ⟨rfl, hl, hp⟩ := readExact_adv h1
    refine ⟨by omega, fun hq => hp (by omega), fun hq => ?_⟩
    have : bs = [] := List.eq_nil_of_length_eq_zero (by omega)
    rw [this, decodeNat_nil]
    exact ⟨by simp [Val.truthy], .inr fun a => rfl⟩
  | char =>
    simp only [readScalar, bind, pure] at h
    obtain ⟨⟨bs, q'⟩, h1, h2⟩ := bind_ok h
    cases h2
    obtain ⟨rfl, hl, hp⟩ := readExact_adv h1
    exact ⟨by omega, fun hq => hp (by omega), fun hq => by omega⟩
  | wchar =>
    simp only [readScalar, bind, pure] at h
    obtain ⟨⟨bs, q'⟩, h1, h2⟩ := bind_ok h
    obtain ⟨w, _, h4⟩ := bind_ok h2
    cases h4
    obtain ⟨rfl, hl, hp⟩ := readExact_adv h1
    exact ⟨by omega, fun hq => hp (by omega), fun hq => by omega⟩
  | leb sg =>
    simp only [readScalar] at h
    split at h
    · rename_i v' rest hr
      cases h
      have := (lebRead_append sg _ [] _ _ hr).2
      rw [List.length_drop] at this
      exact ⟨by omega, fun _ => by omega, fun hq => by omega⟩
    · cases h
  | void =>
    simp only [readScalar] at h
    cases h
    exact ⟨Nat.le_refl _, fun hq => by omega, fun _ => ⟨by simp [Val.truthy], .inl rfl⟩⟩

theorem progress_scalar (cfg : Cfg) (e : Ty) (ctx : Ctx) (d : Bytes) (he : scalarElem e = true) :
    Progress cfg e ctx d := by
  intro p v q h ht
  cases e with
  | sc s a =>
    by_cases hw : s = .wchar
    · subst hw
      rw [elemRead_wchar] at h
      cases h1 : readExact d p 2 with
      | error er => rw [h1] at h; cases h
      | ok r =>
        obtain ⟨bs, q'⟩ := r
        rw [h1] at h
        cases h
        obtain ⟨rfl, _, hp⟩ := readExact_adv h1
        exact ⟨by omega, hp (by omega)⟩
    · rw [elemRead_sc _ _ _ _ _ _ hw] at h
      obtain ⟨h1, h2, h3⟩ := readScalar_adv cfg s d p v q h
      have hne : q ≠ p := by
        intro hq
        rcases (h3 hq).2 with rfl | h4
        · simp [scalarElem] at he
        · rw [h4 a] at ht; cases ht
      exact ⟨by omega, h2 (by omega)⟩
  | enum b a fl =>
    have hb : Scalar.isInt b = true := by simpa [scalarElem] using he
    rw [elemRead_enum] at h
    obtain ⟨i, q', h1, h2⟩ := wrapInt_ok h
    cases h2
    obtain ⟨h3, h4, h5⟩ := readScalar_adv cfg b d p _ _ h1
    have hne : q ≠ p := by
      intro hq
      have := (h5 hq).1
      simp only [Val.truthy, decide_eq_false_iff_not, ne_eq, Decidable.not_not] at this
      subst this
      simp [isTerminator] at ht
    exact ⟨by omega, h4 (by omega)⟩
  | _ => simp [scalarElem] at he

/-! ### Writing -/

theorem writeN_app (cfg : Cfg) (t : Ty) : ∀ (l m : List Val) (pos : Nat),
    writeN cfg t (Vals.ofList (l ++ m)) pos =
      (writeN cfg t (Vals.ofList l) pos).bind fun a =>
        (writeN cfg t (Vals.ofList m) (pos + a.length)).bind fun b => .ok (a ++ b) := by
  intro l
  induction l with
  | nil =>
    intro m pos
    simp only [List.nil_append, Vals.ofList]
    rw [writeN_nil]
    simp only [Except.bind, List.length_nil, Nat.add_zero, List.nil_append]
    cases writeN cfg t (Vals.ofList m) pos <;> rfl
  | cons v l ih =>
    intro m pos
    simp only [List.cons_append, Vals.ofList]
    rw [writeN_cons, writeN_cons]
    cases write cfg t v pos with
    | error e => rfl
    | ok a =>
      simp only [Except.bind]
      rw [ih]
      cases writeN cfg t (Vals.ofList l) (pos + a.length) with
      | error e => rfl
      | ok b =>
        simp only [Except.bind, List.length_append, Nat.add_assoc]
        cases writeN cfg t (Vals.ofList m) (pos + (a.length + b.length)) with
        | error e => rfl
        | ok c => simp only [List.append_assoc]

theorem writeN_single (cfg : Cfg) (t : Ty) (v : Val) (pos : Nat) :
    writeN cfg t (Vals.ofList [v]) pos = write cfg t v pos := by
  simp only [Vals.ofList]
  rw [writeN_cons]
  cases write cfg t v pos with
  | error e => rfl
  | ok a => simp only [Except.bind]; rw [writeN_nil]; simp

/-- `_write_0`: the elements, then the default value of the element type as terminator -/
theorem write_null_list (cfg : Cfg) (e : Ty) (vs : List Val) (pos : Nat) :
    write cfg (.arr e .nullTerm) (.list (Vals.ofList vs)) pos =
      (writeN cfg e (Vals.ofList vs) pos).bind fun body =>
        (write cfg e (e.default cfg) (pos + body.length)).bind fun t => .ok (body ++ t) := by
  rw [write_arr_null_list, ofList_snoc, writeN_app]
  simp only [writeN_single]

/-- the elements written by `writeN` are read back one after the other, given that each of them round-trips -/
theorem reads_of_writeN (cfg : Cfg) (e : Ty) (ctx : Ctx)
    : ∀ (vs : List Val) (pos : Nat) (body : Bytes), writeN cfg e (Vals.ofList vs) pos = .ok body →
      (∀ v ∈ vs, ∀ p b, write cfg e v p = .ok b → ∀ pre' post' : Bytes, pre'.length = p →
        read cfg e ctx (pre' ++ b ++ post') p = .ok (v, p + b.length)) →
      ∀ pre post : Bytes, pre.length = pos →
        Reads (read cfg e ctx (pre ++ body ++ post)) pos vs (pos + body.length) := by
  intro vs
  induction vs with
  | nil =>
    intro pos body hw _ pre post _
    simp only [Vals.ofList] at hw
    rw [writeN_nil] at hw
    cases hw
    exact .nil
  | cons v vs ih =>
    intro pos body hw hrt pre post hpre
    simp only [Vals.ofList] at hw
    rw [writeN_cons] at hw
    obtain ⟨a, h1, h2⟩ := bind_ok hw
    obtain ⟨b, h3, h4⟩ := bind_ok h2
    cases h4
    have hr := hrt v (List.mem_cons_self ..) pos a h1 pre (b ++ post) hpre
    have hrest := ih (pos + a.length) b h3 (fun x hx => hrt x (List.mem_cons_of_mem _ hx)) (pre ++ a) post
      (by rw [List.length_append, hpre])
    have e1 : pre ++ (a ++ b) ++ post = pre ++ a ++ (b ++ post) := by simp only [List.append_assoc]
    have e2 : pre ++ (a ++ b) ++ post = pre ++ a ++ b ++ post := by simp only [List.append_assoc]
    refine .cons (p' := pos + a.length) (by rw [e1]; exact hr) ?_
    rw [e2, List.length_append, ← Nat.add_assoc]
    exact hrest

/-! ### Errors of scalar elements -/

theorem nullLoopElem_of_scalar {e : Ty} (h : scalarElem e = true) : nullLoopElem e = true := by
  cases e <;> simp_all [scalarElem, nullLoopElem]

theorem readExact_error_eof {d : Bytes} {p n : Nat} {er : Err} (h : readExact d p n = .error er) : er = .eof :=
  (readExact_err h).1

theorem readScalar_err (cfg : Cfg) (s : Scalar) (d : Bytes) (p : Nat) (er : Err) (hw : s ≠ .wchar)
    (h : readScalar cfg s d p = .error er) : er = .eof := by
  cases s with
  | wchar => exact absurd rfl hw
  | void => simp [readScalar] at h
  | leb sg =>
    simp only [readScalar] at h
    split at h
    · cases h
    · rename_i e he
      cases h
      unfold lebRead at he
      split at he
      · cases he; rfl
      · split at he <;> cases he
  | pint n sg =>
    simp only [readScalar, bind, pure] at h
    cases h1 : readExact d p n with
    | error e => rw [h1] at h; cases h; exact readExact_error_eof h1
    | ok r => rw [h1] at h; cases h
  | aint n sg =>
    simp only [readScalar, bind, pure] at h
    cases h1 : readExact d p n with
    | error e => rw [h1] at h; cases h; exact readExact_error_eof h1
    | ok r => rw [h1] at h; cases h
  | pflt n =>
    simp only [readScalar, bind, pure] at h
    cases h1 : readExact d p n with
    | error e => rw [h1] at h; cases h; exact readExact_error_eof h1
    | ok r => rw [h1] at h; cases h
  | char =>
    simp only [readScalar, bind, pure] at h
    cases h1 : readExact d p 1 with
    | error e => rw [h1] at h; cases h; exact readExact_error_eof h1
    | ok r => rw [h1] at h; cases h

/-- reading a scalar or enum element fails only with EOFError -/
theorem elemRead_scalar_err (cfg : Cfg) (e : Ty) (ctx : Ctx) (d : Bytes) (p : Nat) (er : Err) (he : scalarElem e = true)
    (h : elemRead cfg e ctx d p = .error er) : er = .eof := by
  cases e with
  | sc s a =>
    by_cases hw : s = .wchar
    · subst hw
      rw [elemRead_wchar] at h
      cases h1 : readExact d p 2 with
      | error e => rw [h1] at h; cases h; exact readExact_error_eof h1
      | ok r => rw [h1] at h; cases h
    · rw [elemRead_sc _ _ _ _ _ _ hw] at h
      exact readScalar_err cfg s d p er hw h
  | enum b a fl =>
    have hb : Scalar.isInt b = true := by simpa [scalarElem] using he
    rw [elemRead_enum] at h
    cases h1 : readScalar cfg b d p with
    | error e =>
      rw [h1] at h
      cases h
      exact readScalar_err cfg b d p _ (isInt_ne hb).2.1 h1
    | ok r =>
      obtain ⟨v, q⟩ := r
      obtain ⟨i, rfl⟩ := readScalar_int_shape cfg b d p v q (.inl hb) h1
      rw [h1] at h
      cases h
  | _ => simp [scalarElem] at he

/-- packaging fails only for `wchar` (UnicodeDecodeError) -/
theorem packElems_err (cfg : Cfg) (e : Ty) (vs : List Val) (er : Err) (h : packElems cfg e vs = .error er) :
    (∃ a, e = .sc .wchar a) ∧ er = .unicode := by
  unfold packElems at h
  split at h
  · cases h
  · refine ⟨⟨_, rfl⟩, ?_⟩
    unfold decodeWchar at h
    simp only [] at h
    split at h
    · cases h; rfl
    · split at h <;> cases h
      rfl
  · cases h

/-! ### Values -/

theorem anyTruthy_false : ∀ vs : Vals, vs.anyTruthy = false ↔ ∀ v ∈ vs.toList, v.truthy = false := by
  intro vs
  induction vs using Vals.rec (motive_1 := fun _ => True) with
  | nil => simp [Vals.anyTruthy, Vals.toList]
  | cons v r _ ih => simp [Vals.anyTruthy, Vals.toList, ih]
  | _ => trivial

theorem vals_ofList_toList : ∀ vs : Vals, Vals.ofList vs.toList = vs := by
  intro vs
  induction vs using Vals.rec (motive_1 := fun _ => True) with
  | nil => rfl
  | cons v r _ ih => simp only [Vals.toList, Vals.ofList, ih]
  | _ => trivial

end Cstruct.C07.Lemmas
