/-
  C13, definition parser — helper lemmas (5): the first character of a lexeme, the tokens the alternation `matchTok`
  produces at the lexemes that do not swallow blanks, and what happens at the separator behind them.
-/
import Proofs.Lemmas.C13ParseD

namespace Cstruct.DefParser.C13
open Cstruct.DefParser

/-- what the scanner needs to know about the first character of a lexeme -/
structure FirstOK (x : Lexeme) (c : Char) : Prop where
  nblank : isWsA c = false
  ncolon : c ≠ ':'
  ncomma : c ≠ ','
  nlbr : c ≠ '['
  nsemi : x ≠ .semi → c ≠ ';'
  word : isWord c = true → x.startsWord = true

theorem word_ne {c : Char} (h : isWord c = true) (d : Char) (hd : isWord d = false) : c ≠ d := fun e => by
  subst e; rw [h] at hd; exact absurd hd (by simp)

theorem firstOK_word (x : Lexeme) (c : Char) (h : isWord c = true) (hs : x.startsWord = true) : FirstOK x c :=
  ⟨isWsA_of_word c h, word_ne h _ (by decide), word_ne h _ (by decide), word_ne h _ (by decide),
   fun _ => word_ne h _ (by decide), fun _ => hs⟩

theorem text_first (x : Lexeme) (hwf : x.wf = true) (hd : x.isDefs = false) : ∃ c t, x.text = c :: t ∧ FirstOK x c := by
  cases x with
  | typedef => exact ⟨'t', _, rfl, firstOK_word _ _ (by decide) rfl⟩
  | struct u => cases u <;> exact ⟨_, _, rfl, firstOK_word _ _ (by decide) rfl⟩
  | ident v =>
    cases v with
    | nil => simp [Lexeme.wf] at hwf
    | cons c v =>
      simp only [Lexeme.wf, Bool.and_eq_true] at hwf
      exact ⟨c, v, rfl, firstOK_word _ _ (idStart_word c hwf.1.1) rfl⟩
  | lbrace => exact ⟨'{', [], rfl, ⟨by decide, by decide, by decide, by decide, fun _ => by decide, fun h => absurd h (by decide)⟩⟩
  | rbrace => exact ⟨'}', [], rfl, ⟨by decide, by decide, by decide, by decide, fun _ => by decide, fun h => absurd h (by decide)⟩⟩
  | semi => exact ⟨';', [], rfl, ⟨by decide, by decide, by decide, by decide, fun h => absurd rfl h, fun h => absurd h (by decide)⟩⟩
  | name pre w bits cnt =>
    simp only [Lexeme.wf, Bool.and_eq_true, isWordStr] at hwf
    obtain ⟨⟨⟨⟨hpre, -⟩, hwne, hw⟩, -⟩, -⟩ := hwf
    cases pre with
    | nil =>
      cases w with
      | nil => simp at hwne
      | cons c w =>
        simp only [List.all_cons, Bool.and_eq_true] at hw
        exact ⟨c, _, rfl, firstOK_word _ _ hw.1 rfl⟩
    | cons p pre =>
      simp only [preOK, Bool.and_eq_true, beq_iff_eq] at hpre
      obtain ⟨rfl, -⟩ := hpre
      exact ⟨'*', _, rfl, ⟨by decide, by decide, by decide, by decide, fun _ => by decide, fun h => absurd h (by decide)⟩⟩
  | defs lead first more => simp [Lexeme.isDefs] at hd
  | enum fl ws1 nm ws2 ty vals =>
    cases fl
    · exact ⟨'e', _, rfl, firstOK_word _ _ (by decide) rfl⟩
    · exact ⟨'f', _, rfl, firstOK_word _ _ (by decide) rfl⟩
  | define ws1 nm ws2 val => exact ⟨'#', _, rfl,
      ⟨by decide, by decide, by decide, by decide, fun _ => by decide, fun h => absurd h (by decide)⟩⟩
  | config vals => exact ⟨'#', _, rfl,
      ⟨by decide, by decide, by decide, by decide, fun _ => by decide, fun h => absurd h (by decide)⟩⟩

/-- the pieces of `adm` -/
theorem adm_cons (ac : Bool) (x : Lexeme) (s : List Char) (rest : List (Lexeme × List Char)) (h : adm ac ((x, s) :: rest) = true) :
    x.wf = true ∧ blank s = true ∧ (x.isDefs = true → ac = true) ∧ sepOK x s (rest.head?.map (·.1)) = true ∧
    adm (closes x s) rest = true := by
  simp only [adm, Bool.and_eq_true, Bool.or_eq_true, Bool.not_eq_true'] at h
  obtain ⟨⟨⟨⟨h1, h2⟩, h3⟩, h4⟩, h5⟩ := h
  refine ⟨h1, h2, fun hd => ?_, h4, h5⟩
  rcases h3 with h3 | h3
  · rw [hd] at h3; exact absurd h3 (by simp)
  · exact h3

/-- the first character of an admissible text that is not behind `}`: no blank, none of `: , [` -/
theorem render_first (rest : List (Lexeme × List Char)) (h : adm false rest = true) :
    render rest = [] ∨ ∃ y s rest' c t, rest = (y, s) :: rest' ∧ render rest = c :: t ∧ FirstOK y c ∧ y.isDefs = false := by
  cases rest with
  | nil => exact .inl rfl
  | cons p rest' =>
    obtain ⟨y, s⟩ := p
    obtain ⟨hwf, -, hd, -, -⟩ := adm_cons false y s rest' h
    have hnd : y.isDefs = false := by
      cases hdd : y.isDefs with
      | false => rfl
      | true => exact absurd (hd hdd) (by simp)
    obtain ⟨c, t, ht, hf⟩ := text_first y hwf hnd
    exact .inr ⟨y, s, rest', c, t ++ s ++ render rest', rfl, by simp [render, ht], hf, hnd⟩

theorem matchDefs_blank_only {sp : Char → Bool} (hs : SpOK sp) (b : Bool) (lead : List Char) (hl : blank lead = true) :
    matchDefs sp b lead = none := by
  have h := tw_app sp lead [] (blank_sp hs lead hl) rfl
  simp only [List.append_nil] at h
  simp [matchDefs, h.2]

theorem dropWhile_blank_first (lead R : List Char) (hl : blank lead = true) (hR : noHead isWsA R = true) :
    (lead ++ R).dropWhile isWsA = R := dropWhile_app isWsA lead R hl hR

/-- no name list starts at an admissible text that does not begin with one -/
theorem defs_fail (b : Bool) (lead : List Char) (hl : blank lead = true) (rest : List (Lexeme × List Char))
    (h : adm false rest = true) : matchDefs isWsA b (lead ++ render rest) = none := by
  -- the first non-blank character behind a separator that is followed by an admissible text is no comma
  have after : ∀ (s : List Char) (r : List (Lexeme × List Char)), blank s = true → adm false r = true →
      ((s ++ render r).dropWhile isWsA).head? ≠ some ',' := by
    intro s r hs hr
    rcases render_first r hr with he | ⟨y, s', r', c, t, -, he, hf, -⟩
    · have := dropWhile_app isWsA s [] hs rfl
      simp only [List.append_nil] at this
      simp [he, this]
    · rw [he, dropWhile_app isWsA s (c :: t) hs (by simp [noHead, hf.nblank])]
      simp [hf.ncomma]
  cases rest with
  | nil => simpa [render] using matchDefs_blank_only spOK_A b lead hl
  | cons p rest' =>
    obtain ⟨y, s⟩ := p
    obtain ⟨hwf, hbs, hd, hsep, hrest⟩ := adm_cons false y s rest' h
    -- lexemes that start with a character that is neither a blank nor a word character
    have punct : ∀ (c : Char) (t : List Char), y.text = c :: t → isWsA c = false → isWord c = false →
        matchDefs isWsA b (lead ++ render ((y, s) :: rest')) = none := by
      intro c t ht h1 h2
      have := matchDefs_blank_nword spOK_A b lead c (t ++ s ++ render rest') hl h1 h2
      simpa [render, ht] using this
    -- lexemes that are one word followed by something that is no comma
    have wordy : ∀ (v Y : List Char), y.text ++ s ++ render rest' = v ++ Y → v ≠ [] → v.all isWord = true →
        noHead isWord Y = true → (Y.dropWhile isWsA).head? ≠ some ',' →
        matchDefs isWsA b (lead ++ render ((y, s) :: rest')) = none := by
      intro v Y e hne hv hY hc
      have := matchDefs_word_none spOK_A b lead v Y hl hne hv hY hc
      simpa [render, e, List.append_assoc] using this
    cases y with
    | typedef =>
      simp only [sepOK, Bool.and_eq_true, Bool.not_eq_true', List.isEmpty_eq_false_iff] at hsep
      have hr : adm false rest' = true := by simpa [closes] using hrest
      obtain ⟨d, s', rfl⟩ := List.exists_cons_of_ne_nil hsep.2
      have hdb : isWsA d = true := by simp only [blank, List.all_cons, Bool.and_eq_true] at hbs; exact hbs.1
      exact wordy kwTypedef ((d :: s') ++ render rest') (by simp [Lexeme.text]) (by decide) (by decide)
        (by simp [noHead, (wsA_not d hdb).1]) (after (d :: s') rest' hbs hr)
    | struct u =>
      have hr : adm false rest' = true := by simpa [closes] using hrest
      have hY : noHead isWord (s ++ render rest') = true := by
        cases s with
        | cons d s' =>
          have hdb : isWsA d = true := by simp only [blank, List.all_cons, Bool.and_eq_true] at hbs; exact hbs.1
          simp [noHead, (wsA_not d hdb).1]
        | nil =>
          simp only [sepOK, Bool.and_eq_true, List.isEmpty_nil, Bool.not_true, Bool.false_or] at hsep
          cases rest' with
          | nil => simp at hsep
          | cons q r'' =>
            obtain ⟨z, sz⟩ := q
            have hz : z = .lbrace := by simpa using hsep.2
            subst hz
            simp [render, Lexeme.text, noHead]; decide
      cases u with
      | false => exact wordy kwStruct (s ++ render rest') (by simp [Lexeme.text]) (by decide) (by decide) hY (after s rest' hbs hr)
      | true => exact wordy kwUnion (s ++ render rest') (by simp [Lexeme.text]) (by decide) (by decide) hY (after s rest' hbs hr)
    | ident v =>
      have hr : adm false rest' = true := by simpa [closes] using hrest
      simp only [Lexeme.wf, Bool.and_eq_true] at hwf
      have hvne : v ≠ [] := by intro e; subst e; simp at hwf
      have hY : noHead isWord (s ++ render rest') = true := by
        cases s with
        | cons d s' =>
          have hdb : isWsA d = true := by simp only [blank, List.all_cons, Bool.and_eq_true] at hbs; exact hbs.1
          simp [noHead, (wsA_not d hdb).1]
        | nil =>
          rcases render_first rest' hr with he | ⟨z, sz, r'', c, t, hre, he, hf, -⟩
          · simp [he, noHead]
          · subst hre
            simp only [sepOK, Bool.and_eq_true, List.head?_cons, Option.map_some] at hsep
            have hns : z.startsWord = false := by simpa using hsep.2.2
            cases hw : isWord c with
            | false => simp [he, noHead, hw]
            | true => rw [hf.word hw] at hns; exact absurd hns (by simp)
      exact wordy v (s ++ render rest') (by simp [Lexeme.text]) hvne hwf.1.2 hY (after s rest' hbs hr)
    | lbrace => exact punct '{' [] rfl (by decide) (by decide)
    | rbrace => exact punct '}' [] rfl (by decide) (by decide)
    | semi => exact punct ';' [] rfl (by decide) (by decide)
    | name pre w bits cnt =>
      have hwf' := hwf
      simp only [Lexeme.wf, Bool.and_eq_true, isWordStr] at hwf
      obtain ⟨⟨⟨⟨hpre, -⟩, hwne, hw⟩, hbits⟩, -⟩ := hwf
      have hwne' : w ≠ [] := by intro e; subst e; simp at hwne
      cases pre with
      | cons p pre =>
        simp only [preOK, Bool.and_eq_true, beq_iff_eq] at hpre
        obtain ⟨rfl, -⟩ := hpre
        exact punct '*' _ rfl (by decide) (by decide)
      | nil =>
        -- behind the word: the bit width, the count or `;`
        simp only [sepOK, Bool.and_eq_true] at hsep
        cases rest' with
        | nil => simp at hsep
        | cons q r'' =>
          obtain ⟨z, sz⟩ := q
          have hz : z = .semi := by simpa using hsep.2
          subst hz
          have e : (Lexeme.name [] w bits cnt).text ++ s ++ render ((Lexeme.semi, sz) :: r'')
              = w ++ (bitsText bits ++ countText cnt ++ s ++ ';' :: (sz ++ render r'')) := by simp [Lexeme.text, render]
          refine wordy w _ e hwne' hw (noHead_word_nameRest bits cnt s _ hbits hbs) ?_
          cases bits with
          | some t =>
            obtain ⟨a, bb, ds⟩ := t
            simp only [Bool.and_eq_true] at hbits
            have := dropWhile_app isWsA a (':' :: (bb ++ ds ++ countText cnt ++ s ++ ';' :: (sz ++ render r''))) hbits.1.1.1
              (by simp [noHead]; decide)
            simp only [bitsText, List.append_assoc, List.cons_append] at this ⊢
            rw [this]; simp
          | none =>
            cases cnt with
            | some c =>
              have : isWsA '[' = false := by decide
              simp [bitsText, countText, this]
            | none =>
              have := dropWhile_app isWsA s (';' :: (sz ++ render r'')) hbs (by simp [noHead]; decide)
              simp only [bitsText, countText, List.nil_append]
              rw [this]; simp
    | defs lead' first more => exact absurd (hd rfl) (by simp)
    | enum fl ws1 nm ws2 ty vals =>
      simp only [Lexeme.wf, Bool.and_eq_true, Bool.not_eq_true', List.isEmpty_eq_false_iff, Bool.or_eq_true, List.isEmpty_iff] at hwf
      obtain ⟨⟨⟨⟨⟨⟨⟨hws1, hws1ne⟩, hnm⟩, -⟩, hnmws2⟩, -⟩, -⟩, -⟩ := hwf
      obtain ⟨d, ws1', rfl⟩ := List.exists_cons_of_ne_nil hws1ne
      have hdb : isWsA d = true := by simp only [blank, List.all_cons, Bool.and_eq_true] at hws1; exact hws1.1
      -- the word `enum` / `flag`, then blanks, then a name character, `:` or `{`
      let Z := nm ++ (ws2 ++ (tyText ty ++ '{' :: vals ++ ['}'] ++ s ++ render rest'))
      have hZ : ∃ c t, Z = c :: t ∧ isWsA c = false ∧ c ≠ ',' := by
        cases nm with
        | cons c nm =>
          simp only [List.all_cons, Bool.and_eq_true] at hnm
          exact ⟨c, _, rfl, isWsA_of_word c hnm.1, word_ne hnm.1 _ (by decide)⟩
        | nil =>
          have : ws2 = [] := by rcases hnmws2 with h | h; exact absurd rfl h; exact h
          subst this
          cases ty with
          | none => exact ⟨'{', _, rfl, by decide, by decide⟩
          | some t => obtain ⟨a, t, b'⟩ := t; exact ⟨':', _, rfl, by decide, by decide⟩
      obtain ⟨c, t, hZe, hc1, hc2⟩ := hZ
      have hdrop : (((d :: ws1') ++ Z).dropWhile isWsA).head? ≠ some ',' := by
        rw [dropWhile_app isWsA (d :: ws1') Z hws1 (by simp [hZe, noHead, hc1]), hZe]
        simp [hc2]
      have e : ∀ kw, kw ++ (d :: ws1') ++ nm ++ ws2 ++ tyText ty ++ '{' :: vals ++ ['}'] ++ s ++ render rest'
          = kw ++ ((d :: ws1') ++ Z) := by intro kw; simp [Z]
      cases fl with
      | false =>
        exact wordy kwEnum ((d :: ws1') ++ Z) (by simpa [Lexeme.text] using e kwEnum) (by decide) (by decide)
          (by simp [noHead, (wsA_not d hdb).1]) hdrop
      | true =>
        exact wordy kwFlag ((d :: ws1') ++ Z) (by simpa [Lexeme.text] using e kwFlag) (by decide) (by decide)
          (by simp [noHead, (wsA_not d hdb).1]) hdrop
    | define ws1 nm ws2 val => exact punct '#' _ rfl (by decide) (by decide)
    | config vals => exact punct '#' _ rfl (by decide) (by decide)

end Cstruct.DefParser.C13
