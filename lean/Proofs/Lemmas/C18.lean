import CstructModel.Commit
import Proofs.C04
namespace Cstruct.C18.Lemmas
open Cstruct Cstruct.Commit

/-! ### One field of `_calculate_size_and_offsets`, factored out of the two recursive functions -/

abbrev Res := Except Err (Option Nat × Nat × List (Option Nat))

/-- the offset a field is placed at, from the leading offset -/
def offOf (align : Bool) (fa : Nat) (lead : Option Nat) : Option Nat :=
  match lead with
  | some o => if align then some (o + padNat o fa) else some o
  | none => none

/-- `if field.offset is not None: offset = field.offset` -/
def leadOf (pre : List (Option Nat)) (st : LState) : Option Nat :=
  match pre.headD none with | some o => some o | none => st.offset

/-- does this bit-field start a new storage unit? -/
def third (st : LState) (ft : Scalar) (offset : Option Nat) : Except Err Bool :=
  if st.bitsRemaining = 0 ∨ some ft ≠ st.bitsType then .ok true else
  match st.bitsType with
  | none => .ok false
  | some bt =>
    match offset, st.bitsFieldOffset, bt.size with
    | some o, some bfo, some bs => .ok (decide (o > bfo + bs))
    | some _, some _, none => .error .typeErr
    | _, _, _ => .ok false

/-- the processing of one field: the next accumulator and the offset recorded on the field.
    `lead` is the offset the field starts from, `keep` the offset the Field object already carries. -/
def stepL (cfg : Cfg) (align : Bool) (ty : Ty) (bits : Option Nat) (lead keep : Option Nat) (st : LState) :
    Except Err (LState × Option Nat) :=
  let fa := ty.alignment cfg
  let offset : Option Nat := offOf align fa lead
  let alignment := max st.alignment fa
  match bits with
  | some (b + 1) =>
    match ty.bitBase with
    | none => .error .typeErr
    | some ft =>
      match ft.size with
      | none => .error .typeErr
      | some fsz =>
        match third st ft offset with
        | .error e => .error e
        | .ok newUnit =>
          let (st1, foff) : LState × Option Nat :=
            if newUnit then
              ({ offset := offset.map (· + fsz), alignment := alignment, bitsType := some ft,
                 bitsFieldOffset := offset, bitsRemaining := (fsz * 8 : Nat) }, offset)
            else ({ st with offset := offset, alignment := alignment }, keep)
          let rem := st1.bitsRemaining - ((b + 1 : Nat) : Int)
          if rem < 0 then .error .value else
          .ok ({ st1 with bitsRemaining := rem }, foff)
  | _ =>
    let st1 : LState := { offset := offset, alignment := alignment, bitsType := none, bitsFieldOffset := some 0, bitsRemaining := 0 }
    let st2 : LState := match offset with
      | some o => match ty.size cfg with
        | some k => { st1 with offset := some (o + k) }
        | none => { st1 with offset := none }
      | none => st1
    .ok (st2, offset)

/-- continue with the remaining fields -/
def cont (r : Except Err (LState × Option Nat)) (k : LState → Res) : Res :=
  match r with
  | .error e => .error e
  | .ok (st', foff) =>
    match k st' with
    | .error e => .error e
    | .ok (sz, al, offs) => .ok (sz, al, foff :: offs)

theorem layout_cons (cfg : Cfg) (al : Bool) (n : String) (an : Bool) (ty : Ty) (bits : Option Nat) (rest : Fields)
    (st : LState) :
    Fields.layout cfg al (.cons n an ty bits rest) st =
      cont (stepL cfg al ty bits st.offset none st) (Fields.layout cfg al rest) := by
  cases bits with
  | none =>
    rw [Fields.layout]
    · rfl
    · intro b h; cases h
  | some b =>
    cases b with
    | zero =>
      rw [Fields.layout]
      · rfl
      · intro b h; cases h
    | succ b =>
      rw [Fields.layout]
      unfold stepL
      cases ty.bitBase with
      | none => rfl
      | some ft =>
        dsimp only
        cases ft.size with
        | none => rfl
        | some fsz =>
          dsimp only
          show (match third st ft (offOf al (ty.alignment cfg) st.offset) with
            | .error e => _
            | .ok nu => _) = _
          cases third st ft (offOf al (ty.alignment cfg) st.offset) with
          | error e => rfl
          | ok nu =>
            cases nu with
            | false =>
              simp only [Bool.false_eq_true, ↓reduceIte]
              split <;> rfl
            | true =>
              simp only [↓reduceIte]
              split <;> rfl

theorem layoutP_cons (cfg : Cfg) (al : Bool) (n : String) (an : Bool) (ty : Ty) (bits : Option Nat) (rest : Fields)
    (pre : List (Option Nat)) (st : LState) :
    layoutP cfg al (.cons n an ty bits rest) pre st =
      cont (stepL cfg al ty bits (leadOf pre st) (pre.headD none) st) (layoutP cfg al rest (pre.drop 1)) := by
  cases bits with
  | none =>
    rw [layoutP]
    · rfl
    · intro b h; cases h
  | some b =>
    cases b with
    | zero =>
      rw [layoutP]
      · rfl
      · intro b h; cases h
    | succ b =>
      rw [layoutP]
      unfold stepL
      cases ty.bitBase with
      | none => rfl
      | some ft =>
        dsimp only
        cases ft.size with
        | none => rfl
        | some fsz =>
          dsimp only
          show (match third st ft (offOf al (ty.alignment cfg) (leadOf pre st)) with
            | .error e => _
            | .ok nu => _) = _
          cases third st ft (offOf al (ty.alignment cfg) (leadOf pre st)) with
          | error e => rfl
          | ok nu =>
            cases nu with
            | false =>
              simp only [Bool.false_eq_true, ↓reduceIte]
              split <;> rfl
            | true =>
              simp only [↓reduceIte]
              split <;> rfl

theorem cont_congr {r : Except Err (LState × Option Nat)} {k k' : LState → Res} (h : ∀ s, k s = k' s) :
    cont r k = cont r k' := by
  have : k = k' := funext h
  rw [this]

theorem cont_ok_inv {r : Except Err (LState × Option Nat)} {k : LState → Res} {sz : Option Nat} {a : Nat}
    {offs : List (Option Nat)} (h : cont r k = .ok (sz, a, offs)) :
    ∃ st' foff offs', r = .ok (st', foff) ∧ k st' = .ok (sz, a, offs') ∧ offs = foff :: offs' := by
  unfold cont at h
  cases r with
  | error e => cases h
  | ok p =>
    obtain ⟨st', foff⟩ := p
    dsimp only at h
    cases hk : k st' with
    | error e => rw [hk] at h; cases h
    | ok q =>
      obtain ⟨s, a', o'⟩ := q
      rw [hk] at h
      simp only [Except.ok.injEq, Prod.mk.injEq] at h
      obtain ⟨rfl, rfl, rfl⟩ := h
      exact ⟨st', foff, o', rfl, hk, rfl⟩

theorem cont_ok {st' : LState} {foff : Option Nat} {k : LState → Res} {sz : Option Nat} {a : Nat}
    {offs' : List (Option Nat)} (hk : k st' = .ok (sz, a, offs')) :
    cont (.ok (st', foff)) k = .ok (sz, a, foff :: offs') := by
  unfold cont
  simp only [hk]

theorem append_nil : ∀ fs : Fields, Fields.append fs .nil = fs
  | .nil => rfl
  | .cons n a t b r => by rw [Fields.append, append_nil r]

/-! ### No persisted offsets -/

theorem fresh (cfg : Cfg) (al : Bool) : ∀ (fs : Fields) (st : LState) (n : Nat),
    layoutP cfg al fs (List.replicate n none) st = Fields.layout cfg al fs st
  | .nil, st, n => by rw [layoutP, Fields.layout]; rfl
  | .cons nm an ty bits rest, st, n => by
    rw [layoutP_cons, layout_cons]
    have h1 : (List.replicate n (none : Option Nat)).headD none = none := by cases n <;> rfl
    have h2 : (List.replicate n (none : Option Nat)).drop 1 = List.replicate (n - 1) none := by
      cases n <;> simp [List.replicate]
    have h3 : leadOf (List.replicate n none) st = st.offset := by unfold leadOf; rw [h1]
    rw [h1, h2, h3]
    exact cont_congr (fun s => fresh cfg al rest s (n - 1))

/-! ### One step with the offset it recorded itself -/

theorem step_inv (cfg : Cfg) (al : Bool) (ty : Ty) (bits : Option Nat) (lead : Option Nat) (st st' : LState)
    (foff : Option Nat) (h : stepL cfg al ty bits lead none st = .ok (st', foff)) :
    (foff = none ∨ foff = offOf al (ty.alignment cfg) lead) ∧ stepL cfg al ty bits lead foff st = .ok (st', foff) := by
  cases bits with
  | none =>
    refine ⟨Or.inr ?_, h⟩
    simp only [stepL, Except.ok.injEq, Prod.mk.injEq] at h
    exact h.2.symm
  | some b =>
    cases b with
    | zero =>
      refine ⟨Or.inr ?_, h⟩
      simp only [stepL, Except.ok.injEq, Prod.mk.injEq] at h
      exact h.2.symm
    | succ b =>
      unfold stepL at h ⊢
      cases hb : ty.bitBase with
      | none => rw [hb] at h; cases h
      | some ft =>
        rw [hb] at h
        dsimp only at h ⊢
        cases hs : ft.size with
        | none => rw [hs] at h; cases h
        | some fsz =>
          rw [hs] at h
          dsimp only at h ⊢
          cases ht : third st ft (offOf al (ty.alignment cfg) lead) with
          | error e => rw [ht] at h; cases h
          | ok nu =>
            rw [ht] at h
            cases nu with
            | false =>
              simp only [Bool.false_eq_true, ↓reduceIte] at h ⊢
              split at h
              · cases h
              · rename_i hr
                simp only [Except.ok.injEq, Prod.mk.injEq] at h
                obtain ⟨h1, h2⟩ := h
                subst h2
                refine ⟨Or.inl rfl, ?_⟩
                simp only [hr, ↓reduceIte, h1]
            | true =>
              simp only [↓reduceIte] at h ⊢
              split at h
              · cases h
              · rename_i hr
                simp only [Except.ok.injEq, Prod.mk.injEq] at h
                obtain ⟨h1, h2⟩ := h
                subst h2
                refine ⟨Or.inr rfl, ?_⟩
                simp only [hr, ↓reduceIte, h1]

theorem offOf_packed (fa : Nat) (l : Option Nat) : offOf false fa l = l := by
  cases l <;> rfl

/-- packed mode: the recorded offset is `none` or the running offset, so it leads nowhere else -/
theorem step_packed (cfg : Cfg) (ty : Ty) (bits : Option Nat) (st st' : LState) (foff : Option Nat)
    (offs' : List (Option Nat)) (h : stepL cfg false ty bits st.offset none st = .ok (st', foff)) :
    stepL cfg false ty bits (leadOf (foff :: offs') st) foff st = .ok (st', foff) := by
  obtain ⟨h1, h2⟩ := step_inv cfg false ty bits st.offset st st' foff h
  have hl : leadOf (foff :: offs') st = st.offset := by
    unfold leadOf
    rw [offOf_packed] at h1
    rcases h1 with h1 | h1
    · subst h1; rfl
    · subst h1; cases st.offset <;> rfl
  rw [hl]
  exact h2

theorem padNat_aligned (c fa : Nat) (hp : C04.isPow2 fa) : padNat (c + padNat c fa) fa = 0 := by
  obtain ⟨k, rfl⟩ := hp
  obtain ⟨_, _, h3, _⟩ := C04.c04_pad c k
  rw [(C04.c04_pad (c + padNat c (2 ^ k)) k).1]
  unfold pad
  rw [h3, Nat.sub_zero, Nat.mod_self]

theorem offOf_idem (fa : Nat) (hp : C04.isPow2 fa) (l : Option Nat) (offs' : List (Option Nat)) (st : LState)
    (hl : st.offset = l) : offOf true fa (leadOf (offOf true fa l :: offs') st) = offOf true fa l := by
  cases l with
  | none => unfold leadOf; rw [hl]; rfl
  | some c =>
    show (some (c + padNat c fa + padNat (c + padNat c fa) fa) : Option Nat) = some (c + padNat c fa)
    rw [padNat_aligned c fa hp, Nat.add_zero]

/-- aligned mode, no bit-field, power-of-two alignment: the recorded offset is already aligned -/
theorem step_aligned (cfg : Cfg) (ty : Ty) (st st' : LState) (foff : Option Nat) (offs' : List (Option Nat))
    (hp : C04.isPow2 (ty.alignment cfg))
    (h : stepL cfg true ty none st.offset none st = .ok (st', foff)) :
    stepL cfg true ty none (leadOf (foff :: offs') st) foff st = .ok (st', foff) := by
  have hf : foff = offOf true (ty.alignment cfg) st.offset := by
    simp only [stepL, Except.ok.injEq, Prod.mk.injEq] at h
    exact h.2.symm
  rw [← h]
  subst hf
  simp only [stepL, offOf_idem _ hp st.offset offs' st rfl]

/-! ### Extending a committed structure -/

theorem layout_nil_offs {cfg : Cfg} {al : Bool} {st : LState} {sz : Option Nat} {a : Nat} {offs : List (Option Nat)}
    (h : Fields.layout cfg al .nil st = .ok (sz, a, offs)) : offs = [] := by
  rw [Fields.layout] at h
  simp only [Except.ok.injEq, Prod.mk.injEq] at h
  exact h.2.2.symm

theorem ext_packed (cfg : Cfg) : ∀ (fs gs : Fields) (st : LState) (sz : Option Nat) (a : Nat) (offs : List (Option Nat)),
    Fields.layout cfg false fs st = .ok (sz, a, offs) →
    layoutP cfg false (Fields.append fs gs) offs st = Fields.layout cfg false (Fields.append fs gs) st
  | .nil, gs, st, sz, a, offs, h => by
    rw [layout_nil_offs h, Fields.append]
    exact fresh cfg false gs st 0
  | .cons n an ty bits rest, gs, st, sz, a, offs, h => by
    rw [layout_cons] at h
    obtain ⟨st', foff, offs', hs, hk, rfl⟩ := cont_ok_inv h
    rw [Fields.append, layoutP_cons, layout_cons]
    show cont (stepL cfg false ty bits (leadOf (foff :: offs') st) foff st)
      (layoutP cfg false (Fields.append rest gs) offs') = _
    rw [step_packed cfg ty bits st st' foff offs' hs, hs]
    unfold cont
    dsimp only
    rw [ext_packed cfg rest gs st' sz a offs' hk]

theorem ext_aligned (cfg : Cfg) : ∀ (fs gs : Fields) (ms : List (Nat × Nat)) (st : LState) (sz : Option Nat) (a : Nat)
    (offs : List (Option Nat)),
    C04.members cfg (Fields.append fs gs) = some ms → (∀ m ∈ ms, C04.isPow2 m.2) →
    Fields.layout cfg true fs st = .ok (sz, a, offs) →
    layoutP cfg true (Fields.append fs gs) offs st = Fields.layout cfg true (Fields.append fs gs) st
  | .nil, gs, ms, st, sz, a, offs, _, _, h => by
    rw [layout_nil_offs h, Fields.append]
    exact fresh cfg true gs st 0
  | .cons n an ty bits rest, gs, ms, st, sz, a, offs, hm, hp, h => by
    rw [Fields.append] at hm
    obtain ⟨k, ms', rfl, _, hm', rfl⟩ := C04.Lemmas.members_cons hm
    rw [layout_cons] at h
    obtain ⟨st', foff, offs', hs, hk, rfl⟩ := cont_ok_inv h
    rw [Fields.append, layoutP_cons, layout_cons]
    show cont (stepL cfg true ty none (leadOf (foff :: offs') st) foff st)
      (layoutP cfg true (Fields.append rest gs) offs') = _
    rw [step_aligned cfg ty st st' foff offs' (hp _ List.mem_cons_self) hs, hs]
    unfold cont
    dsimp only
    rw [ext_aligned cfg rest gs ms' st' sz a offs' hm' (fun x hx => hp x (List.mem_cons_of_mem _ hx)) hk]

theorem idem_packed (cfg : Cfg) (fs : Fields) (st : LState) (sz : Option Nat) (a : Nat) (offs : List (Option Nat))
    (h : Fields.layout cfg false fs st = .ok (sz, a, offs)) :
    layoutP cfg false fs offs st = .ok (sz, a, offs) := by
  have := ext_packed cfg fs .nil st sz a offs h
  rw [append_nil] at this
  rw [this, h]

theorem idem_aligned (cfg : Cfg) (fs : Fields) (ms : List (Nat × Nat)) (st : LState) (sz : Option Nat) (a : Nat)
    (offs : List (Option Nat)) (hm : C04.members cfg fs = some ms) (hp : ∀ m ∈ ms, C04.isPow2 m.2)
    (h : Fields.layout cfg true fs st = .ok (sz, a, offs)) :
    layoutP cfg true fs offs st = .ok (sz, a, offs) := by
  have := ext_aligned cfg fs .nil ms st sz a offs (by rw [append_nil]; exact hm) hp h
  rw [append_nil] at this
  rw [this, h]

/-! ### Confluence -/

theorem confluence_packed (cfg : Cfg) : ∀ (batches : List Fields) (fs : Fields) (offs : List (Option Nat))
    (sz : Option Nat) (a : Nat) (r : Fields × Option Nat × Nat × List (Option Nat)),
    Fields.layout cfg false fs LState.init = .ok (sz, a, offs) →
    commitAll cfg false fs offs batches = .ok r →
    Fields.layout cfg false r.1 LState.init = .ok r.2 ∧ r.1 = batches.foldl Fields.append fs
  | [], fs, offs, sz, a, r, hl, h => by
    rw [commitAll] at h
    have hc : commit cfg false fs offs = .ok (sz, a, offs) := idem_packed cfg fs LState.init sz a offs hl
    rw [hc] at h
    simp only [Except.ok.injEq] at h
    subst h
    exact ⟨hl, rfl⟩
  | b :: more, fs, offs, sz, a, r, hl, h => by
    rw [commitAll] at h
    have hc : commit cfg false (Fields.append fs b) offs = Fields.layout cfg false (Fields.append fs b) LState.init :=
      ext_packed cfg fs b LState.init sz a offs hl
    rw [hc] at h
    cases hl' : Fields.layout cfg false (Fields.append fs b) LState.init with
    | error e => rw [hl'] at h; cases h
    | ok q =>
      obtain ⟨sz', a', offs'⟩ := q
      rw [hl'] at h
      dsimp only at h
      have := confluence_packed cfg more (Fields.append fs b) offs' sz' a' r hl' h
      simpa only [List.foldl_cons] using this

end Cstruct.C18.Lemmas
