/-
  Helper lemmas for `Proofs/CoreDyn.lean`, part 10: the ALIGNED round trip for every type of fragment D, bit-fields
  included (under `bitsNatural`), and the mutual structural recursion `bD_ty`.
-/
import Proofs.Lemmas.CoreDynAB1
namespace Cstruct.Core.Lemmas
open Cstruct Cstruct.Core Cstruct.C06 Cstruct.C06.Lemmas
set_option linter.unusedSimpArgs false

theorem bD_of_packed (cfg : Cfg) (ty : Ty) (hs : sAlign cfg ty = 1) (hu : ty.uniformAlign false = true) : BTy cfg ty := by
  intro hS _ _ _ ctx v hv pos _ bs hw
  obtain ⟨h1, h2⟩ := rtD_ty cfg ty hS hu ctx v hv pos bs hw
  exact ⟨h1, by rw [hs]; exact Nat.one_dvd _, h2⟩

theorem rtB_N (cfg : Cfg) (ctx : Ctx) (e : Ty) (hE : BTy cfg e) (hS : e.fragD cfg = true)
    (hU : e.uniformAlign true = true) (hP : e.pow2Aligned cfg) (hB : e.bitsNatural cfg = true) :
    ∀ (n : Nat) (vs : Vals), HasTyND cfg ctx vs e n → ∀ pos, sAlign cfg e ∣ pos → ∀ bs, writeN cfg e vs pos = .ok bs →
      (∀ k, e.size cfg = some k → bs.length = n * k) ∧ sAlign cfg e ∣ pos + bs.length ∧
      ∀ (pre post : Bytes), pre.length = pos →
        readN cfg e n ctx (pre ++ bs ++ post) pos = .ok (vs, pos + bs.length) := by
  intro n
  induction n with
  | zero =>
    intro vs h pos hpos bs hw
    cases h
    rw [writeN_nil] at hw
    cases hw
    refine ⟨fun k _ => by simp, by simpa using hpos, ?_⟩
    intro pre post _
    rw [readN_zero]; simp
  | succ n ih =>
    intro vs h pos hpos bs hw
    cases h with
    | @cons _ v vs' _ _ h1 h2 =>
      rw [writeN_cons] at hw
      obtain ⟨bs1, hw1, hw'⟩ := bind_ok hw
      obtain ⟨bs2, hw2, heq⟩ := bind_ok hw'
      cases heq
      obtain ⟨s1, a1, r1⟩ := hE hS hU hP hB ctx v h1 pos hpos bs1 hw1
      obtain ⟨s2, a2, r2⟩ := ih vs' h2 _ a1 bs2 hw2
      refine ⟨?_, ?_, ?_⟩
      · intro k hk
        rw [List.length_append, s1 k hk, s2 k hk, Nat.succ_mul]; omega
      · rw [List.length_append, ← Nat.add_assoc]; exact a2
      · intro pre post hp
        rw [readN_succ]
        have e1 : pre ++ (bs1 ++ bs2) ++ post = pre ++ bs1 ++ (bs2 ++ post) := by simp
        rw [e1, r1 pre (bs2 ++ post) hp]
        simp only [Except.bind]
        have e2 : pre ++ bs1 ++ (bs2 ++ post) = (pre ++ bs1) ++ bs2 ++ post := by simp
        rw [e2, r2 (pre ++ bs1) post (by rw [List.length_append, hp])]
        simp only [List.length_append, Nat.add_assoc]

theorem bD_arr (cfg : Cfg) (e : Ty) (len : Len) (hE : BTy cfg e) : BTy cfg (.arr e len) := by
  intro hS hU hP hB ctx v hv pos hpos bs hw
  have hS' := hS
  simp only [Ty.fragD, Bool.and_eq_true] at hS
  simp only [Ty.bitsNatural] at hB
  simp only [Ty.uniformAlign] at hU
  simp only [Ty.pow2Aligned] at hP
  simp only [sAlign] at hpos
  cases hv with
  | chars _ _ => exact bD_of_packed cfg _ rfl rfl hS' rfl hP rfl ctx _ (.chars ‹_› ‹_›) pos (Nat.one_dvd _) bs hw
  | wchars _ _ _ _ =>
    exact bD_of_packed cfg _ rfl rfl hS' rfl hP rfl ctx _ (.wchars ‹_› ‹_› ‹_› ‹_›) pos (Nat.one_dvd _) bs hw
  | chars0 _ => exact bD_of_packed cfg _ rfl rfl hS' rfl hP rfl ctx _ (.chars0 ‹_›) pos (Nat.one_dvd _) bs hw
  | wchars0 _ _ => exact bD_of_packed cfg _ rfl rfl hS' rfl hP rfl ctx _ (.wchars0 ‹_› ‹_›) pos (Nat.one_dvd _) bs hw
  | @arr0 _ _ vs hc hwc hZ =>
    have he : sAlign cfg e = 1 ∧ e.uniformAlign false = true := by
      cases e <;> simp [Ty.nullElem] at hS <;> exact ⟨rfl, rfl⟩
    exact bD_of_packed cfg _ (by simp only [sAlign]; exact he.1) (by simp only [Ty.uniformAlign]; exact he.2) hS'
      (by simp only [Ty.uniformAlign]; exact hU) hP (by simp only [Ty.bitsNatural]; exact hB) ctx _ (.arr0 hc hwc hZ) pos
      (by simp only [sAlign, he.1]; exact Nat.one_dvd _) bs hw
  | @arr _ _ _ n vs hc hwc hcnt hN =>
    rw [write_arr_count cfg e len ctx n hcnt vs (hasTyND_length cfg ctx e n vs hN)] at hw
    obtain ⟨s, a, r⟩ := rtB_N cfg ctx e hE hS.2 hU hP hB n vs hN pos hpos bs hw
    refine ⟨?_, by simpa only [sAlign] using a, ?_⟩
    · intro k hk
      obtain ⟨n', k', rfl, h2, rfl⟩ := arr_size_count cfg _ _ k hk
      simp only [Len.count, Option.some.injEq] at hcnt
      subst hcnt
      exact s k' h2
    · intro pre post hp
      rw [read_arr_count cfg _ len ctx n hcnt]
      exact readArray_of_readN_D cfg e hS.2 hc hwc ctx _ n pos vs _ (r pre post hp)

theorem bD_struct (cfg : Cfg) (al : Bool) (fs : Fields) (hF : BIdle cfg fs) : BTy cfg (.struct al fs) := by
  intro hS hU hP hB ctx v hv pos hpos bs hw
  simp only [Ty.fragD] at hS
  simp only [Ty.bitsNatural] at hB
  simp only [Ty.uniformAlign, Bool.and_eq_true, beq_iff_eq] at hU
  simp only [Ty.pow2Aligned] at hP
  obtain ⟨rfl, hU⟩ := hU
  cases hv with
  | @struct _ _ _ vs hvs =>
  rw [write_struct] at hw
  obtain ⟨⟨sz, sa, offs⟩, hlay, hw1⟩ := bind_ok hw
  obtain ⟨⟨out, bbF⟩, hwf, hw2⟩ := bind_ok hw1
  obtain ⟨fl, hfl, heq⟩ := bind_ok hw2
  simp only [if_true, Except.ok.injEq] at heq
  subst heq
  have hdv := allAlignDvd_of_sAlign cfg true fs hP pos hpos
  obtain ⟨fl', hfl', hsize, hread⟩ := hF ⟨hS, hU, hP, hB⟩ [] vs hvs LState.init sz sa offs hlay (lidle_of_rem _ rfl fs)
    pos pos hdv (by intro o ho; cases ho; rfl) out bbF hwf
  rw [hfl] at hfl'
  cases hfl'
  have hsa : sa = Fields.maxAlign cfg fs 0 := (layout_final cfg true fs LState.init sz sa offs hlay).1
  generalize out ++ fl = body at *
  refine ⟨?_, ?_, ?_⟩
  · intro k hk
    have hsz : (Ty.struct true fs).size cfg = sz := by
      have h := hlay
      unfold structLayout LState.init at h
      simp only [Ty.size, h]
    rw [hsz] at hk
    obtain ⟨e, h1, h2⟩ := hsize k hk
    have he : e = body.length := by omega
    subst he
    rw [List.length_append, zeros_length, hsa, padNat_struct cfg true fs hP pos body.length hpos, h2, hsa]
  · rw [List.length_append, zeros_length, ← Nat.add_assoc]
    simp only [sAlign, Ty.alignment]
    split
    · exact Nat.one_dvd _
    · rename_i h0
      rw [hsa]
      rcases maxAlign_p2 cfg fs hP 0 (Or.inl rfl) with h1 | h1
      · exact absurd h1 h0
      · exact padNat_p2_dvd h1 _
  · intro pre post hp
    rw [read_struct, hlay]
    simp only [Except.bind]
    have e1 : pre ++ (body ++ zeros (padNat (pos + body.length) sa)) ++ post =
        pre ++ body ++ (zeros (padNat (pos + body.length) sa) ++ post) := by simp only [List.append_assoc]
    obtain ⟨szs, hr⟩ := hread pre (zeros (padNat (pos + body.length) sa) ++ post) BitBuf.empty hp
      (ridle_of_rem _ rfl fs)
    rw [e1, hr]
    simp only [if_true, List.length_append, zeros_length, Nat.add_assoc]

theorem bD_union (cfg : Cfg) (al fs) : BTy cfg (.union al fs) := by
  intro hS; simp [Ty.fragD] at hS

mutual
theorem bD_ty (cfg : Cfg) : ∀ ty : Ty, BTy cfg ty
  | .sc _ _ => bD_of_packed cfg _ rfl rfl
  | .enum _ _ _ => bD_of_packed cfg _ rfl rfl
  | .ptr _ => bD_of_packed cfg _ rfl rfl
  | .arr e len => bD_arr cfg e len (bD_ty cfg e)
  | .struct al fs => bD_struct cfg al fs (bD_idle cfg fs)
  | .union al fs => bD_union cfg al fs
theorem bD_idle (cfg : Cfg) : ∀ fs : Fields, BIdle cfg fs
  | .nil => b_idle_nil cfg
  | .cons name an ty none rest => b_idle_cons_nb cfg name an ty rest (bD_ty cfg ty) (bD_idle cfg rest)
  | .cons _ _ _ (some 0) _ => fun hH => by have := hH.frag; simp [Fields.fragD] at this
  | .cons name an ty (some (b + 1)) rest => b_idle_cons_bit cfg name an ty b rest (bD_idle cfg rest) (bD_pend cfg rest)
theorem bD_pend (cfg : Cfg) : ∀ fs : Fields, BPend cfg fs
  | .nil => b_pend_nil cfg
  | .cons name an ty none rest =>
    b_pend_cons cfg name an ty none rest (b_idle_cons_nb cfg name an ty rest (bD_ty cfg ty) (bD_idle cfg rest))
      (bD_idle cfg rest) (bD_pend cfg rest)
  | .cons _ _ _ (some 0) _ => fun hH => by have := hH.frag; simp [Fields.fragD] at this
  | .cons name an ty (some (b + 1)) rest =>
    b_pend_cons cfg name an ty (some (b + 1)) rest
      (b_idle_cons_bit cfg name an ty b rest (bD_idle cfg rest) (bD_pend cfg rest)) (bD_idle cfg rest) (bD_pend cfg rest)
end

end Cstruct.Core.Lemmas
