/-
  C20 — helper lemmas for the stub generator theorems: which lines a stub has at which level (for the declared
  names and the field annotations), the block invariant `Good`, the names the lines bind.
-/
import Proofs.Spec.C20

namespace Cstruct.Stubgen

/-! ### indent1 and the non-blank filter -/

/-- one level deeper -/
def shift (l : ILine) : ILine := { l with indent := l.indent + 1 }

/-- the non-blank lines -/
abbrev nb (ls : List ILine) : List ILine := ls.filter (fun l => l.line ≠ .blank)

theorem nb_append (a b : List ILine) : nb (a ++ b) = nb a ++ nb b := List.filter_append ..

theorem nb_indent1 (ls : List ILine) : nb (indent1 ls) = (nb ls).map shift := by
  induction ls with
  | nil => rfl
  | cons l r ih =>
    simp only [indent1, nb] at ih ⊢
    by_cases hl : l.line = .blank
    · simpa [hl] using ih
    · simpa [hl, shift] using ih

theorem mem_indent1 {l : ILine} {ls : List ILine} (h : l ∈ indent1 ls) :
    ∃ l0 ∈ ls, l.line = l0.line ∧ (l.line = .blank ∨ l.indent = l0.indent + 1) := by
  simp only [indent1, List.mem_map] at h
  obtain ⟨l0, hm, rfl⟩ := h
  refine ⟨l0, hm, ?_⟩
  by_cases hl : l0.line = .blank <;> simp [hl]

/-! ### the block invariant -/

/-- a (possibly empty) run of non-blank lines that forms complete blocks at level `k` -/
def Good (k : Nat) (ls : List ILine) : Prop :=
  (∀ a, ls.head? = some a → a.indent = k) ∧ (∀ a ∈ ls, k ≤ a.indent) ∧ chainOK ls ∧
    (∀ a, ls.getLast? = some a → a.line.isClassHdr = false)

theorem chainOK_append : ∀ (A B : List ILine), chainOK A → chainOK B →
    (∀ a b, A.getLast? = some a → B.head? = some b → stepOK a b) → chainOK (A ++ B)
  | [], B, _, hB, _ => by simpa using hB
  | [a], B, _, hB, h => by
    cases B with
    | nil => simp [chainOK]
    | cons b r => exact ⟨h a b rfl rfl, hB⟩
  | a :: a' :: r, B, hA, hB, h => by
    refine ⟨hA.1, chainOK_append (a' :: r) B hA.2 hB ?_⟩
    intro x y hx hy
    exact h x y (by simpa [List.getLast?_cons_cons] using hx) hy

theorem good_nil (k : Nat) : Good k [] := by simp [Good, chainOK]

theorem good_single (k : Nat) (l : Line) (h : l.isClassHdr = false) : Good k [⟨k, l⟩] := by
  simp [Good, chainOK, h]

theorem good_append {k : Nat} {A B : List ILine} (hA : Good k A) (hB : Good k B) : Good k (A ++ B) := by
  cases A with
  | nil => simpa using hB
  | cons a A' =>
  cases B with
  | nil => simpa using hA
  | cons b B' =>
    obtain ⟨a1, a2, a3, a4⟩ := hA
    obtain ⟨b1, b2, b3, b4⟩ := hB
    refine ⟨?_, ?_, ?_, ?_⟩
    · intro x hx; exact a1 x (by simpa using hx)
    · intro x hx
      rcases List.mem_append.1 hx with h | h
      · exact a2 x h
      · exact b2 x h
    · apply chainOK_append _ _ a3 b3
      intro x y hx hy
      have hx1 := a4 x hx
      have hx2 := a2 x (List.mem_of_getLast? hx)
      have hy1 := b1 y hy
      simp only [stepOK, hx1]
      simp; omega
    · intro x hx
      apply b4 x
      rw [List.getLast?_append] at hx
      cases h : (b :: B').getLast? with
      | none => simp at h
      | some y => simpa [h] using hx

theorem good_hdr {k : Nat} {B : List ILine} (n b : String) (hB : Good (k + 1) B) (hne : B ≠ []) :
    Good k (⟨k, .classHdr n b⟩ :: B) := by
  cases B with
  | nil => exact absurd rfl hne
  | cons x B' =>
    obtain ⟨b1, b2, b3, b4⟩ := hB
    refine ⟨?_, ?_, ?_, ?_⟩
    · intro a ha; simp at ha; subst ha; rfl
    · intro a ha
      rcases List.mem_cons.1 ha with rfl | h
      · exact Nat.le_refl _
      · have := b2 a h; omega
    · refine ⟨?_, b3⟩
      have := b1 x rfl
      simp [stepOK, Line.isClassHdr, this]
    · intro a ha
      apply b4 a
      simpa [List.getLast?_cons_cons] using ha

theorem stepOK_shift (a b : ILine) : stepOK (shift a) (shift b) ↔ stepOK a b := by
  cases h : a.line.isClassHdr <;> simp [stepOK, shift, h]

theorem chainOK_shift : ∀ (A : List ILine), chainOK A → chainOK (A.map shift)
  | [], _ => by simp [chainOK]
  | [a], _ => by simp [chainOK]
  | a :: b :: r, h => ⟨(stepOK_shift a b).2 h.1, chainOK_shift (b :: r) h.2⟩

theorem good_shift {k : Nat} {A : List ILine} (hA : Good k A) : Good (k + 1) (A.map shift) := by
  obtain ⟨a1, a2, a3, a4⟩ := hA
  refine ⟨?_, ?_, chainOK_shift A a3, ?_⟩
  · intro a ha
    simp only [List.head?_map, Option.map_eq_some_iff] at ha
    obtain ⟨x, hx, rfl⟩ := ha
    simp [shift, a1 x hx]
  · intro a ha
    simp only [List.mem_map] at ha
    obtain ⟨x, hx, rfl⟩ := ha
    have := a2 x hx
    simp [shift]; omega
  · intro a ha
    simp only [List.getLast?_map, Option.map_eq_some_iff] at ha
    obtain ⟨x, hx, rfl⟩ := ha
    simpa [shift] using a4 x hx

/-- lines that all sit at level `k` and are not headers -/
theorem good_flat {k : Nat} : ∀ (ls : List ILine), (∀ a ∈ ls, a.indent = k ∧ a.line.isClassHdr = false) → Good k ls
  | [], _ => good_nil k
  | a :: r, h => by
    have ha := h a (List.mem_cons_self ..)
    have : Good k ([a] ++ r) := by
      apply good_append
      · obtain ⟨i, l⟩ := a
        simp only at ha
        rw [ha.1]; exact good_single k l ha.2
      · exact good_flat r (fun x hx => h x (List.mem_cons_of_mem _ hx))
    simpa using this

/-! ### equations of the stub functions -/

/-- the four `__init__` lines and the trailing blank line of a structure stub -/
def tail4 (args : List (String × Hint)) : List ILine :=
  [⟨1, .overload⟩, ⟨1, .initFields args⟩, ⟨1, .overload⟩, ⟨1, .initFh⟩, ⟨0, .blank⟩]

theorem inlineStub_struct (keys : List String) (cp mp n b : String) (fs : SFields) :
    (STy.struct n b fs).inlineStub keys cp mp =
      ⟨0, .classHdr n (mp ++ b)⟩ :: (fs.body keys cp mp ++ tail4 (fs.args keys cp mp)) := by
  rw [STy.inlineStub]; rfl

theorem inlineStub_arr (keys : List String) (cp mp n : String) (t : STy) :
    (STy.arr n t).inlineStub keys cp mp = t.inlineStub keys cp mp := by
  rw [STy.inlineStub]

theorem body_nil (keys : List String) (cp mp : String) : SFields.nil.body keys cp mp = [] := by
  rw [SFields.body]

theorem body_cons (keys : List String) (cp mp f : String) (t : STy) (rest : SFields) :
    (SFields.cons f t rest).body keys cp mp =
      (if inlined keys t then indent1 (t.inlineStub keys cp mp) else []) ++
        ⟨1, .field f (fieldHint keys cp mp t)⟩ :: rest.body keys cp mp := by
  rw [SFields.body]

/-! ### the block invariant for stubs -/

theorem nb_tail4 (args : List (String × Hint)) :
    nb (tail4 args) = [⟨1, .overload⟩, ⟨1, .initFields args⟩, ⟨1, .overload⟩, ⟨1, .initFh⟩] := by
  simp [nb, tail4]

theorem good_tail4 (args : List (String × Hint)) : Good 1 (nb (tail4 args)) := by
  rw [nb_tail4]
  apply good_flat
  simp [Line.isClassHdr]

mutual
theorem inlineStub_good (keys : List String) (cp mp : String) : ∀ t : STy, Good 0 (nb (t.inlineStub keys cp mp))
  | .arr n t => by rw [inlineStub_arr]; exact inlineStub_good keys cp mp t
  | .struct n b fs => by
    rw [inlineStub_struct]
    have h1 := body_good keys cp mp fs
    have h2 := good_tail4 (fs.args keys cp mp)
    have h3 : nb (tail4 (fs.args keys cp mp)) ≠ [] := by rw [nb_tail4]; simp
    have : nb (⟨0, .classHdr n (mp ++ b)⟩ :: (fs.body keys cp mp ++ tail4 (fs.args keys cp mp))) =
        ⟨0, .classHdr n (mp ++ b)⟩ :: (nb (fs.body keys cp mp) ++ nb (tail4 (fs.args keys cp mp))) := by
      simp [nb]
    rw [this]
    exact good_hdr _ _ (good_append h1 h2) (by simp [h3])
  | .leaf _ => by simp only [STy.inlineStub]; exact good_nil 0
  | .charArr _ => by simp only [STy.inlineStub]; exact good_nil 0
  | .wcharArr _ => by simp only [STy.inlineStub]; exact good_nil 0
  | .ptr _ _ => by simp only [STy.inlineStub]; exact good_nil 0
theorem body_good (keys : List String) (cp mp : String) : ∀ fs : SFields, Good 1 (nb (fs.body keys cp mp))
  | .nil => by rw [body_nil]; exact good_nil 1
  | .cons f t rest => by
    rw [body_cons, nb_append]
    apply good_append
    · split
      · rw [nb_indent1]; exact good_shift (inlineStub_good keys cp mp t)
      · exact good_nil 1
    · have : nb (⟨1, .field f (fieldHint keys cp mp t)⟩ :: rest.body keys cp mp) =
          [⟨1, .field f (fieldHint keys cp mp t)⟩] ++ nb (rest.body keys cp mp) := by simp [nb]
      rw [this]
      exact good_append (good_single 1 _ rfl) (body_good keys cp mp rest)
end

/-! ### entries of the typedef loop -/

/-- the possible results of one loop iteration -/
inductive EntryShape (inp : Input) (keys defined : List String) (key : String) (td : TDef) : List ILine → Prop
  | aliasName (tgt : String) : declName defined key td = key → EntryShape inp keys defined key td [⟨0, .aliasName key tgt⟩]
  | aliasHint (h : Hint) : declName defined key td = key → EntryShape inp keys defined key td [⟨0, .aliasHint key h⟩]
  | enum (n b : String) (ms : List String) : td = .enum n b ms → declName defined key td = n →
      EntryShape inp keys defined key td (enumStub inp.modPrefix n b ms)
  | struct (n b : String) (fs : SFields) : td = .ty (.struct n b fs) → declName defined key td = n →
      EntryShape inp keys defined key td (structStub keys (inp.clsName ++ ".") inp.modPrefix n b fs)
  | generic (n b : String) : n ∈ td.names → declName defined key td = n →
      EntryShape inp keys defined key td (genericStub inp.modPrefix n b)

theorem entryStub_shape {inp : Input} {keys defined : List String} {key : String} {td : TDef} {stub : List ILine}
    (h : entryStub inp keys defined key td = .ok stub) : EntryShape inp keys defined key td stub := by
  unfold entryStub at h
  cases td with
  | str s => simp [TDef.name?] at h
  | enum n b ms =>
    simp only [TDef.name?, isPtrOrArr] at h
    by_cases hb : n ∈ builtinKeys
    · simp [hb] at h; subst h
      exact .aliasName _ (by simp [declName, TDef.name?, hb])
    · by_cases hd : n ∈ defined
      · simp [hb, hd] at h; subst h
        exact .aliasName _ (by simp [declName, TDef.name?, hd])
      · simp [hb, hd] at h; subst h
        exact .enum n b ms rfl (by simp [declName, TDef.name?, hb, hd, isPtrOrArr])
  | generic n b =>
    simp only [TDef.name?, isPtrOrArr] at h
    by_cases hb : n ∈ builtinKeys
    · simp [hb] at h; subst h
      exact .aliasName _ (by simp [declName, TDef.name?, hb])
    · by_cases hd : n ∈ defined
      · simp [hb, hd] at h; subst h
        exact .aliasName _ (by simp [declName, TDef.name?, hd])
      · simp [hb, hd] at h; subst h
        exact .generic n b (by simp [TDef.names]) (by simp [declName, TDef.name?, hb, hd, isPtrOrArr])
  | ty t =>
    simp only [TDef.name?] at h
    by_cases hb : t.name ∈ builtinKeys
    · simp [hb] at h; subst h
      exact .aliasName _ (by simp [declName, TDef.name?, hb])
    · by_cases hp : isPtrOrArr (.ty t) = true
      · simp [hb, hp] at h; subst h
        exact .aliasHint _ (by simp [declName, TDef.name?, hp])
      · by_cases hd : t.name ∈ defined
        · simp [hb, hp, hd] at h; subst h
          exact .aliasName _ (by simp [declName, TDef.name?, hd])
        · have hdn : declName defined key (.ty t) = t.name := by
            simp [declName, TDef.name?, hb, hd, hp]
          cases t with
          | leaf n =>
            simp [STy.name] at hb hd
            simp [hb, hp, hd, STy.name] at h; subst h
            exact .generic n "" (by simp [TDef.names, STy.name]) hdn
          | struct n b fs =>
            simp [STy.name] at hb hd
            simp [hb, hp, hd, STy.name] at h; subst h
            exact .struct n b fs rfl hdn
          | charArr n => simp [isPtrOrArr] at hp
          | wcharArr n => simp [isPtrOrArr] at hp
          | ptr n t => simp [isPtrOrArr] at hp
          | arr n t => simp [isPtrOrArr] at hp

/-- induction over the successful runs of the typedef loop -/
theorem typedefLoop_ind (inp : Input) (keys : List String)
    (R : List (String × TDef) → List String → List ILine → Prop)
    (hnil : ∀ d, R [] d [])
    (hskip : ∀ key td rest d res, builtinKeys.contains key = true → R rest d res → R ((key, td) :: rest) d res)
    (hstep : ∀ key td rest d stub more, builtinKeys.contains key = false →
      entryStub inp keys d key td = .ok stub → R rest ((td.name?).getD "" :: d) more →
      R ((key, td) :: rest) d (indent1 stub ++ more)) :
    ∀ tds d res, typedefLoop inp keys tds d = .ok res → R tds d res
  | [], d, res, h => by
    rw [typedefLoop] at h
    cases h
    exact hnil d
  | (key, td) :: rest, d, res, h => by
    rw [typedefLoop] at h
    split at h
    · next hb => exact hskip key td rest d res hb (typedefLoop_ind inp keys R hnil hskip hstep rest d res h)
    · next hb =>
      cases h1 : entryStub inp keys d key td with
      | error e => simp [h1, bind, Except.bind] at h
      | ok stub =>
        cases h2 : typedefLoop inp keys rest ((td.name?).getD "" :: d) with
        | error e => simp [h1, h2, bind, Except.bind] at h
        | ok more =>
          simp [h1, h2, bind, Except.bind, pure, Except.pure] at h
          subst h
          exact hstep key td rest d stub more (by simpa using hb) h1
            (typedefLoop_ind inp keys R hnil hskip hstep rest _ more h2)

/-! ### which lines sit at which level -/

/-- blank, or deeper than level 0 -/
def Deep (l : ILine) : Prop := l.line = .blank ∨ 1 ≤ l.indent

/-- what the spec-side projections do: select from the lines at level 1 -/
def pick {α : Type} (g : Line → Option α) (ls : List ILine) : List α :=
  ls.filterMap fun l => if l.indent = 1 then g l.line else none

theorem declaredTop_eq_pick (ls : List ILine) : declaredTop ls = pick Line.topName? ls := rfl

/-- the selector of `fieldDecls` -/
def gField : Line → Option (String × Hint)
  | .field n h => some (n, h)
  | _ => none
/-- the selector of `initArgs` -/
def gInit : Line → Option (List (String × Hint))
  | .initFields a => some a
  | _ => none

theorem fieldDecls_eq_pick (ls : List ILine) : fieldDecls ls = pick gField ls := by
  unfold fieldDecls pick
  congr 1

theorem initArgs_eq_pick (ls : List ILine) : initArgs ls = pick gInit ls := by
  unfold initArgs pick
  congr 1

theorem pick_append {α : Type} (g : Line → Option α) (a b : List ILine) : pick g (a ++ b) = pick g a ++ pick g b :=
  List.filterMap_append ..

theorem pick_cons {α : Type} (g : Line → Option α) (l : ILine) (r : List ILine) :
    pick g (l :: r) = pick g [l] ++ pick g r := pick_append g [l] r

theorem pick_indent1_deep {α : Type} (g : Line → Option α) (hg : g .blank = none) :
    ∀ (ls : List ILine), (∀ l ∈ ls, Deep l) → pick g (indent1 ls) = []
  | [], _ => rfl
  | l :: r, h => by
    have ih := pick_indent1_deep g hg r (fun x hx => h x (List.mem_cons_of_mem _ hx))
    have hl := h l (List.mem_cons_self ..)
    simp only [indent1, pick, List.map_cons] at ih ⊢
    rw [List.filterMap_cons, ih]
    by_cases hb : l.line = .blank
    · simp [hb, hg]
    · have : 1 ≤ l.indent := by rcases hl with h | h; exact absurd h hb; exact h
      have : ¬ (l.indent = 0) := by omega
      simp [hb, this]

/-- a header line at level 0 followed by deeper lines: after `indent1` only the header is at level 1 -/
theorem pick_indent1_hdr {α : Type} (g : Line → Option α) (hg : g .blank = none) (x : Line) (hx : x ≠ .blank)
    (rest : List ILine) (hr : ∀ l ∈ rest, Deep l) : pick g (indent1 (⟨0, x⟩ :: rest)) = (g x).toList := by
  have h1 : indent1 (⟨0, x⟩ :: rest) = [⟨1, x⟩] ++ indent1 rest := by simp [indent1, hx]
  rw [h1, pick_append, pick_indent1_deep g hg rest hr]
  cases hgx : g x <;> simp [pick, hgx]

theorem indent1_deep (ls : List ILine) : ∀ l ∈ indent1 ls, Deep l := by
  intro l hl
  obtain ⟨l0, _, _, h⟩ := mem_indent1 hl
  rcases h with h | h
  · exact .inl h
  · exact .inr (by omega)

theorem tail4_deep (args : List (String × Hint)) : ∀ l ∈ tail4 args, Deep l := by
  simp [tail4, Deep]

theorem body_deep (keys : List String) (cp mp : String) : ∀ (fs : SFields), ∀ l ∈ fs.body keys cp mp, Deep l
  | .nil => by simp [body_nil]
  | .cons f t rest => by
    intro l hl
    rw [body_cons] at hl
    rcases List.mem_append.1 hl with h | h
    · split at h
      · exact indent1_deep _ l h
      · simp at h
    · rcases List.mem_cons.1 h with rfl | h
      · exact .inr (Nat.le_refl 1)
      · exact body_deep keys cp mp rest l h

/-- an inline stub is empty or a header at level 0 followed by deeper lines -/
theorem inlineStub_shape (keys : List String) (cp mp : String) : ∀ (t : STy),
    t.inlineStub keys cp mp = [] ∨
      ∃ n b rest, t.inlineStub keys cp mp = ⟨0, .classHdr n b⟩ :: rest ∧ ∀ l ∈ rest, Deep l
  | .arr n t => by rw [inlineStub_arr]; exact inlineStub_shape keys cp mp t
  | .struct n b fs => by
    right
    refine ⟨n, mp ++ b, _, inlineStub_struct keys cp mp n b fs, ?_⟩
    intro l hl
    rcases List.mem_append.1 hl with h | h
    · exact body_deep keys cp mp fs l h
    · exact tail4_deep _ l h
  | .leaf _ => by simp [STy.inlineStub]
  | .charArr _ => by simp [STy.inlineStub]
  | .wcharArr _ => by simp [STy.inlineStub]
  | .ptr _ _ => by simp [STy.inlineStub]

/-- the header of an inline stub is not selected by a selector that ignores headers -/
theorem pick_indent1_inlineStub {α : Type} (g : Line → Option α) (hg : g .blank = none)
    (hh : ∀ n b, g (.classHdr n b) = none) (keys : List String) (cp mp : String) (t : STy) :
    pick g (indent1 (t.inlineStub keys cp mp)) = [] := by
  rcases inlineStub_shape keys cp mp t with h | ⟨n, b, rest, h, hr⟩
  · rw [h]; rfl
  · rw [h, pick_indent1_hdr g hg _ (by simp) rest hr, hh]; rfl

/-! ### C20 `c20_fields_hinted` -/

theorem pick_body_field (keys : List String) (cp mp : String) :
    ∀ fs : SFields, pick gField (fs.body keys cp mp) = fs.args keys cp mp
  | .nil => by rw [body_nil]; rfl
  | .cons f t rest => by
    rw [body_cons, pick_append, pick_cons, pick_body_field keys cp mp rest]
    have : pick gField (if inlined keys t then indent1 (t.inlineStub keys cp mp) else []) = [] := by
      split
      · exact pick_indent1_inlineStub gField rfl (fun _ _ => rfl) keys cp mp t
      · rfl
    rw [this]
    simp [pick, gField, SFields.args]

theorem pick_body_init (keys : List String) (cp mp : String) :
    ∀ fs : SFields, pick gInit (fs.body keys cp mp) = []
  | .nil => by rw [body_nil]; rfl
  | .cons f t rest => by
    rw [body_cons, pick_append, pick_cons, pick_body_init keys cp mp rest]
    have : pick gInit (if inlined keys t then indent1 (t.inlineStub keys cp mp) else []) = [] := by
      split
      · exact pick_indent1_inlineStub gInit rfl (fun _ _ => rfl) keys cp mp t
      · rfl
    rw [this]
    simp [pick, gInit]

theorem fieldDecls_structStub (keys : List String) (cp mp n b : String) (fs : SFields) :
    fieldDecls (structStub keys cp mp n b fs) = fs.args keys cp mp := by
  rw [fieldDecls_eq_pick, structStub, inlineStub_struct, pick_cons, pick_append, pick_body_field]
  simp [pick, gField, tail4]

theorem initArgs_structStub (keys : List String) (cp mp n b : String) (fs : SFields) :
    initArgs (structStub keys cp mp n b fs) = [fs.args keys cp mp] := by
  rw [initArgs_eq_pick, structStub, inlineStub_struct, pick_cons, pick_append, pick_body_init]
  simp [pick, gInit, tail4]

theorem hint_denotes (p mp : String) : ∀ t : STy, HintDenotes (hint p mp t) t
  | .leaf n => by simp only [hint]; exact .leaf p n
  | .struct n b fs => by simp only [hint]; exact .struct p n b fs
  | .charArr n => by simp only [hint]; exact .charArr mp n
  | .wcharArr n => by simp only [hint]; exact .wcharArr mp n
  | .ptr n t => by simp only [hint]; exact .ptr mp n _ t (hint_denotes p mp t)
  | .arr n t => by simp only [hint]; exact .arr mp n _ t (hint_denotes p mp t)

/-! ### the result of `generate` -/

def constLines (inp : Input) : List ILine := inp.consts.map fun p => ⟨1, .constDecl p.1 p.2⟩

def bodyOrEllipsis (body : List ILine) : List ILine := if body.isEmpty then [⟨1, .ellipsis⟩] else body

theorem generate_ok {inp : Input} {ls : List ILine} (h : generate inp = .ok ls) :
    ∃ tbody, typedefLoop inp (inp.typedefs.map (·.1)) inp.typedefs [] = .ok tbody ∧
      ls = ⟨0, .classHdr inp.clsName (inp.modPrefix ++ "cstruct")⟩ :: bodyOrEllipsis (constLines inp ++ tbody) := by
  unfold generate at h
  cases h1 : typedefLoop inp (inp.typedefs.map (·.1)) inp.typedefs [] with
  | error e => simp [h1, bind, Except.bind] at h
  | ok tbody =>
    simp only [h1, bind, Except.bind, pure, Except.pure, Except.ok.injEq] at h
    refine ⟨tbody, rfl, ?_⟩
    rw [← h]
    rfl

/-! ### C20 `c20_declared_names` -/

theorem pick_top_entry {inp : Input} {keys d : List String} {key : String} {td : TDef} {stub : List ILine}
    (hs : EntryShape inp keys d key td stub) : pick Line.topName? (indent1 stub) = [declName d key td] := by
  cases hs with
  | aliasName tgt hd => simp [indent1, pick, Line.topName?, hd]
  | aliasHint hh hd => simp [indent1, pick, Line.topName?, hd]
  | enum n b ms htd hd =>
    have : enumStub inp.modPrefix n b ms =
        ⟨0, .classHdr n (inp.modPrefix ++ b)⟩ :: ((ms.map fun k => ⟨1, .member k⟩) ++ [⟨0, .blank⟩]) := rfl
    rw [this, pick_indent1_hdr _ rfl _ (by simp), hd]
    · rfl
    · intro l hl
      rcases List.mem_append.1 hl with h | h
      · obtain ⟨a, _, rfl⟩ := List.mem_map.1 h
        exact .inr (Nat.le_refl 1)
      · simp only [List.mem_singleton] at h
        subst h; exact .inl rfl
  | struct n b fs htd hd =>
    rw [structStub, inlineStub_struct, pick_indent1_hdr _ rfl _ (by simp), hd]
    · rfl
    · intro l hl
      rcases List.mem_append.1 hl with h | h
      · exact body_deep _ _ _ fs l h
      · exact tail4_deep _ l h
  | generic n b hn hd => simp [genericStub, indent1, pick, Line.topName?, hd]

theorem declaredTop_loop (inp : Input) (keys : List String) :
    ∀ tds d res, typedefLoop inp keys tds d = .ok res →
      declaredTop res = expectedNamesFrom (tds.filter fun p => !(builtinKeys.contains p.1)) d := by
  apply typedefLoop_ind
  · intro d; rfl
  · intro key td rest d res hb ih
    have hb' : key ∈ builtinKeys := by simpa using hb
    simpa [List.filter_cons, hb'] using ih
  · intro key td rest d stub more hb hs ih
    have hb' : ¬ key ∈ builtinKeys := by simpa using hb
    rw [declaredTop_eq_pick, pick_append, pick_top_entry (entryStub_shape hs), ← declaredTop_eq_pick, ih]
    simp [hb', expectedNamesFrom]

theorem pick_bodyOrEllipsis (body : List ILine) :
    pick Line.topName? (bodyOrEllipsis body) = pick Line.topName? body := by
  unfold bodyOrEllipsis
  cases body <;> simp [pick, Line.topName?]

theorem pick_constLines_aux : ∀ cs : List (String × String),
    pick Line.topName? (cs.map fun p => (⟨1, .constDecl p.1 p.2⟩ : ILine)) = cs.map (·.1)
  | [] => rfl
  | c :: r => by rw [List.map_cons, pick_cons, pick_constLines_aux r]; rfl

theorem pick_constLines (inp : Input) : pick Line.topName? (constLines inp) = inp.consts.map (·.1) :=
  pick_constLines_aux inp.consts

theorem declared_names (inp : Input) (ls : List ILine) (h : generate inp = .ok ls) :
    declaredTop ls = inp.consts.map (·.1) ++ expectedTypeNames inp := by
  obtain ⟨tbody, h1, rfl⟩ := generate_ok h
  have h2 := declaredTop_loop inp _ _ _ _ h1
  rw [declaredTop_eq_pick] at h2 ⊢
  rw [pick_cons, pick_bodyOrEllipsis, pick_append, pick_constLines, h2]
  simp [pick, expectedTypeNames, userTypedefs]

theorem expectedNamesFrom_canonical : ∀ (l : List (String × TDef)) (d : List String),
    canonicalFrom l d = true → expectedNamesFrom l d = l.map (·.1)
  | [], _, _ => rfl
  | (key, td) :: rest, d, h => by
    simp only [canonicalFrom, Bool.and_eq_true, beq_iff_eq] at h
    simp only [expectedNamesFrom, List.map_cons, h.1, expectedNamesFrom_canonical rest _ h.2]

theorem expectedTypeNames_canonical (inp : Input) (hc : Canonical inp) :
    expectedTypeNames inp = (userTypedefs inp).map (·.1) :=
  expectedNamesFrom_canonical _ _ hc

theorem declName_cases (d : List String) (key : String) (td : TDef) :
    declName d key td = key ∨ td.name? = some (declName d key td) := by
  unfold declName
  cases h : td.name? with
  | none => exact .inl rfl
  | some n =>
    simp only
    split
    · exact .inl rfl
    · exact .inr rfl

theorem expectedNamesFrom_mem : ∀ (l : List (String × TDef)) (d : List String), ∀ n ∈ expectedNamesFrom l d,
    n ∈ l.map (·.1) ∨ n ∈ l.filterMap (fun p => p.2.name?)
  | [], _, n, h => by simp [expectedNamesFrom] at h
  | (key, td) :: rest, d, n, h => by
    simp only [expectedNamesFrom, List.mem_cons] at h
    rcases h with rfl | h
    · rcases declName_cases d key td with h | h
      · left; rw [h]; simp
      · right; simp only [List.mem_filterMap]; exact ⟨(key, td), List.mem_cons_self .., h⟩
    · rcases expectedNamesFrom_mem rest _ n h with h | h
      · left; simp only [List.map_cons, List.mem_cons]; exact .inr h
      · right
        simp only [List.mem_filterMap] at h ⊢
        obtain ⟨p, hp, hn⟩ := h
        exact ⟨p, List.mem_cons_of_mem _ hp, hn⟩

theorem nothing_extra (inp : Input) (ls : List ILine) (h : generate inp = .ok ls) :
    ∀ n ∈ declaredTop ls, n ∈ inp.consts.map (·.1) ∨ n ∈ (userTypedefs inp).map (·.1) ∨
      n ∈ (userTypedefs inp).filterMap (fun p => p.2.name?) := by
  intro n hn
  rw [declared_names inp ls h] at hn
  rcases List.mem_append.1 hn with h | h
  · exact .inl h
  · exact .inr (expectedNamesFrom_mem _ _ n h)

/-! ### C20 `c20_blocks_wellformed` -/

theorem entry_good {inp : Input} {keys d : List String} {key : String} {td : TDef} {stub : List ILine}
    (hs : EntryShape inp keys d key td stub) (he : ∀ n b ms, td = .enum n b ms → ms ≠ []) :
    Good 0 (nb stub) ∧ nb stub ≠ [] := by
  cases hs with
  | aliasName tgt hd =>
    have : nb [(⟨0, .aliasName key tgt⟩ : ILine)] = [⟨0, .aliasName key tgt⟩] := by simp [nb]
    rw [this]; exact ⟨good_single 0 _ rfl, by simp⟩
  | aliasHint hh hd =>
    have : nb [(⟨0, .aliasHint key hh⟩ : ILine)] = [⟨0, .aliasHint key hh⟩] := by simp [nb]
    rw [this]; exact ⟨good_single 0 _ rfl, by simp⟩
  | enum n b ms htd hd =>
    have : nb (enumStub inp.modPrefix n b ms) =
        ⟨0, .classHdr n (inp.modPrefix ++ b)⟩ :: (ms.map fun k => ⟨1, .member k⟩) := by
      have e1 : enumStub inp.modPrefix n b ms =
          [⟨0, .classHdr n (inp.modPrefix ++ b)⟩] ++ ((ms.map fun k => ⟨1, .member k⟩) ++ [⟨0, .blank⟩]) := rfl
      have e2 : nb (ms.map fun k => (⟨1, .member k⟩ : ILine)) = ms.map fun k => ⟨1, .member k⟩ := by
        unfold nb
        rw [List.filter_eq_self]
        intro a ha
        obtain ⟨k, _, rfl⟩ := List.mem_map.1 ha
        simp
      rw [e1, nb_append, nb_append, e2]
      simp [nb]
    rw [this]
    refine ⟨good_hdr _ _ (good_flat _ ?_) ?_, by simp⟩
    · intro a ha
      obtain ⟨k, _, rfl⟩ := List.mem_map.1 ha
      exact ⟨rfl, rfl⟩
    · simpa using he n b ms htd
  | struct n b fs htd hd =>
    refine ⟨inlineStub_good _ _ _ (.struct n b fs), ?_⟩
    rw [structStub, inlineStub_struct]
    simp [nb]
  | generic n b hn hd =>
    have : nb (genericStub inp.modPrefix n b) = [⟨0, .generic n (inp.modPrefix ++ b)⟩] := by
      simp [nb, genericStub]
    rw [this]; exact ⟨good_single 0 _ rfl, by simp⟩

theorem loop_good (inp : Input) (keys : List String) :
    ∀ tds d res, typedefLoop inp keys tds d = .ok res →
      (∀ p ∈ tds, ∀ n b ms, p.2 = .enum n b ms → ms ≠ []) → Good 1 (nb res) ∧ (res = [] ∨ nb res ≠ []) := by
  apply typedefLoop_ind
  · intro d _; exact ⟨good_nil 1, .inl rfl⟩
  · intro key td rest d res _ ih he
    exact ih (fun p hp => he p (List.mem_cons_of_mem _ hp))
  · intro key td rest d stub more _ hs ih he
    have h1 := entry_good (entryStub_shape hs) (he (key, td) (List.mem_cons_self ..))
    have h2 := ih (fun p hp => he p (List.mem_cons_of_mem _ hp))
    rw [nb_append, nb_indent1]
    refine ⟨good_append (good_shift h1.1) h2.1, .inr ?_⟩
    have := h1.2
    simp [this]

theorem enumsNonEmpty_mem {inp : Input} (he : EnumsNonEmpty inp) :
    ∀ p ∈ inp.typedefs, ∀ n b ms, p.2 = .enum n b ms → ms ≠ [] := by
  intro p hp n b ms h
  have := (List.all_eq_true.1 he) p hp
  rw [h] at this
  simpa using this

theorem nb_constLines (inp : Input) : nb (constLines inp) = constLines inp := by
  unfold constLines nb
  rw [List.filter_eq_self]
  intro a ha
  obtain ⟨c, _, rfl⟩ := List.mem_map.1 ha
  simp

theorem good_constLines (inp : Input) : Good 1 (constLines inp) := by
  apply good_flat
  intro a ha
  obtain ⟨c, _, rfl⟩ := List.mem_map.1 ha
  exact ⟨rfl, rfl⟩

theorem body_good_ne {inp : Input} {tbody : List ILine} (h : Good 1 (nb tbody)) (hne : tbody = [] ∨ nb tbody ≠ []) :
    Good 1 (nb (bodyOrEllipsis (constLines inp ++ tbody))) ∧ nb (bodyOrEllipsis (constLines inp ++ tbody)) ≠ [] := by
  unfold bodyOrEllipsis
  split
  · next hem =>
    have : nb [(⟨1, .ellipsis⟩ : ILine)] = [⟨1, .ellipsis⟩] := by simp [nb]
    rw [this]; exact ⟨good_single 1 _ rfl, by simp⟩
  · next hem =>
    rw [nb_append, nb_constLines]
    refine ⟨good_append (good_constLines inp) h, ?_⟩
    intro hnil
    rw [List.append_eq_nil_iff] at hnil
    rcases hne with h0 | h0
    · apply hem; simp [hnil.1, h0]
    · exact h0 hnil.2

theorem blocks_wellformed (inp : Input) (ls : List ILine) (h : generate inp = .ok ls) (he : EnumsNonEmpty inp) :
    BlocksOK (ls.filter (fun l => l.line ≠ .blank)) := by
  obtain ⟨tbody, h1, rfl⟩ := generate_ok h
  obtain ⟨h2, h3⟩ := loop_good inp _ _ _ _ h1 (enumsNonEmpty_mem he)
  obtain ⟨h4, h5⟩ := body_good_ne (inp := inp) h2 h3
  have : nb (⟨0, .classHdr inp.clsName (inp.modPrefix ++ "cstruct")⟩ :: bodyOrEllipsis (constLines inp ++ tbody)) =
      ⟨0, .classHdr inp.clsName (inp.modPrefix ++ "cstruct")⟩ :: nb (bodyOrEllipsis (constLines inp ++ tbody)) := by
    simp [nb]
  show BlocksOK (nb _)
  rw [this]
  obtain ⟨g1, _, g3, g4⟩ := good_hdr inp.clsName (inp.modPrefix ++ "cstruct") h4 h5
  exact ⟨g1, g3, g4⟩

/-! ### C20 `c20_bound_names_from_input` -/

theorem args_names (keys : List String) (cp mp : String) :
    ∀ fs : SFields, ∀ n ∈ (fs.args keys cp mp).map (·.1), n ∈ fs.names
  | .nil => by simp [SFields.args]
  | .cons f t rest => by
    intro n hn
    simp only [SFields.args, List.map_cons, List.mem_cons] at hn
    rw [SFields.names]
    rcases hn with rfl | hn
    · exact List.mem_cons_self ..
    · exact List.mem_cons_of_mem _ (List.mem_append_right _ (args_names keys cp mp rest n hn))

mutual
theorem inlineStub_names (keys : List String) (cp mp : String) :
    ∀ t : STy, ∀ l ∈ t.inlineStub keys cp mp, ∀ n ∈ boundNames l.line, n ∈ t.names
  | .arr a t => by
    intro l hl n hn
    rw [inlineStub_arr] at hl
    rw [STy.names]
    exact inlineStub_names keys cp mp t l hl n hn
  | .struct s b fs => by
    intro l hl n hn
    rw [inlineStub_struct] at hl
    rw [STy.names]
    rcases List.mem_cons.1 hl with rfl | hl
    · simp only [boundNames, List.mem_singleton] at hn
      rw [hn]; exact List.mem_cons_self ..
    · apply List.mem_cons_of_mem
      rcases List.mem_append.1 hl with hl | hl
      · exact body_names keys cp mp fs l hl n hn
      · simp only [tail4, List.mem_cons, List.not_mem_nil, or_false] at hl
        rcases hl with rfl | rfl | rfl | rfl | rfl
        · simp [boundNames] at hn
        · exact args_names keys cp mp fs n hn
        · simp [boundNames] at hn
        · simp [boundNames] at hn
        · simp [boundNames] at hn
  | .leaf _ => by simp [STy.inlineStub]
  | .charArr _ => by simp [STy.inlineStub]
  | .wcharArr _ => by simp [STy.inlineStub]
  | .ptr _ _ => by simp [STy.inlineStub]
theorem body_names (keys : List String) (cp mp : String) :
    ∀ fs : SFields, ∀ l ∈ fs.body keys cp mp, ∀ n ∈ boundNames l.line, n ∈ fs.names
  | .nil => by simp [body_nil]
  | .cons f t rest => by
    intro l hl n hn
    rw [body_cons] at hl
    rw [SFields.names]
    rcases List.mem_append.1 hl with hl | hl
    · split at hl
      · obtain ⟨l0, hl0, hline, _⟩ := mem_indent1 hl
        rw [hline] at hn
        exact List.mem_cons_of_mem _ (List.mem_append_left _ (inlineStub_names keys cp mp t l0 hl0 n hn))
      · simp at hl
    · rcases List.mem_cons.1 hl with rfl | hl
      · simp only [boundNames, List.mem_singleton] at hn
        rw [hn]; exact List.mem_cons_self ..
      · exact List.mem_cons_of_mem _ (List.mem_append_right _ (body_names keys cp mp rest l hl n hn))
end

theorem entry_names {inp : Input} {keys d : List String} {key : String} {td : TDef} {stub : List ILine}
    (hs : EntryShape inp keys d key td stub) :
    ∀ l ∈ stub, ∀ n ∈ boundNames l.line, n = key ∨ n ∈ td.names := by
  intro l hl n hn
  cases hs with
  | aliasName tgt hd =>
    simp only [List.mem_singleton] at hl; subst hl
    simp only [boundNames, List.mem_singleton] at hn
    exact .inl hn
  | aliasHint hh hd =>
    simp only [List.mem_singleton] at hl; subst hl
    simp only [boundNames, List.mem_singleton] at hn
    exact .inl hn
  | enum m b ms htd hd =>
    right
    subst htd
    have e1 : enumStub inp.modPrefix m b ms =
        [⟨0, .classHdr m (inp.modPrefix ++ b)⟩] ++ ((ms.map fun k => ⟨1, .member k⟩) ++ [⟨0, .blank⟩]) := rfl
    rw [e1] at hl
    simp only [TDef.names]
    rcases List.mem_append.1 hl with hl | hl
    · simp only [List.mem_singleton] at hl; subst hl
      simp only [boundNames, List.mem_singleton] at hn
      rw [hn]; exact List.mem_cons_self ..
    · rcases List.mem_append.1 hl with hl | hl
      · obtain ⟨k, hk, rfl⟩ := List.mem_map.1 hl
        simp only [boundNames, List.mem_singleton] at hn
        rw [hn]; exact List.mem_cons_of_mem _ hk
      · simp only [List.mem_singleton] at hl; subst hl
        simp [boundNames] at hn
  | struct m b fs htd hd =>
    right
    subst htd
    simp only [TDef.names]
    exact List.mem_cons_of_mem _ (inlineStub_names keys _ _ (.struct m b fs) l hl n hn)
  | generic m b hm hd =>
    right
    simp only [genericStub, List.mem_cons, List.not_mem_nil, or_false] at hl
    rcases hl with rfl | rfl
    · simp only [boundNames, List.mem_singleton] at hn
      rw [hn]; exact hm
    · simp [boundNames] at hn

theorem loop_names (inp : Input) (keys : List String) :
    ∀ tds d res, typedefLoop inp keys tds d = .ok res →
      ∀ l ∈ res, ∀ n ∈ boundNames l.line, ∃ p ∈ tds, n = p.1 ∨ n ∈ p.2.names := by
  apply typedefLoop_ind
  · intro d l hl; simp at hl
  · intro key td rest d res _ ih l hl n hn
    obtain ⟨p, hp, h⟩ := ih l hl n hn
    exact ⟨p, List.mem_cons_of_mem _ hp, h⟩
  · intro key td rest d stub more _ hs ih l hl n hn
    rcases List.mem_append.1 hl with hl | hl
    · obtain ⟨l0, hl0, hline, _⟩ := mem_indent1 hl
      rw [hline] at hn
      exact ⟨(key, td), List.mem_cons_self .., entry_names (entryStub_shape hs) l0 hl0 n hn⟩
    · obtain ⟨p, hp, h⟩ := ih l hl n hn
      exact ⟨p, List.mem_cons_of_mem _ hp, h⟩

theorem bound_names_from_input (P : String → Prop) (inp : Input) (ls : List ILine)
    (h : generate inp = .ok ls) (hP : ∀ n ∈ inputNames inp, P n) :
    ∀ l ∈ ls, ∀ n ∈ boundNames l.line, P n := by
  obtain ⟨tbody, h1, rfl⟩ := generate_ok h
  intro l hl n hn
  apply hP
  unfold inputNames
  rcases List.mem_cons.1 hl with rfl | hl
  · simp only [boundNames, List.mem_singleton] at hn
    rw [hn]; exact List.mem_cons_self ..
  · apply List.mem_cons_of_mem
    unfold bodyOrEllipsis at hl
    split at hl
    · simp only [List.mem_singleton] at hl; subst hl
      simp [boundNames] at hn
    · rcases List.mem_append.1 hl with hl | hl
      · obtain ⟨c, hc, rfl⟩ := List.mem_map.1 hl
        simp only [boundNames, List.mem_singleton] at hn
        rw [hn]
        exact List.mem_append_left _ (List.mem_map.2 ⟨c, hc, rfl⟩)
      · obtain ⟨p, hp, hn'⟩ := loop_names inp _ _ _ _ h1 l hl n hn
        apply List.mem_append_right
        rw [List.mem_flatMap]
        refine ⟨p, hp, ?_⟩
        rcases hn' with rfl | hn'
        · exact List.mem_cons_self ..
        · exact List.mem_cons_of_mem _ hn'

end Cstruct.Stubgen
