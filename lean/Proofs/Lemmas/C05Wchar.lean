/-
  Helper lemmas for C05, wchar part: the UTF-16 codec at the level of code units
  (`decodeWchar`, `unitsOf`, `utf16Ok` in CstructModel/Read.lean, `encodeWchar` in CstructModel/Write.lean).
-/
import CstructModel.Write
import Proofs.Lemmas.C05
namespace Cstruct.C05.Lemmas
open Cstruct

/-- swap the two bytes of every 16-bit unit (a trailing odd byte is kept) -/
def swapPairs : Bytes → Bytes
  | a :: b :: r => b :: a :: swapPairs r
  | r => r

/-- the bytes `encodeWchar` produces for well-formed input -/
def encUnits (e : Endian) (us : List Nat) : Bytes :=
  us.flatMap fun u => match e with
    | .little => [UInt8.ofNat (u % 256), UInt8.ofNat (u / 256)]
    | .big => [UInt8.ofNat (u / 256), UInt8.ofNat (u % 256)]

theorem encUnits_nil (e : Endian) : encUnits e [] = [] := rfl

theorem encUnits_cons (e : Endian) (u : Nat) (r : List Nat) :
    encUnits e (u :: r) = (match e with
      | .little => [UInt8.ofNat (u % 256), UInt8.ofNat (u / 256)]
      | .big => [UInt8.ofNat (u / 256), UInt8.ofNat (u % 256)]) ++ encUnits e r := by
  cases e <;> simp [encUnits]

theorem encodeWchar_ok (e : Endian) (us : List Nat) (hw : utf16Ok us = true) :
    encodeWchar e us = .ok (encUnits e us) := by
  unfold encodeWchar encUnits
  rw [if_pos hw]
  cases e <;> rfl

theorem encodeWchar_ok_inv (e : Endian) (us : List Nat) (bs : Bytes) (h : encodeWchar e us = .ok bs) :
    bs = encUnits e us := by
  unfold encodeWchar at h
  split at h
  · simp only [Except.ok.injEq] at h; exact h.symm
  · cases h

theorem encUnits_length (e : Endian) (us : List Nat) : (encUnits e us).length = 2 * us.length := by
  induction us with
  | nil => rfl
  | cons u r ih =>
    rw [encUnits_cons, List.length_append, ih]
    cases e <;> simp <;> omega

theorem unitsOf_encUnits (e : Endian) (us : List Nat) (hu : ∀ u ∈ us, u < 65536) :
    unitsOf e (encUnits e us) = us := by
  induction us with
  | nil => rfl
  | cons u r ih =>
    have h1 : u < 65536 := hu u (by simp)
    have h2 := ih (fun x hx => hu x (by simp [hx]))
    have hd : (UInt8.ofNat (u / 256)).toNat = u / 256 := u8_small _ (by omega)
    have hm : (UInt8.ofNat (u % 256)).toNat = u % 256 := u8_small _ (by omega)
    rw [encUnits_cons]
    cases e with
    | little =>
      simp only [List.cons_append, List.nil_append, unitsOf, h2, hd, hm]
      congr 1; omega
    | big =>
      simp only [List.cons_append, List.nil_append, unitsOf, h2, hd, hm]
      congr 1; omega

/-- induction over a byte string two bytes at a time -/
theorem pairs_induct (P : Bytes → Prop) (nil : P []) (one : ∀ a, P [a])
    (step : ∀ a b r, P r → P (a :: b :: r)) : ∀ bs, P bs
  | [] => nil
  | [a] => one a
  | a :: b :: r => step a b r (pairs_induct P nil one step r)

theorem u8_ofNat_toNat (a : UInt8) : UInt8.ofNat a.toNat = a := by simp

theorem encUnits_unitsOf (e : Endian) (bs : Bytes) (h : bs.length % 2 = 0) :
    encUnits e (unitsOf e bs) = bs := by
  induction bs using pairs_induct with
  | nil => rfl
  | one a => simp at h
  | step a b r ih =>
    have hr : r.length % 2 = 0 := by simp only [List.length_cons] at h; omega
    have ha := a.toNat_lt
    have hb := b.toNat_lt
    simp only [unitsOf]
    rw [encUnits_cons, ih hr]
    cases e with
    | little =>
      have h1 : (a.toNat + 256 * b.toNat) % 256 = a.toNat := by omega
      have h2 : (a.toNat + 256 * b.toNat) / 256 = b.toNat := by omega
      simp only [h1, h2, u8_ofNat_toNat, List.cons_append, List.nil_append]
    | big =>
      have h1 : (256 * a.toNat + b.toNat) % 256 = b.toNat := by omega
      have h2 : (256 * a.toNat + b.toNat) / 256 = a.toNat := by omega
      simp only [h1, h2, u8_ofNat_toNat, List.cons_append, List.nil_append]

theorem unitsOf_lt (e : Endian) (bs : Bytes) : ∀ u ∈ unitsOf e bs, u < 65536 := by
  induction bs using pairs_induct with
  | nil => intro u hu; simp [unitsOf] at hu
  | one a => intro u hu; simp [unitsOf] at hu
  | step a b r ih =>
    intro u hu
    simp only [unitsOf, List.mem_cons] at hu
    have ha := a.toNat_lt
    have hb := b.toNat_lt
    rcases hu with rfl | hu
    · cases e <;> simp only <;> omega
    · exact ih u hu

theorem decodeWchar_ok_inv (e : Endian) (bs : Bytes) (us : List Nat) (h : decodeWchar e bs = .ok (.wstr us)) :
    bs.length % 2 = 0 ∧ us = unitsOf e bs ∧ utf16Ok us = true := by
  unfold decodeWchar at h
  split at h
  · cases h
  · rename_i hlen
    simp only at h
    split at h
    · rename_i hok
      simp only [Except.ok.injEq, Val.wstr.injEq] at h
      subst h
      exact ⟨by omega, rfl, hok⟩
    · cases h

theorem wchar_roundtrip (e : Endian) (us : List Nat) (hu : ∀ u ∈ us, u < 65536) (hw : utf16Ok us = true) :
    ∃ bs, encodeWchar e us = .ok bs ∧ bs.length = 2 * us.length ∧ decodeWchar e bs = .ok (.wstr us) := by
  refine ⟨_, encodeWchar_ok e us hw, encUnits_length e us, ?_⟩
  unfold decodeWchar
  have hl : ¬ (encUnits e us).length % 2 ≠ 0 := by rw [encUnits_length]; omega
  rw [if_neg hl]
  simp only [unitsOf_encUnits e us hu, hw, if_true]

theorem wchar_roundtrip_bytes (e : Endian) (bs : Bytes) (us : List Nat) (h : decodeWchar e bs = .ok (.wstr us)) :
    encodeWchar e us = .ok bs ∧ bs.length = 2 * us.length ∧ ∀ u ∈ us, u < 65536 := by
  obtain ⟨hlen, rfl, hok⟩ := decodeWchar_ok_inv e bs us h
  have henc := encUnits_unitsOf e bs hlen
  refine ⟨?_, ?_, unitsOf_lt e bs⟩
  · rw [encodeWchar_ok e _ hok, henc]
  · have := encUnits_length e (unitsOf e bs)
    rw [henc] at this
    exact this

theorem wchar_reject (e : Endian) (us : List Nat) (hw : utf16Ok us = false) : encodeWchar e us = .error .unicode := by
  unfold encodeWchar
  rw [hw]
  rfl

theorem wchar_odd (e : Endian) (bs : Bytes) (h : bs.length % 2 = 1) : decodeWchar e bs = .error .unicode := by
  unfold decodeWchar
  rw [if_pos (by omega)]

theorem swapPairs_encUnits (us : List Nat) : encUnits .big us = swapPairs (encUnits .little us) := by
  induction us with
  | nil => rfl
  | cons u r ih =>
    rw [encUnits_cons, encUnits_cons]
    simp only [List.cons_append, List.nil_append, swapPairs, ih]

theorem wchar_byte_order (us : List Nat) (bsl bsb : Bytes) (hl : encodeWchar .little us = .ok bsl)
    (hb : encodeWchar .big us = .ok bsb) : bsb = swapPairs bsl := by
  rw [encodeWchar_ok_inv _ _ _ hl, encodeWchar_ok_inv _ _ _ hb]
  exact swapPairs_encUnits us

end Cstruct.C05.Lemmas
