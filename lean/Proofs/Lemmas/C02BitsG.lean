/-
  Helper lemmas for `Proofs/C02Bits.lean`, part 7 (packed or aligned): the member loop of "parse, then dump", case by case.
-/
import Proofs.Lemmas.C02BitsF
namespace Cstruct.C02B.Lemmas
open Cstruct Cstruct.Core Cstruct.Core.Lemmas Cstruct.C06 Cstruct.C06.Lemmas Cstruct.C02B
open Cstruct.C05.Lemmas (encBytes encBytes_length)
set_option linter.unusedSimpArgs false

theorem pad_eq (start o fo : Nat) (h : o ≤ fo) : (if start + o < start + fo then start + fo - (start + o) else 0) = fo - o := by
  split <;> omega

theorem idleFA_cons_nb (cfg : Cfg) (al : Bool) (name an ty rest) (IHt : TyFA cfg al ty) (IHi : IdleFA cfg al rest) :
    IdleFA cfg al (.cons name an ty none rest) := by
  intro hH st total sa offs hlay _ o ho
  have hHt := hH.tail
  obtain ⟨hS, hU, hP, hN, hD⟩ := hH
  simp only [Fields.fragSB, Bool.and_eq_true] at hS
  simp only [Fields.uniformAlign, Bool.and_eq_true] at hU
  simp only [Fields.pow2Aligned] at hP
  obtain ⟨hD1, _⟩ := defErr_cons hD
  have hN1 : al = true → ty.bitsNatural cfg = true := by
    intro ha
    have := hN ha
    simp only [Fields.bitsNatural, Bool.and_eq_true] at this
    exact this.1
  have hfa := alignment_p2 cfg ty hP.1
  have hle0 := le_alignTo al o (ty.alignment cfg)
  obtain ⟨k, hk⟩ := size_some_ty cfg ty hS.1 hD1
  obtain ⟨hml, hty⟩ := IHt hS.1 hU.1 hP.1 hN1 hD1 k hk
  rw [layout_nb_al cfg al name an ty rest st o k ho hk] at hlay
  obtain ⟨⟨sz', sa', offs'⟩, hlay', heq⟩ := bind_ok hlay
  simp only [Except.ok.injEq, Prod.mk.injEq] at heq
  obtain ⟨rfl, rfl, rfl⟩ := heq
  generalize hfo : alignTo al o (ty.alignment cfg) = fo at *
  obtain ⟨e, hle, htot, hmlen, hrest⟩ := IHi hHt (stNbA cfg al ty k o st) total sa' offs' hlay'
    (lidle_of_rem _ rfl rest) (fo + k) (by simp only [stNbA, hfo])
  have hmask : fieldsMaskB cfg (.cons name an ty none rest) (some fo :: offs') o none =
      zeros (fo - o) ++ (maskB cfg ty ++ fieldsMaskB cfg rest offs' (fo + k) none) := by
    rw [fieldsMaskB_nb]
    simp only [Option.getD_some, flushMask_none, List.nil_append, hml, List.append_assoc]
  refine ⟨e, by omega, htot, ?_, ?_⟩
  · rw [hmask, List.length_append, List.length_append, zeros_length, hml, hmlen]; omega
  intro ctx d start bbR hlen hdv _
  have hpos : al = true → sAlign cfg ty ∣ start + fo := by
    intro ha; subst ha
    have h1 := (hdv rfl).1
    rw [← hfo]
    exact Nat.dvd_trans (sAlign_dvd_alignment cfg ty) (Nat.dvd_add h1 (alignTo_dvd hfa o))
  obtain ⟨v, hr, hv, hw⟩ := hty ctx d (start + fo) (by omega) hpos
  obtain ⟨vs, szs, hrr, hvs, out, bbF, fl, hwr, hfl, hout⟩ := hrest (ctx.set name v) d start BitBuf.empty hlen
    (fun ha => (hdv ha).2) (ridle_of_rem _ rfl rest)
  have hsl : (sread d (start + fo) k).length = k := sread_length_of_le d _ k (by omega)
  have hbl : (andBytes (sread d (start + fo) k) (maskB cfg ty)).length = k := by
    rw [andBytes_length, hsl, hml]; omega
  refine ⟨.cons v vs, (name, start + fo + k - (start + fo)) :: szs, ?_, .cons hv hvs, ?_⟩
  · rw [readFields_cons_S, hr]
    simp only [Except.bind]
    rw [show start + fo + k = start + (fo + k) by omega, hrr]
  · refine ⟨zeros (fo - o) ++ andBytes (sread d (start + fo) k) (maskB cfg ty) ++ out, bbF, fl, ?_, hfl, ?_⟩
    · rw [writeFields_cons_S, pad_eq start o fo hle0, show start + o + (fo - o) = start + fo by omega, hw]
      simp only [Except.bind, List.length_append, zeros_length, hbl]
      rw [show start + o + (fo - o + k) = start + (fo + k) by omega, hwr]
    · have e1 : e - o = (fo - o) + (k + (e - (fo + k))) := by omega
      have hsz : (sread d (start + o) (fo - o)).length = fo - o := sread_length_of_le d _ _ (by omega)
      rw [hmask, e1, sread_add, andBytes_append _ _ _ _ (by rw [hsz, zeros_length]), andBytes_zeros _ _ hsz,
        show start + o + (fo - o) = start + fo by omega, sread_add,
        andBytes_append _ _ _ _ (by rw [hsl, hml]), show start + fo + k = start + (fo + k) by omega, ← hout]
      simp only [List.append_assoc]

theorem idleFA_cons_bit (cfg : Cfg) (al : Bool) (name an ty b rest) (IHi : IdleFA cfg al rest) (IHp : PendFA cfg al rest) :
    IdleFA cfg al (.cons name an ty (some (b + 1)) rest) := by
  intro hH st total sa offs hlay hli o ho
  have hHt := hH.tail
  obtain ⟨hS, hU, hP, hN, hD⟩ := hH
  simp only [Fields.fragSB, Bool.and_eq_true] at hS
  simp only [Fields.pow2Aligned] at hP
  obtain ⟨ft, fsz, hbase, hint, hsz⟩ := bitOk_base ty hS.1
  have hfa := alignment_p2 cfg ty hP.1
  have hnew : st.bitsRemaining = 0 ∨ some ft ≠ st.bitsType := by
    rcases hli with h | h
    · exact Or.inl h
    · rw [hbase] at h; exact Or.inr h
  rw [layout_bit_new_al cfg al name an ty b rest st ft fsz o hbase hsz ho hnew] at hlay
  split at hlay
  · cases hlay
  rename_i hfit
  obtain ⟨⟨sz', sa', offs'⟩, hlay', heq⟩ := bind_ok hlay
  simp only [Except.ok.injEq, Prod.mk.injEq] at heq
  obtain ⟨rfl, rfl, rfl⟩ := heq
  have hle0 := le_alignTo al o (ty.alignment cfg)
  have hfsz : al = true → fsz = ty.alignment cfg := fun ha => bitsNatural_head (hN ha) hbase hsz
  have hual : al = true → fsz ∣ alignTo al o (ty.alignment cfg) := by
    intro ha; rw [hfsz ha]; subst ha; exact alignTo_dvd hfa o
  generalize hfo : alignTo al o (ty.alignment cfg) = fo at *
  have h8 : fsz * 8 = 8 * fsz := Nat.mul_comm _ _
  obtain ⟨e, hle, htot, hmlen, hstep⟩ := bit_stepA cfg al rest IHi IHp hHt (stNewA cfg al ty ft fsz (b + 1) o st) total sa'
    offs' hlay' ft fsz 0 (b + 1) hint hsz rfl (by simp only [stNewA]; omega) (by omega) fo (by simp only [stNewA, hfo])
    (by simp only [stNewA, hfo]) hual 0 (slotMask (slotLo cfg.endian (8 * fsz) 0 (b + 1)) (b + 1)) (by rw [Nat.zero_or])
  simp only [Nat.zero_add] at hmlen hstep
  have hmask : fieldsMaskB cfg (.cons name an ty (some (b + 1)) rest) (some fo :: offs') o none =
      zeros (fo - o) ++ fieldsMaskB cfg rest offs' (fo + fsz)
        (some ⟨fsz, b + 1, slotMask (slotLo cfg.endian (8 * fsz) 0 (b + 1)) (b + 1)⟩) := by
    rw [fieldsMaskB_bit_new cfg name an ty b rest fo offs' o none ft fsz hbase hsz]
    simp only [flushMask_none, List.nil_append, PendMask.first]
  refine ⟨e, by omega, htot, ?_, ?_⟩
  · rw [hmask, List.length_append, zeros_length, hmlen]; omega
  intro ctx d start bbR hlen hdv hri
  have hds : al = true → fsz ∣ start := by
    intro ha; rw [hfsz ha]; exact (hdv ha).1
  have hc : bbR.remaining = 0 ∨ bbR.ty ≠ some ft := by
    rcases hri with h | h
    · exact Or.inl h
    · rw [hbase] at h; exact Or.inr h
  obtain ⟨U, hload, hUF⟩ := loadUnit_fwd cfg ft hint fsz hsz d (start + fo) (by omega) bbR hc
  obtain ⟨v, bbR2, htake, h0, h1, hrest⟩ := hstep d start { ty := some ft, buffer := U, remaining := fsz * 8 }
    { ty := some ft, buffer := 0, remaining := fsz * 8 } U hlen (fun ha => (hdv ha).2) hds hUF rfl
    (by rw [h8]; exact readInv_init _ _ _ _) rfl (by simp only [h8, Nat.sub_zero])
    (by simp only [Nat.and_zero, Int.natCast_zero])
  obtain ⟨vs, szs, hrr, hvs, hput⟩ := hrest (ctx.set name (bitVal ty v))
  obtain ⟨out, bbF, fl, hwr, hfl, hout⟩ := hput (start + o) (fo - o) (by omega)
  refine ⟨.cons (bitVal ty v) vs, szs, ?_, hasTysB_bitVal hS.1 v h0 h1 hvs, zeros (fo - o) ++ out, bbF, fl, ?_, hfl, ?_⟩
  · rw [readFields_cons_bits]
    simp only [hbase, List.head?, Option.join, Option.bind, id, List.drop_one, List.tail_cons, fieldPos_some]
    rw [hload]
    simp only [Except.bind, htake]
    rw [show start + fo + fsz = start + (fo + fsz) by omega, hrr]
  · rw [writeFields_bit_idle_al cfg al name an ty b rest fo offs' _ vs start (start + o) ft fsz v hbase hsz
      (bitVal_cases' ty v), pad_eq start o fo hle0, hwr]
  · have e1 : e - o = (fo - o) + (e - fo) := by omega
    have hsz' : (sread d (start + o) (fo - o)).length = fo - o := sread_length_of_le d _ _ (by omega)
    rw [hmask, e1, sread_add, andBytes_append _ _ _ _ (by rw [hsz', zeros_length]), andBytes_zeros _ _ hsz',
      show start + o + (fo - o) = start + fo by omega, ← hout, List.append_assoc]

theorem pendFA_cons (cfg : Cfg) (al : Bool) (name an ty bits rest) (Hidle : IdleFA cfg al (.cons name an ty bits rest))
    (IHi : IdleFA cfg al rest) (IHp : PendFA cfg al rest) : PendFA cfg al (.cons name an ty bits rest) := by
  intro hH st total sa offs hlay ft fsz k uo hPd M
  by_cases hsame : isBitW bits = true ∧ ty.bitBase = some ft
  · obtain ⟨hb, hbase⟩ := hsame
    rcases bits with _ | _ | b
    · simp [isBitW] at hb
    · simp [isBitW] at hb
    have hHt := hH.tail
    obtain ⟨hS, hU, hP, hN, hD⟩ := hH
    simp only [Fields.fragSB, Bool.and_eq_true] at hS
    simp only [Fields.pow2Aligned] at hP
    have hfa := alignment_p2 cfg ty hP.1
    have hfsz : al = true → fsz = ty.alignment cfg := fun ha => bitsNatural_head (hN ha) hbase hPd.size
    have hd3 : al = true → ty.alignment cfg ∣ uo + fsz := by
      intro ha; rw [← hfsz ha]; exact Nat.dvd_add (hPd.ual ha) (Nat.dvd_refl _)
    have hrem : st.bitsRemaining ≠ 0 := by rw [hPd.lrem]; have := hPd.lt; omega
    rw [layout_bit_cont_al cfg al name an ty b rest st ft fsz uo hbase hPd.size hrem hPd.lty hPd.loff hPd.lbfo
      (alignTo_of_dvd hfa al _ hd3)] at hlay
    split at hlay
    · cases hlay
    rename_i hfit
    obtain ⟨⟨sz', sa', offs'⟩, hlay', heq⟩ := bind_ok hlay
    simp only [Except.ok.injEq, Prod.mk.injEq] at heq
    obtain ⟨rfl, rfl, rfl⟩ := heq
    rw [hPd.lrem] at hfit
    obtain ⟨e, hle, htot, hmlen, hstep⟩ := bit_stepA cfg al rest IHi IHp hHt (stCont cfg ty (b + 1) st) total sa' offs'
      hlay' ft fsz k (b + 1) hPd.isInt hPd.size hPd.lty (by simp only [stCont, hPd.lrem]; omega) (by omega) uo hPd.loff
      hPd.lbfo hPd.ual M _ rfl
    have hmask : fieldsMaskB cfg (.cons name an ty (some (b + 1)) rest) (none :: offs') (uo + fsz) (some ⟨fsz, k, M⟩) =
        fieldsMaskB cfg rest offs' (uo + fsz)
          (some ⟨fsz, k + (b + 1), M ||| slotMask (slotLo cfg.endian (8 * fsz) k (b + 1)) (b + 1)⟩) := by
      rw [fieldsMaskB_bit_cont cfg name an ty b rest offs' (uo + fsz) _ ft fsz hbase hPd.size]
      rfl
    refine ⟨e, hle, htot, by rw [hmask]; exact hmlen, ?_⟩
    intro ctx d start bbR bbW U hlen hdv hds hUF hRty hR hWty hWrem hWbuf
    have hd1 : al = true → ty.alignment cfg ∣ start + uo := by
      intro ha; rw [← hfsz ha]; exact Nat.dvd_add (hds ha) (hPd.ual ha)
    have hd2 : al = true → ty.alignment cfg ∣ start + (uo + fsz) := by
      intro ha
      have := hd1 ha
      rw [← hfsz ha] at this ⊢
      rw [← Nat.add_assoc]
      exact Nat.dvd_add this (Nat.dvd_refl _)
    obtain ⟨v, bbR2, htake, h0, h1, hrest⟩ := hstep d start bbR bbW U hlen (fun ha => (hdv ha).2) hds hUF hRty hR hWty
      hWrem hWbuf
    obtain ⟨vs, szs, hrr, hvs, hput⟩ := hrest (ctx.set name (bitVal ty v))
    obtain ⟨out, bbF, fl, hwr, hfl, hout⟩ := hput (start + uo) 0 rfl
    simp only [zeros_zero, List.nil_append] at hwr
    have hc : ¬ (bbR.remaining = 0 ∨ bbR.ty ≠ some ft) := by
      have := hPd.lt
      rw [hR.2.1, hRty]; simp; omega
    have hwrem : bbW.remaining ≠ 0 := by rw [hWrem]; have := hPd.lt; omega
    refine ⟨.cons (bitVal ty v) vs, szs, ?_, hasTysB_bitVal hS.1 v h0 h1 hvs, out, bbF, fl, ?_, hfl, ?_⟩
    · rw [readFields_cons_bits]
      simp only [hbase, List.head?, Option.join, Option.bind, id, List.drop_one, List.tail_cons, loadUnit, hc, if_false]
      rw [fieldPos_none cfg al ty start _ (fun ha => padNat_of_dvd hfa _ (hd2 ha))]
      simp only [Except.bind, htake, hrr]
    · rw [writeFields_bit_cont_al cfg al name an ty b rest offs' _ vs start (start + uo) ft fsz v bbW hbase hPd.size
        (bitVal_cases' ty v) hWty hwrem (fun ha => padNat_of_dvd hfa _ (hd1 ha)), hwr]
    · rw [hmask]; exact hout
  · have hne : isBitW bits = false ∨ ty.bitBase ≠ some ft := by
      by_cases h1 : isBitW bits = true
      · exact Or.inr (fun h2 => hsame ⟨h1, h2⟩)
      · exact Or.inl (by simpa using h1)
    have hli : LIdle st (.cons name an ty bits rest) := by
      rcases bits with _ | _ | b
      · trivial
      · trivial
      · right
        rw [hPd.lty]
        rcases hne with h | h
        · simp [isBitW] at h
        · exact h
    obtain ⟨e, hle, htot, hmlen, hrest⟩ := Hidle hH st total sa offs hlay hli (uo + fsz) hPd.loff
    have hmf := mask_flushA cfg al _ hH st _ sa offs hlay hli (uo + fsz) hPd.loff (uo + fsz) ⟨fsz, k, M⟩
    refine ⟨e, hle, htot, ?_, ?_⟩
    · rw [hmf, List.length_append, hmlen, flushMask_some, unitBytes_length]; simp only []; omega
    intro ctx d start bbR bbW U hlen hdv hds hUF hRty hR hWty hWrem hWbuf
    have hri : RIdle bbR (.cons name an ty bits rest) := by
      rcases bits with _ | _ | b
      · trivial
      · trivial
      · right
        rw [hRty]
        rcases hne with h | h
        · simp [isBitW] at h
        · exact fun h' => h h'.symm
    obtain ⟨vs, szs, hrr, hvs, out, bbF, fl, hwr, hfl, hout⟩ := hrest ctx d start bbR hlen hdv hri
    have hl : start + uo + fsz ≤ d.length := by omega
    have hF := unit_lt cfg.endian d (start + uo) fsz hl
    have hfl0 := flush_nat cfg ft fsz _ bbW hWty hPd.size hWbuf (and_lt_of_lt _ M _ hF)
    have hl0 : (encBytes cfg.endian fsz (decodeNat cfg.endian (sread d (start + uo) fsz) &&& M)).length = fsz :=
      encBytes_length _ _ _
    obtain ⟨v, vs', rfl⟩ := hasTysB_cons_vals hvs
    refine ⟨_, szs, hrr, hvs,
      encBytes cfg.endian fsz (decodeNat cfg.endian (sread d (start + uo) fsz) &&& M) ++ out, bbF, fl, ?_, hfl, ?_⟩
    · rw [writeFields_flush cfg al name an ty bits rest offs v vs' start bbW _ ft hWty hne, hfl0]
      simp only [Except.bind, hl0]
      rw [show start + uo + fsz = start + (uo + fsz) by omega, hwr]
    · have e1 : e - uo = fsz + (e - (uo + fsz)) := by omega
      have hsl : (sread d (start + uo) fsz).length = fsz := sread_length_of_le d _ fsz hl
      rw [hmf, flushMask_some, e1, sread_add, andBytes_append _ _ _ _ (by rw [hsl, unitBytes_length]),
        List.append_assoc, hout, ← unit_and cfg.endian _ fsz M hsl,
        show start + uo + fsz = start + (uo + fsz) by omega]

end Cstruct.C02B.Lemmas
