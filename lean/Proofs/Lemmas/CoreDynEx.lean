/-
  Non-vacuity material for `Proofs/CoreDyn.lean`: a packed structure with an expression-length array, a LEB128 member, a
  null-terminated string and a trailing static member, and the step-by-step evaluation of `write` on a concrete value
  (`write` is defined by well-founded recursion, so `decide` cannot evaluate it; the unfolding lemmas are applied member
  by member, the codecs are evaluated by `decide +kernel`).
-/
import Proofs.Lemmas.CoreDynW
namespace Cstruct.Core.ExD
open Cstruct Cstruct.Core Cstruct.Core.Lemmas
set_option linter.unusedSimpArgs false

def cfgL : Cfg := { endian := .little, ptr := .pint 4 false, ptrAlign := 4, consts := [] }
def u8 : Ty := .sc (.pint 1 false) 1
def u16 : Ty := .sc (.pint 2 false) 2
def ileb : Ty := .sc (.leb true) 1
def chr : Ty := .sc .char 1
def arrA : Ty := .arr u16 (.expr ["n", "*", "2"])
def strS : Ty := .arr chr .nullTerm
def fsT : Fields := .cons "tail" false u8 none .nil
def fsS : Fields := .cons "s" false strS none fsT
def fsV : Fields := .cons "v" false ileb none fsS
def fsA : Fields := .cons "a" false arrA none fsV
/-- `struct { uint8 n; uint16 a[n * 2]; ileb128 v; char s[]; uint8 tail; }` -/
def fsN : Fields := .cons "n" false u8 none fsA
def tyX : Ty := .struct false fsN
def valA : Val := .list (.cons (.int 0x1234) (.cons (.int 7) .nil))
def vsT : Vals := .cons (.int 9) .nil
def vsS : Vals := .cons (.bytes [104, 105]) vsT
def vsV : Vals := .cons (.int (-300)) vsS
def vsA : Vals := .cons valA vsV
/-- `n = 1, a = [0x1234, 7], v = -300, s = b"hi", tail = 9` -/
def vsN : Vals := .cons (.int 1) vsA
def bytesX : Bytes := [1, 0x34, 0x12, 7, 0, 212, 125, 104, 105, 0, 9]

theorem exT : writeFields cfgL false fsT [none] vsT 0 BitBuf.empty 10 = .ok ([9], BitBuf.empty) := by
  rw [fsT, vsT, writeFields_nb_idle cfgL _ _ _ _ _ _ _ _ 0 10 (fun fo h => by cases h), u8, write_sc]
  have : writeScalar cfgL (.pint 1 false) (.int 9) = .ok [9] := by decide +kernel
  rw [this]
  simp only [Except.bind, writeFields_nil]
  rfl

theorem exS : writeFields cfgL false fsS [none, none] vsS 0 BitBuf.empty 7 = .ok ([104, 105, 0, 9], BitBuf.empty) := by
  rw [fsS, vsS, writeFields_nb_idle cfgL _ _ _ _ _ _ _ _ 0 7 (fun fo h => by cases h), strS, chr, write_arr_bytes]
  simp only [Except.bind, List.cons_append, List.nil_append, List.length_cons, List.length_nil, Nat.reduceAdd, exT]

theorem exV : writeFields cfgL false fsV [none, none, none] vsV 0 BitBuf.empty 5 =
    .ok ([212, 125, 104, 105, 0, 9], BitBuf.empty) := by
  rw [fsV, vsV, writeFields_nb_idle cfgL _ _ _ _ _ _ _ _ 0 5 (fun fo h => by cases h), ileb, write_sc]
  have : writeScalar cfgL (.leb true) (.int (-300)) = .ok [212, 125] := by decide +kernel
  rw [this]
  simp only [Except.bind, List.cons_append, List.nil_append, List.length_cons, List.length_nil, Nat.reduceAdd, exS]

theorem exArr (pos : Nat) : write cfgL arrA valA pos = .ok [0x34, 0x12, 7, 0] := by
  have h1 : writeScalar cfgL (.pint 2 false) (.int 0x1234) = .ok [0x34, 0x12] := by decide +kernel
  have h2 : writeScalar cfgL (.pint 2 false) (.int 7) = .ok [7, 0] := by decide +kernel
  rw [arrA, valA, write_arr_expr_list, writeN_cons, u16, write_sc, h1]
  simp only [Except.bind]
  rw [writeN_cons, write_sc, h2]
  simp only [Except.bind, writeN_nil, List.append_nil, List.cons_append, List.nil_append]

theorem exA : writeFields cfgL false fsA [some 1, none, none, none] vsA 0 BitBuf.empty 1 =
    .ok ([0x34, 0x12, 7, 0, 212, 125, 104, 105, 0, 9], BitBuf.empty) := by
  rw [fsA, vsA, writeFields_nb_idle cfgL _ _ _ _ _ _ _ _ 0 1 (by decide), exArr]
  simp only [Except.bind, List.cons_append, List.nil_append, List.append_nil, List.length_cons, List.length_nil,
    Nat.reduceAdd, exV]

theorem exN : writeFields cfgL false fsN [some 0, some 1, none, none, none] vsN 0 BitBuf.empty 0 =
    .ok (bytesX, BitBuf.empty) := by
  rw [fsN, vsN, writeFields_nb_idle cfgL _ _ _ _ _ _ _ _ 0 0 (by decide), u8, write_sc]
  have : writeScalar cfgL (.pint 1 false) (.int 1) = .ok [1] := by decide +kernel
  rw [this]
  simp only [Except.bind, List.cons_append, List.nil_append, List.length_cons, List.length_nil, Nat.reduceAdd, exA]
  rfl

theorem ex_write : write cfgL tyX (.record vsN) 0 = .ok bytesX := by
  have hl : structLayout cfgL false fsN = .ok (none, 2, [some 0, some 1, none, none, none]) := by decide +kernel
  rw [tyX, write_struct, hl]
  simp only [Except.bind, exN]
  rfl

/-- the value is a value of the type: the array has `n * 2 = 2` elements in the context `{n: 1}` -/
theorem ex_typed : HasTyD cfgL [] (.record vsN) tyX :=
  .struct (.cons (.int rfl (by decide))
    (.cons (.arr (by intro a h; cases h) (by intro a h; cases h) (n := 2) (by decide +kernel)
        (.cons (.int rfl (by decide)) (.cons (.int rfl (by decide)) .nil)))
      (.cons (.leb (by intro h; cases h))
        (.cons (.chars0 (by decide))
          (.cons (.int rfl (by decide)) .nil)))))

end Cstruct.Core.ExD
