/-
  Helper lemmas for `Proofs/C07Null.lean`, part 2: what the round-trip corollaries need from fragment D
  (`Proofs/CoreDyn.lean`).
-/
import Proofs.Lemmas.C07Null
import Proofs.CoreDyn
namespace Cstruct.C07.Lemmas
open Cstruct Cstruct.C07

theorem writeN_length_ge (cfg : Cfg) (e : Ty) : ∀ (vs : List Val) (pos : Nat) (body : Bytes),
    writeN cfg e (Vals.ofList vs) pos = .ok body →
    (∀ v ∈ vs, ∀ p b, write cfg e v p = .ok b → 1 ≤ b.length) → vs.length ≤ body.length := by
  intro vs
  induction vs with
  | nil => intro pos body _ _; simp
  | cons v vs ih =>
    intro pos body hw h
    simp only [Vals.ofList] at hw
    rw [Core.Lemmas.writeN_cons] at hw
    obtain ⟨a, h1, h2⟩ := Core.Lemmas.bind_ok hw
    obtain ⟨b, h3, h4⟩ := Core.Lemmas.bind_ok h2
    cases h4
    have := h v (List.mem_cons_self ..) pos a h1
    have := ih _ _ h3 (fun x hx => h x (List.mem_cons_of_mem _ hx))
    simp only [List.length_cons, List.length_append]
    omega

/-- the default value of a scalar / enum element type is a value of the type and is the terminator -/
theorem default_scalar (cfg : Cfg) (ctx : Ctx) (e : Ty) (he : scalarElem e = true)
    (hc : ∀ a, e ≠ .sc .char a) (hwc : ∀ a, e ≠ .sc .wchar a) :
    Core.HasTyD cfg ctx (e.default cfg) e ∧ isTerminator e (e.default cfg) = true := by
  cases e with
  | sc s a =>
    cases s with
    | pint n sg => exact ⟨by rw [Ty.default]; exact .int rfl (Core.Lemmas.fits_zero n sg), by simp [Ty.default, scalarDefault, isTerminator]⟩
    | aint n sg => exact ⟨by rw [Ty.default]; exact .int rfl (Core.Lemmas.fits_zero n sg), by simp [Ty.default, scalarDefault, isTerminator]⟩
    | leb sg => exact ⟨by rw [Ty.default]; exact .leb (fun _ => Int.le_refl 0), by simp [Ty.default, scalarDefault, isTerminator]⟩
    | pflt n => exact ⟨by rw [Ty.default]; exact .flt (Nat.pow_pos (by omega)), by simp [Ty.default, scalarDefault, isTerminator]⟩
    | char => exact absurd rfl (hc a)
    | wchar => exact absurd rfl (hwc a)
    | void => simp [scalarElem] at he
  | enum b a fl =>
    have hb : Scalar.isInt b = true := by simpa [scalarElem] using he
    exact ⟨by rw [Ty.default]; exact .enum (Core.Lemmas.intFits_zero b hb), by simp [Ty.default, isTerminator]⟩
  | _ => simp [scalarElem] at he

theorem fragD_scalar (cfg : Cfg) (e : Ty) (he : scalarElem e = true) :
    e.fragD cfg = true ∧ e.uniformAlign false = true := by
  cases e with
  | sc s a => exact ⟨by simp [Ty.fragD], by simp [Ty.uniformAlign]⟩
  | enum b a fl => exact ⟨by simpa [Ty.fragD, scalarElem] using he, by simp [Ty.uniformAlign]⟩
  | _ => simp [scalarElem] at he

end Cstruct.C07.Lemmas
