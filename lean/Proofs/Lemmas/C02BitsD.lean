/-
  Helper lemmas for `Proofs/C02Bits.lean`, part 4: "parse, then dump" for every type of fragment SB in packed mode
  (scalars via the fragment-S lemmas, arrays, structures) and the mutual structural recursion that ties the statements
  together (`f_ty`).
-/
import Proofs.Lemmas.C02BitsC
import Proofs.Lemmas.C02
namespace Cstruct.C02B.Lemmas
open Cstruct Cstruct.Core Cstruct.Core.Lemmas Cstruct.C06 Cstruct.C06.Lemmas Cstruct.C02B
open Cstruct.C05.Lemmas (encBytes encBytes_length)
set_option linter.unusedSimpArgs false

/-! ### Scalars, enums, pointers -/

theorem hasTyB_of_sc {cfg : Cfg} {v s a} (h : HasTy cfg v (.sc s a)) : HasTyB cfg v (.sc s a) := by
  cases h with
  | int h1 h2 => exact .int h1 h2
  | flt h1 => exact .flt h1
  | char => exact .char
  | void => exact .void

theorem fragS_of_SB_sc {cfg : Cfg} {s a} (h : (Ty.sc s a).fragSB cfg = true) : (Ty.sc s a).fragS cfg = true := by
  cases s <;> simp [Ty.fragSB] at h <;> simp [Ty.fragS]

theorem f_sc (cfg : Cfg) (s a) : TyF cfg (.sc s a) := by
  intro hS _ _ n hn
  have hS' := fragS_of_SB_sc hS
  have hn' : s.size = some n := by simpa only [Ty.size] using hn
  refine ⟨by simp only [maskB, hn', Option.getD_some, List.length_replicate], ?_⟩
  intro ctx d pos hlen
  obtain ⟨v, hr, hv⟩ := rs_sc cfg s a hS' ctx d pos n hn hlen
  refine ⟨v, hr, hasTyB_of_sc hv, ?_⟩
  rw [read_sc] at hr
  obtain ⟨k, s1, _, s3, s4⟩ := C02.Lemmas.scalar_rw cfg s a hS' d pos v _ hr
  rw [hn'] at s1; cases s1
  rw [write_sc, s4]
  simp only [maskB, hn', Option.getD_some, andBytes_ff n _ s3]

/-- an integer scalar read from enough input, re-encoded -/
theorem int_rw (cfg : Cfg) (b : Scalar) (hi : Scalar.isInt b = true) (n : Nat) (hn : b.size = some n) (d : Bytes)
    (pos : Nat) (hlen : pos + n ≤ d.length) :
    ∃ i, readScalar cfg b d pos = .ok (.int i, pos + n) ∧ intFits b i = true ∧
      writeScalar cfg b (.int i) = .ok (andBytes (sread d pos n) (List.replicate n 0xFF)) := by
  obtain ⟨i, h1, h2⟩ := int_rs cfg b hi d pos n hn hlen
  obtain ⟨k, s1, _, s3, s4⟩ := C02.Lemmas.scalar_rw cfg b 0 (C02.Lemmas.fragS_sc_of_isInt cfg b 0 hi) d pos _ _ h1
  rw [hn] at s1; cases s1
  exact ⟨i, h1, h2, by rw [s4, andBytes_ff n _ s3]⟩

theorem f_enum (cfg : Cfg) (b a f) : TyF cfg (.enum b a f) := by
  intro hS _ _ n hn
  simp only [Ty.fragSB] at hS
  have hn' : b.size = some n := by simpa only [Ty.size] using hn
  refine ⟨by simp only [maskB, hn', Option.getD_some, List.length_replicate], ?_⟩
  intro ctx d pos hlen
  obtain ⟨i, h1, h2, h3⟩ := int_rw cfg b hS n hn' d pos hlen
  refine ⟨.enum i, by rw [read_enum, h1]; rfl, .enum h2, ?_⟩
  rw [write_enum_enum, h3]
  simp only [maskB, hn', Option.getD_some]

theorem f_ptr (cfg : Cfg) (t) : TyF cfg (.ptr t) := by
  intro hS _ _ n hn
  simp only [Ty.fragSB] at hS
  have hn' : cfg.ptr.size = some n := by simpa only [Ty.size] using hn
  refine ⟨by simp only [maskB, hn', Option.getD_some, List.length_replicate], ?_⟩
  intro ctx d pos hlen
  obtain ⟨i, h1, h2, h3⟩ := int_rw cfg cfg.ptr hS n hn' d pos hlen
  refine ⟨.ptr i, by rw [read_ptr, h1]; rfl, .ptr h2, ?_⟩
  rw [write_ptr_ptr, h3]
  simp only [maskB, hn', Option.getD_some]

/-! ### Arrays -/

theorem f_N (cfg : Cfg) (e : Ty) (k : Nat) (d : Bytes) (hml : (maskB cfg e).length = k)
    (hE : ∀ (ctx : Ctx) (pos : Nat), pos + k ≤ d.length →
      ∃ v, read cfg e ctx d pos = .ok (v, pos + k) ∧ HasTyB cfg v e ∧
        write cfg e v pos = .ok (andBytes (sread d pos k) (maskB cfg e))) :
    ∀ (m : Nat) (ctx : Ctx) (pos : Nat), pos + m * k ≤ d.length →
      ∃ vs, readN cfg e m ctx d pos = .ok (vs, pos + m * k) ∧ HasTyNB cfg vs e m ∧
        writeN cfg e vs pos = .ok (andBytes (sread d pos (m * k)) (List.replicate m (maskB cfg e)).flatten) := by
  intro m
  induction m with
  | zero =>
    intro ctx pos _
    refine ⟨.nil, by rw [readN_zero]; simp, .nil, ?_⟩
    rw [writeN_nil]; simp [andBytes_nil_right]
  | succ m ih =>
    intro ctx pos hlen
    have e1 : (m + 1) * k = k + m * k := by rw [Nat.succ_mul]; omega
    rw [e1] at hlen
    obtain ⟨v, h1, h2, h3⟩ := hE ctx pos (by omega)
    obtain ⟨vs, h4, h5, h6⟩ := ih ctx (pos + k) (by omega)
    have hsl : (sread d pos k).length = k := sread_length_of_le d pos k (by omega)
    have hbl : (andBytes (sread d pos k) (maskB cfg e)).length = k := by rw [andBytes_length, hsl, hml]; omega
    refine ⟨.cons v vs, ?_, .cons h2 h5, ?_⟩
    · rw [readN_succ, h1]
      simp only [Except.bind]
      rw [h4, e1, Nat.add_assoc]
    · rw [writeN_cons, h3]
      simp only [Except.bind, hbl]
      rw [h6, e1, sread_add, List.replicate_succ, List.flatten_cons, andBytes_append _ _ _ _ (by rw [hsl, hml])]

theorem f_arr (cfg : Cfg) (e : Ty) (len : Len) (hE : TyF cfg e) : TyF cfg (.arr e len) := by
  intro hS hU hD n hn
  simp only [Ty.fragSB, Bool.and_eq_true] at hS
  simp only [Ty.uniformAlign] at hU
  simp only [Ty.defErr] at hD
  cases len with
  | expr _ => simp at hS
  | nullTerm => simp at hS
  | eof => simp at hS
  | fixed m =>
    obtain ⟨k, hk⟩ := size_some_ty cfg e hS.2 hD
    simp only [Ty.size, hk, Option.some.injEq] at hn
    subst hn
    obtain ⟨hml, hty⟩ := hE hS.2 hU hD k hk
    refine ⟨by simp only [maskB, List.length_flatten, List.map_replicate, List.sum_replicate_nat, hml], ?_⟩
    intro ctx d pos hlen
    by_cases hc : ∃ a, e = .sc .char a
    · obtain ⟨a, rfl⟩ := hc
      simp only [Ty.size, Scalar.size, Option.some.injEq] at hk
      subst hk
      rw [Nat.mul_one] at hlen ⊢
      have hsl : (sread d pos m).length = m := sread_length_of_le d pos m hlen
      have hmask : maskB cfg (.arr (.sc .char a) (.fixed m)) = List.replicate m 0xFF := by
        simp only [maskB, Scalar.size, Option.getD_some, List.flatten_replicate_replicate, Nat.mul_one]
      refine ⟨.bytes (sread d pos m), ?_, .chars hsl, ?_⟩
      · rw [read_arr_fixed, readArray_char]
        split
        · rename_i h0; subst h0; simp [sread_zero]
        · rw [readExact_of_le d pos m hlen]; rfl
      · rw [write_arr_chars, hmask, andBytes_ff m _ hsl]
    · have hne : ∀ a, e ≠ .sc .char a := fun a h => hc ⟨a, h⟩
      obtain ⟨vs, h1, h2, h3⟩ := f_N cfg e k d hml (fun ctx pos hl => hty ctx d pos hl) m ctx pos hlen
      refine ⟨.list vs, ?_, .arr hne h2, ?_⟩
      · rw [read_arr_fixed]
        exact readArray_of_readN_B cfg e hS.2 hne ctx d m pos vs _ h1
      · rw [write_arr_list, if_neg (by rw [hasTyNB_length cfg e m vs h2]; simp), h3]
        simp only [maskB]

/-! ### Structures -/

theorem defErr_struct {cfg : Cfg} {al fs} (h : (Ty.struct al fs).defErr cfg = none) :
    Fields.defErr cfg fs = none ∧ ∃ r, structLayout cfg al fs = .ok r := by
  simp only [Ty.defErr] at h
  split at h
  · cases h
  rename_i h1
  split at h
  · cases h
  rename_i r h2
  exact ⟨h1, r, h2⟩

theorem f_struct (cfg : Cfg) (al : Bool) (fs : Fields) (hF : IdleF cfg fs) : TyF cfg (.struct al fs) := by
  intro hS hU hD n hn
  simp only [Ty.fragSB] at hS
  simp only [Ty.uniformAlign, Bool.and_eq_true, beq_iff_eq] at hU
  obtain ⟨rfl, hU⟩ := hU
  obtain ⟨hD', ⟨sz, sa, offs⟩, hlay⟩ := defErr_struct hD
  have hsz : sz = some n := by
    have h := hlay
    unfold structLayout LState.init at h
    simp only [Ty.size, h] at hn
    exact hn
  subst hsz
  obtain ⟨_, hmlen, hrest⟩ := hF hS hU hD' LState.init n sa offs hlay (lidle_of_rem _ rfl fs) 0 rfl
  have hmask : maskB cfg (.struct false fs) = fieldsMaskB cfg fs offs 0 none := by
    simp only [maskB, hlay, hmlen, Nat.sub_zero, Nat.sub_self, zeros_zero, List.append_nil]
  refine ⟨by rw [hmask, hmlen]; omega, ?_⟩
  intro ctx d pos hlen
  obtain ⟨vs, szs, hrr, hvs, out, bbF, fl, hwr, hfl, hout⟩ := hrest [] d pos BitBuf.empty hlen (ridle_of_rem _ rfl fs)
  simp only [Nat.add_zero, Nat.sub_zero] at hrr hwr hout
  refine ⟨.record vs, ?_, .struct hvs, ?_⟩
  · rw [read_struct, hlay]
    simp only [Except.bind, hrr, Bool.false_eq_true, if_false]
  · rw [write_struct, hlay]
    simp only [Except.bind, hwr, hfl, Bool.false_eq_true, if_false, hout, hmask]

theorem f_union (cfg : Cfg) (al fs) : TyF cfg (.union al fs) := by
  intro hS; simp [Ty.fragSB] at hS

/-! ### Tying the knot -/

mutual
theorem f_ty (cfg : Cfg) : ∀ ty : Ty, TyF cfg ty
  | .sc s a => f_sc cfg s a
  | .enum b a f => f_enum cfg b a f
  | .ptr t => f_ptr cfg t
  | .arr e len => f_arr cfg e len (f_ty cfg e)
  | .struct al fs => f_struct cfg al fs (f_idle cfg fs)
  | .union al fs => f_union cfg al fs
theorem f_idle (cfg : Cfg) : ∀ fs : Fields, IdleF cfg fs
  | .nil => idleF_nil cfg
  | .cons name an ty none rest => idleF_cons_nb cfg name an ty rest (f_ty cfg ty) (f_idle cfg rest)
  | .cons _ _ _ (some 0) _ => fun hS => by simp [Fields.fragSB] at hS
  | .cons name an ty (some (b + 1)) rest => idleF_cons_bit cfg name an ty b rest (f_idle cfg rest) (f_pend cfg rest)
theorem f_pend (cfg : Cfg) : ∀ fs : Fields, PendF cfg fs
  | .nil => pendF_nil cfg
  | .cons name an ty none rest =>
    pendF_cons cfg name an ty none rest (idleF_cons_nb cfg name an ty rest (f_ty cfg ty) (f_idle cfg rest))
      (f_idle cfg rest) (f_pend cfg rest)
  | .cons _ _ _ (some 0) _ => fun hS => by simp [Fields.fragSB] at hS
  | .cons name an ty (some (b + 1)) rest =>
    pendF_cons cfg name an ty (some (b + 1)) rest
      (idleF_cons_bit cfg name an ty b rest (f_idle cfg rest) (f_pend cfg rest)) (f_idle cfg rest) (f_pend cfg rest)
end

end Cstruct.C02B.Lemmas
