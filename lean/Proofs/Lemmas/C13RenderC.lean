/-
  C13, round trip — helper lemmas (3): step budgets, and the top-level handlers on the observed tokens of a rendered declaration.
-/
import Proofs.Lemmas.C13RenderB

namespace Cstruct.DefParser.C13
open Cstruct.DefParser

mutual
theorem szT_le : ∀ (t : TypeRef), wfT t = true → szT t ≤ 2 * (oT t).length
  | .none, h => by simp [wfT] at h
  | .name n, _ => by
    obtain ⟨w, ws, hw⟩ := List.exists_cons_of_ne_nil (typeWordsOf_ne_nil n)
    simp [szT, oT, hw]; omega
  | .structRef t, _ => by simp [szT, oT]
  | .inline a, h => by
    have := szA_le a (by simpa [wfT] using h)
    simp only [szT, oT]; omega
theorem szA_le : ∀ (a : Aggr), wfA false a = true → szA a + 1 ≤ 2 * (oA a).length
  | .mk u tag fs ns, h => by
    simp only [wfA, Bool.and_eq_true] at h
    have := szFs_le fs h.1.2
    simp only [szA, oA, List.length_cons, List.length_append, List.length_nil]; omega
theorem szF_le : ∀ (f : FieldDecl), wfF f = true → szF f + 1 ≤ 2 * (oF f).length
  | .anon t, h => by
    simp only [wfF, Bool.and_eq_true] at h
    have := szT_le t h.2
    simp only [szF, oF, List.length_append, List.length_cons, List.length_nil]; omega
  | .named t d, h => by
    simp only [wfF, Bool.and_eq_true] at h
    have := szT_le t h.1
    simp only [szF, oF, List.length_append, List.length_cons, List.length_nil]; omega
theorem szFs_le : ∀ (fs : List FieldDecl), wfFs fs = true → szFs fs ≤ 2 * (oFs fs).length + 1
  | [], _ => by simp [szFs, oFs]
  | f :: r, h => by
    simp only [wfFs, Bool.and_eq_true] at h
    have h1 := szF_le f h.1
    have h2 := szFs_le r h.2
    simp only [szFs, oFs, List.length_append]; omega
end

/-- the tokens of the names behind `}` -/
def oNames : List (List Char) → List OTok
  | [] => []
  | [n] => [.name n (parseDeclarator n)]
  | n :: r => [.defs (n :: r)]

theorem names_oNames (ns : List (List Char)) (rest : List OTok) : names (oNames ns ++ .eol :: rest) = (ns, rest) := by
  match ns with
  | [] => simp [oNames, names]
  | [n] => simp [oNames, names]
  | n :: m :: r => simp [oNames, names]

/-- the tokens of a rendered declaration -/
def oD : Decl → List OTok
  | .config vs => [.config (some ⟨joinComma vs⟩)]
  | .const n v => [.define (some ⟨n, v⟩)]
  | .enum fl n b ms => [.enum (some ⟨fl, if n.isEmpty then none else some n, some b, ' ' :: membersText ms⟩), .eol]
  | .typedef t ds => .typedef :: oT t ++ ds.map (fun d => .name (declrLex d).text (.ok d)) ++ [.eol]
  | .aggr (.mk u tag fs ns) => .struct u :: tagTok tag ++ .block false :: oFs fs ++ [.block true] ++ oNames ns ++ [.eol]
  | .lookup _ _ => []

/-- the continuation behind a declaration: nothing, or something that is no `;` -/
def notEolHead : List OTok → Bool
  | .eol :: _ => false
  | _ => true

theorem dropEol_of (rest : List OTok) (h : notEolHead rest = true) : dropEol rest = rest := by
  cases rest with
  | nil => rfl
  | cons t r => cases t <;> simp_all [dropEol, notEolHead]

-- ------------------------------------------------------------------------------------------------ splitting at a character
theorem splitOn1_ne_nil (sep : Char) (l : List Char) : splitOn1 sep l ≠ [] := by
  cases l with
  | nil => simp [splitOn1]
  | cons c r =>
    simp only [splitOn1]
    cases splitOn1 sep r with
    | nil => simp
    | cons h t => by_cases hc : c = sep <;> simp [hc]

theorem splitOn1_single (sep : Char) : ∀ (l : List Char), (∀ c ∈ l, c ≠ sep) → splitOn1 sep l = [l]
  | [], _ => rfl
  | c :: r, h => by
    have ih := splitOn1_single sep r (fun x hx => h x (by simp [hx]))
    simp [splitOn1, ih, h c (by simp)]

theorem splitOn1_cons (sep : Char) : ∀ (x y : List Char), (∀ c ∈ x, c ≠ sep) → splitOn1 sep (x ++ sep :: y) = x :: splitOn1 sep y
  | [], y, _ => by
    simp only [List.nil_append, splitOn1]
    cases h : splitOn1 sep y with
    | nil => exact absurd h (splitOn1_ne_nil sep y)
    | cons a b => simp
  | c :: x, y, h => by
    have ih := splitOn1_cons sep x y (fun z hz => h z (by simp [hz]))
    simp [splitOn1, ih, h c (by simp)]

theorem splitOn1_joinComma : ∀ (vs : List (List Char)), vs ≠ [] → (∀ v ∈ vs, ∀ c ∈ v, c ≠ ',') → splitOn1 ',' (joinComma vs) = vs
  | [], h, _ => absurd rfl h
  | [v], _, h => splitOn1_single ',' v (h v (by simp))
  | v :: w :: r, _, h => by
    simp only [joinComma]
    rw [splitOn1_cons ',' v _ (h v (by simp)), splitOn1_joinComma (w :: r) (by simp) (fun x hx => h x (by simp [hx]))]

-- ------------------------------------------------------------------------------------------------ enum members
theorem splitLinesGo_plain : ∀ (l cur : List Char), (∀ c ∈ l, isLineBreak c = false) → cur ≠ [] ∨ l ≠ [] →
    splitLinesGo cur false l = [cur.reverse ++ l]
  | [], cur, _, h => by
    have : cur ≠ [] := by rcases h with h | h; exact h; exact absurd rfl h
    simp [splitLinesGo, this]
  | c :: r, cur, hl, _ => by
    have hc := hl c (by simp)
    have ih := splitLinesGo_plain r (c :: cur) (fun x hx => hl x (by simp [hx])) (.inl (by simp))
    simp [splitLinesGo, hc, ih]

theorem partitionEq_plain : ∀ (l : List Char), (∀ c ∈ l, c ≠ '=') → partitionEq l = (l, [])
  | [], _ => rfl
  | c :: r, h => by
    have ih := partitionEq_plain r (fun x hx => h x (by simp [hx]))
    simp [partitionEq, h c (by simp), ih]

theorem partitionEq_at : ∀ (x y : List Char), (∀ c ∈ x, c ≠ '=') → partitionEq (x ++ '=' :: y) = (x, y)
  | [], y, _ => by simp [partitionEq]
  | c :: x, y, h => by
    have ih := partitionEq_at x y (fun z hz => h z (by simp [hz]))
    simp [partitionEq, h c (by simp), ih]

/-- one `key [= value]` piece of an enum body -/
def enumPiece (v : List Char) : Option (List Char × Option (List Char)) :=
  let key := strip (partitionEq v).1
  let val := strip (partitionEq v).2
  if key.isEmpty then none else some (key, if val.isEmpty then none else some val)

theorem enumMembers_eq (values : List Char) :
    enumMembers values = (splitLines values).flatMap fun line => (splitOn1 ',' line).filterMap enumPiece := by
  unfold enumMembers enumPiece
  rfl

structure MemberOK (m : List Char × Option (List Char)) : Prop where
  kne : m.1 ≠ []
  kstrip : strip m.1 = m.1
  kchars : ∀ c ∈ m.1, c ≠ ',' ∧ c ≠ '=' ∧ isLineBreak c = false
  vok : ∀ v, m.2 = some v → v ≠ [] ∧ strip v = v ∧ ∀ c ∈ v, c ≠ ',' ∧ isLineBreak c = false

theorem memberOK_of (m : List Char × Option (List Char)) (h : memberWF m = true) : MemberOK m := by
  obtain ⟨k, v⟩ := m
  simp only [memberWF, Bool.and_eq_true, Bool.not_eq_true', List.isEmpty_eq_false_iff, beq_iff_eq, List.all_eq_true, bne_iff_ne, ne_eq] at h
  obtain ⟨⟨⟨⟨⟨hkne, hks⟩, -⟩, hkc⟩, hke⟩, hv⟩ := h
  refine ⟨hkne, hks, fun c hc => ⟨(hkc c hc).1.1, hke c hc, (hkc c hc).2⟩, ?_⟩
  intro v' hv'
  simp only at hv'
  subst hv'
  simp only [Bool.and_eq_true, Bool.not_eq_true', List.isEmpty_eq_false_iff, beq_iff_eq, List.all_eq_true, bne_iff_ne, ne_eq] at hv
  exact ⟨hv.1.1.1, hv.1.1.2, fun c hc => ⟨(hv.2 c hc).1.1, (hv.2 c hc).2⟩⟩

theorem enumPiece_member (m : List Char × Option (List Char)) (h : MemberOK m) (tail : List Char) (ht : tail = [] ∨ tail = [' ']) :
    enumPiece (' ' :: memberText m ++ tail) = some m := by
  obtain ⟨k, v⟩ := m
  have hb1 : ([' '] : List Char).all isWs = true := by decide
  have htb : tail.all isWs = true := by rcases ht with rfl | rfl <;> decide
  have hkne : k ≠ [] := h.kne
  have hks : strip k = k := h.kstrip
  have hse : strip ([] : List Char) = [] := by decide
  cases v with
  | none =>
    have hpe : partitionEq (' ' :: k ++ tail) = (' ' :: k ++ tail, []) :=
      partitionEq_plain _ (by
        intro c hc
        simp only [List.cons_append, List.mem_cons, List.mem_append] at hc
        rcases hc with rfl | hc | hc
        · decide
        · exact (h.kchars c hc).2.1
        · rcases ht with rfl | rfl
          · simp at hc
          · simp at hc; subst hc; decide)
    have hs : strip (' ' :: k ++ tail) = k := by
      have := strip_pad [' '] k tail hb1 htb
      simpa [hks] using this
    show enumPiece (' ' :: k ++ tail) = some (k, none)
    unfold enumPiece
    simp only [hpe, hs, hse]
    simp [hkne]
  | some v =>
    obtain ⟨hvne, hvs, hvc⟩ := h.vok v rfl
    have e : ' ' :: memberText (k, some v) ++ tail = (' ' :: k ++ [' ']) ++ '=' :: (' ' :: v ++ tail) := by simp [memberText]
    have hpe : partitionEq ((' ' :: k ++ [' ']) ++ '=' :: (' ' :: v ++ tail)) = (' ' :: k ++ [' '], ' ' :: v ++ tail) :=
      partitionEq_at _ _ (by
        intro c hc
        simp only [List.cons_append, List.mem_cons, List.mem_append, List.mem_nil_iff, or_false] at hc
        rcases hc with rfl | hc | rfl
        · decide
        · exact (h.kchars c hc).2.1
        · decide)
    have hs1 : strip (' ' :: k ++ [' ']) = k := by
      have := strip_pad [' '] k [' '] hb1 hb1
      simpa [hks] using this
    have hs2 : strip (' ' :: v ++ tail) = v := by
      have := strip_pad [' '] v tail hb1 htb
      simpa [hvs] using this
    rw [e]
    unfold enumPiece
    simp only [hpe, hs1, hs2]
    simp [hkne, hvne]

theorem memberText_nocomma (m : List Char × Option (List Char)) (h : MemberOK m) : ∀ c ∈ ' ' :: memberText m, c ≠ ',' := by
  obtain ⟨k, v⟩ := m
  intro c hc
  cases v with
  | none =>
    simp only [memberText, List.mem_cons] at hc
    rcases hc with rfl | hc
    · decide
    · exact (h.kchars c hc).1
  | some v =>
    simp only [memberText, List.mem_cons, List.mem_append] at hc
    rcases hc with rfl | hc | rfl | rfl | rfl | hc
    · decide
    · exact (h.kchars c hc).1
    · decide
    · decide
    · decide
    · exact ((h.vok v rfl).2.2 c hc).1

theorem pieces_members : ∀ (ms : List (List Char × Option (List Char))), ms ≠ [] → (∀ m ∈ ms, MemberOK m) →
    (splitOn1 ',' (' ' :: membersText ms)).filterMap enumPiece = ms
  | [], h, _ => absurd rfl h
  | [m], _, h => by
    have hm := h m (by simp)
    have hnc : ∀ c ∈ ' ' :: membersText [m], c ≠ ',' := by
      intro c hc
      simp only [membersText, List.mem_cons, List.mem_append, List.mem_nil_iff, or_false] at hc
      rcases hc with rfl | hc | rfl
      · decide
      · exact memberText_nocomma m hm c (by simp [hc])
      · decide
    rw [splitOn1_single ',' _ hnc]
    have := enumPiece_member m hm [' '] (.inr rfl)
    simp only [membersText, List.cons_append] at this ⊢
    simp [this]
  | m :: m2 :: r, _, h => by
    have hm := h m (by simp)
    have e : ' ' :: membersText (m :: m2 :: r) = (' ' :: memberText m) ++ ',' :: (' ' :: membersText (m2 :: r)) := by simp [membersText]
    rw [e, splitOn1_cons ',' _ _ (memberText_nocomma m hm)]
    have ih := pieces_members (m2 :: r) (by simp) (fun x hx => h x (by simp [hx]))
    have := enumPiece_member m hm [] (.inl rfl)
    simp only [List.append_nil] at this
    simp [this, ih]

theorem membersText_nobreak : ∀ (ms : List (List Char × Option (List Char))), (∀ m ∈ ms, MemberOK m) →
    ∀ c ∈ membersText ms, isLineBreak c = false
  | [], _, c, hc => by simp [membersText] at hc
  | m :: r, h, c, hc => by
    have hm := h m (by simp)
    have hmt : ∀ c ∈ memberText m, isLineBreak c = false := by
      obtain ⟨k, v⟩ := m
      intro c hc
      cases v with
      | none => exact (hm.kchars c hc).2.2
      | some v =>
        simp only [memberText, List.mem_append, List.mem_cons] at hc
        rcases hc with hc | rfl | rfl | rfl | hc
        · exact (hm.kchars c hc).2.2
        · decide
        · decide
        · decide
        · exact ((hm.vok v rfl).2.2 c hc).2
    cases r with
    | nil =>
      simp only [membersText, List.mem_append, List.mem_cons, List.mem_nil_iff, or_false] at hc
      rcases hc with hc | rfl
      · exact hmt c hc
      · decide
    | cons m2 r2 =>
      simp only [membersText, List.mem_append, List.mem_cons] at hc
      rcases hc with hc | rfl | rfl | hc
      · exact hmt c hc
      · decide
      · decide
      · exact membersText_nobreak (m2 :: r2) (fun x hx => h x (by simp [hx])) c hc

/-- the member loop of `_enum` on a rendered enum body -/
theorem enumMembers_render (ms : List (List Char × Option (List Char))) (h : ∀ m ∈ ms, MemberOK m) :
    enumMembers (' ' :: membersText ms) = ms := by
  have hl : splitLines (' ' :: membersText ms) = [' ' :: membersText ms] := by
    have := splitLinesGo_plain (' ' :: membersText ms) [] (by
      intro c hc
      simp only [List.mem_cons] at hc
      rcases hc with rfl | hc
      · decide
      · exact membersText_nobreak ms h c hc) (.inr (by simp))
    simpa [splitLines] using this
  rw [enumMembers_eq, hl]
  simp only [List.flatMap_cons, List.flatMap_nil, List.append_nil]
  cases ms with
  | nil =>
    have : splitOn1 ',' (' ' :: membersText []) = [[' ']] := by simp [membersText, splitOn1]
    rw [this]
    decide
  | cons m r => exact pieces_members (m :: r) (by simp) h

end Cstruct.DefParser.C13
