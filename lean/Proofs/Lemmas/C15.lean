import CstructModel.Sched
namespace Cstruct.C15.Lemmas
open Cstruct Cstruct.Sched
end Cstruct.C15.Lemmas
