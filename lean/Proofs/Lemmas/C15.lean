/-
  C15 — helper lemmas for `Proofs/C15.lean`.

  * index-wise characterisation of the sequential rewriting (`Good`),
  * the per-thread invariant `ThInv`, the cell invariant `Cells`, the "final cells stay final" monotonicity,
  * preservation by `step` and `run`,
  * a progress measure for a thread running alone.
-/
import CstructModel.Sched

namespace Cstruct.C15.Lemmas
open Cstruct Cstruct.Sched Cstruct.Expr

/-! ### The sequential rewriting, index-wise -/

/-- what the rewriting loop writes over token `t` when the previous (rewritten) token is `prev` -/
def mark (prev : Option String) (t : String) : String :=
  if t = "-" then
    match prev with
    | none => Gen.minusMarker
    | some p => if ctxTok p then Gen.minusMarker else t
  else t

theorem rewriteFrom_cons (prev : Option String) (t : String) (r : List String) :
    rewriteFrom prev (t :: r) = mark prev t :: rewriteFrom (some (mark prev t)) r := rfl

theorem marker_ne : Gen.minusMarker ≠ "-" := by decide

theorem rewriteFrom_length (l : List String) : ∀ prev, (rewriteFrom prev l).length = l.length := by
  induction l with
  | nil => intro _; rfl
  | cons t r ih => intro prev; rw [rewriteFrom_cons, List.length_cons, List.length_cons, ih]

theorem rewriteFrom_get (l : List String) : ∀ prev i, i < l.length →
    (rewriteFrom prev l)[i]? =
      some (mark (if i = 0 then prev else (rewriteFrom prev l)[i - 1]?) (l.getD i "")) := by
  induction l with
  | nil => intro _ i h; exact absurd h (Nat.not_lt_zero _)
  | cons t r ih =>
    intro prev i h
    rw [rewriteFrom_cons]
    cases i with
    | zero => simp
    | succ i =>
      have hi : i < r.length := by simpa using h
      have := ih (some (mark prev t)) i hi
      simp only [List.getElem?_cons_succ, this, List.getD_cons_succ, Nat.add_sub_cancel, Nat.add_one_ne_zero,
        if_false]
      cases i with
      | zero => simp
      | succ j => simp

/-- `F` is the sequential rewriting of `O`, stated cell by cell -/
structure Good (O F : List String) : Prop where
  len : F.length = O.length
  ne : ∀ i : Nat, O[i]? ≠ some "-" → F[i]? = O[i]?
  zero : O[0]? = some "-" → F[0]? = some Gen.minusMarker
  ctxT : ∀ (i : Nat) (p : String), 0 < i → O[i]? = some "-" → F[i - 1]? = some p → ctxTok p = true → F[i]? = some Gen.minusMarker
  ctxF : ∀ (i : Nat) (p : String), 0 < i → O[i]? = some "-" → F[i - 1]? = some p → ctxTok p = false → F[i]? = some "-"
  alt : ∀ i : Nat, F[i]? = O[i]? ∨ F[i]? = some Gen.minusMarker

theorem good_rewriteMinus (O : List String) : Good O (rewriteMinus O) := by
  have hlen : (rewriteMinus O).length = O.length := rewriteFrom_length O none
  have hget : ∀ i, i < O.length → (rewriteMinus O)[i]? =
      some (mark (if i = 0 then none else (rewriteMinus O)[i - 1]?) (O.getD i "")) :=
    fun i h => rewriteFrom_get O none i h
  have hO : ∀ i, i < O.length → O[i]? = some (O.getD i "") := by
    intro i h; simp [List.getD_eq_getElem?_getD, List.getElem?_eq_getElem h]
  have hout : ∀ i, ¬ i < O.length → (rewriteMinus O)[i]? = O[i]? := by
    intro i h
    rw [List.getElem?_eq_none (by omega), List.getElem?_eq_none (by omega)]
  refine ⟨hlen, ?_, ?_, ?_, ?_, ?_⟩
  · intro i hne
    by_cases h : i < O.length
    · rw [hget i h, hO i h]
      rw [hO i h] at hne
      have : O.getD i "" ≠ "-" := fun e => hne (by rw [e])
      simp only [mark, if_neg this]
    · exact hout i h
  · intro h0
    have h : 0 < O.length := by
      cases O with
      | nil => simp at h0
      | cons => simp
    rw [hO 0 h] at h0
    rw [hget 0 h, Option.some.inj h0]
    simp [mark]
  · intro i p hi hO' hp hc
    have h : i < O.length := by
      apply Nat.lt_of_not_le; intro hle
      rw [List.getElem?_eq_none hle] at hO'; cases hO'
    rw [hO i h] at hO'
    rw [hget i h, Option.some.inj hO', if_neg (by omega), hp]
    simp [mark, hc]
  · intro i p hi hO' hp hc
    have h : i < O.length := by
      apply Nat.lt_of_not_le; intro hle
      rw [List.getElem?_eq_none hle] at hO'; cases hO'
    rw [hO i h] at hO'
    rw [hget i h, Option.some.inj hO', if_neg (by omega), hp]
    simp [mark, hc]
  · intro i
    by_cases h : i < O.length
    · rw [hget i h, hO i h]
      unfold mark
      split
      · split
        · right; rfl
        · split
          · right; rfl
          · left; rfl
      · left; rfl
    · left; exact hout i h

/-! ### Invariants -/

/-- every cell is its original or its final content, and the length is unchanged -/
def Cells (O F toks : List String) : Prop :=
  toks.length = O.length ∧ ∀ j : Nat, toks[j]? = O[j]? ∨ toks[j]? = F[j]?

/-- per-thread invariant -/
def ThInv (O F toks : List String) (t : Th) : Prop :=
  match t.ph with
  | .readCur => t.i ≤ O.length ∧ (∀ j, j < t.i → toks[j]? = F[j]?) ∧ t.seen = []
  | .readPrev => 0 < t.i ∧ t.i < O.length ∧ (∀ j, j < t.i → toks[j]? = F[j]?) ∧ O[t.i]? = some "-" ∧ t.seen = []
  | .write => t.i < O.length ∧ (∀ j, j < t.i → toks[j]? = F[j]?) ∧ O[t.i]? = some "-" ∧
      F[t.i]? = some Gen.minusMarker ∧ t.seen = []
  | .main => t.i ≤ O.length ∧ toks = F ∧ t.seen = F.take t.i

/-- final cells stay final -/
def Mono (F toks toks' : List String) : Prop :=
  toks'.length = toks.length ∧ ∀ j : Nat, toks[j]? = F[j]? → toks'[j]? = F[j]?

theorem mono_refl (F toks : List String) : Mono F toks toks := ⟨rfl, fun _ h => h⟩

theorem thInv_mono {O F toks toks' : List String} {t : Th}
    (hm : Mono F toks toks') (h : ThInv O F toks t) : ThInv O F toks' t := by
  unfold ThInv at *
  cases hph : t.ph <;> simp only [hph] at h ⊢
  · exact ⟨h.1, fun j hj => hm.2 j (h.2.1 j hj), h.2.2⟩
  · exact ⟨h.1, h.2.1, fun j hj => hm.2 j (h.2.2.1 j hj), h.2.2.2⟩
  · exact ⟨h.1, fun j hj => hm.2 j (h.2.1 j hj), h.2.2⟩
  · refine ⟨h.1, ?_, h.2.2⟩
    apply List.ext_getElem?
    intro j
    apply hm.2
    rw [h.2.1]

theorem getD_eq (l : List String) (i : Nat) : l.getD i "" = (l[i]?).getD "" := List.getD_eq_getElem?_getD ..

theorem get_of_lt (l : List String) (i : Nat) (h : i < l.length) : l[i]? = some (l.getD i "") := by
  simp [List.getD_eq_getElem?_getD, List.getElem?_eq_getElem h]

/-- One step of a thread satisfying its invariant: the cell invariant and the thread's own invariant are
    preserved and final cells stay final. -/
theorem step_inv {O F toks : List String} {t : Th} (hg : Good O F) (hc : Cells O F toks)
    (ht : ThInv O F toks t) :
    Cells O F (step t toks).2 ∧ ThInv O F (step t toks).2 (step t toks).1 ∧ Mono F toks (step t toks).2 := by
  obtain ⟨i, ph, seen⟩ := t
  have hlen := hc.1
  cases ph
  · -- readCur
    simp only [ThInv] at ht
    obtain ⟨hle, hfin, hseen⟩ := ht
    simp only [step]
    by_cases h1 : i ≥ toks.length
    · rw [if_pos h1]
      refine ⟨hc, ?_, mono_refl _ _⟩
      simp only [ThInv]
      refine ⟨Nat.zero_le _, ?_, by simp [hseen]⟩
      apply List.ext_getElem?
      intro j
      by_cases hj : j < i
      · exact hfin j hj
      · rw [List.getElem?_eq_none (by omega), List.getElem?_eq_none (by have := hg.len; omega)]
    · rw [if_neg h1]
      have hi : i < toks.length := Nat.lt_of_not_le h1
      have hti := get_of_lt toks i hi
      by_cases h2 : toks.getD i "" = "-"
      · rw [if_pos h2]
        rw [h2] at hti
        -- the original cell is "-"
        have hO : O[i]? = some "-" := by
          rcases hc.2 i with h | h
          · rw [← h]; exact hti
          · rcases hg.alt i with h' | h'
            · rw [← h', ← h]; exact hti
            · rw [h, h'] at hti
              exact absurd (Option.some.inj hti) marker_ne
        by_cases h3 : i = 0
        · rw [if_pos h3]
          refine ⟨hc, ?_, mono_refl _ _⟩
          simp only [ThInv]
          subst h3
          exact ⟨by omega, hfin, hO, hg.zero hO, hseen⟩
        · rw [if_neg h3]
          refine ⟨hc, ?_, mono_refl _ _⟩
          simp only [ThInv]
          exact ⟨by omega, by omega, hfin, hO, hseen⟩
      · rw [if_neg h2]
        refine ⟨hc, ?_, mono_refl _ _⟩
        simp only [ThInv]
        refine ⟨by omega, ?_, hseen⟩
        intro j hj
        by_cases hji : j < i
        · exact hfin j hji
        · have : j = i := by omega
          subst this
          rcases hc.2 j with h | h
          · rw [h]
            symm
            apply hg.ne
            rw [← h, hti]
            intro e
            exact h2 (Option.some.inj e)
          · exact h
  · -- readPrev
    simp only [ThInv] at ht
    obtain ⟨hpos, hlt, hfin, hO, hseen⟩ := ht
    simp only [step]
    have hp : F[i - 1]? = some (toks.getD (i - 1) "") := by
      rw [← hfin (i - 1) (by omega)]
      exact get_of_lt toks (i - 1) (by omega)
    by_cases h1 : ctxTok (toks.getD (i - 1) "") = true
    · rw [if_pos h1]
      refine ⟨hc, ?_, mono_refl _ _⟩
      simp only [ThInv]
      exact ⟨hlt, hfin, hO, hg.ctxT i _ hpos hO hp h1, hseen⟩
    · rw [if_neg h1]
      refine ⟨hc, ?_, mono_refl _ _⟩
      simp only [ThInv]
      refine ⟨by omega, ?_, hseen⟩
      have hFi : F[i]? = some "-" := hg.ctxF i _ hpos hO hp (by simpa using h1)
      intro j hj
      by_cases hji : j < i
      · exact hfin j hji
      · have : j = i := by omega
        subst this
        rcases hc.2 j with h | h
        · rw [h, hO, hFi]
        · exact h
  · -- write
    simp only [ThInv] at ht
    obtain ⟨hlt, hfin, hO, hFi, hseen⟩ := ht
    simp only [step]
    have hset : ∀ j, (toks.set i Gen.minusMarker)[j]? = if j = i then F[j]? else toks[j]? := by
      intro j
      rw [List.getElem?_set]
      by_cases hji : i = j
      · subst hji
        rw [if_pos rfl, if_pos rfl, if_pos (by omega), hFi]
      · rw [if_neg hji, if_neg (fun e => hji e.symm)]
    refine ⟨⟨by rw [List.length_set]; exact hlen, ?_⟩, ?_, ⟨List.length_set .., ?_⟩⟩
    · intro j
      rw [hset j]
      by_cases hji : j = i
      · rw [if_pos hji]; right; rfl
      · rw [if_neg hji]; exact hc.2 j
    · simp only [ThInv]
      refine ⟨by omega, ?_, hseen⟩
      intro j hj
      rw [hset j]
      by_cases hji : j = i
      · rw [if_pos hji]
      · rw [if_neg hji]; exact hfin j (by omega)
    · intro j h
      rw [hset j]
      by_cases hji : j = i
      · rw [if_pos hji]
      · rw [if_neg hji]; exact h
  · -- main
    simp only [ThInv] at ht
    obtain ⟨hle, htoks, hseen⟩ := ht
    simp only [step]
    by_cases h1 : i ≥ toks.length
    · rw [if_pos h1]
      refine ⟨hc, ?_, mono_refl _ _⟩
      simp only [ThInv]
      exact ⟨hle, htoks, hseen⟩
    · rw [if_neg h1]
      refine ⟨hc, ?_, mono_refl _ _⟩
      simp only [ThInv]
      refine ⟨by omega, htoks, ?_⟩
      have hi : i < F.length := by rw [← htoks]; omega
      rw [hseen, htoks, List.take_add_one, List.getD_eq_getElem?_getD, List.getElem?_eq_getElem hi]
      simp

/-! ### Global invariant and `run` -/

def Inv (O F : List String) (ths : List Th) (toks : List String) : Prop :=
  Cells O F toks ∧ ∀ t ∈ ths, ThInv O F toks t

theorem inv_init (O : List String) (k : Nat) : Inv O (rewriteMinus O) (List.replicate k Th.init) O := by
  refine ⟨⟨rfl, fun j => Or.inl rfl⟩, ?_⟩
  intro t ht
  rw [List.eq_of_mem_replicate ht]
  simp only [ThInv, Th.init]
  exact ⟨Nat.zero_le _, fun j hj => absurd hj (Nat.not_lt_zero _), trivial⟩

theorem inv_step {O F : List String} (hg : Good O F) {ths : List Th} {toks : List String} {tid : Nat} {t : Th}
    (hinv : Inv O F ths toks) (ht : ths[tid]? = some t) :
    Inv O F (ths.set tid (step t toks).1) (step t toks).2 := by
  have hmem : t ∈ ths := List.mem_of_getElem? ht
  obtain ⟨hc', ht', hm⟩ := step_inv hg hinv.1 (hinv.2 t hmem)
  refine ⟨hc', ?_⟩
  intro u hu
  rcases List.mem_or_eq_of_mem_set hu with h | h
  · exact thInv_mono hm (hinv.2 u h)
  · rw [h]; exact ht'

theorem inv_run {O F : List String} (hg : Good O F) (sched : List Nat) : ∀ (ths : List Th) (toks : List String),
    Inv O F ths toks → Inv O F (run ths toks sched).1 (run ths toks sched).2 := by
  induction sched with
  | nil => intro ths toks h; exact h
  | cons tid rest ih =>
    intro ths toks h
    unfold Sched.run
    cases hget : ths[tid]? with
    | none => exact ih ths toks h
    | some t => exact ih _ _ (inv_step hg h hget)

theorem finished_iff (t : Th) (n : Nat) : t.finished n = true ↔ t.ph = .main ∧ t.i ≥ n := by
  simp [Th.finished]

theorem seen_of_finished {O F toks : List String} {t : Th} (hg : Good O F) (ht : ThInv O F toks t)
    (hf : t.finished O.length = true) : t.seen = F := by
  obtain ⟨hph, hi⟩ := (finished_iff _ _).mp hf
  simp only [ThInv, hph] at ht
  rw [ht.2.2]
  apply List.take_of_length_le
  have := hg.len
  omega

theorem rewrite_benign (toks0 : List String) (k : Nat) (sched : List Nat) :
    let final := Expr.rewriteMinus toks0
    let r := run (List.replicate k Th.init) toks0 sched
    r.2.length = toks0.length ∧
    (∀ i, i < toks0.length → r.2.getD i "" = toks0.getD i "" ∨ r.2.getD i "" = final.getD i "") ∧
    (∀ t ∈ r.1, t.finished toks0.length = true → t.seen = final) := by
  intro final r
  have hg := good_rewriteMinus toks0
  have hinv : Inv toks0 final r.1 r.2 := inv_run hg sched _ _ (inv_init toks0 k)
  refine ⟨hinv.1.1, ?_, ?_⟩
  · intro i _
    rw [getD_eq, getD_eq, getD_eq]
    rcases hinv.1.2 i with h | h
    · left; rw [h]
    · right; rw [h]
  · intro t ht hf
    exact seen_of_finished hg (hinv.2 t ht) hf

/-! ### A thread running alone finishes -/

/-- progress measure -/
def mu (n : Nat) (t : Th) : Nat :=
  match t.ph with
  | .readCur => (n + 1) + 3 * (n - t.i) + 2
  | .readPrev => (n + 1) + 3 * (n - t.i) + 1
  | .write => (n + 1) + 3 * (n - t.i)
  | .main => n - t.i

theorem step_finished {t : Th} {toks : List String} (hf : t.finished toks.length = true) :
    step t toks = (t, toks) := by
  obtain ⟨hph, hi⟩ := (finished_iff _ _).mp hf
  obtain ⟨i, ph, seen⟩ := t
  simp only at hph hi
  subst hph
  simp only [step, if_pos hi]

theorem run_finished (m : Nat) (t : Th) (toks : List String) (hf : t.finished toks.length = true) :
    run [t] toks (List.replicate m 0) = ([t], toks) := by
  induction m with
  | zero => rfl
  | succ m ih =>
    rw [List.replicate_succ]
    unfold Sched.run
    simp only [List.getElem?_cons_zero, step_finished hf, List.set_cons_zero]
    exact ih

theorem step_progress {O F toks : List String} {t : Th} (hc : Cells O F toks) (ht : ThInv O F toks t)
    (hnf : t.finished O.length = false) : mu O.length (step t toks).1 < mu O.length t := by
  obtain ⟨i, ph, seen⟩ := t
  have hlen := hc.1
  cases ph
  · simp only [ThInv] at ht
    simp only [step]
    split
    · simp only [mu]; omega
    · split
      · split
        · simp only [mu]; omega
        · simp only [mu]; omega
      · simp only [mu]; omega
  · simp only [ThInv] at ht
    simp only [step]
    split
    · simp only [mu]; omega
    · simp only [mu]; omega
  · simp only [ThInv] at ht
    simp only [step, mu]
    omega
  · simp only [ThInv] at ht
    have hi : ¬ i ≥ O.length := by
      intro h
      have : Th.finished ⟨i, .main, seen⟩ O.length = true := (finished_iff _ _).mpr ⟨rfl, h⟩
      rw [this] at hnf; cases hnf
    simp only [step, hlen, if_neg hi, mu]
    omega

theorem alone_progress {O F : List String} (hg : Good O F) (m : Nat) : ∀ (t : Th) (toks : List String),
    Inv O F [t] toks →
    ∃ t', (run [t] toks (List.replicate m 0)).1 = [t'] ∧
      (t'.finished O.length = true ∨ mu O.length t' + m ≤ mu O.length t) := by
  induction m with
  | zero => intro t toks _; exact ⟨t, rfl, Or.inr (Nat.le_refl _)⟩
  | succ m ih =>
    intro t toks hinv
    cases hf : t.finished O.length with
    | true =>
      have hf' : t.finished toks.length = true := by rw [hinv.1.1]; exact hf
      exact ⟨t, by rw [run_finished _ _ _ hf'], Or.inl hf⟩
    | false =>
      have hstep := inv_step (tid := 0) hg hinv (t := t) rfl
      have hprog := step_progress hinv.1 (hinv.2 t (List.mem_singleton.mpr rfl)) hf
      rw [List.set_cons_zero] at hstep
      obtain ⟨t', hrun, hfin⟩ := ih _ _ hstep
      refine ⟨t', ?_, ?_⟩
      · rw [List.replicate_succ]
        unfold Sched.run
        simp only [List.getElem?_cons_zero, List.set_cons_zero]
        exact hrun
      · rcases hfin with h | h
        · exact Or.inl h
        · right; omega

theorem alone (toks0 : List String) :
    ∃ n, ∀ m, n ≤ m → ∀ t ∈ (run [Th.init] toks0 (List.replicate m 0)).1,
      t.finished toks0.length = true ∧ t.seen = Expr.rewriteMinus toks0 := by
  refine ⟨4 * toks0.length + 4, ?_⟩
  intro m hm t ht
  have hg := good_rewriteMinus toks0
  have hinit : Inv toks0 (rewriteMinus toks0) [Th.init] toks0 := inv_init toks0 1
  have hinv := inv_run hg (List.replicate m 0) _ _ hinit
  obtain ⟨t', hrun, hfin⟩ := alone_progress hg m _ _ hinit
  rw [hrun] at ht
  have htt : t = t' := List.mem_singleton.mp ht
  subst htt
  have hf : t.finished toks0.length = true := by
    rcases hfin with h | h
    · exact h
    · exfalso
      have : mu toks0.length Th.init = toks0.length + 1 + 3 * toks0.length + 2 := by
        simp [mu, Th.init]
      omega
  refine ⟨hf, ?_⟩
  apply seen_of_finished hg (hinv.2 t ?_) hf
  rw [hrun]; exact List.mem_singleton.mpr rfl

/-! ### Memo tables -/

theorem memo_transparent {K V} [DecidableEq K] (f : K → V) (m : List (K × V)) (hm : ∀ p ∈ m, p.2 = f p.1) (k : K) :
    (memoGet f m k).1 = f k ∧ ∀ p ∈ (memoGet f m k).2, p.2 = f p.1 := by
  unfold memoGet
  cases hfind : m.find? (·.1 = k) with
  | none =>
    refine ⟨rfl, ?_⟩
    intro p hp
    rcases List.mem_cons.mp hp with h | h
    · rw [h]
    · exact hm p h
  | some kv =>
    obtain ⟨k', v⟩ := kv
    have hmem := List.mem_of_find?_eq_some hfind
    have hpred := List.find?_some hfind
    simp only [decide_eq_true_eq] at hpred
    refine ⟨?_, hm⟩
    have := hm _ hmem
    simp only at this
    rw [this, hpred]

end Cstruct.C15.Lemmas
