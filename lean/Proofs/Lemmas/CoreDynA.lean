/-
  Helper lemmas for `Proofs/CoreDyn.lean`, part 1: the leaves that fragment D adds to fragment SB —
  LEB128 scalars, `wchar` scalars and arrays, and the null-terminated readers (`readScalar0`) run forward on
  "elements ++ terminator".
-/
import Proofs.Spec.CoreDyn
import Proofs.Lemmas.CoreBitsRT
import Proofs.Lemmas.C05Wchar
import Proofs.Lemmas.C07
namespace Cstruct.Core.Lemmas
open Cstruct Cstruct.Core
open Cstruct.C05.Lemmas (encUnits encUnits_cons encUnits_length encodeWchar_ok encodeWchar_ok_inv u8_small)
set_option linter.unusedSimpArgs false

/-! ### Scalar round trips, as a predicate on the written bytes -/

/-- the bytes `bs` parse back to `v` with the scalar reader, wherever they are embedded -/
def ScRT (cfg : Cfg) (s : Scalar) (v : Val) (bs : Bytes) : Prop :=
  ∀ (pre post : Bytes) (pos : Nat), pre.length = pos →
    readScalar cfg s (pre ++ bs ++ post) pos = .ok (v, pos + bs.length)

theorem scrt_int (cfg : Cfg) (s : Scalar) (v : Int) (hi : Scalar.isInt s = true) (hf : intFits s v = true)
    (bs : Bytes) (hw : writeScalar cfg s (.int v) = .ok bs) :
    ScRT cfg s (.int v) bs ∧ s.size = some bs.length := by
  obtain ⟨bs', k, h1, h2, h3, h4⟩ := int_wr cfg s v hi hf
  rw [hw] at h1
  cases h1
  refine ⟨?_, by rw [h2, h3]⟩
  intro pre post pos hp
  rw [h3]; exact h4 pre post pos hp

theorem scrt_leb (cfg : Cfg) (sg : Bool) (v : Int) (hv : sg = false → 0 ≤ v) (bs : Bytes)
    (hw : writeScalar cfg (.leb sg) (.int v) = .ok bs) : ScRT cfg (.leb sg) (.int v) bs ∧ 1 ≤ bs.length := by
  simp only [writeScalar, lebWrite] at hw
  split at hw
  · cases hw
  cases hw
  constructor
  · intro pre post pos hp
    simp only [readScalar]
    have hd : (pre ++ lebWriteLoop sg v ++ post).drop pos = lebWriteLoop sg v ++ post := by
      rw [List.append_assoc, ← hp, List.drop_left]
    rw [hd, C05.Lemmas.leb_roundtrip_read sg v post hv]
    simp only [List.length_append, Except.ok.injEq, Prod.mk.injEq, true_and]
    omega
  · obtain ⟨init, last, h, _⟩ := C05.Lemmas.leb_shape sg v
    rw [h]; simp

/-- a non-zero integer that fits an integer scalar needs at least one byte -/
theorem int_size_pos (s : Scalar) (v : Int) (hi : Scalar.isInt s = true) (hf : intFits s v = true) (hv : v ≠ 0) (k : Nat)
    (hk : s.size = some k) : 1 ≤ k := by
  cases s with
  | pint n sg =>
    simp only [Scalar.size, Option.some.injEq] at hk; subst hk
    cases n with
    | succ n => omega
    | zero =>
      exfalso
      simp only [intFits, fits] at hf
      cases sg <;> simp at hf <;> omega
  | aint n sg =>
    simp only [Scalar.size, Option.some.injEq] at hk; subst hk
    cases n with
    | succ n => omega
    | zero =>
      exfalso
      simp only [intFits, fits] at hf
      cases sg <;> simp at hf <;> omega
  | pflt n => simp [Scalar.isInt] at hi
  | char => simp [Scalar.isInt] at hi
  | wchar => simp [Scalar.isInt] at hi
  | leb sg => simp [Scalar.isInt] at hi
  | void => simp [Scalar.isInt] at hi

/-! ### `wchar` -/

theorem utf16Ok_single (u : Nat) (h : isSurrogate u = false) : utf16Ok [u] = true := by
  simp only [isSurrogate, Bool.and_eq_false_iff, decide_eq_false_iff_not] at h
  have h1 : isHigh u = false := by
    simp only [isHigh, Bool.and_eq_false_iff, decide_eq_false_iff_not]; omega
  have h2 : isLow u = false := by
    simp only [isLow, Bool.and_eq_false_iff, decide_eq_false_iff_not]; omega
  simp [utf16Ok, h1, h2]

theorem scrt_wchar (cfg : Cfg) (u : Nat) (hu : u < 65536) (hs : isSurrogate u = false) (bs : Bytes)
    (hw : writeScalar cfg .wchar (.wstr [u]) = .ok bs) : ScRT cfg .wchar (.wstr [u]) bs ∧ bs.length = 2 := by
  have hok := utf16Ok_single u hs
  have hall : ∀ x ∈ [u], x < 65536 := by intro x hx; simp at hx; omega
  obtain ⟨bs', h1, h2, h3⟩ := C05.Lemmas.wchar_roundtrip cfg.endian [u] hall hok
  simp only [writeScalar] at hw
  rw [hw] at h1
  cases h1
  simp only [List.length_cons, List.length_nil] at h2
  refine ⟨?_, h2⟩
  intro pre post pos hp
  simp only [readScalar, bind, pure, readExact_mid pre bs post pos 2 hp h2, Except.bind, h3, Except.pure, h2]

/-- `Wchar._read_array` on the encoding of a well-formed string -/
theorem readArray_wchar (cfg : Cfg) (a n : Nat) (ctx : Ctx) (data : Bytes) (pos : Nat) :
    readArray cfg (.sc .wchar a) n ctx data pos =
      if n = 0 then .ok (.wstr [], pos) else
        (readExact data pos (2 * n)).bind fun r => (decodeWchar cfg.endian r.1).bind fun v => .ok (v, r.2) := by
  rw [readArray.eq_1]
  simp only [readScalarArray, bind, pure]
  split
  · rfl
  · cases readExact data pos (2 * n) with
    | error e => rfl
    | ok r =>
      simp only [Except.bind]
      cases decodeWchar cfg.endian r.1 <;> rfl

theorem wchars_rt (cfg : Cfg) (a n : Nat) (us : List Nat) (hl : us.length = n) (hu : ∀ u ∈ us, u < 65536)
    (hok : utf16Ok us = true) (bs : Bytes) (hw : encodeWchar cfg.endian us = .ok bs) (ctx : Ctx) (pre post : Bytes)
    (pos : Nat) (hp : pre.length = pos) :
    bs.length = n * 2 ∧
    readArray cfg (.sc .wchar a) n ctx (pre ++ bs ++ post) pos = .ok (.wstr us, pos + bs.length) := by
  obtain ⟨bs', h1, h2, h3⟩ := C05.Lemmas.wchar_roundtrip cfg.endian us hu hok
  rw [hw] at h1
  cases h1
  rw [hl] at h2
  refine ⟨by omega, ?_⟩
  rw [readArray_wchar]
  split
  · rename_i h0
    subst h0
    cases us with
    | cons _ _ => simp at hl
    | nil =>
      cases bs with
      | nil => simp
      | cons _ _ => simp at h2
  · rw [readExact_mid pre bs post pos (2 * n) hp h2]
    simp only [Except.bind, h3, h2]

/-! ### `write` on the new array forms -/

theorem write_arr_bytes (cfg : Cfg) (a len b pos) :
    write cfg (.arr (.sc .char a) len) (.bytes b) pos = .ok (match len with | .nullTerm => b ++ [0] | _ => b) := by
  cases len <;> (rw [write.eq_def])

theorem write_arr_wstr (cfg : Cfg) (a len us pos) :
    write cfg (.arr (.sc .wchar a) len) (.wstr us) pos =
      encodeWchar cfg.endian (match len with | .nullTerm => us ++ [0] | _ => us) := by
  cases len <;> (rw [write.eq_def])

theorem write_arr_expr_list (cfg : Cfg) (e toks vs pos) :
    write cfg (.arr e (.expr toks)) (.list vs) pos = writeN cfg e vs pos := by
  rw [write.eq_def]
  cases e with
  | sc s a => cases s <;> rfl
  | _ => rfl

theorem write_arr_null_list' (cfg : Cfg) (e vs pos) :
    write cfg (.arr e .nullTerm) (.list vs) pos = writeN cfg e (vs.snoc (e.default cfg)) pos :=
  C07.Lemmas.write_arr_null_list cfg e vs pos

/-- writing `vs ++ [d]` element by element: the elements, then `d` -/
theorem writeN_snoc (cfg : Cfg) (t : Ty) (d : Val) : ∀ (vs : Vals) (pos : Nat) (bs : Bytes),
    writeN cfg t (vs.snoc d) pos = .ok bs →
      ∃ body last, bs = body ++ last ∧ writeN cfg t vs pos = .ok body ∧ write cfg t d (pos + body.length) = .ok last
  | .nil, pos, bs, h => by
    simp only [Vals.snoc] at h
    rw [writeN_cons] at h
    obtain ⟨x, h1, h2⟩ := bind_ok h
    obtain ⟨y, h3, h4⟩ := bind_ok h2
    rw [writeN_nil] at h3
    cases h3; cases h4
    exact ⟨[], x, by simp, writeN_nil cfg t pos, by simpa using h1⟩
  | .cons a r, pos, bs, h => by
    simp only [Vals.snoc] at h
    rw [writeN_cons] at h
    obtain ⟨x, h1, h2⟩ := bind_ok h
    obtain ⟨y, h3, h4⟩ := bind_ok h2
    cases h4
    obtain ⟨body, last, rfl, h5, h6⟩ := writeN_snoc cfg t d r _ _ h3
    refine ⟨x ++ body, last, by simp, ?_, ?_⟩
    · rw [writeN_cons, h1]
      simp only [Except.bind]
      rw [h5]
    · rw [List.length_append, ← Nat.add_assoc]; exact h6

theorem writeN_snoc_ok (cfg : Cfg) (t : Ty) (d : Val) : ∀ (vs : Vals) (pos : Nat) (body last : Bytes),
    writeN cfg t vs pos = .ok body → write cfg t d (pos + body.length) = .ok last →
      writeN cfg t (vs.snoc d) pos = .ok (body ++ last)
  | .nil, pos, body, last, h1, h2 => by
    rw [writeN_nil] at h1
    cases h1
    simp only [Vals.snoc, List.length_nil, Nat.add_zero] at h2 ⊢
    rw [writeN_cons, h2]
    simp only [Except.bind, writeN_nil, List.append_nil, List.nil_append]
  | .cons a r, pos, body, last, h1, h2 => by
    rw [writeN_cons] at h1
    obtain ⟨x, h3, h4⟩ := bind_ok h1
    obtain ⟨y, h5, h6⟩ := bind_ok h4
    cases h6
    simp only [Vals.snoc]
    rw [writeN_cons, h3]
    simp only [Except.bind]
    rw [List.length_append, ← Nat.add_assoc] at h2
    rw [writeN_snoc_ok cfg t d r _ y last h5 h2]
    simp only [List.append_assoc]

/-! ### Null-terminated readers, forward -/

/-- scalars read through the generic branch of `_read_0` that yield integers -/
def Scalar.intLike : Scalar → Bool
  | .pint _ _ => true | .aint _ _ => true | .leb _ => true | _ => false

theorem readScalar0_int_step (cfg : Cfg) (s : Scalar) (hs : Scalar.intLike s = true) (data : Bytes) (fuel pos : Nat)
    (acc : List Val) (i : Int) (p : Nat) (h : readScalar cfg s data pos = .ok (.int i, p)) :
    readScalar0 cfg s data (fuel + 1) pos acc =
      if i = 0 then .ok (acc.reverse, p) else readScalar0 cfg s data fuel p (.int i :: acc) := by
  cases s with
  | pint n sg => simp only [readScalar0, h, decide_eq_true_eq]
  | aint n sg => simp only [readScalar0, h, decide_eq_true_eq]
  | leb sg => simp only [readScalar0, h, decide_eq_true_eq]
  | pflt n => simp [Scalar.intLike] at hs
  | char => simp [Scalar.intLike] at hs
  | wchar => simp [Scalar.intLike] at hs
  | void => simp [Scalar.intLike] at hs

/-- the integers of a null-terminated array and their encodings, one chunk per element -/
inductive Chunks (cfg : Cfg) (s : Scalar) : List Int → Bytes → Prop
  | nil : Chunks cfg s [] []
  | cons {i c is body} : i ≠ 0 → ScRT cfg s (.int i) c → 1 ≤ c.length → Chunks cfg s is body →
      Chunks cfg s (i :: is) (c ++ body)

theorem chunks_length {cfg : Cfg} {s : Scalar} {is : List Int} {body : Bytes} (h : Chunks cfg s is body) :
    is.length ≤ body.length := by
  induction h with
  | nil => simp
  | cons _ _ h1 _ ih => simp only [List.length_cons, List.length_append]; omega

theorem readScalar0_chunks (cfg : Cfg) (s : Scalar) (hs : Scalar.intLike s = true) (z : Bytes)
    (hz : ScRT cfg s (.int 0) z) (post : Bytes) :
    ∀ (is : List Int) (body : Bytes), Chunks cfg s is body → ∀ (pre : Bytes) (pos fuel : Nat) (acc : List Val),
      pre.length = pos → is.length + 1 ≤ fuel →
      readScalar0 cfg s (pre ++ (body ++ z) ++ post) fuel pos acc =
        .ok (acc.reverse ++ is.map .int, pos + (body ++ z).length) := by
  intro is body h
  induction h with
  | nil =>
    intro pre pos fuel acc hp hf
    obtain ⟨f, rfl⟩ : ∃ f, fuel = f + 1 := ⟨fuel - 1, by simp at hf; omega⟩
    simp only [List.nil_append]
    rw [readScalar0_int_step cfg s hs _ f pos acc 0 _ (hz pre post pos hp)]
    simp
  | @cons i c is body hi hc hl _ ih =>
    intro pre pos fuel acc hp hf
    obtain ⟨f, rfl⟩ : ∃ f, fuel = f + 1 := ⟨fuel - 1, by simp at hf; omega⟩
    have e1 : pre ++ (c ++ body ++ z) ++ post = pre ++ c ++ ((body ++ z) ++ post) := by simp only [List.append_assoc]
    have e2 : pre ++ (c ++ body ++ z) ++ post = (pre ++ c) ++ (body ++ z) ++ post := by simp only [List.append_assoc]
    have h1 := hc pre ((body ++ z) ++ post) pos hp
    rw [← e1] at h1
    rw [readScalar0_int_step cfg s hs _ f pos acc i _ h1, if_neg hi, e2,
      ih (pre ++ c) (pos + c.length) f (.int i :: acc) (by rw [List.length_append, hp])
        (by simp only [List.length_cons] at hf; omega)]
    simp only [List.reverse_cons, List.append_assoc, List.singleton_append, List.map_cons, List.length_append,
      Except.ok.injEq, Prod.mk.injEq, true_and]
    omega

theorem mapEnum_ofList_ints (is : List Int) :
    (Vals.ofList (is.map Val.int)).mapEnum = Vals.ofList (is.map Val.enum) := by
  induction is with
  | nil => rfl
  | cons i r ih => simp only [List.map_cons, Vals.ofList, Vals.mapEnum, ih]

/-- `readScalarNullTerm` on "elements ++ terminator" for an integer-like scalar -/
theorem readScalarNullTerm_chunks (cfg : Cfg) (s : Scalar) (hs : Scalar.intLike s = true) (z : Bytes)
    (hz : ScRT cfg s (.int 0) z) (is : List Int) (body : Bytes) (hc : Chunks cfg s is body) (pre post : Bytes)
    (pos : Nat) (hp : pre.length = pos) :
    readScalarNullTerm cfg s (pre ++ (body ++ z) ++ post) pos =
      .ok (.list (Vals.ofList (is.map .int)), pos + (body ++ z).length) := by
  unfold readScalarNullTerm
  have hlen := chunks_length hc
  rw [readScalar0_chunks cfg s hs z hz post is body hc pre pos _ [] hp
    (by simp only [List.length_append]; omega)]
  cases s <;> simp [Scalar.intLike] at hs <;> simp

/-! #### `char x[]` -/

theorem readScalar0_chars (cfg : Cfg) (post : Bytes) : ∀ (b : Bytes), (∀ x ∈ b, x ≠ 0) →
    ∀ (pre : Bytes) (pos fuel : Nat) (acc : List Val), pre.length = pos → b.length + 1 ≤ fuel →
      readScalar0 cfg .char (pre ++ (b ++ [0]) ++ post) fuel pos acc =
        .ok (acc.reverse ++ b.map (fun x => Val.bytes [x]), pos + (b ++ [0]).length) := by
  intro b
  induction b with
  | nil =>
    intro _ pre pos fuel acc hp hf
    obtain ⟨f, rfl⟩ : ∃ f, fuel = f + 1 := ⟨fuel - 1, by simp at hf; omega⟩
    rw [C07.Lemmas.readScalar0_char_succ, List.nil_append, readExact_mid pre [0] post pos 1 hp rfl]
    simp
  | cons x r ih =>
    intro hnz pre pos fuel acc hp hf
    obtain ⟨f, rfl⟩ : ∃ f, fuel = f + 1 := ⟨fuel - 1, by simp at hf; omega⟩
    have e1 : pre ++ (x :: r ++ [0]) ++ post = pre ++ [x] ++ ((r ++ [0]) ++ post) := by simp
    have e2 : pre ++ [x] ++ ((r ++ [0]) ++ post) = (pre ++ [x]) ++ (r ++ [0]) ++ post := by simp
    have hx : x ≠ 0 := hnz x (by simp)
    rw [C07.Lemmas.readScalar0_char_succ, e1, readExact_mid pre [x] _ pos 1 hp rfl]
    simp only [List.cons.injEq, and_true, hx, if_false]
    rw [e2, ih (fun y hy => hnz y (by simp [hy])) (pre ++ [x]) (pos + 1) f _ (by simp [hp])
      (by simp only [List.length_cons] at hf; omega)]
    simp only [List.reverse_cons, List.append_assoc, List.singleton_append, List.map_cons, List.length_append,
      List.length_cons, List.length_nil, Except.ok.injEq, Prod.mk.injEq, true_and]
    omega

theorem readScalarNullTerm_chars (cfg : Cfg) (b : Bytes) (hnz : ∀ x ∈ b, x ≠ 0) (pre post : Bytes) (pos : Nat)
    (hp : pre.length = pos) :
    readScalarNullTerm cfg .char (pre ++ (b ++ [0]) ++ post) pos = .ok (.bytes b, pos + (b ++ [0]).length) := by
  unfold readScalarNullTerm
  rw [readScalar0_chars cfg post b hnz pre pos _ [] hp (by simp only [List.length_append]; omega)]
  simp [C07.Lemmas.joinBytes_singletons]

/-! #### `wchar x[]` -/

/-- the two bytes of one UTF-16 code unit -/
def encUnit (e : Endian) (u : Nat) : Bytes :=
  match e with
  | .little => [UInt8.ofNat (u % 256), UInt8.ofNat (u / 256)]
  | .big => [UInt8.ofNat (u / 256), UInt8.ofNat (u % 256)]

theorem encUnit_length (e : Endian) (u : Nat) : (encUnit e u).length = 2 := by cases e <;> rfl

theorem encUnits_cons' (e : Endian) (u : Nat) (r : List Nat) : encUnits e (u :: r) = encUnit e u ++ encUnits e r := by
  rw [encUnits_cons]; cases e <;> rfl

theorem encUnits_append (e : Endian) (a b : List Nat) : encUnits e (a ++ b) = encUnits e a ++ encUnits e b := by
  simp only [encUnits, List.flatMap_append]

theorem encUnits_zero (e : Endian) : encUnits e [0] = [0, 0] := by cases e <;> rfl

theorem encUnit_ne_zero (e : Endian) (u : Nat) (hu : u < 65536) (h0 : u ≠ 0) : encUnit e u ≠ [0, 0] := by
  intro h
  have hd : (UInt8.ofNat (u / 256)).toNat = u / 256 := u8_small _ (by omega)
  have hm : (UInt8.ofNat (u % 256)).toNat = u % 256 := u8_small _ (by omega)
  cases e with
  | little =>
    simp only [encUnit, List.cons.injEq, and_true] at h
    rw [h.1] at hm; rw [h.2] at hd
    simp at hm hd; omega
  | big =>
    simp only [encUnit, List.cons.injEq, and_true] at h
    rw [h.1] at hd; rw [h.2] at hm
    simp at hm hd; omega

theorem readScalar0_wchar_succ (cfg : Cfg) (d : Bytes) (fuel pos : Nat) (acc : List Val) :
    readScalar0 cfg .wchar d (fuel + 1) pos acc =
      match readExact d pos 2 with
      | .error e => .error e
      | .ok (bs, p) => if bs = [0, 0] then .ok (acc.reverse, p) else readScalar0 cfg .wchar d fuel p (.bytes bs :: acc) := by
  simp only [readScalar0]
  cases readExact d pos 2 with
  | error e => rfl
  | ok r => rfl

theorem readScalar0_wchars (cfg : Cfg) (post : Bytes) : ∀ (us : List Nat), (∀ u ∈ us, u < 65536 ∧ u ≠ 0) →
    ∀ (pre : Bytes) (pos fuel : Nat) (acc : List Val), pre.length = pos → us.length + 1 ≤ fuel →
      readScalar0 cfg .wchar (pre ++ (encUnits cfg.endian us ++ [0, 0]) ++ post) fuel pos acc =
        .ok (acc.reverse ++ us.map (fun u => Val.bytes (encUnit cfg.endian u)),
          pos + (encUnits cfg.endian us ++ [0, 0]).length) := by
  intro us
  induction us with
  | nil =>
    intro _ pre pos fuel acc hp hf
    obtain ⟨f, rfl⟩ : ∃ f, fuel = f + 1 := ⟨fuel - 1, by simp at hf; omega⟩
    rw [readScalar0_wchar_succ, C05.Lemmas.encUnits_nil, List.nil_append, readExact_mid pre [0, 0] post pos 2 hp rfl]
    simp
  | cons u r ih =>
    intro hnz pre pos fuel acc hp hf
    obtain ⟨f, rfl⟩ : ∃ f, fuel = f + 1 := ⟨fuel - 1, by simp at hf; omega⟩
    have hu := hnz u (by simp)
    have hl := encUnit_length cfg.endian u
    have e1 : pre ++ (encUnits cfg.endian (u :: r) ++ [0, 0]) ++ post =
        pre ++ encUnit cfg.endian u ++ ((encUnits cfg.endian r ++ [0, 0]) ++ post) := by
      rw [encUnits_cons']; simp only [List.append_assoc]
    have e2 : pre ++ encUnit cfg.endian u ++ ((encUnits cfg.endian r ++ [0, 0]) ++ post) =
        (pre ++ encUnit cfg.endian u) ++ (encUnits cfg.endian r ++ [0, 0]) ++ post := by simp only [List.append_assoc]
    rw [readScalar0_wchar_succ, e1, readExact_mid pre (encUnit cfg.endian u) _ pos 2 hp hl]
    simp only [encUnit_ne_zero cfg.endian u hu.1 hu.2, if_false]
    rw [e2, ih (fun y hy => hnz y (by simp [hy])) (pre ++ encUnit cfg.endian u) (pos + 2) f _
      (by rw [List.length_append, hp, hl]) (by simp only [List.length_cons] at hf; omega)]
    rw [encUnits_cons']
    simp only [List.reverse_cons, List.append_assoc, List.singleton_append, List.map_cons, List.length_append,
      List.length_cons, List.length_nil, Except.ok.injEq, Prod.mk.injEq, true_and, hl]
    omega

theorem joinBytes_units (e : Endian) : ∀ us : List Nat,
    joinBytes (us.map fun u => Val.bytes (encUnit e u)) = encUnits e us := by
  intro us
  induction us with
  | nil => rfl
  | cons u r ih => rw [List.map_cons, joinBytes, ih, encUnits_cons']

theorem readScalarNullTerm_wchars (cfg : Cfg) (us : List Nat) (hnz : ∀ u ∈ us, u < 65536 ∧ u ≠ 0)
    (hok : utf16Ok us = true) (pre post : Bytes) (pos : Nat) (hp : pre.length = pos) :
    readScalarNullTerm cfg .wchar (pre ++ (encUnits cfg.endian us ++ [0, 0]) ++ post) pos =
      .ok (.wstr us, pos + (encUnits cfg.endian us ++ [0, 0]).length) := by
  unfold readScalarNullTerm
  rw [readScalar0_wchars cfg post us hnz pre pos _ [] hp
    (by simp only [List.length_append, encUnits_length]; omega)]
  obtain ⟨bs, h1, _, h3⟩ := C05.Lemmas.wchar_roundtrip cfg.endian us (fun u hu => (hnz u hu).1) hok
  rw [encodeWchar_ok cfg.endian us hok] at h1
  cases h1
  simp only [List.reverse_nil, List.nil_append, joinBytes_units, h3, Except.map]

end Cstruct.Core.Lemmas
