/-
  Helper lemmas for `Proofs/C02Bits.lean`, part 6 (packed or aligned, accepted definitions, static offsets): the
  statements `TyFA`, `IdleFA`, `PendFA` of "parse, then dump" with alignment padding, the end of the member list and the
  bit-field step `bit_stepA`. The structure is that of `C02BitsB.lean`; padding in front of a member is a run of zero mask
  bytes, which the writer emits as zero bytes.
-/
import Proofs.Lemmas.C02BitsE
import Proofs.Lemmas.CoreBitsA
namespace Cstruct.C02B.Lemmas
open Cstruct Cstruct.Core Cstruct.Core.Lemmas Cstruct.C06 Cstruct.C06.Lemmas Cstruct.C02B
open Cstruct.C05.Lemmas (encBytes encBytes_length)
set_option linter.unusedSimpArgs false

/-! ### Padding -/

theorem andBytes_zeros : ∀ (n : Nat) (w : Bytes), w.length = n → andBytes w (zeros n) = zeros n
  | 0, [], _ => rfl
  | n + 1, b :: r, h => by
    have ih := andBytes_zeros n r (by simpa using h)
    unfold andBytes zeros at ih ⊢
    simp only [List.replicate_succ, List.zipWith_cons_cons, ih, UInt8.and_zero]
  | 0, _ :: _, h => by simp at h
  | _ + 1, [], h => by simp at h

theorem zeros_length (n : Nat) : (zeros n).length = n := by simp [zeros]

/-! ### A pending mask unit is emitted first when the next member does not continue it -/

theorem mask_flushA (cfg : Cfg) (al : Bool) (fs : Fields) (hH : FHyps cfg al fs) (st : LState) (sz sa offs)
    (hlay : Fields.layout cfg al fs st = .ok (sz, sa, offs)) (hli : LIdle st fs) (o : Nat) (ho : st.offset = some o)
    (cur : Nat) (p : PendMask) :
    fieldsMaskB cfg fs offs cur (some p) = flushMask cfg.endian (some p) ++ fieldsMaskB cfg fs offs cur none := by
  rcases fs with _ | ⟨name, an, ty, _ | _ | b, rest⟩
  · simp only [fieldsMaskB_nil, flushMask_none, List.append_nil]
  · have hS := hH.frag
    simp only [Fields.fragSB, Bool.and_eq_true] at hS
    obtain ⟨k, hk⟩ := size_some_ty cfg ty hS.1 (defErr_cons hH.def_).1
    rw [layout_nb_al cfg al name an ty rest st o k ho hk] at hlay
    obtain ⟨⟨sz', sa', offs'⟩, _, heq⟩ := bind_ok hlay
    simp only [Except.ok.injEq, Prod.mk.injEq] at heq
    obtain ⟨rfl, rfl, rfl⟩ := heq
    simp only [fieldsMaskB_nb, flushMask_none, List.nil_append, List.append_assoc]
  · have hS := hH.frag
    simp [Fields.fragSB] at hS
  · have hS := hH.frag
    simp only [Fields.fragSB, Bool.and_eq_true] at hS
    obtain ⟨ft, fsz, hbase, hint, hsz⟩ := bitOk_base ty hS.1
    have hnew : st.bitsRemaining = 0 ∨ some ft ≠ st.bitsType := by
      rcases hli with h | h
      · exact Or.inl h
      · rw [hbase] at h; exact Or.inr h
    rw [layout_bit_new_al cfg al name an ty b rest st ft fsz o hbase hsz ho hnew] at hlay
    split at hlay
    · cases hlay
    obtain ⟨⟨sz', sa', offs'⟩, _, heq⟩ := bind_ok hlay
    simp only [Except.ok.injEq, Prod.mk.injEq] at heq
    obtain ⟨rfl, rfl, rfl⟩ := heq
    simp only [fieldsMaskB_bit_new cfg name an ty b rest _ offs' cur _ ft fsz hbase hsz, flushMask_none, List.nil_append,
      List.append_assoc]

/-! ### The statements -/

def TyFA (cfg : Cfg) (al : Bool) (ty : Ty) : Prop :=
  ty.fragSB cfg = true → ty.uniformAlign al = true → ty.pow2Aligned cfg → (al = true → ty.bitsNatural cfg = true) →
  ty.defErr cfg = none → ∀ n, ty.size cfg = some n →
    (maskB cfg ty).length = n ∧
    ∀ (ctx : Ctx) (d : Bytes) (pos : Nat), pos + n ≤ d.length → (al = true → sAlign cfg ty ∣ pos) →
      ∃ v, read cfg ty ctx d pos = .ok (v, pos + n) ∧ HasTyB cfg v ty ∧
        write cfg ty v pos = .ok (andBytes (sread d pos n) (maskB cfg ty))

/-- the member loop without a pending unit, at the static offset `o`; `e` is the offset behind the last member (the
    structure's tail padding is not part of the loop) -/
def IdleFA (cfg : Cfg) (al : Bool) (fs : Fields) : Prop :=
  FHyps cfg al fs → ∀ st total sa offs, Fields.layout cfg al fs st = .ok (some total, sa, offs) → LIdle st fs →
  ∀ o, st.offset = some o →
    ∃ e, o ≤ e ∧ total = alignTo al e sa ∧ (fieldsMaskB cfg fs offs o none).length = e - o ∧
    ∀ (ctx : Ctx) (d : Bytes) (start : Nat) (bbR : BitBuf), start + e ≤ d.length →
      (al = true → allAlignDvd cfg start fs) → RIdle bbR fs →
      ∃ vs szs, readFields cfg al fs offs start bbR ctx d (start + o) = .ok (vs, szs, start + e) ∧
        HasTysB cfg vs fs ∧
        ∃ out bbF fl, writeFields cfg al fs offs vs start BitBuf.empty (start + o) = .ok (out, bbF) ∧
          flushBits cfg bbF = .ok fl ∧
          out ++ fl = andBytes (sread d (start + o) (e - o)) (fieldsMaskB cfg fs offs o none)

/-- the layout side of a pending unit at the static offset `uo` -/
structure PendLA (al : Bool) (st : LState) (ft : Scalar) (fsz k uo : Nat) : Prop where
  isInt : Scalar.isInt ft = true
  size : ft.size = some fsz
  lty : st.bitsType = some ft
  lrem : st.bitsRemaining = ((8 * fsz - k : Nat) : Int)
  lt : k < 8 * fsz
  loff : st.offset = some (uo + fsz)
  lbfo : st.bitsFieldOffset = some uo
  ual : al = true → fsz ∣ uo

def PendFA (cfg : Cfg) (al : Bool) (fs : Fields) : Prop :=
  FHyps cfg al fs → ∀ st total sa offs, Fields.layout cfg al fs st = .ok (some total, sa, offs) →
  ∀ ft fsz k uo, PendLA al st ft fsz k uo → ∀ M : Nat,
    ∃ e, uo + fsz ≤ e ∧ total = alignTo al e sa ∧
      (fieldsMaskB cfg fs offs (uo + fsz) (some ⟨fsz, k, M⟩)).length = e - uo ∧
    ∀ (ctx : Ctx) (d : Bytes) (start : Nat) (bbR bbW : BitBuf) (U : Int), start + e ≤ d.length →
      (al = true → allAlignDvd cfg start fs) → (al = true → fsz ∣ start) →
      U % ((2 ^ (8 * fsz) : Nat) : Int) = (decodeNat cfg.endian (sread d (start + uo) fsz) : Int) →
      bbR.ty = some ft → ReadInv cfg.endian (8 * fsz) U k bbR →
      bbW.ty = some ft → bbW.remaining = 8 * fsz - k →
      bbW.buffer = ((decodeNat cfg.endian (sread d (start + uo) fsz) &&& M : Nat) : Int) →
      ∃ vs szs, readFields cfg al fs offs start bbR ctx d (start + (uo + fsz)) = .ok (vs, szs, start + e) ∧
        HasTysB cfg vs fs ∧
        ∃ out bbF fl, writeFields cfg al fs offs vs start bbW (start + uo) = .ok (out, bbF) ∧
          flushBits cfg bbF = .ok fl ∧
          out ++ fl = andBytes (sread d (start + uo) (e - uo)) (fieldsMaskB cfg fs offs (uo + fsz) (some ⟨fsz, k, M⟩))

/-! ### End of the member list -/

theorem idleFA_nil (cfg : Cfg) (al : Bool) : IdleFA cfg al .nil := by
  intro _ st total sa offs hlay _ o ho
  rw [layout_nil_al cfg al st o ho] at hlay
  simp only [Except.ok.injEq, Prod.mk.injEq, Option.some.injEq] at hlay
  obtain ⟨rfl, rfl, rfl⟩ := hlay
  refine ⟨o, Nat.le_refl _, rfl, by simp [fieldsMaskB_nil, flushMask_none], ?_⟩
  intro ctx d start bbR _ _ _
  refine ⟨.nil, [], by rw [readFields_nil], .nil, [], BitBuf.empty, [], writeFields_nil .., rfl, ?_⟩
  simp [fieldsMaskB_nil, flushMask_none, andBytes_nil_right]

theorem pendFA_nil (cfg : Cfg) (al : Bool) : PendFA cfg al .nil := by
  intro _ st total sa offs hlay ft fsz k uo hP M
  rw [layout_nil_al cfg al st _ hP.loff] at hlay
  simp only [Except.ok.injEq, Prod.mk.injEq, Option.some.injEq] at hlay
  obtain ⟨rfl, rfl, rfl⟩ := hlay
  refine ⟨uo + fsz, Nat.le_refl _, rfl, by simp [fieldsMaskB_nil, flushMask_some, unitBytes_length], ?_⟩
  intro ctx d start bbR bbW U hlen _ _ hUF hRty hR hWty hWrem hWbuf
  have hl : start + uo + fsz ≤ d.length := by omega
  have hF := unit_lt cfg.endian d (start + uo) fsz hl
  have hfl := flush_nat cfg ft fsz _ bbW hWty hP.size hWbuf (and_lt_of_lt _ M _ hF)
  refine ⟨.nil, [], by rw [readFields_nil], .nil, [], bbW, _, writeFields_nil .., hfl, ?_⟩
  have e1 : uo + fsz - uo = fsz := by omega
  rw [fieldsMaskB_nil, flushMask_some, e1, List.nil_append]
  exact unit_and cfg.endian _ fsz M (sread_length_of_le d (start + uo) fsz hl)

/-! ### One bit-field -/

theorem putStepA_eq (cfg : Cfg) (al rest offs vs start fsz i w bb2 pos pad bb3)
    (h : BitBuf.put cfg.endian bb2 fsz i w = some bb3) :
    putStepA cfg al rest offs vs start fsz i w bb2 pos pad =
      (if bb3.remaining = 0 then flushBits cfg bb3 else .ok []).bind fun fl3 =>
        (writeFields cfg al rest offs vs start (if bb3.remaining = 0 then BitBuf.empty else bb3)
            (pos + (zeros pad ++ fl3).length)).bind
          fun (o, bbf) => .ok (zeros pad ++ fl3 ++ o, bbf) := by
  simp only [putStepA, h]

theorem bit_stepA (cfg : Cfg) (al : Bool) (rest : Fields) (IHi : IdleFA cfg al rest) (IHp : PendFA cfg al rest)
    (hH : FHyps cfg al rest) (st1 : LState) (total sa offs')
    (hlay : Fields.layout cfg al rest st1 = .ok (some total, sa, offs'))
    (ft : Scalar) (fsz k w : Nat) (hi : Scalar.isInt ft = true) (hsz : ft.size = some fsz)
    (hbt : st1.bitsType = some ft) (hbr : st1.bitsRemaining = ((8 * fsz - (k + w) : Nat) : Int)) (hkw : k + w ≤ 8 * fsz)
    (uo : Nat) (ho : st1.offset = some (uo + fsz)) (hbfo : st1.bitsFieldOffset = some uo) (hual : al = true → fsz ∣ uo)
    (M M' : Nat) (hM : M' = M ||| slotMask (slotLo cfg.endian (8 * fsz) k w) w) :
    ∃ e, uo + fsz ≤ e ∧ total = alignTo al e sa ∧
      (fieldsMaskB cfg rest offs' (uo + fsz) (some ⟨fsz, k + w, M'⟩)).length = e - uo ∧
    ∀ (d : Bytes) (start : Nat) (bbR bbW : BitBuf) (U : Int), start + e ≤ d.length →
      (al = true → allAlignDvd cfg start rest) → (al = true → fsz ∣ start) →
      U % ((2 ^ (8 * fsz) : Nat) : Int) = (decodeNat cfg.endian (sread d (start + uo) fsz) : Int) →
      bbR.ty = some ft → ReadInv cfg.endian (8 * fsz) U k bbR →
      bbW.ty = some ft → bbW.remaining = 8 * fsz - k →
      bbW.buffer = ((decodeNat cfg.endian (sread d (start + uo) fsz) &&& M : Nat) : Int) →
      ∃ (v : Int) (bbR2 : BitBuf), bbR.take cfg.endian w = some (v, bbR2) ∧ 0 ≤ v ∧ v < 2 ^ w ∧
        ∀ ctx : Ctx, ∃ vs szs,
          readFields cfg al rest offs' start bbR2 ctx d (start + (uo + fsz)) = .ok (vs, szs, start + e) ∧
          HasTysB cfg vs rest ∧
          ∀ (wpos pad : Nat), wpos + pad = start + uo →
          ∃ out bbF fl, putStepA cfg al rest offs' vs start fsz v w bbW wpos pad = .ok (zeros pad ++ out, bbF) ∧
            flushBits cfg bbF = .ok fl ∧
            out ++ fl = andBytes (sread d (start + uo) (e - uo))
              (fieldsMaskB cfg rest offs' (uo + fsz) (some ⟨fsz, k + w, M'⟩)) := by
  by_cases hex : k + w = 8 * fsz
  · -- the unit is exhausted: the writer flushes it now
    have hli : LIdle st1 rest := lidle_of_rem st1 (by rw [hbr]; omega) rest
    obtain ⟨e, hle, htot, hmlen, hrest⟩ := IHi hH st1 total sa offs' hlay hli (uo + fsz) ho
    have hmf := mask_flushA cfg al rest hH st1 _ sa offs' hlay hli (uo + fsz) ho (uo + fsz) ⟨fsz, k + w, M'⟩
    refine ⟨e, hle, htot, ?_, ?_⟩
    · rw [hmf, List.length_append, hmlen, flushMask_some, unitBytes_length]; simp only []; omega
    intro d start bbR bbW U hlen hdv hds hUF hRty hR hWty hWrem hWbuf
    obtain ⟨bbR2, ht, hR2, h0, h1⟩ := take_step cfg.endian (8 * fsz) k w U bbR hR hkw
    refine ⟨_, bbR2, ht, h0, h1, ?_⟩
    intro ctx
    obtain ⟨vs, szs, hrr, hvs, out, bbF, fl, hwr, hfl, hout⟩ := hrest ctx d start bbR2 hlen hdv
      (ridle_of_rem bbR2 (by rw [hR2.2.1]; omega) rest)
    refine ⟨vs, szs, hrr, hvs, ?_⟩
    intro wpos pad hwp
    have hl : start + uo + fsz ≤ d.length := by omega
    have hF := unit_lt cfg.endian d (start + uo) fsz hl
    generalize hFd : decodeNat cfg.endian (sread d (start + uo) fsz) = F at hUF hWbuf hF
    have hv := slotVal_of_emod U F (8 * fsz) _ w hUF (slotLo_le cfg.endian (8 * fsz) k w hkw)
    have hput := put_mask cfg.endian fsz k w F M bbW hWrem hWbuf hkw
    rw [← hv, ← hM] at hput
    have hz : 8 * fsz - (k + w) = 0 := by omega
    rw [hz] at hput
    have hfl3 : flushBits cfg { bbW with buffer := ((F &&& M' : Nat) : Int), remaining := 0 } =
        .ok (encBytes cfg.endian fsz (F &&& M')) :=
      flush_nat cfg ft fsz _ _ hWty hsz rfl (and_lt_of_lt _ _ _ hF)
    have hl3 : (encBytes cfg.endian fsz (F &&& M')).length = fsz := encBytes_length _ _ _
    refine ⟨encBytes cfg.endian fsz (F &&& M') ++ out, bbF, fl, ?_, hfl, ?_⟩
    · rw [putStepA_eq cfg al rest offs' vs start fsz _ w bbW wpos pad _ hput]
      simp only [if_true, hfl3, Except.bind, List.length_append, zeros_length, hl3]
      rw [show wpos + (pad + fsz) = start + (uo + fsz) by omega, hwr]
      simp only [List.append_assoc]
    · have e1 : e - uo = fsz + (e - (uo + fsz)) := by omega
      have hsl : (sread d (start + uo) fsz).length = fsz := sread_length_of_le d _ fsz hl
      rw [hmf, flushMask_some, e1, sread_add, andBytes_append _ _ _ _ (by rw [hsl, unitBytes_length]),
        List.append_assoc, hout, ← unit_and cfg.endian _ fsz M' hsl, hFd,
        show start + uo + fsz = start + (uo + fsz) by omega]
  · -- the unit stays pending
    have hP : PendLA al st1 ft fsz (k + w) uo := ⟨hi, hsz, hbt, hbr, by omega, ho, hbfo, hual⟩
    obtain ⟨e, hle, htot, hmlen, hrest⟩ := IHp hH st1 total sa offs' hlay ft fsz (k + w) uo hP M'
    refine ⟨e, hle, htot, hmlen, ?_⟩
    intro d start bbR bbW U hlen hdv hds hUF hRty hR hWty hWrem hWbuf
    obtain ⟨bbR2, ht, hR2, h0, h1⟩ := take_step cfg.endian (8 * fsz) k w U bbR hR hkw
    refine ⟨_, bbR2, ht, h0, h1, ?_⟩
    intro ctx
    have hv := slotVal_of_emod U _ (8 * fsz) _ w hUF (slotLo_le cfg.endian (8 * fsz) k w hkw)
    have hput := put_mask cfg.endian fsz k w _ M bbW hWrem hWbuf hkw
    rw [← hv, ← hM] at hput
    obtain ⟨vs, szs, hrr, hvs, out, bbF, fl, hwr, hfl, hout⟩ := hrest ctx d start bbR2
      { bbW with buffer := _, remaining := 8 * fsz - (k + w) } U hlen hdv hds hUF (by rw [take_ty ht, hRty]) hR2 hWty
      rfl rfl
    refine ⟨vs, szs, hrr, hvs, ?_⟩
    intro wpos pad hwp
    refine ⟨out, bbF, fl, ?_, hfl, hout⟩
    rw [putStepA_eq cfg al rest offs' vs start fsz _ w bbW wpos pad _ hput]
    have hnz : 8 * fsz - (k + w) ≠ 0 := by omega
    simp only [hnz, if_false, Except.bind, List.length_append, zeros_length, List.length_nil, Nat.add_zero,
      List.append_nil]
    rw [hwp, hwr]

end Cstruct.C02B.Lemmas
