/-
  Helper lemmas for `Proofs/C06BitBuffer.lean`, part 3: writing a sequence of bit-fields and flushing is inverted by reading
  the same requests back — the induction over the sequence, carried by two statements: one for a writer that stands in a
  unit (`LConcl`), one for a writer that holds no unit (`MConcl`).
-/
import Proofs.Lemmas.C06BitBufferB
namespace Cstruct.C06.BB
open Cstruct Cstruct.BBuf Cstruct.C06 Cstruct.C06.Lemmas
open Cstruct.C05.Lemmas (encBytes encBytes_length)
open Cstruct.Core.Lemmas (URel urel_step)
set_option linter.unusedSimpArgs false

/-- all writes, then `flush()` -/
def writeFlush (bb : BB) (ws : List (BTy × Nat × Int)) : Except (Err × BB) BB :=
  match writeAll bb ws with
  | .error e => .error e
  | .ok b => match b.flush with
    | .error e => .error e
    | .ok (b', _) => .ok b'

/-- every value fits its width -/
def ValsFit (ws : List (BTy × Nat × Int)) : Prop := ∀ p ∈ ws, 0 ≤ p.2.2 ∧ p.2.2 < 2 ^ p.2.1

/-- the writer stands in a unit of type `t` (`n` bytes) with `k` bits used that spell the number `a` -/
structure InUnit (wb : BB) (t : BTy) (n k a : Nat) : Prop where
  ty : wb.ty = some t
  size : t.size = some n
  klt : k < 8 * n
  rem : wb.remaining = ((8 * n - k : Nat) : Int)
  alt : a < 2 ^ k
  inv : WriteInv wb.endian (8 * n) k a { ty := none, buffer := wb.buffer, remaining := 8 * n - k }
  inb : wb.stream.pos ≤ wb.stream.data.length

/-- the reader stands in a unit of type `t` that it loaded as `U`, `k` bits handed out, on content `D` at position `p` -/
structure RInUnit (rb : BB) (e : Endian) (t : BTy) (n k : Nat) (U : Int) (D : Bytes) (p : Nat) : Prop where
  ty : rb.ty = some t
  rem : rb.remaining = ((8 * n - k : Nat) : Int)
  endian : rb.endian = e
  stream : rb.stream = { data := D, pos := p }
  inv : ReadInv e (8 * n) U k { ty := none, buffer := rb.buffer, remaining := 8 * n - k }

/-- what a run of writes ending in a flush leaves behind -/
structure Post (wb wbF : BB) : Prop where
  idle : Idle wbF
  endian : wbF.endian = wb.endian
  inb : wbF.stream.pos ≤ wbF.stream.data.length
  mono : wb.stream.pos ≤ wbF.stream.pos
  pre : wbF.stream.data.take wb.stream.pos = wb.stream.data.take wb.stream.pos
  suf : wbF.stream.data.drop wbF.stream.pos = wb.stream.data.drop wbF.stream.pos

/-- the reader gets the values back and ends where the writer ended -/
def ReadsBack (rb : BB) (ws : List (BTy × Nat × Int)) (wbF : BB) : Prop :=
  ∃ rbF, readAll rb (requests ws) = .ok (rbF, values ws) ∧ rbF.stream = wbF.stream

/-- the reader's next read loads a unit -/
def Reloads (rb : BB) : List (BTy × Nat × Int) → Prop
  | [] => True
  | (t, _, _) :: _ => rb.remaining = 0 ∨ rb.ty ≠ some t

def MConcl (wb : BB) (ws : List (BTy × Nat × Int)) : Prop :=
  ∃ wbF, writeFlush wb ws = .ok wbF ∧ Post wb wbF ∧
    ∀ rb, rb.endian = wb.endian → rb.stream = { data := wbF.stream.data, pos := wb.stream.pos } → Reloads rb ws →
      ReadsBack rb ws wbF

def LConcl (wb : BB) (t : BTy) (n k a : Nat) (ws : List (BTy × Nat × Int)) : Prop :=
  ∃ wbF, writeFlush wb ws = .ok wbF ∧ Post wb wbF ∧
    ∃ F, F < 2 ^ (8 * n) ∧ sread wbF.stream.data wb.stream.pos n = encBytes wb.endian n F ∧ URel wb.endian (8 * n) k a F ∧
      ∀ rb U, U % ((2 ^ (8 * n) : Nat) : Int) = (F : Int) →
        RInUnit rb wb.endian t n k U wbF.stream.data (wb.stream.pos + n) → ReadsBack rb ws wbF

/-- the induction hypothesis: both statements for a sequence -/
def PAll (ws : List (BTy × Nat × Int)) : Prop :=
  (∀ wb t n k a, InUnit wb t n k a → Fits (some t) (8 * n - k) (requests ws) → ValsFit ws → LConcl wb t n k a ws) ∧
  (∀ wb, Idle wb → wb.stream.pos ≤ wb.stream.data.length → Fits none 0 (requests ws) → ValsFit ws → MConcl wb ws)

theorem post_refl (wb : BB) (h : Idle wb) (hin : wb.stream.pos ≤ wb.stream.data.length) : Post wb wb :=
  ⟨h, rfl, hin, Nat.le_refl _, rfl, rfl⟩

/-- a flush of a unit of `n` bytes, followed by a run that starts on the flushed object -/
theorem post_flush (wb wb1 wbF : BB) (bs : Bytes) (hin : wb.stream.pos ≤ wb.stream.data.length)
    (he : wb1.endian = wb.endian) (hs : wb1.stream = wb.stream.write bs) (hp : Post wb1 wbF) :
    Post wb wbF ∧ sread wbF.stream.data wb.stream.pos bs.length = bs := by
  have hpos : wb1.stream.pos = wb.stream.pos + bs.length := by rw [hs, write_pos _ _ hin]
  have hpre1 := hp.pre
  rw [hpos] at hpre1
  refine ⟨⟨hp.idle, by rw [hp.endian, he], hp.inb, by have := hp.mono; omega, ?_, ?_⟩, ?_⟩
  · rw [take_of_take_eq _ _ wb.stream.pos (wb.stream.pos + bs.length) (by omega) hpre1, hs, write_take _ _ hin]
  · have h1 := hp.suf
    have h2 := write_drop wb.stream bs hin
    rw [← hs, hpos] at h2
    rw [h1]
    exact drop_of_drop_eq _ _ (wb.stream.pos + bs.length) wbF.stream.pos (by have := hp.mono; omega) h2
  · rw [sread_of_take_eq _ _ _ _ hpre1, hs, sread_write _ _ hin]

theorem fits_new (ty : Option BTy) (rem : Nat) (t : BTy) (w : Nat) (r : List (BTy × Nat)) (h : rem = 0 ∨ ty ≠ some t) :
    Fits ty rem ((t, w) :: r) → Fits none 0 ((t, w) :: r) := by
  intro hf
  simp only [Fits, if_pos h] at hf
  simp only [Fits, true_or, if_true]
  exact hf

theorem valsFit_tail {x : BTy × Nat × Int} {r : List (BTy × Nat × Int)} (h : ValsFit (x :: r)) : ValsFit r :=
  fun p hp => h p (List.mem_cons_of_mem _ hp)

theorem writeFlush_cons_ok (wb wb1 : BB) (t : BTy) (w : Nat) (v : Int) (r : List (BTy × Nat × Int))
    (h : wb.write t v w = .ok (wb1, ())) : writeFlush wb ((t, w, v) :: r) = writeFlush wb1 r := by
  simp only [writeFlush, writeAll, h]

theorem writeFlush_cons_eq (wb wb1 : BB) (t : BTy) (w : Nat) (v : Int) (r : List (BTy × Nat × Int))
    (h : wb.write t v w = wb1.write t v w) : writeFlush wb ((t, w, v) :: r) = writeFlush wb1 ((t, w, v) :: r) := by
  simp only [writeFlush, writeAll, h]

theorem readsBack_cons (rb rb1 : BB) (wbF : BB) (t : BTy) (w : Nat) (v : Int) (r : List (BTy × Nat × Int))
    (h : rb.read t w = .ok (rb1, v)) (hr : ReadsBack rb1 r wbF) : ReadsBack rb ((t, w, v) :: r) wbF := by
  obtain ⟨rbF, h1, h2⟩ := hr
  refine ⟨rbF, ?_, h2⟩
  simp only [requests, values, List.map_cons, readAll, h]
  simp only [requests, values] at h1
  simp only [h1]

theorem readsBack_eq (rb rb1 : BB) (wbF : BB) (t : BTy) (w : Nat) (v : Int) (r : List (BTy × Nat × Int))
    (h : rb.read t w = rb1.read t w) (hr : ReadsBack rb1 ((t, w, v) :: r) wbF) : ReadsBack rb ((t, w, v) :: r) wbF := by
  obtain ⟨rbF, h1, h2⟩ := hr
  refine ⟨rbF, ?_, h2⟩
  simp only [requests, values, List.map_cons, readAll] at h1 ⊢
  rw [h]; exact h1

/-! ### The writer stands in a unit and the next field continues it -/

theorem step_cont (t : BTy) (w : Nat) (v : Int) (r : List (BTy × Nat × Int)) (ih : PAll r)
    (wb : BB) (n k a : Nat) (hu : InUnit wb t n k a) (hw0 : 0 < w) (hw : w ≤ 8 * n - k)
    (hfits : Fits (some t) (8 * n - k - w) (requests r)) (hvals : ValsFit ((t, w, v) :: r)) :
    LConcl wb t n k a ((t, w, v) :: r) := by
  obtain ⟨hv0, hvlt⟩ := hvals (t, w, v) (by simp)
  simp only at hv0 hvlt
  obtain ⟨m, rfl⟩ := Int.eq_ofNat_of_zero_le hv0
  have hm : m < 2 ^ w := by exact_mod_cast hvlt
  have hklt := hu.klt
  obtain ⟨b, hput, hinv1⟩ := put_step wb.endian n k a w m _ hu.inv hu.alt hm (by omega)
  have hbrem : b.remaining = 8 * n - (k + w) := hinv1.1
  have hacc := acc_lt wb.endian k a m w hu.alt hm
  have hwr := write_eq_put wb t n (8 * n - k) w (m : Int) b hu.ty hu.size hu.rem (by omega) (by omega) hput
  -- the reader's step, for any final unit value
  have reader : ∀ (F : Nat) (D : Bytes), URel wb.endian (8 * n) (k + w) (acc wb.endian k a m w) F →
      ∀ rb U, U % ((2 ^ (8 * n) : Nat) : Int) = (F : Int) → RInUnit rb wb.endian t n k U D (wb.stream.pos + n) →
      URel wb.endian (8 * n) k a F ∧
      ∃ rb1, rb.read t w = .ok (rb1, (m : Int)) ∧ rb1.ty = some t ∧ rb1.remaining = ((8 * n - (k + w) : Nat) : Int) ∧
        rb1.endian = wb.endian ∧ rb1.stream = { data := D, pos := wb.stream.pos + n } ∧
        ReadInv wb.endian (8 * n) U (k + w) { ty := none, buffer := rb1.buffer, remaining := 8 * n - (k + w) } := by
    intro F D hrel rb U hU hr
    obtain ⟨hrel0, hslot⟩ := urel_step wb.endian (8 * n) k a m w F hu.alt hm (by omega) hrel
    refine ⟨hrel0, ?_⟩
    have hinvr := hr.inv
    rw [← hr.endian] at hinvr
    obtain ⟨buf, hex, hinv'⟩ := extract_ok rb (8 * n) k w U (by omega) hinvr
    have hrd := read_cont rb t w (8 * n - k) hr.ty hr.rem (by omega)
    have hslotlo : slotLo wb.endian (8 * n) k w + w ≤ 8 * n := by
      cases wb.endian <;> simp only [slotLo] <;> omega
    have hval : slotVal U (slotLo rb.endian (8 * n) k w) w = (m : Int) := by
      rw [hr.endian, slot_of_emod U F (8 * n) _ w hU hslotlo, hslot]
    rw [hval] at hex
    refine ⟨_, hrd.trans hex, hr.ty, rfl, hr.endian, hr.stream, ?_⟩
    rw [← hr.endian]; exact hinv'
  by_cases hfull : k + w = 8 * n
  · -- the unit is exhausted: the write flushes it
    have hb0 : b.remaining = 0 := by omega
    rw [if_pos hb0] at hwr
    obtain ⟨F, hbuf, hF, hrelF⟩ := winv_value wb.endian n (k + w) _ b.buffer (by rw [← hbrem]; exact hinv1) hacc (by omega)
    have hfl := flush_ok ({ wb with buffer := b.buffer, remaining := (b.remaining : Int) } : BB) t n F hu.ty hu.size hbuf hF
    rw [hfl] at hwr
    generalize hwb1 : ({ ({ wb with buffer := b.buffer, remaining := (b.remaining : Int) } : BB).cleared with
      stream := wb.stream.write (encBytes wb.endian n F) } : BB) = wb1 at hwr
    have hidle1 : Idle wb1 := by subst hwb1; exact ⟨rfl, rfl, rfl⟩
    have he1 : wb1.endian = wb.endian := by subst hwb1; rfl
    have hs1 : wb1.stream = wb.stream.write (encBytes wb.endian n F) := by subst hwb1; rfl
    have hin1 : wb1.stream.pos ≤ wb1.stream.data.length := by rw [hs1]; exact write_inb _ _ hu.inb
    have hpos1 : wb1.stream.pos = wb.stream.pos + n := by rw [hs1, write_pos _ _ hu.inb, encBytes_length]
    have hfits' : Fits none 0 (requests r) := by
      have h0 : 8 * n - k - w = 0 := by omega
      rw [h0] at hfits
      cases hr : requests r with
      | nil => simp [Fits]
      | cons x rr =>
        obtain ⟨t', w'⟩ := x
        rw [hr] at hfits
        exact fits_new _ _ _ _ _ (Or.inl rfl) hfits
    obtain ⟨wbF, hwf, hpost, hback⟩ := ih.2 wb1 hidle1 hin1 hfits' (valsFit_tail hvals)
    obtain ⟨hpost', hsr⟩ := post_flush wb wb1 wbF _ hu.inb he1 hs1 hpost
    rw [encBytes_length] at hsr
    refine ⟨wbF, by rw [writeFlush_cons_ok _ _ _ _ _ _ hwr]; exact hwf, hpost', F, hF, hsr, ?_, ?_⟩
    · exact (urel_step wb.endian (8 * n) k a m w F hu.alt hm (by omega) hrelF).1
    · intro rb U hU hr
      obtain ⟨_, rb1, hread, hty1, hrem1, hen1, hst1, _⟩ := reader F wbF.stream.data hrelF rb U hU hr
      refine readsBack_cons rb rb1 wbF t w (m : Int) r hread ?_
      apply hback rb1 (by rw [hen1, he1]) (by rw [hst1, hpos1])
      cases r with
      | nil => trivial
      | cons x rr =>
        obtain ⟨t', w', v'⟩ := x
        left; rw [hrem1]; omega
  · -- the unit goes on
    have hb0 : ¬ b.remaining = 0 := by omega
    rw [if_neg hb0] at hwr
    generalize hwb1 : ({ wb with buffer := b.buffer, remaining := (b.remaining : Int) } : BB) = wb1 at hwr
    have hu1 : InUnit wb1 t n (k + w) (acc wb.endian k a m w) := by
      subst hwb1
      exact ⟨hu.ty, hu.size, by omega, by simp only [hbrem], hacc, by rw [← hbrem]; exact hinv1, hu.inb⟩
    have he1 : wb1.endian = wb.endian := by subst hwb1; rfl
    have hs1 : wb1.stream = wb.stream := by subst hwb1; rfl
    have hfits' : Fits (some t) (8 * n - (k + w)) (requests r) := by
      have : 8 * n - (k + w) = 8 * n - k - w := by omega
      rw [this]; exact hfits
    obtain ⟨wbF, hwf, hpost, F, hF, hsr, hrelF, hback⟩ := ih.1 wb1 t n (k + w) _ hu1 hfits' (valsFit_tail hvals)
    rw [he1] at hsr hrelF hback
    rw [hs1] at hsr hback
    have hpost' : Post wb wbF := by
      obtain ⟨h1, h2, h3, h4, h5, h6⟩ := hpost
      exact ⟨h1, by rw [h2, he1], h3, by rw [← hs1]; exact h4, by rw [← hs1]; exact h5, by rw [← hs1]; exact h6⟩
    refine ⟨wbF, by rw [writeFlush_cons_ok _ _ _ _ _ _ hwr]; exact hwf, hpost', F, hF, hsr, ?_, ?_⟩
    · exact (urel_step wb.endian (8 * n) k a m w F hu.alt hm (by omega) hrelF).1
    · intro rb U hU hr
      obtain ⟨_, rb1, hread, hty1, hrem1, hen1, hst1, hinv1'⟩ := reader F wbF.stream.data hrelF rb U hU hr
      exact readsBack_cons rb rb1 wbF t w (m : Int) r hread (hback rb1 U hU ⟨hty1, hrem1, hen1, hst1, hinv1'⟩)

/-! ### The writer holds no unit -/

theorem step_idle (t : BTy) (w : Nat) (v : Int) (r : List (BTy × Nat × Int)) (ih : PAll r)
    (wb : BB) (hidle : Idle wb) (hin : wb.stream.pos ≤ wb.stream.data.length)
    (hfits : Fits none 0 (requests ((t, w, v) :: r))) (hvals : ValsFit ((t, w, v) :: r)) :
    MConcl wb ((t, w, v) :: r) := by
  simp only [requests, List.map_cons, Fits, true_or, if_true] at hfits
  obtain ⟨n, hsz, hw0, hw, hfits'⟩ := hfits
  have hn : n ≠ 0 := by omega
  have hsel : InUnit (selected wb t n) t n 0 0 := by
    refine ⟨rfl, hsz, by omega, by simp only [selected]; omega, by simp, ?_, hin⟩
    have : (selected wb t n).buffer = 0 := hidle.2.1
    rw [this]
    exact writeInv_init _ _ none
  obtain ⟨wbF, hwf, hpost, F, hF, hsr, hrel, hback⟩ :=
    step_cont t w v r ih (selected wb t n) n 0 0 hsel hw0 (by omega) hfits' hvals
  have hE : (selected wb t n).endian = wb.endian := rfl
  have hS : (selected wb t n).stream = wb.stream := rfl
  rw [hE] at hsr hrel hback
  rw [hS] at hsr hback
  have hpost' : Post wb wbF := by
    obtain ⟨h1, h2, h3, h4, h5, h6⟩ := hpost
    exact ⟨h1, h2, h3, h4, h5, h6⟩
  refine ⟨wbF, ?_, hpost', ?_⟩
  · rw [writeFlush_cons_eq wb (selected wb t n) t w v r (write_idle wb t n w v hidle hsz hn)]; exact hwf
  · intro rb hre hrs hrl
    have hlen : rb.stream.pos + n ≤ rb.stream.data.length := by
      rw [hrs]
      exact le_of_sread_length _ _ _ hn (by rw [hsr, encBytes_length])
    have hld := read_load rb t n w hrl hsz hlen
    have hlty : (loaded rb t n).ty = some t := rfl
    have hlrem : (loaded rb t n).remaining = ((n * 8 : Nat) : Int) := by simp only [loaded]; omega
    have hcont := read_cont (loaded rb t n) t w (n * 8) hlty hlrem (by omega)
    apply readsBack_eq rb (loaded rb t n) wbF t w v r (hld.trans hcont.symm)
    have hbuf : (loaded rb t n).buffer = unitVal wb.endian t (encBytes wb.endian n F) := by
      simp only [loaded, hrs, hre, hsr]
    apply hback (loaded rb t n) _ (unitVal_emod wb.endian t n F hF)
    refine ⟨rfl, by simp only [loaded]; omega, hre, by simp only [loaded, hrs], ?_⟩
    rw [hbuf]
    exact readInv_init _ _ _ none

/-! ### The writer stands in a unit and the next field is of another storage type -/

theorem flush_unit (wb : BB) (t : BTy) (n k a : Nat) (hu : InUnit wb t n k a) :
    ∃ F wb1, wb.flush = .ok (wb1, ()) ∧ Idle wb1 ∧ wb1.endian = wb.endian ∧
      wb1.stream = wb.stream.write (encBytes wb.endian n F) ∧ F < 2 ^ (8 * n) ∧ URel wb.endian (8 * n) k a F := by
  obtain ⟨F, hbuf, hF, hrel⟩ := winv_value wb.endian n k a wb.buffer hu.inv hu.alt (by have := hu.klt; omega)
  exact ⟨F, _, flush_ok wb t n F hu.ty hu.size hbuf hF, ⟨rfl, rfl, rfl⟩, rfl, rfl, hF, hrel⟩

theorem step_switch (t' : BTy) (w : Nat) (v : Int) (r : List (BTy × Nat × Int))
    (hM : ∀ wb, Idle wb → wb.stream.pos ≤ wb.stream.data.length → Fits none 0 (requests ((t', w, v) :: r)) →
      ValsFit ((t', w, v) :: r) → MConcl wb ((t', w, v) :: r))
    (wb : BB) (t : BTy) (n k a : Nat) (hu : InUnit wb t n k a) (hne : t' ≠ t)
    (hfits : Fits (some t) (8 * n - k) (requests ((t', w, v) :: r))) (hvals : ValsFit ((t', w, v) :: r)) :
    LConcl wb t n k a ((t', w, v) :: r) := by
  have hnew : wb.remaining = 0 ∨ wb.ty ≠ some t' := by
    right; rw [hu.ty]; intro h; exact hne (Option.some.inj h).symm
  have hfits' : Fits none 0 (requests ((t', w, v) :: r)) := by
    simp only [requests, List.map_cons] at hfits ⊢
    exact fits_new _ _ _ _ _ (Or.inr (by intro h; exact hne (Option.some.inj h).symm)) hfits
  obtain ⟨F, wb1, hfl, hidle1, he1, hs1, hF, hrel⟩ := flush_unit wb t n k a hu
  have hin1 : wb1.stream.pos ≤ wb1.stream.data.length := by rw [hs1]; exact write_inb _ _ hu.inb
  have hpos1 : wb1.stream.pos = wb.stream.pos + n := by rw [hs1, write_pos _ _ hu.inb, encBytes_length]
  obtain ⟨n0, hn0⟩ : ∃ n0, n = n0 + 1 := ⟨n - 1, by have := hu.klt; omega⟩
  have hsz0 : t.size = some (n0 + 1) := by rw [← hn0]; exact hu.size
  have hw := write_switch wb wb1 t t' n0 w v hu.ty hsz0 hnew hfl hidle1
  obtain ⟨wbF, hwf, hpost, hback⟩ := hM wb1 hidle1 hin1 hfits' hvals
  obtain ⟨hpost', hsr⟩ := post_flush wb wb1 wbF _ hu.inb he1 hs1 hpost
  rw [encBytes_length] at hsr
  refine ⟨wbF, by rw [writeFlush_cons_eq wb wb1 t' w v r hw]; exact hwf, hpost', F, hF, hsr, hrel, ?_⟩
  intro rb U _ hr
  apply hback rb (by rw [hr.endian, he1]) (by rw [hr.stream, hpos1])
  right; rw [hr.ty]; intro h; exact hne (Option.some.inj h).symm

/-! ### The induction -/

theorem pall : ∀ ws : List (BTy × Nat × Int), PAll ws
  | [] => by
    constructor
    · intro wb t n k a hu _ _
      obtain ⟨F, wb1, hfl, hidle1, he1, hs1, hF, hrel⟩ := flush_unit wb t n k a hu
      have hin1 : wb1.stream.pos ≤ wb1.stream.data.length := by rw [hs1]; exact write_inb _ _ hu.inb
      have hpos1 : wb1.stream.pos = wb.stream.pos + n := by rw [hs1, write_pos _ _ hu.inb, encBytes_length]
      obtain ⟨hpost', hsr⟩ := post_flush wb wb1 wb1 _ hu.inb he1 hs1 (post_refl wb1 hidle1 hin1)
      rw [encBytes_length] at hsr
      refine ⟨wb1, by simp only [writeFlush, writeAll, hfl], hpost', F, hF, hsr, hrel, ?_⟩
      intro rb U _ hr
      refine ⟨rb, rfl, ?_⟩
      rw [hr.stream, ← hpos1]
    · intro wb hidle hin _ _
      refine ⟨wb, by simp only [writeFlush, writeAll, flush_idle wb hidle], post_refl wb hidle hin, ?_⟩
      intro rb _ hrs _
      exact ⟨rb, rfl, hrs⟩
  | (t', w, v) :: r => by
    have ih := pall r
    have hM : ∀ wb, Idle wb → wb.stream.pos ≤ wb.stream.data.length → Fits none 0 (requests ((t', w, v) :: r)) →
        ValsFit ((t', w, v) :: r) → MConcl wb ((t', w, v) :: r) :=
      fun wb hidle hin hf hv => step_idle t' w v r ih wb hidle hin hf hv
    refine ⟨?_, hM⟩
    intro wb t n k a hu hfits hvals
    by_cases hne : t' = t
    · subst hne
      have hklt := hu.klt
      have hc : ¬ (8 * n - k = 0 ∨ some t' ≠ some t') := by simp; omega
      simp only [requests, List.map_cons, Fits, if_neg hc] at hfits
      obtain ⟨n', hsz', hw0, hw, hfits'⟩ := hfits
      exact step_cont t' w v r ih wb n k a hu hw0 hw hfits' hvals
    · exact step_switch t' w v r hM wb t n k a hu hne hfits hvals

end Cstruct.C06.BB
