/-
  C13, definition parser — helper lemmas (9): two admissible texts with the same lexemes have token lists that agree up
  to swallowed blanks, and the same observations.
-/
import Proofs.Lemmas.C13ParseH

namespace Cstruct.DefParser.C13
open Cstruct.DefParser

theorem sepOK_lineEnd (ws1 nm ws2 val s : List Char) (next : Option Lexeme)
    (h : sepOK (.define ws1 nm ws2 val) s next = true) : lineEnd s [] = true := by
  simp only [sepOK, Bool.and_eq_true] at h
  cases s with
  | nil => rfl
  | cons c s => simpa [lineEnd] using h.2

theorem obs_tokOf_same (ac ac' : Bool) (x : Lexeme) (s s' : List Char) (r r' : List (Lexeme × List Char))
    (h : adm ac ((x, s) :: r) = true) (h' : adm ac' ((x, s') :: r') = true) :
    (tokOf x s).obs = (tokOf x s').obs := by
  obtain ⟨hwf, hbs, -, hsep, -⟩ := adm_cons ac x s r h
  obtain ⟨-, hbs', -, hsep', -⟩ := adm_cons ac' x s' r' h'
  cases x with
  | name pre w bits cnt => simp only [tokOf]; rw [obs_name pre w bits cnt hwf s hbs, obs_name pre w bits cnt hwf s' hbs']
  | defs lead first more => simp only [tokOf]; rw [obs_defs lead first more hwf s hbs, obs_defs lead first more hwf s' hbs']
  | enum fl ws1 nm ws2 ty vals =>
    simp only [tokOf]; rw [obs_enum fl ws1 nm ws2 ty vals hwf s hbs, obs_enum fl ws1 nm ws2 ty vals hwf s' hbs']
  | define ws1 nm ws2 val =>
    simp only [tokOf]
    rw [obs_define ws1 nm ws2 val hwf s hbs (sepOK_lineEnd _ _ _ _ s _ hsep),
      obs_define ws1 nm ws2 val hwf s' hbs' (sepOK_lineEnd _ _ _ _ s' _ hsep')]
  | _ => rfl

/-- `lexSim`: equal lexemes, or two enum heads that differ in their inner blanks only -/
theorem lexSim_cases (x x' : Lexeme) (h : lexSim x x' = true) :
    x = x' ∨ ∃ fl ws1 nm ws2 ty vals ws1' ws2' ty', x = .enum fl ws1 nm ws2 ty vals ∧ x' = .enum fl ws1' nm ws2' ty' vals ∧
      (ty.map fun t => normType t.2.1) = (ty'.map fun t => normType t.2.1) := by
  cases x with
  | enum fl ws1 nm ws2 ty vals =>
    cases x' with
    | enum fl' ws1' nm' ws2' ty' vals' =>
      simp only [lexSim, Bool.and_eq_true, beq_iff_eq] at h
      obtain ⟨⟨⟨rfl, rfl⟩, rfl⟩, hty⟩ := h
      refine .inr ⟨fl, ws1, nm, ws2, ty, vals, ws1', ws2', ty', rfl, rfl, ?_⟩
      cases ty with
      | none => cases ty' with
        | none => rfl
        | some t' => simp at hty
      | some t => cases ty' with
        | none => simp at hty
        | some t' => obtain ⟨a, t, b⟩ := t; obtain ⟨a', t', b'⟩ := t'; simpa using hty
    | _ => simp [lexSim] at h
  | _ => exact .inl (by simpa [lexSim] using h)

theorem obs_tokOf (ac ac' : Bool) (x x' : Lexeme) (s s' : List Char) (r r' : List (Lexeme × List Char))
    (hx : lexSim x x' = true) (h : adm ac ((x, s) :: r) = true) (h' : adm ac' ((x', s') :: r') = true) :
    (tokOf x s).obs = (tokOf x' s').obs := by
  rcases lexSim_cases x x' hx with rfl | ⟨fl, ws1, nm, ws2, ty, vals, ws1', ws2', ty', rfl, rfl, hty⟩
  · exact obs_tokOf_same ac ac' x s s' r r' h h'
  · obtain ⟨hwf, hbs, -, -, -⟩ := adm_cons ac _ s r h
    obtain ⟨hwf', hbs', -, -, -⟩ := adm_cons ac' _ s' r' h'
    simp only [tokOf]
    rw [obs_enum fl ws1 nm ws2 ty vals hwf s hbs, obs_enum fl ws1' nm ws2' ty' vals hwf' s' hbs', hty]

theorem simLexemes_of_same : ∀ (l l' : List (Lexeme × List Char)), sameLexemes l l' → simLexemes l l' = true
  | [], [], _ => rfl
  | [], _ :: _, hs => by simp [sameLexemes] at hs
  | _ :: _, [], hs => by simp [sameLexemes] at hs
  | (x, s) :: r, (x', s') :: r', hs => by
    simp only [sameLexemes, List.map_cons, List.cons.injEq] at hs
    obtain ⟨rfl, hs⟩ := hs
    have hrefl : lexSim x x = true := by
      cases x with
      | enum fl ws1 nm ws2 ty vals =>
        cases ty with
        | none => simp [lexSim]
        | some t => obtain ⟨a, t, b⟩ := t; simp [lexSim]
      | _ => simp [lexSim]
    simp [simLexemes, hrefl, simLexemes_of_same r r' hs]

theorem toks_obs : ∀ (l l' : List (Lexeme × List Char)) (ac ac' : Bool), adm ac l = true → adm ac' l' = true →
    simLexemes l l' = true → (toks l).map Tok.obs = (toks l').map Tok.obs
  | [], [], _, _, _, _, _ => rfl
  | [], _ :: _, _, _, _, _, hs => by simp [simLexemes] at hs
  | _ :: _, [], _, _, _, _, hs => by simp [simLexemes] at hs
  | (x, s) :: r, (x', s') :: r', ac, ac', h, h', hs => by
    simp only [simLexemes, Bool.and_eq_true] at hs
    have ih := toks_obs r r' _ _ (adm_cons ac x s r h).2.2.2.2 (adm_cons ac' x' s' r' h').2.2.2.2 hs.2
    simp only [toks, List.map_cons, ih, obs_tokOf ac ac' x x' s s' r r' hs.1 h h']

theorem agree_tokOf (x : Lexeme) (s s' : List Char) (hb : blank s = true) (hb' : blank s' = true) :
    TokAgree (tokOf x s) (tokOf x s') := by
  cases x <;> first
    | exact ⟨rfl, fun _ => rfl, fun h => absurd h (by simp [tokOf, TK.swallows])⟩
    | exact ⟨rfl, fun h => absurd h (by simp [tokOf, TK.swallows]), fun _ => ⟨_, s, s', hb, hb', rfl, rfl⟩⟩

theorem toks_agree : ∀ (l l' : List (Lexeme × List Char)) (ac ac' : Bool), adm ac l = true → adm ac' l' = true →
    sameLexemes l l' → TokensAgree (toks l) (toks l')
  | [], [], _, _, _, _, _ => .nil
  | [], _ :: _, _, _, _, _, hs => by simp [sameLexemes] at hs
  | _ :: _, [], _, _, _, _, hs => by simp [sameLexemes] at hs
  | (x, s) :: r, (x', s') :: r', ac, ac', h, h', hs => by
    simp only [sameLexemes, List.map_cons, List.cons.injEq] at hs
    obtain ⟨rfl, hs⟩ := hs
    have a := adm_cons ac x s r h
    have a' := adm_cons ac' x s' r' h'
    exact .cons (agree_tokOf x s s' a.2.1 a'.2.1) (toks_agree r r' _ _ a.2.2.2.2 a'.2.2.2.2 hs)

/-- leading blanks -/
theorem scan_lead (w : List Char) (l : List (Lexeme × List Char)) (hw : blank w = true) (h : adm false l = true) :
    scan (w ++ render l) = toks l := by
  unfold scan
  cases w with
  | nil => simpa using scan_render l false h
  | cons c w => rw [scan_sep false (c :: w) l hw (by simp) h]; exact scan_render l false h

theorem render_append (l1 l2 : List (Lexeme × List Char)) : render (l1 ++ l2) = render l1 ++ render l2 := by
  induction l1 with
  | nil => rfl
  | cons p l1 ih => obtain ⟨x, s⟩ := p; simp [render, ih]

end Cstruct.DefParser.C13
