/-
  Helper lemmas for `Proofs/C16.lean` (pointers).
-/
import CstructModel.Pointer
import Proofs.Core
import Proofs.C07
namespace Cstruct.C16.Lemmas
open Cstruct Cstruct.Pointer Cstruct.Core Cstruct.Core.Lemmas

/-! ### the configured (unsigned) pointer type -/

theorem decodeInt_unsigned (e : Endian) (bs : Bytes) : decodeInt e false bs = (decodeNat e bs : Int) := by
  simp [decodeInt]

/-- reading through an unsigned `n`-byte pointer type: exactly `n` bytes or EOF, value = the unsigned integer there -/
theorem readScalar_uptr (cfg : Cfg) (n : Nat) (hp : cfg.ptr = .pint n false ∨ cfg.ptr = .aint n false)
    (d : Bytes) (pos : Nat) :
    readScalar cfg cfg.ptr d pos =
      if (sread d pos n).length = n then .ok (.int (decodeNat cfg.endian (sread d pos n) : Int), pos + n)
      else .error .eof := by
  by_cases hl : (sread d pos n).length = n
  · rw [if_pos hl]
    rcases hp with hp | hp <;> rw [hp] <;> simp only [readScalar] <;> rw [readExact_of_len hl] <;>
      simp only [bind, Except.bind, pure, Except.pure, decodeInt_unsigned]
  · rw [if_neg hl]
    have : readExact d pos n = .error .eof := by unfold readExact; simp [hl]
    rcases hp with hp | hp <;> rw [hp] <;> simp only [readScalar] <;> rw [this] <;> rfl

theorem size_uptr (cfg : Cfg) (n : Nat) (hp : cfg.ptr = .pint n false ∨ cfg.ptr = .aint n false) (t : Ty) :
    (Ty.ptr t).size cfg = some n := by
  simp only [Ty.size]
  rcases hp with hp | hp <;> rw [hp] <;> rfl

theorem sread_eq (d : Bytes) (pos n : Nat) : sread d pos n = (d.drop pos).take n := rfl

/-- `read` of a pointer field under an unsigned pointer type -/
theorem read_uptr (cfg : Cfg) (n : Nat) (hp : cfg.ptr = .pint n false ∨ cfg.ptr = .aint n false)
    (t : Ty) (ctx : Ctx) (d : Bytes) (pos : Nat) :
    read cfg (.ptr t) ctx d pos =
      if (sread d pos n).length = n then .ok (.ptr (decodeNat cfg.endian (sread d pos n) : Int), pos + n)
      else .error .eof := by
  rw [read_ptr, readScalar_uptr cfg n hp]
  by_cases hl : (sread d pos n).length = n
  · rw [if_pos hl, if_pos hl]; rfl
  · rw [if_neg hl, if_neg hl]; rfl

theorem readPtr_uptr (cfg : Cfg) (n : Nat) (hp : cfg.ptr = .pint n false ∨ cfg.ptr = .aint n false)
    (t : Ty) (d : Bytes) (pos : Nat) :
    readPtr cfg t d pos =
      if (sread d pos n).length = n then
        .ok ({ addr := (decodeNat cfg.endian (sread d pos n) : Int), stream := some d, target := t, cache := none }, pos + n)
      else .error .eof := by
  unfold readPtr
  rw [readScalar_uptr cfg n hp]
  by_cases hl : (sread d pos n).length = n
  · rw [if_pos hl, if_pos hl]
  · rw [if_neg hl, if_neg hl]

theorem width_value (cfg : Cfg) (t : Ty) (ctx : Ctx) (d : Bytes) (pos n : Nat)
    (hp : cfg.ptr = .pint n false ∨ cfg.ptr = .aint n false) :
    (Ty.ptr t).size cfg = some n ∧
    (∀ v p, read cfg (.ptr t) ctx d pos = .ok (v, p) →
      p = pos + n ∧ ∃ a : Int, v = .ptr a ∧ a = (decodeNat cfg.endian ((d.drop pos).take n) : Int) ∧ 0 ≤ a ∧ a < 2 ^ (8 * n)) ∧
    (∀ ptr p, readPtr cfg t d pos = .ok (ptr, p) → ptr.stream = some d ∧ ptr.target = t ∧ ptr.cache = none ∧
      read cfg (.ptr t) ctx d pos = .ok (.ptr ptr.addr, p)) := by
  refine ⟨size_uptr cfg n hp t, ?_, ?_⟩
  · intro v p h
    rw [read_uptr cfg n hp] at h
    split at h
    · rename_i hl
      cases h
      refine ⟨rfl, _, rfl, rfl, Int.natCast_nonneg _, ?_⟩
      have := C05.Lemmas.decodeNat_lt cfg.endian (sread d pos n)
      rw [hl] at this
      exact_mod_cast this
    · cases h
  · intro ptr p h
    rw [readPtr_uptr cfg n hp] at h
    rw [read_uptr cfg n hp]
    split at h
    · rename_i hl
      cases h
      rw [if_pos hl]
      exact ⟨rfl, rfl, rfl, rfl⟩
    · cases h

/-! ### dereference -/

theorem deref_eq (cfg : Cfg) (ptr : Ptr) (data : Bytes) (pos : Nat) (hs : ptr.stream = some data) (ha : 0 < ptr.addr)
    (hc : ptr.cache = none) (hv : isVoid ptr.target = false) :
    (isChar ptr.target = false →
      deref cfg ptr pos = (read cfg ptr.target [] data ptr.addr.toNat).map (fun (v, _) => (v, { ptr with cache := some v }, pos))) ∧
    (isChar ptr.target = true →
      deref cfg ptr pos = (read cfg (.arr ptr.target .nullTerm) [] data ptr.addr.toNat).map (fun (v, _) => (v, { ptr with cache := some v }, pos))) := by
  have h0 : ptr.addr ≠ 0 := by omega
  have hn : ¬ ptr.addr < 0 := by omega
  constructor
  · intro hch
    simp only [deref, hs, hc, hv, hch, h0, hn, if_false, Bool.false_eq_true]
    cases read cfg ptr.target [] data ptr.addr.toNat with
    | error e => rfl
    | ok r => rfl
  · intro hch
    simp only [deref, hs, hc, hv, hch, h0, hn, if_false, if_true, Bool.false_eq_true]
    cases read cfg (.arr ptr.target .nullTerm) [] data ptr.addr.toNat with
    | error e => rfl
    | ok r => rfl

theorem deref_null (cfg : Cfg) (ptr : Ptr) (pos : Nat) (h : ptr.addr = 0 ∨ ptr.stream = none) :
    deref cfg ptr pos = .error .nullDeref := by
  unfold deref
  cases hs : ptr.stream with
  | none => rfl
  | some data =>
    rcases h with h | h
    · simp only [h, if_true]
    · rw [hs] at h; cases h

theorem deref_stable (cfg : Cfg) (ptr : Ptr) (pos pos' : Nat) (v : Val) (ptr' : Ptr) (q : Nat)
    (h : deref cfg ptr pos = .ok (v, ptr', q)) :
    q = pos ∧ deref cfg ptr' pos' = .ok (v, ptr', pos') ∧ ptr'.addr = ptr.addr ∧ ptr'.stream = ptr.stream ∧ ptr'.target = ptr.target := by
  unfold deref at h
  obtain ⟨data, hs⟩ : ∃ data, ptr.stream = some data := by
    cases hs : ptr.stream with
    | none => rw [hs] at h; cases h
    | some data => exact ⟨data, rfl⟩
  · rw [hs] at h
    simp only [] at h
    by_cases h0 : ptr.addr = 0
    · rw [if_pos h0] at h; cases h
    · rw [if_neg h0] at h
      cases hc : ptr.cache with
      | some w =>
        rw [hc] at h
        cases h
        refine ⟨rfl, ?_, rfl, rfl, rfl⟩
        simp only [deref, hs, hc, h0, if_false]
      | none =>
        rw [hc] at h
        simp only [] at h
        by_cases hv : isVoid ptr.target = true
        · rw [if_pos hv] at h
          cases h
          refine ⟨rfl, ?_, rfl, rfl, rfl⟩
          simp only [deref, hs, hc, h0, hv, if_false, if_true]
        · rw [if_neg hv] at h
          by_cases hn : ptr.addr < 0
          · rw [if_pos hn] at h; cases h
          · rw [if_neg hn] at h
            split at h
            · cases h
              refine ⟨rfl, ?_, rfl, hs.symm, rfl⟩
              simp only [deref, h0, if_false]
            · cases h

theorem arith_eq (cfg : Cfg) (ptr : Ptr) (f : Int → Int) (pos : Nat) :
    (arith ptr f).target = ptr.target ∧ (arith ptr f).stream = ptr.stream ∧ (arith ptr f).addr = f ptr.addr ∧
    deref cfg (arith ptr f) pos = deref cfg { ptr with addr := f ptr.addr, cache := none } pos :=
  ⟨rfl, rfl, rfl, rfl⟩

/-! ### dumping -/

theorem dump (cfg : Cfg) (t : Ty) (d : Bytes) (pos n : Nat) (ptr : Ptr) (p : Nat)
    (hp : cfg.ptr = .pint n false ∨ cfg.ptr = .aint n false) (h : readPtr cfg t d pos = .ok (ptr, p)) :
    writePtr cfg ptr = .ok ((d.drop pos).take n) ∧ write cfg (.ptr t) (.ptr ptr.addr) pos = .ok ((d.drop pos).take n) ∧
    (∀ a : Int, (a < 0 ∨ 2 ^ (8 * n) ≤ a) → write cfg (.ptr t) (.ptr a) pos = .error .overflow) := by
  rw [readPtr_uptr cfg n hp] at h
  split at h
  · rename_i hl
    cases h
    have hw : writeScalar cfg cfg.ptr (.int (decodeNat cfg.endian (sread d pos n) : Int)) = .ok (sread d pos n) := by
      have := (C05.c05_int_roundtrip_bytes cfg.endian false (sread d pos n)).2
      rw [hl, decodeInt_unsigned] at this
      rcases hp with hp | hp <;> rw [hp] <;> simp only [writeScalar, this]
    refine ⟨hw, ?_, ?_⟩
    · rw [write_ptr_ptr]; exact hw
    · intro a ha
      rw [write_ptr_ptr]
      have hf : fits n false a = false := by
        cases hfit : fits n false a with
        | false => rfl
        | true =>
          have := ((C05.c05_fits_range n a).1).1 hfit
          omega
      have := C05.c05_int_reject cfg.endian n false a hf
      rcases hp with hp | hp <;> rw [hp] <;> simp only [writeScalar, this]
  · cases h

end Cstruct.C16.Lemmas
