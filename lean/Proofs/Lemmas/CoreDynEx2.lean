/-
  Non-vacuity material for the aligned theorem of `Proofs/CoreDyn.lean`: an ALIGNED structure with an expression-length
  array, a null-terminated string and static members behind it (placed by padding on the absolute position), and the
  step-by-step evaluation of `write` on a concrete value.
-/
import Proofs.Lemmas.CoreDynAlW
import Proofs.Lemmas.CoreDynEx
namespace Cstruct.Core.ExD
open Cstruct Cstruct.Core Cstruct.Core.Lemmas
set_option linter.unusedSimpArgs false

def u32 : Ty := .sc (.pint 4 false) 4
def arrQ : Ty := .arr u16 (.expr ["n"])
def gsT : Fields := .cons "tail" false u8 none .nil
def gsX : Fields := .cons "x" false u32 none gsT
def gsS : Fields := .cons "s" false strS none gsX
def gsA : Fields := .cons "a" false arrQ none gsS
/-- `struct { uint8 n; uint16 a[n]; char s[]; uint32 x; uint8 tail; }`, aligned -/
def gsN : Fields := .cons "n" false u8 none gsA
def tyQ : Ty := .struct true gsN
def wsT : Vals := .cons (.int 9) .nil
def wsX : Vals := .cons (.int 0x01020304) wsT
def wsS : Vals := .cons (.bytes [104, 105]) wsX
def wsA : Vals := .cons (.list (.cons (.int 7) .nil)) wsS
/-- `n = 1, a = [7], s = b"hi", x = 0x01020304, tail = 9` -/
def wsN : Vals := .cons (.int 1) wsA
def bytesQ : Bytes := [1, 0, 7, 0, 104, 105, 0, 0, 4, 3, 2, 1, 9, 0, 0, 0]

theorem eqT : writeFields cfgL true gsT [none] wsT 0 BitBuf.empty 12 = .ok ([9], BitBuf.empty) := by
  rw [gsT, wsT, writeFields_nb_idle_true]
  have hp : padW cfgL u8 none 0 12 = 0 := by decide +kernel
  rw [hp, u8, write_sc]
  have : writeScalar cfgL (.pint 1 false) (.int 9) = .ok [9] := by decide +kernel
  rw [this]
  simp only [Except.bind, writeFields_nil]
  rfl

theorem eqX : writeFields cfgL true gsX [none, none] wsX 0 BitBuf.empty 7 = .ok ([0, 4, 3, 2, 1, 9], BitBuf.empty) := by
  rw [gsX, wsX, writeFields_nb_idle_true]
  have hp : padW cfgL u32 none 0 7 = 1 := by decide +kernel
  rw [hp, u32, write_sc]
  have : writeScalar cfgL (.pint 4 false) (.int 0x01020304) = .ok [4, 3, 2, 1] := by decide +kernel
  rw [this]
  simp only [Except.bind, zeros, List.replicate, List.cons_append, List.nil_append, List.length_cons, List.length_nil,
    Nat.reduceAdd, eqT]

theorem eqS : writeFields cfgL true gsS [none, none, none] wsS 0 BitBuf.empty 4 =
    .ok ([104, 105, 0, 0, 4, 3, 2, 1, 9], BitBuf.empty) := by
  rw [gsS, wsS, writeFields_nb_idle_true]
  have hp : padW cfgL strS none 0 4 = 0 := by decide +kernel
  rw [hp, strS, chr, write_arr_bytes]
  simp only [Except.bind, zeros, List.replicate, List.cons_append, List.nil_append, List.length_cons, List.length_nil,
    Nat.reduceAdd, eqX]

theorem eqA : writeFields cfgL true gsA [some 2, none, none, none] wsA 0 BitBuf.empty 1 =
    .ok ([0, 7, 0, 104, 105, 0, 0, 4, 3, 2, 1, 9], BitBuf.empty) := by
  rw [gsA, wsA, writeFields_nb_idle_true]
  have hp : padW cfgL arrQ (some 2) 0 1 = 1 := by decide +kernel
  have h2 : writeScalar cfgL (.pint 2 false) (.int 7) = .ok [7, 0] := by decide +kernel
  rw [hp, arrQ, write_arr_expr_list, writeN_cons, u16, write_sc, h2]
  simp only [Except.bind, writeN_nil, zeros, List.replicate, List.cons_append, List.nil_append, List.append_nil,
    List.length_cons, List.length_nil, Nat.reduceAdd, eqS]

theorem eqN : writeFields cfgL true gsN [some 0, some 2, none, none, none] wsN 0 BitBuf.empty 0 =
    .ok ([1, 0, 7, 0, 104, 105, 0, 0, 4, 3, 2, 1, 9], BitBuf.empty) := by
  rw [gsN, wsN, writeFields_nb_idle_true]
  have hp : padW cfgL u8 (some 0) 0 0 = 0 := by decide +kernel
  rw [hp, u8, write_sc]
  have : writeScalar cfgL (.pint 1 false) (.int 1) = .ok [1] := by decide +kernel
  rw [this]
  simp only [Except.bind, zeros, List.replicate, List.cons_append, List.nil_append, List.length_cons, List.length_nil,
    Nat.reduceAdd, eqA]

theorem ex_write_al : write cfgL tyQ (.record wsN) 0 = .ok bytesQ := by
  have hl : structLayout cfgL true gsN = .ok (none, 4, [some 0, some 2, none, none, none]) := by decide +kernel
  rw [tyQ, write_struct, hl]
  have hp : padNat 13 4 = 3 := by decide +kernel
  simp only [Except.bind, eqN, flushBits_empty, List.append_nil, if_true, List.length_cons, List.length_nil, Nat.reduceAdd,
    hp]
  rfl

theorem ex_typed_al : HasTyD cfgL [] (.record wsN) tyQ :=
  .struct (.cons (.int rfl (by decide))
    (.cons (.arr (by intro a h; cases h) (by intro a h; cases h) (n := 1) (by decide +kernel)
        (.cons (.int rfl (by decide)) .nil))
      (.cons (.chars0 (by decide))
        (.cons (.int rfl (by decide))
          (.cons (.int rfl (by decide)) .nil)))))

theorem ex_p2_al : tyQ.pow2Aligned cfgL :=
  ⟨Or.inr ⟨0, rfl⟩, Or.inr ⟨1, rfl⟩, Or.inr ⟨0, rfl⟩, Or.inr ⟨2, rfl⟩, Or.inr ⟨0, rfl⟩, trivial⟩

end Cstruct.Core.ExD
