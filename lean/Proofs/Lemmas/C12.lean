/-
  Helper lemmas for `Proofs/C12.lean` (enums and flags): the `Ty.enum` cases of the reader and writer, one unfolding step
  of the numbering fold `Enum.number`, bit-length facts behind flag numbering, and the comparison/hash semantics.
-/
import CstructModel.Enum
import Proofs.Core
import Proofs.C01
namespace Cstruct.C12.Lemmas
open Cstruct Cstruct.Enum Cstruct.Core

/-! ### Reading and writing an enum field -/

theorem read_enum_ok (cfg : Cfg) (b : Scalar) (a : Nat) (f : Bool) (ctx : Ctx) (d : Bytes) (pos : Nat) (v : Int) (p : Nat)
    (h : readScalar cfg b d pos = .ok (.int v, p)) : read cfg (.enum b a f) ctx d pos = .ok (.enum v, p) := by
  rw [Core.Lemmas.read_enum, h]; rfl

theorem read_enum_error (cfg : Cfg) (b : Scalar) (a : Nat) (f : Bool) (ctx : Ctx) (d : Bytes) (pos : Nat) (e : Err)
    (h : readScalar cfg b d pos = .error e) : read cfg (.enum b a f) ctx d pos = .error e := by
  rw [Core.Lemmas.read_enum, h]; rfl

theorem write_enum (cfg : Cfg) (b : Scalar) (a : Nat) (f : Bool) (v : Int) (wpos : Nat) :
    write cfg (.enum b a f) (.enum v) wpos = writeScalar cfg b (.int v) :=
  Core.Lemmas.write_enum_enum cfg b a f v wpos

theorem enum_roundtrip (cfg : Cfg) (b : Scalar) (a : Nat) (f : Bool) (hb : Scalar.isInt b = true) (v : Int)
    (hfit : intFits b v = true) (hpow : a = 0 ∨ ∃ k, a = 2 ^ k) (post : Bytes) (ctx : Ctx) :
    ∃ bs, write cfg (.enum b a f) (.enum v) 0 = .ok bs ∧
      read cfg (.enum b a f) ctx (bs ++ post) 0 = .ok (.enum v, bs.length) := by
  have hS : (Ty.enum b a f).fragS cfg = true := by simp only [Ty.fragS]; exact hb
  have hu : (Ty.enum b a f).uniformAlign true = true := by simp only [Ty.uniformAlign]
  have hp : (Ty.enum b a f).pow2Aligned cfg := by simp only [Ty.pow2Aligned]; exact hpow
  have hv : HasTy cfg (.enum v) (.enum b a f) := .enum hfit
  have hal := Cstruct.C01.alignsDivide_zero cfg (.enum b a f)
  obtain ⟨bs, hw, _⟩ := write_total_S cfg true _ hS hu hp _ hv 0 hal
  refine ⟨bs, hw, ?_⟩
  have h := roundtrip_S cfg true _ hS hu hp _ hv 0 hal bs hw [] post rfl ctx
  simpa using h

/-! ### The numbering fold -/

theorem number_none (isFlag : Bool) (consts : List (String × Int)) (name : String) (rest : List (String × Option String))
    (next : Int) (vals : List (String × Int)) :
    number isFlag consts ((name, none) :: rest) next vals =
      number isFlag consts rest (nextVal isFlag next) (setVal name next vals) := by
  simp only [number]

theorem number_some (isFlag : Bool) (consts : List (String × Int)) (name text : String)
    (rest : List (String × Option String)) (next : Int) (vals : List (String × Int)) (o : Expr.Obj) (x : Int)
    (ho : Expr.Obj.new text = .ok o)
    (hx : (o.evaluate { ctx := vals, consts := consts, sizeof := fun _ => .error .resolve }).2 = .ok x) :
    number isFlag consts ((name, some text) :: rest) next vals =
      number isFlag consts rest (nextVal isFlag x) (setVal name x vals) := by
  simp only [number, ho, hx]

theorem nextVal_false (v : Int) : nextVal false v = v + 1 := by
  simp [nextVal]

theorem nextVal_true (v : Int) : nextVal true v = (2 : Int) ^ bitLength v := by
  simp [nextVal, Int.natCast_pow]

/-! ### Bit length -/

theorem lt_two_pow_bitLength (v : Int) (hv : 0 ≤ v) : v < (2 : Int) ^ bitLength v := by
  unfold bitLength
  split
  · next h => subst h; decide
  · have h1 : v.natAbs < 2 ^ (Nat.log2 v.natAbs + 1) := Nat.lt_log2_self
    have h2 : ((v.natAbs : Nat) : Int) = v := Int.natAbs_of_nonneg hv
    have h3 : ((2 ^ (Nat.log2 v.natAbs + 1) : Nat) : Int) = (2 : Int) ^ (Nat.log2 v.natAbs + 1) := by
      simp [Int.natCast_pow]
    rw [← h3]
    generalize 2 ^ (Nat.log2 v.natAbs + 1) = P at h1 ⊢
    omega

theorem two_pow_bitLength_le (v : Int) (hv : 0 < v) : (2 : Int) ^ bitLength v ≤ 2 * v := by
  unfold bitLength
  have hne : v ≠ 0 := by omega
  rw [if_neg hne]
  have hn : v.natAbs ≠ 0 := by omega
  have h1 : 2 ^ Nat.log2 v.natAbs ≤ v.natAbs := Nat.log2_self_le hn
  have h2 : ((v.natAbs : Nat) : Int) = v := Int.natAbs_of_nonneg (by omega)
  have h3 : ((2 ^ (Nat.log2 v.natAbs + 1) : Nat) : Int) = (2 : Int) ^ (Nat.log2 v.natAbs + 1) := by
    simp [Int.natCast_pow]
  rw [← h3, Nat.pow_succ]
  generalize 2 ^ Nat.log2 v.natAbs = P at h1 ⊢
  omega

/-! ### Comparison and hash -/

theorem eqInt_iff (a : EVal) (n : Int) : a.eqInt n = true ↔ a.value = n := by
  simp [EVal.eqInt]

theorem eq_iff_of_cls (a b : EVal) (h : a.cls = b.cls) : a.eq b = true ↔ a.value = b.value := by
  simp [EVal.eq, h]

theorem eq_false_of_cls (a b : EVal) (h : a.cls ≠ b.cls) : a.eq b = false := by
  simp [EVal.eq, h]

theorem eq_refl (a : EVal) : a.eq a = true := by
  simp [EVal.eq]

theorem eq_symm (a b : EVal) : a.eq b = b.eq a := by
  unfold EVal.eq
  by_cases h : a.cls = b.cls
  · have h' : b.cls = a.cls := h.symm
    rw [if_neg (not_not_intro h), if_neg (not_not_intro h')]
    exact decide_eq_decide.mpr ⟨Eq.symm, Eq.symm⟩
  · have h' : b.cls ≠ a.cls := fun e => h e.symm
    rw [if_pos h, if_pos h']

theorem mk_value (cls : Nat) (members : List (String × Int)) (v : Int) : (mk cls members v).value = v := rfl

theorem mk_eq_imp (cls : Nat) (members : List (String × Int)) (v w : Int)
    (h : (mk cls members v).eq (mk cls members w) = true) : v = w := by
  have := (eq_iff_of_cls (mk cls members v) (mk cls members w) rfl).mp h
  exact this

end Cstruct.C12.Lemmas
