/-
  Helper lemmas for `Proofs/C02Bits.lean`, part 5: from the forward statement ("given enough input …", `f_ty`) to the
  statement about an arbitrary successful parse: fragment SB is plain, so a successful parse can be replayed on an
  extended input (`Core.Lemmas.read_extend`), where `f_ty` determines its end position and its value.
-/
import Proofs.Lemmas.C02BitsD
namespace Cstruct.C02B.Lemmas
open Cstruct Cstruct.Core Cstruct.Core.Lemmas Cstruct.C02B
set_option linter.unusedSimpArgs false

mutual
theorem fragSB_plain (cfg : Cfg) : ∀ ty : Ty, ty.fragSB cfg = true → ty.plain = true
  | .sc _ _, _ => rfl
  | .enum _ _ _, _ => rfl
  | .ptr _, _ => rfl
  | .arr e len, h => by
    simp only [Ty.fragSB, Bool.and_eq_true] at h
    cases len with
    | fixed n => simp only [Ty.plain, Bool.true_and]; exact fragSB_plain cfg e h.2
    | expr _ => simp at h
    | nullTerm => simp at h
    | eof => simp at h
  | .struct _ fs, h => by
    simp only [Ty.fragSB] at h
    simp only [Ty.plain]; exact fragSB_plain_fields cfg fs h
  | .union _ _, h => by simp [Ty.fragSB] at h
theorem fragSB_plain_fields (cfg : Cfg) : ∀ fs : Fields, Fields.fragSB cfg fs = true → Fields.plain fs = true
  | .nil, _ => rfl
  | .cons _ _ t none r, h => by
    simp only [Fields.fragSB, Bool.and_eq_true] at h
    simp only [Fields.plain, Bool.and_eq_true]
    exact ⟨fragSB_plain cfg t h.1, fragSB_plain_fields cfg r h.2⟩
  | .cons _ _ _ (some 0) _, h => by simp [Fields.fragSB] at h
  | .cons _ _ t (some (_ + 1)) r, h => by
    simp only [Fields.fragSB, Bool.and_eq_true] at h
    simp only [Fields.plain, Bool.and_eq_true]
    refine ⟨?_, fragSB_plain_fields cfg r h.2⟩
    cases t <;> simp [Ty.bitOk] at h <;> rfl
end

/-- **every successful parse** of a type of fragment SB (packed, definition accepted) ends exactly `size` bytes after its
    start, yields a value of the type, and — when those bytes exist — dumping the value gives them back under the mask -/
theorem fidelity_gen (cfg : Cfg) (ty : Ty) (hS : ty.fragSB cfg = true) (hu : ty.uniformAlign false = true)
    (hd : ty.defErr cfg = none) (ctx : Ctx) (d : Bytes) (pos : Nat) (v : Val) (p : Nat)
    (hr : read cfg ty ctx d pos = .ok (v, p)) :
    ∃ n, ty.size cfg = some n ∧ p = pos + n ∧ HasTyB cfg v ty ∧ (maskB cfg ty).length = n ∧
      (p ≤ d.length → write cfg ty v pos = .ok (andBytes (sread d pos n) (maskB cfg ty))) := by
  obtain ⟨n, hn⟩ := size_some_ty cfg ty hS hd
  obtain ⟨hml, hf⟩ := f_ty cfg ty hS hu hd n hn
  -- replay on an input that is long enough
  have hext := Core.Lemmas.read_extend cfg ty (fragSB_plain cfg ty hS) ctx d pos v p hr (d ++ zeros (pos + n))
    (List.prefix_append _ _)
  obtain ⟨v', hr', hv', _⟩ := hf ctx (d ++ zeros (pos + n)) pos (by simp [zeros])
  rw [hext] at hr'
  simp only [Except.ok.injEq, Prod.mk.injEq] at hr'
  obtain ⟨rfl, rfl⟩ := hr'
  refine ⟨n, hn, rfl, hv', hml, ?_⟩
  intro hlen
  obtain ⟨v'', hr'', _, hw''⟩ := hf ctx d pos hlen
  rw [hr] at hr''
  simp only [Except.ok.injEq, Prod.mk.injEq] at hr''
  obtain ⟨rfl, _⟩ := hr''
  exact hw''

theorem andBytes_getElem (w m : Bytes) (i : Nat) (h1 : i < (andBytes w m).length) (h2 : i < w.length) (h3 : i < m.length) :
    (andBytes w m)[i] = w[i] &&& m[i] := by
  simp [andBytes]

end Cstruct.C02B.Lemmas
