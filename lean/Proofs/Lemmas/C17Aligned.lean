/-
  Helper lemmas for `Proofs/C17Aligned.lean`: the SHAPE of the bytes the structure writer emits for a value of a fixed-size
  structure without bit-fields (fragment S), packed or aligned: every member's encoding sits at its layout offset,
  members are laid out in order without overlap, and every byte outside the members' extents is a zero byte.
-/
import Proofs.Lemmas.C17
namespace Cstruct.C17.Lemmas
open Cstruct Cstruct.Core Cstruct.Core.Lemmas

/-- value number `k` -/
def nV : Vals → Nat → Option Val
  | .nil, _ => none
  | .cons v _, 0 => some v
  | .cons _ r, k + 1 => nV r k

theorem nV_setV_eq : ∀ (vs : Vals) (k : Nat) (v w : Val), nV vs k = some w → nV (setV vs k v) k = some v
  | .nil, _, _, _, h => by simp [nV] at h
  | .cons _ _, 0, _, _, _ => rfl
  | .cons _ r, k + 1, v, w, h => by simp only [setV, nV] at h ⊢; exact nV_setV_eq r k v w h

theorem nV_setV_ne : ∀ (vs : Vals) (k j : Nat) (v : Val), j ≠ k → nV (setV vs k v) j = nV vs j
  | .nil, _, _, _, _ => rfl
  | .cons _ _, 0, 0, _, h => absurd rfl h
  | .cons _ _, 0, j + 1, _, _ => rfl
  | .cons _ _, k + 1, 0, _, _ => rfl
  | .cons _ r, k + 1, j + 1, v, h => by simp only [setV, nV]; exact nV_setV_ne r k j v (by omega)

theorem offsS_ge (cfg : Cfg) (al : Bool) : ∀ (fs : Fields) (o k off : Nat), (offsS cfg al fs o)[k]? = some (some off) → o ≤ off
  | .nil, _, _, _, h => by simp [offsS] at h
  | .cons _ _ ty _ r, o, 0, off, h => by
    simp only [offsS, List.getElem?_cons_zero, Option.some.injEq] at h
    subst h; exact le_alignTo al o _
  | .cons _ _ ty _ r, o, k + 1, off, h => by
    simp only [offsS, List.getElem?_cons_succ] at h
    have := offsS_ge cfg al r _ k off h
    have := le_alignTo al o (ty.alignment cfg)
    omega

theorem zeros_getElem? (m i : Nat) (h : i < m) : (zeros m)[i]? = some 0 := by
  simp [zeros, h]

/-- position `i` (relative to the structure start) lies in no member's extent -/
def IsPadAt (cfg : Cfg) (fs : Fields) (offs : List (Option Nat)) (i : Nat) : Prop :=
  ∀ k t off n, nTy fs k = some t → offs[k]? = some (some off) → t.size cfg = some n → ¬ (off ≤ i ∧ i < off + n)

/-- **Shape of the member loop's output** (fragment S, from running offset `o`). -/
theorem dump_fields (cfg : Cfg) (al : Bool) : ∀ (fs : Fields), Fields.fragS cfg fs = true →
    Fields.uniformAlign al fs = true → fs.pow2Aligned cfg → ∀ vs, HasTys cfg vs fs → ∀ (start o : Nat),
    (al = true → allAlignDvd cfg start fs) →
    ∃ out, writeFields cfg al fs (offsS cfg al fs o) vs start BitBuf.empty (start + o) = .ok (out, BitBuf.empty) ∧
      o + out.length = endOff cfg al fs o ∧
      (∀ k t, nTy fs k = some t → ∃ off n w enc, (offsS cfg al fs o)[k]? = some (some off) ∧ t.size cfg = some n ∧
          nV vs k = some w ∧ write cfg t w (start + off) = .ok enc ∧ enc.length = n ∧ o ≤ off ∧
          off + n ≤ endOff cfg al fs o ∧ (∀ j, j < n → out[off - o + j]? = enc[j]?) ∧
          (∀ k' off', k < k' → (offsS cfg al fs o)[k']? = some (some off') → off + n ≤ off')) ∧
      (∀ i, i < out.length → IsPadAt cfg fs (offsS cfg al fs o) (o + i) → out[i]? = some 0)
  | .nil, _, _, _, vs, hvs, start, o, _ => by
    cases hvs
    refine ⟨[], writeFields_nil .., rfl, ?_, ?_⟩
    · intro k t ht; simp [nTy] at ht
    · intro i hi; simp at hi
  | .cons name an ty bits rest, hS, hU, hP, vs, hvs, start, o, hdv => by
    simp only [Fields.fragS, Bool.and_eq_true, Option.isNone_iff_eq_none] at hS
    obtain ⟨⟨rfl, hS1⟩, hS2⟩ := hS
    simp only [Fields.uniformAlign, Bool.and_eq_true] at hU
    simp only [Fields.pow2Aligned] at hP
    cases hvs with
    | @cons v0 vs' _ _ _ _ hv0 hvs' =>
      have hfa := alignment_p2 cfg ty hP.1
      have hle := le_alignTo al o (ty.alignment cfg)
      have hpos : al = true → sAlign cfg ty ∣ start + alignTo al o (ty.alignment cfg) := by
        intro ha; subst ha
        have h1 := (hdv rfl).1
        exact Nat.dvd_trans (sAlign_dvd_alignment cfg ty) (Nat.dvd_add h1 (alignTo_dvd hfa o))
      obtain ⟨bs, sz, w, s, l, _⟩ := wr_ty cfg al ty hS1 hU.1 hP.1 v0 hv0 _ hpos
      simp only [offsS, endOff, s, Option.getD_some]
      generalize hfo : alignTo al o (ty.alignment cfg) = fo at *
      have hpad : (if start + o < start + fo then start + fo - (start + o) else 0) = fo - o := by
        split <;> omega
      have e1 : start + o + (fo - o) = start + fo := by omega
      obtain ⟨out', w', l', hm', hz'⟩ := dump_fields cfg al rest hS2 hU.2 hP.2 vs' hvs' start (fo + sz)
        (fun ha => (hdv ha).2)
      have e2 : start + o + (zeros (fo - o) ++ bs).length = start + (fo + sz) := by
        simp only [List.length_append, zeros, List.length_replicate, l]; omega
      have hz : (zeros (fo - o)).length = fo - o := by simp [zeros]
      have hzb : (zeros (fo - o) ++ bs).length = fo - o + sz := by
        simp only [List.length_append, hz, l]
      have hend := le_endOff cfg al rest (fo + sz)
      refine ⟨zeros (fo - o) ++ bs ++ out', ?_, ?_, ?_, ?_⟩
      · rw [writeFields_cons_S, hpad, e1, w]
        simp only [Except.bind]
        rw [e2, w']
      · simp only [List.length_append, hz, l]; omega
      · intro k t ht
        cases k with
        | zero =>
          simp only [nTy, Option.some.injEq] at ht
          subst ht
          refine ⟨fo, sz, v0, bs, rfl, s, rfl, w, l, hle, by omega, ?_, ?_⟩
          · intro j hj
            rw [List.append_assoc, List.getElem?_append_right (by rw [hz]; omega), hz,
              List.getElem?_append_left (by omega)]
            congr 1; omega
          · intro k' off' hk' ho'
            cases k' with
            | zero => omega
            | succ k' =>
              simp only [List.getElem?_cons_succ] at ho'
              exact offsS_ge cfg al rest _ k' off' ho'
        | succ k =>
          simp only [nTy] at ht
          obtain ⟨off, n, w0, enc, a1, a2, a3, a4, a5, a6, a7, a8, a9⟩ := hm' k t ht
          refine ⟨off, n, w0, enc, by simpa using a1, a2, a3, a4, a5, by omega, a7, ?_, ?_⟩
          · intro j hj
            rw [List.getElem?_append_right (by rw [hzb]; omega), hzb, ← a8 j hj]
            congr 1; omega
          · intro k' off' hk' ho'
            cases k' with
            | zero => omega
            | succ k' =>
              simp only [List.getElem?_cons_succ] at ho'
              exact a9 k' off' (by omega) ho'
      · intro i hi hpadi
        simp only [List.length_append, hz, l] at hi
        by_cases h1 : i < fo - o
        · rw [List.append_assoc, List.getElem?_append_left (by rw [hz]; exact h1)]
          exact zeros_getElem? _ _ h1
        · by_cases h2 : i < fo - o + sz
          · exfalso
            exact hpadi 0 ty fo sz rfl rfl s ⟨by omega, by omega⟩
          · rw [List.getElem?_append_right (by rw [hzb]; omega), hzb]
            apply hz' _ (by omega)
            intro k t off n hk ho hn hin
            refine hpadi (k + 1) t off n hk (by simpa using ho) hn ?_
            omega

/-- **Shape of `dumps`** for a value of a fixed-size structure without bit-fields (packed or aligned): the length is the
    declared size, every member's encoding (written at its absolute offset) sits at its layout offset, members are in
    order and do not overlap, every byte in no member's extent (alignment padding, tail padding) is zero. -/
theorem dump_shape (cfg : Cfg) (al : Bool) (fs : Fields) (hS : (Ty.struct al fs).fragS cfg = true)
    (hu : (Ty.struct al fs).uniformAlign al = true) (hp : (Ty.struct al fs).pow2Aligned cfg)
    (vs : Vals) (hv : HasTy cfg (.record vs) (.struct al fs)) (offs : List (Option Nat)) (sz : Option Nat) (a : Nat)
    (hl : structLayout cfg al fs = .ok (sz, a, offs)) :
    ∃ b, dumps cfg (.struct al fs) (.record vs) = .ok b ∧ sz = some b.length ∧
      (∀ k t, nTy fs k = some t → ∃ off n w enc, offs[k]? = some (some off) ∧ t.size cfg = some n ∧
          nV vs k = some w ∧ write cfg t w off = .ok enc ∧ enc.length = n ∧ off + n ≤ b.length ∧
          (∀ j, j < n → b[off + j]? = enc[j]?) ∧
          (∀ k' off', k < k' → offs[k']? = some (some off') → off + n ≤ off')) ∧
      (∀ i, i < b.length → IsPadAt cfg fs offs i → b[i]? = some 0) := by
  simp only [Ty.fragS] at hS
  simp only [Ty.uniformAlign, Bool.and_eq_true, beq_iff_eq] at hu
  simp only [Ty.pow2Aligned] at hp
  cases hv with
  | @struct _ _ _ hvs =>
    rw [structLayout_S cfg al fs hS] at hl
    cases hl
    have hdv : al = true → allAlignDvd cfg 0 fs :=
      fun _ => allAlignDvd_of_sAlign cfg al fs hp 0 (Nat.dvd_zero _)
    obtain ⟨out, w1, l1, hm, hz⟩ := dump_fields cfg al fs hS hu.2 hp vs hvs 0 0 hdv
    simp only [Nat.add_zero, Nat.zero_add] at w1 l1 hm hz
    generalize hM : Fields.maxAlign cfg fs 0 = M at *
    generalize hE : endOff cfg al fs 0 = E at *
    have hd : dumps cfg (.struct al fs) (.record vs) = .ok (if al then out ++ zeros (padNat (0 + out.length) M) else out) := by
      unfold dumps
      rw [write_struct, structLayout_S cfg al fs hS]
      simp only [Except.bind, w1, flushBits_empty, List.append_nil, hM]
    refine ⟨_, hd, ?_, ?_, ?_⟩
    · cases al <;> simp [alignTo, l1, zeros]
    · intro k t ht
      obtain ⟨off, n, w0, enc, a1, a2, a3, a4, a5, _, a7, a8, a9⟩ := hm k t ht
      refine ⟨off, n, w0, enc, a1, a2, a3, a4, a5, ?_, ?_, a9⟩
      · cases al <;> simp [l1] <;> omega
      · intro j hj
        have := a8 j hj
        rw [Nat.sub_zero] at this
        cases al with
        | false => simpa using this
        | true =>
          simp only [if_true]
          rw [List.getElem?_append_left (by omega)]
          exact this
    · intro i hi hpadi
      cases al with
      | false => simp only [Bool.false_eq_true, if_false] at hi ⊢; exact hz i hi hpadi
      | true =>
        simp only [if_true] at hi ⊢
        by_cases hlt : i < out.length
        · rw [List.getElem?_append_left hlt]; exact hz i hlt hpadi
        · rw [List.getElem?_append_right (by omega)]
          apply zeros_getElem?
          simp only [List.length_append, zeros, List.length_replicate] at hi
          omega

end Cstruct.C17.Lemmas
