/-
  C10, text level — helper lemmas, part B: the tokenizer step for each well-formed token, `normTok` on each token
  class, and the induction over the rendered text.
-/
import Proofs.Lemmas.C10TextA

namespace Cstruct.Expr.C10.TextLemmas
open Cstruct Cstruct.Expr Cstruct.Expr.C10

/-! ### Literals -/

/-- every literal body is a digit followed by characters that are hexadecimal digits or `x`/`X`/`b`/`B` -/
theorem wflit_shape {body : List Char} (h : WFLit body) :
    ∃ c ds, body = c :: ds ∧ c.isDigit = true ∧
      ∀ d ∈ ds, isSuffixChar d = false ∧ isIdChar d = true := by
  cases h with
  | zero => exact ⟨'0', [], rfl, rfl, fun _ h => by cases h⟩
  | @dec c ds hc _ hds =>
    exact ⟨c, ds, rfl, hc, fun d hd =>
      ⟨hexDigit_not_suffix (digit_hexDigit (hds d hd)), digit_idChar (hds d hd)⟩⟩
  | @hex p ds hp _ hds =>
    refine ⟨'0', p :: ds, rfl, rfl, fun d hd => ?_⟩
    simp only [List.mem_cons] at hd
    rcases hd with rfl | hd
    · rcases hp with rfl | rfl <;> exact ⟨rfl, rfl⟩
    · exact ⟨hexDigit_not_suffix (hds d hd), hexDigit_idChar (hds d hd)⟩
  | @bin p ds hp _ hds =>
    refine ⟨'0', p :: ds, rfl, rfl, fun d hd => ?_⟩
    simp only [List.mem_cons] at hd
    rcases hd with rfl | hd
    · rcases hp with rfl | rfl <;> exact ⟨rfl, rfl⟩
    · have := binDigit_digit (hds d hd)
      exact ⟨hexDigit_not_suffix (digit_hexDigit this), digit_idChar this⟩
  | @oct ds _ hds =>
    refine ⟨'0', ds, rfl, rfl, fun d hd => ?_⟩
    have := octDigit_digit (hds d hd)
    exact ⟨hexDigit_not_suffix (digit_hexDigit this), digit_idChar this⟩

theorem suffix_takeWhile {sfx : List Char} (h : IsSuffix sfx) :
    sfx.takeWhile (fun d => !isSuffixChar d) = [] := by
  cases sfx with
  | nil => rfl
  | cons a r =>
    have := suffix_chars h a (by simp)
    simp only [List.takeWhile, this, Bool.not_true]

theorem normTok_lit {body sfx : List Char} (hb : WFLit body) (hs : IsSuffix sfx) :
    normTok (String.ofList (body ++ sfx)) = String.ofList (octRewrite body) := by
  obtain ⟨c, ds, rfl, hc, hds⟩ := wflit_shape hb
  have htw : (ds ++ sfx).takeWhile (fun d => !isSuffixChar d) = ds := by
    rw [List.takeWhile_append_of_pos (fun a ha => by rw [(hds a ha).1]; rfl), suffix_takeWhile hs,
      List.append_nil]
  simp only [normTok, String.toList_ofList, List.cons_append, hc, if_true, htw]

theorem normTok_ident {c : Char} {cs : List Char} (hc : isIdStart c = true) :
    normTok (String.ofList (c :: cs)) = String.ofList (c :: cs) := by
  simp only [normTok, String.toList_ofList, idStart_not_digit hc, Bool.false_eq_true, if_false]

theorem normTok_op {c : Char} (hc : isOperatorChar c = true) :
    normTok (String.singleton c) = String.singleton c := by
  simp only [normTok, String.toList_singleton, (opChar_facts c (mem_ops hc)).1, Bool.false_eq_true, if_false]

theorem normTok_shl : normTok "<<" = "<<" := by decide
theorem normTok_shr : normTok ">>" = ">>" := by decide

/-- after the digits of a literal: the suffix (if any) and then a boundary -/
theorem tail_head {sfx rest : List Char} (hs : IsSuffix sfx) (hb : Boundary rest) :
    ∀ s, (sfx ++ rest).head? = some s → isHexDigit s = false ∧ isHexBinSuffix s = false := by
  intro s hs'
  cases sfx with
  | nil =>
    have := hb s hs'
    exact ⟨not_of_not_idChar isHexDigit (fun _ => hexDigit_idChar) this,
      not_of_not_idChar isHexBinSuffix (fun _ => hexbin_idChar) this⟩
  | cons a r =>
    simp only [List.cons_append, List.head?_cons, Option.some.injEq] at hs'
    subst hs'
    have ha := suffix_chars hs a (by simp)
    constructor
    · cases h : isHexDigit a with
      | false => rfl
      | true => have := hexDigit_not_suffix h; rw [ha] at this; cases this
    · cases h : isHexBinSuffix a with
      | false => rfl
      | true => have := hexbin_not_suffix h; rw [ha] at this; cases this

theorem head_digits {ds tl : List Char} (hds : ∀ d ∈ ds, d.isDigit = true)
    (htl : ∀ s, tl.head? = some s → isHexBinSuffix s = false) :
    ∀ s, (ds ++ tl).head? = some s → isHexBinSuffix s = false := by
  cases ds with
  | nil => exact htl
  | cons d ds' =>
    intro s hs
    simp only [List.cons_append, List.head?_cons, Option.some.injEq] at hs
    subst hs
    exact digit_not_hexbin (hds d (by simp))

theorem step_lit (fuel : Nat) {body sfx rest : List Char} (acc : List String)
    (hbody : WFLit body) (hs : IsSuffix sfx) (hb : Boundary rest) :
    tokenizeAux (fuel + 1) (body ++ sfx ++ rest) acc =
      tokenizeAux fuel rest (String.ofList (octRewrite body) :: acc) := by
  have hth := tail_head hs hb
  have htl : ∀ s, (sfx ++ rest).head? = some s → isHexDigit s = false := fun s h => (hth s h).1
  have htb : ∀ s, (sfx ++ rest).head? = some s → isHexBinSuffix s = false := fun s h => (hth s h).2
  have hskip := skipSuffix_suffix hs hb
  cases hbody with
  | zero =>
    have := step_number fuel '0' [] [] (sfx ++ rest) acc rfl (Or.inl ⟨rfl, htb⟩) (fun _ h => by cases h) htl
    rw [hskip] at this
    simpa only [List.append_assoc, List.nil_append, List.cons_append, List.append_nil] using this
  | @dec c ds hc _ hds =>
    have := step_number fuel c [] ds (sfx ++ rest) acc hc (Or.inl ⟨rfl, head_digits hds htb⟩)
      (fun d hd => digit_hexDigit (hds d hd)) htl
    rw [hskip] at this
    simpa only [List.append_assoc, List.nil_append, List.cons_append, List.append_nil] using this
  | @hex p ds hp hne hds =>
    have hp' : isHexBinSuffix p = true := by rcases hp with rfl | rfl <;> rfl
    have := step_number fuel '0' [p] ds (sfx ++ rest) acc rfl (Or.inr ⟨p, rfl, hp', hne⟩) hds htl
    rw [hskip] at this
    simpa only [List.append_assoc, List.nil_append, List.cons_append, List.append_nil] using this
  | @bin p ds hp hne hds =>
    have hp' : isHexBinSuffix p = true := by rcases hp with rfl | rfl <;> rfl
    have := step_number fuel '0' [p] ds (sfx ++ rest) acc rfl (Or.inr ⟨p, rfl, hp', hne⟩)
      (fun d hd => digit_hexDigit (binDigit_digit (hds d hd))) htl
    rw [hskip] at this
    simpa only [List.append_assoc, List.nil_append, List.cons_append, List.append_nil] using this
  | @oct ds hne hds =>
    have hdig : ∀ d ∈ ds, d.isDigit = true := fun d hd => octDigit_digit (hds d hd)
    have := step_number fuel '0' [] ds (sfx ++ rest) acc rfl (Or.inl ⟨rfl, head_digits hdig htb⟩)
      (fun d hd => digit_hexDigit (hdig d hd)) htl
    rw [hskip] at this
    simpa only [List.append_assoc, List.nil_append, List.cons_append, List.append_nil] using this

/-! ### One token -/

theorem wftok_nonempty {t : String} (h : WFTok t) : ∃ c cs, t.toList = c :: cs := by
  cases h with
  | @op c _ => exact ⟨c, [], String.toList_singleton c⟩
  | shl => exact ⟨'<', ['<'], by decide⟩
  | shr => exact ⟨'>', ['>'], by decide⟩
  | @ident c cs _ _ => exact ⟨c, cs, String.toList_ofList⟩
  | @lit body sfx hb _ =>
    obtain ⟨c, ds, rfl, _, _⟩ := wflit_shape hb
    exact ⟨c, ds ++ sfx, by rw [String.toList_ofList]; rfl⟩

theorem step_tok (fuel : Nat) {t : String} (rest : List Char) (acc : List String) (h : WFTok t)
    (hb : isWordTok t = true → Boundary rest) :
    tokenizeAux (fuel + 1) (t.toList ++ rest) acc = tokenizeAux fuel rest (normTok t :: acc) := by
  cases h with
  | @op c hc =>
    rw [String.toList_singleton, normTok_op hc]
    exact step_op fuel c rest acc hc
  | shl =>
    rw [normTok_shl]
    have : "<<".toList = ['<', '<'] := by decide
    rw [this]
    exact step_shl fuel rest acc
  | shr =>
    rw [normTok_shr]
    have : ">>".toList = ['>', '>'] := by decide
    rw [this]
    exact step_shr fuel rest acc
  | @ident c cs hc hcs =>
    have hw : isWordTok (String.ofList (c :: cs)) = true := by
      simp only [isWordTok, String.toList_ofList]; exact idStart_idChar hc
    rw [normTok_ident hc, String.toList_ofList]
    exact step_ident fuel c cs rest acc hc hcs (hb hw)
  | @lit body sfx hbody hs =>
    have hw : isWordTok (String.ofList (body ++ sfx)) = true := by
      obtain ⟨c, ds, rfl, hc, _⟩ := wflit_shape hbody
      simp only [isWordTok, String.toList_ofList, List.cons_append]; exact digit_idChar hc
    rw [normTok_lit hbody hs, String.toList_ofList]
    exact step_lit fuel acc hbody hs (hb hw)

/-! ### Blanks -/

theorem tokenizeAux_nil (fuel : Nat) (acc : List String) : tokenizeAux fuel [] acc = .ok acc.reverse := by
  cases fuel <;> rw [tokenizeAux.eq_def]

theorem skip_blanks (bl rest : List Char) (hbl : ∀ c ∈ bl, c = ' ' ∨ c = '\t') :
    ∀ fuel acc, (bl ++ rest).length ≤ fuel →
      ∃ fuel', rest.length ≤ fuel' ∧ tokenizeAux fuel (bl ++ rest) acc = tokenizeAux fuel' rest acc := by
  induction bl with
  | nil => intro fuel acc h; exact ⟨fuel, h, rfl⟩
  | cons c bl ih =>
    intro fuel acc h
    cases fuel with
    | zero => simp at h
    | succ f =>
      simp only [List.cons_append, List.length_cons] at h
      obtain ⟨f', h1, h2⟩ := ih (fun x hx => hbl x (by simp [hx])) f acc (by omega)
      exact ⟨f', h1, by rw [List.cons_append, step_blank f c _ acc (hbl c (by simp)), h2]⟩

/-! ### The rendered text -/

theorem render_nil (seps : List String) : (render seps []).toList = (seps.headD "").toList := rfl

theorem render_cons (seps : List String) (t : String) (ts : List String) :
    (render seps (t :: ts)).toList = (seps.headD "").toList ++ (t.toList ++ (render seps.tail ts).toList) := by
  simp only [render, String.toList_append, List.append_assoc]

theorem blank_head {s : String} (hs : IsBlank s) {c : Char} {r : List Char} (h : s.toList = c :: r) :
    isIdChar c = false := by
  rcases hs c (by rw [h]; simp) with rfl | rfl <;> rfl

/-- what follows a word token in an admissibly separated text is a boundary -/
theorem boundary_render (seps : List String) (ts : List String) (hwf : ∀ t ∈ ts, WFTok t)
    (hsep : SepOk seps ts)
    (hfirst : ∀ t', ts.head? = some t' → isWordTok t' = true → seps.headD "" ≠ "") :
    Boundary (render seps ts).toList := by
  cases ts with
  | nil =>
    rw [render_nil]
    intro c hc
    cases hl : (seps.headD "").toList with
    | nil => rw [hl] at hc; cases hc
    | cons c' r => rw [hl] at hc; cases hc; exact blank_head hsep hl
  | cons t' ts' =>
    rw [render_cons]
    intro c hc
    cases hl : (seps.headD "").toList with
    | nil =>
      have hem : seps.headD "" = "" := String.toList_eq_nil_iff.mp hl
      obtain ⟨c', cs', ht'⟩ := wftok_nonempty (hwf t' (by simp))
      rw [hl, ht'] at hc
      cases hc
      cases hw : isWordTok t' with
      | true => exact absurd hem (hfirst t' rfl hw)
      | false => simpa only [isWordTok, ht'] using hw
    | cons c' r => rw [hl] at hc; cases hc; exact blank_head hsep.1 hl

theorem tokenizeAux_render (ts : List String) : ∀ (seps : List String) (fuel : Nat) (acc : List String),
    (∀ t ∈ ts, WFTok t) → SepOk seps ts → (render seps ts).toList.length ≤ fuel →
    tokenizeAux fuel (render seps ts).toList acc = .ok (acc.reverse ++ ts.map normTok) := by
  induction ts with
  | nil =>
    intro seps fuel acc _ hsep hlen
    rw [render_nil] at hlen ⊢
    obtain ⟨f', _, h⟩ := skip_blanks (seps.headD "").toList [] hsep fuel acc (by simpa using hlen)
    rw [List.append_nil] at h
    rw [h, tokenizeAux_nil]; simp
  | cons t ts ih =>
    intro seps fuel acc hwf hsep hlen
    obtain ⟨hbl, hfuse, hrest⟩ := hsep
    rw [render_cons] at hlen ⊢
    obtain ⟨f', hf', h⟩ := skip_blanks (seps.headD "").toList _ hbl fuel acc hlen
    rw [h]
    obtain ⟨c, cs, htl⟩ := wftok_nonempty (hwf t (by simp))
    cases f' with
    | zero => rw [htl] at hf'; simp at hf'
    | succ f =>
      have hwf' : ∀ t ∈ ts, WFTok t := fun x hx => hwf x (by simp [hx])
      rw [step_tok f _ acc (hwf t (by simp))
        (fun hw => boundary_render seps.tail ts hwf' hrest (fun t' ht' hw' => hfuse t' ht' hw hw'))]
      have hlen' : (render seps.tail ts).toList.length ≤ f := by
        rw [htl] at hf'; simp only [List.cons_append, List.length_cons, List.length_append] at hf'; omega
      rw [ih seps.tail f (normTok t :: acc) hwf' hrest hlen']
      simp

theorem tokenize_render (seps ts : List String) (hwf : ∀ t ∈ ts, WFTok t) (hsep : SepOk seps ts) :
    tokenize (render seps ts) = .ok (ts.map normTok) := by
  unfold tokenize
  rw [tokenizeAux_render ts seps _ [] hwf hsep (by rw [String.length_toList]; omega)]
  simp

end Cstruct.Expr.C10.TextLemmas
